(* C09: bit-field read/write of UintVecMin0, by bit extensionality. *)
From ZV.Common Require Import Base.
From ZV.C09 Require Import Model.
Open Scope N_scope.

Lemma tb_ones n k : N.testbit (N.ones n) k = (k <? n).
Proof.
  destruct (N.ltb_spec k n) as [H|H].
  - apply N.ones_spec_low. exact H.
  - apply N.ones_spec_high. exact H.
Qed.
Lemma tb_shiftl a s k : N.testbit (N.shiftl a s) k = (s <=? k) && N.testbit a (k - s).
Proof.
  destruct (N.leb_spec s k) as [H|H]; cbn [andb].
  - apply N.shiftl_spec_high'. exact H.
  - apply N.shiftl_spec_low. exact H.
Qed.
Lemma tb_shiftr a s k : N.testbit (N.shiftr a s) k = N.testbit a (k + s).
Proof. apply N.shiftr_spec'. Qed.
Lemma tb_ones64 k : N.testbit ones64 k = (k <? 64).
Proof. unfold ones64. apply tb_ones. Qed.
Lemma tb_trunc64 a k : N.testbit (trunc64 a) k = N.testbit a k && (k <? 64).
Proof. unfold trunc64. rewrite N.land_spec, tb_ones64. reflexivity. Qed.
Global Opaque ones64.

Ltac tb := repeat first [rewrite N.lor_spec | rewrite N.land_spec | rewrite N.ldiff_spec | rewrite tb_trunc64 | rewrite tb_shiftl | rewrite tb_shiftr | rewrite tb_ones | rewrite tb_ones64].

Ltac cmp_cases :=
  repeat match goal with
  | |- context [?a <? ?b] => destruct (N.ltb_spec a b)
  | |- context [?a <=? ?b] => destruct (N.leb_spec a b)
  end.

Lemma small_testbit v n k : v < 2 ^ n -> n <= k -> N.testbit v k = false.
Proof.
  intros Hv Hk. destruct (N.eq_dec v 0) as [->|Hz]; [apply N.bits_0|].
  apply N.bits_above_log2. apply N.log2_lt_pow2 in Hv; lia.
Qed.

Lemma load64_spec m i v : load64 m i = Ok v ->
  forall k, N.testbit v k = (k <? 64) && N.testbit (mem m) (8 * i + k).
Proof.
  unfold load64. destruct (memlen m <? i + 8); [discriminate|]. intros H; inversion H; subst. intros k.
  tb. rewrite andb_comm. f_equal. f_equal. lia.
Qed.

Lemma store64_spec m i v m' : store64 m i v = Ok m' ->
  (forall n, N.testbit (mem m') n =
     if (8 * i <=? n) && (n <? 8 * i + 64) then N.testbit v (n - 8 * i) else N.testbit (mem m) n)
  /\ memlen m' = memlen m /\ bits m' = bits m /\ mask m' = mask m /\ size m' = size m.
Proof.
  unfold store64. destruct (memlen m <? i + 8); [discriminate|]. intros H; injection H as <-; cbn [mem memlen bits mask size].
  repeat split. intros n. tb.
  destruct (N.leb_spec (8 * i) n) as [H1|H1]; cbn [andb].
  - destruct (N.ltb_spec n (8 * i + 64)) as [H2|H2].
    + replace (n - 8 * i <? 64) with true by (symmetry; apply N.ltb_lt; lia).
      destruct (N.testbit (mem m) n); destruct (N.testbit v (n - 8 * i)); reflexivity.
    + replace (n - 8 * i <? 64) with false by (symmetry; apply N.ltb_ge; lia).
      destruct (N.testbit (mem m) n); destruct (N.testbit v (n - 8 * i)); reflexivity.
  - destruct (N.testbit (mem m) n); reflexivity.
Qed.

(* a single-word field write replaces exactly the field's bits *)
Lemma set_uint_bits_spec m pos nb val m' :
  0 < nb -> nb < 64 -> pos mod 8 + nb <= 64 -> val < 2 ^ nb ->
  set_uint_bits m pos nb val = Ok m' ->
  (forall n, N.testbit (mem m') n =
     if (pos <=? n) && (n <? pos + nb) then N.testbit val (n - pos) else N.testbit (mem m) n)
  /\ memlen m' = memlen m /\ bits m' = bits m /\ mask m' = mask m /\ size m' = size m.
Proof.
  intros Hnb0 Hnb Hfit Hval. unfold set_uint_bits.
  replace (nb =? 0) with false by (symmetry; apply N.eqb_neq; lia).
  replace (pos mod 8 + nb <=? 64) with true by (symmetry; apply N.leb_le; exact Hfit).
  replace (nb =? 64) with false by (symmetry; apply N.eqb_neq; lia).
  destruct (load64 m (pos / 8)) as [cur| |] eqn:Hload; cbn [bind]; try discriminate.
  intros Hst. pose proof (load64_spec _ _ _ Hload) as Hcur.
  destruct (store64_spec _ _ _ _ Hst) as (Hbits & Hrest). split; [|exact Hrest].
  intros n. rewrite Hbits. clear Hbits Hst Hrest.
  assert (Hpos : pos = 8 * (pos / 8) + pos mod 8) by (apply N.div_mod; discriminate).
  set (q := pos / 8) in *. set (r := pos mod 8) in *.
  assert (Hr : r < 8) by (apply N.mod_lt; discriminate).
  destruct (N.leb_spec (8 * q) n) as [H1|H1]; cbn [andb].
  2:{ replace (pos <=? n) with false by (symmetry; apply N.leb_gt; lia). reflexivity. }
  destruct (N.ltb_spec n (8 * q + 64)) as [H2|H2].
  2:{ replace (n <? pos + nb) with false by (symmetry; apply N.ltb_ge; lia).
      rewrite andb_false_r. reflexivity. }
  tb. rewrite Hcur.
  replace (n - 8 * q <? 64) with true by (symmetry; apply N.ltb_lt; lia).
  replace (8 * q + (n - 8 * q)) with n by lia.
  rewrite !andb_true_r. cbn [andb].
  destruct (N.leb_spec pos n) as [H3|H3]; destruct (N.ltb_spec n (pos + nb)) as [H4|H4]; cbn [andb].
  - (* inside the field *)
    replace (r <=? n - 8 * q) with true by (symmetry; apply N.leb_le; lia).
    replace (n - 8 * q - r <? nb) with true by (symmetry; apply N.ltb_lt; lia).
    cbn [andb negb]. rewrite andb_false_r. cbn [orb].
    f_equal. lia.
  - (* above the field *)
    replace (r <=? n - 8 * q) with true by (symmetry; apply N.leb_le; lia).
    replace (n - 8 * q - r <? nb) with false by (symmetry; apply N.ltb_ge; lia).
    cbn [andb negb]. rewrite andb_true_r.
    rewrite (small_testbit val nb) by (try exact Hval; lia). rewrite orb_false_r. reflexivity.
  - (* below the field *)
    replace (r <=? n - 8 * q) with false by (symmetry; apply N.leb_gt; lia).
    cbn [andb negb]. rewrite andb_true_r, orb_false_r. reflexivity.
  - lia.
Qed.

(* for every width the read path supports, a field never straddles the 64-bit window *)
Lemma field_fits_finite :
  forallb (fun b => forallb (fun i => (b * i) mod 8 + b <=? 64) (map N.of_nat (seq 0 8)))
          (map N.of_nat (seq 0 59)) = true.
Proof. vm_compute. reflexivity. Qed.

Lemma field_fits b idx : b <= 58 -> (b * idx) mod 8 + b <= 64.
Proof.
  intros Hb.
  assert (Hmod : (b * idx) mod 8 = (b * (idx mod 8)) mod 8).
  { rewrite (N.mul_mod_idemp_r b idx 8) by discriminate. reflexivity. }
  rewrite Hmod.
  pose proof field_fits_finite as F. rewrite forallb_forall in F.
  assert (Hin : In b (map N.of_nat (seq 0 59))).
  { apply in_map_iff. exists (N.to_nat b). split; [lia|]. apply in_seq. lia. }
  specialize (F b Hin). rewrite forallb_forall in F.
  assert (Hi : idx mod 8 < 8) by (apply N.mod_lt; discriminate).
  assert (Hin2 : In (idx mod 8) (map N.of_nat (seq 0 8))).
  { apply in_map_iff. exists (N.to_nat (idx mod 8)). split; [lia|]. apply in_seq. lia. }
  specialize (F _ Hin2). apply N.leb_le in F. exact F.
Qed.

Lemma fast_get_spec m idx v :
  bits m <= 58 -> mask m = N.ones (bits m) -> fast_get_internal m idx = Ok v ->
  forall k, N.testbit v k = (k <? bits m) && N.testbit (mem m) (bits m * idx + k).
Proof.
  intros Hb Hmask. unfold fast_get_internal.
  destruct (load64 m (bits m * idx / 8)) as [w| |] eqn:Hload; cbn [bind]; try discriminate.
  intros H; inversion H; subst; clear H. intros k.
  pose proof (load64_spec _ _ _ Hload) as Hw. pose proof (field_fits (bits m) idx Hb) as Hfit.
  assert (Hpos : bits m * idx = 8 * (bits m * idx / 8) + (bits m * idx) mod 8) by (apply N.div_mod; discriminate).
  rewrite Hmask. tb. rewrite Hw.
  destruct (N.ltb_spec k (bits m)) as [Hk|Hk]; [|rewrite andb_false_r; reflexivity].
  replace (k + (bits m * idx) mod 8 <? 64) with true by (symmetry; apply N.ltb_lt; lia).
  cbn [andb]. rewrite andb_true_r. f_equal. lia.
Qed.
