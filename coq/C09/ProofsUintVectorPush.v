(* C09: UintVector - get on a built vector, and incremental construction by push (recompression every 64 pushes)
   against bulk construction. *)
From ZV.Common Require Import Base.
From ZV.C09 Require Import Model ProofsBits ProofsVec ModelSorted ModelIntVec ProofsIntVecBits ProofsIntVecPack
  ProofsIntVecGet ProofsIntVecAnalysis ModelUintVector ProofsUintVector.
Open Scope N_scope.

(* ---------- bulk ---------- *)
Lemma uv_build_from_ne fc vals : vals <> [] -> uv_build_from fc vals = uv_build_with (uv_analyze fc vals) vals.
Proof. intros H. destruct vals; [congruence|reflexivity]. Qed.

Theorem uv_build_from_get fc vals : Forall (fun v => v < W32c) vals ->
  exists v, uv_build_from fc vals = IOk v /\ ulen v = nlen vals /\ utemp v = [] /\
    (forall i, (i < length vals)%nat -> uv_get v (N.of_nat i) = IOk (Some (nth i vals 0))) /\
    (forall i, nlen vals <= i -> uv_get v i = IOk None).
Proof.
  intros H32. destruct (list_eq_dec N.eq_dec vals []) as [->|Hne].
  - exists uv_new. split; [reflexivity|]. split; [reflexivity|]. split; [reflexivity|]. split; [intros i Hi; cbn in Hi; lia|].
    intros i _. unfold uv_get, uv_new; cbn [ulen]. replace (0 <=? i) with true by (symmetry; apply N.leb_le; lia). reflexivity.
  - destruct (uv_build_with_get (uv_analyze fc vals) vals Hne H32 (uv_analyze_covers fc vals Hne H32))
      as (v & Hb & Hs & Hl & Ht & Hg).
    exists v. rewrite uv_build_from_ne by exact Hne. split; [exact Hb|]. split; [exact Hl|]. split; [exact Ht|]. split.
    + intros i Hi. unfold uv_get. rewrite Hl, Ht.
      replace (nlen vals <=? N.of_nat i) with false by (symmetry; apply N.leb_gt; rewrite nlen_length; lia).
      rewrite Hs. apply Hg. exact Hi.
    + intros i Hi. unfold uv_get. rewrite Hl. replace (nlen vals <=? i) with true by (symmetry; apply N.leb_le; exact Hi). reflexivity.
Qed.

(* ---------- push ---------- *)
Lemma map_nth_seq : forall (l a : list N), map (fun j => nth j (a ++ l) 0) (seq (length a) (length l)) = l.
Proof.
  induction l as [|x t IH]; intros a; [reflexivity|].
  cbn [length seq map]. rewrite nth_middle. f_equal.
  replace (a ++ x :: t) with ((a ++ [x]) ++ t) by (rewrite <- app_assoc; reflexivity).
  replace (S (length a)) with (length (a ++ [x])) by (rewrite app_length; cbn [length]; lia). apply IH.
Qed.

Lemma uv_extract_spec s d pre : forall cnt i, (i + cnt <= length pre)%nat ->
  (forall j, (j < length pre)%nat -> uv_get_compressed s d (N.of_nat j) = IOk (Some (nth j pre 0))) ->
  uv_extract s d (N.of_nat i) cnt = IOk (map (fun j => nth j pre 0) (seq i cnt)).
Proof.
  induction cnt as [|cnt IH]; intros i Hle Hg; [reflexivity|].
  cbn [uv_extract seq map]. rewrite Hg by lia. cbn [ibind].
  replace (N.of_nat i + 1) with (N.of_nat (S i)) by lia. rewrite IH by (try assumption; lia). reflexivity.
Qed.

(* the state after pushing xs: the compressed part is the bulk build of the leading whole groups of 64, the rest is pending *)
Definition pinv (fc : fcmp) (v : uvec) (xs : list N) : Prop :=
  let k := (64 * (length xs / 64))%nat in
  ulen v = nlen xs /\ utemp v = skipn k xs /\
  exists v0, uv_build_from fc (firstn k xs) = IOk v0 /\ ustrat v = ustrat v0 /\ udata v = udata v0.

Lemma pinv_new fc : pinv fc uv_new [].
Proof. unfold pinv. cbn. split; [reflexivity|]. split; [reflexivity|]. exists uv_new. repeat split. Qed.

Lemma div64_step n : ((n + 1) mod 64 <> 0 -> (n + 1) / 64 = n / 64)%nat /\ ((n + 1) mod 64 = 0 -> 64 * ((n + 1) / 64) = n + 1)%nat.
Proof.
  pose proof (Nat.div_mod n 64 ltac:(lia)). pose proof (Nat.mod_upper_bound n 64 ltac:(lia)).
  pose proof (Nat.div_mod (n + 1) 64 ltac:(lia)). pose proof (Nat.mod_upper_bound (n + 1) 64 ltac:(lia)).
  split; intros; lia.
Qed.

Lemma pinv_push fc v xs x : Forall (fun a => a < W32c) (xs ++ [x]) -> pinv fc v xs ->
  exists v', uv_push fc v x = IOk v' /\ pinv fc v' (xs ++ [x]).
Proof.
  intros H32 (Hl & Ht & v0 & Hb & Hs & Hd). unfold uv_push.
  set (k := (64 * (length xs / 64))%nat) in *.
  assert (Hk : (k <= length xs)%nat) by (unfold k; pose proof (Nat.div_mod (length xs) 64 ltac:(lia)); lia).
  assert (Htl : length (utemp v) = (length xs mod 64)%nat).
  { rewrite Ht, skipn_length. unfold k. pose proof (Nat.div_mod (length xs) 64 ltac:(lia)). lia. }
  assert (Hmodlt : (length xs mod 64 < 64)%nat) by (apply Nat.mod_upper_bound; lia).
  cbn [utemp]. rewrite nlen_app. cbn [nlen]. rewrite nlen_length, Htl.
  destruct (div64_step (length xs)) as [Hsame Hcross].
  assert (Hn1 : ((length xs + 1) mod 64 = (length xs mod 64 + 1) mod 64)%nat).
  { rewrite Nat.add_mod by lia. rewrite (Nat.mod_small 1 64) by lia. reflexivity. }
  destruct (Nat.eq_dec ((length xs + 1) mod 64) 0) as [Hz|Hnz].
  - (* the 64th pending value: recompress everything *)
    assert (Hfull : (length xs mod 64 = 63)%nat).
    { rewrite Hn1 in Hz. destruct (Nat.eq_dec (length xs mod 64) 63) as [E|E]; [exact E|].
      rewrite Nat.mod_small in Hz by lia. lia. }
    replace ((N.of_nat (length xs mod 64) + (1 + 0)) mod 64 =? 0) with true by (symmetry; apply N.eqb_eq; rewrite Hfull; reflexivity).
    cbn [orb]. unfold uv_recompress_all. cbn [utemp ustrat udata ulen].
    destruct (utemp v ++ [x]) as [|t0 tr] eqn:Htemp; [destruct (utemp v); discriminate|]. rewrite <- Htemp.
    rewrite nlen_app. cbn [nlen]. rewrite nlen_length, Htl, Hl, nlen_length.
    replace (N.to_nat (N.of_nat (length xs) + 1 - (N.of_nat (length xs mod 64) + (1 + 0)))) with k.
    2:{ unfold k. pose proof (Nat.div_mod (length xs) 64 ltac:(lia)). lia. }
    (* what is stored reads back as the leading groups *)
    assert (H32pre : Forall (fun a => a < W32c) (firstn k xs)).
    { apply Forall_forall. intros a Ha. rewrite Forall_forall in H32. apply H32. apply in_or_app. left. eapply in_firstn; eauto. }
    assert (Hext : uv_extract (ustrat v) (udata v) 0 k = IOk (firstn k xs)).
    { destruct (firstn k xs) as [|p0 pr] eqn:Hpre.
      - assert (k = 0)%nat by (apply (f_equal (@length N)) in Hpre; rewrite firstn_length in Hpre; cbn [length] in Hpre; lia).
        rewrite H. reflexivity.
      - rewrite <- Hpre in *. assert (Hne : firstn k xs <> []) by (rewrite Hpre; discriminate).
        destruct (uv_build_with_get (uv_analyze fc (firstn k xs)) (firstn k xs) Hne H32pre
                    (uv_analyze_covers fc _ Hne H32pre)) as (vb & Hbb & Hsb & _ & _ & Hgb).
        rewrite uv_build_from_ne in Hb by exact Hne. rewrite Hbb in Hb. injection Hb as <-.
        rewrite Hs, Hd, Hsb.
        pose proof (uv_extract_spec (uv_analyze fc (firstn k xs)) (udata vb) (firstn k xs) (length (firstn k xs)) 0 ltac:(lia) Hgb) as He.
        replace (length (firstn k xs)) with k in He at 1 by (rewrite firstn_length; lia).
        cbn [N.of_nat] in He. rewrite He.
        pose proof (map_nth_seq (firstn k xs) []) as Hm. cbn [app length] in Hm. rewrite Hm. reflexivity. }
    rewrite Hext. cbn [ibind].
    assert (Hall : firstn k xs ++ utemp v ++ [x] = xs ++ [x]).
    { rewrite Ht, app_assoc, firstn_skipn. reflexivity. }
    rewrite Hall.
    assert (Hne : xs ++ [x] <> []) by (destruct xs; discriminate).
    destruct (uv_build_with_get (uv_analyze fc (xs ++ [x])) (xs ++ [x]) Hne H32 (uv_analyze_covers fc _ Hne H32))
      as (vn & Hbn & Hsn & Hln & Htn & _).
    unfold uv_build_with in Hbn. destruct (uv_compress (xs ++ [x]) (uv_analyze fc (xs ++ [x]))) as [d| | |] eqn:Hc; cbn [ibind] in Hbn; try discriminate.
    injection Hbn as <-. cbn [ibind]. eexists. split; [reflexivity|].
    unfold pinv. cbn [ulen utemp ustrat udata]. rewrite app_length. cbn [length].
    rewrite (Hcross Hz). rewrite nlen_app. cbn [nlen]. split; [rewrite nlen_length; lia|].
    replace (length xs + 1)%nat with (length (xs ++ [x])) by (rewrite app_length; reflexivity).
    rewrite skipn_all, firstn_all. split; [reflexivity|].
    exists {| ustrat := uv_analyze fc (xs ++ [x]); udata := d; ulen := nlen (xs ++ [x]); utemp := [] |}.
    split; [|split; reflexivity].
    rewrite uv_build_from_ne by exact Hne. unfold uv_build_with. rewrite Hc. reflexivity.
  - (* an ordinary push: the value stays pending *)
    assert (Hlt : (length xs mod 64 + 1 < 64)%nat).
    { rewrite Hn1 in Hnz. destruct (Nat.eq_dec (length xs mod 64 + 1) 64) as [E|E]; [rewrite E in Hnz; cbn in Hnz; lia|lia]. }
    replace ((N.of_nat (length xs mod 64) + (1 + 0)) mod 64 =? 0) with false.
    2:{ symmetry. apply N.eqb_neq. rewrite N.mod_small by lia. lia. }
    replace (1000 <? N.of_nat (length xs mod 64) + (1 + 0)) with false by (symmetry; apply N.ltb_ge; lia).
    cbn [orb]. eexists. split; [reflexivity|].
    unfold pinv. cbn [ulen utemp ustrat udata]. rewrite app_length. cbn [length]. rewrite (Hsame Hnz). fold k.
    split; [rewrite Hl, nlen_app; cbn [nlen]; lia|]. split.
    + rewrite Ht. rewrite skipn_app. replace (k - length xs)%nat with 0%nat by lia. reflexivity.
    + exists v0. split; [|split; assumption]. rewrite firstn_app. replace (k - length xs)%nat with 0%nat by lia.
      cbn [firstn]. rewrite app_nil_r. exact Hb.
Qed.

Lemma pinv_push_all fc : forall ys v xs, Forall (fun a => a < W32c) (xs ++ ys) -> pinv fc v xs ->
  exists v', uv_push_all fc v ys = IOk v' /\ pinv fc v' (xs ++ ys).
Proof.
  induction ys as [|y ys IH]; intros v xs H32 Hinv.
  - exists v. split; [reflexivity|]. rewrite app_nil_r. exact Hinv.
  - cbn [uv_push_all].
    assert (H32' : Forall (fun a => a < W32c) (xs ++ [y])).
    { apply Forall_forall. intros a Ha. rewrite Forall_forall in H32. apply H32. apply in_app_or in Ha.
      apply in_or_app. destruct Ha as [Ha|[<-|[]]]; [left; exact Ha|right; left; reflexivity]. }
    destruct (pinv_push fc v xs y H32' Hinv) as (v1 & Hp & Hinv1). rewrite Hp. cbn [ibind].
    replace (xs ++ y :: ys) with ((xs ++ [y]) ++ ys) in * by (rewrite <- app_assoc; reflexivity).
    apply IH; assumption.
Qed.

Lemma pinv_get fc v xs : Forall (fun a => a < W32c) xs -> pinv fc v xs ->
  (forall i, (i < length xs)%nat -> uv_get v (N.of_nat i) = IOk (Some (nth i xs 0))) /\
  (forall i, nlen xs <= i -> uv_get v i = IOk None).
Proof.
  intros H32 (Hl & Ht & v0 & Hb & Hs & Hd). set (k := (64 * (length xs / 64))%nat) in *.
  assert (Hk : (k <= length xs)%nat) by (unfold k; pose proof (Nat.div_mod (length xs) 64 ltac:(lia)); lia).
  split.
  2:{ intros i Hi. unfold uv_get. rewrite Hl. replace (nlen xs <=? i) with true by (symmetry; apply N.leb_le; exact Hi). reflexivity. }
  intros i Hi. unfold uv_get. rewrite Hl.
  replace (nlen xs <=? N.of_nat i) with false by (symmetry; apply N.leb_gt; rewrite nlen_length; lia).
  assert (Htlen : nlen (utemp v) = N.of_nat (length xs - k)) by (rewrite Ht, nlen_length, skipn_length; reflexivity).
  assert (H32pre : Forall (fun a => a < W32c) (firstn k xs)).
  { apply Forall_forall. intros a Ha. rewrite Forall_forall in H32. apply H32. eapply in_firstn; eauto. }
  assert (Hcomp : (i < k)%nat -> uv_get_compressed (ustrat v) (udata v) (N.of_nat i) = IOk (Some (nth i xs 0))).
  { intros Hik. destruct (uv_build_from_get fc (firstn k xs) H32pre) as (vb & Hbb & Hlb & Htb & Hgb & _).
    rewrite Hbb in Hb. injection Hb as <-. rewrite Hs, Hd.
    assert (Hi' : (i < length (firstn k xs))%nat) by (rewrite firstn_length; lia).
    specialize (Hgb i Hi'). unfold uv_get in Hgb. rewrite Hlb, Htb in Hgb.
    replace (nlen (firstn k xs) <=? N.of_nat i) with false in Hgb by (symmetry; apply N.leb_gt; rewrite nlen_length; lia).
    rewrite Hgb. rewrite nth_firstn_lt by exact Hik. reflexivity. }
  destruct (utemp v) as [|t0 tr] eqn:Htv.
  - (* nothing pending *)
    assert (k = length xs) by (cbn [nlen] in Htlen; lia). apply Hcomp. lia.
  - rewrite <- Htv in *. rewrite Htlen, nlen_length.
    destruct (N.leb_spec (N.of_nat (length xs) - N.of_nat (length xs - k)) (N.of_nat i)) as [Hin|Hout].
    + assert (Hki : (k <= i)%nat) by lia. f_equal. rewrite Ht.
      replace (N.to_nat (N.of_nat i - (N.of_nat (length xs) - N.of_nat (length xs - k)))) with (i - k)%nat by lia.
      rewrite (nth_error_nth' _ 0) by (rewrite skipn_length; lia). rewrite nth_skipn_add. f_equal. f_equal. lia.
    + apply Hcomp. lia.
Qed.

Theorem uv_push_equals_bulk fc xs : Forall (fun a => a < W32c) xs ->
  exists v b, uv_push_all fc uv_new xs = IOk v /\ uv_build_from fc xs = IOk b /\
    ulen v = nlen xs /\ ulen b = nlen xs /\
    (forall i, uv_get v i = uv_get b i) /\
    (forall i, (i < length xs)%nat -> uv_get v (N.of_nat i) = IOk (Some (nth i xs 0))) /\
    (forall i, nlen xs <= i -> uv_get v i = IOk None).
Proof.
  intros H32.
  destruct (pinv_push_all fc xs uv_new [] H32 (pinv_new fc)) as (v & Hp & Hinv). cbn [app] in Hinv.
  destruct (uv_build_from_get fc xs H32) as (b & Hb & Hlb & _ & Hgb & Hpb).
  destruct (pinv_get fc v xs H32 Hinv) as [Hgv Hpv].
  exists v, b. split; [exact Hp|]. split; [exact Hb|]. split; [apply Hinv|]. split; [exact Hlb|]. split; [|split; assumption].
  intros i. destruct (N.lt_ge_cases i (nlen xs)) as [Hlt|Hge].
  - rewrite nlen_length in Hlt. replace i with (N.of_nat (N.to_nat i)) by lia.
    rewrite Hgv, Hgb by lia. reflexivity.
  - rewrite Hpv, Hpb by exact Hge. reflexivity.
Qed.

(* the hypotheses are inhabited: 130 pushes (two recompressions, two pending values) of a run-heavy sequence *)
Example uintvector_example :
  let xs := map (fun k => N.of_nat (k / 9) * 1000) (seq 0 130) in
  Forall (fun a => a < W32c) xs /\
  match uv_push_all fcmp_exact uv_new xs, uv_build_from fcmp_exact xs with
  | IOk v, IOk b => ustrat b = URunLength /\ nlen (utemp v) = 2 /\ uv_get v 129 = IOk (Some 14000) /\ uv_get b 129 = IOk (Some 14000)
  | _, _ => False
  end.
Proof.
  cbv zeta. split.
  - apply Forall_forall. intros a Ha. apply in_map_iff in Ha. destruct Ha as (k & <- & Hk). apply in_seq in Hk.
    unfold W32c. assert (k / 9 < 15)%nat by (apply Nat.div_lt_upper_bound; lia). nia.
  - vm_compute. repeat split; reflexivity.
Qed.
