(* C09 mechanism model: src/blob_store/sorted_uint_vec.rs (SortedUintVecConfig, SortedUintVecBuilder,
   SortedUintVec) as written, after the fix: commits recorded in findings/C09.txt.
   The two byte vectors `index` (block samples) and `data` (in-block deltas) are FastVec<u8> that only ever
   grow by push(0) and are only ever OR-ed into; each is represented by its length and the little-endian
   number it denotes.  usize/u64 are 64 bits.  Results: ROk / RErr (the Err(...) of the Rust Result) /
   RPanic (arithmetic overflow in the checked profile).  Definitions only. *)
From ZV.Common Require Import Base.
From ZV.C09 Require Import Model.
Open Scope N_scope.

Inductive res (A : Type) : Type :=
| ROk (a : A)
| RErr
| RPanic.
Arguments ROk {A} a.
Arguments RErr {A}.
Arguments RPanic {A}.

Definition rbind {A B} (r : res A) (f : A -> res B) : res B :=
  match r with ROk a => f a | RErr => RErr | RPanic => RPanic end.

Record scfg := { log2bu : N; ow : N; sw : N; simd : bool }.

(* SortedUintVecConfig::validate *)
Definition cfg_valid (c : scfg) : bool :=
  (4 <=? log2bu c) && (log2bu c <=? 8) && (8 <=? ow c) && (ow c <=? 32) &&
  (16 <=? sw c) && (sw c <=? 64) && negb ((57 <? sw c) && (sw c <? 64)).

Definition bsize (c : scfg) : N := 2 ^ log2bu c.

Record bvec := { bmem : N; blen : N }.
Definition bempty : bvec := {| bmem := 0; blen := 0 |}.

(* store_bits_static: grow with zero bytes, OR the shifted value in byte by byte *)
Definition store_bits (d : bvec) (bit_offset value width : N) : res bvec :=
  let byte_offset := bit_offset / 8 in
  let bit_shift := bit_offset mod 8 in
  let bytes_needed := (bit_shift + width + 7) / 8 in
  let len' := N.max (blen d) (byte_offset + bytes_needed) in
  let masked := if width <? 64 then N.land value (N.ones width) else value in
  let shifted := trunc64 (N.shiftl masked bit_shift) in
  if 8 <? bytes_needed then RPanic      (* i = 8: `shifted_value >> 64` *)
  else ROk {| bmem := N.lor (bmem d) (N.shiftl (N.land shifted (N.ones (8 * bytes_needed))) (8 * byte_offset));
              blen := len' |}.

(* the bytes [byte_offset, byte_offset + k) of the vector as a little-endian number (bytes past the end read 0) *)
Definition window (d : bvec) (byte_offset k : N) : N :=
  N.land (N.shiftr (bmem d) (8 * byte_offset)) (N.ones (8 * k)).

(* extract_bits: use_simd (with BMI2 present) loads min(8, len - byte_offset) bytes and extracts with
   PEXT (width <= 32; contiguous mask) or BEXTR; the portable path loads bytes_needed bytes, shifts and masks *)
Definition extract_bits (c : scfg) (d : bvec) (bit_offset width : N) : res N :=
  if (width =? 0) || (64 <? width) then RErr else
  let byte_offset := bit_offset / 8 in
  let bit_shift := bit_offset mod 8 in
  let bytes_needed := N.min 8 ((bit_shift + width + 7) / 8) in
  if blen d <? byte_offset + bytes_needed then RErr else
  let loaded := if simd c then window d byte_offset (N.min 8 (blen d - byte_offset))
                else window d byte_offset bytes_needed in
  let v := N.shiftr loaded bit_shift in
  ROk (if (width <? 64) || simd c then N.land v (N.ones width) else v).

Record svec := { sdata : bvec; sindex : bvec; scfg_of : scfg; ssize : N }.

Definition num_blocks (v : svec) : N := (ssize v + (bsize (scfg_of v) - 1)) / bsize (scfg_of v).

Definition get_block_min_val (v : svec) (block_idx : N) : res N :=
  let c := scfg_of v in
  if num_blocks v <=? block_idx then RErr else
  let sample_offset := block_idx * sw c in
  let bytes_needed := N.min 8 ((sample_offset mod 8 + sw c + 7) / 8) in
  if blen (sindex v) <? sample_offset / 8 + bytes_needed then RErr else
  extract_bits c (sindex v) sample_offset (sw c).

Definition get_block_delta (v : svec) (block_idx offset_idx : N) : res N :=
  let c := scfg_of v in
  rbind (extract_bits c (sdata v) (block_idx * bsize c * ow c + offset_idx * ow c) (ow c)) (fun x =>
  ROk (N.land x (N.ones 32))).     (* `value as u32` *)

Definition get_unchecked (v : svec) (index : N) : res N :=
  let c := scfg_of v in
  let block_idx := index / bsize c in
  let offset_idx := index mod bsize c in
  rbind (get_block_min_val v block_idx) (fun bmin =>
  rbind (get_block_delta v block_idx offset_idx) (fun delta =>
  if W64 <=? bmin + delta then RPanic else ROk (bmin + delta))).

Definition sget (v : svec) (index : N) : res N :=
  if ssize v <=? index then RErr else get_unchecked v index.

Definition sget2 (v : svec) (index : N) : res (N * N) :=
  if (ssize v <=? index) || (ssize v <=? index + 1) then RErr else
  rbind (get_unchecked v index) (fun a =>
  rbind (get_unchecked v (index + 1)) (fun b => ROk (a, b))).

(* get_block into a buffer of exactly block_size elements.  With use_simd (AVX2 present) the leading
   whole groups of eight are added with a wrapping vector add, the rest with a checked add. *)
Fixpoint block_elems (v : svec) (block_idx bmin : N) (wrap_upto : N) (i : N) (k : nat) : res (list N) :=
  match k with
  | O => ROk []
  | S k' =>
      rbind (get_block_delta v block_idx i) (fun delta =>
      let s := bmin + delta in
      if (W64 <=? s) && negb (i <? wrap_upto) then RPanic else
      rbind (block_elems v block_idx bmin wrap_upto (i + 1) k') (fun t => ROk (s mod W64 :: t)))
  end.

Definition sget_block (v : svec) (block_idx : N) : res (list N) :=
  let c := scfg_of v in
  if num_blocks v <=? block_idx then RErr else
  rbind (get_block_min_val v block_idx) (fun bmin =>
  let start := block_idx * bsize c in
  let actual := N.min (start + bsize c) (ssize v) - start in
  let wrap_upto := if simd c then actual / 8 * 8 else 0 in
  rbind (block_elems v block_idx bmin wrap_upto 0 (N.to_nat actual)) (fun l =>
  ROk (l ++ repeat 0 (N.to_nat (bsize c - actual))))).

(* ---------- builder ---------- *)
(* push: refuses a value below the last one *)
Fixpoint push_all_sorted (acc_last : option N) (vals : list N) : bool :=
  match vals with
  | [] => true
  | v :: t => match acc_last with
              | Some l => if v <? l then false else push_all_sorted (Some v) t
              | None => push_all_sorted (Some v) t
              end
  end.

(* values[i] *)
Definition vnth (vals : list N) (i : N) : N := nth (N.to_nat i) vals 0.

(* for i in 0..(block_end - block_start): check and store values[block_start + i] - block_min *)
Fixpoint store_deltas (c : scfg) (vals : list N) (d : bvec) (block_idx block_start bmin i : N) (cnt : nat) : res bvec :=
  match cnt with
  | O => ROk d
  | S k =>
      let value := vnth vals (block_start + i) in
      if value <? bmin then RPanic else
      let delta := value - bmin in
      if 2 ^ ow c <=? delta then RErr else
      rbind (store_bits d (block_idx * bsize c * ow c + i * ow c) (N.land delta (N.ones 32)) (ow c)) (fun d' =>
      store_deltas c vals d' block_idx block_start bmin (i + 1) k)
  end.

(* compress_values: for block_idx in 0..num_blocks; `nb` = number of blocks still to come *)
Fixpoint compress_blocks (nb : nat) (c : scfg) (vals : list N) (idx dat : bvec) (block_idx : N) : res (bvec * bvec) :=
  match nb with
  | O => ROk (idx, dat)
  | S f =>
      let n := nlen vals in
      let block_start := block_idx * bsize c in
      let block_end := N.min (block_start + bsize c) n in
      if n <=? block_start then compress_blocks f c vals idx dat (block_idx + 1)      (* `continue` *)
      else
        let bmin := vnth vals block_start in
        if (sw c <? 64) && negb (N.shiftr bmin (sw c) =? 0) then RErr else
        rbind (store_bits idx (block_idx * sw c) bmin (sw c)) (fun idx' =>
        rbind (store_deltas c vals dat block_idx block_start bmin 0 (N.to_nat (block_end - block_start))) (fun dat' =>
        compress_blocks f c vals idx' dat' (block_idx + 1)))
  end.

(* SortedUintVecBuilder::with_config(c), push every value, finish() *)
Definition sbuild (c : scfg) (vals : list N) : res svec :=
  if negb (push_all_sorted None vals) then RErr else
  if negb (cfg_valid c) then RErr else
  match vals with
  | [] => ROk {| sdata := bempty; sindex := bempty; scfg_of := c; ssize := 0 |}
  | _ =>
      let nb := (nlen vals + bsize c - 1) / bsize c in
      rbind (compress_blocks (N.to_nat nb) c vals bempty bempty 0) (fun p =>
      ROk {| sdata := snd p; sindex := fst p; scfg_of := c; ssize := nlen vals |})
  end.

(* ---------- observation compared with the implementation by the harness ---------- *)
Definition obs_get (r : res N) : list Z :=
  match r with ROk v => [0%Z; Z.of_N v] | RErr => [1%Z] | RPanic => [(-1)%Z] end.
Definition obs_get2 (r : res (N * N)) : list Z :=
  match r with ROk (a, b) => [0%Z; Z.of_N a; Z.of_N b] | RErr => [1%Z] | RPanic => [(-1)%Z] end.
Definition obs_block (r : res (list N)) : list Z :=
  match r with ROk l => 0%Z :: map Z.of_N l | RErr => [1%Z] | RPanic => [(-1)%Z] end.

Fixpoint upto (n : nat) : list N :=
  match n with O => [] | S k => upto k ++ [N.of_nat k] end.

Definition sorted_obs (c : scfg) (vals : list N) : list (list Z) :=
  match sbuild c vals with
  | RPanic => [[(-1)%Z]]
  | RErr => [[1%Z]]
  | ROk v =>
      let n := length vals in
      [0%Z] :: [Z.of_N (ssize v); Z.of_N (num_blocks v)]
      :: map (fun i => obs_get (sget v i)) (upto (n + 2))
      ++ map (fun i => obs_get2 (sget2 v i)) (upto (n + 1))
      ++ map (fun b => obs_block (sget_block v b)) (upto (N.to_nat (num_blocks v) + 1))
  end.
