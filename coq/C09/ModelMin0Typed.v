(* C09 mechanism model: UintVecMin0::build_from_u32 and build_from_i32 (src/containers/uint_vec_min0.rs) on top of the
   modelled new / set (Model.v).  build_from_u32 is build_from_usize on the zero-extended values; build_from_i32
   widens to i64 before subtracting the minimum (the fix: commit recorded in findings/C09.txt).  Definitions only. *)
From ZV.Common Require Import Base.
From ZV.C09 Require Import Model.
Open Scope N_scope.

(* src.iter().min().unwrap() / max() on i32 values *)
Definition zlist_min (l : list Z) : Z := fold_right Z.min (hd 0%Z l) l.
Definition zlist_max (l : list Z) : Z := fold_right Z.max (hd 0%Z l) l.

(* `(val - min_val) as usize` on u32: exactly build_from_usize *)
Definition build_from_u32 (src : list N) : outcome (min0 * N) := build_from src.

(* `(val as i64 - min_val as i64) as usize` *)
Definition build_from_i32 (src : list Z) : outcome (min0 * Z) :=
  match src with
  | [] => Ok (empty, 0%Z)
  | _ =>
      let mn := zlist_min src in
      let mx := zlist_max src in
      bind (new (nlen src) (Z.to_N (mx - mn))) (fun v =>
      bind (set_all v 0 (map (fun x => Z.to_N (x - mn)) src)) (fun v' => Ok (v', mn)))
  end.

Definition in_i32 (z : Z) : Prop := (-2147483648 <= z <= 2147483647)%Z.

(* ---------- observation compared with the implementation by the harness ---------- *)
Definition obs_built {A} (zof : A -> Z) (n : nat) (r : outcome (min0 * A)) : list (list Z) :=
  match r with
  | Ok (m, mn) =>
      [0%Z; Z.of_N (size m); Z.of_N (bits m); zof mn]
      :: [map (fun i => match get m (N.of_nat i) with Ok v => Z.of_N v | Panic => (-1)%Z | OOB => (-2)%Z end) (seq 0 n)]
  | Panic => [[(-1)%Z]]
  | OOB => [[(-2)%Z]]
  end.
Definition min0typed_obs (signed : bool) (vals : list Z) : list (list Z) :=
  if signed then obs_built (fun z => z) (length vals) (build_from_i32 vals)
  else obs_built Z.of_N (length vals) (build_from_u32 (map Z.to_N vals)).
