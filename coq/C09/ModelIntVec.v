(* C09 mechanism model: src/containers/specialized/int_vec.rs (IntVec<T>) as written, after the fix: commits
   recorded in findings/C09.txt.  Modelled: PackedInt::to_u64 / from_u64 for the eight element types,
   BitOps::compute_bit_width / extract_bits, SimdOps::analyze_range_bulk(_optimized), fast_sorted_check,
   detect_uniform_delta, analyze_delta_bulk (= analyze_delta), analyze_small_dataset_strategy,
   analyze_fast_strategy, analyze_min_max, analyze_block_based, estimate_compression_ratio (numerator only, the
   f64 comparison is a parameter), analyze_optimal_strategy, write_bits (window path and bit-by-bit path),
   write_bits_bulk, read_bits (8-byte window + the ninth byte), compress_raw / compress_min_max / compress_delta /
   compress_block_based and their *_bulk_simd counterparts, get_raw / get_min_max / get_delta / get_block_based,
   get, from_slice, from_slice_bulk, from_slice_bulk_simd (size dispatch).
   `data` and `index` are Box<[u8]>: (length, little-endian number) as in ModelSorted (bvec).
   usize/u64 are 64 bits; products of a length and a width are assumed not to wrap (they cannot for a slice
   that fits in memory).  Results: IOk / IErr (Err(..) of the Rust Result) / IPanic (overflow or slice-index
   panic in the checked profile) / IOOB (an unchecked pointer access past the buffer).  Definitions only. *)
From ZV.Common Require Import Base.
From ZV.C09 Require Import Model ModelSorted.
Open Scope N_scope.

Inductive ires (A : Type) : Type :=
| IOk (a : A)
| IErr
| IPanic
| IOOB.
Arguments IOk {A} a.
Arguments IErr {A}.
Arguments IPanic {A}.
Arguments IOOB {A}.

Definition ibind {A B} (r : ires A) (f : A -> ires B) : ires B :=
  match r with IOk a => f a | IErr => IErr | IPanic => IPanic | IOOB => IOOB end.

(* ---------- element types: PackedInt for u8..u64, i8..i64 ---------- *)
Record ety := { ebits : N; esigned : bool }.

(* `self as u64`: zero extension for the unsigned types, sign extension for the signed ones *)
Definition to_u64 (z : Z) : N := Z.to_N (z mod 2 ^ 64).

(* `val as Self`: truncation to the type's width, reinterpreted as two's complement for the signed types *)
Definition from_u64 (t : ety) (u : N) : Z :=
  let r := u mod 2 ^ ebits t in
  if esigned t && (2 ^ (ebits t - 1) <=? r) then (Z.of_N r - Z.of_N (2 ^ ebits t))%Z else Z.of_N r.

Definition in_ty (t : ety) (z : Z) : Prop :=
  if esigned t then (- Z.of_N (2 ^ (ebits t - 1)) <= z < Z.of_N (2 ^ (ebits t - 1)))%Z
  else (0 <= z < Z.of_N (2 ^ ebits t))%Z.

Definition ety_ok (t : ety) : Prop := ebits t = 8 \/ ebits t = 16 \/ ebits t = 32 \/ ebits t = 64.

(* ---------- strategies ---------- *)
Inductive strategy : Type :=
| SRaw
| SMinMax (min_val bit_width : N)
| SBlock (log2 offset_width sample_width : N) (is_sorted : bool)   (* BlockSize::Block64 = 6, Block128 = 7 *)
| SDelta (base_val delta_width : N) (is_uniform : bool) (uniform_delta : option N).

Record ivec := { istrat : strategy; idata : bvec; iindex : option bvec; ilen : N }.

Definition iv_new : ivec := {| istrat := SRaw; idata := bempty; iindex := None; ilen := 0 |}.

(* ---------- BitOps ---------- *)
Definition compute_bit_width (v : N) : N := if v =? 0 then 1 else N.size v.

(* (1u64 << bits) - 1, u64::MAX for 64 *)
Definition bit_mask (bits : N) : N := if 64 <=? bits then ones64 else N.ones bits.

(* BitOps::extract_bits(value, start, count) on a u64 *)
Definition extract_bits64 (value start count : N) : N :=
  if count =? 0 then 0
  else if 64 <=? count then N.shiftr value start
  else N.land (N.shiftr value start) (N.ones count).

(* ---------- byte buffers ---------- *)
Definition zeros (n : N) : bvec := {| bmem := 0; blen := n |}.

(* data[off .. off + k) <- the k low bytes of v *)
Definition store_window (d : bvec) (off k v : N) : bvec :=
  {| bmem := N.lor (N.ldiff (bmem d) (N.shiftl (N.ones (8 * k)) (8 * off)))
                   (N.shiftl (N.land v (N.ones (8 * k))) (8 * off));
     blen := blen d |}.

Definition align16 (x : N) : N := (x + 15) / 16 * 16.
(* ((bytes * 103) / 64).max(bytes), then 16-byte alignment *)
Definition golden16 (bytes : N) : N := align16 (N.max (bytes * 103 / 64) bytes).

(* the bit-by-bit fallback of write_bits: for i in 0..bits { data[byte_idx] |= 1 << bit_idx } *)
Fixpoint write_bits_slow (d : bvec) (masked bit_offset i : N) (cnt : nat) : ires bvec :=
  match cnt with
  | O => IOk d
  | S k =>
      let bit_pos := bit_offset + i in
      let byte_idx := bit_pos / 8 in
      let bit_idx := bit_pos mod 8 in
      if blen d <=? byte_idx then IErr else
      let d' := if N.testbit masked i
                then {| bmem := N.lor (bmem d) (N.shiftl (N.shiftl 1 bit_idx) (8 * byte_idx)); blen := blen d |}
                else d in
      write_bits_slow d' masked bit_offset (i + 1) k
  end.

(* write_bits: copy the available (<= 8) bytes into a zeroed 8-byte buffer, OR the shifted value in, copy back *)
Definition write_bits (d : bvec) (value bit_offset bits : N) : ires bvec :=
  let byte_offset := bit_offset / 8 in
  let bit_in_byte := bit_offset mod 8 in
  if (blen d <=? byte_offset) || (64 <? bits) then IErr else
  let masked := N.land value (bit_mask bits) in
  let bytes_needed := (bit_in_byte + bits + 7) / 8 in
  if (byte_offset + bytes_needed <=? blen d) && (bytes_needed <=? 8) then
    let avail := N.min (blen d - byte_offset) 8 in
    let current := window d byte_offset avail in
    let result := N.lor current (trunc64 (N.shiftl masked bit_in_byte)) in
    IOk (store_window d byte_offset avail result)
  else write_bits_slow d masked bit_offset 0 (N.to_nat bits).

(* write_bits_bulk: an unaligned 8-byte read-modify-write when eight bytes are there, write_bits otherwise *)
Definition write_bits_bulk (d : bvec) (value bit_offset bits : N) : ires bvec :=
  let byte_offset := bit_offset / 8 in
  let bit_in_byte := bit_offset mod 8 in
  if (blen d <=? byte_offset) || (64 <? bits) then IErr else
  let masked := N.land value (bit_mask bits) in
  let bytes_needed := (bit_in_byte + bits + 7) / 8 in
  if (byte_offset + 8 <=? blen d) && (bytes_needed <=? 8) then
    let current := window d byte_offset 8 in
    let result := N.lor current (trunc64 (N.shiftl masked bit_in_byte)) in
    IOk (store_window d byte_offset 8 result)
  else write_bits d value bit_offset bits.

(* read_bits: the available (<= 8) bytes as a u64, BitOps::extract_bits, then the ninth byte for a field of
   58..64 bits that starts inside a byte *)
Definition read_bits (d : bvec) (bit_offset bits : N) : ires N :=
  let byte_offset := bit_offset / 8 in
  let bit_in_byte := bit_offset mod 8 in
  if (blen d <=? byte_offset) || (64 <? bits) then IErr else
  let avail := N.min (blen d - byte_offset) 8 in
  let value := window d byte_offset avail in
  let result := extract_bits64 value bit_in_byte bits in
  let bits_in_window := 64 - bit_in_byte in
  if (bits_in_window <? bits) && (byte_offset + 8 <? blen d) then
    let high := trunc64 (N.shiftl (window d (byte_offset + 8) 1) bits_in_window) in
    IOk (N.lor result (N.land high (bit_mask bits)))
  else IOk result.

(* ---------- analysis ---------- *)
(* SimdOps::analyze_range_bulk / analyze_range_bulk_optimized: (0,0) for an empty slice, otherwise min and max
   over every element (the variants differ only in how the one pass is chunked: 8, 16, or not at all) *)
Definition range_bulk (vals : list N) : N * N :=
  match vals with
  | [] => (0, 0)
  | v :: t => fold_left (fun mm x => (N.min (fst mm) x, N.max (snd mm) x)) t (v, v)
  end.

(* values.windows(2).all(|w| w[0] <= w[1]) *)
Fixpoint sorted_from (prev : N) (vals : list N) : bool :=
  match vals with
  | [] => true
  | v :: t => (prev <=? v) && sorted_from v t
  end.
Definition fast_sorted_check (vals : list N) : bool :=
  match vals with [] => true | v :: t => sorted_from v t end.

(* detect_uniform_delta: for i in 2..len *)
Fixpoint uniform_from (prev first_delta : N) (vals : list N) : bool :=
  match vals with
  | [] => true
  | v :: t => if v <? prev then false else if negb (v - prev =? first_delta) then false else uniform_from v first_delta t
  end.
Definition detect_uniform_delta (vals : list N) : option N :=
  match vals with
  | v0 :: v1 :: t => if v0 <=? v1 then (if uniform_from v1 (v1 - v0) t then Some (v1 - v0) else None) else None
  | _ => None
  end.

(* the delta scan of analyze_delta_bulk / analyze_delta: None when a checked_sub fails *)
Fixpoint max_delta_from (prev acc : N) (vals : list N) : option N :=
  match vals with
  | [] => Some acc
  | v :: t => if v <? prev then None else max_delta_from v (N.max acc (v - prev)) t
  end.
Definition analyze_delta (vals : list N) : strategy :=
  match vals with
  | v0 :: (_ :: _) as t =>
      match max_delta_from v0 0 t with
      | None => SRaw
      | Some md => if 2 ^ 32 <? md then SRaw else SDelta v0 (compute_bit_width md) false None
      end
  | _ => SRaw
  end.

Definition analyze_small_dataset_strategy (vals : list N) : strategy :=
  let len := nlen vals in
  if len <? 4 then SRaw else
  if fast_sorted_check vals then
    match detect_uniform_delta vals with
    | Some ud => SDelta (hd 0 vals) (if ud =? 0 then 1 else 0) true (Some ud)
    | None => analyze_delta vals
    end
  else
    let '(mn, mx) := range_bulk vals in
    if mn =? mx then SMinMax mn 1 else
    let bw := compute_bit_width (mx - mn) in
    if (bw <=? 16) || (len <=? 1000) then SMinMax mn bw else SMinMax mn bw.

Definition vN (vals : list N) (i : N) : N := nth (N.to_nat i) vals 0.

Definition analyze_fast_strategy (vals : list N) : strategy :=
  let len := nlen vals in
  if len <? 4 then SRaw else
  let is_likely_sorted :=
    if 8 <=? len then
      (vN vals 0 <=? vN vals 1) && (vN vals 1 <=? vN vals 2) && (vN vals 2 <=? vN vals 3) &&
      ((vN vals (len - 4) <=? vN vals (len - 3)) && (vN vals (len - 3) <=? vN vals (len - 2)) &&
       (vN vals (len - 2) <=? vN vals (len - 1))) && (vN vals 0 <=? vN vals (len - 1))
    else fast_sorted_check vals in
  match (if is_likely_sorted && (len <=? 1024) then detect_uniform_delta vals else None) with
  | Some ud => SDelta (hd 0 vals) (if ud =? 0 then 1 else 0) true (Some ud)
  | None =>
      let '(mn, mx) := range_bulk vals in
      if mn =? mx then SMinMax mn 1 else
      let range := mx - mn in
      let bw := if range =? 0 then 1 else N.size range in
      if bw <? 48 then SMinMax mn bw else SRaw
  end.

Definition analyze_min_max (mn mx : N) : strategy :=
  if mn =? mx then SMinMax mn 1 else SMinMax mn (compute_bit_width (mx - mn)).

(* values[k*bu .. min((k+1)*bu, len)] for k in 0..nb *)
Fixpoint chunks (nb bu : nat) (l : list N) : list (list N) :=
  match nb with
  | O => []
  | S k => firstn bu l :: chunks k bu (skipn bu l)
  end.
Definition num_blocks_of (n bu : N) : N := (n + bu - 1) / bu.
Definition blocks_of (lg : N) (vals : list N) : list (list N) :=
  chunks (N.to_nat (num_blocks_of (nlen vals) (2 ^ lg))) (N.to_nat (2 ^ lg)) vals.

(* for &val in &values[start..end] { max_offset = max_offset.max(val - block_min) } over every block *)
Definition max_offset_of (blocks : list (list N)) : N :=
  fold_left (fun acc blk => fold_left (fun a v => N.max a (v - list_min blk)) blk acc) blocks 0.

Definition analyze_block_based (vals : list N) (is_sorted : bool) : strategy :=
  let len := nlen vals in
  if len <? 64 then SRaw else
  let lg := if 1024 <=? len then 7 else 6 in
  let blocks := blocks_of lg vals in
  let samples := map list_min blocks in
  SBlock lg (compute_bit_width (max_offset_of blocks)) (compute_bit_width (list_max samples)) is_sorted.

(* the numerator of estimate_compression_ratio (the denominator len * 8 is the same for every candidate) *)
Definition estimate_size (s : strategy) (len : N) : N :=
  match s with
  | SRaw => len * 8
  | SMinMax _ bw => N.max ((len * bw + 7) / 8) 32
  | SDelta _ dw _ _ => 8 + N.max ((len * dw + 7) / 8) 32
  | SBlock lg ow sw _ => num_blocks_of len (2 ^ lg) * sw / 8 + (len * ow + 7) / 8
  end.

(* Iterator::min_by: the first of several equally minimal elements *)
Fixpoint min_by {A} (cmp : A -> A -> comparison) (cur : A) (l : list A) : A :=
  match l with
  | [] => cur
  | x :: t => min_by cmp (match cmp cur x with Gt => x | _ => cur end) t
  end.

(* `ratio_cmp a b orig` stands for (a as f64 / orig as f64).partial_cmp(&(b as f64 / orig as f64)).unwrap_or(Equal) *)
Definition analyze_optimal_strategy (ratio_cmp : N -> N -> N -> comparison) (vals : list N) : strategy :=
  let len := nlen vals in
  if len <? 8 then SRaw else
  let '(mn, mx) := range_bulk vals in
  let is_sorted := fast_sorted_check vals in
  let cmp a b := ratio_cmp (estimate_size a len) (estimate_size b len) (len * 8) in
  min_by cmp (analyze_min_max mn mx) [analyze_delta vals; analyze_block_based vals is_sorted].

(* ---------- compression ---------- *)
Definition writer := bvec -> N -> N -> N -> ires bvec.

(* compress_raw / compress_raw_bulk_simd: every value as 8 little-endian bytes *)
Fixpoint raw_bytes (vals : list N) : N :=
  match vals with [] => 0 | v :: t => N.lor (N.land v ones64) (N.shiftl (raw_bytes t) 64) end.
Definition compress_raw (vals : list N) : bvec := {| bmem := raw_bytes vals; blen := 8 * nlen vals |}.

(* for &value in values { if value < min_val { Err }; write(value - min_val); bit_offset += bit_width } *)
Fixpoint mm_loop (wr : writer) (d : bvec) (vals : list N) (mn bw off : N) : ires bvec :=
  match vals with
  | [] => IOk d
  | v :: t => if v <? mn then IErr else
              ibind (wr d (v - mn) off bw) (fun d' => mm_loop wr d' t mn bw (off + bw))
  end.

Definition compress_min_max (vals : list N) (mn bw : N) : ires bvec :=
  if (bw =? 0) || (64 <? bw) then IErr else
  mm_loop write_bits (zeros (align16 ((nlen vals * bw + 7) / 8))) vals mn bw 0.

(* ptr::copy_nonoverlapping(value.to_le_bytes(), data + byte_offset, k): no bounds check *)
Definition copy_bytes (d : bvec) (byte_offset k v : N) : ires bvec :=
  if blen d <? byte_offset + k then IOOB else IOk (store_window d byte_offset k v).

Fixpoint mm_loop_bytes (d : bvec) (vals : list N) (mn bpv boff : N) : ires bvec :=
  match vals with
  | [] => IOk d
  | v :: t => if v <? mn then IErr else
              ibind (copy_bytes d boff bpv (v - mn)) (fun d' => mm_loop_bytes d' t mn bpv (boff + bpv))
  end.

Definition compress_min_max_bulk_simd (vals : list N) (mn bw : N) : ires bvec :=
  if (bw =? 0) || (64 <? bw) then IErr else
  let d0 := zeros (align16 ((nlen vals * bw + 7) / 8)) in
  if bw mod 8 =? 0 then mm_loop_bytes d0 vals mn (bw / 8) 0
  else mm_loop write_bits_bulk d0 vals mn bw 0.

(* for i in 1..len { delta = values[i] - values[i-1]; write(delta) } *)
Fixpoint delta_loop (wr : writer) (d : bvec) (prev : N) (vals : list N) (dw off : N) : ires bvec :=
  match vals with
  | [] => IOk d
  | v :: t => if v <? prev then IPanic else
              ibind (wr d (v - prev) off dw) (fun d' => delta_loop wr d' v t dw (off + dw))
  end.
Fixpoint delta_loop_bytes (d : bvec) (prev : N) (vals : list N) (bpd boff : N) : ires bvec :=
  match vals with
  | [] => IOk d
  | v :: t => if v <? prev then IPanic else
              ibind (copy_bytes d boff bpd (v - prev)) (fun d' => delta_loop_bytes d' v t bpd (boff + bpd))
  end.

(* base_val.to_le_bytes() followed by the delta area: the writers work on &mut data[8..] *)
Definition with_base (base : N) (tail : bvec) : bvec :=
  {| bmem := N.lor (N.land base ones64) (N.shiftl (bmem tail) 64); blen := 8 + blen tail |}.

Definition is_uniform_mode (is_uniform : bool) (ud : option N) : bool :=
  is_uniform && match ud with Some _ => true | None => false end.

Definition compress_delta (simd : bool) (vals : list N) (base dw : N) (is_uniform : bool) (ud : option N) : ires bvec :=
  match vals with
  | [] => IOk bempty
  | v0 :: t =>
      if is_uniform_mode is_uniform ud then
        IOk (with_base base {| bmem := N.land (match ud with Some u => u | None => 0 end) ones64; blen := 8 |})
      else
        let tail0 := zeros (align16 (((nlen vals - 1) * dw + 7) / 8)) in
        ibind (if simd then
                 (if dw mod 8 =? 0 then delta_loop_bytes tail0 v0 t (dw / 8) 0
                  else delta_loop write_bits_bulk tail0 v0 t dw 0)
               else delta_loop write_bits tail0 v0 t dw 0) (fun tl => IOk (with_base base tl))
  end.

(* for &sample in &samples { write(sample); bit_offset += sample_width } *)
Fixpoint seq_loop (wr : writer) (d : bvec) (fields : list N) (w off : N) : ires bvec :=
  match fields with
  | [] => IOk d
  | v :: t => ibind (wr d v off w) (fun d' => seq_loop wr d' t w (off + w))
  end.

(* for i in start..end { offset = values[i] - block_min; write(offset); bit_offset += offset_width } *)
Fixpoint offs_loop (wr : writer) (d : bvec) (blk : list N) (bmin ow off : N) : ires (bvec * N) :=
  match blk with
  | [] => IOk (d, off)
  | v :: t => if v <? bmin then IPanic else
              ibind (wr d (v - bmin) off ow) (fun d' => offs_loop wr d' t bmin ow (off + ow))
  end.
Fixpoint block_loop (wr : writer) (d : bvec) (blocks : list (list N)) (ow off : N) : ires bvec :=
  match blocks with
  | [] => IOk d
  | blk :: t => ibind (offs_loop wr d blk (list_min blk) ow off) (fun p => block_loop wr (fst p) t ow (snd p))
  end.

(* compress_block_based (simd = false) / compress_block_based_bulk (simd = true: golden-ratio capacity, write_bits_bulk) *)
Definition compress_block_based (simd : bool) (vals : list N) (lg ow sw : N) : ires (bvec * bvec) :=
  let blocks := blocks_of lg vals in
  let samples := map list_min blocks in
  let size_of := fun bytes => if simd then golden16 bytes else align16 bytes in
  let wr := if simd then write_bits_bulk else write_bits in
  ibind (seq_loop wr (zeros (size_of ((nlen blocks * sw + 7) / 8))) samples sw 0) (fun idx =>
  ibind (block_loop wr (zeros (size_of ((nlen vals * ow + 7) / 8))) blocks ow 0) (fun dat =>
  IOk (idx, dat))).

(* compress_with_strategy (simd = false) / compress_with_bulk_strategy_simd (simd = true), and the len field *)
Definition iv_build (simd : bool) (s : strategy) (vals : list N) : ires ivec :=
  let mk d idx := {| istrat := s; idata := d; iindex := idx; ilen := nlen vals |} in
  match s with
  | SRaw => IOk (mk (compress_raw vals) None)
  | SMinMax mn bw =>
      ibind (if simd then compress_min_max_bulk_simd vals mn bw else compress_min_max vals mn bw) (fun d => IOk (mk d None))
  | SBlock lg ow sw _ =>
      ibind (compress_block_based simd vals lg ow sw) (fun p => IOk (mk (snd p) (Some (fst p))))
  | SDelta base dw iu ud =>
      ibind (compress_delta simd vals base dw iu ud) (fun d => IOk (mk d None))
  end.

(* ---------- reading ---------- *)
Definition add64 (a b : N) : ires N := if W64 <=? a + b then IPanic else IOk (a + b).
Definition mul64 (a b : N) : ires N := if W64 <=? a * b then IPanic else IOk (a * b).

Definition get_raw (v : ivec) (index : N) : ires (option N) :=
  if index * 8 + 8 <=? blen (idata v) then IOk (Some (window (idata v) (index * 8) 8)) else IOk None.

Definition get_min_max (v : ivec) (index mn bw : N) : ires (option N) :=
  match read_bits (idata v) (index * bw) bw with
  | IOk x => ibind (add64 mn x) (fun r => IOk (Some r))
  | IErr => IOk None
  | IPanic => IPanic
  | IOOB => IOOB
  end.

(* &self.data[8..] *)
Definition tail8 (d : bvec) : ires bvec :=
  if blen d <? 8 then IPanic else IOk {| bmem := N.shiftr (bmem d) 64; blen := blen d - 8 |}.

(* for i in 1..=index { current_val += read_bits(data[8..], (i-1)*dw, dw)? } *)
Fixpoint delta_sum (tl : bvec) (dw : N) (cur : N) (i : N) (cnt : nat) : ires (option N) :=
  match cnt with
  | O => IOk (Some cur)
  | S k =>
      match read_bits tl ((i - 1) * dw) dw with
      | IOk dlt => ibind (add64 cur dlt) (fun c => delta_sum tl dw c (i + 1) k)
      | IErr => IOk None
      | IPanic => IPanic
      | IOOB => IOOB
      end
  end.

Definition get_delta (v : ivec) (index base dw : N) (is_uniform : bool) (ud : option N) : ires (option N) :=
  if index =? 0 then IOk (Some base) else
  if is_uniform_mode is_uniform ud then
    ibind (mul64 index (match ud with Some u => u | None => 0 end)) (fun p =>
    ibind (add64 base p) (fun r => IOk (Some r)))
  else
    ibind (tail8 (idata v)) (fun tl =>
    match read_bits tl ((index - 1) * dw) dw with
    | IOk _ => delta_sum tl dw base 1 (N.to_nat index)
    | IErr => IOk None
    | IPanic => IPanic
    | IOOB => IOOB
    end).

Definition get_block_based (v : ivec) (index lg ow sw : N) : ires (option N) :=
  let bu := 2 ^ lg in
  match iindex v with
  | None => IOk None
  | Some idx =>
      match read_bits idx (index / bu * sw) sw with
      | IOk sample =>
          match read_bits (idata v) (index * ow) ow with
          | IOk off => ibind (add64 sample off) (fun r => IOk (Some r))
          | IErr => IOk None
          | IPanic => IPanic
          | IOOB => IOOB
          end
      | IErr => IOk None
      | IPanic => IPanic
      | IOOB => IOOB
      end
  end.

(* get on the u64 images, then T::from_u64 *)
Definition iv_get64 (v : ivec) (index : N) : ires (option N) :=
  if ilen v <=? index then IOk None else
  match istrat v with
  | SRaw => get_raw v index
  | SMinMax mn bw => get_min_max v index mn bw
  | SBlock lg ow sw _ => get_block_based v index lg ow sw
  | SDelta base dw iu ud => get_delta v index base dw iu ud
  end.

Definition iv_get (t : ety) (v : ivec) (index : N) : ires (option Z) :=
  ibind (iv_get64 v index) (fun o => IOk (option_map (from_u64 t) o)).

(* ---------- constructors ---------- *)
Definition from_slice (ratio_cmp : N -> N -> N -> comparison) (t : ety) (xs : list Z) : ires ivec :=
  match xs with
  | [] => IOk iv_new
  | _ =>
      let vals := map to_u64 xs in
      let len := nlen xs in
      let s := if (len <=? 10000) || (len * (ebits t / 8) / 1024 <=? 16)
               then analyze_small_dataset_strategy vals
               else analyze_optimal_strategy ratio_cmp vals in
      iv_build false s vals
  end.

Definition from_slice_bulk := from_slice.

Definition from_slice_bulk_simd (ratio_cmp : N -> N -> N -> comparison) (t : ety) (xs : list Z) : ires ivec :=
  match xs with
  | [] => IOk iv_new
  | _ =>
      let len := nlen xs in
      if len <=? 64 then from_slice_bulk ratio_cmp t xs
      else if len <=? 2048 then
        let vals := map to_u64 xs in
        iv_build true (analyze_fast_strategy vals) vals
      else from_slice_bulk ratio_cmp t xs
  end.

(* ctor: 0 from_slice, 1 from_slice_bulk, 2 from_slice_bulk_simd *)
Definition iv_construct (ctor : N) (ratio_cmp : N -> N -> N -> comparison) (t : ety) (xs : list Z) : ires ivec :=
  match ctor with
  | 2 => from_slice_bulk_simd ratio_cmp t xs
  | 1 => from_slice_bulk ratio_cmp t xs
  | _ => from_slice ratio_cmp t xs
  end.

(* ---------- the condition under which a strategy can represent a sequence of u64 images ---------- *)
Fixpoint deltas_lt (prev : N) (vals : list N) (bound : N) : Prop :=
  match vals with
  | [] => True
  | v :: t => prev <= v /\ v - prev < bound /\ deltas_lt v t bound
  end.
Fixpoint arith_from (base d : N) (k : N) (vals : list N) : Prop :=
  match vals with
  | [] => True
  | v :: t => v = base + k * d /\ arith_from base d (k + 1) t
  end.

Definition covers (s : strategy) (vals : list N) : Prop :=
  match s with
  | SRaw => True
  | SMinMax mn bw => 1 <= bw <= 64 /\ Forall (fun v => mn <= v /\ v - mn < 2 ^ bw) vals
  | SBlock lg ow sw _ =>
      1 <= ow <= 64 /\ 1 <= sw <= 64 /\
      Forall (fun blk => list_min blk < 2 ^ sw /\ Forall (fun v => v - list_min blk < 2 ^ ow) blk) (blocks_of lg vals)
  | SDelta base dw iu ud =>
      if is_uniform_mode iu ud then arith_from base (match ud with Some u => u | None => 0 end) 0 vals
      else 1 <= dw <= 64 /\ match vals with [] => True | v0 :: t => base = v0 /\ deltas_lt v0 t (2 ^ dw) end
  end.

(* ---------- observation compared with the implementation by the harness ---------- *)
Definition obs_iget (r : ires (option Z)) : list Z :=
  match r with IOk (Some v) => [0%Z; v] | IOk None => [1%Z] | IErr => [2%Z] | IPanic => [(-1)%Z] | IOOB => [(-2)%Z] end.

(* the f64 comparison of the size ratios is
   instantiated with the comparison of the numerators (same denominator) *)
Definition intvec_obs (ctor : N) (t : ety) (xs : list Z) (idx : list N) : list (list Z) :=
  let cmp := fun a b (_ : N) => N.compare a b in
  match iv_construct ctor cmp t xs with
  | IOk v =>
      [0%Z; Z.of_N (ilen v); Z.of_N (blen (idata v) + match iindex v with Some i => blen i | None => 0 end)]
      :: map (fun i => obs_iget (iv_get t v i)) idx
  | IErr => [[1%Z]]
  | IPanic => [[(-1)%Z]]
  | IOOB => [[(-2)%Z]]
  end.
