(* C09: UintVecMin0::build_from_u32 / build_from_i32 store every element, for every input of the type. *)
From ZV.Common Require Import Base.
From ZV.C09 Require Import Model ProofsBits ProofsVec ModelMin0Typed.
Open Scope N_scope.

Lemma list_max_lt b l : 0 < b -> Forall (fun v => v < b) l -> list_max l < b.
Proof.
  intros Hb. unfold list_max. induction l as [|x t IH]; intros Hall; cbn [fold_right]; [exact Hb|].
  inversion Hall; subst. specialize (IH H2). lia.
Qed.

Theorem build_from_u32_get src : src <> [] -> Forall (fun v => v < 2 ^ 32) src ->
  exists m mn, build_from_u32 src = Ok (m, mn) /\ size m = nlen src /\
    forall i, (i < length src)%nat -> get m (N.of_nat i) = Ok (nth i src 0 - mn) /\ mn <= nth i src 0.
Proof.
  intros Hne H32. unfold build_from_u32. apply build_from_get_proof; [exact Hne|].
  pose proof (list_max_lt (2 ^ 32) src ltac:(cbn; lia) H32).
  assert (2 ^ 32 < 2 ^ 58) by (apply N.pow_lt_mono_r; lia). lia.
Qed.

Lemma zmin_le l x : In x l -> (zlist_min l <= x)%Z.
Proof.
  unfold zlist_min. intros Hin.
  assert (G : forall d, (fold_right Z.min d l <= x)%Z).
  { induction l as [|y l IH]; [contradiction|]. intros d. cbn [fold_right].
    destruct Hin as [->|Hin]; [lia|]. specialize (IH Hin d). lia. }
  apply G.
Qed.
Lemma zmax_ge l x : In x l -> (x <= zlist_max l)%Z.
Proof.
  unfold zlist_max. intros Hin.
  assert (G : forall d, (x <= fold_right Z.max d l)%Z).
  { induction l as [|y l IH]; [contradiction|]. intros d. cbn [fold_right].
    destruct Hin as [->|Hin]; [lia|]. specialize (IH Hin d). lia. }
  apply G.
Qed.
Lemma zfold_in (f : Z -> Z -> Z) (Hf : forall a b, f a b = a \/ f a b = b) l : l <> [] -> In (fold_right f (hd 0%Z l) l) l.
Proof.
  intros Hne. destruct l as [|y t]; [congruence|]. cbn [hd].
  assert (G : forall d l', In d (y :: t) -> (forall z, In z l' -> In z (y :: t)) -> In (fold_right f d l') (y :: t)).
  { intros d l'. revert d. induction l' as [|z l' IH]; intros d Hd Hsub; cbn [fold_right]; [exact Hd|].
    destruct (Hf z (fold_right f d l')) as [->| ->]; [apply Hsub; left; reflexivity|].
    apply IH; [exact Hd|]. intros w Hw. apply Hsub. right. exact Hw. }
  apply G; [left; reflexivity|auto].
Qed.

Theorem build_from_i32_get src : src <> [] -> Forall in_i32 src ->
  exists m mn, build_from_i32 src = Ok (m, mn) /\ size m = nlen src /\
    forall i, (i < length src)%nat -> get m (N.of_nat i) = Ok (Z.to_N (nth i src 0%Z - mn)) /\ (mn <= nth i src 0%Z)%Z.
Proof.
  intros Hne H32. unfold build_from_i32. destruct src as [|s0 rest] eqn:Hsrc; [congruence|]. rewrite <- Hsrc in *.
  set (mn := zlist_min src). set (mx := zlist_max src).
  assert (Hmn : in_i32 mn).
  { rewrite Forall_forall in H32. apply H32. unfold mn, zlist_min. apply zfold_in; [intros a b; lia|exact Hne]. }
  assert (Hmx : in_i32 mx).
  { rewrite Forall_forall in H32. apply H32. unfold mx, zlist_max. apply zfold_in; [intros a b; lia|exact Hne]. }
  assert (Hrange : Z.to_N (mx - mn) < 2 ^ 58).
  { unfold in_i32 in *. assert (2 ^ 58 = 288230376151711744) by reflexivity. lia. }
  destruct (new_spec (nlen src) (Z.to_N (mx - mn)) Hrange) as (m0 & Hnew & Hwf0 & Hsz0 & Hmask & _).
  rewrite Hnew. cbn [bind].
  destruct (set_all_spec (map (fun x => Z.to_N (x - mn)) src) m0 0 Hwf0) as (m' & Hsa & Hwf' & Hsz' & _ & Hh & _).
  { rewrite nlen_length, map_length, <- nlen_length. lia. }
  { apply Forall_forall. intros v Hv. apply in_map_iff in Hv. destruct Hv as (x & <- & Hx).
    pose proof (zmax_ge src x Hx). pose proof (zmin_le src x Hx). fold mx in H. fold mn in H0. lia. }
  rewrite Hsa. cbn [bind]. exists m', mn. split; [reflexivity|]. split; [congruence|].
  intros i Hi. split.
  - rewrite get_field by (try assumption; rewrite Hsz', Hsz0, nlen_length; lia).
    specialize (Hh i). rewrite map_length in Hh. specialize (Hh Hi). cbn in Hh.
    replace (0 + N.of_nat i) with (N.of_nat i) in Hh by lia. rewrite Hh. f_equal.
    rewrite (nth_indep _ 0 ((fun x => Z.to_N (x - mn)) 0%Z)) by (rewrite map_length; exact Hi).
    apply (map_nth (fun x => Z.to_N (x - mn))).
  - apply zmin_le. apply nth_In. exact Hi.
Qed.

(* the hypotheses are inhabited: the full i32 range (the case the repaired subtraction is about) *)
Example min0_i32_example :
  match build_from_i32 [(-2147483648)%Z; 2147483647%Z; 0%Z] with
  | Ok (m, mn) => mn = (-2147483648)%Z /\ bits m = 32 /\ get m 1 = Ok 4294967295 /\ get m 2 = Ok 2147483648
  | _ => False
  end.
Proof. vm_compute. repeat split; reflexivity. Qed.

Example min0_u32_example :
  match build_from_u32 [4294967295; 0; 7] with
  | Ok (m, mn) => mn = 0 /\ bits m = 32 /\ get m 0 = Ok 4294967295 /\ get m 2 = Ok 7
  | _ => False
  end.
Proof. vm_compute. repeat split; reflexivity. Qed.
