(* C09: UintVector - bit writer / reader, the three encodings, the analysis, bulk build. *)
From ZV.Common Require Import Base.
From Coq Require Import Btauto.
From ZV.C09 Require Import Model ProofsBits ProofsVec ModelSorted ModelIntVec ProofsIntVecBits ProofsIntVecPack
  ProofsIntVecGet ModelUintVector.
Open Scope N_scope.

Lemma lt_W32 v : v < W32c -> v < 2 ^ 32.
Proof. unfold W32c. assert (2 ^ 32 = 4294967296) by reflexivity. lia. Qed.

(* ---------- write_bits_fast / read_bits_fast ---------- *)
Lemma uv_write_bits_ok w : 1 <= w <= 32 -> wr_ok_at uv_write_bits w.
Proof.
  intros Hw d v off Hfit. unfold uv_write_bits.
  assert (Hoff : off = 8 * (off / 8) + off mod 8) by (apply N.div_mod; discriminate).
  set (bo := off / 8) in *. set (s := off mod 8) in *.
  assert (Hs : s < 8) by (apply N.mod_lt; discriminate).
  replace (32 <? w) with false by (symmetry; apply N.ltb_ge; lia).
  set (bn := (s + w + 7) / 8).
  assert (Hbn : s + w <= 8 * bn) by (unfold bn; lia).
  replace (blen d <? bo + bn) with false by (symmetry; apply N.ltb_ge; unfold bn; lia).
  destruct ((bn <=? 8) && (bo + 8 <=? blen d)) eqn:Hfast.
  - apply andb_true_iff in Hfast. destruct Hfast as [Hf1 Hf2]. apply N.leb_le in Hf1. apply N.leb_le in Hf2.
    f_equal. rewrite shifted_fits by lia. rewrite store_window_or.
    + rewrite orv_split. rewrite <- Hoff. reflexivity.
    + intros k Hk. tb. destruct (N.leb_spec s k); cbn [andb]; [|reflexivity].
      replace (k - s <? w) with false by (symmetry; apply N.ltb_ge; lia). rewrite andb_false_r. reflexivity.
  - rewrite write_bits_slow_spec by lia. rewrite N2Nat.id, bitrange_all. reflexivity.
Qed.

Lemma uv_read_bits_spec d off w : 1 <= w <= 32 -> off + w <= 8 * blen d ->
  uv_read_bits d off w = IOk (field (bmem d) off w).
Proof.
  intros Hw Hfit. unfold uv_read_bits.
  assert (Hoff : off = 8 * (off / 8) + off mod 8) by (apply N.div_mod; discriminate).
  set (bo := off / 8) in *. set (s := off mod 8) in *.
  assert (Hs : s < 8) by (apply N.mod_lt; discriminate).
  replace (blen d <=? bo) with false by (symmetry; apply N.leb_gt; lia).
  replace (32 <? w) with false by (symmetry; apply N.ltb_ge; lia). cbn [orb].
  set (a := N.min 8 (blen d - bo)).
  assert (Ha : s + w <= 8 * a) by (unfold a; lia).
  f_equal. apply N.bits_inj. intros k. rewrite field_tb. tb. rewrite window_tb.
  destruct (N.ltb_spec k w) as [Hk|Hk]; [|rewrite andb_false_r; reflexivity].
  replace (k <? 32) with true by (symmetry; apply N.ltb_lt; lia).
  replace (k + s <? 8 * a) with true by (symmetry; apply N.ltb_lt; lia).
  cbn [andb]. rewrite !andb_true_r. f_equal. lia.
Qed.

Lemma add32_ok a b : a + b < W32c -> add32 a b = IOk (a + b).
Proof. intros H. unfold add32. replace (W32c <=? a + b) with false by (symmetry; apply N.leb_gt; exact H). reflexivity. Qed.

(* ---------- raw ---------- *)
Lemma raw_bytes32_pack vals : raw_bytes32 vals = pack 32 vals.
Proof. induction vals as [|v t IH]; [reflexivity|]. cbn [raw_bytes32 pack]. rewrite IH. reflexivity. Qed.

Lemma uv_raw_get vals i : Forall (fun v => v < W32c) vals -> (i < length vals)%nat ->
  uv_get_raw {| bmem := raw_bytes32 vals; blen := 4 * nlen vals |} (N.of_nat i) = Some (nth i vals 0).
Proof.
  intros Hall Hi. unfold uv_get_raw; cbn [blen].
  replace (N.of_nat i * 4 + 4 <=? 4 * nlen vals) with true by (symmetry; apply N.leb_le; rewrite nlen_length; lia).
  f_equal. unfold window; cbn [bmem]. rewrite raw_bytes32_pack.
  replace (8 * (N.of_nat i * 4)) with (32 * N.of_nat i) by lia. replace (8 * 4) with 32 by lia.
  apply (pack_nth vals 32 i); [|exact Hi].
  eapply Forall_impl; [|exact Hall]. intros a Ha. apply lt_W32. exact Ha.
Qed.

(* ---------- min-max ---------- *)
Lemma ccs_cover bw n : bw * n + 56 <= 8 * compute_compressed_size bw n.
Proof. unfold compute_compressed_size, align16. lia. Qed.

Lemma uv_mm_result vals mn bw : 1 <= bw <= 32 -> Forall (fun v => mn <= v) vals ->
  exists d, uv_compress_min_max vals mn bw = IOk d /\
    bmem d = pack bw (map (fun v => v - mn) vals) /\ blen d = compute_compressed_size bw (nlen vals).
Proof.
  intros Hbw Hge. unfold uv_compress_min_max.
  replace (bw =? 0) with false by (symmetry; apply N.eqb_neq; lia).
  replace (32 <? bw) with false by (symmetry; apply N.ltb_ge; lia). cbn [orb].
  set (A := compute_compressed_size bw (nlen vals)).
  rewrite mm_loop_seq by exact Hge.
  rewrite (seq_loop_spec_at _ bw (uv_write_bits_ok bw Hbw)).
  - destruct (orv_zeros A (pack bw (map (fun v => v - mn) vals))) as [Hm Hl].
    eexists. split; [reflexivity|]. split; assumption.
  - rewrite nlen_map. cbn [zeros blen]. pose proof (ccs_cover bw (nlen vals)). fold A in H. lia.
Qed.

Lemma uv_mm_get d mn bw vals i :
  1 <= bw <= 32 -> Forall (fun x => x < W32c) vals -> Forall (fun x => mn <= x /\ x - mn < 2 ^ bw) vals ->
  bmem d = pack bw (map (fun x => x - mn) vals) -> blen d = compute_compressed_size bw (nlen vals) ->
  (i < length vals)%nat ->
  uv_get_min_max d (N.of_nat i) mn bw = IOk (Some (nth i vals 0)).
Proof.
  intros Hbw H32 Hcov Hm Hl Hi. unfold uv_get_min_max.
  rewrite uv_read_bits_spec.
  2: exact Hbw.
  2:{ rewrite Hl. pose proof (ccs_cover bw (nlen vals)). assert (N.of_nat i < nlen vals) by (rewrite nlen_length; lia). nia. }
  rewrite Hm. replace (N.of_nat i * bw) with (bw * N.of_nat i) by lia.
  rewrite pack_nth.
  - rewrite nth_map0 by exact Hi.
    pose proof (Forall_nth_N _ _ i Hcov Hi) as [Hge _]. pose proof (Forall_nth_N _ _ i H32 Hi) as Hlt. cbn beta in *.
    rewrite add32_ok by lia. cbn [ibind]. f_equal. f_equal. lia.
  - apply Forall_forall. intros x Hx. apply in_map_iff in Hx. destruct Hx as (y & <- & Hy).
    rewrite Forall_forall in Hcov. apply Hcov. exact Hy.
  - rewrite map_length. exact Hi.
Qed.

(* ---------- run length ---------- *)
Definition runword (r : N * N) : N :=
  N.lor (N.land (fst r) (N.ones 32)) (N.shiftl (N.land (snd r) (N.ones 32)) 32).
Definition enc (rs : list (N * N)) : bvec := {| bmem := pack 64 (map runword rs); blen := 8 * nlen rs |}.

Lemma runword_small r : N.land (runword r) (N.ones 64) = runword r.
Proof.
  apply N.bits_inj. intros k. unfold runword. tb.
  destruct (N.ltb_spec k 64) as [Hk|Hk]; [rewrite andb_true_r; reflexivity|].
  replace (k <? 32) with false by (symmetry; apply N.ltb_ge; lia).
  destruct (N.leb_spec 32 k); cbn [andb]; [|btauto].
  replace (k - 32 <? 32) with false by (symmetry; apply N.ltb_ge; lia). btauto.
Qed.

Lemma append_run_enc rs v l : append_run (enc rs) v l = enc (rs ++ [(v, l)]).
Proof.
  apply bvec_eq; unfold append_run, enc; cbn [bmem blen].
  - rewrite map_app, pack_app. cbn [map pack]. rewrite N.shiftl_0_l, N.lor_0_r, runword_small, nlen_map.
    unfold runword; cbn [fst snd]. f_equal. f_equal. lia.
  - rewrite nlen_app. cbn [nlen]. lia.
Qed.

Fixpoint rle_runs (cur rl : N) (vals : list N) : list (N * N) :=
  match vals with
  | [] => [(cur, rl)]
  | v :: t => if (v =? cur) && (rl <? W32c - 1) then rle_runs cur (rl + 1) t else (cur, rl) :: rle_runs v 1 t
  end.

Lemma rle_loop_enc : forall vals rs cur rl, rle_loop (enc rs) cur rl vals = enc (rs ++ rle_runs cur rl vals).
Proof.
  induction vals as [|v t IH]; intros rs cur rl; cbn [rle_loop rle_runs].
  - apply append_run_enc.
  - destruct ((v =? cur) && (rl <? W32c - 1)); [apply IH|].
    rewrite append_run_enc, IH, <- app_assoc. reflexivity.
Qed.

Fixpoint expand (rs : list (N * N)) : list N :=
  match rs with [] => [] | r :: t => repeat (fst r) (N.to_nat (snd r)) ++ expand t end.

Lemma repeat_snoc (x : N) n : repeat x (S n) = repeat x n ++ [x].
Proof. induction n as [|n IH]; [reflexivity|]. cbn [repeat app] in *. rewrite <- IH. reflexivity. Qed.

Lemma expand_rle : forall vals cur rl, expand (rle_runs cur rl vals) = repeat cur (N.to_nat rl) ++ vals.
Proof.
  induction vals as [|v t IH]; intros cur rl; cbn [rle_runs].
  - cbn [expand fst snd]. reflexivity.
  - destruct (N.eqb_spec v cur) as [->|Hne]; cbn [andb].
    + destruct (rl <? W32c - 1).
      * rewrite IH. replace (N.to_nat (rl + 1)) with (S (N.to_nat rl)) by lia. rewrite repeat_snoc, <- app_assoc. reflexivity.
      * cbn [expand fst snd]. rewrite IH. cbn [N.to_nat Pos.to_nat Pos.iter_op repeat app]. reflexivity.
    + cbn [expand fst snd]. rewrite IH. cbn [N.to_nat Pos.to_nat Pos.iter_op repeat app]. reflexivity.
Qed.

Definition run_ok (r : N * N) : Prop := fst r < W32c /\ 1 <= snd r < W32c.

Lemma rle_runs_ok : forall vals cur rl, 1 <= rl < W32c -> cur < W32c -> Forall (fun v => v < W32c) vals ->
  Forall run_ok (rle_runs cur rl vals).
Proof.
  induction vals as [|v t IH]; intros cur rl Hrl Hcur Hall; cbn [rle_runs].
  - constructor; [split; assumption|constructor].
  - inversion Hall as [|? ? Hv Ht]; subst.
    destruct (N.eqb_spec v cur) as [->|Hne]; cbn [andb].
    + destruct (N.ltb_spec rl (W32c - 1)) as [Hlt|Hge].
      * apply IH; try assumption. lia.
      * constructor; [split; assumption|]. apply IH; try assumption. unfold W32c. lia.
    + constructor; [split; assumption|]. apply IH; try assumption. unfold W32c. lia.
Qed.

Lemma enc_window_value rs j : (j < length rs)%nat -> run_ok (nth j rs (0, 0)) ->
  window (enc rs) (8 * N.of_nat j) 4 = fst (nth j rs (0, 0)) /\
  window (enc rs) (8 * N.of_nat j + 4) 4 = snd (nth j rs (0, 0)).
Proof.
  intros Hj [Hv Hl]. apply lt_W32 in Hv. destruct Hl as [_ Hl]. apply lt_W32 in Hl.
  assert (Hw : forall k, k < 64 -> N.testbit (bmem (enc rs)) (64 * N.of_nat j + k) = N.testbit (runword (nth j rs (0, 0))) k).
  { intros k Hk. unfold enc; cbn [bmem]. rewrite pack_tb by exact Hk.
    rewrite (nth_indep _ 0 (runword (0, 0))) by (rewrite map_length; exact Hj). rewrite map_nth. reflexivity. }
  split; apply N.bits_inj; intros k; rewrite window_tb.
  - destruct (N.ltb_spec k (8 * 4)) as [Hk|Hk].
    + replace (k + 8 * (8 * N.of_nat j)) with (64 * N.of_nat j + k) by lia. rewrite Hw by lia.
      unfold runword. tb. replace (k <? 32) with true by (symmetry; apply N.ltb_lt; lia).
      replace (32 <=? k) with false by (symmetry; apply N.leb_gt; lia). btauto.
    + rewrite andb_false_r. symmetry. apply (small_testbit _ 32); [exact Hv|lia].
  - destruct (N.ltb_spec k (8 * 4)) as [Hk|Hk].
    + replace (k + 8 * (8 * N.of_nat j + 4)) with (64 * N.of_nat j + (k + 32)) by lia. rewrite Hw by lia.
      unfold runword. tb. replace (k + 32 <? 32) with false by (symmetry; apply N.ltb_ge; lia).
      replace (32 <=? k + 32) with true by (symmetry; apply N.leb_le; lia).
      replace (k + 32 - 32) with k by lia. replace (k <? 32) with true by (symmetry; apply N.ltb_lt; lia). btauto.
    + rewrite andb_false_r. symmetry. apply (small_testbit _ 32); [exact Hl|lia].
Qed.

Lemma nth_error_repeat_app (x : N) n rest i : (i < n)%nat -> nth_error (repeat x n ++ rest) i = Some x.
Proof.
  revert i. induction n as [|n IH]; intros i Hi; [lia|]. destruct i as [|i]; [reflexivity|]. cbn [repeat app nth_error]. apply IH. lia.
Qed.
Lemma nth_error_app_skip (a rest : list N) i : (length a <= i)%nat -> nth_error (a ++ rest) i = nth_error rest (i - length a).
Proof. intros H. apply nth_error_app2. exact H. Qed.

Lemma get_rl_spec : forall tl hd index cur fuel,
  Forall run_ok (hd ++ tl) -> (length tl < fuel)%nat -> cur <= index ->
  uv_get_run_length (enc (hd ++ tl)) index cur (8 * nlen hd) fuel = nth_error (expand tl) (N.to_nat (index - cur)).
Proof.
  induction tl as [|r tl IH]; intros hd index cur fuel Hok Hfuel Hcur.
  - destruct fuel as [|fuel]; [cbn in Hfuel; lia|]. cbn [uv_get_run_length]. rewrite app_nil_r. unfold enc at 1; cbn [blen].
    replace (8 * nlen hd + 8 <=? 8 * nlen hd) with false by (symmetry; apply N.leb_gt; lia).
    cbn [expand]. destruct (N.to_nat (index - cur)); reflexivity.
  - destruct fuel as [|fuel]; [cbn in Hfuel; lia|]. cbn [uv_get_run_length].
    assert (Hblen : blen (enc (hd ++ r :: tl)) = 8 * nlen hd + 8 * (1 + nlen tl)).
    { unfold enc; cbn [blen]. rewrite nlen_app. cbn [nlen]. lia. }
    rewrite Hblen. replace (8 * nlen hd + 8 <=? 8 * nlen hd + 8 * (1 + nlen tl)) with true by (symmetry; apply N.leb_le; lia).
    assert (Hj : (length hd < length (hd ++ r :: tl))%nat) by (rewrite app_length; cbn [length]; lia).
    assert (Hnth : nth (length hd) (hd ++ r :: tl) (0, 0) = r) by (rewrite app_nth2 by lia; rewrite Nat.sub_diag; reflexivity).
    assert (Hr : run_ok r) by (rewrite Forall_forall in Hok; apply Hok; apply in_or_app; right; left; reflexivity).
    destruct (enc_window_value (hd ++ r :: tl) (length hd) Hj) as [Hv Hl]; [rewrite Hnth; exact Hr|].
    rewrite Hnth in Hv, Hl. rewrite <- nlen_length in Hv, Hl. rewrite Hv, Hl.
    destruct r as [v l]. cbn [fst snd] in *. destruct Hr as [_ [Hl1 _]]. cbn [snd] in Hl1.
    destruct (N.ltb_spec index (cur + l)) as [Hin|Hout].
    + cbn [expand fst snd]. symmetry. apply nth_error_repeat_app. lia.
    + replace (hd ++ (v, l) :: tl) with ((hd ++ [(v, l)]) ++ tl) by (rewrite <- app_assoc; reflexivity).
      replace (8 * nlen hd + 8) with (8 * nlen (hd ++ [(v, l)])) by (rewrite nlen_app; cbn [nlen]; lia).
      rewrite IH.
      * cbn [expand fst snd]. rewrite nth_error_app_skip by (rewrite repeat_length; lia).
        rewrite repeat_length. f_equal. lia.
      * rewrite <- app_assoc. exact Hok.
      * cbn [length] in Hfuel. lia.
      * lia.
Qed.

Lemma uv_rl_get vals i : vals <> [] -> Forall (fun v => v < W32c) vals ->
  uv_get_compressed URunLength (uv_compress_run_length vals) i = IOk (nth_error vals (N.to_nat i)).
Proof.
  intros Hne Hall. destruct vals as [|v t]; [congruence|]. cbn [uv_get_compressed uv_compress_run_length]. f_equal.
  inversion Hall as [|? ? Hv Ht]; subst.
  change bempty with (enc []). rewrite rle_loop_enc. cbn [app].
  pose proof (rle_runs_ok t v 1 ltac:(unfold W32c; lia) Hv Ht) as Hok.
  pose proof (get_rl_spec (rle_runs v 1 t) [] i 0 (S (N.to_nat (blen (enc (rle_runs v 1 t)) / 8)))) as H.
  cbn [app nlen] in H. rewrite N.mul_0_r in H. rewrite H.
  - rewrite expand_rle. cbn [N.to_nat Pos.to_nat Pos.iter_op repeat app]. rewrite N.sub_0_r. reflexivity.
  - exact Hok.
  - unfold enc; cbn [blen]. replace (8 * nlen (rle_runs v 1 t) / 8) with (nlen (rle_runs v 1 t)) by lia.
    rewrite nlen_length. lia.
  - lia.
Qed.

(* ---------- any strategy ---------- *)
Theorem uv_build_with_get s vals :
  vals <> [] -> Forall (fun v => v < W32c) vals -> ucovers s vals ->
  exists v, uv_build_with s vals = IOk v /\ ustrat v = s /\ ulen v = nlen vals /\ utemp v = [] /\
    (forall i, (i < length vals)%nat -> uv_get_compressed s (udata v) (N.of_nat i) = IOk (Some (nth i vals 0))).
Proof.
  intros Hne H32 Hcov. unfold uv_build_with. destruct s as [|mn bw|]; cbn [uv_compress].
  - cbn [ibind]. eexists. repeat split; try reflexivity. cbn [udata]. intros i Hi. cbn [uv_get_compressed].
    rewrite uv_raw_get by assumption. reflexivity.
  - destruct Hcov as [Hbw Hall].
    destruct (uv_mm_result vals mn bw Hbw) as (d & Hd & Hm & Hl).
    { eapply Forall_impl; [|exact Hall]. intros a [Ha _]. exact Ha. }
    rewrite Hd. cbn [ibind]. eexists. repeat split; try reflexivity. cbn [udata uv_get_compressed]. intros i Hi.
    apply (uv_mm_get d mn bw vals i); assumption.
  - cbn [ibind]. eexists. repeat split; try reflexivity. cbn [udata]. intros i Hi.
    rewrite uv_rl_get by assumption. rewrite Nat2N.id. f_equal. apply nth_error_nth'. exact Hi.
Qed.

(* ---------- the analysis covers ---------- *)
Lemma size_le_32 v : v <> 0 -> v < 2 ^ 32 -> 1 <= N.size v <= 32.
Proof. intros Hz H. rewrite N.size_log2 by exact Hz. apply N.log2_lt_pow2 in H; lia. Qed.

Lemma uv_analyze_covers fc vals : vals <> [] -> Forall (fun v => v < W32c) vals -> ucovers (uv_analyze fc vals) vals.
Proof.
  intros Hne H32. unfold uv_analyze.
  destruct (nlen vals <? 4); [exact I|].
  match goal with |- ucovers (if ?c then _ else _) _ => destruct c; [exact I|] end.
  assert (Hmn : forall x, In x vals -> list_min vals <= x <= list_max vals).
  { intros x Hx. split; [apply list_min_le|apply list_max_ge]; exact Hx. }
  assert (Hmxlt : list_max vals < W32c).
  { unfold list_max. clear Hne Hmn. induction vals as [|x t IH]; cbn [fold_right]; [unfold W32c; lia|].
    inversion H32; subst. specialize (IH H2). lia. }
  destruct (N.eqb_spec (list_min vals) (list_max vals)) as [Heq|Hneq].
  - destruct (should_compress fc _ _ _); [|exact I]. cbn [ucovers]. split; [lia|].
    apply Forall_forall. intros x Hx. specialize (Hmn x Hx). split; [lia|]. replace (x - list_min vals) with 0 by lia. cbn. lia.
  - destruct (should_compress fc _ _ _); [|exact I]. cbn [ucovers].
    assert (Hle : list_min vals <= list_max vals).
    { destruct vals as [|x t]; [congruence|]. specialize (Hmn x (or_introl eq_refl)). lia. }
    split; [apply size_le_32; [lia|apply lt_W32; lia]|].
    apply Forall_forall. intros x Hx. specialize (Hmn x Hx). split; [lia|].
    pose proof (N.size_gt (list_max vals - list_min vals)). lia.
Qed.

(* the hypotheses are inhabited *)
Example uintvector_strategy_example :
  let vals := [1000; 1003; 1001; 1007; 1000] in
  vals <> [] /\ Forall (fun v => v < W32c) vals /\ ucovers (UMinMax 1000 3) vals /\
  match uv_build_with (UMinMax 1000 3) vals with
  | IOk v => map (fun i => uv_get v i) [0; 3; 4; 5] = [IOk (Some 1000); IOk (Some 1007); IOk (Some 1000); IOk None]
  | _ => False
  end.
Proof.
  cbv zeta. split; [discriminate|]. split; [repeat constructor|]. split.
  - cbn [ucovers]. split; [lia|]. repeat (apply Forall_cons; [split; [vm_compute; discriminate|vm_compute; reflexivity]|]). apply Forall_nil.
  - vm_compute. reflexivity.
Qed.

