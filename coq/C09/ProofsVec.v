(* C09: UintVecMin0 as a vector: get/set laws, bounds, bulk build. *)
From ZV.Common Require Import Base.
From ZV.C09 Require Import Model ProofsBits.
Open Scope N_scope.

Definition mem_size (b n : N) : N := ((b * n + 7) / 8 + 7 + 15) / 16 * 16.

Definition wf (m : min0) : Prop :=
  bits m <= 58 /\ mask m = N.ones (bits m) /\ mem_size (bits m) (size m) <= memlen m.

(* the abstract content of slot i *)
Definition fieldv (m : min0) (i : N) : N :=
  N.land (N.shiftr (mem m) (bits m * i)) (N.ones (bits m)).

Lemma fieldv_tb m i k :
  N.testbit (fieldv m i) k = (k <? bits m) && N.testbit (mem m) (bits m * i + k).
Proof. unfold fieldv. tb. rewrite andb_comm. f_equal. f_equal. lia. Qed.

Lemma access_in_bounds b idx n ml :
  idx < n -> mem_size b n <= ml -> b * idx / 8 + 8 <= ml.
Proof.
  unfold mem_size. intros Hi Hm.
  destruct (N.eq_dec b 0) as [->|Hb].
  - rewrite !N.mul_0_l in *. cbn in *. lia.
  - assert (H : b * idx + b <= b * n) by nia.
    set (X := b * idx) in *. set (Y := b * n) in *. clearbody X Y. lia.
Qed.

Lemma load_ok m i : i + 8 <= memlen m -> exists v, load64 m i = Ok v.
Proof.
  intros H. unfold load64. replace (memlen m <? i + 8) with false by (symmetry; apply N.ltb_ge; lia).
  eexists; reflexivity.
Qed.

Theorem get_field m idx : wf m -> idx < size m -> get m idx = Ok (fieldv m idx).
Proof.
  intros (Hb & Hmask & Hmem) Hi. unfold get.
  replace (size m <=? idx) with false by (symmetry; apply N.leb_gt; lia).
  replace (58 <? bits m) with false by (symmetry; apply N.ltb_ge; lia).
  destruct (load_ok m (bits m * idx / 8)) as [w Hw].
  { eapply access_in_bounds; eauto. }
  destruct (fast_get_internal m idx) as [v| |] eqn:Hg.
  - f_equal. apply N.bits_inj. intros k. rewrite (fast_get_spec m idx v Hb Hmask Hg), fieldv_tb. reflexivity.
  - unfold fast_get_internal in Hg. rewrite Hw in Hg. discriminate.
  - unfold fast_get_internal in Hg. rewrite Hw in Hg. discriminate.
Qed.

Lemma ones_lt b v : v <= N.ones b -> v < 2 ^ b.
Proof. rewrite N.ones_equiv. pose proof (pow2_pos b). lia. Qed.

Lemma set_ok m idx val : wf m -> idx < size m -> val <= mask m ->
  exists m', set m idx val = Ok m'.
Proof.
  intros (Hb & Hmask & Hmem) Hi Hv. unfold set, set_wire, set_uint_bits.
  replace (size m <=? idx) with false by (symmetry; apply N.leb_gt; lia).
  replace (mask m <? val) with false by (symmetry; apply N.ltb_ge; lia).
  replace (64 <? bits m) with false by (symmetry; apply N.ltb_ge; lia).
  destruct (N.eqb_spec (bits m) 0); [eexists; reflexivity|].
  pose proof (field_fits (bits m) idx Hb) as Hfit.
  replace ((bits m * idx) mod 8 + bits m <=? 64) with true by (symmetry; apply N.leb_le; lia).
  destruct (load_ok m (bits m * idx / 8)) as [w Hw].
  { eapply access_in_bounds; eauto. }
  rewrite Hw. cbn [bind]. unfold store64.
  replace (memlen m <? bits m * idx / 8 + 8) with false
    by (symmetry; apply N.ltb_ge; eapply access_in_bounds; eauto).
  eexists; reflexivity.
Qed.

Lemma set_spec m idx val m' : wf m -> idx < size m -> val <= mask m -> set m idx val = Ok m' ->
  wf m' /\ size m' = size m /\ bits m' = bits m /\ memlen m' = memlen m /\
  fieldv m' idx = val /\ (forall j, j <> idx -> fieldv m' j = fieldv m j).
Proof.
  intros Hwf Hi Hv Hset. pose proof Hwf as (Hb & Hmask & Hmem). unfold set, set_wire in Hset.
  replace (size m <=? idx) with false in Hset by (symmetry; apply N.leb_gt; lia).
  replace (mask m <? val) with false in Hset by (symmetry; apply N.ltb_ge; lia).
  replace (64 <? bits m) with false in Hset by (symmetry; apply N.ltb_ge; lia).
  destruct (N.eq_dec (bits m) 0) as [H0|H0].
  - (* zero-width: nothing stored, every field is 0 *)
    unfold set_uint_bits in Hset. rewrite H0 in Hset. cbn in Hset. injection Hset as <-.
    repeat split; try assumption; try reflexivity.
    unfold fieldv. rewrite H0. cbn [N.ones]. rewrite Hmask, H0 in Hv. cbn in Hv.
    rewrite N.land_0_r. lia.
  - assert (Hval : val < 2 ^ bits m) by (apply ones_lt; rewrite <- Hmask; exact Hv).
    pose proof (field_fits (bits m) idx Hb) as Hfit.
    destruct (set_uint_bits_spec m (bits m * idx) (bits m) val m') as (Hbits & Hml & Hbb & Hmk & Hsz);
      try assumption; try lia.
    repeat split.
    + lia.
    + rewrite Hmk, Hbb. exact Hmask.
    + rewrite Hml, Hbb, Hsz. exact Hmem.
    + exact Hsz.
    + exact Hbb.
    + exact Hml.
    + apply N.bits_inj. intros k. rewrite fieldv_tb, Hbits, Hbb.
      destruct (N.ltb_spec k (bits m)) as [Hk|Hk]; cbn [andb].
      * replace (bits m * idx <=? bits m * idx + k) with true by (symmetry; apply N.leb_le; lia).
        replace (bits m * idx + k <? bits m * idx + bits m) with true by (symmetry; apply N.ltb_lt; lia).
        cbn [andb]. f_equal. lia.
      * symmetry. apply (small_testbit val (bits m)); assumption.
    + intros j Hj. apply N.bits_inj. intros k. rewrite !fieldv_tb, Hbits, Hbb.
      destruct (N.ltb_spec k (bits m)) as [Hk|Hk]; cbn [andb]; [|reflexivity].
      assert (Hout : bits m * j + k < bits m * idx \/ bits m * idx + bits m <= bits m * j + k).
      { destruct (N.lt_ge_cases j idx); [left|right]; nia. }
      destruct Hout as [Ho|Ho].
      * replace (bits m * idx <=? bits m * j + k) with false by (symmetry; apply N.leb_gt; lia).
        reflexivity.
      * replace (bits m * j + k <? bits m * idx + bits m) with false by (symmetry; apply N.ltb_ge; lia).
        rewrite andb_false_r. reflexivity.
Qed.

Theorem set_get_same m idx val m' :
  wf m -> idx < size m -> val <= mask m -> set m idx val = Ok m' -> get m' idx = Ok val.
Proof.
  intros Hwf Hi Hv Hset. destruct (set_spec _ _ _ _ Hwf Hi Hv Hset) as (Hwf' & Hsz & _ & _ & Hf & _).
  rewrite get_field by (try assumption; lia). rewrite Hf. reflexivity.
Qed.

Theorem set_get_other m idx val m' j :
  wf m -> idx < size m -> val <= mask m -> set m idx val = Ok m' -> j < size m -> j <> idx ->
  get m' j = get m j.
Proof.
  intros Hwf Hi Hv Hset Hj Hne. destruct (set_spec _ _ _ _ Hwf Hi Hv Hset) as (Hwf' & Hsz & _ & _ & _ & Ho).
  rewrite !get_field by (try assumption; lia). rewrite Ho by exact Hne. reflexivity.
Qed.

Theorem get_out_of_range m idx : size m <= idx -> get m idx = Panic.
Proof. intros H. unfold get. replace (size m <=? idx) with true by (symmetry; apply N.leb_le; lia). reflexivity. Qed.

(* ---- bulk construction ---- *)
Lemma size_le_58 v : v < 2 ^ 58 -> compute_uintbits v <= 58.
Proof.
  intros H. unfold compute_uintbits. destruct (N.eq_dec v 0) as [->|Hz]; [cbn; lia|].
  rewrite N.size_log2 by exact Hz. apply N.log2_lt_pow2 in H; lia.
Qed.

Lemma le_ones_size v : v <= N.ones (compute_uintbits v).
Proof.
  unfold compute_uintbits. rewrite N.ones_equiv. pose proof (N.size_gt v). lia.
Qed.

Lemma new_spec num mx : mx < 2 ^ 58 ->
  exists m, new num mx = Ok m /\ wf m /\ size m = num /\ mx <= mask m /\ mem m = 0.
Proof.
  intros H. pose proof (size_le_58 mx H) as Hb. unfold new, resize_with_uintbits.
  replace (64 <? compute_uintbits mx) with false by (symmetry; apply N.ltb_ge; lia).
  replace (compute_uintbits mx =? 64) with false by (symmetry; apply N.eqb_neq; lia).
  unfold compute_mem_size.
  replace (64 <? compute_uintbits mx) with false by (symmetry; apply N.ltb_ge; lia).
  cbn [bind]. eexists. split; [reflexivity|]. cbn [mem memlen bits mask size empty].
  repeat split.
  - exact Hb.
  - unfold mem_size. apply N.le_refl.
  - apply le_ones_size.
Qed.

Definition holds (m : min0) (i : N) (vals : list N) : Prop :=
  forall k, (k < length vals)%nat -> fieldv m (i + N.of_nat k) = nth k vals 0.

Lemma set_all_spec : forall vals m i,
  wf m -> i + nlen vals <= size m -> Forall (fun v => v <= mask m) vals ->
  exists m', set_all m i vals = Ok m' /\ wf m' /\ size m' = size m /\ mask m' = mask m /\
             holds m' i vals /\ (forall j, j < i -> fieldv m' j = fieldv m j).
Proof.
  induction vals as [|v vals IH]; intros m i Hwf Hlen Hall.
  - exists m. cbn [set_all]. unfold holds. split; [reflexivity|]. split; [exact Hwf|]. split; [reflexivity|].
    split; [reflexivity|]. split; [|auto]. intros k Hk. cbn in Hk. lia.
  - cbn [nlen] in Hlen. inversion Hall as [|? ? Hv Hall']; subst.
    destruct (set_ok m i v Hwf) as [m1 Hset]; [lia|exact Hv|].
    assert (Hi : i < size m) by lia.
    destruct (set_spec _ _ _ _ Hwf Hi Hv Hset) as (Hwf1 & Hsz1 & Hb1 & Hml1 & Hf1 & Ho1).
    assert (Hmask1 : mask m1 = mask m).
    { destruct Hwf1 as (_ & Hm1 & _). destruct Hwf as (_ & Hm & _). rewrite Hm1, Hm, Hb1. reflexivity. }
    destruct (IH m1 (i + 1) Hwf1) as (m' & Hsa & Hwf' & Hsz' & Hmask' & Hh & Hlow).
    { rewrite Hsz1. lia. }
    { rewrite Hmask1. exact Hall'. }
    exists m'. cbn [set_all]. rewrite Hset. cbn [bind]. rewrite Hsa.
    unfold holds in *. split; [reflexivity|]. split; [exact Hwf'|]. split; [congruence|]. split; [congruence|]. split.
    + intros k Hk. destruct k as [|k].
      * cbn [nth]. replace (i + N.of_nat 0) with i by lia. rewrite Hlow by lia. exact Hf1.
      * cbn [nth]. cbn [length] in Hk. assert (Hk' : (k < length vals)%nat) by lia. specialize (Hh k Hk').
        replace (i + N.of_nat (S k)) with (i + 1 + N.of_nat k) by lia. exact Hh.
    + intros j Hj. rewrite Hlow by lia. apply Ho1. lia.
Qed.

Lemma list_min_le l x : In x l -> list_min l <= x.
Proof.
  unfold list_min. intros Hin.
  assert (G : forall d, fold_right N.min d l <= x).
  { induction l as [|y l IH]; [contradiction|]. intros d. cbn [fold_right].
    destruct Hin as [->|Hin]; [lia|]. specialize (IH Hin d). lia. }
  apply G.
Qed.
Lemma list_max_ge l x : In x l -> x <= list_max l.
Proof.
  unfold list_max. induction l as [|y l IH]; [contradiction|]. intros [->|Hin]; cbn [fold_right]; [lia|].
  specialize (IH Hin). lia.
Qed.

(* bulk build: every element reads back, for every sequence whose range fits 58 bits *)
Theorem build_from_get_proof src :
  src <> [] -> list_max src - list_min src < 2 ^ 58 ->
  exists m mn, build_from src = Ok (m, mn) /\ size m = nlen src /\
    forall i, (i < length src)%nat -> get m (N.of_nat i) = Ok (nth i src 0 - mn) /\ mn <= nth i src 0.
Proof.
  intros Hne Hrange. unfold build_from. destruct src as [|s0 rest] eqn:Hsrc; [congruence|]. rewrite <- Hsrc in *.
  destruct (new_spec (nlen src) (list_max src - list_min src) Hrange) as (m0 & Hnew & Hwf0 & Hsz0 & Hmx & _).
  rewrite Hnew. cbn [bind].
  destruct (set_all_spec (map (fun x => x - list_min src) src) m0 0 Hwf0) as (m' & Hsa & Hwf' & Hsz' & _ & Hh & _).
  { rewrite nlen_length, map_length, <- nlen_length. lia. }
  { apply Forall_forall. intros v Hv. apply in_map_iff in Hv. destruct Hv as (x & <- & Hx).
    pose proof (list_max_ge src x Hx). pose proof (list_min_le src x Hx). lia. }
  rewrite Hsa. cbn [bind]. exists m', (list_min src). split; [reflexivity|]. split; [congruence|].
  intros i Hi. split.
  - rewrite get_field by (try assumption; rewrite Hsz', Hsz0, nlen_length; lia).
    specialize (Hh i). rewrite map_length in Hh. specialize (Hh Hi). cbn in Hh.
    replace (0 + N.of_nat i) with (N.of_nat i) in Hh by lia. rewrite Hh.
    f_equal. rewrite (nth_indep _ 0 ((fun x => x - list_min src) 0)) by (rewrite map_length; exact Hi).
    apply (map_nth (fun x => x - list_min src)).
  - apply list_min_le. apply nth_In. exact Hi.
Qed.

(* push_back, fast path: appends without disturbing earlier elements *)
Theorem push_back_fast_proof m val :
  wf m -> mem_size (bits m) (size m + 1) <= memlen m -> val <= mask m ->
  exists m', push_back m val = Ok m' /\ wf m' /\ size m' = size m + 1 /\
     get m' (size m) = Ok val /\ (forall j, j < size m -> get m' j = get m j).
Proof.
  intros Hwf Hcap Hv. pose proof Hwf as (Hb & Hmask & Hmem).
  unfold push_back, compute_mem_size.
  replace (64 <? bits m) with false by (symmetry; apply N.ltb_ge; lia). cbn [bind].
  fold (mem_size (bits m) (size m + 1)).
  replace (mem_size (bits m) (size m + 1) <=? memlen m) with true by (symmetry; apply N.leb_le; exact Hcap).
  replace (val <=? mask m) with true by (symmetry; apply N.leb_le; exact Hv). cbn [andb].
  (* view the write as a `set` on the vector already extended by one slot *)
  set (mx := {| mem := mem m; memlen := memlen m; bits := bits m; mask := mask m; size := size m + 1 |}).
  assert (Hwfx : wf mx) by (unfold wf, mx; cbn; auto).
  assert (Hsw : bind (set_wire m (size m) val)
                  (fun m' => Ok {| mem := mem m'; memlen := memlen m'; bits := bits m'; mask := mask m'; size := size m + 1 |})
                = set mx (size m) val).
  { unfold set, set_wire, mx. cbn [size mask bits].
    replace (size m + 1 <=? size m) with false by (symmetry; apply N.leb_gt; lia).
    replace (mask m <? val) with false by (symmetry; apply N.ltb_ge; lia).
    replace (64 <? bits m) with false by (symmetry; apply N.ltb_ge; lia).
    unfold set_uint_bits, load64, store64. cbn [memlen mem bits mask size].
    destruct (bits m =? 0); [reflexivity|].
    destruct ((bits m * size m) mod 8 + bits m <=? 64); [|reflexivity].
    destruct (memlen m <? bits m * size m / 8 + 8); reflexivity. }
  destruct (set_ok mx (size m) val Hwfx) as [m1 Hset]; [cbn; lia|exact Hv|].
  rewrite Hsw, Hset.
  assert (Hix : size m < size mx) by (cbn; lia).
  destruct (set_spec _ _ _ _ Hwfx Hix Hv Hset) as (Hwf1 & Hsz1 & Hb1 & Hml1 & Hf1 & Ho1).
  cbn [size mx] in Hsz1.
  exists m1. split; [reflexivity|]. split; [exact Hwf1|]. split; [exact Hsz1|]. split.
  - rewrite get_field by (try exact Hwf1; lia). rewrite Hf1. reflexivity.
  - intros j Hj. rewrite !get_field by (try assumption; lia).
    assert (Hjn : j <> size m) by lia. rewrite (Ho1 j Hjn). unfold fieldv, mx. cbn [mem bits]. reflexivity.
Qed.

(* the recorded finding: widths above 58 bits cannot be read back (get asserts),
   and 64-bit widths cannot even be constructed in the checked profile *)
Theorem min0_wide_refuted_proof :
  exists src, Forall (fun v => v < W64) src /\
    (match build_from src with Ok (m, _) => get m 0 = Panic | _ => True end) /\
    new 2 (W64 - 1) = Panic.
Proof.
  exists [0; 2 ^ 58]. split; [|split].
  - repeat constructor; unfold W64; cbn; lia.
  - vm_compute. reflexivity.
  - vm_compute. reflexivity.
Qed.
