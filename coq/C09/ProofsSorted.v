(* C09: SortedUintVec - packed field arrays (store_bits / extract_bits), the builder loop, get / get2 / get_block. *)
From ZV.Common Require Import Base.
From ZV.C09 Require Import Model ProofsBits ModelSorted.
Open Scope N_scope.

(* ---------- field j of width w of a little-endian number ---------- *)
Definition fld (x w j : N) : N := N.land (N.shiftr x (w * j)) (N.ones w).

Lemma fld_tb x w j k : N.testbit (fld x w j) k = (k <? w) && N.testbit x (w * j + k).
Proof. unfold fld. tb. rewrite andb_comm. f_equal. f_equal. lia. Qed.

(* a byte vector that holds exactly the fields l, back to back, and nothing else *)
Definition packed (d : bvec) (w : N) (l : list N) : Prop :=
  (forall j, (j < length l)%nat -> fld (bmem d) w (N.of_nat j) = nth j l 0) /\
  (forall k, w * nlen l <= k -> N.testbit (bmem d) k = false) /\
  blen d = (w * nlen l + 7) / 8.

Lemma packed_empty w : packed bempty w [].
Proof.
  unfold packed, bempty; cbn [bmem blen length nlen]. split; [|split].
  - intros j Hj. inversion Hj.
  - intros k _. apply N.bits_0.
  - rewrite N.mul_0_r. reflexivity.
Qed.

Lemma tb_small_false v w k : v < 2 ^ w -> w <= k -> N.testbit v k = false.
Proof. apply small_testbit. Qed.

Lemma store_bits_append d w l v :
  packed d w l -> v < 2 ^ w -> w <= 64 -> (w * nlen l) mod 8 + w <= 64 ->
  exists d', store_bits d (w * nlen l) v w = ROk d' /\ packed d' w (l ++ [v]).
Proof.
  intros (P1 & P2 & P3) Hv Hw Hfit. unfold store_bits.
  remember (w * nlen l) as off eqn:Hoffdef.
  remember (off / 8) as bo eqn:Hbo. remember (off mod 8) as s eqn:Hs.
  remember ((s + w + 7) / 8) as bn eqn:Hbn.
  assert (Hoff : off = 8 * bo + s) by (subst bo s; lia).
  assert (Hs8 : s < 8) by (subst s; lia).
  assert (Hbn8 : bn <= 8) by (subst bn; lia).
  assert (Hbnw : s + w <= 8 * bn) by (subst bn; lia).
  replace (8 <? bn) with false by (symmetry; apply N.ltb_ge; lia).
  assert (Hmasked : (if w <? 64 then N.land v (N.ones w) else v) = v).
  { destruct (w <? 64); [|reflexivity]. rewrite N.land_ones. apply N.mod_small. exact Hv. }
  rewrite Hmasked. eexists. split; [reflexivity|].
  set (m' := N.lor (bmem d) (N.shiftl (N.land (trunc64 (N.shiftl v s)) (N.ones (8 * bn))) (8 * bo))).
  assert (Hbits : forall k, N.testbit m' k = N.testbit (bmem d) k || ((off <=? k) && N.testbit v (k - off))).
  { intros k. unfold m'. tb. f_equal.
    destruct (N.leb_spec off k) as [Hk|Hk]; cbn [andb].
    - replace (8 * bo <=? k) with true by (symmetry; apply N.leb_le; lia).
      replace (s <=? k - 8 * bo) with true by (symmetry; apply N.leb_le; lia).
      replace (k - 8 * bo - s) with (k - off) by lia. cbn [andb].
      destruct (N.testbit v (k - off)) eqn:Hb; cbn [andb]; [|reflexivity].
      assert (Hkw : k - off < w).
      { destruct (N.lt_ge_cases (k - off) w) as [H|H]; [exact H|].
        rewrite (tb_small_false v w (k - off) Hv H) in Hb. discriminate. }
      replace (k - 8 * bo <? 64) with true by (symmetry; apply N.ltb_lt; lia).
      replace (k - 8 * bo <? 8 * bn) with true by (symmetry; apply N.ltb_lt; lia).
      reflexivity.
    - destruct (N.leb_spec (8 * bo) k) as [H1|H1]; cbn [andb]; [|reflexivity].
      replace (s <=? k - 8 * bo) with false by (symmetry; apply N.leb_gt; lia).
      reflexivity. }
  unfold packed; cbn [bmem blen]. fold m'.
  assert (Hlen : nlen (l ++ [v]) = nlen l + 1) by (rewrite nlen_app; cbn [nlen]; lia).
  assert (Hoff' : w * nlen (l ++ [v]) = off + w) by (rewrite Hlen; lia).
  split; [|split].
  - intros j Hj. rewrite app_length in Hj. cbn [length] in Hj.
    apply N.bits_inj. intros k. rewrite fld_tb, Hbits.
    destruct (Nat.eq_dec j (length l)) as [->|Hne].
    + (* the new field *)
      rewrite nth_middle. rewrite <- nlen_length, <- Hoffdef.
      destruct (N.ltb_spec k w) as [Hk|Hk]; cbn [andb].
      * rewrite (P2 (off + k)) by lia.
        replace (off <=? off + k) with true by (symmetry; apply N.leb_le; lia).
        replace (off + k - off) with k by lia. reflexivity.
      * symmetry. apply (tb_small_false v w k Hv Hk).
    + assert (Hj' : (j < length l)%nat) by lia.
      rewrite app_nth1 by exact Hj'. rewrite <- (P1 j Hj'), fld_tb.
      destruct (N.ltb_spec k w) as [Hk|Hk]; cbn [andb]; [|reflexivity].
      assert (Hlt : w * N.of_nat j + k < off).
      { rewrite Hoffdef, nlen_length. nia. }
      replace (off <=? w * N.of_nat j + k) with false by (symmetry; apply N.leb_gt; lia).
      cbn [andb]. rewrite orb_false_r. reflexivity.
  - intros k Hk. rewrite Hoff' in Hk. rewrite Hbits. rewrite P2 by lia. cbn [orb].
    replace (off <=? k) with true by (symmetry; apply N.leb_le; lia). cbn [andb].
    apply (tb_small_false v w (k - off) Hv). lia.
  - rewrite Hoff', P3. subst bn bo s. lia.
Qed.

(* the bounds check of extract_bits / get_block_min_val passes for every stored field *)
Lemma packed_bound d w l j :
  packed d w l -> (j < length l)%nat ->
  (w * N.of_nat j) / 8 + N.min 8 (((w * N.of_nat j) mod 8 + w + 7) / 8) <= blen d.
Proof.
  intros (_ & _ & P3) Hj. rewrite P3.
  assert (H : w * N.of_nat j + w <= w * nlen l) by (rewrite nlen_length; nia).
  remember (w * N.of_nat j) as J. remember (w * nlen l) as T. lia.
Qed.

Lemma extract_bits_field c d w l j :
  packed d w l -> (j < length l)%nat -> 0 < w -> w <= 64 -> (w * N.of_nat j) mod 8 + w <= 64 ->
  extract_bits c d (w * N.of_nat j) w = ROk (nth j l 0).
Proof.
  intros Hp Hj Hw0 Hw Hfit. pose proof (packed_bound d w l j Hp Hj) as Hbound.
  destruct Hp as (P1 & P2 & P3). unfold extract_bits.
  replace (w =? 0) with false by (symmetry; apply N.eqb_neq; lia).
  replace (64 <? w) with false by (symmetry; apply N.ltb_ge; lia). cbn [orb].
  remember (w * N.of_nat j) as off eqn:Hoffdef.
  remember (off / 8) as bo eqn:Hbo. remember (off mod 8) as s eqn:Hs.
  remember (N.min 8 ((s + w + 7) / 8)) as bn eqn:Hbn.
  assert (Hoff : off = 8 * bo + s) by (subst bo s; lia).
  assert (Hbnw : s + w <= 8 * bn) by (subst bn; lia).
  replace (blen d <? bo + bn) with false by (symmetry; apply N.ltb_ge; lia).
  f_equal. rewrite <- (P1 j Hj). apply N.bits_inj. intros k. rewrite fld_tb, <- Hoffdef.
  unfold window.
  destruct (simd c); cbn [orb].
  - rewrite Bool.orb_true_r. tb.
    destruct (N.ltb_spec k w) as [Hk|Hk]; [|rewrite andb_false_r; reflexivity].
    rewrite andb_true_r. cbn [andb].
    replace (k + s <? 8 * N.min 8 (blen d - bo)) with true by (symmetry; apply N.ltb_lt; lia).
    rewrite andb_true_r. f_equal. lia.
  - destruct (N.ltb_spec w 64) as [Hw64|Hw64]; cbn [orb].
    + tb. destruct (N.ltb_spec k w) as [Hk|Hk]; [|rewrite andb_false_r; reflexivity].
      rewrite andb_true_r. cbn [andb].
      replace (k + s <? 8 * bn) with true by (symmetry; apply N.ltb_lt; lia).
      rewrite andb_true_r. f_equal. lia.
    + assert (w = 64) by lia. subst w. assert (s = 0) by lia. assert (bn = 8) by (subst bn; subst s; lia).
      tb. replace (8 * bn) with 64 by lia. replace (k + s) with k by lia.
      rewrite andb_comm. f_equal. f_equal. lia.
Qed.

(* ---------- index lists ---------- *)
Definition uptoN (n : N) : list N := upto (N.to_nat n).

Lemma upto_length n : length (upto n) = n.
Proof. induction n as [|n IH]; cbn [upto]; [reflexivity|]. rewrite app_length, IH. cbn. lia. Qed.

Lemma upto_nth n j : (j < n)%nat -> nth j (upto n) 0 = N.of_nat j.
Proof.
  induction n as [|n IH]; intros Hj; [lia|]. cbn [upto].
  destruct (Nat.eq_dec j n) as [->|Hne].
  - rewrite app_nth2 by (rewrite upto_length; lia). rewrite upto_length, Nat.sub_diag. reflexivity.
  - rewrite app_nth1 by (rewrite upto_length; lia). apply IH. lia.
Qed.

Lemma uptoN_succ n : uptoN (n + 1) = uptoN n ++ [n].
Proof.
  unfold uptoN. replace (N.to_nat (n + 1)) with (S (N.to_nat n)) by lia. cbn [upto].
  rewrite N2Nat.id. reflexivity.
Qed.

Lemma nlen_map_uptoN (f : N -> N) n : nlen (map f (uptoN n)) = n.
Proof. rewrite nlen_length, map_length. unfold uptoN. rewrite upto_length. lia. Qed.

Lemma length_map_uptoN (f : N -> N) n : length (map f (uptoN n)) = N.to_nat n.
Proof. rewrite map_length. unfold uptoN. apply upto_length. Qed.

Lemma nth_map_uptoN (f : N -> N) n j : j < n -> nth (N.to_nat j) (map f (uptoN n)) 0 = f j.
Proof.
  intros Hj. rewrite (nth_indep _ 0 (f 0)) by (rewrite length_map_uptoN; lia).
  rewrite map_nth. unfold uptoN. rewrite upto_nth by lia. rewrite N2Nat.id. reflexivity.
Qed.

(* ---------- what the builder stores ---------- *)
Definition base (c : scfg) (vals : list N) (i : N) : N := vnth vals (i / bsize c * bsize c).
Definition dspec (c : scfg) (vals : list N) (i : N) : N := vnth vals i - base c vals i.
Definition mspec (c : scfg) (vals : list N) (b : N) : N := vnth vals (b * bsize c).
Definition nblocks (c : scfg) (vals : list N) : N := (nlen vals + bsize c - 1) / bsize c.

(* every value is at least its block's first value and the difference fits offset_width;
   every block's first value fits sample_width; every value is a u64 *)
Definition deltas_fit (c : scfg) (vals : list N) : Prop :=
  forall i, i < nlen vals -> base c vals i <= vnth vals i /\ vnth vals i - base c vals i < 2 ^ ow c.
Definition samples_fit (c : scfg) (vals : list N) : Prop :=
  forall i, i < nlen vals -> base c vals i < 2 ^ sw c.
Definition all_u64 (vals : list N) : Prop := forall i, i < nlen vals -> vnth vals i < W64.

Lemma bsize_pos c : 0 < bsize c.
Proof. unfold bsize. apply pow2_pos. Qed.

Lemma block_of c k i : i < bsize c -> (k * bsize c + i) / bsize c = k.
Proof.
  intros Hi. symmetry. apply (N.div_unique _ _ k i); [exact Hi|lia].
Qed.

Lemma cfg_valid_spec c : cfg_valid c = true ->
  4 <= log2bu c <= 8 /\ 8 <= ow c <= 32 /\ 16 <= sw c <= 64 /\ (sw c <= 57 \/ sw c = 64).
Proof.
  unfold cfg_valid. intros H. repeat rewrite andb_true_iff in H.
  destruct H as ((((((H1 & H2) & H3) & H4) & H5) & H6) & H7).
  apply N.leb_le in H1, H2, H3, H4, H5, H6. apply negb_true_iff in H7. apply andb_false_iff in H7.
  repeat split; try assumption.
  destruct H7 as [H7|H7]; [apply N.ltb_ge in H7; left; exact H7|apply N.ltb_ge in H7; right; lia].
Qed.

Lemma store_deltas_ok c vals : 8 <= ow c <= 32 -> deltas_fit c vals ->
  forall cnt d k i,
  packed d (ow c) (map (dspec c vals) (uptoN (k * bsize c + i))) ->
  i + N.of_nat cnt <= bsize c -> k * bsize c + i + N.of_nat cnt <= nlen vals ->
  exists d', store_deltas c vals d k (k * bsize c) (vnth vals (k * bsize c)) i cnt = ROk d' /\
             packed d' (ow c) (map (dspec c vals) (uptoN (k * bsize c + i + N.of_nat cnt))).
Proof.
  intros How Hfit. induction cnt as [|cnt IH]; intros d k i Hp Hi Hn.
  - exists d. cbn [store_deltas]. split; [reflexivity|]. replace (k * bsize c + i + N.of_nat 0) with (k * bsize c + i) by lia. exact Hp.
  - cbn [store_deltas].
    assert (HiB : i < bsize c) by lia.
    assert (Hm : k * bsize c + i < nlen vals) by lia.
    destruct (Hfit _ Hm) as [Hge Hlt]. unfold base in Hge, Hlt. rewrite (block_of c k i HiB) in Hge, Hlt.
    replace (vnth vals (k * bsize c + i) <? vnth vals (k * bsize c)) with false by (symmetry; apply N.ltb_ge; exact Hge).
    replace (2 ^ ow c <=? vnth vals (k * bsize c + i) - vnth vals (k * bsize c)) with false by (symmetry; apply N.leb_gt; exact Hlt).
    set (delta := vnth vals (k * bsize c + i) - vnth vals (k * bsize c)) in *.
    assert (Hd32 : N.land delta (N.ones 32) = delta).
    { rewrite N.land_ones. apply N.mod_small. eapply N.lt_le_trans; [exact Hlt|]. apply N.pow_le_mono_r; lia. }
    rewrite Hd32.
    replace (k * bsize c * ow c + i * ow c) with (ow c * nlen (map (dspec c vals) (uptoN (k * bsize c + i))))
      by (rewrite nlen_map_uptoN; lia).
    destruct (store_bits_append d (ow c) _ delta Hp Hlt) as (d1 & Hs & Hp1); [lia| |].
    { remember (ow c * nlen (map (dspec c vals) (uptoN (k * bsize c + i)))) as X. lia. }
    rewrite Hs. cbn [rbind].
    assert (Hp1' : packed d1 (ow c) (map (dspec c vals) (uptoN (k * bsize c + (i + 1))))).
    { replace (k * bsize c + (i + 1)) with (k * bsize c + i + 1) by lia. rewrite uptoN_succ, map_app. cbn [map].
      replace (dspec c vals (k * bsize c + i)) with delta; [exact Hp1|].
      unfold dspec, base, delta. rewrite (block_of c k i HiB). reflexivity. }
    destruct (IH d1 k (i + 1) Hp1') as (d' & Hs' & Hp'); [lia|lia|].
    exists d'. split; [exact Hs'|].
    replace (k * bsize c + i + N.of_nat (S cnt)) with (k * bsize c + (i + 1) + N.of_nat cnt) by lia. exact Hp'.
Qed.

Lemma sample_window s k : s <= 57 \/ s = 64 -> (s * k) mod 8 + s <= 64.
Proof. intros [H| ->]; lia. Qed.

Lemma nblocks_lt c vals k : k < nblocks c vals -> k * bsize c < nlen vals.
Proof.
  unfold nblocks. pose proof (bsize_pos c) as HB. set (B := bsize c) in *. set (n := nlen vals).
  intros Hk. pose proof (N.div_mod (n + B - 1) B ltac:(lia)) as Hdm.
  pose proof (N.mod_lt (n + B - 1) B ltac:(lia)) as Hr.
  set (q := (n + B - 1) / B) in *. nia.
Qed.

Lemma nblocks_ge c vals : nlen vals <= nblocks c vals * bsize c.
Proof.
  unfold nblocks. pose proof (bsize_pos c) as HB. set (B := bsize c) in *. set (n := nlen vals).
  pose proof (N.div_mod (n + B - 1) B ltac:(lia)) as Hdm.
  pose proof (N.mod_lt (n + B - 1) B ltac:(lia)) as Hr.
  set (q := (n + B - 1) / B) in *. nia.
Qed.

Lemma base_block_start c vals k : base c vals (k * bsize c) = vnth vals (k * bsize c).
Proof. unfold base. rewrite N.div_mul by (pose proof (bsize_pos c); lia). reflexivity. Qed.

Lemma compress_blocks_ok c vals :
  cfg_valid c = true -> deltas_fit c vals -> samples_fit c vals ->
  forall nb k idx dat, k + N.of_nat nb = nblocks c vals ->
    packed idx (sw c) (map (mspec c vals) (uptoN k)) ->
    packed dat (ow c) (map (dspec c vals) (uptoN (N.min (k * bsize c) (nlen vals)))) ->
    exists idx' dat', compress_blocks nb c vals idx dat k = ROk (idx', dat') /\
      packed idx' (sw c) (map (mspec c vals) (uptoN (nblocks c vals))) /\
      packed dat' (ow c) (map (dspec c vals) (uptoN (nlen vals))).
Proof.
  intros Hcfg Hfit Hsamp. destruct (cfg_valid_spec c Hcfg) as (Hl & How & Hsw & Hsw').
  pose proof (bsize_pos c) as HB.
  induction nb as [|nb IH]; intros k idx dat Hk Hpi Hpd.
  - exists idx, dat. cbn [compress_blocks]. split; [reflexivity|].
    replace k with (nblocks c vals) in * by lia. split; [exact Hpi|].
    pose proof (nblocks_ge c vals). replace (N.min (nblocks c vals * bsize c) (nlen vals)) with (nlen vals) in Hpd by lia.
    exact Hpd.
  - cbn [compress_blocks].
    assert (Hklt : k < nblocks c vals) by lia. pose proof (nblocks_lt c vals k Hklt) as Hstart.
    replace (nlen vals <=? k * bsize c) with false by (symmetry; apply N.leb_gt; exact Hstart).
    set (bmin := vnth vals (k * bsize c)).
    assert (Hbmin : bmin < 2 ^ sw c).
    { pose proof (Hsamp _ Hstart) as H. rewrite base_block_start in H. exact H. }
    replace (N.shiftr bmin (sw c) =? 0) with true
      by (symmetry; apply N.eqb_eq; rewrite N.shiftr_div_pow2; apply N.div_small; exact Hbmin).
    cbn [negb]. rewrite andb_false_r.
    replace (k * sw c) with (sw c * nlen (map (mspec c vals) (uptoN k))) by (rewrite nlen_map_uptoN; lia).
    destruct (store_bits_append idx (sw c) _ bmin Hpi Hbmin) as (idx1 & Hs1 & Hp1); [lia| |].
    { rewrite nlen_map_uptoN. apply sample_window. exact Hsw'. }
    rewrite Hs1. cbn [rbind].
    assert (Hp1' : packed idx1 (sw c) (map (mspec c vals) (uptoN (k + 1)))).
    { rewrite uptoN_succ, map_app. cbn [map]. exact Hp1. }
    replace (N.min (k * bsize c) (nlen vals)) with (k * bsize c + 0) in Hpd by lia.
    set (cnt := N.to_nat (N.min (k * bsize c + bsize c) (nlen vals) - k * bsize c)).
    destruct (store_deltas_ok c vals How Hfit cnt dat k 0 Hpd) as (dat1 & Hs2 & Hp2); [unfold cnt; lia|unfold cnt; lia|].
    fold bmin in Hs2. rewrite Hs2. cbn [rbind].
    assert (Hp2' : packed dat1 (ow c) (map (dspec c vals) (uptoN (N.min ((k + 1) * bsize c) (nlen vals))))).
    { replace (N.min ((k + 1) * bsize c) (nlen vals)) with (k * bsize c + 0 + N.of_nat cnt) by (unfold cnt; lia). exact Hp2. }
    destruct (IH (k + 1) idx1 dat1) as (idx' & dat' & Hc & Hpi' & Hpd'); [lia|exact Hp1'|exact Hp2'|].
    exists idx', dat'. split; [exact Hc|]. split; assumption.
Qed.

(* the well-formed result of a successful build *)
Definition built (c : scfg) (vals : list N) (v : svec) : Prop :=
  scfg_of v = c /\ ssize v = nlen vals /\
  packed (sindex v) (sw c) (map (mspec c vals) (uptoN (nblocks c vals))) /\
  packed (sdata v) (ow c) (map (dspec c vals) (uptoN (nlen vals))).

Theorem sbuild_ok c vals :
  cfg_valid c = true -> push_all_sorted None vals = true -> deltas_fit c vals -> samples_fit c vals ->
  exists v, sbuild c vals = ROk v /\ built c vals v.
Proof.
  intros Hcfg Hsorted Hfit Hsamp. unfold sbuild. rewrite Hsorted, Hcfg. cbn [negb].
  pose proof (bsize_pos c) as HB.
  destruct vals as [|v0 rest] eqn:Hv.
  - eexists. split; [reflexivity|]. unfold built; cbn [scfg_of ssize sindex sdata nlen].
    assert (Hnb : nblocks c [] = 0).
    { unfold nblocks; cbn [nlen]. apply N.div_small. lia. }
    rewrite Hnb. repeat split; apply packed_empty.
  - rewrite <- Hv in *.
    destruct (compress_blocks_ok c vals Hcfg Hfit Hsamp (N.to_nat (nblocks c vals)) 0 bempty bempty)
      as (idx' & dat' & Hc & Hpi & Hpd).
    + lia.
    + apply packed_empty.
    + replace (N.min (0 * bsize c) (nlen vals)) with 0 by lia. apply packed_empty.
    + fold (nblocks c vals). rewrite Hc. cbn [rbind fst snd]. eexists. split; [reflexivity|].
      unfold built; cbn [scfg_of ssize sindex sdata]. split; [reflexivity|split; [reflexivity|split; assumption]].
Qed.

(* ---------- reading ---------- *)
Lemma num_blocks_built c vals v : built c vals v -> num_blocks v = nblocks c vals.
Proof.
  intros (Hc & Hs & _). unfold num_blocks, nblocks. rewrite Hc, Hs. pose proof (bsize_pos c). f_equal. lia.
Qed.

Lemma block_lt_nblocks c vals i : i < nlen vals -> i / bsize c < nblocks c vals.
Proof.
  intros Hi. pose proof (nblocks_ge c vals) as Hge. pose proof (bsize_pos c) as HB.
  pose proof (N.div_mod i (bsize c) ltac:(lia)) as Hdm. pose proof (N.mod_lt i (bsize c) ltac:(lia)) as Hr.
  set (B := bsize c) in *. set (q := i / B) in *. set (NB := nblocks c vals) in *. nia.
Qed.

Lemma block_min_ok c vals v k : cfg_valid c = true -> built c vals v -> k < nblocks c vals ->
  get_block_min_val v k = ROk (mspec c vals k).
Proof.
  intros Hcfg Hb Hk. destruct (cfg_valid_spec c Hcfg) as (Hl & How & Hsw & Hsw').
  pose proof (num_blocks_built c vals v Hb) as Hnb. destruct Hb as (Hc & Hs & Hpi & Hpd).
  unfold get_block_min_val. rewrite Hnb, Hc.
  replace (nblocks c vals <=? k) with false by (symmetry; apply N.leb_gt; exact Hk).
  assert (Hj : (N.to_nat k < length (map (mspec c vals) (uptoN (nblocks c vals))))%nat) by (rewrite length_map_uptoN; lia).
  pose proof (packed_bound _ _ _ _ Hpi Hj) as Hbound.
  replace (k * sw c) with (sw c * N.of_nat (N.to_nat k)) by lia.
  replace (blen (sindex v) <? sw c * N.of_nat (N.to_nat k) / 8 + N.min 8 (((sw c * N.of_nat (N.to_nat k)) mod 8 + sw c + 7) / 8))
    with false by (symmetry; apply N.ltb_ge; exact Hbound).
  rewrite (extract_bits_field c _ _ _ _ Hpi Hj); [|lia|lia|apply sample_window; exact Hsw'].
  rewrite nth_map_uptoN by exact Hk. reflexivity.
Qed.

Lemma block_delta_ok c vals v k o : cfg_valid c = true -> built c vals v -> deltas_fit c vals ->
  o < bsize c -> k * bsize c + o < nlen vals ->
  get_block_delta v k o = ROk (dspec c vals (k * bsize c + o)).
Proof.
  intros Hcfg Hb Hfit Ho Hi. destruct (cfg_valid_spec c Hcfg) as (Hl & How & Hsw & Hsw').
  destruct Hb as (Hc & Hs & Hpi & Hpd). unfold get_block_delta. rewrite Hc.
  set (i := k * bsize c + o) in *.
  assert (Hj : (N.to_nat i < length (map (dspec c vals) (uptoN (nlen vals))))%nat) by (rewrite length_map_uptoN; lia).
  replace (k * bsize c * ow c + o * ow c) with (ow c * N.of_nat (N.to_nat i)) by (unfold i; lia).
  rewrite (extract_bits_field c _ _ _ _ Hpd Hj); [|lia|lia|].
  - cbn [rbind]. rewrite nth_map_uptoN by exact Hi. f_equal.
    rewrite N.land_ones. apply N.mod_small. destruct (Hfit _ Hi) as [_ Hlt]. unfold dspec.
    eapply N.lt_le_trans; [exact Hlt|]. apply N.pow_le_mono_r; lia.
  - remember (ow c * N.of_nat (N.to_nat i)) as X. lia.
Qed.

Lemma mspec_dspec c vals k o : deltas_fit c vals -> o < bsize c -> k * bsize c + o < nlen vals ->
  mspec c vals k + dspec c vals (k * bsize c + o) = vnth vals (k * bsize c + o).
Proof.
  intros Hfit Ho Hi. destruct (Hfit _ Hi) as [Hge _]. unfold mspec, dspec, base in *.
  rewrite (block_of c k o Ho) in *. lia.
Qed.

Theorem sget_ok c vals v i :
  cfg_valid c = true -> built c vals v -> deltas_fit c vals -> all_u64 vals -> i < nlen vals ->
  sget v i = ROk (vnth vals i).
Proof.
  intros Hcfg Hb Hfit Hu Hi. pose proof Hb as (Hc & Hs & _). pose proof (bsize_pos c) as HB.
  unfold sget. rewrite Hs. replace (nlen vals <=? i) with false by (symmetry; apply N.leb_gt; exact Hi).
  unfold get_unchecked. rewrite Hc.
  pose proof (N.div_mod i (bsize c) ltac:(lia)) as Hdm. pose proof (N.mod_lt i (bsize c) ltac:(lia)) as Hr.
  rewrite (block_min_ok c vals v _ Hcfg Hb (block_lt_nblocks c vals i Hi)). cbn [rbind].
  assert (Hidx : i / bsize c * bsize c + i mod bsize c = i) by lia.
  rewrite (block_delta_ok c vals v (i / bsize c) (i mod bsize c) Hcfg Hb Hfit Hr) by (rewrite Hidx; exact Hi).
  cbn [rbind]. rewrite (mspec_dspec c vals _ _ Hfit Hr) by (rewrite Hidx; exact Hi). rewrite Hidx.
  replace (W64 <=? vnth vals i) with false by (symmetry; apply N.leb_gt; apply Hu; exact Hi).
  reflexivity.
Qed.

Theorem sget_refuses c vals v i : built c vals v -> nlen vals <= i -> sget v i = RErr.
Proof.
  intros (_ & Hs & _) Hi. unfold sget. rewrite Hs.
  replace (nlen vals <=? i) with true by (symmetry; apply N.leb_le; exact Hi). reflexivity.
Qed.

(* get2 is two gets; it refuses as soon as the second index is past the end *)
Theorem sget2_ok c vals v i :
  cfg_valid c = true -> built c vals v -> deltas_fit c vals -> all_u64 vals -> i + 1 < nlen vals ->
  sget2 v i = ROk (vnth vals i, vnth vals (i + 1)).
Proof.
  intros Hcfg Hb Hfit Hu Hi. pose proof Hb as (Hc & Hs & _).
  pose proof (sget_ok c vals v i Hcfg Hb Hfit Hu ltac:(lia)) as H1.
  pose proof (sget_ok c vals v (i + 1) Hcfg Hb Hfit Hu Hi) as H2.
  unfold sget in H1, H2. rewrite Hs in H1, H2.
  replace (nlen vals <=? i) with false in H1 by (symmetry; apply N.leb_gt; lia).
  replace (nlen vals <=? i + 1) with false in H2 by (symmetry; apply N.leb_gt; lia).
  unfold sget2. rewrite Hs.
  replace (nlen vals <=? i) with false by (symmetry; apply N.leb_gt; lia).
  replace (nlen vals <=? i + 1) with false by (symmetry; apply N.leb_gt; lia).
  cbn [orb]. rewrite H1. cbn [rbind]. rewrite H2. reflexivity.
Qed.

Theorem sget2_refuses c vals v i : built c vals v -> nlen vals <= i + 1 -> sget2 v i = RErr.
Proof.
  intros (_ & Hs & _) Hi. unfold sget2. rewrite Hs.
  replace (nlen vals <=? i + 1) with true by (symmetry; apply N.leb_le; exact Hi).
  rewrite orb_true_r. reflexivity.
Qed.

(* get_block: the stored values of the block, then zeros up to the block size *)
Fixpoint rangeN (i : N) (cnt : nat) : list N :=
  match cnt with O => [] | S k => i :: rangeN (i + 1) k end.

Lemma block_elems_ok c vals v k wrap : cfg_valid c = true -> built c vals v -> deltas_fit c vals -> all_u64 vals ->
  forall cnt i, i + N.of_nat cnt <= bsize c -> k * bsize c + i + N.of_nat cnt <= nlen vals ->
  block_elems v k (mspec c vals k) wrap i cnt = ROk (map (fun t => vnth vals (k * bsize c + t)) (rangeN i cnt)).
Proof.
  intros Hcfg Hb Hfit Hu. induction cnt as [|cnt IH]; intros i Hi Hn; [reflexivity|].
  cbn [block_elems rangeN map].
  assert (Ho : i < bsize c) by lia. assert (Hlt : k * bsize c + i < nlen vals) by lia.
  rewrite (block_delta_ok c vals v k i Hcfg Hb Hfit Ho Hlt). cbn [rbind].
  rewrite (mspec_dspec c vals k i Hfit Ho Hlt).
  pose proof (Hu _ Hlt) as H64.
  replace (W64 <=? vnth vals (k * bsize c + i)) with false by (symmetry; apply N.leb_gt; exact H64).
  cbn [andb]. rewrite IH by lia. cbn [rbind]. rewrite N.mod_small by exact H64. reflexivity.
Qed.

Theorem sget_block_ok c vals v k :
  cfg_valid c = true -> built c vals v -> deltas_fit c vals -> all_u64 vals -> k < nblocks c vals ->
  let actual := N.min (k * bsize c + bsize c) (nlen vals) - k * bsize c in
  sget_block v k = ROk (map (fun t => vnth vals (k * bsize c + t)) (rangeN 0 (N.to_nat actual))
                        ++ repeat 0 (N.to_nat (bsize c - actual))).
Proof.
  intros Hcfg Hb Hfit Hu Hk actual. pose proof (num_blocks_built c vals v Hb) as Hnb.
  pose proof Hb as (Hc & Hs & _). pose proof (nblocks_lt c vals k Hk) as Hstart.
  unfold sget_block. rewrite Hnb, Hc, Hs.
  replace (nblocks c vals <=? k) with false by (symmetry; apply N.leb_gt; exact Hk).
  rewrite (block_min_ok c vals v k Hcfg Hb Hk). cbn [rbind]. fold actual.
  rewrite (block_elems_ok c vals v k _ Hcfg Hb Hfit Hu) by (unfold actual; lia).
  reflexivity.
Qed.

Theorem sget_block_refuses c vals v k : built c vals v -> nblocks c vals <= k -> sget_block v k = RErr.
Proof.
  intros Hb Hk. unfold sget_block. rewrite (num_blocks_built c vals v Hb).
  replace (nblocks c vals <=? k) with true by (symmetry; apply N.leb_le; exact Hk). reflexivity.
Qed.

(* ---------- the builder succeeds only if everything fits ---------- *)
Lemma store_deltas_inv c vals : forall cnt d k bs bmin i d',
  store_deltas c vals d k bs bmin i cnt = ROk d' ->
  forall t, t < N.of_nat cnt -> bmin <= vnth vals (bs + (i + t)) /\ vnth vals (bs + (i + t)) - bmin < 2 ^ ow c.
Proof.
  induction cnt as [|cnt IH]; intros d k bs bmin i d' H t Ht; [lia|].
  cbn [store_deltas] in H.
  destruct (N.ltb_spec (vnth vals (bs + i)) bmin) as [H1|H1]; [discriminate|].
  destruct (N.leb_spec (2 ^ ow c) (vnth vals (bs + i) - bmin)) as [H2|H2]; [discriminate|].
  destruct (store_bits d _ _ _) as [d1| |] eqn:Hs; cbn [rbind] in H; try discriminate.
  destruct (N.eq_dec t 0) as [->|Hne].
  - replace (i + 0) with i by lia. split; assumption.
  - replace (i + t) with (i + 1 + (t - 1)) by lia. apply (IH d1 k bs bmin (i + 1) d' H). lia.
Qed.

Lemma compress_blocks_inv c vals : forall nb k idx dat r,
  compress_blocks nb c vals idx dat k = ROk r ->
  forall b, k <= b < k + N.of_nat nb -> b * bsize c < nlen vals ->
    (sw c < 64 -> vnth vals (b * bsize c) < 2 ^ sw c) /\
    forall t, b * bsize c + t < N.min (b * bsize c + bsize c) (nlen vals) ->
      vnth vals (b * bsize c) <= vnth vals (b * bsize c + t) /\
      vnth vals (b * bsize c + t) - vnth vals (b * bsize c) < 2 ^ ow c.
Proof.
  induction nb as [|nb IH]; intros k idx dat r H b Hb Hstart; [lia|].
  cbn [compress_blocks] in H.
  destruct (N.leb_spec (nlen vals) (k * bsize c)) as [Hc|Hc].
  - (* `continue`: k*B >= n, so b > k *)
    assert (b <> k) by (intros ->; lia). apply (IH (k + 1) idx dat r H); [lia|exact Hstart].
  - destruct ((sw c <? 64) && negb (N.shiftr (vnth vals (k * bsize c)) (sw c) =? 0)) eqn:Hchk; [discriminate|].
    destruct (store_bits idx _ _ _) as [idx1| |] eqn:Hs1; cbn [rbind] in H; try discriminate.
    destruct (store_deltas c vals dat k (k * bsize c) (vnth vals (k * bsize c)) 0 _) as [dat1| |] eqn:Hs2;
      cbn [rbind] in H; try discriminate.
    destruct (N.eq_dec b k) as [->|Hne].
    + split.
      * intros Hsw. apply andb_false_iff in Hchk. destruct Hchk as [Hchk|Hchk].
        -- apply N.ltb_ge in Hchk. lia.
        -- apply negb_false_iff, N.eqb_eq in Hchk. rewrite N.shiftr_div_pow2 in Hchk.
           pose proof (pow2_pos (sw c)) as Hp.
           destruct (N.lt_ge_cases (vnth vals (k * bsize c)) (2 ^ sw c)) as [Hlt|Hge]; [exact Hlt|].
           exfalso. assert (1 <= vnth vals (k * bsize c) / 2 ^ sw c).
           { apply N.div_le_lower_bound; lia. } lia.
      * intros t Ht. pose proof (store_deltas_inv c vals _ _ _ _ _ _ _ Hs2 t) as Hinv.
        replace (k * bsize c + (0 + t)) with (k * bsize c + t) in Hinv by lia. apply Hinv. lia.
    + apply (IH (k + 1) idx1 dat1 r H); [lia|exact Hstart].
Qed.

Theorem sbuild_only_if c vals v : sbuild c vals = ROk v ->
  cfg_valid c = true /\ push_all_sorted None vals = true /\ deltas_fit c vals /\ (sw c < 64 -> samples_fit c vals).
Proof.
  unfold sbuild. intros H.
  destruct (push_all_sorted None vals) eqn:Hsorted; cbn [negb] in H; [|discriminate].
  destruct (cfg_valid c) eqn:Hcfg; cbn [negb] in H; [|discriminate].
  split; [reflexivity|]. split; [reflexivity|].
  pose proof (bsize_pos c) as HB.
  destruct vals as [|v0 rest] eqn:Hv.
  - split; [intros i Hi|intros _ i Hi]; cbn [nlen] in Hi; lia.
  - rewrite <- Hv in *.
    destruct (compress_blocks _ c vals bempty bempty 0) as [r| |] eqn:Hc; cbn [rbind] in H; try discriminate.
    assert (G : forall i, i < nlen vals ->
              (sw c < 64 -> base c vals i < 2 ^ sw c) /\ base c vals i <= vnth vals i /\ vnth vals i - base c vals i < 2 ^ ow c).
    { intros i Hi. pose proof (N.div_mod i (bsize c) ltac:(lia)) as Hdm. pose proof (N.mod_lt i (bsize c) ltac:(lia)) as Hr.
      pose proof (block_lt_nblocks c vals i Hi) as Hblk. unfold nblocks in Hblk.
      assert (Hstart : i / bsize c * bsize c < nlen vals) by (set (q := i / bsize c) in *; set (B := bsize c) in *; nia).
      destruct (compress_blocks_inv c vals _ _ _ _ _ Hc (i / bsize c)) as [Hs Hd]; [rewrite N2Nat.id; split; [apply N.le_0_l|exact Hblk]|exact Hstart|].
      unfold base. split; [exact Hs|].
      specialize (Hd (i mod bsize c)).
      replace (i / bsize c * bsize c + i mod bsize c) with i in Hd by lia. apply Hd. lia. }
    split; [intros i Hi; apply (G i Hi)|intros Hsw i Hi; apply (G i Hi); exact Hsw].
Qed.

(* ---------- the statements exported to Properties.v ---------- *)
Theorem sorted_get_build_proof c vals :
  cfg_valid c = true -> push_all_sorted None vals = true ->
  deltas_fit c vals -> samples_fit c vals -> all_u64 vals ->
  exists v, sbuild c vals = ROk v /\ ssize v = nlen vals /\
    (forall i, i < nlen vals -> sget v i = ROk (vnth vals i)) /\
    (forall i, nlen vals <= i -> sget v i = RErr).
Proof.
  intros Hcfg Hs Hfit Hsamp Hu. destruct (sbuild_ok c vals Hcfg Hs Hfit Hsamp) as (v & Hb & Hbuilt).
  exists v. split; [exact Hb|]. split; [apply Hbuilt|]. split.
  - intros i Hi. apply (sget_ok c vals v i Hcfg Hbuilt Hfit Hu Hi).
  - intros i Hi. apply (sget_refuses c vals v i Hbuilt Hi).
Qed.

Theorem sorted_get2_proof c vals v :
  cfg_valid c = true -> deltas_fit c vals -> all_u64 vals -> sbuild c vals = ROk v ->
  forall i, sget2 v i = if i + 1 <? nlen vals then ROk (vnth vals i, vnth vals (i + 1)) else RErr.
Proof.
  intros Hcfg Hfit Hu Hb i.
  destruct (sbuild_only_if c vals v Hb) as (_ & Hs & _ & Hsamp64).
  assert (Hsamp : samples_fit c vals).
  { destruct (cfg_valid_spec c Hcfg) as (_ & _ & Hsw & _).
    destruct (N.lt_ge_cases (sw c) 64) as [H|H]; [apply Hsamp64; exact H|].
    assert (Hsw64 : sw c = 64) by lia. intros j Hj. rewrite Hsw64.
    destruct (Hfit _ Hj) as [Hle _]. pose proof (Hu _ Hj) as H64. unfold W64 in H64. change (2 ^ 64) with 18446744073709551616. lia. }
  destruct (sbuild_ok c vals Hcfg Hs Hfit Hsamp) as (v' & Hb' & Hbuilt).
  rewrite Hb in Hb'. injection Hb' as <-.
  destruct (N.ltb_spec (i + 1) (nlen vals)) as [Hi|Hi].
  - apply (sget2_ok c vals v i Hcfg Hbuilt Hfit Hu Hi).
  - apply (sget2_refuses c vals v i Hbuilt Hi).
Qed.

Theorem sorted_get_block_proof c vals v :
  cfg_valid c = true -> deltas_fit c vals -> all_u64 vals -> sbuild c vals = ROk v ->
  forall k, sget_block v k =
    if k <? nblocks c vals then
      let actual := N.min (k * bsize c + bsize c) (nlen vals) - k * bsize c in
      ROk (map (fun t => vnth vals (k * bsize c + t)) (rangeN 0 (N.to_nat actual)) ++ repeat 0 (N.to_nat (bsize c - actual)))
    else RErr.
Proof.
  intros Hcfg Hfit Hu Hb k.
  destruct (sbuild_only_if c vals v Hb) as (_ & Hs & _ & Hsamp64).
  assert (Hsamp : samples_fit c vals).
  { destruct (cfg_valid_spec c Hcfg) as (_ & _ & Hsw & _).
    destruct (N.lt_ge_cases (sw c) 64) as [H|H]; [apply Hsamp64; exact H|].
    assert (Hsw64 : sw c = 64) by lia. intros j Hj. rewrite Hsw64.
    destruct (Hfit _ Hj) as [Hle _]. pose proof (Hu _ Hj) as H64. unfold W64 in H64. change (2 ^ 64) with 18446744073709551616. lia. }
  destruct (sbuild_ok c vals Hcfg Hs Hfit Hsamp) as (v' & Hb' & Hbuilt).
  rewrite Hb in Hb'. injection Hb' as <-.
  destruct (N.ltb_spec k (nblocks c vals)) as [Hk|Hk].
  - apply (sget_block_ok c vals v k Hcfg Hbuilt Hfit Hu Hk).
  - apply (sget_block_refuses c vals v k Hbuilt Hk).
Qed.

(* the hypotheses are satisfiable by a non-trivial value: default configuration, two blocks *)
Definition ex_cfg : scfg := {| log2bu := 6; ow := 16; sw := 32; simd := true |}.
Definition ex_vals : list N := map (fun i => 1000 + 3 * i) (uptoN 70) ++ [60000].
Example sorted_example :
  cfg_valid ex_cfg = true /\ push_all_sorted None ex_vals = true /\
  (exists v, sbuild ex_cfg ex_vals = ROk v /\ sget v 70 = ROk 60000 /\ sget2 v 63 = ROk (1189, 1192) /\ sget v 71 = RErr).
Proof.
  split; [reflexivity|]. split; [vm_compute; reflexivity|].
  eexists. split; [vm_compute; reflexivity|]. repeat split; vm_compute; reflexivity.
Qed.
