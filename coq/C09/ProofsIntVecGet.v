(* C09: IntVec - whatever strategy is used, every element reads back (u64 images). *)
From ZV.Common Require Import Base.
From Coq Require Import Btauto.
From ZV.C09 Require Import Model ProofsBits ProofsVec ModelSorted ModelIntVec ProofsIntVecBits ProofsIntVecPack.
Open Scope N_scope.

Lemma ones64_eq : ones64 = N.ones 64.
Proof. apply N.bits_inj. intros k. rewrite tb_ones64, tb_ones. reflexivity. Qed.

Lemma lt_W64 v : v < W64 -> v < 2 ^ 64.
Proof. rewrite W64_eq. auto. Qed.

Lemma nlen_map {A B} (f : A -> B) l : nlen (map f l) = nlen l.
Proof. rewrite !nlen_length, map_length. reflexivity. Qed.

Lemma nth_map0 (f : N -> N) l i : (i < length l)%nat -> nth i (map f l) 0 = f (nth i l 0).
Proof. intros Hi. rewrite (nth_indep _ 0 (f 0)) by (rewrite map_length; exact Hi). apply map_nth. Qed.

Lemma add64_ok a b : a + b < W64 -> add64 a b = IOk (a + b).
Proof. intros H. unfold add64. replace (W64 <=? a + b) with false by (symmetry; apply N.leb_gt; exact H). reflexivity. Qed.

Lemma get64_past v i : ilen v <= i -> iv_get64 v i = IOk None.
Proof. intros H. unfold iv_get64. replace (ilen v <=? i) with true by (symmetry; apply N.leb_le; exact H). reflexivity. Qed.

Lemma Forall_nth_N (P : N -> Prop) l i : Forall P l -> (i < length l)%nat -> P (nth i l 0).
Proof. intros H Hi. rewrite Forall_forall in H. apply H. apply nth_In. exact Hi. Qed.

(* ---------- raw ---------- *)
Lemma raw_bytes_pack vals : raw_bytes vals = pack 64 vals.
Proof. induction vals as [|v t IH]; [reflexivity|]. cbn [raw_bytes pack]. rewrite IH, ones64_eq. reflexivity. Qed.

Lemma raw_get vals idx i : Forall (fun v => v < W64) vals -> (i < length vals)%nat ->
  get_raw {| istrat := SRaw; idata := compress_raw vals; iindex := idx; ilen := nlen vals |} (N.of_nat i)
  = IOk (Some (nth i vals 0)).
Proof.
  intros Hall Hi. unfold get_raw, compress_raw; cbn [idata blen bmem].
  replace (N.of_nat i * 8 + 8 <=? 8 * nlen vals) with true by (symmetry; apply N.leb_le; rewrite nlen_length; lia).
  f_equal. f_equal. unfold window; cbn [bmem]. rewrite raw_bytes_pack.
  replace (8 * (N.of_nat i * 8)) with (64 * N.of_nat i) by lia. replace (8 * 8) with 64 by lia.
  apply (pack_nth vals 64 i); [|exact Hi].
  eapply Forall_impl; [|exact Hall]. intros a Ha. apply lt_W64. exact Ha.
Qed.

(* ---------- min-max ---------- *)
Lemma mm_result (simd : bool) vals mn bw : 1 <= bw <= 64 -> Forall (fun v => mn <= v) vals ->
  exists d, (if simd then compress_min_max_bulk_simd vals mn bw else compress_min_max vals mn bw) = IOk d /\
    bmem d = pack bw (map (fun v => v - mn) vals) /\ blen d = align16 ((nlen vals * bw + 7) / 8).
Proof.
  intros Hbw Hge. set (A := align16 ((nlen vals * bw + 7) / 8)).
  assert (HA : bw * nlen vals <= 8 * A) by (unfold A, align16; lia).
  assert (Hguard : (bw =? 0) || (64 <? bw) = false).
  { replace (bw =? 0) with false by (symmetry; apply N.eqb_neq; lia).
    replace (64 <? bw) with false by (symmetry; apply N.ltb_ge; lia). reflexivity. }
  assert (Hseq : forall wr, wr_ok wr ->
            mm_loop wr (zeros A) vals mn bw 0 = IOk (orv (zeros A) (pack bw (map (fun v => v - mn) vals)) 0)).
  { intros wr Hwr. rewrite mm_loop_seq by exact Hge. apply seq_loop_spec; [exact Hwr|exact Hbw|].
    rewrite nlen_map. cbn [zeros blen]. lia. }
  destruct (orv_zeros A (pack bw (map (fun v => v - mn) vals))) as [Hm Hl].
  destruct simd.
  - unfold compress_min_max_bulk_simd. rewrite Hguard. fold A.
    destruct (N.eqb_spec (bw mod 8) 0) as [Hmod|Hmod].
    + rewrite mm_loop_bytes_seq by exact Hge.
      rewrite bytes_loop_spec.
      * replace (8 * (bw / 8)) with bw by lia. replace (8 * 0) with 0 by lia.
        eexists. split; [reflexivity|]. split; assumption.
      * apply zeros_high_zero.
      * rewrite nlen_map. cbn [zeros blen]. unfold A, align16.
        assert (Hq : bw = 8 * (bw / 8)) by lia. set (q := bw / 8) in *.
        replace (nlen vals * bw) with (8 * (q * nlen vals)) by (rewrite Hq; lia). lia.
    + rewrite (Hseq _ wr_ok_bulk). eexists. split; [reflexivity|]. split; assumption.
  - unfold compress_min_max. rewrite Hguard. fold A.
    rewrite (Hseq _ wr_ok_plain). eexists. split; [reflexivity|]. split; assumption.
Qed.

Lemma mm_get v mn bw vals i :
  1 <= bw <= 64 -> Forall (fun x => x < W64) vals -> Forall (fun x => mn <= x /\ x - mn < 2 ^ bw) vals ->
  bmem (idata v) = pack bw (map (fun x => x - mn) vals) -> blen (idata v) = align16 ((nlen vals * bw + 7) / 8) ->
  (i < length vals)%nat ->
  get_min_max v (N.of_nat i) mn bw = IOk (Some (nth i vals 0)).
Proof.
  intros Hbw H64 Hcov Hm Hl Hi. unfold get_min_max.
  rewrite read_bits_spec.
  2: exact Hbw.
  2:{ rewrite Hl. unfold align16. assert (N.of_nat i < nlen vals) by (rewrite nlen_length; lia). nia. }
  rewrite Hm. replace (N.of_nat i * bw) with (bw * N.of_nat i) by lia.
  rewrite pack_nth.
  - rewrite nth_map0 by exact Hi.
    pose proof (Forall_nth_N _ _ i Hcov Hi) as [Hge _]. pose proof (Forall_nth_N _ _ i H64 Hi) as Hlt. cbn beta in *.
    rewrite add64_ok by lia. cbn [ibind]. f_equal. f_equal. lia.
  - apply Forall_forall. intros x Hx. apply in_map_iff in Hx. destruct Hx as (y & <- & Hy).
    rewrite Forall_forall in Hcov. apply Hcov. exact Hy.
  - rewrite map_length. exact Hi.
Qed.

(* ---------- delta ---------- *)
Lemma deltas_length : forall vals prev, length (deltas prev vals) = length vals.
Proof. induction vals as [|v t IH]; intros prev; cbn [deltas length]; [reflexivity|]. rewrite IH. reflexivity. Qed.

Lemma deltas_lt_sorted : forall vals prev b, deltas_lt prev vals b -> sorted_p prev vals.
Proof. induction vals as [|v t IH]; intros prev b H; cbn in *; [exact I|]. destruct H as (H1 & _ & H3). split; [exact H1|]. eapply IH; eauto. Qed.

Lemma deltas_lt_bound : forall vals prev b, deltas_lt prev vals b -> Forall (fun x => x < b) (deltas prev vals).
Proof.
  induction vals as [|v t IH]; intros prev b H; cbn in *; [constructor|].
  destruct H as (_ & H2 & H3). constructor; [exact H2|]. apply IH. exact H3.
Qed.

(* element j+1 = element j + delta j, and the sequence is ascending *)
Lemma deltas_nth : forall vals prev j, sorted_p prev vals -> (j < length vals)%nat ->
  nth j (prev :: vals) 0 <= nth (S j) (prev :: vals) 0 /\
  nth j (deltas prev vals) 0 = nth (S j) (prev :: vals) 0 - nth j (prev :: vals) 0.
Proof.
  induction vals as [|v t IH]; intros prev j Hs Hj; [cbn in Hj; lia|].
  destruct Hs as [Hv Ht]. destruct j as [|j].
  - cbn [nth deltas]. split; [exact Hv|reflexivity].
  - cbn [length] in Hj. assert (Hj' : (j < length t)%nat) by lia.
    destruct (IH v j Ht Hj') as [H1 H2]. cbn [deltas]. split.
    + exact H1.
    + exact H2.
Qed.

Lemma delta_result (simd : bool) vals0 v0 t dw :
  vals0 = v0 :: t -> 1 <= dw <= 64 -> sorted_p v0 t ->
  exists tl, compress_delta simd vals0 v0 dw false None = IOk (with_base v0 tl) /\
    bmem tl = pack dw (deltas v0 t) /\ blen tl = align16 (((nlen vals0 - 1) * dw + 7) / 8).
Proof.
  intros -> Hdw Hs. unfold compress_delta. cbn [is_uniform_mode andb].
  set (A := align16 (((nlen (v0 :: t) - 1) * dw + 7) / 8)).
  assert (Hn : nlen (v0 :: t) - 1 = nlen t) by (cbn [nlen]; lia).
  assert (HA : dw * nlen t <= 8 * A) by (unfold A, align16; rewrite Hn; lia).
  assert (Hseq : forall wr, wr_ok wr ->
            delta_loop wr (zeros A) v0 t dw 0 = IOk (orv (zeros A) (pack dw (deltas v0 t)) 0)).
  { intros wr Hwr. rewrite delta_loop_seq by exact Hs. apply seq_loop_spec; [exact Hwr|exact Hdw|].
    rewrite nlen_length, deltas_length, <- nlen_length. cbn [zeros blen]. lia. }
  destruct (orv_zeros A (pack dw (deltas v0 t))) as [Hm Hl].
  destruct simd.
  - destruct (N.eqb_spec (dw mod 8) 0) as [Hmod|Hmod].
    + rewrite delta_loop_bytes_seq by exact Hs. rewrite bytes_loop_spec.
      * replace (8 * (dw / 8)) with dw by lia. replace (8 * 0) with 0 by lia. cbn [ibind].
        eexists. split; [reflexivity|]. split; assumption.
      * apply zeros_high_zero.
      * rewrite nlen_length, deltas_length, <- nlen_length. cbn [zeros blen]. unfold A, align16. rewrite Hn.
        assert (Hq : dw = 8 * (dw / 8)) by lia. set (q := dw / 8) in *.
        replace (nlen t * dw) with (8 * (q * nlen t)) by (rewrite Hq; lia). lia.
    + rewrite (Hseq _ wr_ok_bulk). cbn [ibind]. eexists. split; [reflexivity|]. split; assumption.
  - rewrite (Hseq _ wr_ok_plain). cbn [ibind]. eexists. split; [reflexivity|]. split; assumption.
Qed.

Lemma tail8_with_base base tl : tail8 (with_base base tl) = IOk tl.
Proof.
  unfold tail8, with_base; cbn [blen bmem].
  replace (8 + blen tl <? 8) with false by (symmetry; apply N.ltb_ge; lia). f_equal.
  apply bvec_eq; cbn [bmem blen]; [|lia].
  apply N.bits_inj. intros k. tb.
  replace (k + 64 <? 64) with false by (symmetry; apply N.ltb_ge; lia).
  replace (64 <=? k + 64) with true by (symmetry; apply N.leb_le; lia).
  rewrite andb_false_r. cbn [orb andb]. f_equal. lia.
Qed.

Lemma delta_sum_spec tl dw v0 t :
  1 <= dw <= 64 -> Forall (fun x => x < W64) (v0 :: t) -> deltas_lt v0 t (2 ^ dw) ->
  bmem tl = pack dw (deltas v0 t) -> dw * nlen t <= 8 * blen tl ->
  forall cnt i, (1 <= i)%nat -> (i - 1 + cnt <= length t)%nat ->
  delta_sum tl dw (nth (i - 1) (v0 :: t) 0) (N.of_nat i) cnt = IOk (Some (nth (i - 1 + cnt) (v0 :: t) 0)).
Proof.
  intros Hdw H64 Hd Hm Hfit. induction cnt as [|cnt IH]; intros i Hi Hle.
  - cbn [delta_sum]. replace (i - 1 + 0)%nat with (i - 1)%nat by lia. reflexivity.
  - cbn [delta_sum].
    assert (Hj : (i - 1 < length t)%nat) by lia.
    rewrite read_bits_spec.
    2: exact Hdw.
    2:{ assert (N.of_nat i - 1 < nlen t) by (rewrite nlen_length; lia). nia. }
    rewrite Hm. replace ((N.of_nat i - 1) * dw) with (dw * N.of_nat (i - 1)) by lia.
    rewrite pack_nth.
    2:{ apply deltas_lt_bound. exact Hd. }
    2:{ rewrite deltas_length. exact Hj. }
    destruct (deltas_nth t v0 (i - 1) (deltas_lt_sorted _ _ _ Hd) Hj) as [Hasc Hdelta].
    rewrite Hdelta.
    assert (Hlt : nth (S (i - 1)) (v0 :: t) 0 < W64).
    { apply (Forall_nth_N _ _ (S (i - 1)) H64). cbn [length]. lia. }
    rewrite add64_ok by lia. cbn [ibind].
    replace (nth (i - 1) (v0 :: t) 0 + (nth (S (i - 1)) (v0 :: t) 0 - nth (i - 1) (v0 :: t) 0))
      with (nth (S i - 1) (v0 :: t) 0) by (replace (S i - 1)%nat with (S (i - 1)) by lia; lia).
    replace (N.of_nat i + 1) with (N.of_nat (S i)) by lia.
    rewrite IH by lia. f_equal. f_equal. f_equal. lia.
Qed.

(* ---------- blocks ---------- *)
Lemma nth_firstn_lt {A} : forall (l : list A) k i d, (i < k)%nat -> nth i (firstn k l) d = nth i l d.
Proof.
  induction l as [|x l IH]; intros k i d Hi.
  - rewrite firstn_nil. reflexivity.
  - destruct k; [lia|]. destruct i; [reflexivity|]. cbn [firstn nth]. apply IH. lia.
Qed.
Lemma nth_skipn_add {A} : forall (l : list A) k i d, nth i (skipn k l) d = nth (k + i) l d.
Proof.
  induction l as [|x l IH]; intros k i d.
  - rewrite skipn_nil. destruct i, k; reflexivity.
  - destruct k; [reflexivity|]. cbn [skipn plus nth]. apply IH.
Qed.

Lemma chunks_length : forall nb bu l, length (chunks nb bu l) = nb.
Proof. induction nb as [|k IH]; intros bu l; cbn [chunks length]; [reflexivity|]. rewrite IH. reflexivity. Qed.

Lemma block_fields_length blk : length (block_fields blk) = length blk.
Proof. unfold block_fields. apply map_length. Qed.

Lemma chunks_concat_length : forall nb bu l, (length l <= nb * bu)%nat ->
  length (concat (map block_fields (chunks nb bu l))) = length l.
Proof.
  induction nb as [|k IH]; intros bu l Hl.
  - cbn in *. destruct l; [reflexivity|cbn in Hl; lia].
  - cbn [chunks map concat]. rewrite app_length, block_fields_length, firstn_length, IH.
    + rewrite skipn_length. lia.
    + rewrite skipn_length. lia.
Qed.

Lemma chunks_nth : forall nb bu l i, (0 < bu)%nat -> (i < length l)%nat -> (length l <= nb * bu)%nat ->
  nth i (concat (map block_fields (chunks nb bu l))) 0 = nth i l 0 - list_min (nth (i / bu) (chunks nb bu l) []) /\
  In (nth i l 0) (nth (i / bu) (chunks nb bu l) []).
Proof.
  induction nb as [|k IH]; intros bu l i Hbu Hi Hl; [cbn in Hl; lia|].
  cbn [chunks map concat].
  destruct (Nat.lt_ge_cases i bu) as [Hlt|Hge].
  - rewrite Nat.div_small by exact Hlt. cbn [nth].
    assert (Hlen : (i < length (firstn bu l))%nat) by (rewrite firstn_length; lia).
    rewrite app_nth1 by (rewrite block_fields_length; exact Hlen).
    unfold block_fields. rewrite nth_map0 by exact Hlen. rewrite nth_firstn_lt by exact Hlt. split; [reflexivity|].
    rewrite <- (nth_firstn_lt l bu i 0 Hlt). apply nth_In. exact Hlen.
  - assert (Hfl : length (firstn bu l) = bu) by (rewrite firstn_length; lia).
    rewrite app_nth2 by (rewrite block_fields_length, Hfl; exact Hge). rewrite block_fields_length, Hfl.
    assert (Hdiv : (i / bu = S ((i - bu) / bu))%nat).
    { replace i with ((i - bu) + 1 * bu)%nat at 1 by lia. rewrite Nat.div_add by lia. lia. }
    rewrite Hdiv. cbn [nth].
    destruct (IH bu (skipn bu l) (i - bu)%nat Hbu) as [H1 H2].
    { rewrite skipn_length. lia. }
    { rewrite skipn_length. lia. }
    rewrite nth_skipn_add in H1, H2. replace (bu + (i - bu))%nat with i in H1, H2 by lia.
    split; assumption.
Qed.

Lemma num_blocks_cover n bu : 0 < bu -> n <= num_blocks_of n bu * bu.
Proof. intros H. unfold num_blocks_of. nia. Qed.

Lemma blocks_of_len_ok lg (vals : list N) :
  (length vals <= N.to_nat (num_blocks_of (nlen vals) (2 ^ lg)) * N.to_nat (2 ^ lg))%nat.
Proof.
  pose proof (pow2_pos lg) as Hp. pose proof (num_blocks_cover (nlen vals) (2 ^ lg) Hp) as H.
  pose proof (nlen_length vals) as Hn. rewrite <- N2Nat.inj_mul.
  set (X := num_blocks_of (nlen vals) (2 ^ lg) * 2 ^ lg) in *. lia.
Qed.

Lemma block_result (simd : bool) vals lg ow sw :
  1 <= ow <= 64 -> 1 <= sw <= 64 ->
  exists idx dat, compress_block_based simd vals lg ow sw = IOk (idx, dat) /\
    bmem idx = pack sw (map list_min (blocks_of lg vals)) /\
    sw * nlen (blocks_of lg vals) <= 8 * blen idx /\
    bmem dat = pack ow (concat (map block_fields (blocks_of lg vals))) /\
    ow * nlen vals <= 8 * blen dat.
Proof.
  intros How Hsw. unfold compress_block_based. cbv zeta.
  set (blocks := blocks_of lg vals).
  set (size_of := fun bytes => if simd then golden16 bytes else align16 bytes).
  set (wr := if simd then write_bits_bulk else write_bits).
  assert (Hwr : wr_ok wr) by (unfold wr; destruct simd; [exact wr_ok_bulk|exact wr_ok_plain]).
  assert (Hsz : forall b, b <= size_of b) by (intros b; unfold size_of; destruct simd; [apply golden16_ge|apply align16_ge]).
  set (Ai := size_of ((nlen blocks * sw + 7) / 8)). set (Ad := size_of ((nlen vals * ow + 7) / 8)).
  assert (HAi : sw * nlen blocks <= 8 * Ai).
  { unfold Ai. generalize (Hsz ((nlen blocks * sw + 7) / 8)). generalize (size_of ((nlen blocks * sw + 7) / 8)). intros z Hz. lia. }
  assert (HAd : ow * nlen vals <= 8 * Ad).
  { unfold Ad. generalize (Hsz ((nlen vals * ow + 7) / 8)). generalize (size_of ((nlen vals * ow + 7) / 8)). intros z Hz. lia. }
  rewrite (seq_loop_spec wr Hwr).
  2: exact Hsw.
  2:{ rewrite nlen_map, N.add_0_l. exact HAi. }
  cbn [ibind]. rewrite block_loop_seq.
  assert (Hcl : nlen (concat (map block_fields blocks)) = nlen vals).
  { rewrite !nlen_length. f_equal. unfold blocks, blocks_of. apply chunks_concat_length. apply blocks_of_len_ok. }
  rewrite (seq_loop_spec wr Hwr).
  2: exact How.
  2:{ rewrite Hcl, N.add_0_l. exact HAd. }
  cbn [ibind].
  destruct (orv_zeros Ai (pack sw (map list_min blocks))) as [Hm1 Hl1].
  destruct (orv_zeros Ad (pack ow (concat (map block_fields blocks)))) as [Hm2 Hl2].
  exists (orv (zeros Ai) (pack sw (map list_min blocks)) 0), (orv (zeros Ad) (pack ow (concat (map block_fields blocks))) 0).
  split; [reflexivity|]. rewrite Hm1, Hl1, Hm2, Hl2. repeat split; assumption.
Qed.

Lemma block_get v lg ow sw vals idx i :
  1 <= ow <= 64 -> 1 <= sw <= 64 -> Forall (fun x => x < W64) vals ->
  Forall (fun blk => list_min blk < 2 ^ sw /\ Forall (fun x => x - list_min blk < 2 ^ ow) blk) (blocks_of lg vals) ->
  iindex v = Some idx ->
  bmem idx = pack sw (map list_min (blocks_of lg vals)) -> sw * nlen (blocks_of lg vals) <= 8 * blen idx ->
  bmem (idata v) = pack ow (concat (map block_fields (blocks_of lg vals))) -> ow * nlen vals <= 8 * blen (idata v) ->
  (i < length vals)%nat ->
  get_block_based v (N.of_nat i) lg ow sw = IOk (Some (nth i vals 0)).
Proof.
  intros How Hsw H64 Hcov Hidx Hmi Hli Hmd Hld Hi. unfold get_block_based. rewrite Hidx.
  set (blocks := blocks_of lg vals) in *.
  pose proof (pow2_pos lg) as Hp. set (bu := 2 ^ lg) in *.
  assert (Hbun : (0 < N.to_nat bu)%nat) by lia.
  pose proof (blocks_of_len_ok lg vals) as Hlen. fold bu in Hlen.
  destruct (chunks_nth _ _ vals i Hbun Hi Hlen) as [Hfield Hin]. fold bu in Hfield, Hin.
  change (chunks (N.to_nat (num_blocks_of (nlen vals) bu)) (N.to_nat bu) vals) with blocks in Hfield, Hin.
  assert (Hk : (i / N.to_nat bu < length blocks)%nat).
  { unfold blocks, blocks_of. rewrite chunks_length. fold bu.
    apply Nat.div_lt_upper_bound; [lia|]. lia. }
  assert (Hkn : N.of_nat i / bu = N.of_nat (i / N.to_nat bu)).
  { apply N2Nat.inj. rewrite N2Nat.inj_div, !Nat2N.id. reflexivity. }
  (* the sample *)
  rewrite read_bits_spec.
  2: exact Hsw.
  2:{ rewrite Hkn. assert (N.of_nat (i / N.to_nat bu) < nlen blocks) by (rewrite nlen_length; lia). nia. }
  rewrite Hmi, Hkn. replace (N.of_nat (i / N.to_nat bu) * sw) with (sw * N.of_nat (i / N.to_nat bu)) by lia.
  rewrite pack_nth.
  2:{ apply Forall_forall. intros x Hx. apply in_map_iff in Hx. destruct Hx as (blk & <- & Hb).
      rewrite Forall_forall in Hcov. apply (Hcov blk Hb). }
  2:{ rewrite map_length. exact Hk. }
  (* the offset *)
  rewrite read_bits_spec.
  2: exact How.
  2:{ assert (N.of_nat i < nlen vals) by (rewrite nlen_length; lia). nia. }
  rewrite Hmd. replace (N.of_nat i * ow) with (ow * N.of_nat i) by lia.
  rewrite pack_nth.
  2:{ apply Forall_forall. intros x Hx. apply in_concat in Hx. destruct Hx as (fl & Hfl & Hx).
      apply in_map_iff in Hfl. destruct Hfl as (blk & <- & Hb). unfold block_fields in Hx.
      apply in_map_iff in Hx. destruct Hx as (y & <- & Hy).
      rewrite Forall_forall in Hcov. destruct (Hcov blk Hb) as [_ Ho]. rewrite Forall_forall in Ho. apply Ho. exact Hy. }
  2:{ unfold blocks, blocks_of. rewrite chunks_concat_length by apply blocks_of_len_ok. exact Hi. }
  rewrite Hfield.
  assert (Hsample : nth (i / N.to_nat bu) (map list_min blocks) 0 = list_min (nth (i / N.to_nat bu) blocks [])).
  { rewrite (nth_indep _ 0 (list_min [])) by (rewrite map_length; exact Hk). apply map_nth. }
  rewrite Hsample.
  pose proof (list_min_le _ _ Hin) as Hge. pose proof (Forall_nth_N _ _ i H64 Hi) as Hlt. cbn beta in Hlt.
  rewrite add64_ok by lia. cbn [ibind]. f_equal. f_equal. lia.
Qed.

(* ---------- uniform delta ---------- *)
Lemma arith_from_nth : forall vals base d k i, arith_from base d k vals -> (i < length vals)%nat ->
  nth i vals 0 = base + (k + N.of_nat i) * d.
Proof.
  induction vals as [|v t IH]; intros base d k i H Hi; [cbn in Hi; lia|].
  destruct H as [Hv Ht]. destruct i as [|i].
  - cbn [nth]. rewrite Hv. f_equal. f_equal. lia.
  - cbn [nth]. cbn [length] in Hi. rewrite (IH base d (k + 1) i Ht) by lia. f_equal. f_equal. lia.
Qed.

(* ---------- the theorem on u64 images ---------- *)
Theorem iv_build_get (simd : bool) s vals :
  Forall (fun v => v < W64) vals -> covers s vals ->
  exists v, iv_build simd s vals = IOk v /\ ilen v = nlen vals /\
    (forall i, (i < length vals)%nat -> iv_get64 v (N.of_nat i) = IOk (Some (nth i vals 0))) /\
    (forall i, nlen vals <= i -> iv_get64 v i = IOk None).
Proof.
  intros H64 Hcov.
  assert (Hin : forall i, (i < length vals)%nat -> (nlen vals <=? N.of_nat i) = false).
  { intros i Hi. apply N.leb_gt. rewrite nlen_length. lia. }
  destruct s as [|mn bw|lg ow sw srt|base dw iu ud]; cbn [iv_build].
  - (* raw *)
    eexists. split; [reflexivity|]. cbn [ilen]. split; [reflexivity|]. split.
    + intros i Hi. unfold iv_get64. cbn [ilen istrat]. rewrite (Hin i Hi).
      apply raw_get; assumption.
    + intros i Hi. apply get64_past. exact Hi.
  - (* min-max *)
    destruct Hcov as [Hbw Hall].
    destruct (mm_result simd vals mn bw Hbw) as (d & Hd & Hm & Hl).
    { eapply Forall_impl; [|exact Hall]. intros a [Ha _]. exact Ha. }
    rewrite Hd. cbn [ibind]. eexists. split; [reflexivity|]. cbn [ilen]. split; [reflexivity|]. split.
    + intros i Hi. unfold iv_get64. cbn [ilen istrat]. rewrite (Hin i Hi).
      apply (mm_get _ mn bw vals i); assumption.
    + intros i Hi. apply get64_past. exact Hi.
  - (* block based *)
    destruct Hcov as (How & Hsw & Hall).
    destruct (block_result simd vals lg ow sw How Hsw) as (idx & dat & Hc & Hmi & Hli & Hmd & Hld).
    rewrite Hc. cbn [ibind fst snd]. eexists. split; [reflexivity|]. cbn [ilen]. split; [reflexivity|]. split.
    + intros i Hi. unfold iv_get64. cbn [ilen istrat]. rewrite (Hin i Hi).
      apply (block_get _ lg ow sw vals idx i); try assumption. reflexivity.
    + intros i Hi. apply get64_past. exact Hi.
  - (* delta *)
    unfold covers in Hcov. destruct (is_uniform_mode iu ud) eqn:Hmode.
    + (* uniform: only base and delta are kept *)
      assert (Hc : exists d, compress_delta simd vals base dw iu ud = IOk d).
      { unfold compress_delta. destruct vals; [eexists; reflexivity|]. rewrite Hmode. eexists; reflexivity. }
      destruct Hc as [d Hd]. rewrite Hd. cbn [ibind]. eexists. split; [reflexivity|]. cbn [ilen]. split; [reflexivity|]. split.
      * intros i Hi. unfold iv_get64. cbn [ilen istrat]. rewrite (Hin i Hi).
        unfold get_delta. rewrite Hmode.
        pose proof (arith_from_nth vals base _ 0 i Hcov Hi) as Hv. rewrite N.add_0_l in Hv.
        pose proof (Forall_nth_N _ _ i H64 Hi) as Hlt. cbn beta in Hlt.
        destruct (N.eqb_spec (N.of_nat i) 0) as [H0|H0].
        { rewrite Hv, H0. f_equal. f_equal. lia. }
        set (u := match ud with Some u => u | None => 0 end) in *.
        unfold mul64. replace (W64 <=? N.of_nat i * u) with false by (symmetry; apply N.leb_gt; lia).
        cbn [ibind]. rewrite add64_ok by lia. cbn [ibind]. rewrite Hv. reflexivity.
      * intros i Hi. apply get64_past. exact Hi.
    + destruct Hcov as [Hdw Hv].
      assert (Hcd : forall iu' ud', is_uniform_mode iu' ud' = false ->
                compress_delta simd vals base dw iu' ud' = compress_delta simd vals base dw false None).
      { intros iu' ud' Hm'. unfold compress_delta. destruct vals; [reflexivity|]. rewrite Hm'. reflexivity. }
      rewrite (Hcd iu ud Hmode).
      destruct vals as [|v0 t].
      * cbn [compress_delta ibind]. eexists. split; [reflexivity|]. cbn [ilen]. split; [reflexivity|]. split.
        -- intros i Hi. cbn in Hi. lia.
        -- intros i Hi. apply get64_past. exact Hi.
      * destruct Hv as [-> Hd].
        destruct (delta_result simd (v0 :: t) v0 t dw eq_refl Hdw (deltas_lt_sorted _ _ _ Hd)) as (tl & Hc & Hm & Hl).
        rewrite Hc. cbn [ibind]. eexists. split; [reflexivity|]. cbn [ilen]. split; [reflexivity|]. split.
        -- intros i Hi. unfold iv_get64. cbn [ilen istrat]. rewrite (Hin i Hi).
           unfold get_delta. rewrite Hmode. cbn [idata].
           destruct (N.eqb_spec (N.of_nat i) 0) as [H0|H0].
           { replace i with 0%nat by lia. reflexivity. }
           rewrite tail8_with_base. cbn [ibind].
           assert (Hn : nlen (v0 :: t) - 1 = nlen t) by (cbn [nlen]; lia).
           assert (Hfit : dw * nlen t <= 8 * blen tl) by (rewrite Hl, Hn; unfold align16; lia).
           cbn [length] in Hi.
           rewrite read_bits_spec.
           2: exact Hdw.
           2:{ assert (N.of_nat i - 1 < nlen t) by (rewrite nlen_length; lia). nia. }
           rewrite Nat2N.id.
           pose proof (delta_sum_spec tl dw v0 t Hdw H64 Hd Hm Hfit i 1%nat) as Hsum.
           cbn [Nat.sub nth] in Hsum. replace (1 - 1 + i)%nat with i in Hsum by lia.
           replace (N.of_nat 1) with 1 in Hsum by reflexivity. apply Hsum; lia.
        -- intros i Hi. apply get64_past. exact Hi.
Qed.
