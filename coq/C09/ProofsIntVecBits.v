(* C09: IntVec bit writers and the bit reader, by bit extensionality.
   write_bits / write_bits_bulk OR the masked value in at the bit offset (whichever path they take);
   read_bits returns the field (8-byte window, plus the ninth byte for 58..64-bit fields that start inside a byte). *)
From ZV.Common Require Import Base.
From Coq Require Import Btauto.
From ZV.C09 Require Import Model ProofsBits ModelSorted ModelIntVec.
Open Scope N_scope.

(* OR the number v in at bit offset off *)
Definition orv (d : bvec) (v off : N) : bvec := {| bmem := N.lor (bmem d) (N.shiftl v off); blen := blen d |}.

(* the field of width w at bit offset off *)
Definition field (x off w : N) : N := N.land (N.shiftr x off) (N.ones w).

Lemma field_tb x off w k : N.testbit (field x off w) k = (k <? w) && N.testbit x (off + k).
Proof. unfold field. tb. rewrite andb_comm. f_equal. f_equal. lia. Qed.

Lemma bvec_eq a b : bmem a = bmem b -> blen a = blen b -> a = b.
Proof. destruct a, b; cbn. intros -> ->. reflexivity. Qed.

Lemma bit_mask_ones w : w <= 64 -> bit_mask w = N.ones w.
Proof.
  intros H. unfold bit_mask. destruct (N.leb_spec 64 w) as [H1|H1]; [|reflexivity].
  replace w with 64 by lia. apply N.bits_inj. intros k. rewrite tb_ones64, tb_ones. reflexivity.
Qed.

Lemma land_ones_tb v w k : N.testbit (N.land v (N.ones w)) k = N.testbit v k && (k <? w).
Proof. tb. reflexivity. Qed.

Lemma window_tb d off k n : N.testbit (window d off k) n = N.testbit (bmem d) (n + 8 * off) && (n <? 8 * k).
Proof. unfold window. tb. reflexivity. Qed.

(* read-modify-write of a window: OR-ing X into the window is OR-ing X into the buffer, when X fits the window *)
Lemma store_window_or d bo a X :
  (forall k, 8 * a <= k -> N.testbit X k = false) ->
  store_window d bo a (N.lor (window d bo a) X) = orv d X (8 * bo).
Proof.
  intros HX. apply bvec_eq; [|reflexivity]. unfold store_window, orv; cbn [bmem].
  apply N.bits_inj. intros n. tb. rewrite window_tb.
  destruct (N.leb_spec (8 * bo) n) as [H1|H1]; cbn [andb].
  - destruct (N.ltb_spec (n - 8 * bo) (8 * a)) as [H2|H2].
    + replace (n - 8 * bo + 8 * bo) with n by lia. btauto.
    + rewrite (HX (n - 8 * bo)) by lia. btauto.
  - btauto.
Qed.

Lemma shifted_fits v w s : s + w <= 64 ->
  trunc64 (N.shiftl (N.land v (N.ones w)) s) = N.shiftl (N.land v (N.ones w)) s.
Proof.
  intros H. apply N.bits_inj. intros k. tb.
  destruct (N.ltb_spec k 64) as [Hk|Hk]; [rewrite andb_true_r; reflexivity|].
  rewrite andb_false_r. destruct (N.leb_spec s k) as [H1|H1]; cbn [andb]; [|reflexivity].
  replace (k - s <? w) with false by (symmetry; apply N.ltb_ge; lia). rewrite andb_false_r. reflexivity.
Qed.

Lemma orv_split d v w bo s :
  orv d (N.shiftl (N.land v (N.ones w)) s) (8 * bo) = orv d (N.land v (N.ones w)) (8 * bo + s).
Proof.
  apply bvec_eq; [|reflexivity]. unfold orv; cbn [bmem]. f_equal.
  rewrite N.shiftl_shiftl. f_equal. lia.
Qed.

(* ---------- the bit-by-bit path ---------- *)
Definition bitrange (v lo hi : N) : N := N.land (N.ldiff v (N.ones lo)) (N.ones hi).
Lemma bitrange_tb v lo hi k : N.testbit (bitrange v lo hi) k = N.testbit v k && negb (k <? lo) && (k <? hi).
Proof. unfold bitrange. tb. reflexivity. Qed.

Lemma write_bits_slow_spec : forall cnt d mv off i,
  off + i + N.of_nat cnt <= 8 * blen d ->
  write_bits_slow d mv off i cnt = IOk (orv d (bitrange mv i (i + N.of_nat cnt)) off).
Proof.
  induction cnt as [|cnt IH]; intros d mv off i Hfit.
  - cbn [write_bits_slow]. f_equal. apply bvec_eq; [|reflexivity]. unfold orv; cbn [bmem].
    apply N.bits_inj. intros n. tb. rewrite bitrange_tb.
    destruct (N.leb_spec off n); cbn [andb]; [|rewrite orb_false_r; reflexivity].
    replace (n - off <? i + N.of_nat 0) with (n - off <? i) by (f_equal; lia).
    destruct (n - off <? i); cbn [negb andb]; rewrite ?andb_false_r, orb_false_r; reflexivity.
  - cbn [write_bits_slow].
    replace (blen d <=? (off + i) / 8) with false by (symmetry; apply N.leb_gt; lia).
    set (d' := if N.testbit mv i then _ else d).
    assert (Hlen : blen d' = blen d) by (unfold d'; destruct (N.testbit mv i); reflexivity).
    rewrite IH by (rewrite Hlen; lia). f_equal. apply bvec_eq; [|exact Hlen].
    unfold orv; cbn [bmem]. apply N.bits_inj. intros n. tb. rewrite !bitrange_tb.
    assert (Hd' : N.testbit (bmem d') n = N.testbit (bmem d) n || ((n =? off + i) && N.testbit mv i)).
    { unfold d'. destruct (N.testbit mv i) eqn:Hb; cbn [bmem]; [|rewrite andb_false_r, orb_false_r; reflexivity].
      rewrite andb_true_r. tb. f_equal.
      assert (Hpos : off + i = 8 * ((off + i) / 8) + (off + i) mod 8) by (apply N.div_mod; discriminate).
      set (q := (off + i) / 8) in *. set (r := (off + i) mod 8) in *. rewrite Hpos.
      destruct (N.eqb_spec n (8 * q + r)) as [Heq|Hne].
      - subst n. replace (8 * q <=? 8 * q + r) with true by (symmetry; apply N.leb_le; lia).
        replace (r <=? 8 * q + r - 8 * q) with true by (symmetry; apply N.leb_le; lia).
        cbn [andb]. replace (8 * q + r - 8 * q - r) with 0 by lia. reflexivity.
      - 
        destruct (N.leb_spec (8 * q) n); cbn [andb]; [|reflexivity].
        destruct (N.leb_spec r (n - 8 * q)); cbn [andb]; [|reflexivity].
        assert (Hnz : n - 8 * q - r <> 0) by lia.
        destruct (n - 8 * q - r) as [|p] eqn:Hp; [congruence|].
        destruct p; reflexivity. }
    rewrite Hd'. clear Hd' d' Hlen.
    destruct (N.leb_spec off n) as [H1|H1]; cbn [andb].
    + destruct (N.eqb_spec n (off + i)) as [->|Hne]; cbn [andb].
      * replace (off + i - off) with i by lia.
        replace (i <? i + 1) with true by (symmetry; apply N.ltb_lt; lia).
        replace (i <? i + 1 + N.of_nat cnt) with true by (symmetry; apply N.ltb_lt; lia).
        replace (i <? i) with false by (symmetry; apply N.ltb_ge; lia).
        replace (i <? i + N.of_nat (S cnt)) with true by (symmetry; apply N.ltb_lt; lia).
        btauto.
      * rewrite orb_false_r.
        replace (n - off <? i + 1 + N.of_nat cnt) with (n - off <? i + N.of_nat (S cnt)) by (f_equal; lia).
        destruct (N.ltb_spec (n - off) (i + 1)) as [H2|H2]; destruct (N.ltb_spec (n - off) i) as [H3|H3];
          try reflexivity; exfalso; lia.
    + replace (n =? off + i) with false by (symmetry; apply N.eqb_neq; lia). cbn [andb].
      rewrite !orb_false_r. reflexivity.
Qed.

Lemma bitrange_all v w : bitrange (N.land v (N.ones w)) 0 (0 + w) = N.land v (N.ones w).
Proof.
  apply N.bits_inj. intros k. rewrite bitrange_tb. tb. replace (0 + w) with w by lia.
  replace (k <? 0) with false by (symmetry; apply N.ltb_ge; lia). cbn [negb].
  destruct (N.testbit v k), (k <? w); reflexivity.
Qed.

(* ---------- write_bits / write_bits_bulk ---------- *)
Theorem write_bits_spec d v off w :
  1 <= w <= 64 -> off + w <= 8 * blen d ->
  write_bits d v off w = IOk (orv d (N.land v (N.ones w)) off).
Proof.
  intros Hw Hfit. unfold write_bits.
  assert (Hoff : off = 8 * (off / 8) + off mod 8) by (apply N.div_mod; discriminate).
  set (bo := off / 8) in *. set (s := off mod 8) in *.
  assert (Hs : s < 8) by (apply N.mod_lt; discriminate).
  replace (blen d <=? bo) with false by (symmetry; apply N.leb_gt; lia).
  replace (64 <? w) with false by (symmetry; apply N.ltb_ge; lia). cbn [orb].
  rewrite bit_mask_ones by lia.
  set (bn := (s + w + 7) / 8).
  assert (Hbn : s + w <= 8 * bn) by (unfold bn; lia).
  destruct ((bo + bn <=? blen d) && (bn <=? 8)) eqn:Hfast.
  - apply andb_true_iff in Hfast. destruct Hfast as [Hf1 Hf2]. apply N.leb_le in Hf1. apply N.leb_le in Hf2.
    f_equal. rewrite shifted_fits by lia.
    rewrite store_window_or.
    + rewrite orv_split. rewrite <- Hoff. reflexivity.
    + intros k Hk. tb. destruct (N.leb_spec s k); cbn [andb]; [|reflexivity].
      replace (k - s <? w) with false by (symmetry; apply N.ltb_ge; lia). rewrite andb_false_r. reflexivity.
  - rewrite write_bits_slow_spec by lia. rewrite N2Nat.id, bitrange_all. reflexivity.
Qed.

Theorem write_bits_bulk_spec d v off w :
  1 <= w <= 64 -> off + w <= 8 * blen d ->
  write_bits_bulk d v off w = IOk (orv d (N.land v (N.ones w)) off).
Proof.
  intros Hw Hfit. unfold write_bits_bulk.
  assert (Hoff : off = 8 * (off / 8) + off mod 8) by (apply N.div_mod; discriminate).
  set (bo := off / 8) in *. set (s := off mod 8) in *.
  assert (Hs : s < 8) by (apply N.mod_lt; discriminate).
  replace (blen d <=? bo) with false by (symmetry; apply N.leb_gt; lia).
  replace (64 <? w) with false by (symmetry; apply N.ltb_ge; lia). cbn [orb].
  rewrite bit_mask_ones by lia.
  set (bn := (s + w + 7) / 8).
  assert (Hbn : s + w <= 8 * bn) by (unfold bn; lia).
  destruct ((bo + 8 <=? blen d) && (bn <=? 8)) eqn:Hfast.
  - apply andb_true_iff in Hfast. destruct Hfast as [Hf1 Hf2]. apply N.leb_le in Hf1. apply N.leb_le in Hf2.
    f_equal. rewrite shifted_fits by lia.
    rewrite store_window_or.
    + rewrite orv_split. rewrite <- Hoff. reflexivity.
    + intros k Hk. tb. destruct (N.leb_spec s k); cbn [andb]; [|reflexivity].
      replace (k - s <? w) with false by (symmetry; apply N.ltb_ge; lia). rewrite andb_false_r. reflexivity.
  - subst bo s. apply write_bits_spec; assumption.
Qed.

(* ---------- read_bits ---------- *)
Theorem read_bits_spec d off w :
  1 <= w <= 64 -> off + w <= 8 * blen d ->
  read_bits d off w = IOk (field (bmem d) off w).
Proof.
  intros Hw Hfit. unfold read_bits.
  assert (Hoff : off = 8 * (off / 8) + off mod 8) by (apply N.div_mod; discriminate).
  set (bo := off / 8) in *. set (s := off mod 8) in *.
  assert (Hs : s < 8) by (apply N.mod_lt; discriminate).
  replace (blen d <=? bo) with false by (symmetry; apply N.leb_gt; lia).
  replace (64 <? w) with false by (symmetry; apply N.ltb_ge; lia). cbn [orb].
  set (a := N.min (blen d - bo) 8).
  assert (Ha : s + w <= 8 * a \/ a = 8) by (unfold a; lia).
  assert (Ha8 : a <= 8) by (unfold a; lia).
  assert (Hex : forall k, N.testbit (extract_bits64 (window d bo a) s w) k =
                          (k <? w) && (k + s <? 64) && N.testbit (bmem d) (off + k)).
  { intros k. unfold extract_bits64.
    replace (w =? 0) with false by (symmetry; apply N.eqb_neq; lia).
    destruct (N.leb_spec 64 w) as [H64|H64]; tb; rewrite window_tb.
    - replace (k <? w) with (k <? 64) by (f_equal; lia).
      replace (k + s + 8 * bo) with (off + k) by lia.
      destruct (N.ltb_spec (k + s) (8 * a)) as [H1|H1]; destruct (N.ltb_spec (k + s) 64) as [H2|H2];
        destruct (N.ltb_spec k 64) as [H3|H3]; cbn [andb]; rewrite ?andb_true_r, ?andb_false_r; try reflexivity;
        exfalso; lia.
    - replace (k + s + 8 * bo) with (off + k) by lia.
      destruct (N.ltb_spec (k + s) (8 * a)) as [H1|H1]; destruct (N.ltb_spec (k + s) 64) as [H2|H2];
        destruct (N.ltb_spec k w) as [H3|H3]; cbn [andb]; rewrite ?andb_true_r, ?andb_false_r; try reflexivity;
        exfalso; lia. }
  destruct ((64 - s <? w) && (bo + 8 <? blen d)) eqn:Hninth.
  - apply andb_true_iff in Hninth. destruct Hninth as [Hn1 Hn2]. apply N.ltb_lt in Hn1. apply N.ltb_lt in Hn2.
    f_equal. apply N.bits_inj. intros k. rewrite N.lor_spec, Hex, field_tb, bit_mask_ones by lia.
    tb. rewrite window_tb.
    destruct (N.ltb_spec k w) as [H3|H3]; cbn [andb]; [|rewrite !andb_false_r; reflexivity].
    rewrite andb_true_r.
    destruct (N.ltb_spec (k + s) 64) as [H2|H2]; cbn [andb].
    + replace (64 - s <=? k) with false by (symmetry; apply N.leb_gt; lia). cbn [andb]. rewrite orb_false_r. reflexivity.
    + replace (64 - s <=? k) with true by (symmetry; apply N.leb_le; lia).
      replace (k <? 64) with true by (symmetry; apply N.ltb_lt; lia).
      replace (k - (64 - s) <? 8 * 1) with true by (symmetry; apply N.ltb_lt; lia).
      cbn [andb orb]. rewrite !andb_true_r. f_equal. lia.
  - f_equal. apply N.bits_inj. intros k. rewrite Hex, field_tb.
    destruct (N.ltb_spec k w) as [H3|H3]; cbn [andb]; [|reflexivity].
    replace (k + s <? 64) with true; [reflexivity|]. symmetry. apply N.ltb_lt.
    apply andb_false_iff in Hninth. destruct Hninth as [Hn|Hn]; [apply N.ltb_ge in Hn; lia|].
    apply N.ltb_ge in Hn. lia.
Qed.

(* reads outside the buffer are refused *)
Lemma read_bits_past d off w : blen d <= off / 8 -> read_bits d off w = IErr.
Proof.
  intros H. unfold read_bits. replace (blen d <=? off / 8) with true by (symmetry; apply N.leb_le; exact H). reflexivity.
Qed.

(* the 58-bit limit of the 8-byte window: a field of at most 58 bits at a multiple of its width never leaves
   the window; from 59 bits on the ninth byte is needed *)
Lemma window_suffices w k : w <= 58 -> (w * k) mod 8 + w <= 64.
Proof. apply field_fits. Qed.
Lemma ninth_byte_needed : (59 * 5) mod 8 + 59 > 64.
Proof. vm_compute. reflexivity. Qed.

(* a 59-bit field at bit offset 295 (bit 7 of byte 36): nine bytes on the way in (bit-by-bit path) and out (ninth byte) *)
Example intvec_bits_example :
  let d := zeros 48 in let v := 2 ^ 58 + 12345 in
  295 + 59 <= 8 * blen d /\
  match write_bits d v 295 59, write_bits_bulk d v 295 59 with
  | IOk d1, IOk d2 => d1 = d2 /\ read_bits d1 295 59 = IOk v /\ read_bits d1 (295 - 59) 59 = IOk 0
  | _, _ => False
  end.
Proof. cbv zeta. split; [cbn; lia|]. vm_compute. repeat split; reflexivity. Qed.

