(* C09: UintVecMin0::push_back on all three paths (in place, more memory, wider fields) and incremental
   construction of UintVecMin0 / ZipIntVec by push against the pushed sequence. *)
From ZV.Common Require Import Base.
From ZV.C09 Require Import Model ProofsBits ProofsVec.
Open Scope N_scope.

(* the vector holds exactly the sequence l *)
Definition stores (m : min0) (l : list N) : Prop := wf m /\ size m = nlen l /\ holds m 0 l.

Lemma fieldv_le_mask m j : mask m = N.ones (bits m) -> fieldv m j <= mask m.
Proof.
  intros Hm. unfold fieldv. rewrite Hm, N.land_ones, N.ones_equiv.
  pose proof (N.mod_lt (N.shiftr (mem m) (bits m * j)) (2 ^ bits m)). pose proof (pow2_pos (bits m)). lia.
Qed.

Lemma size_ones b : N.size (N.ones b) = b.
Proof.
  destruct (N.eq_dec b 0) as [->|Hb]; [reflexivity|].
  rewrite N.ones_equiv. assert (Hp : 2 ^ b <> 0) by (apply N.pow_nonzero; discriminate).
  assert (H1 : 1 < 2 ^ b) by (apply N.pow_gt_1; lia).
  rewrite N.size_log2 by lia. rewrite N.log2_pred_pow2 by lia. lia.
Qed.

Lemma size_gt_bits v b : N.ones b < v -> b < N.size v.
Proof.
  intros H. destruct (N.lt_ge_cases b (N.size v)) as [Hlt|Hge]; [exact Hlt|]. exfalso.
  pose proof (N.size_gt v). rewrite N.ones_equiv in H.
  assert (2 ^ N.size v <= 2 ^ b) by (apply N.pow_le_mono_r; lia). lia.
Qed.

Lemma holds_snoc m l v : holds m 0 l -> fieldv m (nlen l) = v -> holds m 0 (l ++ [v]).
Proof.
  intros Hh Hv k Hk. rewrite app_length in Hk. cbn [length] in Hk.
  destruct (Nat.eq_dec k (length l)) as [->|Hne].
  - rewrite nth_middle. rewrite <- nlen_length. replace (0 + nlen l) with (nlen l) by lia. exact Hv.
  - rewrite app_nth1 by lia. apply Hh. lia.
Qed.

(* copying the first n fields into a (wider) vector *)
Lemma copy_into_spec src : wf src -> forall n dst,
  wf dst -> N.of_nat n <= size src -> N.of_nat n <= size dst -> mask src <= mask dst ->
  exists d, copy_into n src dst = Ok d /\ wf d /\ size d = size dst /\ bits d = bits dst /\ mask d = mask dst /\
    (forall j, j < N.of_nat n -> fieldv d j = fieldv src j) /\
    (forall j, N.of_nat n <= j -> fieldv d j = fieldv dst j).
Proof.
  intros Hwfs. induction n as [|n IH]; intros dst Hwfd Hns Hnd Hmask.
  - exists dst. cbn [copy_into]. split; [reflexivity|]. split; [exact Hwfd|]. split; [reflexivity|]. split; [reflexivity|].
    split; [reflexivity|]. split; [intros j Hj; cbn in Hj; lia|intros j _; reflexivity].
  - destruct (IH dst Hwfd ltac:(lia) ltac:(lia) Hmask) as (d & Hc & Hwf & Hsz & Hb & Hmk & Hlow & Hhigh).
    cbn [copy_into]. rewrite Hc. cbn [bind].
    rewrite get_field by (try assumption; lia). cbn [bind].
    assert (Hval : fieldv src (N.of_nat n) <= mask d).
    { rewrite Hmk. pose proof (fieldv_le_mask src (N.of_nat n) ltac:(apply Hwfs)). lia. }
    assert (Hi : N.of_nat n < size d) by lia.
    destruct (set_ok d (N.of_nat n) _ Hwf Hi Hval) as [d' Hset].
    destruct (set_spec _ _ _ _ Hwf Hi Hval Hset) as (Hwf' & Hsz' & Hb' & _ & Hf & Ho).
    exists d'. split; [exact Hset|]. split; [exact Hwf'|]. split; [congruence|]. split; [congruence|]. split.
    { destruct Hwf' as (_ & Hm' & _). destruct Hwf as (_ & Hm & _). rewrite Hm', Hb', <- Hm. exact Hmk. }
    split.
    + intros j Hj. destruct (N.eq_dec j (N.of_nat n)) as [->|Hne]; [exact Hf|].
      rewrite Ho by exact Hne. apply Hlow. lia.
    + intros j Hj. rewrite Ho by lia. apply Hhigh. lia.
Qed.

Theorem push_back_spec m l val : stores m l -> val < 2 ^ 58 ->
  exists m', push_back m val = Ok m' /\ stores m' (l ++ [val]).
Proof.
  intros (Hwf & Hsz & Hh) Hval. pose proof Hwf as (Hb & Hmask & Hmem).
  assert (Hlen : nlen (l ++ [val]) = size m + 1) by (rewrite nlen_app; cbn [nlen]; lia).
  unfold push_back, compute_mem_size.
  replace (64 <? bits m) with false by (symmetry; apply N.ltb_ge; lia). cbn [bind].
  fold (mem_size (bits m) (size m + 1)).
  destruct ((mem_size (bits m) (size m + 1) <=? memlen m) && (val <=? mask m)) eqn:Hfast.
  - (* in place *)
    apply andb_true_iff in Hfast. destruct Hfast as [Hc Hv]. apply N.leb_le in Hc. apply N.leb_le in Hv.
    destruct (push_back_fast_proof m val Hwf Hc Hv) as (m' & Hp & Hwf' & Hsz' & Hg & Hold).
    unfold push_back, compute_mem_size in Hp.
    replace (64 <? bits m) with false in Hp by (symmetry; apply N.ltb_ge; lia). cbn [bind] in Hp.
    fold (mem_size (bits m) (size m + 1)) in Hp.
    replace (mem_size (bits m) (size m + 1) <=? memlen m) with true in Hp by (symmetry; apply N.leb_le; exact Hc).
    replace (val <=? mask m) with true in Hp by (symmetry; apply N.leb_le; exact Hv). cbn [andb] in Hp.
    exists m'. split; [exact Hp|]. split; [exact Hwf'|]. split; [lia|].
    apply holds_snoc.
    + intros k Hk. replace (0 + N.of_nat k) with (N.of_nat k) by lia.
      assert (Hkn : N.of_nat k < size m) by (rewrite Hsz, nlen_length; lia).
      specialize (Hold _ Hkn). rewrite !get_field in Hold by (try assumption; lia). injection Hold as Hold.
      rewrite Hold. specialize (Hh k Hk). replace (0 + N.of_nat k) with (N.of_nat k) in Hh by lia. exact Hh.
    + rewrite <- Hsz. rewrite get_field in Hg by (try assumption; lia). injection Hg as Hg. exact Hg.
  - destruct (N.leb_spec val (mask m)) as [Hv|Hv].
    + (* same width, more memory *)
      rewrite andb_true_r in Hfast. apply N.leb_gt in Hfast.
      replace (N.max val (mask m)) with (mask m) by lia. unfold compute_uintbits. rewrite Hmask, size_ones.
      replace (bits m <? bits m) with false by (symmetry; apply N.ltb_ge; lia).
      unfold resize, compute_mem_size.
      replace (64 <? bits m) with false by (symmetry; apply N.ltb_ge; lia). cbn [bind].
      fold (mem_size (bits m) (size m + 1)).
      replace (memlen m <? mem_size (bits m) (size m + 1)) with true by (symmetry; apply N.ltb_lt; exact Hfast).
      cbn [data_resize mem memlen bits mask size].
      set (ms := mem_size (bits m) (size m + 1)).
      set (mx := {| mem := N.land (mem m) (N.ones (8 * ms)); memlen := ms; bits := bits m; mask := mask m; size := size m + 1 |}).
      assert (Hwfx : wf mx) by (unfold wf, mx; cbn [bits mask memlen size]; repeat split; try assumption; unfold ms; lia).
      replace (size m + 1 - 1) with (size m) by lia.
      assert (Hix : size m < size mx) by (cbn; lia).
      assert (Hvx : val <= mask mx) by (unfold mx; cbn [mask]; exact Hv).
      destruct (set_ok mx (size m) val Hwfx Hix Hvx) as [m1 Hset].
      destruct (set_spec _ _ _ _ Hwfx Hix Hvx Hset) as (Hwf1 & Hsz1 & _ & _ & Hf1 & Ho1).
      exists m1. split; [exact Hset|]. split; [exact Hwf1|]. split; [cbn [size mx] in Hsz1; lia|].
      apply holds_snoc.
      * intros k Hk. replace (0 + N.of_nat k) with (N.of_nat k) by lia.
        assert (Hkn : N.of_nat k < size m) by (rewrite Hsz, nlen_length; lia).
        rewrite Ho1 by lia. specialize (Hh k Hk). replace (0 + N.of_nat k) with (N.of_nat k) in Hh by lia. rewrite <- Hh.
        (* the truncation to the new length does not touch the stored fields *)
        apply N.bits_inj. intros t. rewrite !fieldv_tb. unfold mx; cbn [mem bits]. tb.
        destruct (N.ltb_spec t (bits m)) as [Ht|Ht]; cbn [andb]; [|reflexivity].
        replace (bits m * N.of_nat k + t <? 8 * ms) with true; [rewrite andb_true_r; reflexivity|].
        symmetry. apply N.ltb_lt. unfold ms, mem_size.
        assert (bits m * N.of_nat k + bits m <= bits m * (size m + 1)) by nia.
        set (X := bits m * (size m + 1)) in *. set (Y := bits m * N.of_nat k) in *. lia.
      * rewrite <- Hsz. exact Hf1.
    + (* wider fields: rebuild *)
      replace (N.max val (mask m)) with val by lia.
      assert (Hwider : bits m < compute_uintbits val) by (unfold compute_uintbits; apply size_gt_bits; rewrite <- Hmask; exact Hv).
      replace (bits m <? compute_uintbits val) with true by (symmetry; apply N.ltb_lt; exact Hwider).
      destruct (new_spec (size m + 1) val Hval) as (nv & Hnew & Hwfn & Hszn & Hmaskn & _).
      rewrite Hnew. cbn [bind].
      destruct (copy_into_spec m Hwf (N.to_nat (size m)) nv Hwfn ltac:(lia) ltac:(lia) ltac:(lia))
        as (d & Hc & Hwfd & Hszd & _ & Hmkd & Hlow & _).
      rewrite Hc. cbn [bind].
      assert (Hi : size m < size d) by lia.
      assert (Hvd : val <= mask d) by lia.
      destruct (set_ok d (size m) val Hwfd Hi Hvd) as [m1 Hset].
      destruct (set_spec _ _ _ _ Hwfd Hi Hvd Hset) as (Hwf1 & Hsz1 & _ & _ & Hf1 & Ho1).
      exists m1. split; [exact Hset|]. split; [exact Hwf1|]. split; [lia|].
      apply holds_snoc.
      * intros k Hk. replace (0 + N.of_nat k) with (N.of_nat k) by lia.
        assert (Hkn : N.of_nat k < size m) by (rewrite Hsz, nlen_length; lia).
        rewrite Ho1 by lia. rewrite Hlow by lia.
        specialize (Hh k Hk). replace (0 + N.of_nat k) with (N.of_nat k) in Hh by lia. exact Hh.
      * rewrite <- Hsz. exact Hf1.
Qed.

Theorem push_all_spec : forall vals m l, stores m l -> Forall (fun v => v < 2 ^ 58) vals ->
  exists m', push_all m vals = Ok m' /\ stores m' (l ++ vals).
Proof.
  induction vals as [|v t IH]; intros m l Hst Hall.
  - exists m. split; [reflexivity|]. rewrite app_nil_r. exact Hst.
  - inversion Hall as [|? ? Hv Ht]; subst. cbn [push_all].
    destruct (push_back_spec m l v Hst Hv) as (m1 & Hp & Hst1). rewrite Hp. cbn [bind].
    destruct (IH m1 (l ++ [v]) Hst1 Ht) as (m' & Hpa & Hst'). exists m'. split; [exact Hpa|].
    rewrite <- app_assoc in Hst'. exact Hst'.
Qed.

Lemma stores_get m l : stores m l ->
  (forall i, (i < length l)%nat -> get m (N.of_nat i) = Ok (nth i l 0)) /\ (forall i, nlen l <= i -> get m i = Panic).
Proof.
  intros (Hwf & Hsz & Hh). split.
  - intros i Hi. rewrite get_field by (try assumption; rewrite Hsz, nlen_length; lia).
    specialize (Hh i Hi). replace (0 + N.of_nat i) with (N.of_nat i) in Hh by lia. rewrite Hh. reflexivity.
  - intros i Hi. apply get_out_of_range. lia.
Qed.

(* construction by push from an empty vector of any initial width: every element reads back *)
Theorem min0_push_all_get_proof mx vals : mx < 2 ^ 58 -> Forall (fun v => v < 2 ^ 58) vals ->
  exists m0 m, new 0 mx = Ok m0 /\ push_all m0 vals = Ok m /\ size m = nlen vals /\
    (forall i, (i < length vals)%nat -> get m (N.of_nat i) = Ok (nth i vals 0)) /\
    (forall i, nlen vals <= i -> get m i = Panic).
Proof.
  intros Hmx Hall. destruct (new_spec 0 mx Hmx) as (m0 & Hnew & Hwf0 & Hsz0 & _ & _).
  assert (Hst0 : stores m0 []).
  { split; [exact Hwf0|]. split; [exact Hsz0|]. intros k Hk. cbn in Hk. lia. }
  destruct (push_all_spec vals m0 [] Hst0 Hall) as (m & Hp & Hst). cbn [app] in Hst.
  exists m0, m. split; [exact Hnew|]. split; [exact Hp|]. split; [apply Hst|]. apply stores_get. exact Hst.
Qed.

(* every well-formed vector stores the sequence of its own fields *)
Lemma stores_self m : wf m -> stores m (map (fun j => fieldv m (N.of_nat j)) (seq 0 (N.to_nat (size m)))).
Proof.
  intros Hwf. set (f := fun j : nat => fieldv m (N.of_nat j)).
  split; [exact Hwf|]. split; [rewrite nlen_length, map_length, seq_length; lia|].
  intros k Hk. rewrite map_length, seq_length in Hk.
  rewrite (nth_indep (map f _) 0 (f 0%nat)) by (rewrite map_length, seq_length; exact Hk).
  rewrite (map_nth f), seq_nth by exact Hk. unfold f. f_equal.
Qed.

(* ---------- ZipIntVec::new(0, mn, mx); resize(0); push_back every value ---------- *)
Lemma zip_push_all_spec : forall src z, wf (inner z) ->
  Forall (fun v => min_val z <= v /\ v - min_val z < 2 ^ 58) src ->
  zip_push_all z src = bind (push_all (inner z) (map (fun v => v - min_val z) src)) (fun m => Ok {| inner := m; min_val := min_val z |}).
Proof.
  induction src as [|v t IH]; intros z Hwf Hall.
  - cbn [zip_push_all push_all map bind]. destruct z; reflexivity.
  - inversion Hall as [|? ? [Hge Hlt] Ht]; subst. cbn [zip_push_all push_all map]. unfold zip_push_back.
    replace (v <? min_val z) with false by (symmetry; apply N.ltb_ge; exact Hge).
    destruct (push_back (inner z) (v - min_val z)) as [m1| |] eqn:Hp; cbn [bind]; try reflexivity.
    destruct (push_back_spec (inner z) _ (v - min_val z) (stores_self (inner z) Hwf) Hlt) as (m1' & Hp' & Hst').
    rewrite Hp in Hp'. injection Hp' as <-.
    rewrite (IH {| inner := m1; min_val := min_val z |}); cbn [inner min_val]; [reflexivity|apply Hst'|exact Ht].
Qed.

Theorem zip_push_get_proof mn mx src :
  mn < mx -> mx - mn < 2 ^ 58 -> Forall (fun v => mn <= v /\ v - mn < 2 ^ 58 /\ v < W64) src ->
  exists z, zip_build_push mn mx src = Ok z /\ size (inner z) = nlen src /\
    (forall i, (i < length src)%nat -> zip_get z (N.of_nat i) = Ok (nth i src 0)) /\
    (forall i, nlen src <= i -> zip_get z i = Panic).
Proof.
  intros Hlt Hrange Hall. unfold zip_build_push, zip_new.
  replace (mx <=? mn) with false by (symmetry; apply N.leb_gt; exact Hlt).
  destruct (new_spec 0 (mx - mn) Hrange) as (m0 & Hnew & Hwf0 & Hsz0 & _ & _).
  rewrite Hnew. cbn [bind inner min_val].
  (* resize(0) of an empty vector *)
  pose proof Hwf0 as (Hb0 & Hmask0 & Hmem0).
  unfold resize, compute_mem_size. replace (64 <? bits m0) with false by (symmetry; apply N.ltb_ge; lia). cbn [bind].
  set (ms := ((bits m0 * 0 + 7) / 8 + 7 + 15) / 16 * 16).
  set (mr := if memlen m0 <? ms then data_resize m0 ms else m0).
  set (m1 := {| mem := mem mr; memlen := memlen mr; bits := bits mr; mask := mask mr; size := 0 |}).
  assert (Hwf1 : wf m1).
  { unfold m1, mr. destruct (N.ltb_spec (memlen m0) ms) as [E|E]; unfold wf; cbn [data_resize bits mask memlen size mem].
    - repeat split; try assumption; unfold mem_size, ms; lia.
    - repeat split; try assumption; unfold mem_size; unfold ms in E; lia. }
  assert (Hst1 : stores m1 []).
  { split; [exact Hwf1|]. split; [unfold m1; reflexivity|]. intros k Hk. cbn in Hk. lia. }
  rewrite (zip_push_all_spec src {| inner := m1; min_val := mn |}); cbn [inner min_val].
  2: exact Hwf1.
  2:{ eapply Forall_impl; [|exact Hall]. intros a (H1 & H2 & _). split; assumption. }
  destruct (push_all_spec (map (fun v => v - mn) src) m1 [] Hst1) as (m & Hp & Hst).
  { apply Forall_forall. intros x Hx. apply in_map_iff in Hx. destruct Hx as (y & <- & Hy).
    rewrite Forall_forall in Hall. apply (Hall y Hy). }
  rewrite Hp. cbn [bind app] in *. eexists. split; [reflexivity|]. cbn [inner min_val].
  destruct (stores_get m _ Hst) as [Hg Hpast]. destruct Hst as (_ & Hsz & _).
  rewrite nlen_length, map_length, <- nlen_length in Hsz, Hpast. rewrite map_length in Hg.
  split; [exact Hsz|]. split.
  - intros i Hi. unfold zip_get; cbn [inner min_val]. rewrite Hg by exact Hi. cbn [bind].
    set (f := fun v : N => v - mn).
    rewrite (nth_indep (map f src) 0 (f 0)) by (rewrite map_length; exact Hi). rewrite (map_nth f). unfold f.
    rewrite Forall_forall in Hall. destruct (Hall (nth i src 0) (nth_In _ _ Hi)) as (H1 & _ & H3).
    replace (W64 <=? mn + (nth i src 0 - mn)) with false by (symmetry; apply N.leb_gt; lia). f_equal. lia.
  - intros i Hi. unfold zip_get; cbn [inner min_val]. rewrite Hpast by exact Hi. reflexivity.
Qed.

(* the hypotheses are inhabited: pushes that run through all three paths (in place, more memory, wider fields) *)
Example min0_push_example :
  match new 0 1 with
  | Ok m0 => match push_all m0 [1; 0; 1; 7; 300; 2 ^ 57; 5] with
             | Ok m => bits m = 58 /\ map (fun i => get m i) [0; 3; 4; 5; 6; 7] = [Ok 1; Ok 7; Ok 300; Ok (2 ^ 57); Ok 5; Panic]
             | _ => False
             end
  | _ => False
  end.
Proof. vm_compute. split; reflexivity. Qed.

Example zip_push_example :
  let src := [1000; 1003; 1001; 1000000; 1002] in
  1000 < 1003 /\ 1003 - 1000 < 2 ^ 58 /\ Forall (fun v => 1000 <= v /\ v - 1000 < 2 ^ 58 /\ v < W64) src /\
  match zip_build_push 1000 1003 src with
  | Ok z => map (fun i => zip_get z i) [0; 3; 4; 5] = [Ok 1000; Ok 1000000; Ok 1002; Panic]
  | _ => False
  end.
Proof.
  cbv zeta. split; [lia|]. split; [cbn; lia|]. split.
  - repeat (apply Forall_cons; [split; [lia|split; [apply N.lt_le_trans with (2 ^ 20); [vm_compute; reflexivity|apply N.pow_le_mono_r; lia]|unfold W64; lia]]|]). apply Forall_nil.
  - vm_compute. reflexivity.
Qed.
