(* C09 mechanism model: src/containers/specialized/uint_vector.rs (UintVector) as written.
   Modelled: calculate_run_ratio, estimate_run_length_size, compute_compressed_size, should_compress,
   analyze_optimal_strategy, compress_raw / compress_min_max_bit_packed / compress_run_length, write_bits_fast
   (window path and write_bits_slow), read_bits_fast (read_bits_slow only refuses in the cases it is called for),
   get_raw / get_min_max_bit_packed / get_run_length, get (temporary values first), push (recompress every 64
   pushes or above 1000 pending values, quick_append otherwise), recompress_all, build_from.
   `data` is a Vec<u8>: (length, little-endian number) as in ModelSorted (bvec); `temp_values` a list.
   The two floating-point comparisons (`ratio < 0.8`, `run_ratio > 0.5`) are parameters of the model.
   Results as in ModelIntVec (IOk / IErr / IPanic).  Definitions only. *)
From ZV.Common Require Import Base.
From ZV.C09 Require Import Model ModelSorted ModelIntVec.
Open Scope N_scope.

Definition W32c : N := 4294967296.

Inductive ustrategy : Type :=
| URaw
| UMinMax (min_val bit_width : N)
| URunLength.

Record uvec := { ustrat : ustrategy; udata : bvec; ulen : N; utemp : list N }.

Definition uv_new : uvec := {| ustrat := URaw; udata := bempty; ulen := 0; utemp := [] |}.

(* the f64 comparisons: lt08 a b stands for (a as f64 / b as f64) < 0.8, gt05 a b for (a as f64 / b as f64) > 0.5 *)
Record fcmp := { lt08 : N -> N -> bool; gt05 : N -> N -> bool }.

(* calculate_run_ratio: the number of elements that lie in runs of length >= 2 *)
Fixpoint run_elems (prev : N) (vals : list N) (runs cur : N) : N :=
  match vals with
  | [] => if 1 <? cur then runs + cur else runs
  | v :: t => if v =? prev then run_elems v t runs (cur + 1)
              else run_elems v t (if 1 <? cur then runs + cur else runs) 1
  end.

(* estimate_run_length_size: max(runs * 8, 32) *)
Fixpoint run_count (prev : N) (vals : list N) (runs : N) : N :=
  match vals with
  | [] => runs
  | v :: t => run_count v t (if v =? prev then runs else runs + 1)
  end.
Definition estimate_run_length_size (vals : list N) : N :=
  match vals with [] => 0 | v :: t => N.max (run_count v t 1 * 8) 32 end.

(* max(align16((bits * n + 7) / 8 + 7), 32) *)
Definition compute_compressed_size (bw n : N) : N := N.max (align16 ((bw * n + 7) / 8 + 8 - 1)) 32.

Definition should_compress (fc : fcmp) (n raw_bytes compressed_bytes : N) : bool :=
  if n <? 4 then false else lt08 fc compressed_bytes raw_bytes.

Definition uv_analyze (fc : fcmp) (vals : list N) : ustrategy :=
  let len := nlen vals in
  if len <? 4 then URaw else
  let run_heavy := match vals with
                   | v :: t => if len <? 2 then false else gt05 fc (run_elems v t 0 1) len
                   | [] => false
                   end in
  if run_heavy && should_compress fc len (len * 4) (estimate_run_length_size vals) then URunLength else
  let mn := list_min vals in
  let mx := list_max vals in
  if mn =? mx then
    (if should_compress fc len (len * 4) (compute_compressed_size 1 len) then UMinMax mn 1 else URaw)
  else
    let bw := N.size (mx - mn) in      (* 32 - leading_zeros of a non-zero u32 *)
    if should_compress fc len (len * 4) (compute_compressed_size bw len) then UMinMax mn bw else URaw.

(* ---------- compression ---------- *)
(* every value as 4 little-endian bytes *)
Fixpoint raw_bytes32 (vals : list N) : N :=
  match vals with [] => 0 | v :: t => N.lor (N.land v (N.ones 32)) (N.shiftl (raw_bytes32 t) 32) end.

(* write_bits_fast(value: u32, bit_offset, bits) *)
Definition uv_write_bits (d : bvec) (value bit_offset bits : N) : ires bvec :=
  let byte_offset := bit_offset / 8 in
  let bit_in_byte := bit_offset mod 8 in
  if 32 <? bits then IPanic else             (* 1u32 << bits *)
  let masked := N.land value (N.ones bits) in
  let bytes_needed := (bit_in_byte + bits + 7) / 8 in
  if blen d <? byte_offset + bytes_needed then IErr else
  if (bytes_needed <=? 8) && (byte_offset + 8 <=? blen d) then
    let avail := N.min 8 (blen d - byte_offset) in
    let current := window d byte_offset avail in
    let result := N.lor current (trunc64 (N.shiftl masked bit_in_byte)) in
    IOk (store_window d byte_offset avail result)
  else write_bits_slow d masked bit_offset 0 (N.to_nat bits).

Definition uv_compress_min_max (vals : list N) (mn bw : N) : ires bvec :=
  if (bw =? 0) || (32 <? bw) then IErr else
  mm_loop uv_write_bits (zeros (compute_compressed_size bw (nlen vals))) vals mn bw 0.

(* data.extend_from_slice(value.to_le_bytes()); data.extend_from_slice(run_length.to_le_bytes()) *)
Definition append_run (d : bvec) (value run_length : N) : bvec :=
  {| bmem := N.lor (bmem d) (N.shiftl (N.lor (N.land value (N.ones 32)) (N.shiftl (N.land run_length (N.ones 32)) 32)) (8 * blen d));
     blen := blen d + 8 |}.

Fixpoint rle_loop (d : bvec) (cur run_length : N) (vals : list N) : bvec :=
  match vals with
  | [] => append_run d cur run_length
  | v :: t => if (v =? cur) && (run_length <? W32c - 1) then rle_loop d cur (run_length + 1) t
              else rle_loop (append_run d cur run_length) v 1 t
  end.
Definition uv_compress_run_length (vals : list N) : bvec :=
  match vals with [] => bempty | v :: t => rle_loop bempty v 1 t end.

(* self.data.clear(); compress_* *)
Definition uv_compress (vals : list N) (s : ustrategy) : ires bvec :=
  match s with
  | URaw => IOk {| bmem := raw_bytes32 vals; blen := 4 * nlen vals |}
  | UMinMax mn bw => uv_compress_min_max vals mn bw
  | URunLength => IOk (uv_compress_run_length vals)
  end.

(* ---------- reading ---------- *)
(* read_bits_fast; read_bits_slow is reached only with the condition it refuses *)
Definition uv_read_bits (d : bvec) (bit_offset bits : N) : ires N :=
  let byte_offset := bit_offset / 8 in
  let bit_in_byte := bit_offset mod 8 in
  if (blen d <=? byte_offset) || (32 <? bits) then IErr else
  let avail := N.min 8 (blen d - byte_offset) in
  let value := window d byte_offset avail in
  IOk (N.land (N.land (N.shiftr value bit_in_byte) (N.ones 32)) (N.ones bits)).

Definition uv_get_raw (d : bvec) (index : N) : option N :=
  if index * 4 + 4 <=? blen d then Some (window d (index * 4) 4) else None.

Definition add32 (a b : N) : ires N := if W32c <=? a + b then IPanic else IOk (a + b).

Definition uv_get_min_max (d : bvec) (index mn bw : N) : ires (option N) :=
  match uv_read_bits d (index * bw) bw with
  | IOk x => ibind (add32 mn x) (fun r => IOk (Some r))
  | IErr => IOk None
  | IPanic => IPanic
  | IOOB => IOOB
  end.

(* while byte_offset + 8 <= data.len() { ... } *)
Fixpoint uv_get_run_length (d : bvec) (index current_index byte_offset : N) (fuel : nat) : option N :=
  match fuel with
  | O => None
  | S k =>
      if byte_offset + 8 <=? blen d then
        let value := window d byte_offset 4 in
        let length := window d (byte_offset + 4) 4 in
        if index <? current_index + length then Some value
        else uv_get_run_length d index (current_index + length) (byte_offset + 8) k
      else None
  end.

Definition uv_get_compressed (s : ustrategy) (d : bvec) (index : N) : ires (option N) :=
  match s with
  | URaw => IOk (uv_get_raw d index)
  | UMinMax mn bw => uv_get_min_max d index mn bw
  | URunLength => IOk (uv_get_run_length d index 0 0 (S (N.to_nat (blen d / 8))))
  end.

Definition uv_get (v : uvec) (index : N) : ires (option N) :=
  if ulen v <=? index then IOk None else
  let in_temp := match utemp v with
                 | [] => false
                 | _ => ulen v - nlen (utemp v) <=? index
                 end in
  if in_temp then IOk (nth_error (utemp v) (N.to_nat (index - (ulen v - nlen (utemp v)))))
  else uv_get_compressed (ustrat v) (udata v) index.

(* ---------- construction ---------- *)
Definition uv_build_with (s : ustrategy) (vals : list N) : ires uvec :=
  ibind (uv_compress vals s) (fun d => IOk {| ustrat := s; udata := d; ulen := nlen vals; utemp := [] |}).

Definition uv_build_from (fc : fcmp) (vals : list N) : ires uvec :=
  match vals with
  | [] => IOk uv_new
  | _ => uv_build_with (uv_analyze fc vals) vals
  end.

(* for i in 0..cnt { if let Some(val) = get_x(i) { all_values.push(val) } } *)
Fixpoint uv_extract (s : ustrategy) (d : bvec) (i : N) (cnt : nat) : ires (list N) :=
  match cnt with
  | O => IOk []
  | S k =>
      ibind (uv_get_compressed s d i) (fun o =>
      ibind (uv_extract s d (i + 1) k) (fun rest =>
      IOk (match o with Some x => x :: rest | None => rest end)))
  end.

Definition uv_recompress_all (fc : fcmp) (v : uvec) : ires uvec :=
  match utemp v with
  | [] => IOk v
  | _ =>
      ibind (uv_extract (ustrat v) (udata v) 0 (N.to_nat (ulen v - nlen (utemp v)))) (fun old =>
      let all_values := old ++ utemp v in
      let s := uv_analyze fc all_values in
      ibind (uv_compress all_values s) (fun d =>
      IOk {| ustrat := s; udata := d; ulen := ulen v; utemp := [] |}))
  end.

Definition uv_push (fc : fcmp) (v : uvec) (value : N) : ires uvec :=
  let v1 := {| ustrat := ustrat v; udata := udata v; ulen := ulen v + 1; utemp := utemp v ++ [value] |} in
  let tl := nlen (utemp v1) in
  if (tl mod 64 =? 0) || (1000 <? tl) then uv_recompress_all fc v1 else IOk v1.

Fixpoint uv_push_all (fc : fcmp) (v : uvec) (vals : list N) : ires uvec :=
  match vals with
  | [] => IOk v
  | x :: t => ibind (uv_push fc v x) (fun v' => uv_push_all fc v' t)
  end.

(* ---------- when a strategy can represent a sequence ---------- *)
Definition ucovers (s : ustrategy) (vals : list N) : Prop :=
  match s with
  | URaw => True
  | UMinMax mn bw => 1 <= bw <= 32 /\ Forall (fun v => mn <= v /\ v - mn < 2 ^ bw) vals
  | URunLength => True
  end.

(* ---------- observation compared with the implementation by the harness ---------- *)
Definition obs_uget (r : ires (option N)) : list Z :=
  match r with IOk (Some v) => [0%Z; Z.of_N v] | IOk None => [1%Z] | IErr => [2%Z] | IPanic => [(-1)%Z] | IOOB => [(-2)%Z] end.

(* the exact rational comparisons in place of the f64 ones *)
Definition fcmp_exact : fcmp := {| lt08 := fun a b => 5 * a <? 4 * b; gt05 := fun a b => b <? 2 * a |}.

(* by_push = false: build_from, all gets; by_push = true: push one by one, after the pushes listed in `probes`
   (k, j): len, get(j), get(k+1) with k+1 pushes done; then all gets *)
Fixpoint uv_push_obs (v : uvec) (vals : list N) (k : N) (probes : list (N * N)) : ires uvec * list (list Z) :=
  match vals with
  | [] => (IOk v, [])
  | x :: t =>
      match uv_push fcmp_exact v x with
      | IOk v' =>
          let here := filter (fun p => fst p =? k) probes in
          let o := map (fun p => Z.of_N (ulen v') :: obs_uget (uv_get v' (snd p)) ++ obs_uget (uv_get v' (k + 1))) here in
          let '(r, os) := uv_push_obs v' t (k + 1) probes in (r, o ++ os)
      | e => (e, [])
      end
  end.

Definition uintvector_obs (by_push : bool) (vals : list N) (probes : list (N * N)) (idx : list N) : list (list Z) :=
  let '(built, mids) := if by_push then uv_push_obs uv_new vals 0 probes else (uv_build_from fcmp_exact vals, []) in
  match built with
  | IOk v => [0%Z; Z.of_N (ulen v); Z.of_N (blen (udata v) + 4 * nlen (utemp v))] :: mids   (* stats().1 *) ++ map (fun i => obs_uget (uv_get v i)) idx
  | IErr => [[1%Z]]
  | IPanic => [[(-1)%Z]]
  | IOOB => [[(-2)%Z]]
  end.
