(* C09: the case type evaluated by the harness-generated shards, and the checker `ok`.
   One constructor per modelled container.  Definitions only. *)
From ZV.Common Require Import Base Run.
From ZV.C09 Require Import Model ModelSorted.
Open Scope N_scope.

Fixpoint eqb_llz (a b : list (list Z)) : bool :=
  match a, b with
  | [], [] => true
  | x :: a', y :: b' => eqb_lz x y && eqb_llz a' b'
  | _, _ => false
  end.

Inductive case_t : Type :=
| CMin0 (ops : list (N * list N)) (expect : list (list Z))
| CSorted (log2 ow sw : N) (simd : bool) (vals : list N) (expect : list (list Z)).

Definition ok (c : case_t) : bool :=
  match c with
  | CMin0 ops expect => eqb_llz (run_ops empty ops) expect
  | CSorted l o s sd vals expect =>
      eqb_llz (sorted_obs {| log2bu := l; ow := o; sw := s; simd := sd |} vals) expect
  end.
