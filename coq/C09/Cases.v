(* C09: the case type evaluated by the harness-generated shards, and the checker `ok`.
   One constructor per modelled container.  Definitions only. *)
From ZV.Common Require Import Base Run.
From ZV.C09 Require Import Model ModelSorted ModelIntVec ModelUintVector ModelMin0Typed.
Open Scope N_scope.

Fixpoint eqb_llz (a b : list (list Z)) : bool :=
  match a, b with
  | [], [] => true
  | x :: a', y :: b' => eqb_lz x y && eqb_llz a' b'
  | _, _ => false
  end.

Inductive case_t : Type :=
| CMin0 (ops : list (N * list N)) (expect : list (list Z))
| CSorted (log2 ow sw : N) (simd : bool) (vals : list N) (expect : list (list Z))
| CZip (mode : N) (vals : list N) (expect : list (list Z))
| CIntVec (ctor tbits : N) (signed : bool) (vals : list Z) (idx : list N) (expect : list (list Z))
| CUintVec (by_push : bool) (vals : list N) (probes : list (N * N)) (idx : list N) (expect : list (list Z))
| CMin0Typed (signed : bool) (vals : list Z) (expect : list (list Z)).

(* ZipIntVec: modes 0 build_from_usize, 2 build_from_u32, 1 new(0,min,max(max,min+1)) + push_back, 3 new(0,min,min+1) + push_back;
   observation: [0; size; bits; min_val], get(n), get(n+1), get(usize::MAX), then all gets; Panic = -1, OOB = -2 *)
Definition obs_o (o : outcome N) : list Z :=
  match o with Ok v => [0%Z; Z.of_N v] | Panic => [(-1)%Z] | OOB => [(-2)%Z] end.
Definition zip_obs (mode : N) (vals : list N) : list (list Z) :=
  let mn := list_min vals in
  let mx := list_max vals in
  let built := match mode with
               | 1 => zip_build_push mn (N.max mx (mn + 1)) vals
               | 3 => zip_build_push mn (mn + 1) vals
               | _ => zip_build_from vals
               end in
  match built with
  | Ok z =>
      let n := nlen vals in
      [0%Z; Z.of_N (size (inner z)); Z.of_N (bits (inner z)); Z.of_N (min_val z)]
      :: map (fun i => obs_o (zip_get z i)) [n; n + 1; W64 - 1]
      ++ [map (fun i => match zip_get z i with Ok v => Z.of_N v | Panic => (-1)%Z | OOB => (-2)%Z end) (upto (length vals))]
  | Panic => [[(-1)%Z]]
  | OOB => [[(-2)%Z]]
  end.

Definition ok (c : case_t) : bool :=
  match c with
  | CMin0 ops expect => eqb_llz (run_ops empty ops) expect
  | CSorted l o s sd vals expect =>
      eqb_llz (sorted_obs {| log2bu := l; ow := o; sw := s; simd := sd |} vals) expect
  | CZip mode vals expect => eqb_llz (zip_obs mode vals) expect
  | CIntVec ctor tb sg vals idx expect =>
      eqb_llz (intvec_obs ctor {| ebits := tb; esigned := sg |} vals idx) expect
  | CUintVec by_push vals probes idx expect => eqb_llz (uintvector_obs by_push vals probes idx) expect
  | CMin0Typed sg vals expect => eqb_llz (min0typed_obs sg vals) expect
  end.
