(* C09: ZipIntVec = min_val + UintVecMin0; bulk build returns every element (reuses the UintVecMin0 theorems). *)
From ZV.Common Require Import Base.
From ZV.C09 Require Import Model ProofsBits ProofsVec.
Open Scope N_scope.

Lemma zip_set_all_spec : forall vals z i,
  wf (inner z) -> i + nlen vals <= size (inner z) ->
  Forall (fun v => min_val z <= v /\ v - min_val z <= mask (inner z) /\ v < W64) vals ->
  exists z', zip_set_all z i vals = Ok z' /\ min_val z' = min_val z /\
             set_all (inner z) i (map (fun x => x - min_val z) vals) = Ok (inner z').
Proof.
  induction vals as [|v vals IH]; intros z i Hwf Hlen Hall.
  - exists z. cbn [zip_set_all set_all map]. repeat split; reflexivity.
  - cbn [nlen] in Hlen. inversion Hall as [|? ? (Hge & Hle & H64) Hall']; subst.
    cbn [zip_set_all map set_all]. unfold zip_set.
    replace (v <? min_val z) with false by (symmetry; apply N.ltb_ge; exact Hge).
    replace (N.min (W64 - 1) (min_val z + mask (inner z)) <? v) with false by (symmetry; apply N.ltb_ge; lia).
    assert (Hi : i < size (inner z)) by lia.
    destruct (set_ok (inner z) i (v - min_val z) Hwf Hi Hle) as [m1 Hset].
    destruct (set_spec _ _ _ _ Hwf Hi Hle Hset) as (Hwf1 & Hsz1 & Hb1 & _).
    assert (Hmask1 : mask m1 = mask (inner z)).
    { destruct Hwf1 as (_ & Hm1 & _). destruct Hwf as (_ & Hm & _). rewrite Hm1, Hm, Hb1. reflexivity. }
    rewrite Hset. cbn [bind].
    destruct (IH {| inner := m1; min_val := min_val z |} (i + 1)) as (z' & Hz & Hmn & Hsa); cbn [inner min_val].
    + exact Hwf1.
    + rewrite Hsz1. lia.
    + rewrite Hmask1. exact Hall'.
    + exists z'. split; [exact Hz|]. split; [exact Hmn|exact Hsa].
Qed.

(* shared tail of both branches of build_from_usize *)
Lemma zip_fill_get z0 src mn :
  wf (inner z0) -> size (inner z0) = nlen src -> min_val z0 = mn -> mem (inner z0) = mem (inner z0) ->
  Forall (fun v => mn <= v /\ v - mn <= mask (inner z0) /\ v < W64) src ->
  exists z, zip_set_all z0 0 src = Ok z /\ size (inner z) = nlen src /\
    (forall i, (i < length src)%nat -> zip_get z (N.of_nat i) = Ok (nth i src 0)) /\
    (forall i, nlen src <= i -> zip_get z i = Panic).
Proof.
  intros Hwf Hsz Hmn _ Hall. subst mn.
  destruct (zip_set_all_spec src z0 0 Hwf ltac:(lia) Hall) as (z & Hz & Hmn & Hsa).
  assert (Hall' : Forall (fun v => v <= mask (inner z0)) (map (fun x => x - min_val z0) src)).
  { apply Forall_forall. intros y Hy. apply in_map_iff in Hy. destruct Hy as (x & <- & Hx).
    rewrite Forall_forall in Hall. apply (Hall x Hx). }
  destruct (set_all_spec (map (fun x => x - min_val z0) src) (inner z0) 0 Hwf) as (m' & Hsa' & Hwf' & Hsz' & _ & Hh & _).
  { rewrite nlen_length, map_length, <- nlen_length. lia. }
  { exact Hall'. }
  rewrite Hsa in Hsa'. injection Hsa' as Heq.
  exists z. split; [exact Hz|]. split; [rewrite Heq, Hsz', Hsz; reflexivity|]. split.
  - intros i Hi. unfold zip_get. rewrite Heq.
    rewrite get_field by (try assumption; rewrite Hsz', Hsz, nlen_length; lia).
    specialize (Hh i). rewrite map_length in Hh. specialize (Hh Hi).
    replace (0 + N.of_nat i) with (N.of_nat i) in Hh by lia. rewrite Hh. cbn [bind].
    rewrite (nth_indep _ 0 ((fun x => x - min_val z0) 0)) by (rewrite map_length; exact Hi).
    rewrite (map_nth (fun x => x - min_val z0)). rewrite Hmn.
    rewrite Forall_forall in Hall. destruct (Hall (nth i src 0) (nth_In _ _ Hi)) as (Hge & _ & H64).
    replace (min_val z0 + (nth i src 0 - min_val z0)) with (nth i src 0) by lia.
    replace (W64 <=? nth i src 0) with false by (symmetry; apply N.leb_gt; exact H64). reflexivity.
  - intros i Hi. unfold zip_get. rewrite Heq. rewrite get_out_of_range by (rewrite Hsz', Hsz; exact Hi). reflexivity.
Qed.

Theorem zip_build_get_proof src :
  src <> [] -> Forall (fun v => v < W64) src -> list_max src - list_min src < 2 ^ 58 ->
  exists z, zip_build_from src = Ok z /\ size (inner z) = nlen src /\
    (forall i, (i < length src)%nat -> zip_get z (N.of_nat i) = Ok (nth i src 0)) /\
    (forall i, nlen src <= i -> zip_get z i = Panic).
Proof.
  intros Hne H64 Hrange. unfold zip_build_from. destruct src as [|s0 rest] eqn:Hsrc; [congruence|]. rewrite <- Hsrc in *.
  assert (Hbounds : forall x, In x src -> list_min src <= x <= list_max src).
  { intros x Hx. split; [apply list_min_le|apply list_max_ge]; exact Hx. }
  destruct (N.eqb_spec (list_min src) (list_max src)) as [Heq|Hneq].
  - (* all elements equal *)
    destruct (new_spec (nlen src) 1 ltac:(cbn; lia)) as (m0 & Hnew & Hwf0 & Hsz0 & Hmx & _).
    rewrite Hnew. cbn [bind].
    assert (Hsame : map (fun _ => list_min src) src = src).
    { rewrite <- (map_id src) at 2. apply map_ext_in. intros x Hx. pose proof (Hbounds x Hx). lia. }
    rewrite Hsame.
    apply (zip_fill_get {| inner := m0; min_val := list_min src |} src (list_min src)); cbn [inner min_val]; try assumption; try reflexivity.
    apply Forall_forall. intros x Hx. pose proof (Hbounds x Hx). rewrite Forall_forall in H64. specialize (H64 x Hx). repeat split; lia.
  - assert (Hlt : list_min src < list_max src).
    { pose proof (Hbounds s0 ltac:(rewrite Hsrc; left; reflexivity)). lia. }
    unfold zip_new. replace (list_max src <=? list_min src) with false by (symmetry; apply N.leb_gt; exact Hlt).
    destruct (new_spec (nlen src) (list_max src - list_min src) Hrange) as (m0 & Hnew & Hwf0 & Hsz0 & Hmx & _).
    rewrite Hnew. cbn [bind].
    apply (zip_fill_get {| inner := m0; min_val := list_min src |} src (list_min src)); cbn [inner min_val]; try assumption; try reflexivity.
    apply Forall_forall. intros x Hx. pose proof (Hbounds x Hx). rewrite Forall_forall in H64. specialize (H64 x Hx). repeat split; lia.
Qed.

(* the hypotheses are satisfiable, also at the top of the usize range (the repaired overflow) *)
Example zip_example :
  exists z, zip_build_from [W64 - 3; W64 - 1; W64 - 2] = Ok z /\ zip_get z 1 = Ok (W64 - 1) /\ zip_get z 3 = Panic.
Proof. eexists. split; [vm_compute; reflexivity|]. split; vm_compute; reflexivity. Qed.
Example zip_example_all_max :
  exists z, zip_build_from [W64 - 1; W64 - 1] = Ok z /\ zip_get z 0 = Ok (W64 - 1).
Proof. eexists. split; [vm_compute; reflexivity|]. vm_compute; reflexivity. Qed.
