(* C09 mechanism model: src/containers/uint_vec_min0.rs (UintVecMin0) and
   src/containers/zip_int_vec.rs (ZipIntVec) as written.
   The byte vector `data` is represented by its length `memlen` and the little-endian
   number `mem` it denotes (byte i = (mem / 256^i) mod 256) - a bijection with byte lists
   of that length; unaligned 64-bit loads/stores are windows of that number.
   usize is 64 bits.  Partial operations return an outcome: Panic (assert/overflow) or
   OOB (access past `data`, undefined behaviour in the real code).  Definitions only. *)
From ZV.Common Require Import Base.
Open Scope N_scope.

Inductive outcome (A : Type) : Type :=
| Ok (a : A)
| Panic
| OOB.
Arguments Ok {A} a.
Arguments Panic {A}.
Arguments OOB {A}.

Definition bind {A B} (o : outcome A) (f : A -> outcome B) : outcome B :=
  match o with Ok a => f a | Panic => Panic | OOB => OOB end.

Record min0 := { mem : N; memlen : N; bits : N; mask : N; size : N }.

Definition ones64 : N := N.ones 64.
Definition trunc64 (x : N) : N := N.land x ones64.

(* 64 - leading_zeros, 0 for 0 *)
Definition compute_uintbits (v : N) : N := N.size v.

(* ((bits*num + 7)/8 + 7 + 15) & !15 *)
Definition compute_mem_size (bits num : N) : outcome N :=
  if 64 <? bits then Panic
  else Ok (((bits * num + 7) / 8 + 7 + 15) / 16 * 16).

(* std::ptr::read_unaligned(data.as_ptr().add(byte_idx) as *const usize) *)
Definition load64 (m : min0) (byte_idx : N) : outcome N :=
  if memlen m <? byte_idx + 8 then OOB
  else Ok (N.land (N.shiftr (mem m) (8 * byte_idx)) ones64).

Definition store64 (m : min0) (byte_idx v : N) : outcome min0 :=
  if memlen m <? byte_idx + 8 then OOB
  else Ok {| mem := N.lor (N.ldiff (mem m) (N.shiftl ones64 (8 * byte_idx)))
                           (N.shiftl (trunc64 v) (8 * byte_idx));
             memlen := memlen m; bits := bits m; mask := mask m; size := size m |}.

Definition fast_get_internal (m : min0) (idx : N) : outcome N :=
  let bit_idx := bits m * idx in
  bind (load64 m (bit_idx / 8)) (fun v =>
  Ok (N.land (N.shiftr v (bit_idx mod 8)) (mask m))).

Definition get (m : min0) (idx : N) : outcome N :=
  if size m <=? idx then Panic
  else if 58 <? bits m then Panic
  else fast_get_internal m idx.

(* set_uint_bits: only the single-word path is modelled; the byte-wise path
   (bit_offset + bits > 64, reachable only for bits >= 58) is reported as Panic-free
   "unmodelled" by returning OOB so that no theorem can rely on it *)
Definition set_uint_bits (m : min0) (bit_pos nbits val : N) : outcome min0 :=
  if nbits =? 0 then Ok m else
  let byte_idx := bit_pos / 8 in
  let off := bit_pos mod 8 in
  if off + nbits <=? 64 then
    let fmask := if nbits =? 64 then ones64 else N.ones nbits in
    let shifted_val := trunc64 (N.shiftl val off) in
    let shifted_mask := trunc64 (N.shiftl fmask off) in
    bind (load64 m byte_idx) (fun cur =>
    store64 m byte_idx (N.lor (N.ldiff cur shifted_mask) shifted_val))
  else OOB.

Definition set_wire (m : min0) (idx val : N) : outcome min0 :=
  set_uint_bits m (bits m * idx) (bits m) val.

Definition set (m : min0) (idx val : N) : outcome min0 :=
  if size m <=? idx then Panic
  else if mask m <? val then Panic
  else if 64 <? bits m then Panic
  else set_wire m idx val.

(* data.resize(n, 0) / truncate on the number representation *)
Definition data_resize (m : min0) (n : N) : min0 :=
  {| mem := N.land (mem m) (N.ones (8 * n)); memlen := n;
     bits := bits m; mask := mask m; size := size m |}.

Definition empty : min0 := {| mem := 0; memlen := 0; bits := 0; mask := 0; size := 0 |}.

Definition resize_with_uintbits (m : min0) (num b : N) : outcome min0 :=
  if 64 <? b then Panic
  else if b =? 64 then Panic   (* (1usize << 64) - 1 overflows in the checked profile *)
  else bind (compute_mem_size b num) (fun ms =>
       Ok {| mem := N.land (mem m) (N.ones (8 * ms)); memlen := ms;
             bits := b; mask := N.ones b; size := num |}).

Definition new (num max_val : N) : outcome min0 :=
  resize_with_uintbits empty num (compute_uintbits max_val).

Definition resize (m : min0) (new_size : N) : outcome min0 :=
  bind (compute_mem_size (bits m) new_size) (fun ms =>
  let m' := if memlen m <? ms then data_resize m ms else m in
  Ok {| mem := mem m'; memlen := memlen m'; bits := bits m'; mask := mask m'; size := new_size |}).

Fixpoint copy_into (n : nat) (src dst : min0) : outcome min0 :=
  match n with
  | O => Ok dst
  | S k => bind (copy_into k src dst) (fun d =>
           bind (get src (N.of_nat k)) (fun v => set d (N.of_nat k) v))
  end.

Definition push_back (m : min0) (val : N) : outcome min0 :=
  bind (compute_mem_size (bits m) (size m + 1)) (fun need =>
  if (need <=? memlen m) && (val <=? mask m) then
    bind (set_wire m (size m) val) (fun m' =>
    Ok {| mem := mem m'; memlen := memlen m'; bits := bits m'; mask := mask m'; size := size m + 1 |})
  else
    let new_bits := compute_uintbits (N.max val (mask m)) in
    if bits m <? new_bits then
      bind (new (size m + 1) val) (fun nv =>
      bind (copy_into (N.to_nat (size m)) m nv) (fun nv' => set nv' (size m) val))
    else
      bind (resize m (size m + 1)) (fun m' => set m' (size m' - 1) val)).

Fixpoint set_all (m : min0) (i : N) (vals : list N) : outcome min0 :=
  match vals with
  | [] => Ok m
  | v :: t => bind (set m i v) (fun m' => set_all m' (i + 1) t)
  end.

Definition list_min (l : list N) : N := fold_right N.min (hd 0 l) l.
Definition list_max (l : list N) : N := fold_right N.max 0 l.

(* build_from_usize *)
Definition build_from (src : list N) : outcome (min0 * N) :=
  match src with
  | [] => Ok (empty, 0)
  | _ =>
      let mn := list_min src in
      let mx := list_max src in
      bind (new (nlen src) (mx - mn)) (fun v =>
      bind (set_all v 0 (map (fun x => x - mn) src)) (fun v' => Ok (v', mn)))
  end.

Fixpoint push_all (m : min0) (vals : list N) : outcome min0 :=
  match vals with
  | [] => Ok m
  | v :: t => bind (push_back m v) (fun m' => push_all m' t)
  end.

Fixpoint get_all (m : min0) (n : nat) : outcome (list N) :=
  match n with
  | O => Ok []
  | S k => bind (get_all m k) (fun l => bind (get m (N.of_nat k)) (fun v => Ok (l ++ [v])))
  end.

(* ---------- ZipIntVec ---------- *)
Record zipvec := { inner : min0; min_val : N }.

Definition zip_new (num mn mx : N) : outcome zipvec :=
  if mx <=? mn then Panic
  else bind (new num (mx - mn)) (fun v => Ok {| inner := v; min_val := mn |}).

Definition zip_get (z : zipvec) (idx : N) : outcome N :=
  bind (get (inner z) idx) (fun v =>
  if W64 <=? min_val z + v then Panic else Ok (min_val z + v)).

(* set: max_val = min_val.saturating_add(uintmask) *)
Definition zip_set (z : zipvec) (idx val : N) : outcome zipvec :=
  if val <? min_val z then Panic
  else if N.min (W64 - 1) (min_val z + mask (inner z)) <? val then Panic
  else bind (set (inner z) idx (val - min_val z)) (fun v => Ok {| inner := v; min_val := min_val z |}).

Fixpoint zip_set_all (z : zipvec) (i : N) (vals : list N) : outcome zipvec :=
  match vals with
  | [] => Ok z
  | v :: t => bind (zip_set z i v) (fun z' => zip_set_all z' (i + 1) t)
  end.

(* build_from_usize; the all-equal branch builds its one-bit store directly (UintVecMin0::new(len, 1)) *)
Definition zip_build_from (src : list N) : outcome zipvec :=
  match src with
  | [] => Ok {| inner := empty; min_val := 0 |}
  | _ =>
      let mn := list_min src in
      let mx := list_max src in
      if mn =? mx then
        bind (new (nlen src) 1) (fun v => zip_set_all {| inner := v; min_val := mn |} 0 (map (fun _ => mn) src))
      else bind (zip_new (nlen src) mn mx) (fun z => zip_set_all z 0 src)
  end.

Definition zip_push_back (z : zipvec) (val : N) : outcome zipvec :=
  if val <? min_val z then Panic
  else bind (push_back (inner z) (val - min_val z)) (fun v => Ok {| inner := v; min_val := min_val z |}).

Fixpoint zip_push_all (z : zipvec) (vals : list N) : outcome zipvec :=
  match vals with
  | [] => Ok z
  | v :: t => bind (zip_push_back z v) (fun z' => zip_push_all z' t)
  end.

(* ZipIntVec::new(0, mn, mx); resize(0); push_back every value *)
Definition zip_build_push (mn mx : N) (src : list N) : outcome zipvec :=
  bind (zip_new 0 mn mx) (fun z =>
  bind (resize (inner z) 0) (fun v => zip_push_all {| inner := v; min_val := min_val z |} src)).

(* ---------- correspondence: a history of operations on one UintVecMin0 ---------- *)
(* op codes: 0 new(num,max) 1 set(i,v) 2 get(i) 3 push_back(v) 4 resize(n) 5 clear
   6 build_from(args) 7 dump.  Observation per op: list Z; Panic = [-1], OOB = [-2] *)
Definition obs_state (m : min0) : list Z :=
  [Z.of_N (size m); Z.of_N (bits m); Z.of_N (memlen m); Z.of_N (mem m)].

Definition step (m : min0) (op : N) (args : list N) : min0 * list Z :=
  let a0 := nth 0 args 0 in
  let a1 := nth 1 args 0 in
  let upd (o : outcome min0) : min0 * list Z :=
    match o with Ok m' => (m', [0%Z]) | Panic => (m, [(-1)%Z]) | OOB => (m, [(-2)%Z]) end in
  match op with
  | 0 => upd (new a0 a1)
  | 1 => upd (set m a0 a1)
  | 2 => match get m a0 with Ok v => (m, [0%Z; Z.of_N v]) | Panic => (m, [(-1)%Z]) | OOB => (m, [(-2)%Z]) end
  | 3 => upd (push_back m a0)
  | 4 => upd (resize m a0)
  | 5 => (empty, [0%Z])
  | 6 => match build_from args with
         | Ok (m', mn) => (m', [0%Z; Z.of_N mn])
         | Panic => (m, [(-1)%Z]) | OOB => (m, [(-2)%Z]) end
  | _ => (m, obs_state m)
  end.

Fixpoint run_ops (m : min0) (ops : list (N * list N)) : list (list Z) :=
  match ops with
  | [] => []
  | (op, args) :: t => let '(m', o) := step m op args in o :: run_ops m' t
  end.
