(* C09: IntVec<T> - the signed/unsigned mapping, the any-strategy theorem on typed values, and the three constructors. *)
From ZV.Common Require Import Base.
From ZV.C09 Require Import Model ProofsBits ProofsVec ModelSorted ModelIntVec ProofsIntVecBits ProofsIntVecPack
  ProofsIntVecGet ProofsIntVecAnalysis.
Open Scope N_scope.

Ltac pow_lits :=
  repeat match goal with
  | |- context [N.pow 2 ?k] => let v := eval vm_compute in (N.pow 2 k) in progress change (N.pow 2 k) with v
  | H : context [N.pow 2 ?k] |- _ => let v := eval vm_compute in (N.pow 2 k) in progress change (N.pow 2 k) with v in H
  | |- context [Z.pow 2 ?k] => let v := eval vm_compute in (Z.pow 2 k) in progress change (Z.pow 2 k) with v
  | |- context [N.sub ?a ?b] => let v := eval vm_compute in (N.sub a b) in progress change (N.sub a b) with v
  | H : context [N.sub ?a ?b] |- _ => let v := eval vm_compute in (N.sub a b) in progress change (N.sub a b) with v in H
  end.

(* `v as u64` then `as T` is the identity on every value of the type, for the eight element types *)
Lemma to_u64_lt z : to_u64 z < W64.
Proof. unfold to_u64, W64. assert (2 ^ 64 = 18446744073709551616)%Z by reflexivity. lia. Qed.

Lemma from_to_u64 t z : ety_ok t -> in_ty t z -> from_u64 t (to_u64 z) = z.
Proof.
  intros Hok Hin. destruct t as [b s]. unfold ety_ok, in_ty, from_u64, to_u64 in *. cbn [ebits esigned] in *.
  assert (H64 : (2 ^ 64 = 18446744073709551616)%Z) by reflexivity. rewrite H64.
  destruct Hok as [-> | [-> | [-> | ->]]]; destruct s; cbn [andb] in *; pow_lits;
    try (match goal with |- context [N.leb ?a ?b] => destruct (N.leb_spec a b) end); lia.
Qed.

Lemma map_from_to t xs : ety_ok t -> Forall (in_ty t) xs -> Forall (fun v => v < W64) (map to_u64 xs).
Proof. intros _ _. apply Forall_forall. intros v Hv. apply in_map_iff in Hv. destruct Hv as (z & <- & _). apply to_u64_lt. Qed.

Theorem intvec_any_strategy_proof (simd : bool) t s xs :
  ety_ok t -> Forall (in_ty t) xs -> covers s (map to_u64 xs) ->
  exists v, iv_build simd s (map to_u64 xs) = IOk v /\ ilen v = nlen xs /\
    (forall i, (i < length xs)%nat -> iv_get t v (N.of_nat i) = IOk (Some (nth i xs 0%Z))) /\
    (forall i, nlen xs <= i -> iv_get t v i = IOk None).
Proof.
  intros Hok Hty Hcov.
  destruct (iv_build_get simd s (map to_u64 xs) (map_from_to t xs Hok Hty) Hcov) as (v & Hb & Hl & Hg & Hp).
  exists v. split; [exact Hb|]. rewrite nlen_map in Hl, Hp. split; [exact Hl|]. split.
  - intros i Hi. unfold iv_get. rewrite Hg by (rewrite map_length; exact Hi). cbn [ibind option_map]. f_equal. f_equal.
    rewrite (nth_indep _ 0 (to_u64 0%Z)) by (rewrite map_length; exact Hi). rewrite map_nth.
    apply from_to_u64; [exact Hok|]. rewrite Forall_forall in Hty. apply Hty. apply nth_In. exact Hi.
  - intros i Hi. unfold iv_get. rewrite Hp by exact Hi. reflexivity.
Qed.

Theorem intvec_analysis_widths_cover_proof vals : Forall (fun v => v < W64) vals ->
  covers (analyze_small_dataset_strategy vals) vals /\
  covers (analyze_fast_strategy vals) vals /\
  (forall ratio_cmp, covers (analyze_optimal_strategy ratio_cmp vals) vals) /\
  (vals <> [] -> covers (analyze_min_max (fst (range_bulk vals)) (snd (range_bulk vals))) vals) /\
  (forall srt, covers (analyze_block_based vals srt) vals) /\
  covers (analyze_delta vals) vals /\
  (forall ud dw, detect_uniform_delta vals = Some ud -> covers (SDelta (hd 0 vals) dw true (Some ud)) vals).
Proof.
  intros H64. split; [apply covers_small; exact H64|]. split; [apply covers_fast; exact H64|].
  split; [intros c; apply covers_optimal; exact H64|]. split.
  - intros Hne. destruct (range_bulk vals) as [mn mx] eqn:Hr. cbn [fst snd].
    apply (covers_min_max vals mn mx H64 Hne Hr).
  - split; [intros srt; apply covers_block; exact H64|]. split; [apply covers_delta|].
    intros ud dw H. apply covers_uniform. exact H.
Qed.

(* the three public constructors: whatever the (floating-point) ratio comparison of the full analysis answers *)
Theorem intvec_construct_get_proof ctor ratio_cmp t xs :
  ety_ok t -> Forall (in_ty t) xs ->
  exists v, iv_construct ctor ratio_cmp t xs = IOk v /\ ilen v = nlen xs /\
    (forall i, (i < length xs)%nat -> iv_get t v (N.of_nat i) = IOk (Some (nth i xs 0%Z))) /\
    (forall i, nlen xs <= i -> iv_get t v i = IOk None).
Proof.
  intros Hok Hty.
  assert (Hempty : exists v, IOk iv_new = IOk v /\ ilen v = nlen (@nil Z) /\
            (forall i, (i < length (@nil Z))%nat -> iv_get t v (N.of_nat i) = IOk (Some (nth i (@nil Z) 0%Z))) /\
            (forall i, nlen (@nil Z) <= i -> iv_get t v i = IOk None)).
  { exists iv_new. split; [reflexivity|]. split; [reflexivity|]. split; [intros i Hi; cbn in Hi; lia|].
    intros i _. unfold iv_get. rewrite get64_past by (cbn; lia). reflexivity. }
  pose proof (map_from_to t xs Hok Hty) as H64.
  destruct (intvec_analysis_widths_cover_proof _ H64) as (Hs & Hf & Ho & _).
  assert (Hfs : exists v, from_slice ratio_cmp t xs = IOk v /\ ilen v = nlen xs /\
            (forall i, (i < length xs)%nat -> iv_get t v (N.of_nat i) = IOk (Some (nth i xs 0%Z))) /\
            (forall i, nlen xs <= i -> iv_get t v i = IOk None)).
  { unfold from_slice. destruct xs as [|x xs']; [exact Hempty|].
    match goal with |- context [if ?c then _ else _] => destruct c end;
      apply intvec_any_strategy_proof; auto. }
  unfold iv_construct.
  assert (Hsimd : exists v, from_slice_bulk_simd ratio_cmp t xs = IOk v /\ ilen v = nlen xs /\
            (forall i, (i < length xs)%nat -> iv_get t v (N.of_nat i) = IOk (Some (nth i xs 0%Z))) /\
            (forall i, nlen xs <= i -> iv_get t v i = IOk None)).
  { unfold from_slice_bulk_simd, from_slice_bulk. destruct xs as [|x xs'] eqn:Hxs; [exact Hempty|]. rewrite <- Hxs in *.
    destruct (nlen xs <=? 64); [exact Hfs|]. destruct (nlen xs <=? 2048); [|exact Hfs].
    apply intvec_any_strategy_proof; auto. }
  destruct ctor as [|[p|p|]]; try exact Hfs; destruct p; try exact Hfs; exact Hsimd.
Qed.

(* the hypotheses are inhabited: a signed sequence with both extremes, a forced block layout with a short last block *)
Example intvec_example_i8 :
  let t := {| ebits := 8; esigned := true |} in
  let xs := [(-128)%Z; 127%Z; 0%Z; (-1)%Z; 5%Z] in
  ety_ok t /\ Forall (in_ty t) xs /\ covers (SMinMax 0 64) (map to_u64 xs) /\
  map (fun i => iv_get t (match iv_build false (SMinMax 0 64) (map to_u64 xs) with IOk v => v | _ => iv_new end) i) [0; 1; 2; 3; 4; 5]
  = [IOk (Some (-128)%Z); IOk (Some 127%Z); IOk (Some 0%Z); IOk (Some (-1)%Z); IOk (Some 5%Z); IOk None].
Proof.
  cbv zeta. split; [left; reflexivity|]. split.
  - repeat (apply Forall_cons; [unfold in_ty; cbn [esigned ebits]; vm_compute; split; [discriminate|reflexivity]|]). apply Forall_nil.
  - split; [|vm_compute; reflexivity].
    cbn [covers]. split; [lia|]. cbn [map].
    repeat (apply Forall_cons; [split; [apply N.le_0_l|rewrite N.sub_0_r; apply lt_W64; apply to_u64_lt]|]). apply Forall_nil.
Qed.

Example intvec_example_block :
  let vals := map (fun k => 1000 * (N.of_nat k / 64) + N.of_nat k mod 7) (seq 0 70) in
  covers (SBlock 6 3 10 false) vals /\
  match iv_build true (SBlock 6 3 10 false) vals with
  | IOk v => iv_get64 v 69 = IOk (Some (nth 69 vals 0)) /\ iv_get64 v 70 = IOk None
  | _ => False
  end.
Proof.
  cbv zeta. split.
  - cbn [covers]. split; [lia|]. split; [lia|].
    match goal with |- Forall ?P ?l => let l' := eval vm_compute in l in change (Forall P l') end.
    repeat (apply Forall_cons; [split; [vm_compute; reflexivity|repeat (apply Forall_cons; [vm_compute; reflexivity|]); apply Forall_nil]|]).
    apply Forall_nil.
  - vm_compute. split; reflexivity.
Qed.

(* the analysis of a sorted, non-uniform i64 sequence across zero picks a width that covers (here: 63-bit min-max, the ninth-byte read) *)
Example intvec_example_analysis :
  let xs := [(-9223372036854775808)%Z; 1%Z; (-9223372036854775808)%Z; 9223372036854775807%Z] in
  analyze_small_dataset_strategy (map to_u64 xs) = SMinMax 1 63.
Proof. vm_compute. reflexivity. Qed.
