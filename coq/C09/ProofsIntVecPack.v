(* C09: IntVec - a write loop over a zeroed buffer produces the back-to-back packing of its (masked) fields, and the
   field at position i of such a packing is element i.  Every compress_* loop is such a write loop. *)
From ZV.Common Require Import Base.
From Coq Require Import Btauto.
From ZV.C09 Require Import Model ProofsBits ProofsVec ModelSorted ModelIntVec ProofsIntVecBits.
Open Scope N_scope.

(* fields of width w, back to back, each masked to w bits as the writers do *)
Fixpoint pack (w : N) (l : list N) : N :=
  match l with
  | [] => 0
  | v :: t => N.lor (N.land v (N.ones w)) (N.shiftl (pack w t) w)
  end.

Lemma pack_tb : forall l w i k, k < w ->
  N.testbit (pack w l) (w * N.of_nat i + k) = N.testbit (nth i l 0) k.
Proof.
  induction l as [|v l IH]; intros w i k Hk.
  - cbn [pack]. destruct i; cbn [nth]; rewrite !N.bits_0; reflexivity.
  - cbn [pack]. tb. destruct i as [|j]; cbn [nth].
    + replace (w * N.of_nat 0 + k) with k by lia.
      replace (k <? w) with true by (symmetry; apply N.ltb_lt; lia).
      replace (w <=? k) with false by (symmetry; apply N.leb_gt; lia). btauto.
    + replace (w * N.of_nat (S j) + k <? w) with false by (symmetry; apply N.ltb_ge; nia).
      replace (w <=? w * N.of_nat (S j) + k) with true by (symmetry; apply N.leb_le; nia).
      rewrite andb_false_r. cbn [orb andb]. rewrite <- (IH w j k Hk). f_equal. nia.
Qed.

Lemma pack_field l w i : field (pack w l) (w * N.of_nat i) w = N.land (nth i l 0) (N.ones w).
Proof.
  apply N.bits_inj. intros k. rewrite field_tb. tb.
  destruct (N.ltb_spec k w) as [Hk|Hk]; cbn [andb]; [|rewrite andb_false_r; reflexivity].
  rewrite andb_true_r. apply pack_tb. exact Hk.
Qed.

Lemma land_ones_small v w : v < 2 ^ w -> N.land v (N.ones w) = v.
Proof. intros H. rewrite N.land_ones. apply N.mod_small. exact H. Qed.

Lemma pack_nth l w i : Forall (fun v => v < 2 ^ w) l -> (i < length l)%nat ->
  field (pack w l) (w * N.of_nat i) w = nth i l 0.
Proof.
  intros Hall Hi. rewrite pack_field. apply land_ones_small.
  rewrite Forall_forall in Hall. apply Hall. apply nth_In. exact Hi.
Qed.

(* no bits at or above w * length *)
Lemma pack_high : forall l w n, w * nlen l <= n -> N.testbit (pack w l) n = false.
Proof.
  induction l as [|v l IH]; intros w n Hn; cbn [pack]; [apply N.bits_0|].
  cbn [nlen] in Hn. tb.
  replace (n <? w) with false by (symmetry; apply N.ltb_ge; nia). rewrite andb_false_r. cbn [orb].
  destruct (N.leb_spec w n); cbn [andb]; [|reflexivity]. apply IH. nia.
Qed.

(* ---------- write loops ---------- *)
Definition wr_ok (wr : writer) : Prop :=
  forall d v off w, 1 <= w <= 64 -> off + w <= 8 * blen d -> wr d v off w = IOk (orv d (N.land v (N.ones w)) off).

Lemma wr_ok_plain : wr_ok write_bits.
Proof. exact write_bits_spec. Qed.
Lemma wr_ok_bulk : wr_ok write_bits_bulk.
Proof. exact write_bits_bulk_spec. Qed.

Lemma orv_orv d a b off w :
  orv (orv d (N.land a (N.ones w)) off) b (off + w) = orv d (N.lor (N.land a (N.ones w)) (N.shiftl b w)) off.
Proof.
  apply bvec_eq; [|reflexivity]. unfold orv; cbn [bmem].
  rewrite N.shiftl_lor, N.shiftl_shiftl, N.lor_assoc, (N.add_comm w off). reflexivity.
Qed.

Lemma orv_zero d off : orv d 0 off = d.
Proof. apply bvec_eq; [|reflexivity]. unfold orv; cbn [bmem]. rewrite N.shiftl_0_l, N.lor_0_r. reflexivity. Qed.

Lemma seq_loop_spec wr : wr_ok wr -> forall fields d w off,
  1 <= w <= 64 -> off + w * nlen fields <= 8 * blen d ->
  seq_loop wr d fields w off = IOk (orv d (pack w fields) off).
Proof.
  intros Hwr. induction fields as [|v t IH]; intros d w off Hw Hfit.
  - cbn [seq_loop pack]. rewrite orv_zero. reflexivity.
  - cbn [seq_loop pack nlen] in *. rewrite Hwr by (try assumption; nia). cbn [ibind].
    rewrite IH by (try assumption; cbn [orv blen]; nia). rewrite orv_orv. reflexivity.
Qed.

(* the loops of compress_min_max / compress_delta / compress_block_based are seq_loop on the computed fields *)
Lemma mm_loop_seq wr : forall vals d mn bw off, Forall (fun v => mn <= v) vals ->
  mm_loop wr d vals mn bw off = seq_loop wr d (map (fun v => v - mn) vals) bw off.
Proof.
  induction vals as [|v t IH]; intros d mn bw off Hall; [reflexivity|].
  inversion Hall as [|? ? Hv Ht]; subst. cbn [mm_loop seq_loop map].
  replace (v <? mn) with false by (symmetry; apply N.ltb_ge; lia).
  destruct (wr d (v - mn) off bw); cbn [ibind]; try reflexivity. apply IH. exact Ht.
Qed.

Fixpoint deltas (prev : N) (vals : list N) : list N :=
  match vals with [] => [] | v :: t => (v - prev) :: deltas v t end.

Fixpoint sorted_p (prev : N) (vals : list N) : Prop :=
  match vals with [] => True | v :: t => prev <= v /\ sorted_p v t end.

Lemma delta_loop_seq wr : forall vals d prev dw off, sorted_p prev vals ->
  delta_loop wr d prev vals dw off = seq_loop wr d (deltas prev vals) dw off.
Proof.
  induction vals as [|v t IH]; intros d prev dw off Hs; [reflexivity|].
  destruct Hs as [Hv Ht]. cbn [delta_loop seq_loop deltas].
  replace (v <? prev) with false by (symmetry; apply N.ltb_ge; lia).
  destruct (wr d (v - prev) off dw); cbn [ibind]; try reflexivity. apply IH. exact Ht.
Qed.

Lemma seq_loop_app wr : forall a b d w off,
  seq_loop wr d (a ++ b) w off = ibind (seq_loop wr d a w off) (fun d' => seq_loop wr d' b w (off + w * nlen a)).
Proof.
  induction a as [|v a IH]; intros b d w off.
  - cbn [app seq_loop ibind nlen]. f_equal. lia.
  - cbn [app seq_loop nlen]. destruct (wr d v off w); cbn [ibind]; try reflexivity.
    rewrite IH. destruct (seq_loop wr a0 a w (off + w)); cbn [ibind]; try reflexivity. f_equal. lia.
Qed.

Definition block_fields (blk : list N) : list N := map (fun v => v - list_min blk) blk.

Lemma offs_loop_seq wr : forall blk d bmin ow off, Forall (fun v => bmin <= v) blk ->
  offs_loop wr d blk bmin ow off =
  ibind (seq_loop wr d (map (fun v => v - bmin) blk) ow off) (fun d' => IOk (d', off + ow * nlen blk)).
Proof.
  induction blk as [|v t IH]; intros d bmin ow off Hall.
  - cbn [offs_loop seq_loop map ibind nlen]. f_equal. f_equal. lia.
  - inversion Hall as [|? ? Hv Ht]; subst. cbn [offs_loop seq_loop map nlen].
    replace (v <? bmin) with false by (symmetry; apply N.ltb_ge; lia).
    destruct (wr d (v - bmin) off ow); cbn [ibind]; try reflexivity.
    rewrite IH by exact Ht. destruct (seq_loop wr a (map (fun v0 => v0 - bmin) t) ow (off + ow)); cbn [ibind]; try reflexivity.
    f_equal. f_equal. lia.
Qed.

Lemma all_ge_min blk : Forall (fun v => list_min blk <= v) blk.
Proof. apply Forall_forall. intros v Hv. apply list_min_le. exact Hv. Qed.

Lemma block_loop_seq wr : forall blocks d ow off,
  block_loop wr d blocks ow off = seq_loop wr d (concat (map block_fields blocks)) ow off.
Proof.
  induction blocks as [|blk t IH]; intros d ow off; [reflexivity|].
  cbn [block_loop map concat]. rewrite seq_loop_app, offs_loop_seq by apply all_ge_min.
  unfold block_fields at 1.
  destruct (seq_loop wr d (map (fun v => v - list_min blk) blk) ow off); cbn [ibind fst snd]; try reflexivity.
  rewrite IH. f_equal. unfold block_fields. rewrite !nlen_length, map_length. reflexivity.
Qed.

(* ---------- the byte-aligned loops of the *_bulk_simd writers ---------- *)
Definition high_zero (d : bvec) (p : N) : Prop := forall n, p <= n -> N.testbit (bmem d) n = false.

Lemma copy_bytes_spec d boff k v :
  high_zero d (8 * boff) -> boff + k <= blen d ->
  copy_bytes d boff k v = IOk (orv d (N.land v (N.ones (8 * k))) (8 * boff)).
Proof.
  intros Hz Hfit. unfold copy_bytes.
  replace (blen d <? boff + k) with false by (symmetry; apply N.ltb_ge; lia). f_equal.
  apply bvec_eq; [|reflexivity]. unfold store_window, orv; cbn [bmem].
  apply N.bits_inj. intros n. tb.
  destruct (N.leb_spec (8 * boff) n) as [H1|H1]; cbn [andb].
  - rewrite (Hz n H1). btauto.
  - btauto.
Qed.

Lemma orv_high_zero d v off w :
  high_zero d off -> high_zero (orv d (N.land v (N.ones w)) off) (off + w).
Proof.
  intros Hz n Hn. unfold orv; cbn [bmem]. tb. rewrite Hz by lia.
  replace (n - off <? w) with false by (symmetry; apply N.ltb_ge; lia). btauto.
Qed.

Lemma bytes_loop_spec : forall fields d bpv boff,
  high_zero d (8 * boff) -> boff + bpv * nlen fields <= blen d ->
  (fix go (d : bvec) (fs : list N) (boff : N) : ires bvec :=
     match fs with
     | [] => IOk d
     | v :: t => ibind (copy_bytes d boff bpv v) (fun d' => go d' t (boff + bpv))
     end) d fields boff = IOk (orv d (pack (8 * bpv) fields) (8 * boff)).
Proof.
  induction fields as [|v t IH]; intros d bpv boff Hz Hfit.
  - cbn [pack]. rewrite orv_zero. reflexivity.
  - cbn [pack nlen] in *. rewrite copy_bytes_spec by (try assumption; nia). cbn [ibind].
    rewrite IH.
    + replace (8 * (boff + bpv)) with (8 * boff + 8 * bpv) by lia. rewrite orv_orv. reflexivity.
    + replace (8 * (boff + bpv)) with (8 * boff + 8 * bpv) by lia. apply orv_high_zero. exact Hz.
    + cbn [orv blen]. nia.
Qed.

Lemma mm_loop_bytes_seq : forall vals d mn bpv boff, Forall (fun v => mn <= v) vals ->
  mm_loop_bytes d vals mn bpv boff =
  (fix go (d : bvec) (fs : list N) (boff : N) : ires bvec :=
     match fs with
     | [] => IOk d
     | v :: t => ibind (copy_bytes d boff bpv v) (fun d' => go d' t (boff + bpv))
     end) d (map (fun v => v - mn) vals) boff.
Proof.
  induction vals as [|v t IH]; intros d mn bpv boff Hall; [reflexivity|].
  inversion Hall as [|? ? Hv Ht]; subst. cbn [mm_loop_bytes map].
  replace (v <? mn) with false by (symmetry; apply N.ltb_ge; lia).
  destruct (copy_bytes d boff bpv (v - mn)); cbn [ibind]; try reflexivity. apply IH. exact Ht.
Qed.

Lemma delta_loop_bytes_seq : forall vals d prev bpd boff, sorted_p prev vals ->
  delta_loop_bytes d prev vals bpd boff =
  (fix go (d : bvec) (fs : list N) (boff : N) : ires bvec :=
     match fs with
     | [] => IOk d
     | v :: t => ibind (copy_bytes d boff bpd v) (fun d' => go d' t (boff + bpd))
     end) d (deltas prev vals) boff.
Proof.
  induction vals as [|v t IH]; intros d prev bpd boff Hs; [reflexivity|].
  destruct Hs as [Hv Ht]. cbn [delta_loop_bytes deltas].
  replace (v <? prev) with false by (symmetry; apply N.ltb_ge; lia).
  destruct (copy_bytes d boff bpd (v - prev)); cbn [ibind]; try reflexivity. apply IH. exact Ht.
Qed.

(* writing into a zeroed buffer from offset 0 leaves exactly the packing *)
Lemma orv_zeros n v : bmem (orv (zeros n) v 0) = v /\ blen (orv (zeros n) v 0) = n.
Proof. unfold orv, zeros; cbn [bmem blen]. rewrite N.shiftl_0_r, N.lor_0_l. split; reflexivity. Qed.

Lemma zeros_high_zero n p : high_zero (zeros n) p.
Proof. intros k _. unfold zeros; cbn [bmem]. apply N.bits_0. Qed.

(* sizes: the packed fields fit the allocation *)
Lemma align16_ge x : x <= align16 x.
Proof. unfold align16. lia. Qed.
Lemma golden16_ge x : x <= golden16 x.
Proof. unfold golden16. pose proof (align16_ge (N.max (x * 103 / 64) x)). lia. Qed.
Lemma bytes_cover n w : w * n <= 8 * ((n * w + 7) / 8).
Proof. lia. Qed.

(* ---------- the same for a writer that supports one particular width (UintVector: widths up to 32) ---------- *)
Definition wr_ok_at (wr : writer) (w : N) : Prop :=
  forall d v off, off + w <= 8 * blen d -> wr d v off w = IOk (orv d (N.land v (N.ones w)) off).

Lemma seq_loop_spec_at wr w : wr_ok_at wr w -> forall fields d off,
  off + w * nlen fields <= 8 * blen d ->
  seq_loop wr d fields w off = IOk (orv d (pack w fields) off).
Proof.
  intros Hwr. induction fields as [|v t IH]; intros d off Hfit.
  - cbn [seq_loop pack]. rewrite orv_zero. reflexivity.
  - cbn [seq_loop pack nlen] in *. rewrite Hwr by nia. cbn [ibind].
    rewrite IH by (cbn [orv blen]; nia). rewrite orv_orv. reflexivity.
Qed.

Lemma pack_app : forall a b w, pack w (a ++ b) = N.lor (pack w a) (N.shiftl (pack w b) (w * nlen a)).
Proof.
  induction a as [|x a IH]; intros b w.
  - cbn [app pack nlen]. rewrite N.mul_0_r, N.shiftl_0_r, N.lor_0_l. reflexivity.
  - cbn [app pack nlen]. rewrite IH, N.shiftl_lor, N.shiftl_shiftl, N.lor_assoc.
    f_equal. f_equal. lia.
Qed.
