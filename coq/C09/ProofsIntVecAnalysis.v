(* C09: IntVec - the strategy analyses compute widths that cover every element (global range, per-block maximum
   offset including the short last block, maximum adjacent delta, uniform delta), for every input. *)
From ZV.Common Require Import Base.
From ZV.C09 Require Import Model ProofsBits ProofsVec ModelSorted ModelIntVec ProofsIntVecBits ProofsIntVecPack ProofsIntVecGet.
Open Scope N_scope.

(* ---------- compute_bit_width ---------- *)
Lemma cbw_ge1 v : 1 <= compute_bit_width v.
Proof.
  unfold compute_bit_width. destruct (N.eqb_spec v 0) as [->|Hz]; [lia|].
  rewrite N.size_log2 by exact Hz. lia.
Qed.
Lemma cbw_gt v : v < 2 ^ compute_bit_width v.
Proof.
  unfold compute_bit_width. destruct (N.eqb_spec v 0) as [->|Hz]; [cbn; lia|]. apply N.size_gt.
Qed.
Lemma cbw_le64 v : v < W64 -> compute_bit_width v <= 64.
Proof.
  intros H. unfold compute_bit_width. destruct (N.eqb_spec v 0) as [->|Hz]; [lia|].
  rewrite N.size_log2 by exact Hz. apply lt_W64 in H. apply N.log2_lt_pow2 in H; lia.
Qed.
Lemma cbw_range v : v < W64 -> 1 <= compute_bit_width v <= 64.
Proof. intros H. split; [apply cbw_ge1|apply cbw_le64; exact H]. Qed.

(* ---------- range ---------- *)
Lemma fold_range : forall t a b mn mx,
  fold_left (fun mm x => (N.min (fst mm) x, N.max (snd mm) x)) t (a, b) = (mn, mx) ->
  mn <= a /\ b <= mx /\ Forall (fun v => mn <= v <= mx) t /\ (mn = a \/ In mn t) /\ (mx = b \/ In mx t).
Proof.
  induction t as [|x t IH]; intros a b mn mx H.
  - cbn in H. injection H as <- <-. repeat split; try lia; try constructor; left; reflexivity.
  - cbn [fold_left fst snd] in H. destruct (IH _ _ _ _ H) as (H1 & H2 & H3 & H4 & H5).
    split; [lia|]. split; [lia|]. split; [constructor; [lia|exact H3]|]. split.
    + destruct H4 as [H4|H4]; [|right; right; exact H4].
      destruct (N.min_spec a x) as [[_ Hm]|[_ Hm]]; [left; lia|right; left; lia].
    + destruct H5 as [H5|H5]; [|right; right; exact H5].
      destruct (N.max_spec b x) as [[_ Hm]|[_ Hm]]; [right; left; lia|left; lia].
Qed.

Lemma range_bulk_spec vals mn mx : vals <> [] -> range_bulk vals = (mn, mx) ->
  Forall (fun v => mn <= v <= mx) vals /\ In mn vals /\ In mx vals.
Proof.
  intros Hne H. destruct vals as [|v t]; [congruence|]. unfold range_bulk in H.
  destruct (fold_range _ _ _ _ _ H) as (H1 & H2 & H3 & H4 & H5).
  split; [constructor; [lia|exact H3]|]. split.
  - destruct H4 as [->|H4]; [left; reflexivity|right; exact H4].
  - destruct H5 as [->|H5]; [left; reflexivity|right; exact H5].
Qed.

Lemma covers_min_max vals mn mx : Forall (fun v => v < W64) vals -> vals <> [] -> range_bulk vals = (mn, mx) ->
  covers (analyze_min_max mn mx) vals /\ covers (SMinMax mn (compute_bit_width (mx - mn))) vals.
Proof.
  intros H64 Hne Hr. destruct (range_bulk_spec _ _ _ Hne Hr) as (Hall & Hmn & Hmx).
  assert (Hmxlt : mx < W64) by (rewrite Forall_forall in H64; apply H64; exact Hmx).
  assert (Hgen : covers (SMinMax mn (compute_bit_width (mx - mn))) vals).
  { cbn [covers]. split; [apply cbw_range; lia|].
    eapply Forall_impl; [|exact Hall]. intros v [Hv1 Hv2]. split; [exact Hv1|].
    pose proof (cbw_gt (mx - mn)). lia. }
  split; [|exact Hgen]. unfold analyze_min_max. destruct (N.eqb_spec mn mx) as [Heq|Hneq]; [|exact Hgen].
  cbn [covers]. split; [lia|]. eapply Forall_impl; [|exact Hall]. intros v [Hv1 Hv2]. split; [exact Hv1|].
  replace (v - mn) with 0 by lia. cbn. lia.
Qed.

(* ---------- deltas ---------- *)
Lemma deltas_lt_mono : forall vals prev b b', deltas_lt prev vals b -> b <= b' -> deltas_lt prev vals b'.
Proof.
  induction vals as [|v t IH]; intros prev b b' H Hb; cbn in *; [exact I|].
  destruct H as (H1 & H2 & H3). repeat split; [exact H1|lia|]. eapply IH; eauto.
Qed.

Lemma max_delta_spec : forall vals prev acc md, max_delta_from prev acc vals = Some md ->
  acc <= md /\ deltas_lt prev vals (md + 1).
Proof.
  induction vals as [|v t IH]; intros prev acc md H.
  - cbn in H. injection H as <-. split; [lia|exact I].
  - cbn [max_delta_from] in H. destruct (N.ltb_spec v prev) as [Hlt|Hge]; [discriminate|].
    destruct (IH _ _ _ H) as [H1 H2]. split; [lia|]. cbn [deltas_lt]. repeat split; [exact Hge|lia|exact H2].
Qed.

Lemma covers_delta vals : covers (analyze_delta vals) vals.
Proof.
  unfold analyze_delta. destruct vals as [|v0 [|v1 t]]; try exact I.
  destruct (max_delta_from v0 0 (v1 :: t)) as [md|] eqn:Hmd; [|exact I].
  destruct (N.ltb_spec (2 ^ 32) md) as [Hbig|Hsmall]; [exact I|].
  destruct (max_delta_spec _ _ _ _ Hmd) as [_ Hd].
  cbn [covers is_uniform_mode andb]. split.
  - apply cbw_range. unfold W64. assert (2 ^ 32 = 4294967296) by reflexivity. lia.
  - split; [reflexivity|]. eapply deltas_lt_mono; [exact Hd|]. pose proof (cbw_gt md). lia.
Qed.

(* ---------- uniform delta ---------- *)
Lemma uniform_from_arith : forall vals prev d base k, uniform_from prev d vals = true -> prev = base + k * d ->
  arith_from base d (k + 1) vals.
Proof.
  induction vals as [|v t IH]; intros prev d base k H Hp; cbn in *; [exact I|].
  destruct (N.ltb_spec v prev) as [Hlt|Hge]; [discriminate|].
  destruct (N.eqb_spec (v - prev) d) as [Heq|Hne]; cbn [negb] in H; [|discriminate].
  split; [lia|]. apply (IH v d base (k + 1) H). lia.
Qed.

Lemma covers_uniform vals ud dw : detect_uniform_delta vals = Some ud ->
  covers (SDelta (hd 0 vals) dw true (Some ud)) vals.
Proof.
  intros H. unfold detect_uniform_delta in H. destruct vals as [|v0 [|v1 t]]; try discriminate.
  destruct (N.leb_spec v0 v1) as [Hle|Hgt]; [|discriminate].
  destruct (uniform_from v1 (v1 - v0) t) eqn:Hu; [|discriminate]. injection H as <-.
  cbn [covers is_uniform_mode andb hd arith_from]. split; [lia|]. split; [lia|].
  apply (uniform_from_arith t v1 (v1 - v0) v0 1 Hu). lia.
Qed.

(* ---------- the two single-pass analyses ---------- *)
Lemma nlen_ne {A} (l : list A) : 4 <= nlen l -> l <> [].
Proof. destruct l; cbn [nlen]; [lia|discriminate]. Qed.

Lemma covers_small vals : Forall (fun v => v < W64) vals -> covers (analyze_small_dataset_strategy vals) vals.
Proof.
  intros H64. unfold analyze_small_dataset_strategy.
  destruct (N.ltb_spec (nlen vals) 4) as [Hlt|Hge]; [exact I|].
  destruct (fast_sorted_check vals).
  - destruct (detect_uniform_delta vals) as [ud|] eqn:Hu; [apply covers_uniform; exact Hu|apply covers_delta].
  - destruct (range_bulk vals) as [mn mx] eqn:Hr.
    destruct (covers_min_max vals mn mx H64 (nlen_ne _ Hge) Hr) as [Hc1 Hc2].
    unfold analyze_min_max in Hc1. destruct (mn =? mx); [exact Hc1|].
    destruct ((compute_bit_width (mx - mn) <=? 16) || (nlen vals <=? 1000)); exact Hc2.
Qed.

Lemma covers_fast vals : Forall (fun v => v < W64) vals -> covers (analyze_fast_strategy vals) vals.
Proof.
  intros H64. unfold analyze_fast_strategy.
  destruct (N.ltb_spec (nlen vals) 4) as [Hlt|Hge]; [exact I|].
  match goal with |- covers (match ?c with Some _ => _ | None => _ end) _ => destruct c as [ud|] eqn:Hu end.
  - match type of Hu with (if ?b then _ else _) = _ => destruct b; [|discriminate] end.
    apply covers_uniform. exact Hu.
  - destruct (range_bulk vals) as [mn mx] eqn:Hr.
    destruct (covers_min_max vals mn mx H64 (nlen_ne _ Hge) Hr) as [Hc1 Hc2].
    unfold analyze_min_max in Hc1. destruct (mn =? mx); [exact Hc1|].
    fold (compute_bit_width (mx - mn)).
    destruct (compute_bit_width (mx - mn) <? 48); [exact Hc2|exact I].
Qed.

(* ---------- block based ---------- *)
Lemma in_firstn {A} : forall (l : list A) n x, In x (firstn n l) -> In x l.
Proof.
  induction l as [|y l IH]; intros n x H; [rewrite firstn_nil in H; exact H|].
  destruct n; [contradiction|]. cbn [firstn] in H. destruct H as [->|H]; [left; reflexivity|right; eapply IH; eauto].
Qed.
Lemma in_skipn {A} : forall (l : list A) n x, In x (skipn n l) -> In x l.
Proof.
  induction l as [|y l IH]; intros n x H; [rewrite skipn_nil in H; exact H|].
  destruct n; [exact H|]. cbn [skipn] in H. right. eapply IH; eauto.
Qed.
Lemma chunks_in : forall nb bu l blk x, In blk (chunks nb bu l) -> In x blk -> In x l.
Proof.
  induction nb as [|k IH]; intros bu l blk x Hb Hx; [contradiction|].
  cbn [chunks] in Hb. destruct Hb as [<-|Hb].
  - eapply in_firstn; eauto.
  - eapply in_skipn. eapply IH; eauto.
Qed.

Lemma inner_max_spec m : forall blk acc,
  acc <= fold_left (fun a v => N.max a (v - m)) blk acc /\
  Forall (fun v => v - m <= fold_left (fun a v => N.max a (v - m)) blk acc) blk.
Proof.
  induction blk as [|x t IH]; intros acc; cbn [fold_left]; [split; [lia|constructor]|].
  destruct (IH (N.max acc (x - m))) as [H1 H2]. split; [lia|]. constructor; [lia|exact H2].
Qed.

Lemma inner_max_bound m b : forall blk acc, acc < b -> Forall (fun v => v < b) blk ->
  fold_left (fun a v => N.max a (v - m)) blk acc < b.
Proof.
  induction blk as [|x t IH]; intros acc Ha Hall; cbn [fold_left]; [exact Ha|].
  inversion Hall; subst. apply IH; [lia|assumption].
Qed.

Lemma max_offset_spec : forall blocks acc,
  let r := fold_left (fun acc blk => fold_left (fun a v => N.max a (v - list_min blk)) blk acc) blocks acc in
  acc <= r /\ Forall (fun blk => Forall (fun v => v - list_min blk <= r) blk) blocks.
Proof.
  induction blocks as [|blk t IH]; intros acc; cbn [fold_left]; [split; [lia|constructor]|].
  destruct (inner_max_spec (list_min blk) blk acc) as [H1 H2].
  destruct (IH (fold_left (fun a v => N.max a (v - list_min blk)) blk acc)) as [H3 H4].
  split; [lia|]. constructor; [|exact H4].
  eapply Forall_impl; [|exact H2]. intros v Hv. cbn beta in *. lia.
Qed.

Lemma max_offset_bound b : forall blocks acc, acc < b -> Forall (fun blk => Forall (fun v => v < b) blk) blocks ->
  fold_left (fun acc blk => fold_left (fun a v => N.max a (v - list_min blk)) blk acc) blocks acc < b.
Proof.
  induction blocks as [|blk t IH]; intros acc Ha Hall; cbn [fold_left]; [exact Ha|].
  inversion Hall; subst. apply IH; [|assumption]. apply inner_max_bound; assumption.
Qed.

Lemma list_max_bound b l : 0 < b -> Forall (fun v => v < b) l -> list_max l < b.
Proof.
  intros Hb. unfold list_max. induction l as [|x t IH]; intros Hall; cbn [fold_right]; [exact Hb|].
  inversion Hall; subst. specialize (IH H2). lia.
Qed.

Lemma list_min_bound b l : 0 < b -> Forall (fun v => v < b) l -> list_min l < b.
Proof.
  intros Hb Hall. destruct l as [|x t]; [cbn; exact Hb|].
  pose proof (list_min_le (x :: t) x (or_introl eq_refl)). inversion Hall; subst. lia.
Qed.

Lemma covers_block vals srt : Forall (fun v => v < W64) vals -> covers (analyze_block_based vals srt) vals.
Proof.
  intros H64. unfold analyze_block_based.
  destruct (nlen vals <? 64); [exact I|].
  set (lg := if 1024 <=? nlen vals then 7 else 6). set (blocks := blocks_of lg vals).
  assert (Hblk : Forall (fun blk => Forall (fun v => v < W64) blk) blocks).
  { apply Forall_forall. intros blk Hb. apply Forall_forall. intros x Hx.
    rewrite Forall_forall in H64. apply H64. unfold blocks, blocks_of in Hb. eapply chunks_in; eauto. }
  assert (HW : 0 < W64) by (unfold W64; lia).
  assert (Hsamples : Forall (fun v => v < W64) (map list_min blocks)).
  { apply Forall_forall. intros s Hs. apply in_map_iff in Hs. destruct Hs as (blk & <- & Hb).
    apply list_min_bound; [exact HW|]. rewrite Forall_forall in Hblk. apply Hblk. exact Hb. }
  cbn [covers]. split; [|split].
  - apply cbw_range. unfold max_offset_of. apply max_offset_bound; [exact HW|exact Hblk].
  - apply cbw_range. apply list_max_bound; assumption.
  - fold blocks. destruct (max_offset_spec blocks 0) as [_ Hoff]. cbn zeta in Hoff. fold (max_offset_of blocks) in Hoff.
    apply Forall_forall. intros blk Hb. split.
    + pose proof (cbw_gt (list_max (map list_min blocks))).
      pose proof (list_max_ge (map list_min blocks) (list_min blk) (in_map list_min _ _ Hb)). lia.
    + rewrite Forall_forall in Hoff. specialize (Hoff blk Hb).
      eapply Forall_impl; [|exact Hoff]. intros v Hv. cbn beta in Hv.
      pose proof (cbw_gt (max_offset_of blocks)). lia.
Qed.

(* ---------- the full analysis: whichever candidate the (floating-point) comparison prefers ---------- *)
Lemma min_by_in {A} (cmp : A -> A -> comparison) : forall l cur, In (min_by cmp cur l) (cur :: l).
Proof.
  induction l as [|x t IH]; intros cur; cbn [min_by]; [left; reflexivity|].
  specialize (IH (match cmp cur x with Gt => x | _ => cur end)).
  destruct IH as [H|H]; [|right; right; exact H].
  rewrite <- H. destruct (cmp cur x); [left|left|right; left]; reflexivity.
Qed.

Lemma covers_optimal ratio_cmp vals : Forall (fun v => v < W64) vals ->
  covers (analyze_optimal_strategy ratio_cmp vals) vals.
Proof.
  intros H64. unfold analyze_optimal_strategy.
  destruct (N.ltb_spec (nlen vals) 8) as [Hlt|Hge]; [exact I|].
  destruct (range_bulk vals) as [mn mx] eqn:Hr.
  assert (Hne : vals <> []) by (apply nlen_ne; lia).
  destruct (covers_min_max vals mn mx H64 Hne Hr) as [Hc1 _].
  match goal with |- covers (min_by ?c ?cur ?l) _ => destruct (min_by_in c l cur) as [H|[H|[H|[]]]]; rewrite <- H end.
  - exact Hc1.
  - apply covers_delta.
  - apply covers_block. exact H64.
Qed.
