(* C09 property theorems (UintVecMin0).  Statements + exact + Print Assumptions only. *)
From ZV.Common Require Import Base Run.
From ZV.C09 Require Import Model ProofsBits ProofsVec ModelSorted Cases ProofsSorted ProofsZip.
From ZV.C09 Require Import ModelIntVec ProofsIntVecBits ProofsIntVecPack ProofsIntVecGet ProofsIntVecAnalysis ProofsIntVecTop.
From ZV.C09 Require Import ModelUintVector ProofsUintVector ProofsUintVectorPush ModelMin0Typed ProofsMin0Typed ProofsPush.
Open Scope N_scope.

(* a field of any supported width never straddles the 64-bit load window *)
Theorem field_fits_thm : forall b idx, b <= 58 -> (b * idx) mod 8 + b <= 64.
Proof. exact field_fits. Qed.
Print Assumptions field_fits_thm.

(* every in-range read is defined (no panic, no access past `data`) and returns the slot's bits *)
Theorem min0_get_defined : forall m idx, wf m -> idx < size m -> get m idx = Ok (fieldv m idx).
Proof. exact get_field. Qed.
Print Assumptions min0_get_defined.

Theorem min0_get_refuses_out_of_range : forall m idx, size m <= idx -> get m idx = Panic.
Proof. exact get_out_of_range. Qed.
Print Assumptions min0_get_refuses_out_of_range.

(* in-range writes are defined *)
Theorem min0_set_defined :
  forall m idx val, wf m -> idx < size m -> val <= mask m -> exists m', set m idx val = Ok m'.
Proof. exact set_ok. Qed.
Print Assumptions min0_set_defined.

(* bits_roundtrip: a write is read back, and changes no other element *)
Theorem min0_set_get_same :
  forall m idx val m', wf m -> idx < size m -> val <= mask m -> set m idx val = Ok m' -> get m' idx = Ok val.
Proof. exact set_get_same. Qed.
Print Assumptions min0_set_get_same.

Theorem min0_set_get_other :
  forall m idx val m' j, wf m -> idx < size m -> val <= mask m -> set m idx val = Ok m' ->
    j < size m -> j <> idx -> get m' j = get m j.
Proof. exact set_get_other. Qed.
Print Assumptions min0_set_get_other.

(* min0_get_build: bulk construction stores every element, for every sequence whose range fits 58 bits *)
Theorem min0_get_build :
  forall src, src <> [] -> list_max src - list_min src < 2 ^ 58 ->
    exists m mn, build_from src = Ok (m, mn) /\ size m = nlen src /\
      forall i, (i < length src)%nat -> get m (N.of_nat i) = Ok (nth i src 0 - mn) /\ mn <= nth i src 0.
Proof. exact build_from_get_proof. Qed.
Print Assumptions min0_get_build.

(* push_back on the in-place path appends and disturbs nothing *)
Theorem min0_push_back_fast :
  forall m val, wf m -> mem_size (bits m) (size m + 1) <= memlen m -> val <= mask m ->
    exists m', push_back m val = Ok m' /\ wf m' /\ size m' = size m + 1 /\
      get m' (size m) = Ok val /\ (forall j, j < size m -> get m' j = get m j).
Proof. exact push_back_fast_proof. Qed.
Print Assumptions min0_push_back_fast.

(* recorded finding min0_width_above_58 *)
Theorem min0_wide_refuted :
  exists src, Forall (fun v => v < W64) src /\
    (match build_from src with Ok (m, _) => get m 0 = Panic | _ => True end) /\
    new 2 (W64 - 1) = Panic.
Proof. exact min0_wide_refuted_proof. Qed.
Print Assumptions min0_wide_refuted.

(* ---------- ZipIntVec (min offset on top of UintVecMin0) ---------- *)
(* bulk build stores every element, for every sequence of u64 values whose range fits 58 bits - also at the top of
   the usize range; reads past the end are refused (the documented panic of a plain-usize API) *)
Theorem zip_get_build :
  forall src, src <> [] -> Forall (fun v => v < W64) src -> list_max src - list_min src < 2 ^ 58 ->
    exists z, zip_build_from src = Ok z /\ size (inner z) = nlen src /\
      (forall i, (i < length src)%nat -> zip_get z (N.of_nat i) = Ok (nth i src 0)) /\
      (forall i, nlen src <= i -> zip_get z i = Panic).
Proof. exact zip_build_get_proof. Qed.
Print Assumptions zip_get_build.

(* ---------- SortedUintVec + builder ---------- *)
(* for every admissible configuration (all block sizes 16..256, offset widths 8..32, sample widths 16..57 and 64, either
   extraction path) and every sorted sequence of u64 values whose in-block deltas fit offset_width and whose block minima
   fit sample_width: the build succeeds, the length is preserved, element i reads back, reads past the end are refused *)
Theorem sorted_uint_vec_get :
  forall c vals, cfg_valid c = true -> push_all_sorted None vals = true ->
    deltas_fit c vals -> samples_fit c vals -> all_u64 vals ->
    exists v, sbuild c vals = ROk v /\ ssize v = nlen vals /\
      (forall i, i < nlen vals -> sget v i = ROk (vnth vals i)) /\
      (forall i, nlen vals <= i -> sget v i = RErr).
Proof. exact sorted_get_build_proof. Qed.
Print Assumptions sorted_uint_vec_get.

(* get2 = two gets, refused as soon as the second index is past the end *)
Theorem sorted_uint_vec_get2 :
  forall c vals v, cfg_valid c = true -> deltas_fit c vals -> all_u64 vals -> sbuild c vals = ROk v ->
    forall i, sget2 v i = if i + 1 <? nlen vals then ROk (vnth vals i, vnth vals (i + 1)) else RErr.
Proof. exact sorted_get2_proof. Qed.
Print Assumptions sorted_uint_vec_get2.

(* get_block = the block's stored values followed by zeros up to the block size; block indices past the end are refused *)
Theorem sorted_uint_vec_get_block :
  forall c vals v, cfg_valid c = true -> deltas_fit c vals -> all_u64 vals -> sbuild c vals = ROk v ->
    forall k, sget_block v k =
      if k <? nblocks c vals then
        let actual := N.min (k * bsize c + bsize c) (nlen vals) - k * bsize c in
        ROk (map (fun t => vnth vals (k * bsize c + t)) (rangeN 0 (N.to_nat actual)) ++ repeat 0 (N.to_nat (bsize c - actual)))
      else RErr.
Proof. exact sorted_get_block_proof. Qed.
Print Assumptions sorted_uint_vec_get_block.

(* the builder succeeds only for an admissible configuration, sorted input, deltas that fit offset_width and block
   minima that fit sample_width (with sorted_uint_vec_get: it succeeds exactly then) *)
Theorem sorted_uint_vec_build_only_if :
  forall c vals v, sbuild c vals = ROk v ->
    cfg_valid c = true /\ push_all_sorted None vals = true /\ deltas_fit c vals /\ (sw c < 64 -> samples_fit c vals).
Proof. exact sbuild_only_if. Qed.
Print Assumptions sorted_uint_vec_build_only_if.

(* ---------- IntVec<T> (strategy analysis, four encodings, signed mapping, three constructors) ---------- *)
(* both bit writers OR the masked value in at the bit offset, whichever of their paths they take (window
   read-modify-write, unaligned 8-byte read-modify-write, bit by bit), for every width 1..64 and every offset
   whose field lies inside the buffer *)
Theorem intvec_write_bits :
  forall d v off w, 1 <= w <= 64 -> off + w <= 8 * blen d ->
    write_bits d v off w = IOk (orv d (N.land v (N.ones w)) off) /\
    write_bits_bulk d v off w = IOk (orv d (N.land v (N.ones w)) off).
Proof. intros d v off w H1 H2. split; [apply write_bits_spec|apply write_bits_bulk_spec]; assumption. Qed.
Check intvec_write_bits :
  forall d v off w, 1 <= w <= 64 -> off + w <= 8 * blen d ->
    write_bits d v off w = IOk (orv d (N.land v (N.ones w)) off) /\
    write_bits_bulk d v off w = IOk (orv d (N.land v (N.ones w)) off).
Print Assumptions intvec_write_bits.

(* the bit reader returns the field for every width 1..64 at every offset inside the buffer: the 8-byte window
   suffices for fields of at most 58 bits at multiples of their width, wider fields that start inside a byte are
   completed from the ninth byte (the repaired read) *)
Theorem intvec_read_bits :
  (forall d off w, 1 <= w <= 64 -> off + w <= 8 * blen d -> read_bits d off w = IOk (field (bmem d) off w)) /\
  (forall w k, w <= 58 -> (w * k) mod 8 + w <= 64) /\
  (59 * 5) mod 8 + 59 > 64.
Proof. split; [exact read_bits_spec|]. split; [exact window_suffices|exact ninth_byte_needed]. Qed.
Check intvec_read_bits :
  (forall d off w, 1 <= w <= 64 -> off + w <= 8 * blen d -> read_bits d off w = IOk (field (bmem d) off w)) /\
  (forall w k, w <= 58 -> (w * k) mod 8 + w <= 64) /\
  (59 * 5) mod 8 + 59 > 64.
Print Assumptions intvec_read_bits.

(* whatever strategy is used - raw, min-max, block based (any block size, with a short last block), delta, uniform
   delta - with parameters that cover the input, on either compression path (compress_with_strategy /
   compress_with_bulk_strategy_simd), for each of the eight element types: the build succeeds, the length is kept,
   element i reads back as the stored value (sign included), reads past the end return None *)
Theorem intvec_any_strategy :
  forall (simd : bool) t s xs, ety_ok t -> Forall (in_ty t) xs -> covers s (map to_u64 xs) ->
    exists v, iv_build simd s (map to_u64 xs) = IOk v /\ ilen v = nlen xs /\
      (forall i, (i < length xs)%nat -> iv_get t v (N.of_nat i) = IOk (Some (nth i xs 0%Z))) /\
      (forall i, nlen xs <= i -> iv_get t v i = IOk None).
Proof. exact intvec_any_strategy_proof. Qed.
Check intvec_any_strategy :
  forall (simd : bool) t s xs, ety_ok t -> Forall (in_ty t) xs -> covers s (map to_u64 xs) ->
    exists v, iv_build simd s (map to_u64 xs) = IOk v /\ ilen v = nlen xs /\
      (forall i, (i < length xs)%nat -> iv_get t v (N.of_nat i) = IOk (Some (nth i xs 0%Z))) /\
      (forall i, nlen xs <= i -> iv_get t v i = IOk None).
Print Assumptions intvec_any_strategy.

(* the widths the analyses compute are sufficient for every element: the global range (min-max), the per-block
   maximum offset and the largest block minimum (block based, short last block included), the maximum adjacent
   delta, the uniform delta; for the small-dataset analysis, the fast analysis and the full analysis whatever its
   floating-point ratio comparison answers *)
Theorem intvec_analysis_widths_cover :
  forall vals, Forall (fun v => v < W64) vals ->
    covers (analyze_small_dataset_strategy vals) vals /\
    covers (analyze_fast_strategy vals) vals /\
    (forall ratio_cmp, covers (analyze_optimal_strategy ratio_cmp vals) vals) /\
    (vals <> [] -> covers (analyze_min_max (fst (range_bulk vals)) (snd (range_bulk vals))) vals) /\
    (forall srt, covers (analyze_block_based vals srt) vals) /\
    covers (analyze_delta vals) vals /\
    (forall ud dw, detect_uniform_delta vals = Some ud -> covers (SDelta (hd 0 vals) dw true (Some ud)) vals).
Proof. exact intvec_analysis_widths_cover_proof. Qed.
Check intvec_analysis_widths_cover :
  forall vals, Forall (fun v => v < W64) vals ->
    covers (analyze_small_dataset_strategy vals) vals /\
    covers (analyze_fast_strategy vals) vals /\
    (forall ratio_cmp, covers (analyze_optimal_strategy ratio_cmp vals) vals) /\
    (vals <> [] -> covers (analyze_min_max (fst (range_bulk vals)) (snd (range_bulk vals))) vals) /\
    (forall srt, covers (analyze_block_based vals srt) vals) /\
    covers (analyze_delta vals) vals /\
    (forall ud dw, detect_uniform_delta vals = Some ud -> covers (SDelta (hd 0 vals) dw true (Some ud)) vals).
Print Assumptions intvec_analysis_widths_cover.

(* from_slice / from_slice_bulk / from_slice_bulk_simd (ctor 0 / 1 / 2) for every element type and every input *)
Theorem intvec_construct_get :
  forall ctor ratio_cmp t xs, ety_ok t -> Forall (in_ty t) xs ->
    exists v, iv_construct ctor ratio_cmp t xs = IOk v /\ ilen v = nlen xs /\
      (forall i, (i < length xs)%nat -> iv_get t v (N.of_nat i) = IOk (Some (nth i xs 0%Z))) /\
      (forall i, nlen xs <= i -> iv_get t v i = IOk None).
Proof. exact intvec_construct_get_proof. Qed.
Check intvec_construct_get :
  forall ctor ratio_cmp t xs, ety_ok t -> Forall (in_ty t) xs ->
    exists v, iv_construct ctor ratio_cmp t xs = IOk v /\ ilen v = nlen xs /\
      (forall i, (i < length xs)%nat -> iv_get t v (N.of_nat i) = IOk (Some (nth i xs 0%Z))) /\
      (forall i, nlen xs <= i -> iv_get t v i = IOk None).
Print Assumptions intvec_construct_get.

(* ---------- UintVector (raw / min-max bit packing / run length, push with recompression) ---------- *)
(* bulk construction with whatever strategy covers the input (raw, min-max with a sufficient width, run length):
   the stored fields read back *)
Theorem uintvector_any_strategy :
  forall s vals, vals <> [] -> Forall (fun v => v < W32c) vals -> ucovers s vals ->
    exists v, uv_build_with s vals = IOk v /\ ustrat v = s /\ ulen v = nlen vals /\ utemp v = [] /\
      (forall i, (i < length vals)%nat -> uv_get_compressed s (udata v) (N.of_nat i) = IOk (Some (nth i vals 0))).
Proof. exact uv_build_with_get. Qed.
Check uintvector_any_strategy :
  forall s vals, vals <> [] -> Forall (fun v => v < W32c) vals -> ucovers s vals ->
    exists v, uv_build_with s vals = IOk v /\ ustrat v = s /\ ulen v = nlen vals /\ utemp v = [] /\
      (forall i, (i < length vals)%nat -> uv_get_compressed s (udata v) (N.of_nat i) = IOk (Some (nth i vals 0))).
Print Assumptions uintvector_any_strategy.

(* build_from, for every sequence of u32 values and whatever the two floating-point comparisons of the analysis
   answer: success, length kept, element i reads back, reads past the end return None *)
Theorem uintvector_get_build :
  forall fc vals, Forall (fun v => v < W32c) vals ->
    exists v, uv_build_from fc vals = IOk v /\ ulen v = nlen vals /\ utemp v = [] /\
      (forall i, (i < length vals)%nat -> uv_get v (N.of_nat i) = IOk (Some (nth i vals 0))) /\
      (forall i, nlen vals <= i -> uv_get v i = IOk None).
Proof. exact uv_build_from_get. Qed.
Check uintvector_get_build :
  forall fc vals, Forall (fun v => v < W32c) vals ->
    exists v, uv_build_from fc vals = IOk v /\ ulen v = nlen vals /\ utemp v = [] /\
      (forall i, (i < length vals)%nat -> uv_get v (N.of_nat i) = IOk (Some (nth i vals 0))) /\
      (forall i, nlen vals <= i -> uv_get v i = IOk None).
Print Assumptions uintvector_get_build.

(* incremental construction: pushing the values one by one (pending values, recompression of everything at every
   64th push) succeeds and is observationally equal to bulk construction - same length, same get at every index *)
Theorem uintvector_push_equals_bulk :
  forall fc xs, Forall (fun a => a < W32c) xs ->
    exists v b, uv_push_all fc uv_new xs = IOk v /\ uv_build_from fc xs = IOk b /\
      ulen v = nlen xs /\ ulen b = nlen xs /\
      (forall i, uv_get v i = uv_get b i) /\
      (forall i, (i < length xs)%nat -> uv_get v (N.of_nat i) = IOk (Some (nth i xs 0))) /\
      (forall i, nlen xs <= i -> uv_get v i = IOk None).
Proof. exact uv_push_equals_bulk. Qed.
Check uintvector_push_equals_bulk :
  forall fc xs, Forall (fun a => a < W32c) xs ->
    exists v b, uv_push_all fc uv_new xs = IOk v /\ uv_build_from fc xs = IOk b /\
      ulen v = nlen xs /\ ulen b = nlen xs /\
      (forall i, uv_get v i = uv_get b i) /\
      (forall i, (i < length xs)%nat -> uv_get v (N.of_nat i) = IOk (Some (nth i xs 0))) /\
      (forall i, nlen xs <= i -> uv_get v i = IOk None).
Print Assumptions uintvector_push_equals_bulk.

(* ---------- UintVecMin0::build_from_u32 / build_from_i32 ---------- *)
(* every u32 sequence (the range always fits 58 bits) *)
Theorem min0_build_from_u32_get :
  forall src, src <> [] -> Forall (fun v => v < 2 ^ 32) src ->
    exists m mn, build_from_u32 src = Ok (m, mn) /\ size m = nlen src /\
      forall i, (i < length src)%nat -> get m (N.of_nat i) = Ok (nth i src 0 - mn) /\ mn <= nth i src 0.
Proof. exact build_from_u32_get. Qed.
Check min0_build_from_u32_get :
  forall src, src <> [] -> Forall (fun v => v < 2 ^ 32) src ->
    exists m mn, build_from_u32 src = Ok (m, mn) /\ size m = nlen src /\
      forall i, (i < length src)%nat -> get m (N.of_nat i) = Ok (nth i src 0 - mn) /\ mn <= nth i src 0.
Print Assumptions min0_build_from_u32_get.

(* every i32 sequence, including i32::MIN together with i32::MAX *)
Theorem min0_build_from_i32_get :
  forall src, src <> [] -> Forall in_i32 src ->
    exists m mn, build_from_i32 src = Ok (m, mn) /\ size m = nlen src /\
      forall i, (i < length src)%nat ->
        get m (N.of_nat i) = Ok (Z.to_N (nth i src 0%Z - mn)) /\ (mn <= nth i src 0%Z)%Z.
Proof. exact build_from_i32_get. Qed.
Check min0_build_from_i32_get :
  forall src, src <> [] -> Forall in_i32 src ->
    exists m mn, build_from_i32 src = Ok (m, mn) /\ size m = nlen src /\
      forall i, (i < length src)%nat ->
        get m (N.of_nat i) = Ok (Z.to_N (nth i src 0%Z - mn)) /\ (mn <= nth i src 0%Z)%Z.
Print Assumptions min0_build_from_i32_get.

(* ---------- incremental construction of UintVecMin0 / ZipIntVec by push_back ---------- *)
(* push_back on every path - in place, more memory at the same width, rebuild with wider fields - appends the value
   and keeps every earlier element, for every well-formed vector and every value below 2^58 *)
Theorem min0_push_back_all_paths :
  forall m l val, stores m l -> val < 2 ^ 58 ->
    exists m', push_back m val = Ok m' /\ stores m' (l ++ [val]).
Proof. exact push_back_spec. Qed.
Check min0_push_back_all_paths :
  forall m l val, stores m l -> val < 2 ^ 58 ->
    exists m', push_back m val = Ok m' /\ stores m' (l ++ [val]).
Print Assumptions min0_push_back_all_paths.

(* new(0, max) followed by any sequence of pushes (the width grows as needed): every element reads back *)
Theorem min0_push_all_get :
  forall mx vals, mx < 2 ^ 58 -> Forall (fun v => v < 2 ^ 58) vals ->
    exists m0 m, new 0 mx = Ok m0 /\ push_all m0 vals = Ok m /\ size m = nlen vals /\
      (forall i, (i < length vals)%nat -> get m (N.of_nat i) = Ok (nth i vals 0)) /\
      (forall i, nlen vals <= i -> get m i = Panic).
Proof. exact min0_push_all_get_proof. Qed.
Check min0_push_all_get :
  forall mx vals, mx < 2 ^ 58 -> Forall (fun v => v < 2 ^ 58) vals ->
    exists m0 m, new 0 mx = Ok m0 /\ push_all m0 vals = Ok m /\ size m = nlen vals /\
      (forall i, (i < length vals)%nat -> get m (N.of_nat i) = Ok (nth i vals 0)) /\
      (forall i, nlen vals <= i -> get m i = Panic).
Print Assumptions min0_push_all_get.

(* ZipIntVec::new(0, mn, mx); resize(0); push_back of every value: the same observations as bulk construction *)
Theorem zip_push_get :
  forall mn mx src, mn < mx -> mx - mn < 2 ^ 58 ->
    Forall (fun v => mn <= v /\ v - mn < 2 ^ 58 /\ v < W64) src ->
    exists z, zip_build_push mn mx src = Ok z /\ size (inner z) = nlen src /\
      (forall i, (i < length src)%nat -> zip_get z (N.of_nat i) = Ok (nth i src 0)) /\
      (forall i, nlen src <= i -> zip_get z i = Panic).
Proof. exact zip_push_get_proof. Qed.
Check zip_push_get :
  forall mn mx src, mn < mx -> mx - mn < 2 ^ 58 ->
    Forall (fun v => mn <= v /\ v - mn < 2 ^ 58 /\ v < W64) src ->
    exists z, zip_build_push mn mx src = Ok z /\ size (inner z) = nlen src /\
      (forall i, (i < length src)%nat -> zip_get z (N.of_nat i) = Ok (nth i src 0)) /\
      (forall i, nlen src <= i -> zip_get z i = Panic).
Print Assumptions zip_push_get.
