(* C20 mechanism model of SortableStrVec::binary_search (src/containers/specialized/sortable_str_vec.rs) on the
   sorted enumeration: the dispatch at 2 * cache_block_size, block_binary_search (binary search over the block
   starts with its idx >= n branch, then the linear scan of block left_block - 1 with the saturating subtraction and
   the min) and the std binary_search_by of the small path (ModelStr.bs_go).  Definitions only. *)
From ZV.Common Require Import Base Run.
From ZV.C20 Require Import Model ModelStr.
Open Scope N_scope.

Inductive blk := BHit (idx : nat) | BLeft (left_block : nat).
(* while left_block < right_block { mid_block; idx = mid_block * block_size; if idx >= n { right = mid; continue } cmp } *)
Fixpoint bbs_blocks (fuel : nat) (l : strs) (t : bytes) (bs : nat) (lb rb : nat) : blk :=
  match fuel with
  | O => BLeft lb
  | S f =>
      if (lb <? rb)%nat then
        let mid := (lb + (rb - lb) / 2)%nat in
        let idx := (mid * bs)%nat in
        if (length l <=? idx)%nat then bbs_blocks f l t bs lb mid
        else match lex (nth_str l idx) t with
             | Lt => bbs_blocks f l t bs (S mid) rb
             | Gt => bbs_blocks f l t bs lb mid
             | Eq => BHit idx
             end
      else BLeft lb
  end.
(* for i in start..end { Less => continue, Equal => Ok(i), Greater => Err(i) } Err(end) *)
Fixpoint bbs_scan (cnt : nat) (l : strs) (t : bytes) (i e : nat) : bs_result :=
  match cnt with
  | O => NotFound e
  | S c => match lex (nth_str l i) t with
           | Lt => bbs_scan c l t (S i) e
           | Eq => Found i
           | Gt => NotFound i
           end
  end.
Definition block_binary_search (l : strs) (t : bytes) (bs : nat) : bs_result :=
  let n := length l in
  let nb := ((n + bs - 1) / bs)%nat in
  match bbs_blocks (S nb) l t bs 0 nb with
  | BHit idx => Found idx
  | BLeft lb =>
      let start := ((lb - 1) * bs)%nat in
      let e := Nat.min (lb * bs) n in
      bbs_scan (e - start) l t start e
  end.
(* binary_search on a vector sorted lexicographically: l is the sorted enumeration.  The small path is std's
   binary_search_by, which may return any of several equal strings; bs_go is one such search (the cases accept any
   index that holds the needle there, and the insertion point, which is unique) *)
Definition ssv_binary_search (l : strs) (t : bytes) (bs : nat) : bs_result :=
  if (bs * 2 <? length l)%nat then block_binary_search l t bs else bs_go (S (length l)) l t 0 (length l).
