(* C20: FastStr model (ModelFast.v): find returns the first occurrence exactly; common_prefix_len decides the
   ordering; starts_with / ends_with; slicing arithmetic. *)
From ZV.Common Require Import Base Run.
From ZV.C20 Require Import Model ModelStr ModelFast ProofsLex.
Open Scope N_scope.

(* n occurs in h at byte offset i *)
Definition occurs_at (h n : bytes) (i : nat) : Prop :=
  exists pre post, h = pre ++ n ++ post /\ length pre = i.

Lemma occurs_at_0 h n : occurs_at h n 0 <-> exists r, h = n ++ r.
Proof.
  split.
  - intros (pre & post & E & L). destruct pre; [|discriminate]. exists post. exact E.
  - intros (r & E). exists [], r. split; [exact E|reflexivity].
Qed.
Lemma occurs_at_S x t n j : occurs_at (x :: t) n (S j) <-> occurs_at t n j.
Proof.
  split.
  - intros (pre & post & E & L). destruct pre as [|y pre]; [discriminate|].
    cbn in E. injection E as _ E. cbn in L. exists pre, post. split; [exact E|lia].
  - intros (pre & post & E & L). exists (x :: pre), post. cbn. split; [congruence|lia].
Qed.
Lemma occurs_at_len h n i : occurs_at h n i -> (i + length n <= length h)%nat.
Proof. intros (pre & post & E & L). subst h. rewrite !app_length. lia. Qed.
Lemma occurs_nil_nonempty n j : n <> [] -> ~ occurs_at [] n j.
Proof.
  intros Hn (pre & post & E & L). destruct pre; destruct n; try congruence; discriminate.
Qed.

Lemma firstn_is_prefix (n h : bytes) : eqb_ln (firstn (length n) h) n = true <-> exists r, h = n ++ r.
Proof.
  rewrite eqb_ln_eq. split.
  - intros E. exists (skipn (length n) h). rewrite <- E at 1. symmetry. apply firstn_skipn.
  - intros (r & ->). rewrite firstn_app, Nat.sub_diag, firstn_all. cbn. apply app_nil_r.
Qed.

Lemma is_prefix_spec p : forall s, is_prefix p s = true <-> exists r, s = p ++ r.
Proof.
  induction p as [|x p IH]; intros s; cbn [is_prefix].
  - split; [intros _; exists s; reflexivity|reflexivity].
  - destruct s as [|y s].
    + split; [discriminate|intros (r & E); discriminate].
    + rewrite andb_true_iff, N.eqb_eq, IH. split.
      * intros (-> & r & ->). exists r. reflexivity.
      * intros (r & E). injection E as -> ->. split; [reflexivity|exists r; reflexivity].
Qed.

(* ---------- find_byte ---------- *)
Lemma find_byte_first c h : forall i, find_byte c h = Some i ->
  occurs_at h [c] i /\ forall j, (j < i)%nat -> ~ occurs_at h [c] j.
Proof.
  induction h as [|x t IH]; intros i H; cbn [find_byte] in H; [discriminate|].
  destruct (N.eqb_spec x c) as [->|Hne].
  - injection H as <-. split; [apply occurs_at_0; exists t; reflexivity|intros j Hj; lia].
  - destruct (find_byte c t) as [p|] eqn:E; cbn in H; [|discriminate]. injection H as <-.
    destruct (IH p eq_refl) as [H1 H2]. split; [apply occurs_at_S; exact H1|].
    intros [|j] Hj.
    + rewrite occurs_at_0. intros (r & Er). cbn in Er. congruence.
    + rewrite occurs_at_S. apply H2. lia.
Qed.
Lemma find_byte_absent c h : find_byte c h = None -> forall j, ~ occurs_at h [c] j.
Proof.
  induction h as [|x t IH]; intros H j.
  - apply occurs_nil_nonempty. discriminate.
  - cbn [find_byte] in H. destruct (N.eqb_spec x c) as [->|Hne]; [discriminate|].
    destruct (find_byte c t) eqn:E; [discriminate|]. destruct j as [|j].
    + rewrite occurs_at_0. intros (r & Er). cbn in Er. congruence.
    + rewrite occurs_at_S. apply IH. reflexivity.
Qed.

(* ---------- the window loop ---------- *)
Lemma find_go_some n : forall cnt h i r, find_go cnt n h i = Some r ->
  exists k, r = (i + k)%nat /\ occurs_at h n k /\ forall j, (j < k)%nat -> ~ occurs_at h n j.
Proof.
  induction cnt as [|c IH]; intros h i r H; cbn [find_go] in H; [discriminate|].
  destruct (eqb_ln (firstn (length n) h) n) eqn:E.
  - injection H as <-. exists O. split; [lia|]. split; [apply occurs_at_0, firstn_is_prefix; exact E|intros j Hj; lia].
  - destruct h as [|x t]; [discriminate|]. destruct (IH t (S i) r H) as (k & -> & Ho & Hm).
    exists (S k). split; [lia|]. split; [apply occurs_at_S; exact Ho|]. intros [|j] Hj.
    + rewrite occurs_at_0, <- firstn_is_prefix. rewrite E. discriminate.
    + rewrite occurs_at_S. apply Hm. lia.
Qed.
Lemma find_go_none n : n <> [] -> forall cnt h i, find_go cnt n h i = None ->
  forall j, (j < cnt)%nat -> ~ occurs_at h n j.
Proof.
  intros Hn. induction cnt as [|c IH]; intros h i H j Hj; [lia|]. cbn [find_go] in H.
  destruct (eqb_ln (firstn (length n) h) n) eqn:E; [discriminate|].
  destruct h as [|x t]; [apply occurs_nil_nonempty; exact Hn|]. destruct j as [|j].
  - rewrite occurs_at_0, <- firstn_is_prefix. rewrite E. discriminate.
  - rewrite occurs_at_S. eapply IH; [exact H|lia].
Qed.

Theorem fs_find_first_proof h n i : fs_find h n = Some i ->
  occurs_at h n i /\ forall j, occurs_at h n j -> (i <= j)%nat.
Proof.
  unfold fs_find. destruct n as [|c n]; cbn [null].
  - intros H. injection H as <-. split; [apply occurs_at_0; exists h; reflexivity|intros; lia].
  - destruct (Nat.ltb_spec (length h) (length (c :: n))) as [Hl|Hl]; [discriminate|].
    assert (Hmin : forall k, (forall j, (j < k)%nat -> ~ occurs_at h (c :: n) j) ->
                   forall j, occurs_at h (c :: n) j -> (k <= j)%nat).
    { intros k Hk j Hj. destruct (Nat.le_gt_cases k j) as [L|L]; [exact L|]. exfalso. exact (Hk j L Hj). }
    destruct n as [|c2 n].
    + intros H. destruct (find_byte_first c h i H) as [H1 H2]. split; [exact H1|apply Hmin; exact H2].
    + intros H. apply find_go_some in H. destruct H as (k & -> & Ho & Hm).
      split; [exact Ho|apply Hmin; exact Hm].
Qed.
Theorem fs_find_none_proof h n : fs_find h n = None -> forall j, ~ occurs_at h n j.
Proof.
  unfold fs_find. destruct n as [|c n]; cbn [null]; [discriminate|].
  destruct (Nat.ltb_spec (length h) (length (c :: n))) as [Hl|Hl].
  - intros _ j Hj. apply occurs_at_len in Hj. lia.
  - destruct n as [|c2 n].
    + apply find_byte_absent.
    + intros H j Hj. pose proof (occurs_at_len _ _ _ Hj) as L.
      revert Hj. eapply find_go_none; [discriminate|exact H|]. lia.
Qed.
(* both directions in one statement *)
Theorem fs_find_iff_proof h n :
  (forall i, fs_find h n = Some i <-> (occurs_at h n i /\ forall j, occurs_at h n j -> (i <= j)%nat)) /\
  (fs_find h n = None <-> forall j, ~ occurs_at h n j).
Proof.
  split.
  - intros i. split; [apply fs_find_first_proof|]. intros [Ho Hm].
    destruct (fs_find h n) as [k|] eqn:E.
    + destruct (fs_find_first_proof _ _ _ E) as [Ho' Hm']. f_equal.
      pose proof (Hm _ Ho'). pose proof (Hm' _ Ho). lia.
    + exfalso. exact (fs_find_none_proof _ _ E _ Ho).
  - split; [apply fs_find_none_proof|]. intros H. destruct (fs_find h n) as [k|] eqn:E; [|reflexivity].
    exfalso. exact (H _ (proj1 (fs_find_first_proof _ _ _ E))).
Qed.

(* ---------- starts_with / ends_with ---------- *)
Theorem fs_starts_with_proof s p : fs_starts_with s p = true <-> exists r, s = p ++ r.
Proof. apply is_prefix_spec. Qed.
Theorem fs_ends_with_proof s p : fs_ends_with s p = true <-> exists r, s = r ++ p.
Proof.
  unfold fs_ends_with. rewrite andb_true_iff, Nat.leb_le, eqb_ln_eq. split.
  - intros [L E]. exists (firstn (length s - length p) s). rewrite <- E at 2. symmetry. apply firstn_skipn.
  - intros (r & ->). rewrite app_length. split; [lia|].
    replace (length r + length p - length p)%nat with (length r + 0)%nat by lia.
    rewrite skipn_app, Nat.add_0_r, skipn_all, Nat.sub_diag. reflexivity.
Qed.
Theorem fs_starts_with_find_proof s p : fs_starts_with s p = true <-> fs_find s p = Some O.
Proof.
  rewrite fs_starts_with_proof, <- occurs_at_0. destruct (fs_find_iff_proof s p) as [H1 _]. rewrite H1.
  split; [intros H; split; [exact H|intros; lia]|intros [H _]; exact H].
Qed.
Lemma prefix_le p : forall r, lex p (p ++ r) <> Gt.
Proof.
  induction p as [|x p IH]; intros r; cbn [app lex].
  - destruct r; discriminate.
  - rewrite N.compare_refl. apply IH.
Qed.

(* ---------- common_prefix_len and the ordering ---------- *)
Lemma cpl_go_shift a : forall b i, cpl_go a b i = (i + cpl_go a b O)%nat.
Proof.
  induction a as [|x a IH]; intros [|y b] i; cbn [cpl_go]; try lia.
  destruct (x =? y); [|lia]. rewrite (IH b (S i)), (IH b 1%nat). lia.
Qed.
Definition cmp_at (a b : bytes) (k : nat) : comparison :=
  match nth_error a k, nth_error b k with
  | None, None => Eq
  | None, Some _ => Lt
  | Some _, None => Gt
  | Some x, Some y => N.compare x y
  end.
Theorem fs_cmp_by_common_prefix_proof a : forall b,
  let k := fs_common_prefix_len a b in
  firstn k a = firstn k b /\ (k <= length a)%nat /\ (k <= length b)%nat /\
  (forall x y, nth_error a k = Some x -> nth_error b k = Some y -> x <> y) /\
  fs_compare a b = cmp_at a b k.
Proof.
  unfold fs_common_prefix_len, fs_compare, cmp_at.
  induction a as [|x a IH]; intros [|y b]; cbn [cpl_go lex firstn nth_error length].
  - repeat split; try lia; discriminate.
  - repeat split; try lia; discriminate.
  - repeat split; try lia; discriminate.
  - destruct (N.eqb_spec x y) as [->|Hne].
    + rewrite cpl_go_shift. cbn [Nat.add firstn nth_error]. rewrite N.compare_refl.
      destruct (IH b) as (H1 & H2 & H3 & H4 & H5). repeat split; try lia; [f_equal; exact H1|exact H4|exact H5].
    + cbn [firstn nth_error]. repeat split; try lia.
      * intros x' y' Hx Hy. congruence.
      * destruct (N.compare_spec x y); try reflexivity. contradiction.
Qed.

Theorem fs_cmp_total_order_proof :
  (forall a, fs_compare a a = Eq) /\
  (forall a b, fs_compare a b = Eq <-> a = b) /\
  (forall a b, fs_eq a b = true <-> a = b) /\
  (forall a b, fs_compare b a = CompOpp (fs_compare a b)) /\
  (forall a b c, fs_compare a b = Lt -> fs_compare b c = Lt -> fs_compare a c = Lt) /\
  (forall a b c, fs_compare a b <> Gt -> fs_compare b c <> Gt -> fs_compare a c <> Gt) /\
  (forall s p, fs_starts_with s p = true -> fs_compare p s <> Gt).
Proof.
  unfold fs_compare, fs_eq. repeat split.
  - apply lex_refl.
  - apply lex_eq.
  - intros ->. apply lex_refl.
  - apply eqb_ln_eq.
  - apply eqb_ln_eq.
  - intros a b. apply lex_antisym.
  - intros a b c. apply lex_trans_lt.
  - intros a b c H1 H2 H3. destruct (lex a b) eqn:E; [| |congruence].
    + apply lex_eq in E. subst. contradiction.
    + pose proof (lex_lt_le _ _ _ E H2) as Hac. congruence.
  - intros s p H. apply fs_starts_with_proof in H. destruct H as (r & ->). apply prefix_le.
Qed.

(* ---------- slicing ---------- *)
Lemma to_nat_len (s : bytes) : N.to_nat (nlen s) = length s.
Proof. rewrite nlen_length. apply Nat2N.id. Qed.

Theorem fs_slicing_proof (s : bytes) (k : N) :
  let m := N.to_nat (N.min k (nlen s)) in
  fs_prefix s k = Some (firstn m s) /\
  fs_substring_from s k = Some (skipn m s) /\
  fs_suffix s k = Some (skipn (length s - m) s) /\
  firstn m s ++ skipn m s = s /\ length (firstn m s) = m /\ length (skipn (length s - m) s) = m.
Proof.
  intros m. pose proof (to_nat_len s) as HL. pose proof (nlen_length s) as HN.
  assert (Hm : (m <= length s)%nat) by (unfold m; lia).
  unfold fs_prefix, fs_substring_from, fs_suffix, slice_n. repeat split.
  - replace (0 <=? N.min k (nlen s)) with true by (symmetry; apply N.leb_le; lia).
    replace (N.min k (nlen s) <=? nlen s) with true by (symmetry; apply N.leb_le; lia).
    cbn [andb]. rewrite N.sub_0_r. reflexivity.
  - replace (N.min k (nlen s) <=? nlen s) with true by (symmetry; apply N.leb_le; lia).
    rewrite N.leb_refl. cbn [andb]. f_equal. fold m. apply firstn_all2. rewrite skipn_length. lia.
  - replace (nlen s - N.min k (nlen s) <=? nlen s) with true by (symmetry; apply N.leb_le; lia).
    rewrite N.leb_refl. cbn [andb]. f_equal.
    replace (N.to_nat (nlen s - N.min k (nlen s))) with (length s - m)%nat by (unfold m; lia).
    apply firstn_all2. rewrite skipn_length. lia.
  - apply firstn_skipn.
  - rewrite firstn_length. lia.
  - rewrite skipn_length. lia.
Qed.

Theorem fs_substring_proof (s : bytes) (a l : N) :
  nlen s <= USIZE_MAX ->
  fs_substring s a l =
  if a <=? nlen s then Some (firstn (N.to_nat (N.min l (nlen s - a))) (skipn (N.to_nat a) s)) else None.
Proof.
  intros HS. unfold fs_substring, slice_n, USIZE_MAX in *.
  set (e := N.min (N.min (a + l) 18446744073709551615) (nlen s)).
  assert (He : e <= nlen s) by (unfold e; lia).
  replace (e <=? nlen s) with true by (symmetry; apply N.leb_le; exact He). rewrite andb_true_r.
  destruct (N.leb_spec a (nlen s)) as [Ha|Ha].
  - replace (a <=? e) with true by (symmetry; apply N.leb_le; unfold e; lia).
    f_equal. f_equal. unfold e. lia.
  - replace (a <=? e) with false by (symmetry; apply N.leb_gt; lia). reflexivity.
Qed.
