(* C20 mechanism model of ZoSortedStrVec (src/containers/specialized/zo_sorted_str_vec.rs) as written:
   from_sorted_strings (refuses an embedded NUL and unsorted input), build_from_strings (data = every string followed
   by a NUL terminator; one boundary bit per data byte, set at the first byte of every string), get (select1 of the
   index, the empty-string test, the scan to the terminator), binary_search, lower_bound, range and the iterators.
   RankSelectInterleaved256::select1 is modelled by its specification (position of the k-th set bit; its layout is
   the subject of C04).  Definitions only. *)
From ZV.Common Require Import Base Run.
From ZV.C20 Require Import Model ModelStr.
Open Scope N_scope.

Record zo := { z_len : nat; z_bits : list bool; z_data : bytes }.
(* per string: boundaries.push(true), then one false per further byte and one for the terminator (an empty string
   contributes just the true bit and the NUL byte) *)
Definition zo_bits (ss : strs) : list bool := flat_map (fun s => true :: repeat false (length s)) ss.
Definition zo_data (ss : strs) : bytes := flat_map (fun s => s ++ [0]) ss.
Definition zo_build (ss : strs) : zo := {| z_len := length ss; z_bits := zo_bits ss; z_data := zo_data ss |}.
(* for i in 1..len { if strings[i-1] > strings[i] { Err } } *)
Fixpoint sorted_check (ss : strs) : bool :=
  match ss with
  | a :: ((b :: _) as t) => match lex a b with Gt => false | _ => sorted_check t end
  | _ => true
  end.
Definition zo_from_sorted (ss : strs) : option zo :=
  if null ss then Some (zo_build [])
  else if existsb (contains_byte 0) ss then None
  else if sorted_check ss then Some (zo_build ss) else None.

(* select1(k): position of the (k+1)-th set bit *)
Fixpoint select1 (bits : list bool) (k : nat) : option nat :=
  match bits with
  | [] => None
  | b :: t =>
      if b then match k with O => Some O | S k' => option_map S (select1 t k') end
      else option_map S (select1 t k)
  end.
Definition zo_get (z : zo) (i : nat) : option bytes :=
  if (z_len z <=? i)%nat then None else
  match select1 (z_bits z) i with
  | None => None
  | Some start =>
      let tail := skipn start (z_data z) in
      match tail with
      | [] => None                                  (* data[start_pos] out of range: unreachable *)
      | c :: _ =>
          if c =? 0 then Some []
          else match find_byte 0 tail with Some pos => Some (firstn pos tail) | None => None end
      end
  end.

Fixpoint zo_bs (fuel : nat) (z : zo) (t : bytes) (left right : nat) : bs_result :=
  match fuel with
  | O => NotFound left
  | S f =>
      if (left <? right)%nat then
        let mid := (left + (right - left) / 2)%nat in
        match zo_get z mid with
        | Some s => match lex s t with
                    | Eq => Found mid
                    | Lt => zo_bs f z t (S mid) right
                    | Gt => zo_bs f z t left mid
                    end
        | None => NotFound mid
        end
      else NotFound left
  end.
Definition zo_binary_search (z : zo) (t : bytes) : bs_result :=
  if (z_len z =? 0)%nat then NotFound O else zo_bs (S (z_len z)) z t O (z_len z).
(* Some(mid_str) if mid_str < needle => left = mid + 1, _ => right = mid *)
Fixpoint zo_lb (fuel : nat) (z : zo) (t : bytes) (left right : nat) : nat :=
  match fuel with
  | O => left
  | S f =>
      if (left <? right)%nat then
        let mid := (left + (right - left) / 2)%nat in
        match zo_get z mid with
        | Some s => match lex s t with Lt => zo_lb f z t (S mid) right | _ => zo_lb f z t left mid end
        | None => zo_lb f z t left mid
        end
      else left
  end.
Definition zo_lower_bound (z : zo) (t : bytes) : nat := zo_lb (S (z_len z)) z t O (z_len z).
(* iter() / range(): get(current) for current in from..to (an item that get refuses ends the enumeration) *)
Fixpoint zo_items (cnt : nat) (z : zo) (i : nat) : list bytes :=
  match cnt with
  | O => []
  | S c => match zo_get z i with Some s => s :: zo_items c z (S i) | None => [] end
  end.
Definition zo_iter (z : zo) : list bytes := zo_items (z_len z) z O.
Definition zo_range (z : zo) (lo hi : bytes) : list bytes :=
  let a := zo_lower_bound z lo in
  let b := Nat.min (zo_lower_bound z hi) (z_len z) in
  zo_items (b - a) z a.
