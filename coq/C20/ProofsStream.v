(* C20: StreamingLexIterator enumerates exactly the lines of the stream (ModelStream.v). *)
From ZV.Common Require Import Base Run.
From ZV.C20 Require Import Model ModelStr ModelStream ModelText ProofsStr ProofsLines ProofsText.
Open Scope N_scope.

Lemma sl_walk_lines : forall fuel rest line has,
  fst (sl_walk fuel {| sl_rest := rest; sl_line := line; sl_has := has; sl_fin := false |}) =
  map Some (lines_go fuel rest).
Proof.
  induction fuel as [|f IH]; intros rest line has; [reflexivity|].
  cbn [sl_walk lines_go]. unfold sl_next. cbn [sl_rest sl_fin].
  destruct (read_line rest) as [l r]. destruct (null l); [reflexivity|].
  specialize (IH r (strip_eol l) true).
  destruct (sl_walk f {| sl_rest := r; sl_line := strip_eol l; sl_has := true; sl_fin := false |}) as [cs e].
  cbn [fst map] in *. rewrite IH. reflexivity.
Qed.

Lemma sl_walk_end : forall fuel rest line has, (length rest < fuel)%nat ->
  let e := snd (sl_walk fuel {| sl_rest := rest; sl_line := line; sl_has := has; sl_fin := false |}) in
  sl_fin e = true /\ sl_current e = None.
Proof.
  induction fuel as [|f IH]; intros rest line has Hf; [lia|].
  cbn [sl_walk]. unfold sl_next. cbn [sl_rest sl_fin].
  destruct (read_line rest) as [l r] eqn:Er. destruct (null l) eqn:En.
  - cbn [snd]. split; reflexivity.
  - pose proof (read_line_shorter _ _ _ Er En) as Hr.
    specialize (IH r (strip_eol l) true ltac:(lia)).
    destruct (sl_walk f {| sl_rest := r; sl_line := strip_eol l; sl_has := true; sl_fin := false |}) as [cs e].
    cbn [snd] in *. exact IH.
Qed.

Theorem streaming_enumerates_proof s :
  let '(cs, e) := sl_walk (S (length s)) (sl_new s) in
  cs = map Some (lines s) /\ sl_fin e = true /\ sl_current e = None.
Proof.
  unfold sl_new, lines. pose proof (sl_walk_lines (S (length s)) s [] false) as H1.
  pose proof (sl_walk_end (S (length s)) s [] false ltac:(lia)) as H2.
  destruct (sl_walk (S (length s)) {| sl_rest := s; sl_line := []; sl_has := false; sl_fin := false |}) as [cs e].
  cbn [fst snd] in *. destruct H2 as (F & C). repeat split; assumption.
Qed.

(* with the line theorem: a sorted list written one string per line (any mix of "\n" / "\r\n", last terminator
   optional) is enumerated exactly *)
Theorem streaming_unlines_proof ls tail :
  Forall (fun p => contains_byte 10 (fst p) = false /\ ends_with_byte (fst p) 13 = false /\
                   (snd p = [10] \/ snd p = [13; 10])) ls ->
  contains_byte 10 tail = false ->
  fst (sl_walk (S (length (unlines ls ++ tail))) (sl_new (unlines ls ++ tail))) =
  map Some (map fst ls ++ (if null tail then [] else [tail])).
Proof.
  intros H1 H2. pose proof (streaming_enumerates_proof (unlines ls ++ tail)) as H.
  destruct (sl_walk (S (length (unlines ls ++ tail))) (sl_new (unlines ls ++ tail))) as [cs e].
  destruct H as (-> & _). cbn [fst]. f_equal. apply lines_unlines_proof; assumption.
Qed.
