(* C20 mechanism models, third part: the word-boundary helpers of src/string/word_boundary.rs (is_word_boundary,
   find_word_boundaries, word_at_position) and LineProcessor under every configuration
   (skip_empty_lines / trim_whitespace / preserve_line_endings): process_lines, count_lines, process_batches
   (src/string/line_processor.rs), as written.  Strings are byte lists.  Definitions only. *)
From ZV.Common Require Import Base Run.
From ZV.C20 Require Import Model ModelStr.
Open Scope N_scope.

(* ================= word_boundary.rs ================= *)
Definition byte_at (s : bytes) (i : nat) : N := nth i s 0.
(* empty text, pos == 0, pos >= len: true; else is_word_char(text[pos-1]) != is_word_char(text[pos]) *)
Definition is_word_boundary (s : bytes) (pos : nat) : bool :=
  if null s then true
  else if (pos =? 0)%nat || (length s <=? pos)%nat then true
  else xorb (is_word_char (byte_at s (pos - 1))) (is_word_char (byte_at s pos)).
(* for i in 1..len { if is_word_char(text[i-1]) != is_word_char(text[i]) { push(i) } } *)
Fixpoint fwb_go (prev : N) (rest : bytes) (i : nat) : list nat :=
  match rest with
  | [] => []
  | c :: t => (if xorb (is_word_char prev) (is_word_char c) then [i] else []) ++ fwb_go c t (S i)
  end.
(* empty text: [0]; else 0, the inner boundaries, len *)
Definition find_word_boundaries (s : bytes) : list nat :=
  match s with
  | [] => [O]
  | c :: t => O :: fwb_go c t 1 ++ [length s]
  end.
(* while start > 0 && is_word_char(text[start-1]) { start -= 1 } *)
Fixpoint wap_back (s : bytes) (start : nat) : nat :=
  match start with
  | O => O
  | S p => if is_word_char (byte_at s p) then wap_back s p else start
  end.
(* while end < len && is_word_char(text[end]) { end += 1 } *)
Fixpoint wap_fwd (fuel : nat) (s : bytes) (e : nat) : nat :=
  match fuel with
  | O => e
  | S f => if (e <? length s)%nat && is_word_char (byte_at s e) then wap_fwd f s (S e) else e
  end.
Definition word_at_position (s : bytes) (pos : nat) : option (nat * nat) :=
  if (length s <=? pos)%nat || negb (is_word_char (byte_at s pos)) then None
  else Some (wap_back s pos, wap_fwd (length s) s pos).

(* ================= LineProcessor configurations ================= *)
Record lp_cfg := { skip_empty : bool; trim_ws : bool; keep_eol : bool }.

(* str::trim (std): the Unicode White_Space characters in their UTF-8 encodings (U+0009..U+000D, U+0020,
   U+0085, U+00A0, U+1680, U+2000..U+200A, U+2028, U+2029, U+202F, U+205F, U+3000).  The theorems quantify over
   every trimming function; this concrete one is what the generated cases are evaluated with. *)
Definition ws_front (s : bytes) : nat :=
  match s with
  | c :: t =>
      if ((9 <=? c) && (c <=? 13)) || (c =? 32) then 1%nat
      else match t with
           | d :: t2 =>
               if (c =? 194) && ((d =? 133) || (d =? 160)) then 2%nat
               else match t2 with
                    | e :: _ =>
                        if (c =? 225) && (d =? 154) && (e =? 128) then 3%nat
                        else if (c =? 226) && (d =? 128) &&
                                (((128 <=? e) && (e <=? 138)) || (e =? 168) || (e =? 169) || (e =? 175)) then 3%nat
                        else if (c =? 226) && (d =? 129) && (e =? 159) then 3%nat
                        else if (c =? 227) && (d =? 128) && (e =? 128) then 3%nat
                        else O
                    | [] => O
                    end
           | [] => O
           end
  | [] => O
  end.
(* the same characters read backwards (the text is valid UTF-8, so a matching byte pattern is the character) *)
Definition ws_back (r : bytes) : nat :=
  match r with
  | c :: t =>
      if ((9 <=? c) && (c <=? 13)) || (c =? 32) then 1%nat
      else match t with
           | d :: t2 =>
               if (d =? 194) && ((c =? 133) || (c =? 160)) then 2%nat
               else match t2 with
                    | e :: _ =>
                        if (e =? 225) && (d =? 154) && (c =? 128) then 3%nat
                        else if (e =? 226) && (d =? 128) &&
                                (((128 <=? c) && (c <=? 138)) || (c =? 168) || (c =? 169) || (c =? 175)) then 3%nat
                        else if (e =? 226) && (d =? 129) && (c =? 159) then 3%nat
                        else if (e =? 227) && (d =? 128) && (c =? 128) then 3%nat
                        else O
                    | [] => O
                    end
           | [] => O
           end
  | [] => O
  end.
Fixpoint trim_go (f : bytes -> nat) (fuel : nat) (s : bytes) : bytes :=
  match fuel with
  | O => s
  | S fu => match f s with O => s | k => trim_go f fu (skipn k s) end
  end.
Definition utf8_trim (s : bytes) : bytes :=
  let a := trim_go ws_front (length s) s in
  rev (trim_go ws_back (length a) (rev a)).

Section LP.
Variable trim : bytes -> bytes.
Variable cfg : lp_cfg.

(* read_next_line: the line as delivered by BufRead::read_line, minus its ending unless endings are kept *)
Definition lp_raw (l : bytes) : bytes := if keep_eol cfg then l else strip_eol l.
(* the line handed to the handler *)
Definition lp_line (l : bytes) : bytes := if trim_ws cfg then trim (lp_raw l) else lp_raw l.
Definition lp_skipped (line : bytes) : bool := skip_empty cfg && null line.

(* process_lines with a handler that always continues *)
Fixpoint lp_go (fuel : nat) (s : bytes) : list bytes :=
  match fuel with
  | O => []
  | S f =>
      let '(l, r) := read_line s in
      if null l then [] else
      let line := lp_line l in
      if lp_skipped line then lp_go f r else line :: lp_go f r
  end.
Definition process_lines (s : bytes) : list bytes := lp_go (S (length s)) s.

(* count_lines: its own loop with its own test *)
Fixpoint count_go (fuel : nat) (s : bytes) (count : N) : N :=
  match fuel with
  | O => count
  | S f =>
      let '(l, r) := read_line s in
      if null l then count else
      let line := lp_line l in
      count_go f r (if negb (skip_empty cfg) || negb (null line) then count + 1 else count)
  end.
Definition count_lines (s : bytes) : N := count_go (S (length s)) s 0.

(* process_batches(batch_size) with a handler that always continues: the batches handed over, and the return value *)
Fixpoint pb_go (fuel : nat) (bsz : nat) (s : bytes) (batch : list bytes) (total : N)
  : list (list bytes) * N :=
  match fuel with
  | O => ([], total)
  | S f =>
      let '(l, r) := read_line s in
      if null l then
        (if null batch then ([], total) else ([batch], total + nlen batch))
      else
      let line := lp_line l in
      if lp_skipped line then pb_go f bsz r batch total else
      let batch' := batch ++ [line] in
      if (bsz <=? length batch')%nat then
        let '(bs, t) := pb_go f bsz r [] (total + nlen batch') in (batch' :: bs, t)
      else pb_go f bsz r batch' total
  end.
Definition process_batches (bsz : nat) (s : bytes) : list (list bytes) * N :=
  pb_go (S (length s)) bsz s [] 0.
End LP.

Definition cfg_of_bits (b : N) : lp_cfg :=
  {| skip_empty := N.testbit b 0; trim_ws := N.testbit b 1; keep_eol := N.testbit b 2 |}.
