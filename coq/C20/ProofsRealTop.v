(* C20: realnum_strcmp = comparison of the denoted rationals; None exactly on invalid input; total order. *)
From ZV.Common Require Import Base.
From Coq Require Import QArith.
From ZV.C20 Require Import Model ProofsDec ProofsReal.
Open Scope N_scope.

(* ---------- validation = the syntax of the value semantics ---------- *)
Definition dig_or_dot (c : N) : bool := is_digit c || (c =? 46).

Lemma count_dots_cons c t :
  count_dots (c :: t) = (if c =? 46 then 1 else 0) + count_dots t.
Proof. unfold count_dots. cbn [filter]. destruct (c =? 46); cbn [nlen]; lia. Qed.

Lemma is_digit_not_dot c : is_digit c = true -> (c =? 46) = false.
Proof.
  unfold is_digit. rewrite andb_true_iff, !N.leb_le. intros [H1 H2]. apply N.eqb_neq. lia.
Qed.

Lemma validate_go_spec s : forall d, d <= 1 ->
  validate_go s d = forallb dig_or_dot s && (count_dots s + d <=? 1).
Proof.
  induction s as [|c t IH]; intros d Hd1; cbn [validate_go forallb].
  - change (count_dots []) with 0. cbn [andb].
    destruct (N.leb_spec (0 + d) 1); [reflexivity|lia].
  - rewrite count_dots_cons. unfold dig_or_dot at 1.
    destruct (c =? 46) eqn:E46.
    + rewrite orb_true_r. cbn [andb].
      destruct (N.leb_spec 1 d) as [Hd|Hd].
      * destruct (N.leb_spec (1 + count_dots t + d) 1); [lia|]. rewrite andb_false_r. reflexivity.
      * assert (d = 0) by lia. subst d. rewrite IH by lia. f_equal.
        destruct (N.leb_spec (count_dots t + (0 + 1)) 1); destruct (N.leb_spec (1 + count_dots t + 0) 1); reflexivity || lia.
    + rewrite orb_false_r. destruct (is_digit c); cbn [andb]; [|reflexivity].
      rewrite IH by assumption. f_equal.
Qed.

Lemma validate_is_syntax s : validate_realnum s = real_syntax s.
Proof.
  unfold validate_realnum, real_syntax. destruct s as [|c t]; [reflexivity|].
  cbn [null negb andb]. rewrite validate_go_spec by lia. rewrite N.add_0_r. reflexivity.
Qed.

(* ---------- the two halves of a valid body are digit strings ---------- *)
Lemma nodots_digits s : forallb dig_or_dot s = true -> count_dots s = 0 -> digits s.
Proof.
  induction s as [|c t IH]; intros Hs Hc; [reflexivity|].
  cbn [forallb] in Hs. apply andb_true_iff in Hs. destruct Hs as [Hd Ht].
  rewrite count_dots_cons in Hc. unfold dig_or_dot in Hd.
  destruct (c =? 46) eqn:E46; [lia|]. rewrite orb_false_r in Hd.
  unfold digits. cbn [forallb]. rewrite Hd. cbn [andb]. apply IH; [assumption|lia].
Qed.

Lemma split_dot_digits s : forallb dig_or_dot s = true -> count_dots s <= 1 ->
  digits (fst (split_dot s)) /\ digits (snd (split_dot s)).
Proof.
  induction s as [|c t IH]; intros Hs Hc.
  - split; reflexivity.
  - cbn [forallb] in Hs. apply andb_true_iff in Hs. destruct Hs as [Hd Ht].
    rewrite count_dots_cons in Hc. cbn [split_dot].
    destruct (c =? 46) eqn:E46.
    + cbn [fst snd]. split; [reflexivity|]. apply nodots_digits; [assumption|lia].
    + destruct (IH Ht ltac:(lia)) as [Hi Hf].
      destruct (split_dot t) as [i f]. cbn [fst snd] in *. split; [|assumption].
      unfold dig_or_dot in Hd. rewrite E46, orb_false_r in Hd.
      unfold digits. cbn [forallb]. rewrite Hd. exact Hi.
Qed.

Lemma zero_mag_split s :
  is_zero_magnitude s = is_zero_magnitude (fst (split_dot s)) && is_zero_magnitude (snd (split_dot s)).
Proof.
  induction s as [|c t IH]; [reflexivity|].
  cbn [split_dot]. destruct (c =? 46) eqn:E46.
  - cbn [fst snd]. unfold is_zero_magnitude. cbn [forallb]. rewrite E46, orb_true_r. reflexivity.
  - destruct (split_dot t) as [i f]. cbn [fst snd] in *.
    unfold is_zero_magnitude in *. cbn [forallb]. rewrite IH. rewrite andb_assoc. reflexivity.
Qed.

Lemma real_syntax_split s : real_syntax s = true ->
  digits (fst (split_dot s)) /\ digits (snd (split_dot s)).
Proof.
  unfold real_syntax. rewrite !andb_true_iff, N.leb_le. intros [[_ Hs] Hc].
  apply split_dot_digits; assumption.
Qed.

(* ---------- signs, over Z ---------- *)
Lemma sign_cmp (x y : Z) (an bn za zb : bool) :
  (0 <= x)%Z -> (0 <= y)%Z -> (za = true <-> x = 0%Z) -> (zb = true <-> y = 0%Z) ->
  (match an && negb za, bn && negb zb with
   | true, false => Lt
   | false, true => Gt
   | _, _ => with_sign (Z.compare x y) (an && negb za)
   end) = Z.compare (if an then - x else x)%Z (if bn then - y else y)%Z.
Proof.
  intros Hx Hy Hza Hzb.
  assert (Ha : za = true /\ x = 0%Z \/ za = false /\ (0 < x)%Z).
  { destruct za; [left; split; [reflexivity|apply Hza; reflexivity]|right; split; [reflexivity|]].
    assert (x <> 0%Z) by (intros H0; apply Hza in H0; discriminate). lia. }
  assert (Hb : zb = true /\ y = 0%Z \/ zb = false /\ (0 < y)%Z).
  { destruct zb; [left; split; [reflexivity|apply Hzb; reflexivity]|right; split; [reflexivity|]].
    assert (y <> 0%Z) by (intros H0; apply Hzb in H0; discriminate). lia. }
  clear Hza Hzb.
  destruct Ha as [[-> Hx0]|[-> Hx0]]; destruct Hb as [[-> Hy0]|[-> Hy0]];
    destruct an; destruct bn; cbn [andb negb with_sign];
    match goal with
    | |- Eq = _ => symmetry; apply Z.compare_eq_iff; lia
    | |- Lt = _ => symmetry; apply Z.compare_lt_iff; lia
    | |- Gt = _ => symmetry; apply Z.compare_gt_iff; lia
    | |- CompOpp (?p ?= ?q)%Z = _ =>
        destruct (Z.compare_spec p q); cbn [CompOpp]; try reflexivity; symmetry;
        first [apply Z.compare_eq_iff; lia|apply Z.compare_gt_iff; lia|apply Z.compare_lt_iff; lia]
    | |- (?p ?= ?q)%Z = _ =>
        destruct (Z.compare_spec p q); try reflexivity; symmetry;
        first [apply Z.compare_eq_iff; lia|apply Z.compare_lt_iff; lia|apply Z.compare_gt_iff; lia]
    end.
Qed.

(* ---------- the denoted rational of a valid body ---------- *)
Definition qbody (neg : bool) (body : list N) : Q :=
  let '(i, f) := split_dot body in
  let q := Qmake (Z.of_N (rnum i f)) (N.succ_pos (10 ^ nlen f - 1)) in
  if neg then Qopp q else q.

Lemma succ_pos_pow10 n : Z.pos (N.succ_pos (10 ^ n - 1)) = Z.of_N (10 ^ n).
Proof.
  pose proof (pow10_pos n) as Hp.
  change (Z.pos (N.succ_pos (10 ^ n - 1))) with (Z.of_N (N.pos (N.succ_pos (10 ^ n - 1)))).
  rewrite N.succ_pos_spec. f_equal. lia.
Qed.

Lemma real_value_parse s :
  real_value s = match parse_sign s with
                 | None => None
                 | Some (body, neg) => if real_syntax body then Some (qbody neg body) else None
                 end.
Proof.
  destruct s as [|c r]; [reflexivity|].
  unfold real_value, parse_sign, qbody.
  destruct (c =? 43) eqn:E43.
  - destruct r as [|r0 r']; cbn [null]; [reflexivity|].
    destruct (real_syntax (r0 :: r')); [|reflexivity]. destruct (split_dot (r0 :: r')). reflexivity.
  - destruct (c =? 45) eqn:E45.
    + destruct r as [|r0 r']; cbn [null]; [reflexivity|].
      destruct (real_syntax (r0 :: r')); [|reflexivity]. destruct (split_dot (r0 :: r')). reflexivity.
    + destruct (real_syntax (c :: r)); [|reflexivity]. destruct (split_dot (c :: r)). reflexivity.
Qed.

Theorem realnum_with_sign_correct a an b bn :
  real_syntax a = true -> real_syntax b = true ->
  realnum_with_sign a an b bn = Qcompare (qbody an a) (qbody bn b).
Proof.
  intros Ha Hb.
  destruct (real_syntax_split a Ha) as [Hai Haf]. destruct (real_syntax_split b Hb) as [Hbi Hbf].
  unfold realnum_with_sign, qbody. rewrite (zero_mag_split a), (zero_mag_split b).
  destruct (split_dot a) as [ai af]. destruct (split_dot b) as [bi bf]. cbn [fst snd] in *.
  rewrite (real_mag_correct ai af bi bf Hai Haf Hbi Hbf), N_Z_compare.
  set (A := rnum ai af). set (B := rnum bi bf).
  set (za := is_zero_magnitude ai && is_zero_magnitude af).
  set (zb := is_zero_magnitude bi && is_zero_magnitude bf).
  pose proof (pow10_pos (nlen af)) as HFA. pose proof (pow10_pos (nlen bf)) as HFB.
  assert (Hza : za = true <-> Z.of_N (A * 10 ^ nlen bf) = 0%Z).
  { unfold za, A, rnum. rewrite andb_true_iff, (zero_mag_digits ai Hai), (zero_mag_digits af Haf). nia. }
  assert (Hzb : zb = true <-> Z.of_N (B * 10 ^ nlen af) = 0%Z).
  { unfold zb, B, rnum. rewrite andb_true_iff, (zero_mag_digits bi Hbi), (zero_mag_digits bf Hbf). nia. }
  rewrite (sign_cmp (Z.of_N (A * 10 ^ nlen bf)) (Z.of_N (B * 10 ^ nlen af)) an bn za zb
             ltac:(lia) ltac:(lia) Hza Hzb).
  unfold Qcompare.
  destruct an; destruct bn; cbn [Qnum Qden Qopp]; rewrite !succ_pos_pow10; f_equal; lia.
Qed.

Theorem realnum_strcmp_correct_proof a b :
  realnum_strcmp a b =
  match real_value a, real_value b with
  | Some x, Some y => Some (Qcompare x y)
  | _, _ => None
  end.
Proof.
  rewrite !real_value_parse. unfold realnum_strcmp.
  destruct a as [|ca ra].
  { reflexivity. }
  destruct b as [|cb rb].
  { cbn [null orb]. change (parse_sign []) with (@None (list N * bool)).
    destruct (parse_sign (ca :: ra)) as [[a' an]|]; [|reflexivity].
    destruct (real_syntax a'); reflexivity. }
  cbn [null orb].
  destruct (parse_sign (ca :: ra)) as [[a' an]|]; [|reflexivity].
  destruct (parse_sign (cb :: rb)) as [[b' bn]|].
  2:{ destruct (real_syntax a'); reflexivity. }
  rewrite !validate_is_syntax.
  destruct (real_syntax a') eqn:Ea; cbn [negb]; [|reflexivity].
  destruct (real_syntax b') eqn:Eb; cbn [negb]; [|reflexivity].
  rewrite realnum_with_sign_correct by assumption. reflexivity.
Qed.

(* total order on valid inputs, as corollaries *)
Theorem realnum_antisym_proof a b c :
  realnum_strcmp a b = Some c -> realnum_strcmp b a = Some (CompOpp c).
Proof.
  rewrite !realnum_strcmp_correct_proof.
  destruct (real_value a) as [x|]; destruct (real_value b) as [y|]; try discriminate.
  intros H. inversion H. rewrite <- Qcompare_antisym. reflexivity.
Qed.

Lemma Qcompare_trans_same (x y z : Q) o :
  Qcompare x y = o -> Qcompare y z = o -> Qcompare x z = o.
Proof.
  destruct o; intros H1 H2.
  - rewrite <- Qeq_alt in *. eapply Qeq_trans; eassumption.
  - rewrite <- Qlt_alt in *. eapply Qlt_trans; eassumption.
  - rewrite <- Qgt_alt in *. eapply Qlt_trans; eassumption.
Qed.

Theorem realnum_trans_proof a b c o :
  realnum_strcmp a b = Some o -> realnum_strcmp b c = Some o -> realnum_strcmp a c = Some o.
Proof.
  rewrite !realnum_strcmp_correct_proof.
  destruct (real_value a) as [x|]; destruct (real_value b) as [y|]; destruct (real_value c) as [z|];
    try discriminate.
  intros H1 H2. injection H1 as H1'. injection H2 as H2'. f_equal.
  eapply Qcompare_trans_same; eassumption.
Qed.

(* mixed transitivity: a <= b and b <= c (as reported by the comparator) give a <= c, strict if one step is strict *)
Theorem realnum_le_trans_proof a b c o1 o2 :
  realnum_strcmp a b = Some o1 -> realnum_strcmp b c = Some o2 -> o1 <> Gt -> o2 <> Gt ->
  exists o3, realnum_strcmp a c = Some o3 /\ o3 <> Gt /\ (o3 = Eq -> o1 = Eq /\ o2 = Eq).
Proof.
  rewrite !realnum_strcmp_correct_proof.
  destruct (real_value a) as [x|]; destruct (real_value b) as [y|]; destruct (real_value c) as [z|];
    try discriminate.
  intros H1 H2 Hn1 Hn2. injection H1 as H1'. injection H2 as H2'.
  exists (Qcompare x z). split; [reflexivity|].
  destruct o1; destruct o2; try congruence.
  - rewrite <- Qeq_alt in *. assert (He : (x == z)%Q) by (eapply Qeq_trans; eassumption).
    rewrite Qeq_alt in He. rewrite He. split; [discriminate|auto].
  - rewrite <- Qeq_alt in H1'. rewrite <- Qlt_alt in H2'.
    assert (Hl : (x < z)%Q) by (rewrite H1'; assumption). rewrite Qlt_alt in Hl. rewrite Hl. split; discriminate.
  - rewrite <- Qlt_alt in H1'. rewrite <- Qeq_alt in H2'.
    assert (Hl : (x < z)%Q) by (rewrite <- H2'; assumption). rewrite Qlt_alt in Hl. rewrite Hl. split; discriminate.
  - rewrite <- Qlt_alt in *. assert (Hl : (x < z)%Q) by (eapply Qlt_trans; eassumption).
    rewrite Qlt_alt in Hl. rewrite Hl. split; discriminate.
Qed.

Example realnum_nontrivial :
  realnum_strcmp [48; 48; 55; 46; 53] [55; 46; 53; 48] = Some Eq /\       (* "007.5" = "7.5"  *)
  realnum_strcmp [45; 48; 46; 48] [48] = Some Eq /\                       (* "-0.0" = "0"    *)
  realnum_strcmp [45; 49; 46; 53] [45; 49; 46; 50; 53] = Some Lt /\       (* "-1.5" < "-1.25" *)
  realnum_strcmp [49; 46; 50; 46; 51] [49] = None /\                      (* "1.2.3" invalid  *)
  real_value [45; 49; 46; 53] = Some (Qopp (Qmake 15 10)).
Proof. repeat split; vm_compute; reflexivity. Qed.
