(* C20 mechanism model of src/string/unicode.rs: utf8_byte_count (the lookup table), Utf8ToUtf32Iterator
   (new / next_char / prev_char / reset / current / byte_position, as written: lead-byte length, bounds test,
   str::from_utf8 on the sub-slice, the backward scan over continuation bytes) and validate_utf8_and_count_chars.
   std's str::from_utf8 + chars() is modelled by its specification (the UTF-8 automaton of core::str::validations:
   no overlong forms, no surrogates, nothing above U+10FFFF).  Definitions only. *)
From ZV.Common Require Import Base Run.
From ZV.C20 Require Import Model ModelStr.
Open Scope N_scope.

(* UTF8_BYTE_COUNT_LUT *)
Definition utf8_byte_count (b : N) : nat :=
  if b <? 128 then 1 else if b <? 192 then 0 else if b <? 224 then 2 else if b <? 240 then 3
  else if b <? 248 then 4 else 0.

Definition in_rng (lo hi b : N) : bool := (lo <=? b) && (b <=? hi).
Definition cont (b : N) : bool := in_rng 128 191 b.
Definition second3 (b0 b1 : N) : bool :=
  if b0 =? 224 then in_rng 160 191 b1 else if b0 =? 237 then in_rng 128 159 b1 else cont b1.
Definition second4 (b0 b1 : N) : bool :=
  if b0 =? 240 then in_rng 144 191 b1 else if b0 =? 244 then in_rng 128 143 b1 else cont b1.

(* std: the first character of a byte string, with its encoded length; None = invalid at this point *)
Definition decode1 (s : bytes) : option (N * nat) :=
  match s with
  | [] => None
  | b0 :: t =>
      if b0 <? 128 then Some (b0, 1%nat)
      else if in_rng 194 223 b0 then
        match t with
        | b1 :: _ => if cont b1 then Some ((b0 mod 32) * 64 + b1 mod 64, 2%nat) else None
        | _ => None
        end
      else if in_rng 224 239 b0 then
        match t with
        | b1 :: b2 :: _ =>
            if second3 b0 b1 && cont b2
            then Some ((b0 mod 16) * 4096 + (b1 mod 64) * 64 + b2 mod 64, 3%nat) else None
        | _ => None
        end
      else if in_rng 240 244 b0 then
        match t with
        | b1 :: b2 :: b3 :: _ =>
            if second4 b0 b1 && cont b2 && cont b3
            then Some ((b0 mod 8) * 262144 + (b1 mod 64) * 4096 + (b2 mod 64) * 64 + b3 mod 64, 4%nat) else None
        | _ => None
        end
      else None
  end.

(* str::from_utf8(s).map(|s| s.chars()): the characters with their encoded lengths, None = Err *)
Fixpoint chars_go (fuel : nat) (s : bytes) {struct fuel} : option (list (N * nat)) :=
  match s with
  | [] => Some []
  | _ =>
      match fuel with
      | O => None
      | S f =>
          match decode1 s with
          | Some (cp, l) =>
              match chars_go f (skipn l s) with Some r => Some ((cp, l) :: r) | None => None end
          | None => None
          end
      end
  end.
Definition chars (s : bytes) : option (list (N * nat)) := chars_go (length s) s.

(* validate_utf8_and_count_chars (the AVX2 branch is compiled only with target-feature avx2 and then also ends in
   the scalar function unless the text is all ASCII, where both give len) *)
Definition validate_count (s : bytes) : option N :=
  match chars s with Some cs => Some (nlen cs) | None => None end.

(* ---------------- Utf8ToUtf32Iterator ---------------- *)
Record u8it := { u_pos : nat; u_cur : option N }.
Definition u8_new (s : bytes) : option u8it :=
  match chars s with Some _ => Some {| u_pos := O; u_cur := None |} | None => None end.
(* str::from_utf8(char_bytes) -> Ok(s) => s.chars().next() *)
Definition first_char (cb : bytes) : option (option N) :=
  match chars cb with Some l => Some (option_map fst (hd_error l)) | None => None end.
(* (bytes[pos] & 0xC0) == 0x80 *)
Definition is_cont_land (b : N) : bool := N.land b 192 =? 128.

Definition next_char (s : bytes) (it : u8it) : u8it * option N :=
  let pos := u_pos it in
  if (length s <=? pos)%nat then ({| u_pos := pos; u_cur := None |}, None) else
  let cl := utf8_byte_count (nth pos s 0) in
  if (cl =? 0)%nat || (length s <? pos + cl)%nat then ({| u_pos := pos; u_cur := None |}, None) else
  match first_char (firstn cl (skipn pos s)) with
  | Some c => ({| u_pos := (pos + cl)%nat; u_cur := c |}, c)
  | None => ({| u_pos := pos; u_cur := None |}, None)
  end.
(* let mut pos = position - 1; while pos > 0 && is_cont(bytes[pos]) { pos -= 1 } *)
Fixpoint back_scan (s : bytes) (p : nat) : nat :=
  match p with
  | O => O
  | S p' => if is_cont_land (nth p s 0) then back_scan s p' else p
  end.
Definition prev_char (s : bytes) (it : u8it) : u8it * option N :=
  let pos := u_pos it in
  if (pos =? 0)%nat then ({| u_pos := pos; u_cur := None |}, None) else
  let p := back_scan s (pos - 1) in
  let cl := utf8_byte_count (nth p s 0) in
  if (cl =? 0)%nat || (length s <? p + cl)%nat then ({| u_pos := pos; u_cur := None |}, None) else
  match first_char (firstn cl (skipn p s)) with
  | Some c => ({| u_pos := p; u_cur := c |}, c)
  | None => ({| u_pos := pos; u_cur := None |}, None)
  end.
Definition u8_reset (it : u8it) : u8it := {| u_pos := O; u_cur := None |}.

(* operation histories: 0 next_char, 1 prev_char, 2 reset; observed after each: return value, current(), byte_position() *)
Fixpoint u8_run (s : bytes) (it : u8it) (ops : list N) : list (option N * option N * N) :=
  match ops with
  | [] => []
  | op :: rest =>
      let '(it', ret) :=
        match op with
        | 0 => next_char s it
        | 1 => prev_char s it
        | _ => (u8_reset it, None)
        end in
      (ret, u_cur it', N.of_nat (u_pos it')) :: u8_run s it' rest
  end.

(* walking with next_char / prev_char until it answers None *)
Fixpoint walk_fwd (fuel : nat) (s : bytes) (it : u8it) : list N * u8it :=
  match fuel with
  | O => ([], it)
  | S f => match next_char s it with
           | (it', Some c) => let '(cs, e) := walk_fwd f s it' in (c :: cs, e)
           | (it', None) => ([], it')
           end
  end.
Fixpoint walk_bwd (fuel : nat) (s : bytes) (it : u8it) : list N * u8it :=
  match fuel with
  | O => ([], it)
  | S f => match prev_char s it with
           | (it', Some c) => let '(cs, e) := walk_bwd f s it' in (c :: cs, e)
           | (it', None) => ([], it')
           end
  end.

(* S: the UTF-8 encoding of a Unicode scalar value *)
Definition is_scalar (c : N) : bool := (c <? 55296) || ((57344 <=? c) && (c <? 1114112)).
Definition encode (c : N) : bytes :=
  if c <? 128 then [c]
  else if c <? 2048 then [192 + c / 64; 128 + c mod 64]
  else if c <? 65536 then [224 + c / 4096; 128 + (c / 64) mod 64; 128 + c mod 64]
  else [240 + c / 262144; 128 + (c / 4096) mod 64; 128 + (c / 64) mod 64; 128 + c mod 64].
Definition encode_all (cs : list N) : bytes := flat_map encode cs.
