(* C20 correspondence, extension: cases for the FastStr model (ModelFast.v), the word-boundary helpers and the
   LineProcessor configurations (ModelText.v).  The old cases are embedded by a coercion.  Definitions only. *)
From ZV.Common Require Import Base Run.
From ZV.C20 Require Import Model ModelStr ModelFast ModelText ModelUtf8 ModelStream ModelSearch ModelZo ModelSsv ModelCmp Cases.
Open Scope N_scope.

Definition eqb_on (a b : option N) : bool :=
  match a, b with None, None => true | Some x, Some y => x =? y | _, _ => false end.
Definition eqb_obl (a b : option (list N)) : bool :=
  match a, b with None, None => true | Some x, Some y => eqb_ln x y | _, _ => false end.
Definition nat_opt (o : option nat) : option N := option_map N.of_nat o.
Definition ord_code (c : comparison) : Z := match c with Lt => (-1)%Z | Eq => 0%Z | Gt => 1%Z end.

(* one slicing call: op 0 substring(a, l), 1 substring_from(a), 2 prefix(a), 3 suffix(a), 4 get_byte(a) (as a
   one-byte string); the result, None = the call panicked (get_byte: returned None) *)
Definition slice_ok (s : list N) (q : N * N * N * option (list N)) : bool :=
  let '(op, a, l, r) := q in
  match op with
  | 0 => eqb_obl (fs_substring s a l) r
  | 1 => eqb_obl (fs_substring_from s a) r
  | 2 => eqb_obl (fs_prefix s a) r
  | 3 => eqb_obl (fs_suffix s a) r
  | _ => eqb_obl (option_map (fun b => [b]) (fs_get_byte s a)) r
  end.

Fixpoint eqb_lb (a b : list bool) : bool :=
  match a, b with
  | [], [] => true
  | x :: a', y :: b' => Bool.eqb x y && eqb_lb a' b'
  | _, _ => false
  end.
Definition eqb_span (a b : option (N * N)) : bool :=
  match a, b with
  | None, None => true
  | Some (x1, x2), Some (y1, y2) => (x1 =? y1) && (x2 =? y2)
  | _, _ => false
  end.
Fixpoint eqb_lspan (a b : list (option (N * N))) : bool :=
  match a, b with
  | [], [] => true
  | x :: a', y :: b' => eqb_span x y && eqb_lspan a' b'
  | _, _ => false
  end.
Fixpoint eqb_llln (a b : list (list (list N))) : bool :=
  match a, b with
  | [], [] => true
  | x :: a', y :: b' => eqb_lln x y && eqb_llln a' b'
  | _, _ => false
  end.
Definition span_n (o : option (nat * nat)) : option (N * N) :=
  match o with Some (a, b) => Some (N.of_nat a, N.of_nat b) | None => None end.

Definition eqb_uobs (a b : option N * option N * N) : bool :=
  let '(r1, c1, p1) := a in let '(r2, c2, p2) := b in eqb_on r1 r2 && eqb_on c1 c2 && (p1 =? p2).
Fixpoint eqb_luobs (a b : list (option N * option N * N)) : bool :=
  match a, b with
  | [], [] => true
  | x :: a', y :: b' => eqb_uobs x y && eqb_luobs a' b'
  | _, _ => false
  end.

Definition eqb_sobs (a b : N * option (list N) * bool) : bool :=
  let '(r1, c1, e1) := a in let '(r2, c2, e2) := b in (r1 =? r2) && eqb_obl c1 c2 && Bool.eqb e1 e2.
Fixpoint eqb_lsobs (a b : list (N * option (list N) * bool)) : bool :=
  match a, b with
  | [], [] => true
  | x :: a', y :: b' => eqb_sobs x y && eqb_lsobs a' b'
  | _, _ => false
  end.

Definition res_code (r : bs_result) : bool * N :=
  match r with Found i => (true, N.of_nat i) | NotFound i => (false, N.of_nat i) end.
Definition eqb_res (a b : bool * N) : bool := Bool.eqb (fst a) (fst b) && (snd a =? snd b).
Fixpoint eqb_lres (a b : list (bool * N)) : bool :=
  match a, b with
  | [], [] => true
  | x :: a', y :: b' => eqb_res x y && eqb_lres a' b'
  | _, _ => false
  end.
Fixpoint eqb_lobl (a b : list (option (list N))) : bool :=
  match a, b with
  | [], [] => true
  | x :: a', y :: b' => eqb_obl x y && eqb_lobl a' b'
  | _, _ => false
  end.
Fixpoint pairs_of {A} (l : list A) : list (A * A) :=
  match l with a :: ((b :: _) as t) => (a, b) :: pairs_of t | _ => [] end.

Inductive xcase :=
| XOld (c : case)
(* FastStr on the pair (a, b): find(b) / find_byte(b[0]) / find_byte_optimized(b[0]) in a; compare, ==,
   starts_with, ends_with, common_prefix_len; hash_fast of a; slicing calls on a *)
| XFast (a b : list N) (find fb fbo : option N) (ord : Z) (eq sw ew : bool) (cpl : N) (hash : N)
        (slices : list (N * N * N * option (list N)))
(* find_word_boundaries; is_word_boundary and word_at_position at 0 .. len+1 *)
| XBound (s : list N) (bs : list N) (isb : list bool) (wap : list (option (N * N)))
(* LineProcessor::with_config(cfg bits: 1 skip_empty, 2 trim, 4 preserve endings): process_lines, count_lines,
   process_batches(bsz1 - 1) (the batches and the return value; bsz1 = 0: not called) *)
| XLinesCfg (cfg : N) (bsz1 : N) (s : list N) (out : list (list N)) (count : N)
            (batches : list (list (list N))) (ret : N)
(* unicode.rs: validate_utf8_and_count_chars (None = Err); Utf8ToUtf32Iterator::new fails exactly then; otherwise the
   operation history ops (0 next_char, 1 prev_char, 2 reset) with (return value, current(), byte_position()) after each *)
| XUtf8 (s : list N) (count : option N) (ops : list N) (obs : list (option N * option N * N))
(* utf8_byte_count of the bytes 0 .. 255 *)
| XByteCount (l : list N)
(* StreamingLexIterator over the text: ops 0 next, 1 prev, 2 seek_start, 3 seek_end, 4 seek_lower_bound; after each
   the answer (0 false, 1 true, 2 Err), current(), is_at_end() *)
| XStream (s : list N) (ops : list N) (obs : list (N * option (list N) * bool))
(* SortableStrVec::binary_search with cache_block_size bs on the vector whose sorted enumeration is l: per probe
   (found, index) *)
| XSearch (l : list (list N)) (bs : N) (probes : list (list N)) (res : list (bool * N))
(* ZoSortedStrVec::from_sorted_strings(ss): accepted?; get(0 .. len+1); iter(); binary_search per probe; range(lo, hi)
   for consecutive probes *)
| XZo (ss : list (list N)) (accepted : bool) (gets : list (option (list N))) (iter : list (list N))
      (probes : list (list N)) (res : list (bool * N)) (ranges : list (list (list N)))
(* SortableStrVec::new, push_str / push of every string (accepted = all Ok with ids 0, 1, ...), then get(0 .. len+1) *)
| XPush (ss : list (list N)) (accepted : bool) (gets : list (option (list N)))
(* SortableStrVec::fast_lexicographic_cmp(a, b) (the release-mode sort kernel, reached through the cfg(zipora_verif) hook) *)
| XCmpK (a b : list N) (ord : Z).
Coercion XOld : case >-> xcase.

Definition xcase_ok (c : xcase) : bool :=
  match c with
  | XOld c => case_ok c
  | XFast a b find fb fbo ord eq sw ew cpl hash slices =>
      eqb_on (nat_opt (fs_find a b)) find &&
      match b with
      | c :: _ => eqb_on (nat_opt (find_byte c a)) fb && eqb_on (nat_opt (find_byte c a)) fbo
      | [] => true
      end &&
      Z.eqb (ord_code (fs_compare a b)) ord && Bool.eqb (fs_eq a b) eq &&
      Bool.eqb (fs_starts_with a b) sw && Bool.eqb (fs_ends_with a b) ew &&
      (N.of_nat (fs_common_prefix_len a b) =? cpl) && (hash_fast a =? hash) &&
      forallb (slice_ok a) slices
  | XBound s bs isb wap =>
      eqb_ln (map N.of_nat (find_word_boundaries s)) bs &&
      eqb_lb (map (is_word_boundary s) (seq 0 (length s + 2))) isb &&
      eqb_lspan (map (fun p => span_n (word_at_position s p)) (seq 0 (length s + 2))) wap
  | XLinesCfg cfg bsz1 s out count batches ret =>
      let c := cfg_of_bits cfg in
      eqb_lln (process_lines utf8_trim c s) out && (count_lines utf8_trim c s =? count) &&
      (if bsz1 =? 0 then true else
       let '(bs, t) := process_batches utf8_trim c (N.to_nat (bsz1 - 1)) s in eqb_llln bs batches && (t =? ret))
  | XUtf8 s count ops obs =>
      match u8_new s, validate_count s, count with
      | Some it, Some n, Some m => (n =? m) && eqb_luobs (u8_run s it ops) obs
      | None, None, None => null obs
      | _, _, _ => false
      end
  | XByteCount l => eqb_ln (map (fun i => N.of_nat (utf8_byte_count (N.of_nat i))) (seq 0 256)) l
  | XStream s ops obs => eqb_lsobs (sl_run (sl_new s) ops) obs
  | XSearch l bs probes res =>
      if (N.to_nat bs * 2 <? length l)%nat
      then eqb_lres (map (fun t => res_code (ssv_binary_search l t (N.to_nat bs))) probes) res
      else (* small path = std binary_search_by: among equal strings any index may be returned *)
        (length probes =? length res)%nat &&
        forallb (fun tr => let '(t, r) := tr in
                   match fst r, ssv_binary_search l t (N.to_nat bs) with
                   | true, Found _ => (snd r <? nlen l) && eqb_ln (nth_str l (N.to_nat (snd r))) t
                   | false, NotFound k => snd r =? N.of_nat k
                   | _, _ => false
                   end) (combine probes res)
  | XZo ss accepted gets iter probes res ranges =>
      match zo_from_sorted ss with
      | None => negb accepted
      | Some z =>
          accepted && eqb_lobl (map (zo_get z) (seq 0 (length ss + 2))) gets && eqb_lln (zo_iter z) iter &&
          eqb_lres (map (fun t => res_code (zo_binary_search z t)) probes) res &&
          eqb_llln (map (fun p => zo_range z (fst p) (snd p)) (pairs_of probes)) ranges
      end
  | XPush ss accepted gets =>
      match ssv_push_all ssv_new ss with
      | None => negb accepted
      | Some v => accepted && eqb_lobl (map (fun i => ssv_get v (N.of_nat i)) (seq 0 (length ss + 2))) gets
      end
  | XCmpK a b ord => Z.eqb (ord_code (fast_lex_cmp a b)) ord
  end.
