(* C20 mechanism model: src/string/numeric_compare.rs as written (after the fix: commit),
   strings are byte lists.  Plus the value semantics the property names.
   Definitions only. *)
From ZV.Common Require Import Base.
From Coq Require Import QArith.
Open Scope N_scope.

Definition is_digit (c : N) : bool := (48 <=? c) && (c <=? 57).
Definition null {A} (l : list A) : bool := match l with [] => true | _ => false end.

(* str::cmp: byte-wise lexicographic, a proper prefix is smaller *)
Fixpoint lex (a b : list N) : comparison :=
  match a, b with
  | [], [] => Eq
  | [], _ => Lt
  | _, [] => Gt
  | x :: a', y :: b' => match N.compare x y with Eq => lex a' b' | o => o end
  end.

(* trim_start_matches('0') / trim_end_matches('0') *)
Fixpoint strip0 (a : list N) : list N :=
  match a with
  | c :: t => if c =? 48 then strip0 t else a
  | [] => []
  end.
Definition rstrip0 (a : list N) : list N := rev (strip0 (rev a)).

(* compare_decimal_magnitude *)
Definition mag_cmp (a b : list N) : comparison :=
  let a' := strip0 a in
  let b' := strip0 b in
  let a'' := if null a' then [48] else a' in
  let b'' := if null b' then [48] else b' in
  match N.compare (nlen a'') (nlen b'') with
  | Eq => lex a'' b''
  | o => o
  end.

Definition is_zero_magnitude (s : list N) : bool :=
  forallb (fun c => (c =? 48) || (c =? 46)) s.

(* parse_sign *)
Definition parse_sign (s : list N) : option (list N * bool) :=
  match s with
  | [] => None
  | c :: r =>
      if c =? 43 then (if null r then None else Some (r, false))
      else if c =? 45 then (if null r then None else Some (r, true))
      else Some (s, false)
  end.

Definition with_sign (cmp : comparison) (a_neg : bool) : comparison :=
  if a_neg then CompOpp cmp else cmp.

Definition decimal_with_sign (a : list N) (a_neg : bool) (b : list N) (b_neg : bool) : comparison :=
  let a_neg := a_neg && negb (is_zero_magnitude a) in
  let b_neg := b_neg && negb (is_zero_magnitude b) in
  match a_neg, b_neg with
  | true, false => Lt
  | false, true => Gt
  | _, _ => with_sign (mag_cmp a b) a_neg
  end.

Definition decimal_strcmp (a b : list N) : option comparison :=
  if null a || null b then None else
  match parse_sign a with
  | None => None
  | Some (a', an) =>
      match parse_sign b with
      | None => None
      | Some (b', bn) =>
          if negb (forallb is_digit a') then None
          else if negb (forallb is_digit b') then None
          else Some (decimal_with_sign a' an b' bn)
      end
  end.

(* s.find('.') split *)
Fixpoint split_dot (s : list N) : list N * list N :=
  match s with
  | [] => ([], [])
  | c :: t => if c =? 46 then ([], t) else let '(i, f) := split_dot t in (c :: i, f)
  end.

Fixpoint validate_go (s : list N) (dots : N) : bool :=
  match s with
  | [] => true
  | c :: t =>
      if c =? 46 then (if 1 <=? dots then false else validate_go t (dots + 1))
      else if is_digit c then validate_go t dots else false
  end.
Definition validate_realnum (s : list N) : bool :=
  if null s then false else validate_go s 0.

Definition then_with (c d : comparison) : comparison :=
  match c with Eq => d | _ => c end.

Definition realnum_with_sign (a : list N) (a_neg : bool) (b : list N) (b_neg : bool) : comparison :=
  let a_neg := a_neg && negb (is_zero_magnitude a) in
  let b_neg := b_neg && negb (is_zero_magnitude b) in
  match a_neg, b_neg with
  | true, false => Lt
  | false, true => Gt
  | _, _ =>
      let '(ai, af) := split_dot a in
      let '(bi, bf) := split_dot b in
      with_sign (then_with (mag_cmp ai bi) (lex (rstrip0 af) (rstrip0 bf))) a_neg
  end.

Definition realnum_strcmp (a b : list N) : option comparison :=
  if null a || null b then None else
  match parse_sign a with
  | None => None
  | Some (a', an) =>
      match parse_sign b with
      | None => None
      | Some (b', bn) =>
          if negb (validate_realnum a') then None
          else if negb (validate_realnum b') then None
          else Some (realnum_with_sign a' an b' bn)
      end
  end.

(* ---------- S: the value semantics ---------- *)
Fixpoint dval (l : list N) : N :=
  match l with
  | [] => 0
  | c :: t => (c - 48) * 10 ^ nlen t + dval t
  end.

(* a decimal integer string: optional sign, then one or more digits *)
Definition dec_value (s : list N) : option Z :=
  match s with
  | [] => None
  | c :: r =>
      let '(body, neg) := if c =? 43 then (r, false) else if c =? 45 then (r, true) else (s, false) in
      if null body then None
      else if forallb is_digit body then
        Some (if neg then (- Z.of_N (dval body))%Z else Z.of_N (dval body))
      else None
  end.

(* a real-number string: optional sign, digits with at most one '.', not empty;
   value (int + frac / 10^|frac|) as a rational *)
Definition count_dots (s : list N) : N := nlen (filter (fun c => c =? 46) s).
Definition real_syntax (body : list N) : bool :=
  negb (null body) && forallb (fun c => is_digit c || (c =? 46)) body && (count_dots body <=? 1).
Definition real_value (s : list N) : option Q :=
  match s with
  | [] => None
  | c :: r =>
      let '(body, neg) := if c =? 43 then (r, false) else if c =? 45 then (r, true) else (s, false) in
      if real_syntax body then
        let '(i, f) := split_dot body in
        let num := Z.of_N (dval i * 10 ^ nlen f + dval f) in
        let q := Qmake num (N.succ_pos (10 ^ nlen f - 1)) in
        Some (if neg then Qopp q else q)
      else None
  end.

(* ---------- correspondence ---------- *)
Definition cmp_code (c : option comparison) : Z :=
  match c with None => 9 | Some Lt => (-1) | Some Eq => 0 | Some Gt => 1 end%Z.
Definition run_case (op : N) (a b : list N) : Z :=
  match op with
  | 0 => cmp_code (decimal_strcmp a b)
  | 1 => cmp_code (realnum_strcmp a b)
  | _ => 99%Z
  end.
