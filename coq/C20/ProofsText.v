(* C20: word-boundary helpers and LineProcessor configurations (ModelText.v). *)
From ZV.Common Require Import Base Run.
From ZV.C20 Require Import Model ModelStr ModelText ProofsStr.
Open Scope N_scope.

(* ================= find_word_boundaries / is_word_boundary ================= *)
Lemma byte_at_app_r pre x t : byte_at (pre ++ x :: t) (length pre) = x.
Proof. unfold byte_at. rewrite app_nth2, Nat.sub_diag by lia. reflexivity. Qed.

Lemma fwb_go_filter (s : bytes) : forall t pre prev i,
  s = pre ++ prev :: t -> i = S (length pre) ->
  fwb_go prev t i = filter (is_word_boundary s) (seq i (length t)).
Proof.
  induction t as [|c t IH]; intros pre prev i Hs Hi; cbn [fwb_go length seq filter]; [reflexivity|].
  assert (Hb : is_word_boundary s i = xorb (is_word_char prev) (is_word_char c)).
  { assert (Hn : null s = false) by (rewrite Hs; destruct pre; reflexivity).
    unfold is_word_boundary. rewrite Hn.
    replace (i =? 0)%nat with false by (symmetry; apply Nat.eqb_neq; lia).
    replace (length s <=? i)%nat with false
      by (symmetry; apply Nat.leb_gt; rewrite Hs, app_length; cbn [length]; lia).
    cbn [orb]. rewrite Hi. replace (S (length pre) - 1)%nat with (length pre) by lia. rewrite Hs at 1. rewrite byte_at_app_r.
    rewrite Hs. replace (pre ++ prev :: c :: t) with ((pre ++ [prev]) ++ c :: t) by (rewrite <- app_assoc; reflexivity).
    replace (S (length pre)) with (length (pre ++ [prev])) by (rewrite app_length; cbn; lia).
    rewrite byte_at_app_r. reflexivity. }
  rewrite Hb. rewrite (IH (pre ++ [prev]) c (S i)).
  - destruct (xorb (is_word_char prev) (is_word_char c)); reflexivity.
  - rewrite <- app_assoc. exact Hs.
  - rewrite app_length. cbn. lia.
Qed.

Theorem find_word_boundaries_proof s :
  find_word_boundaries s = filter (is_word_boundary s) (seq 0 (S (length s))).
Proof.
  destruct s as [|c t]; [reflexivity|]. unfold find_word_boundaries.
  change (seq 0 (S (length (c :: t)))) with (O :: seq 1 (length (c :: t))).
  cbn [length]. rewrite seq_S. cbn [filter]. change (is_word_boundary (c :: t) 0) with true. cbn iota.
  f_equal. rewrite filter_app. f_equal.
  - apply (fwb_go_filter (c :: t) t [] c 1%nat); reflexivity.
  - cbn [filter Nat.add]. unfold is_word_boundary. cbn [null length].
    replace (S (length t) <=? S (length t))%nat with true by (symmetry; apply Nat.leb_le; lia).
    rewrite orb_true_r. reflexivity.
Qed.

(* ================= word_at_position ================= *)
Lemma wap_back_spec s : forall p,
  let a := wap_back s p in
  (a <= p)%nat /\ (forall i, (a <= i < p)%nat -> is_word_char (byte_at s i) = true) /\
  (a = O \/ is_word_char (byte_at s (a - 1)) = false).
Proof.
  induction p as [|p IH]; cbn [wap_back].
  - repeat split; [lia|intros; lia|left; reflexivity].
  - destruct (is_word_char (byte_at s p)) eqn:E.
    + destruct IH as (H1 & H2 & H3). repeat split; [lia| |exact H3].
      intros i Hi. destruct (Nat.eq_dec i p) as [->|]; [exact E|apply H2; lia].
    + repeat split; [lia|intros; lia|]. right. replace (S p - 1)%nat with p by lia. exact E.
Qed.
Lemma wap_fwd_spec s : forall fuel e, (e <= length s)%nat -> (length s - e <= fuel)%nat ->
  let b := wap_fwd fuel s e in
  (e <= b <= length s)%nat /\ (forall i, (e <= i < b)%nat -> is_word_char (byte_at s i) = true) /\
  (b = length s \/ is_word_char (byte_at s b) = false).
Proof.
  induction fuel as [|f IH]; intros e He Hf; cbn [wap_fwd].
  - repeat split; try lia; try (intros; lia); try (left; lia).
  - destruct (Nat.ltb_spec e (length s)) as [L|L]; cbn [andb].
    + destruct (is_word_char (byte_at s e)) eqn:E.
      * destruct (IH (S e) ltac:(lia) ltac:(lia)) as (H1 & H2 & H3). repeat split; try lia; [|exact H3].
        intros i Hi. destruct (Nat.eq_dec i e) as [->|]; [exact E|apply H2; lia].
      * repeat split; try lia; try (intros; lia); try (right; exact E).
    + repeat split; try lia; try (intros; lia); try (left; lia).
Qed.

Theorem word_at_position_proof s pos :
  match word_at_position s pos with
  | Some (a, b) =>
      (a <= pos < b)%nat /\ (b <= length s)%nat /\
      (forall i, (a <= i < b)%nat -> is_word_char (byte_at s i) = true) /\
      (a = O \/ is_word_char (byte_at s (a - 1)) = false) /\
      (b = length s \/ is_word_char (byte_at s b) = false)
  | None => (length s <= pos)%nat \/ is_word_char (byte_at s pos) = false
  end.
Proof.
  unfold word_at_position. destruct (Nat.leb_spec (length s) pos) as [L|L]; cbn [orb]; [left; exact L|].
  destruct (is_word_char (byte_at s pos)) eqn:E; cbn [negb]; [|right; reflexivity].
  destruct (wap_back_spec s pos) as (A1 & A2 & A3).
  destruct (wap_fwd_spec s (length s) pos ltac:(lia) ltac:(lia)) as (B1 & B2 & B3).
  assert (Hb : (pos < wap_fwd (length s) s pos)%nat).
  { destruct (length s) as [|n] eqn:En; [lia|]. rewrite <- En in *. clear B1 B2 B3. rewrite En at 1. cbn [wap_fwd].
    replace (pos <? length s)%nat with true by (symmetry; apply Nat.ltb_lt; lia). rewrite E. cbn [andb].
    destruct (wap_fwd_spec s n (S pos) ltac:(lia) ltac:(lia)) as (C1 & _). lia. }
  repeat split; try lia; [|exact A3|exact B3].
  intros i Hi. destruct (Nat.lt_ge_cases i pos); [apply A2; lia|apply B2; lia].
Qed.

(* ================= LineProcessor configurations ================= *)
Lemma read_line_split s : forall l r, read_line s = (l, r) -> s = l ++ r.
Proof.
  induction s as [|c t IH]; intros l r H; cbn [read_line] in H.
  - injection H as <- <-. reflexivity.
  - destruct (c =? 10); [injection H as <- <-; reflexivity|].
    destruct (read_line t) as [l' r'] eqn:E. injection H as <- <-. cbn. f_equal. apply IH. reflexivity.
Qed.
Lemma read_line_shape s : forall l r, read_line s = (l, r) ->
  (exists b, no_byte 10 b /\ l = b ++ [10]) \/ (no_byte 10 l /\ r = []).
Proof.
  induction s as [|c t IH]; intros l r H; cbn [read_line] in H.
  - injection H as <- <-. right. split; reflexivity.
  - destruct (c =? 10) eqn:Ec.
    + injection H as <- <-. left. exists []. split; [reflexivity|]. apply N.eqb_eq in Ec. subst. reflexivity.
    + destruct (read_line t) as [l' r'] eqn:E. injection H as <- <-.
      destruct (IH _ _ eq_refl) as [(b & Hb & ->)|[Hl ->]].
      * left. exists (c :: b). split; [apply no_byte_cons; split; assumption|reflexivity].
      * right. split; [apply no_byte_cons; split; assumption|reflexivity].
Qed.
Lemma read_line_null s l r : read_line s = (l, r) -> null l = true -> s = [].
Proof.
  destruct s as [|c t]; [reflexivity|]. cbn [read_line]. destruct (c =? 10).
  - intros H. injection H as <- <-. discriminate.
  - destruct (read_line t). intros H. injection H as <- <-. discriminate.
Qed.
Lemma read_line_shorter s l r : read_line s = (l, r) -> null l = false -> (length r < length s)%nat.
Proof.
  intros H N. apply read_line_split in H. subst s. rewrite app_length. destruct l; [discriminate|cbn; lia].
Qed.

Definition cfg_keep : lp_cfg := {| skip_empty := false; trim_ws := false; keep_eol := true |}.
Definition cfg_default : lp_cfg := {| skip_empty := false; trim_ws := false; keep_eol := false |}.

Section Cfg.
Variable trim : bytes -> bytes.
Variable cfg : lp_cfg.

(* every configuration = map + filter over the raw pieces *)
Lemma lp_go_decompose : forall fuel s,
  lp_go trim cfg fuel s =
  filter (fun line => negb (lp_skipped cfg line)) (map (lp_line trim cfg) (lp_go trim cfg_keep fuel s)).
Proof.
  induction fuel as [|f IH]; intros s; cbn [lp_go]; [reflexivity|].
  destruct (read_line s) as [l r]. destruct (null l); [reflexivity|].
  change (lp_skipped cfg_keep (lp_line trim cfg_keep l)) with false. cbn iota.
  change (lp_line trim cfg_keep l) with l. cbn [map filter].
  destruct (lp_skipped cfg (lp_line trim cfg l)); cbn [negb]; rewrite IH; reflexivity.
Qed.

Lemma count_go_spec : forall fuel s c, count_go trim cfg fuel s c = c + nlen (lp_go trim cfg fuel s).
Proof.
  induction fuel as [|f IH]; intros s c; cbn [count_go lp_go]; [cbn; lia|].
  destruct (read_line s) as [l r]. destruct (null l); [cbn; lia|].
  unfold lp_skipped. rewrite IH.
  destruct (skip_empty cfg), (null (lp_line trim cfg l)); cbn [negb orb andb nlen]; lia.
Qed.

Fixpoint batches_ok (m : nat) (bs : list (list bytes)) : Prop :=
  match bs with
  | [] => True
  | b :: rest => (1 <= length b <= m)%nat /\ (rest <> [] -> length b = m) /\ batches_ok m rest
  end.

Lemma pb_go_spec bsz : forall fuel s batch total,
  (length s < fuel)%nat -> (length batch < Nat.max bsz 1)%nat ->
  let '(bs, t) := pb_go trim cfg fuel bsz s batch total in
  concat bs = batch ++ lp_go trim cfg fuel s /\
  t = total + nlen batch + nlen (lp_go trim cfg fuel s) /\
  batches_ok (Nat.max bsz 1) bs.
Proof.
  induction fuel as [|f IH]; intros s batch total Hf Hb; [lia|]. cbn [pb_go lp_go].
  destruct (read_line s) as [l r] eqn:Er. destruct (null l) eqn:En.
  - destruct batch as [|b0 batch]; cbn [null].
    + repeat split. cbn. lia.
    + cbn [concat batches_ok]. rewrite !app_nil_r. repeat split; try lia; [cbn; lia|cbn [length] in *; lia|congruence].
  - pose proof (read_line_shorter _ _ _ Er En) as Hr.
    destruct (lp_skipped cfg (lp_line trim cfg l)).
    + apply IH; [lia|exact Hb].
    + set (line := lp_line trim cfg l).
      destruct (Nat.leb_spec bsz (length (batch ++ [line]))) as [Lb|Lb].
      * specialize (IH r [] (total + nlen (batch ++ [line])) ltac:(lia) ltac:(cbn; lia)).
        destruct (pb_go trim cfg f bsz r [] (total + nlen (batch ++ [line]))) as [bs t].
        destruct IH as (H1 & H2 & H3). cbn [concat batches_ok]. rewrite H1. cbn [app].
        rewrite <- app_assoc. cbn [app]. repeat split; try (rewrite app_length in *; cbn [length] in *; lia).
        -- rewrite H2. rewrite nlen_app. cbn [nlen]. lia.
        -- exact H3.
      * specialize (IH r (batch ++ [line]) total ltac:(lia) ltac:(lia)).
        destruct (pb_go trim cfg f bsz r (batch ++ [line]) total) as [bs t].
        destruct IH as (H1 & H2 & H3). rewrite <- app_assoc in H1. cbn [app] in H1.
        repeat split; [exact H1| |exact H3]. rewrite H2, nlen_app. cbn [nlen]. lia.
Qed.
End Cfg.

Theorem count_lines_is_length_proof trim cfg s : count_lines trim cfg s = nlen (process_lines trim cfg s).
Proof. unfold count_lines, process_lines. rewrite count_go_spec. lia. Qed.

Theorem lines_cfg_decompose_proof trim cfg s :
  process_lines trim cfg s =
  filter (fun line => negb (lp_skipped cfg line)) (map (lp_line trim cfg) (process_lines trim cfg_keep s)).
Proof. apply lp_go_decompose. Qed.

Theorem batches_proof trim cfg bsz s :
  let '(bs, t) := process_batches trim cfg bsz s in
  concat bs = process_lines trim cfg s /\ t = nlen (process_lines trim cfg s) /\ batches_ok (Nat.max bsz 1) bs.
Proof.
  unfold process_batches, process_lines.
  pose proof (pb_go_spec trim cfg bsz (S (length s)) s [] 0 ltac:(lia) ltac:(cbn; lia)) as H.
  destruct (pb_go trim cfg (S (length s)) bsz s [] 0) as [bs t]. destruct H as (H1 & H2 & H3).
  repeat split; [exact H1|rewrite H2; cbn; lia|exact H3].
Qed.

(* with the endings kept nothing is lost: the pieces concatenate to the input, every piece ends at the first
   newline (or is the unterminated non-empty tail, which can only come last) *)
Fixpoint pieces_ok (ps : list bytes) : Prop :=
  match ps with
  | [] => True
  | p :: rest => (exists b, no_byte 10 b /\ (p = b ++ [10] \/ (p = b /\ b <> [] /\ rest = []))) /\ pieces_ok rest
  end.
Lemma keep_go trim : forall fuel s, (length s < fuel)%nat ->
  concat (lp_go trim cfg_keep fuel s) = s /\ pieces_ok (lp_go trim cfg_keep fuel s).
Proof.
  induction fuel as [|f IH]; intros s Hf; [lia|]. cbn [lp_go].
  destruct (read_line s) as [l r] eqn:Er. destruct (null l) eqn:En.
  - rewrite (read_line_null _ _ _ Er En). split; reflexivity.
  - change (lp_skipped cfg_keep (lp_line trim cfg_keep l)) with false. cbn iota.
    change (lp_line trim cfg_keep l) with l.
    pose proof (read_line_shorter _ _ _ Er En) as Hr. destruct (IH r ltac:(lia)) as [H1 H2].
    cbn [concat pieces_ok]. rewrite H1. split; [symmetry; apply read_line_split; exact Er|]. split; [|exact H2].
    destruct (read_line_shape _ _ _ Er) as [(b & Hb & ->)|[Hl ->]].
    + exists b. split; [exact Hb|left; reflexivity].
    + exists l. split; [exact Hl|]. right. repeat split; [destruct l; [discriminate|discriminate]|].
      destruct f; reflexivity.
Qed.
Theorem lines_keep_concat_proof trim s :
  concat (process_lines trim cfg_keep s) = s /\ pieces_ok (process_lines trim cfg_keep s).
Proof. apply keep_go. lia. Qed.

Theorem lines_default_proof trim s : process_lines trim cfg_default s = lines s.
Proof.
  unfold process_lines, lines. generalize (S (length s)). intros fuel. revert s.
  induction fuel as [|f IH]; intros s; cbn [lp_go lines_go]; [reflexivity|].
  destruct (read_line s) as [l r]. destruct (null l); [reflexivity|].
  change (lp_skipped cfg_default (lp_line trim cfg_default l)) with false. cbn iota.
  change (lp_line trim cfg_default l) with (strip_eol l). rewrite IH. reflexivity.
Qed.
