(* C20: decimal_strcmp = comparison of values; None exactly on invalid input; total order. *)
From ZV.Common Require Import Base.
From ZV.C20 Require Import Model ProofsDec.
Open Scope N_scope.

Lemma dec_value_parse s :
  dec_value s = match parse_sign s with
                | None => None
                | Some (body, neg) => if forallb is_digit body then Some (sval neg body) else None
                end.
Proof.
  destruct s as [|c r]; [reflexivity|].
  unfold dec_value, parse_sign.
  destruct (c =? 43) eqn:E43.
  - destruct r; cbn [null]; reflexivity.
  - destruct (c =? 45) eqn:E45.
    + destruct r; cbn [null]; reflexivity.
    + cbn [null]. reflexivity.
Qed.

Theorem decimal_strcmp_correct_proof a b :
  decimal_strcmp a b =
  match dec_value a, dec_value b with
  | Some x, Some y => Some (Z.compare x y)
  | _, _ => None
  end.
Proof.
  rewrite !dec_value_parse. unfold decimal_strcmp.
  destruct a as [|ca ra].
  { reflexivity. }
  destruct b as [|cb rb].
  { cbn [null orb]. change (parse_sign []) with (@None (list N * bool)). destruct (parse_sign (ca :: ra)) as [[a' an]|]; [|reflexivity].
    destruct (forallb is_digit a'); reflexivity. }
  cbn [null orb].
  destruct (parse_sign (ca :: ra)) as [[a' an]|]; [|reflexivity].
  destruct (parse_sign (cb :: rb)) as [[b' bn]|].
  2:{ destruct (forallb is_digit a'); reflexivity. }
  destruct (forallb is_digit a') eqn:Ea; cbn [negb]; [|reflexivity].
  destruct (forallb is_digit b') eqn:Eb; cbn [negb]; [|reflexivity].
  rewrite decimal_with_sign_correct by assumption. reflexivity.
Qed.

(* total order on valid inputs, as corollaries *)
Theorem decimal_antisym_proof a b c :
  decimal_strcmp a b = Some c -> decimal_strcmp b a = Some (CompOpp c).
Proof.
  rewrite !decimal_strcmp_correct_proof.
  destruct (dec_value a) as [x|]; destruct (dec_value b) as [y|]; try discriminate.
  intros H. inversion H. rewrite Z.compare_antisym. reflexivity.
Qed.

Theorem decimal_trans_proof a b c o :
  decimal_strcmp a b = Some o -> decimal_strcmp b c = Some o -> decimal_strcmp a c = Some o.
Proof.
  rewrite !decimal_strcmp_correct_proof.
  destruct (dec_value a) as [x|]; destruct (dec_value b) as [y|]; destruct (dec_value c) as [z|];
    try discriminate.
  intros H1 H2. injection H1 as H1'. injection H2 as H2'. f_equal.
  destruct o.
  - rewrite Z.compare_eq_iff in H1', H2'.
    apply Z.compare_eq_iff. lia.
  - rewrite Z.compare_lt_iff in H1', H2'.
    apply Z.compare_lt_iff. lia.
  - rewrite Z.compare_gt_iff in H1', H2'.
    apply Z.compare_gt_iff. lia.
Qed.

Example decimal_nontrivial :
  decimal_strcmp [45; 48] [48] = Some Eq /\ decimal_strcmp [48; 48; 55] [55] = Some Eq /\
  decimal_strcmp [45; 49; 48] [45; 57] = Some Lt /\ decimal_strcmp [43] [49] = None.
Proof. repeat split; vm_compute; reflexivity. Qed.
