(* C20: SortableStrVec storage (ModelSsv.v): every pushed string reads back, for every history of pushes within the
   field widths; a string longer than the 20-bit length field is refused. *)
From ZV.Common Require Import Base Run.
From ZV.C20 Require Import Model ModelStr ModelFast ModelSsv.
Open Scope N_scope.

Definition pack (o l q : N) : N := o + l * 2^40 + q * 2^60.

Lemma pack_lor o l q : o < 2^40 -> l < 2^20 ->
  N.lor (N.lor o (N.shiftl l 40)) (N.shiftl q 60) = pack o l q.
Proof.
  intros Ho Hl. unfold pack. rewrite !N.shiftl_mul_pow2.
  rewrite (lor_disjoint_add o l 40) by exact Ho.
  apply lor_disjoint_add.
  replace (2^60) with (2^40 * 2^20) by reflexivity. 
  assert (l * 2^40 <= (2^20 - 1) * 2^40) by (apply N.mul_le_mono_r; lia).
  replace (2^40) with 1099511627776 in * by reflexivity. replace (2^20) with 1048576 in * by reflexivity. lia.
Qed.
Lemma offset_pack o l q : o < 2^40 -> entry_offset (pack o l q) = o.
Proof.
  intros Ho. unfold entry_offset, MAX_OFFSET. change 1099511627775 with (N.ones 40). rewrite N.land_ones.
  unfold pack. replace (2^60) with (2^20 * 2^40) by reflexivity.
  replace (o + l * 2^40 + q * (2^20 * 2^40)) with (o + (l + q * 2^20) * 2^40) by lia.
  rewrite N.mod_add by discriminate. apply N.mod_small. exact Ho.
Qed.
Lemma length_pack o l q : o < 2^40 -> l < 2^20 -> entry_length (pack o l q) = l.
Proof.
  intros Ho Hl. unfold entry_length, MAX_LENGTH. change 1048575 with (N.ones 20). rewrite N.land_ones.
  rewrite N.shiftr_div_pow2. unfold pack. replace (2^60) with (2^20 * 2^40) by reflexivity.
  replace (o + l * 2^40 + q * (2^20 * 2^40)) with (o + (l + q * 2^20) * 2^40) by lia.
  rewrite N.div_add by discriminate. rewrite (N.div_small o) by exact Ho. rewrite N.add_0_l.
  rewrite N.mod_add by discriminate. apply N.mod_small. exact Hl.
Qed.

(* the entries a list of pushes produces, from arena offset `base` and entry count `idx` *)
Fixpoint entries_of (base idx : N) (ss : strs) : list N :=
  match ss with
  | [] => []
  | s :: t => pack base (nlen s) (N.land idx 15) :: entries_of (base + nlen s) (idx + 1) t
  end.
Definition fits (base : N) (ss : strs) : Prop :=
  Forall (fun s => nlen s <= MAX_LENGTH) ss /\ base + nlen (concat ss) <= MAX_OFFSET.

Lemma nlen_concat_cons (s : bytes) t : nlen (concat (s :: t)) = nlen s + nlen (concat t).
Proof. cbn [concat]. apply nlen_app. Qed.

Lemma push_all_spec : forall ss v, fits (nlen (sv_arena v)) ss ->
  ssv_push_all v ss =
  Some {| sv_arena := sv_arena v ++ concat ss;
          sv_entries := sv_entries v ++ entries_of (nlen (sv_arena v)) (nlen (sv_entries v)) ss |}.
Proof.
  induction ss as [|s t IH]; intros v [Hl Ho].
  - cbn [ssv_push_all concat entries_of]. rewrite !app_nil_r. destruct v; reflexivity.
  - pose proof (Forall_inv Hl) as Hs. pose proof (Forall_inv_tail Hl) as Ht. cbn beta in Hs.
    rewrite nlen_concat_cons in Ho. unfold MAX_LENGTH, MAX_OFFSET in *.
    cbn [ssv_push_all]. unfold ssv_push.
    replace (MAX_OFFSET <? nlen (sv_arena v) + nlen s) with false by (symmetry; apply N.ltb_ge; unfold MAX_OFFSET; lia).
    rewrite andb_false_r.
    replace (MAX_LENGTH <? nlen s) with false by (symmetry; apply N.ltb_ge; unfold MAX_LENGTH; lia).
    rewrite pack_lor by (replace (2^40) with 1099511627776 by reflexivity; replace (2^20) with 1048576 by reflexivity; lia).
    rewrite IH.
    + cbn [sv_arena sv_entries concat entries_of]. rewrite !nlen_app. cbn [nlen]. rewrite <- !app_assoc. cbn [app].
      replace (nlen (sv_entries v) + (1 + 0)) with (nlen (sv_entries v) + 1) by lia. reflexivity.
    + cbn [sv_arena]. split; [exact Ht|]. rewrite nlen_app. unfold MAX_OFFSET. lia.
Qed.

Lemma slice_mid (pre s post : bytes) :
  slice_n (pre ++ s ++ post) (nlen pre) (nlen pre + nlen s) = Some s.
Proof.
  unfold slice_n. rewrite !nlen_app.
  replace (nlen pre <=? nlen pre + nlen s) with true by (symmetry; apply N.leb_le; lia).
  replace (nlen pre + nlen s <=? nlen pre + (nlen s + nlen post)) with true by (symmetry; apply N.leb_le; lia).
  cbn [andb]. f_equal. rewrite !nlen_length.
  replace (N.to_nat (N.of_nat (length pre) + N.of_nat (length s) - N.of_nat (length pre))) with (length s) by lia.
  rewrite Nat2N.id. rewrite skipn_app, skipn_all, Nat.sub_diag. cbn [app skipn].
  rewrite firstn_app, Nat.sub_diag, firstn_all. cbn [firstn]. apply app_nil_r.
Qed.

Lemma get_entries : forall ss pre idx post i e, fits (nlen pre) ss ->
  nth_error (entries_of (nlen pre) idx ss) i = Some e ->
  slice_n (pre ++ concat ss ++ post) (entry_offset e) (entry_offset e + entry_length e) = nth_error ss i.
Proof.
  induction ss as [|s t IH]; intros pre idx post i e [Hl Ho] He; [destruct i; discriminate|].
  pose proof (Forall_inv Hl) as Hs. pose proof (Forall_inv_tail Hl) as Ht. cbn beta in Hs.
  rewrite nlen_concat_cons in Ho. unfold MAX_LENGTH, MAX_OFFSET in *.
  destruct i as [|i]; cbn [entries_of nth_error] in *.
  - injection He as <-.
    rewrite offset_pack by (replace (2^40) with 1099511627776 by reflexivity; lia).
    rewrite length_pack by (replace (2^40) with 1099511627776 by reflexivity; replace (2^20) with 1048576 by reflexivity; lia).
    cbn [concat]. rewrite <- app_assoc. apply slice_mid.
  - cbn [concat]. rewrite <- (nlen_app pre s) in He.
    replace (pre ++ (s ++ concat t) ++ post) with ((pre ++ s) ++ concat t ++ post) by (rewrite <- !app_assoc; reflexivity).
    apply IH with (idx := idx + 1); [|exact He]. split; [exact Ht|]. rewrite nlen_app. unfold MAX_OFFSET. lia.
Qed.

Theorem ssv_push_get_proof ss : fits 0 ss ->
  exists v, ssv_push_all ssv_new ss = Some v /\
    sv_arena v = concat ss /\ nlen (sv_entries v) = nlen ss /\
    forall i, ssv_get v i = nth_error ss (N.to_nat i).
Proof.
  intros Hf. pose proof (push_all_spec ss ssv_new Hf) as Hp. cbn [ssv_new sv_arena sv_entries app nlen] in Hp.
  eexists. split; [exact Hp|]. cbn [sv_arena sv_entries].
  assert (Hlen : forall base idx, nlen (entries_of base idx ss) = nlen ss).
  { clear. induction ss as [|s t IH]; intros base idx; cbn [entries_of nlen]; [reflexivity|]. rewrite IH. reflexivity. }
  split; [reflexivity|]. split; [apply Hlen|]. intros i. unfold ssv_get. cbn [sv_arena sv_entries]. rewrite Hlen.
  destruct (N.leb_spec (nlen ss) i) as [L|L].
  - symmetry. apply nth_error_None. rewrite nlen_length in L. lia.
  - destruct (nth_error (entries_of 0 0 ss) (N.to_nat i)) as [e|] eqn:En.
    + pose proof (get_entries ss [] 0 [] (N.to_nat i) e Hf En) as G. cbn [app] in G. rewrite app_nil_r in G. exact G.
    + apply nth_error_None in En. specialize (Hlen 0 0). rewrite !nlen_length in *. lia.
Qed.

Theorem ssv_push_refuses_proof v s : MAX_LENGTH < nlen s -> ssv_push v s = None.
Proof.
  intros H. unfold ssv_push. destruct ((N.shiftr MAX_OFFSET 1 <? nlen (sv_arena v)) && (MAX_OFFSET <? nlen (sv_arena v) + nlen s)); [reflexivity|].
  replace (MAX_LENGTH <? nlen s) with true by (symmetry; apply N.ltb_lt; exact H). reflexivity.
Qed.
