(* C20 mechanism model of StreamingLexIterator (src/string/lexicographic_iterator.rs) as written: read_next_line
   (BufRead::read_line, strip '\n' then one '\r', the has_current / finished flags), current, next, is_at_end and the
   refused operations (prev, seek_start, seek_end, seek_lower_bound: Err, nothing changes).  Definitions only. *)
From ZV.Common Require Import Base Run.
From ZV.C20 Require Import Model ModelStr.
Open Scope N_scope.

Record sli := { sl_rest : bytes; sl_line : bytes; sl_has : bool; sl_fin : bool }.
Definition sl_new (s : bytes) : sli := {| sl_rest := s; sl_line := []; sl_has := false; sl_fin := false |}.
(* read_next_line: clear, has_current = false; Ok(0) => finished = true, false; else strip the ending, has_current = true *)
Definition sl_next (it : sli) : sli * bool :=
  let '(l, r) := read_line (sl_rest it) in
  if null l then ({| sl_rest := r; sl_line := []; sl_has := false; sl_fin := true |}, false)
  else ({| sl_rest := r; sl_line := strip_eol l; sl_has := true; sl_fin := sl_fin it |}, true).
Definition sl_current (it : sli) : option bytes :=
  if sl_fin it || negb (sl_has it) then None else Some (sl_line it).

(* histories: 0 next, 1 prev, 2 seek_start, 3 seek_end, 4 seek_lower_bound; observed: the answer (0 false, 1 true,
   2 Err), current(), is_at_end() *)
Fixpoint sl_run (it : sli) (ops : list N) : list (N * option bytes * bool) :=
  match ops with
  | [] => []
  | op :: rest =>
      let '(it', ans) :=
        match op with
        | 0 => let '(i, b) := sl_next it in (i, if b then 1 else 0)
        | _ => (it, 2)
        end in
      (ans, sl_current it', sl_fin it') :: sl_run it' rest
  end.

(* next() until it answers false, collecting current() *)
Fixpoint sl_walk (fuel : nat) (it : sli) : list (option bytes) * sli :=
  match fuel with
  | O => ([], it)
  | S f => match sl_next it with
           | (it', true) => let '(cs, e) := sl_walk f it' in (sl_current it' :: cs, e)
           | (it', false) => ([], it')
           end
  end.
