(* C20: every list of Unicode scalar values, encoded, is accepted and enumerated exactly (forward and backward). *)
From ZV.Common Require Import Base Run.
From ZV.C20 Require Import Model ModelStr ModelUtf8 ProofsUtf8.
Open Scope N_scope.

Lemma enc2 c : 128 <= c -> c < 2048 ->
  194 <= 192 + c / 64 /\ 192 + c / 64 <= 223 /\ 128 <= 128 + c mod 64 /\ 128 + c mod 64 <= 191 /\
  ((192 + c / 64) mod 32) * 64 + (128 + c mod 64) mod 64 = c.
Proof. intros. lia. Qed.
Lemma enc3 c : 2048 <= c -> c < 65536 -> (c < 55296 \/ 57344 <= c) ->
  224 <= 224 + c / 4096 /\ 224 + c / 4096 <= 239 /\
  128 <= 128 + (c / 64) mod 64 /\ 128 + (c / 64) mod 64 <= 191 /\
  (224 + c / 4096 = 224 -> 160 <= 128 + (c / 64) mod 64) /\
  (224 + c / 4096 = 237 -> 128 + (c / 64) mod 64 <= 159) /\
  128 <= 128 + c mod 64 /\ 128 + c mod 64 <= 191 /\
  ((224 + c / 4096) mod 16) * 4096 + ((128 + (c / 64) mod 64) mod 64) * 64 + (128 + c mod 64) mod 64 = c.
Proof. intros. lia. Qed.
Lemma enc4 c : 65536 <= c -> c < 1114112 ->
  240 <= 240 + c / 262144 /\ 240 + c / 262144 <= 244 /\
  128 <= 128 + (c / 4096) mod 64 /\ 128 + (c / 4096) mod 64 <= 191 /\
  (240 + c / 262144 = 240 -> 144 <= 128 + (c / 4096) mod 64) /\
  (240 + c / 262144 = 244 -> 128 + (c / 4096) mod 64 <= 143) /\
  128 <= 128 + (c / 64) mod 64 /\ 128 + (c / 64) mod 64 <= 191 /\
  128 <= 128 + c mod 64 /\ 128 + c mod 64 <= 191 /\
  ((240 + c / 262144) mod 8) * 262144 + ((128 + (c / 4096) mod 64) mod 64) * 4096 +
  ((128 + (c / 64) mod 64) mod 64) * 64 + (128 + c mod 64) mod 64 = c.
Proof. intros. lia. Qed.

Lemma rng_true lo hi b : lo <= b -> b <= hi -> in_rng lo hi b = true.
Proof. intros. unfold in_rng. apply andb_true_iff. split; apply N.leb_le; assumption. Qed.
Lemma rng_false_lo lo hi b : b < lo -> in_rng lo hi b = false.
Proof. intros. unfold in_rng. replace (lo <=? b) with false by (symmetry; apply N.leb_gt; assumption). reflexivity. Qed.
Lemma rng_false_hi lo hi b : hi < b -> in_rng lo hi b = false.
Proof.
  intros. unfold in_rng. replace (b <=? hi) with false by (symmetry; apply N.leb_gt; assumption). apply andb_false_r.
Qed.
Lemma ltb_false a b : b <= a -> (a <? b) = false.
Proof. intros. apply N.ltb_ge. assumption. Qed.

Lemma decode1_encode c rest : is_scalar c = true -> decode1 (encode c ++ rest) = Some (c, length (encode c)).
Proof.
  intros Hs. unfold is_scalar in Hs.
  assert (Hsc : c < 55296 \/ (57344 <= c /\ c < 1114112)).
  { apply orb_true_iff in Hs. destruct Hs as [H|H]; [left; apply N.ltb_lt; exact H|].
    apply andb_true_iff in H. destruct H as [H1 H2]. right. split; [apply N.leb_le|apply N.ltb_lt]; assumption. }
  clear Hs. unfold encode.
  destruct (N.ltb_spec c 128) as [L1|L1].
  { cbn [app length]. unfold decode1. replace (c <? 128) with true by (symmetry; apply N.ltb_lt; exact L1). reflexivity. }
  destruct (N.ltb_spec c 2048) as [L2|L2].
  { destruct (enc2 c L1 L2) as (A1 & A2 & B1 & B2 & V).
    set (b0 := 192 + c / 64) in *. set (b1 := 128 + c mod 64) in *. cbn [app length]. unfold decode1.
    rewrite (ltb_false b0 128) by lia. rewrite (rng_true 194 223 b0) by lia.
    unfold cont. rewrite (rng_true 128 191 b1) by lia. rewrite V. reflexivity. }
  destruct (N.ltb_spec c 65536) as [L3|L3].
  { destruct (enc3 c L2 L3 ltac:(lia)) as (A1 & A2 & B1 & B2 & S1 & S2 & C1 & C2 & V).
    set (b0 := 224 + c / 4096) in *. set (b1 := 128 + (c / 64) mod 64) in *. set (b2 := 128 + c mod 64) in *.
    cbn [app length]. unfold decode1.
    rewrite (ltb_false b0 128) by lia. rewrite (rng_false_hi 194 223 b0) by lia. rewrite (rng_true 224 239 b0) by lia.
    assert (Hs3 : second3 b0 b1 = true).
    { unfold second3. destruct (N.eqb_spec b0 224) as [E|E]; [apply rng_true; [apply S1; exact E|lia]|].
      destruct (N.eqb_spec b0 237) as [E2|E2]; [apply rng_true; [lia|apply S2; exact E2]|].
      unfold cont. apply rng_true; lia. }
    rewrite Hs3. unfold cont. rewrite (rng_true 128 191 b2) by lia. cbn [andb]. rewrite V. reflexivity. }
  { destruct (enc4 c L3 ltac:(lia)) as (A1 & A2 & B1 & B2 & S1 & S2 & C1 & C2 & D1 & D2 & V).
    set (b0 := 240 + c / 262144) in *. set (b1 := 128 + (c / 4096) mod 64) in *.
    set (b2 := 128 + (c / 64) mod 64) in *. set (b3 := 128 + c mod 64) in *.
    cbn [app length]. unfold decode1.
    rewrite (ltb_false b0 128) by lia. rewrite (rng_false_hi 194 223 b0) by lia.
    rewrite (rng_false_hi 224 239 b0) by lia. rewrite (rng_true 240 244 b0) by lia.
    assert (Hs4 : second4 b0 b1 = true).
    { unfold second4. destruct (N.eqb_spec b0 240) as [E|E]; [apply rng_true; [apply S1; exact E|lia]|].
      destruct (N.eqb_spec b0 244) as [E2|E2]; [apply rng_true; [lia|apply S2; exact E2]|].
      unfold cont. apply rng_true; lia. }
    rewrite Hs4. unfold cont. rewrite (rng_true 128 191 b2), (rng_true 128 191 b3) by lia. cbn [andb].
    rewrite V. reflexivity. }
Qed.

Definition enc_chars (cs : list N) : list (N * nat) := map (fun c => (c, length (encode c))) cs.
Lemma decodes_encode_all cs : forallb is_scalar cs = true -> decodes (encode_all cs) (enc_chars cs).
Proof.
  induction cs as [|c cs IH]; intros H; [constructor|]. cbn [forallb] in H. apply andb_true_iff in H.
  destruct H as [Hc Hcs]. unfold encode_all in *. cbn [flat_map enc_chars map]. econstructor.
  - apply decode1_encode. exact Hc.
  - rewrite skipn_app, skipn_all, Nat.sub_diag. cbn [app skipn]. apply IH. exact Hcs.
Qed.

Theorem utf8_roundtrip_proof cs : forallb is_scalar cs = true ->
  let s := encode_all cs in
  chars s = Some (enc_chars cs) /\ validate_count s = Some (nlen cs) /\
  fst (walk_fwd (S (length s)) s {| u_pos := O; u_cur := None |}) = cs /\
  (forall cur, fst (walk_bwd (S (length s)) s {| u_pos := length s; u_cur := cur |}) = rev cs).
Proof.
  intros H s. assert (Hc : chars s = Some (enc_chars cs)).
  { unfold chars. apply decodes_chars_go; [apply decodes_encode_all; exact H|lia]. }
  destruct (utf8_walks_proof s _ Hc) as (W1 & W2 & W3 & _).
  assert (Hm : map fst (enc_chars cs) = cs).
  { unfold enc_chars. rewrite map_map. cbn [fst]. apply map_id. }
  repeat split.
  - exact Hc.
  - rewrite W3. unfold enc_chars. rewrite !nlen_length, map_length. reflexivity.
  - rewrite W1. exact Hm.
  - intros cur. rewrite W2. cbn [fst]. rewrite Hm. reflexivity.
Qed.
