(* C20 mechanism model of SortableStrVec::fast_lexicographic_cmp (src/containers/specialized/sortable_str_vec.rs), the
   comparison kernel of the release-mode lexicographic sort: min_len / 8 chunks compared as [u8; 8] arrays, the
   remaining bytes of the common length one by one, then the lengths.  Definitions only. *)
From ZV.Common Require Import Base Run.
From ZV.C20 Require Import Model ModelStr.
Open Scope N_scope.

(* for i in 0..chunks { match a[8i..8i+8].cmp(b[8i..8i+8]) { Equal => continue, other => return other } } *)
Fixpoint cmp_chunks (k : nat) (a b : bytes) : comparison * bytes * bytes :=
  match k with
  | O => (Eq, a, b)
  | S k' => match lex (firstn 8 a) (firstn 8 b) with
            | Eq => cmp_chunks k' (skipn 8 a) (skipn 8 b)
            | o => (o, [], [])
            end
  end.
(* for i in remaining_start..min_len { match a[i].cmp(b[i]) { Equal => continue, other => return other } } *)
Fixpoint cmp_bytes (n : nat) (a b : bytes) : comparison :=
  match n with
  | O => Eq
  | S n' => match a, b with
            | x :: a', y :: b' => match N.compare x y with Eq => cmp_bytes n' a' b' | o => o end
            | _, _ => Eq
            end
  end.
Definition fast_lex_cmp (a b : bytes) : comparison :=
  let m := Nat.min (length a) (length b) in
  let chunks := (m / 8)%nat in
  match cmp_chunks chunks a b with
  | (Eq, ra, rb) =>
      match cmp_bytes (m - chunks * 8) ra rb with
      | Eq => Nat.compare (length a) (length b)
      | o => o
      end
  | (o, _, _) => o
  end.
