(* C20 mechanism models, second part: src/string/join.rs, the splitters (LineSplitter in
   src/string/line_processor.rs, FastStr::split in src/string/fast_str.rs), WordIterator in
   src/string/word_boundary.rs, LineProcessor::read_next_line/process_lines, the BMI2 ASCII case
   conversion in src/string/bmi2_string_ops.rs and SortedVecLexIterator in
   src/string/lexicographic_iterator.rs -- as written.  Strings are byte lists.
   Plus the straightforward definitions (S) the property names.  Definitions only. *)
From ZV.Common Require Import Base Run.
From ZV.C20 Require Import Model.
Open Scope N_scope.

Definition bytes := list N.

(* ================= join.rs ================= *)
Fixpoint sum_len (parts : list bytes) : N :=
  match parts with [] => 0 | p :: t => nlen p + sum_len t end.
(* total_len + separator.len() * (parts.len() - 1): the capacity reserved before appending *)
Definition join_capacity (sep : bytes) (parts : list bytes) : N :=
  sum_len parts + nlen sep * (nlen parts - 1).
(* for part in &parts[1..] { push(separator); push(part) } *)
Fixpoint join_rest (sep : bytes) (rest : list bytes) (acc : bytes) : bytes :=
  match rest with [] => acc | p :: t => join_rest sep t ((acc ++ sep) ++ p) end.
(* join / join_str / join_fast_str / JoinBuilder::build: early returns for 0 and 1 parts *)
Definition join (sep : bytes) (parts : list bytes) : bytes :=
  match parts with
  | [] => []
  | p :: rest => match rest with [] => p | _ => join_rest sep rest p end
  end.
(* join_iter / join_bytes_iter: a `first` flag *)
Fixpoint join_iter_go (sep : bytes) (items : list bytes) (first : bool) (acc : bytes) : bytes :=
  match items with
  | [] => acc
  | p :: t => join_iter_go sep t false ((if first then acc else acc ++ sep) ++ p)
  end.
Definition join_iter (sep : bytes) (items : list bytes) : bytes := join_iter_go sep items true [].

(* S: the straightforward definition *)
Fixpoint intercalate (sep : bytes) (xs : list bytes) : bytes :=
  match xs with
  | [] => []
  | x :: t => match t with [] => x | _ => x ++ sep ++ intercalate sep t end
  end.

(* ================= splitting at one byte ================= *)
(* LineSplitter::split_optimized: `start` marks the beginning of the current field; cur = line[start..i] reversed.
   After the loop the last field is pushed (start <= len always holds). *)
Fixpoint split_go (d : N) (s : bytes) (cur : bytes) : list bytes :=
  match s with
  | [] => [rev cur]
  | c :: t => if c =? d then rev cur :: split_go d t [] else split_go d t (c :: cur)
  end.
Definition split_opt (d : N) (s : bytes) : list bytes := split_go d s [].

(* FastStr::split -> SplitIter::next: None once the remainder is empty; find_byte, prefix(pos), substring_from(pos+1) *)
Fixpoint find_byte (d : N) (s : bytes) : option nat :=
  match s with
  | [] => None
  | c :: t => if c =? d then Some O else option_map S (find_byte d t)
  end.
Fixpoint fs_split_go (fuel : nat) (d : N) (rem : bytes) : list bytes :=
  match fuel with
  | O => []
  | S f =>
      if null rem then [] else
      match find_byte d rem with
      | Some pos => firstn pos rem :: fs_split_go f d (skipn (S pos) rem)
      | None => [rem]
      end
  end.
Definition fs_split (d : N) (s : bytes) : list bytes := fs_split_go (S (length s)) d s.

(* S: FastStr::split's convention = the std split without one trailing empty field *)
Definition drop_last_empty (l : list bytes) : list bytes :=
  match rev l with
  | [] :: r => rev r
  | _ => l
  end.
Definition contains_byte (d : N) (s : bytes) : bool := existsb (fun c => c =? d) s.

(* ================= word_boundary.rs ================= *)
Definition is_word_char (c : N) : bool :=
  ((97 <=? c) && (c <=? 122)) || ((65 <=? c) && (c <=? 90)) || ((48 <=? c) && (c <=? 57)) || (c =? 95).
(* WordIterator::next: skip non-word bytes; stop at the end; collect word bytes *)
Fixpoint skip_nonword (s : bytes) : bytes :=
  match s with
  | c :: t => if is_word_char c then s else skip_nonword t
  | [] => []
  end.
Fixpoint take_word (s : bytes) : bytes * bytes :=
  match s with
  | c :: t => if is_word_char c then let '(w, r) := take_word t in (c :: w, r) else ([], s)
  | [] => ([], [])
  end.
Fixpoint words_go (fuel : nat) (s : bytes) : list bytes :=
  match fuel with
  | O => []
  | S f =>
      let s' := skip_nonword s in
      if null s' then [] else let '(w, r) := take_word s' in w :: words_go f r
  end.
Definition words (s : bytes) : list bytes := words_go (S (length s)) s.
Definition word_count (s : bytes) : N := nlen (words s).

(* S: maximal runs of word bytes = the non-empty fields of splitting at every non-word byte *)
Fixpoint split_pred (p : N -> bool) (s : bytes) (cur : bytes) : list bytes :=
  match s with
  | [] => [rev cur]
  | c :: t => if p c then rev cur :: split_pred p t [] else split_pred p t (c :: cur)
  end.
Definition words_spec (s : bytes) : list bytes :=
  filter (fun w => negb (null w)) (split_pred (fun c => negb (is_word_char c)) s []).

(* ================= LineProcessor (default configuration) ================= *)
(* BufRead::read_line: everything up to and including the first '\n', or up to the end *)
Fixpoint read_line (s : bytes) : bytes * bytes :=
  match s with
  | [] => ([], [])
  | c :: t => if c =? 10 then ([c], t) else let '(l, r) := read_line t in (c :: l, r)
  end.
Definition ends_with_byte (l : bytes) (c : N) : bool :=
  match rev l with x :: _ => x =? c | [] => false end.
(* read_next_line, preserve_line_endings = false: pop '\n', then pop one '\r' *)
Definition strip_eol (l : bytes) : bytes :=
  if ends_with_byte l 10 then
    let l1 := removelast l in
    if ends_with_byte l1 13 then removelast l1 else l1
  else l.
(* process_lines: while read_next_line()? { handler(line) }; Ok(0) bytes = EOF *)
Fixpoint lines_go (fuel : nat) (s : bytes) : list bytes :=
  match fuel with
  | O => []
  | S f =>
      let '(l, r) := read_line s in
      if null l then [] else strip_eol l :: lines_go f r
  end.
Definition lines (s : bytes) : list bytes := lines_go (S (length s)) s.

(* S: a text written as lines with their terminators, plus an unterminated tail *)
Definition is_terminator (t : bytes) : bool := eqb_ln t [10] || eqb_ln t [13; 10].
Definition line_ok (l : bytes) : bool := negb (contains_byte 10 l) && negb (ends_with_byte l 13).
Fixpoint unlines (ls : list (bytes * bytes)) : bytes :=
  match ls with [] => [] | (l, t) :: r => (l ++ t) ++ unlines r end.

(* ================= ASCII case conversion (bmi2_string_ops.rs) ================= *)
Definition lower (c : N) : N := if (65 <=? c) && (c <=? 90) then c + 32 else c.
Definition upper (c : N) : N := if (97 <=? c) && (c <=? 122) then c - 32 else c.
Definition is_upper_letter (c : N) : bool := (65 <=? c) && (c <=? 90).
Definition is_lower_letter (c : N) : bool := (97 <=? c) && (c <=? 122).
(* BEXTR(w, 8*k, 8) *)
Definition bextr8 (w : N) (k : N) : N := (w / 2 ^ (8 * k)) mod 256.
(* read_unaligned::<u64> of 8 bytes on a little-endian machine *)
Fixpoint pack_le (l : bytes) : N :=
  match l with [] => 0 | b :: t => b + 256 * pack_le t end.
(* to_{lower,upper}case_chunk_bmi2: for byte_pos in 0..8 { result |= (conv(bextr) as u64) << (byte_pos*8) } *)
Fixpoint chunk_conv (f : N -> N) (w : N) (k : nat) (pos : N) (acc : N) : N :=
  match k with
  | O => acc
  | S k' => chunk_conv f w k' (pos + 1) (N.lor acc (N.shiftl (f (bextr8 w pos)) (8 * pos)))
  end.
Definition conv_chunk (f : N -> N) (w : N) : N := chunk_conv f w 8 0 0.
(* for byte_pos in 0..8 { output.push(bextr(converted, byte_pos*8, 8) as u8) } *)
Fixpoint unpack8 (w : N) (k : nat) (pos : N) : bytes :=
  match k with O => [] | S k' => bextr8 w pos :: unpack8 w k' (pos + 1) end.
(* input.chunks(8): full chunks through the u64 path, a shorter last chunk byte by byte *)
Fixpoint case_chunks (f : N -> N) (s : bytes) : bytes :=
  match s with
  | b0 :: b1 :: b2 :: b3 :: b4 :: b5 :: b6 :: b7 :: rest =>
      unpack8 (conv_chunk f (pack_le [b0; b1; b2; b3; b4; b5; b6; b7])) 8 0 ++ case_chunks f rest
  | _ => map f s
  end.
(* to_lowercase_ascii_bmi2 on a BMI2 machine: the chunked path from 8 bytes on, else the std fallback *)
Definition to_lower_bmi2 (s : bytes) : bytes := if 8 <=? nlen s then case_chunks lower s else map lower s.
Definition to_upper_bmi2 (s : bytes) : bytes := if 8 <=? nlen s then case_chunks upper s else map upper s.

(* ================= SortedVecLexIterator ================= *)
Definition strs := list bytes.
Definition nth_str (l : strs) (i : nat) : bytes := nth i l [].
Definition li_new (l : strs) : option nat := if null l then None else Some O.
Definition li_current (l : strs) (pos : option nat) : option bytes :=
  match pos with Some p => Some (nth_str l p) | None => None end.
Definition li_next (l : strs) (pos : option nat) : bool * option nat :=
  match pos with
  | Some p => if (S p <? length l)%nat then (true, Some (S p)) else (false, None)
  | None => (false, None)
  end.
Definition li_prev (l : strs) (pos : option nat) : bool * option nat :=
  match pos with
  | Some (S p) => (true, Some p)
  | _ => (false, if null l then None else Some O)
  end.
Definition li_seek_start (l : strs) : bool * option nat :=
  if null l then (false, None) else (true, Some O).
Definition li_seek_end (l : strs) : bool * option nat :=
  if null l then (false, None) else (true, Some (length l - 1)%nat).
(* binary_search_by(|s| s.cmp(target)) *)
Inductive bs_result := Found (i : nat) | NotFound (i : nat).
Fixpoint bs_go (fuel : nat) (l : strs) (target : bytes) (left right : nat) : bs_result :=
  match fuel with
  | O => NotFound left
  | S f =>
      if (left <? right)%nat then
        let mid := (left + (right - left) / 2)%nat in
        match lex (nth_str l mid) target with
        | Lt => bs_go f l target (S mid) right
        | Gt => bs_go f l target left mid
        | Eq => Found mid
        end
      else NotFound left
  end.
Definition binary_search (l : strs) (target : bytes) : bs_result :=
  bs_go (S (length l)) l target O (length l).
(* while pos > 0 && strings[pos-1] == target { pos -= 1 } *)
Fixpoint step_back (l : strs) (target : bytes) (pos : nat) : nat :=
  match pos with
  | S p => if eqb_ln (nth_str l p) target then step_back l target p else pos
  | O => O
  end.
Definition li_seek_lower_bound (l : strs) (target : bytes) : bool * option nat :=
  match binary_search l target with
  | Found pos => (true, Some (step_back l target pos))
  | NotFound pos => (false, if (pos <? length l)%nat then Some pos else None)
  end.
(* trait default: seek_lower_bound, then while current() == Some(target) { if !next() { break } } *)
Fixpoint skip_equal (fuel : nat) (l : strs) (target : bytes) (pos : option nat) : option nat :=
  match fuel with
  | O => pos
  | S f =>
      match li_current l pos with
      | Some s =>
          if eqb_ln s target then
            let '(moved, p') := li_next l pos in
            if moved then skip_equal f l target p' else p'
          else pos
      | None => pos
      end
  end.
Definition li_seek_upper_bound (l : strs) (target : bytes) : bool * option nat :=
  let '(exact, pos) := li_seek_lower_bound l target in
  (false, if exact then skip_equal (S (length l)) l target pos else pos).

(* an operation history: 0 next, 1 prev, 2 seek_start, 3 seek_end, 4 seek_lower_bound t, 5 seek_upper_bound t *)
Definition li_step (l : strs) (pos : option nat) (op : N * bytes) : bool * option nat :=
  let '(code, t) := op in
  match code with
  | 0 => li_next l pos
  | 1 => li_prev l pos
  | 2 => li_seek_start l
  | 3 => li_seek_end l
  | 4 => li_seek_lower_bound l t
  | _ => li_seek_upper_bound l t
  end.
Fixpoint li_run (l : strs) (pos : option nat) (ops : list (N * bytes)) : list (bool * option bytes) :=
  match ops with
  | [] => []
  | op :: r => let '(ret, pos') := li_step l pos op in (ret, li_current l pos') :: li_run l pos' r
  end.

(* S for the iterator: walking with next() from a position *)
Fixpoint li_walk (fuel : nat) (l : strs) (pos : option nat) : list bytes :=
  match fuel with
  | O => []
  | S f =>
      match li_current l pos with
      | Some s => s :: li_walk f l (snd (li_next l pos))
      | None => []
      end
  end.
Definition sorted_strs (l : strs) : Prop :=
  forall i j, (i <= j)%nat -> (j < length l)%nat -> lex (nth_str l i) (nth_str l j) <> Gt.
