(* C20 property theorems (numeric comparators).  Statements + exact + Print Assumptions only. *)
From ZV.Common Require Import Base.
From ZV.C20 Require Import Model ProofsDec ProofsDecTop.
Open Scope N_scope.

(* the magnitude comparator equals comparison of the denoted naturals, for all digit strings
   (any number of leading zeros, any length) *)
Theorem mag_cmp_correct_thm :
  forall a b, forallb is_digit a = true -> forallb is_digit b = true ->
    mag_cmp a b = N.compare (dval a) (dval b).
Proof. exact mag_cmp_correct. Qed.
Print Assumptions mag_cmp_correct_thm.

(* decimal_strcmp orders exactly by integer value and is None exactly on invalid input *)
Theorem decimal_strcmp_correct :
  forall a b,
    decimal_strcmp a b =
    match dec_value a, dec_value b with
    | Some x, Some y => Some (Z.compare x y)
    | _, _ => None
    end.
Proof. exact decimal_strcmp_correct_proof. Qed.
Print Assumptions decimal_strcmp_correct.

Theorem decimal_antisym :
  forall a b c, decimal_strcmp a b = Some c -> decimal_strcmp b a = Some (CompOpp c).
Proof. exact decimal_antisym_proof. Qed.
Print Assumptions decimal_antisym.

Theorem decimal_trans :
  forall a b c o, decimal_strcmp a b = Some o -> decimal_strcmp b c = Some o ->
    decimal_strcmp a c = Some o.
Proof. exact decimal_trans_proof. Qed.
Print Assumptions decimal_trans.
