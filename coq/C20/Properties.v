(* C20 property theorems (numeric comparators).  Statements + exact + Print Assumptions only. *)
From ZV.Common Require Import Base.
From ZV.C20 Require Import Model ProofsDec ProofsDecTop.
Open Scope N_scope.

(* the magnitude comparator equals comparison of the denoted naturals, for all digit strings
   (any number of leading zeros, any length) *)
Theorem mag_cmp_correct_thm :
  forall a b, forallb is_digit a = true -> forallb is_digit b = true ->
    mag_cmp a b = N.compare (dval a) (dval b).
Proof. exact mag_cmp_correct. Qed.
Print Assumptions mag_cmp_correct_thm.

(* decimal_strcmp orders exactly by integer value and is None exactly on invalid input *)
Theorem decimal_strcmp_correct :
  forall a b,
    decimal_strcmp a b =
    match dec_value a, dec_value b with
    | Some x, Some y => Some (Z.compare x y)
    | _, _ => None
    end.
Proof. exact decimal_strcmp_correct_proof. Qed.
Print Assumptions decimal_strcmp_correct.

Theorem decimal_antisym :
  forall a b c, decimal_strcmp a b = Some c -> decimal_strcmp b a = Some (CompOpp c).
Proof. exact decimal_antisym_proof. Qed.
Print Assumptions decimal_antisym.

Theorem decimal_trans :
  forall a b c o, decimal_strcmp a b = Some o -> decimal_strcmp b c = Some o ->
    decimal_strcmp a c = Some o.
Proof. exact decimal_trans_proof. Qed.
Print Assumptions decimal_trans.

(* ======================= realnum_strcmp ======================= *)
From Coq Require Import QArith.
From ZV.C20 Require Import ModelStr Cases ProofsReal ProofsRealTop ProofsStr ProofsLines ProofsLex.
Open Scope N_scope.

(* realnum_strcmp orders exactly by the denoted rational (integer part + fraction / 10^|fraction|, signed;
   leading and trailing zeros, "-0.0" = "0", "5." = "5" = "5.0") and is None exactly on invalid input *)
Theorem realnum_strcmp_correct :
  forall a b,
    realnum_strcmp a b =
    match real_value a, real_value b with
    | Some x, Some y => Some (Qcompare x y)
    | _, _ => None
    end.
Proof. exact realnum_strcmp_correct_proof. Qed.
Check realnum_strcmp_correct :
  forall a b,
    realnum_strcmp a b =
    match real_value a, real_value b with
    | Some x, Some y => Some (Qcompare x y)
    | _, _ => None
    end.
Print Assumptions realnum_strcmp_correct.

Theorem realnum_antisym :
  forall a b c, realnum_strcmp a b = Some c -> realnum_strcmp b a = Some (CompOpp c).
Proof. exact realnum_antisym_proof. Qed.
Check realnum_antisym :
  forall a b c, realnum_strcmp a b = Some c -> realnum_strcmp b a = Some (CompOpp c).
Print Assumptions realnum_antisym.

Theorem realnum_trans :
  forall a b c o, realnum_strcmp a b = Some o -> realnum_strcmp b c = Some o ->
    realnum_strcmp a c = Some o.
Proof. exact realnum_trans_proof. Qed.
Check realnum_trans :
  forall a b c o, realnum_strcmp a b = Some o -> realnum_strcmp b c = Some o ->
    realnum_strcmp a c = Some o.
Print Assumptions realnum_trans.

Theorem realnum_le_trans :
  forall a b c o1 o2,
    realnum_strcmp a b = Some o1 -> realnum_strcmp b c = Some o2 -> o1 <> Gt -> o2 <> Gt ->
    exists o3, realnum_strcmp a c = Some o3 /\ o3 <> Gt /\ (o3 = Eq -> o1 = Eq /\ o2 = Eq).
Proof. exact realnum_le_trans_proof. Qed.
Check realnum_le_trans :
  forall a b c o1 o2,
    realnum_strcmp a b = Some o1 -> realnum_strcmp b c = Some o2 -> o1 <> Gt -> o2 <> Gt ->
    exists o3, realnum_strcmp a c = Some o3 /\ o3 <> Gt /\ (o3 = Eq -> o1 = Eq /\ o2 = Eq).
Print Assumptions realnum_le_trans.

(* ======================= join ======================= *)
Theorem join_is_intercalate :
  forall sep parts, join sep parts = intercalate sep parts.
Proof. exact join_is_intercalate_proof. Qed.
Check join_is_intercalate : forall sep parts, join sep parts = intercalate sep parts.
Print Assumptions join_is_intercalate.

Theorem join_iter_is_intercalate :
  forall sep items, join_iter sep items = intercalate sep items.
Proof. exact join_iter_is_intercalate_proof. Qed.
Check join_iter_is_intercalate : forall sep items, join_iter sep items = intercalate sep items.
Print Assumptions join_iter_is_intercalate.

(* the precomputed capacity is exactly the length of the result *)
Theorem join_length :
  forall sep parts, parts <> [] -> nlen (join sep parts) = join_capacity sep parts.
Proof. exact join_length_proof. Qed.
Check join_length : forall sep parts, parts <> [] -> nlen (join sep parts) = join_capacity sep parts.
Print Assumptions join_length.

(* ======================= split ======================= *)
Theorem split_join :
  forall d xs, xs <> [] -> Forall (fun x => contains_byte d x = false) xs ->
    split_opt d (join [d] xs) = xs.
Proof. exact split_join_proof. Qed.
Check split_join :
  forall d xs, xs <> [] -> Forall (fun x => contains_byte d x = false) xs ->
    split_opt d (join [d] xs) = xs.
Print Assumptions split_join.

Theorem join_split :
  forall d s, join [d] (split_opt d s) = s.
Proof. exact join_split_proof. Qed.
Check join_split : forall d s, join [d] (split_opt d s) = s.
Print Assumptions join_split.

Theorem split_fields_clean :
  forall d s, Forall (fun x => contains_byte d x = false) (split_opt d s).
Proof. exact split_fields_clean_proof. Qed.
Check split_fields_clean : forall d s, Forall (fun x => contains_byte d x = false) (split_opt d s).
Print Assumptions split_fields_clean.

Theorem fs_split_spec :
  forall d s, fs_split d s = drop_last_empty (split_opt d s).
Proof. exact fs_split_spec_proof. Qed.
Check fs_split_spec : forall d s, fs_split d s = drop_last_empty (split_opt d s).
Print Assumptions fs_split_spec.

Theorem fs_split_join :
  forall d xs, xs <> [] -> Forall (fun x => contains_byte d x = false) xs ->
    fs_split d (join [d] xs) = drop_last_empty xs.
Proof. exact fs_split_join_proof. Qed.
Check fs_split_join :
  forall d xs, xs <> [] -> Forall (fun x => contains_byte d x = false) xs ->
    fs_split d (join [d] xs) = drop_last_empty xs.
Print Assumptions fs_split_join.

(* ======================= lines ======================= *)
Theorem lines_unlines :
  forall ls tail,
    Forall (fun p => contains_byte 10 (fst p) = false /\ ends_with_byte (fst p) 13 = false /\
                     (snd p = [10] \/ snd p = [13; 10])) ls ->
    contains_byte 10 tail = false ->
    lines (unlines ls ++ tail) = map fst ls ++ (if null tail then [] else [tail]).
Proof. exact lines_unlines_proof. Qed.
Check lines_unlines :
  forall ls tail,
    Forall (fun p => contains_byte 10 (fst p) = false /\ ends_with_byte (fst p) 13 = false /\
                     (snd p = [10] \/ snd p = [13; 10])) ls ->
    contains_byte 10 tail = false ->
    lines (unlines ls ++ tail) = map fst ls ++ (if null tail then [] else [tail]).
Print Assumptions lines_unlines.

(* ======================= words ======================= *)
Theorem words_are_maximal_runs :
  forall s, words s = words_spec s /\ word_count s = nlen (words_spec s).
Proof. exact words_spec_proof. Qed.
Check words_are_maximal_runs : forall s, words s = words_spec s /\ word_count s = nlen (words_spec s).
Print Assumptions words_are_maximal_runs.

(* ======================= ASCII case ======================= *)
Theorem case_maps :
  (forall c, is_upper_letter c = true -> upper (lower c) = c /\ lower c <> c) /\
  (forall c, is_lower_letter c = true -> lower (upper c) = c /\ upper c <> c) /\
  (forall c, is_upper_letter c = false -> lower c = c) /\
  (forall c, is_lower_letter c = false -> upper c = c) /\
  (forall c, lower (lower c) = lower c /\ upper (upper c) = upper c /\
             upper (lower c) = upper c /\ lower (upper c) = lower c) /\
  (forall c, c < 256 -> lower c < 256 /\ upper c < 256).
Proof. exact case_maps_proof. Qed.
Check case_maps :
  (forall c, is_upper_letter c = true -> upper (lower c) = c /\ lower c <> c) /\
  (forall c, is_lower_letter c = true -> lower (upper c) = c /\ upper c <> c) /\
  (forall c, is_upper_letter c = false -> lower c = c) /\
  (forall c, is_lower_letter c = false -> upper c = c) /\
  (forall c, lower (lower c) = lower c /\ upper (upper c) = upper c /\
             upper (lower c) = upper c /\ lower (upper c) = lower c) /\
  (forall c, c < 256 -> lower c < 256 /\ upper c < 256).
Print Assumptions case_maps.

Theorem to_lower_bmi2_is_map :
  forall s, bytes_ok s -> to_lower_bmi2 s = map lower s.
Proof. exact to_lower_bmi2_is_map_proof. Qed.
Check to_lower_bmi2_is_map : forall s, bytes_ok s -> to_lower_bmi2 s = map lower s.
Print Assumptions to_lower_bmi2_is_map.

Theorem to_upper_bmi2_is_map :
  forall s, bytes_ok s -> to_upper_bmi2 s = map upper s.
Proof. exact to_upper_bmi2_is_map_proof. Qed.
Check to_upper_bmi2_is_map : forall s, bytes_ok s -> to_upper_bmi2 s = map upper s.
Print Assumptions to_upper_bmi2_is_map.

Theorem case_length :
  forall s, bytes_ok s -> nlen (to_lower_bmi2 s) = nlen s /\ nlen (to_upper_bmi2 s) = nlen s.
Proof. exact case_length_proof. Qed.
Check case_length :
  forall s, bytes_ok s -> nlen (to_lower_bmi2 s) = nlen s /\ nlen (to_upper_bmi2 s) = nlen s.
Print Assumptions case_length.

(* ======================= lexicographic iterator ======================= *)
Theorem lex_seek_lower_bound_spec :
  forall l t, sorted_strs l ->
    let '(exact, pos) := li_seek_lower_bound l t in
    let k := match pos with Some p => p | None => length l end in
    (k <= length l)%nat /\ (pos = None <-> k = length l) /\
    (forall i, (i < k)%nat -> lex (nth_str l i) t = Lt) /\
    (forall i, (k <= i)%nat -> (i < length l)%nat -> lex (nth_str l i) t <> Lt) /\
    (exact = true <-> (k < length l)%nat /\ nth_str l k = t) /\
    (exact = false -> forall i, (k <= i)%nat -> (i < length l)%nat -> lex (nth_str l i) t = Gt).
Proof. exact seek_lower_bound_spec. Qed.
Check lex_seek_lower_bound_spec :
  forall l t, sorted_strs l ->
    let '(exact, pos) := li_seek_lower_bound l t in
    let k := match pos with Some p => p | None => length l end in
    (k <= length l)%nat /\ (pos = None <-> k = length l) /\
    (forall i, (i < k)%nat -> lex (nth_str l i) t = Lt) /\
    (forall i, (k <= i)%nat -> (i < length l)%nat -> lex (nth_str l i) t <> Lt) /\
    (exact = true <-> (k < length l)%nat /\ nth_str l k = t) /\
    (exact = false -> forall i, (k <= i)%nat -> (i < length l)%nat -> lex (nth_str l i) t = Gt).
Print Assumptions lex_seek_lower_bound_spec.

Theorem lex_seek_upper_bound_spec :
  forall l t, sorted_strs l ->
    let '(exact, pos) := li_seek_upper_bound l t in
    let k := match pos with Some p => p | None => length l end in
    exact = false /\ (k <= length l)%nat /\ (pos = None <-> k = length l) /\
    (forall i, (i < k)%nat -> lex (nth_str l i) t <> Gt) /\
    (forall i, (k <= i)%nat -> (i < length l)%nat -> lex (nth_str l i) t = Gt).
Proof. exact seek_upper_bound_spec. Qed.
Check lex_seek_upper_bound_spec :
  forall l t, sorted_strs l ->
    let '(exact, pos) := li_seek_upper_bound l t in
    let k := match pos with Some p => p | None => length l end in
    exact = false /\ (k <= length l)%nat /\ (pos = None <-> k = length l) /\
    (forall i, (i < k)%nat -> lex (nth_str l i) t <> Gt) /\
    (forall i, (k <= i)%nat -> (i < length l)%nat -> lex (nth_str l i) t = Gt).
Print Assumptions lex_seek_upper_bound_spec.

Theorem lex_enumerate_all :
  forall l, li_walk (length l) l (snd (li_seek_start l)) = l /\ li_walk (length l) l (li_new l) = l.
Proof. exact enumerate_all_proof. Qed.
Check lex_enumerate_all :
  forall l, li_walk (length l) l (snd (li_seek_start l)) = l /\ li_walk (length l) l (li_new l) = l.
Print Assumptions lex_enumerate_all.

Theorem lex_lower_bound_walk :
  forall l t, sorted_strs l ->
    li_walk (length l) l (snd (li_seek_lower_bound l t)) =
    filter (fun s => match lex s t with Lt => false | _ => true end) l.
Proof. exact lower_bound_walk_proof. Qed.
Check lex_lower_bound_walk :
  forall l t, sorted_strs l ->
    li_walk (length l) l (snd (li_seek_lower_bound l t)) =
    filter (fun s => match lex s t with Lt => false | _ => true end) l.
Print Assumptions lex_lower_bound_walk.

Theorem lex_upper_bound_walk :
  forall l t, sorted_strs l ->
    li_walk (length l) l (snd (li_seek_upper_bound l t)) =
    filter (fun s => match lex s t with Gt => true | _ => false end) l.
Proof. exact upper_bound_walk_proof. Qed.
Check lex_upper_bound_walk :
  forall l t, sorted_strs l ->
    li_walk (length l) l (snd (li_seek_upper_bound l t)) =
    filter (fun s => match lex s t with Gt => true | _ => false end) l.
Print Assumptions lex_upper_bound_walk.
