(* C20 property theorems (numeric comparators).  Statements + exact + Print Assumptions only. *)
From ZV.Common Require Import Base.
From ZV.C20 Require Import Model ProofsDec ProofsDecTop.
Open Scope N_scope.

(* the magnitude comparator equals comparison of the denoted naturals, for all digit strings
   (any number of leading zeros, any length) *)
Theorem mag_cmp_correct_thm :
  forall a b, forallb is_digit a = true -> forallb is_digit b = true ->
    mag_cmp a b = N.compare (dval a) (dval b).
Proof. exact mag_cmp_correct. Qed.
Print Assumptions mag_cmp_correct_thm.

(* decimal_strcmp orders exactly by integer value and is None exactly on invalid input *)
Theorem decimal_strcmp_correct :
  forall a b,
    decimal_strcmp a b =
    match dec_value a, dec_value b with
    | Some x, Some y => Some (Z.compare x y)
    | _, _ => None
    end.
Proof. exact decimal_strcmp_correct_proof. Qed.
Print Assumptions decimal_strcmp_correct.

Theorem decimal_antisym :
  forall a b c, decimal_strcmp a b = Some c -> decimal_strcmp b a = Some (CompOpp c).
Proof. exact decimal_antisym_proof. Qed.
Print Assumptions decimal_antisym.

Theorem decimal_trans :
  forall a b c o, decimal_strcmp a b = Some o -> decimal_strcmp b c = Some o ->
    decimal_strcmp a c = Some o.
Proof. exact decimal_trans_proof. Qed.
Print Assumptions decimal_trans.

(* ======================= realnum_strcmp ======================= *)
From Coq Require Import QArith.
From ZV.C20 Require Import ModelStr Cases ProofsReal ProofsRealTop ProofsStr ProofsLines ProofsLex.
Open Scope N_scope.

(* realnum_strcmp orders exactly by the denoted rational (integer part + fraction / 10^|fraction|, signed;
   leading and trailing zeros, "-0.0" = "0", "5." = "5" = "5.0") and is None exactly on invalid input *)
Theorem realnum_strcmp_correct :
  forall a b,
    realnum_strcmp a b =
    match real_value a, real_value b with
    | Some x, Some y => Some (Qcompare x y)
    | _, _ => None
    end.
Proof. exact realnum_strcmp_correct_proof. Qed.
Check realnum_strcmp_correct :
  forall a b,
    realnum_strcmp a b =
    match real_value a, real_value b with
    | Some x, Some y => Some (Qcompare x y)
    | _, _ => None
    end.
Print Assumptions realnum_strcmp_correct.

Theorem realnum_antisym :
  forall a b c, realnum_strcmp a b = Some c -> realnum_strcmp b a = Some (CompOpp c).
Proof. exact realnum_antisym_proof. Qed.
Check realnum_antisym :
  forall a b c, realnum_strcmp a b = Some c -> realnum_strcmp b a = Some (CompOpp c).
Print Assumptions realnum_antisym.

Theorem realnum_trans :
  forall a b c o, realnum_strcmp a b = Some o -> realnum_strcmp b c = Some o ->
    realnum_strcmp a c = Some o.
Proof. exact realnum_trans_proof. Qed.
Check realnum_trans :
  forall a b c o, realnum_strcmp a b = Some o -> realnum_strcmp b c = Some o ->
    realnum_strcmp a c = Some o.
Print Assumptions realnum_trans.

Theorem realnum_le_trans :
  forall a b c o1 o2,
    realnum_strcmp a b = Some o1 -> realnum_strcmp b c = Some o2 -> o1 <> Gt -> o2 <> Gt ->
    exists o3, realnum_strcmp a c = Some o3 /\ o3 <> Gt /\ (o3 = Eq -> o1 = Eq /\ o2 = Eq).
Proof. exact realnum_le_trans_proof. Qed.
Check realnum_le_trans :
  forall a b c o1 o2,
    realnum_strcmp a b = Some o1 -> realnum_strcmp b c = Some o2 -> o1 <> Gt -> o2 <> Gt ->
    exists o3, realnum_strcmp a c = Some o3 /\ o3 <> Gt /\ (o3 = Eq -> o1 = Eq /\ o2 = Eq).
Print Assumptions realnum_le_trans.

(* ======================= join ======================= *)
Theorem join_is_intercalate :
  forall sep parts, join sep parts = intercalate sep parts.
Proof. exact join_is_intercalate_proof. Qed.
Check join_is_intercalate : forall sep parts, join sep parts = intercalate sep parts.
Print Assumptions join_is_intercalate.

Theorem join_iter_is_intercalate :
  forall sep items, join_iter sep items = intercalate sep items.
Proof. exact join_iter_is_intercalate_proof. Qed.
Check join_iter_is_intercalate : forall sep items, join_iter sep items = intercalate sep items.
Print Assumptions join_iter_is_intercalate.

(* the precomputed capacity is exactly the length of the result *)
Theorem join_length :
  forall sep parts, parts <> [] -> nlen (join sep parts) = join_capacity sep parts.
Proof. exact join_length_proof. Qed.
Check join_length : forall sep parts, parts <> [] -> nlen (join sep parts) = join_capacity sep parts.
Print Assumptions join_length.

(* ======================= split ======================= *)
Theorem split_join :
  forall d xs, xs <> [] -> Forall (fun x => contains_byte d x = false) xs ->
    split_opt d (join [d] xs) = xs.
Proof. exact split_join_proof. Qed.
Check split_join :
  forall d xs, xs <> [] -> Forall (fun x => contains_byte d x = false) xs ->
    split_opt d (join [d] xs) = xs.
Print Assumptions split_join.

Theorem join_split :
  forall d s, join [d] (split_opt d s) = s.
Proof. exact join_split_proof. Qed.
Check join_split : forall d s, join [d] (split_opt d s) = s.
Print Assumptions join_split.

Theorem split_fields_clean :
  forall d s, Forall (fun x => contains_byte d x = false) (split_opt d s).
Proof. exact split_fields_clean_proof. Qed.
Check split_fields_clean : forall d s, Forall (fun x => contains_byte d x = false) (split_opt d s).
Print Assumptions split_fields_clean.

Theorem fs_split_spec :
  forall d s, fs_split d s = drop_last_empty (split_opt d s).
Proof. exact fs_split_spec_proof. Qed.
Check fs_split_spec : forall d s, fs_split d s = drop_last_empty (split_opt d s).
Print Assumptions fs_split_spec.

Theorem fs_split_join :
  forall d xs, xs <> [] -> Forall (fun x => contains_byte d x = false) xs ->
    fs_split d (join [d] xs) = drop_last_empty xs.
Proof. exact fs_split_join_proof. Qed.
Check fs_split_join :
  forall d xs, xs <> [] -> Forall (fun x => contains_byte d x = false) xs ->
    fs_split d (join [d] xs) = drop_last_empty xs.
Print Assumptions fs_split_join.

(* ======================= lines ======================= *)
Theorem lines_unlines :
  forall ls tail,
    Forall (fun p => contains_byte 10 (fst p) = false /\ ends_with_byte (fst p) 13 = false /\
                     (snd p = [10] \/ snd p = [13; 10])) ls ->
    contains_byte 10 tail = false ->
    lines (unlines ls ++ tail) = map fst ls ++ (if null tail then [] else [tail]).
Proof. exact lines_unlines_proof. Qed.
Check lines_unlines :
  forall ls tail,
    Forall (fun p => contains_byte 10 (fst p) = false /\ ends_with_byte (fst p) 13 = false /\
                     (snd p = [10] \/ snd p = [13; 10])) ls ->
    contains_byte 10 tail = false ->
    lines (unlines ls ++ tail) = map fst ls ++ (if null tail then [] else [tail]).
Print Assumptions lines_unlines.

(* ======================= words ======================= *)
Theorem words_are_maximal_runs :
  forall s, words s = words_spec s /\ word_count s = nlen (words_spec s).
Proof. exact words_spec_proof. Qed.
Check words_are_maximal_runs : forall s, words s = words_spec s /\ word_count s = nlen (words_spec s).
Print Assumptions words_are_maximal_runs.

(* ======================= ASCII case ======================= *)
Theorem case_maps :
  (forall c, is_upper_letter c = true -> upper (lower c) = c /\ lower c <> c) /\
  (forall c, is_lower_letter c = true -> lower (upper c) = c /\ upper c <> c) /\
  (forall c, is_upper_letter c = false -> lower c = c) /\
  (forall c, is_lower_letter c = false -> upper c = c) /\
  (forall c, lower (lower c) = lower c /\ upper (upper c) = upper c /\
             upper (lower c) = upper c /\ lower (upper c) = lower c) /\
  (forall c, c < 256 -> lower c < 256 /\ upper c < 256).
Proof. exact case_maps_proof. Qed.
Check case_maps :
  (forall c, is_upper_letter c = true -> upper (lower c) = c /\ lower c <> c) /\
  (forall c, is_lower_letter c = true -> lower (upper c) = c /\ upper c <> c) /\
  (forall c, is_upper_letter c = false -> lower c = c) /\
  (forall c, is_lower_letter c = false -> upper c = c) /\
  (forall c, lower (lower c) = lower c /\ upper (upper c) = upper c /\
             upper (lower c) = upper c /\ lower (upper c) = lower c) /\
  (forall c, c < 256 -> lower c < 256 /\ upper c < 256).
Print Assumptions case_maps.

Theorem to_lower_bmi2_is_map :
  forall s, bytes_ok s -> to_lower_bmi2 s = map lower s.
Proof. exact to_lower_bmi2_is_map_proof. Qed.
Check to_lower_bmi2_is_map : forall s, bytes_ok s -> to_lower_bmi2 s = map lower s.
Print Assumptions to_lower_bmi2_is_map.

Theorem to_upper_bmi2_is_map :
  forall s, bytes_ok s -> to_upper_bmi2 s = map upper s.
Proof. exact to_upper_bmi2_is_map_proof. Qed.
Check to_upper_bmi2_is_map : forall s, bytes_ok s -> to_upper_bmi2 s = map upper s.
Print Assumptions to_upper_bmi2_is_map.

Theorem case_length :
  forall s, bytes_ok s -> nlen (to_lower_bmi2 s) = nlen s /\ nlen (to_upper_bmi2 s) = nlen s.
Proof. exact case_length_proof. Qed.
Check case_length :
  forall s, bytes_ok s -> nlen (to_lower_bmi2 s) = nlen s /\ nlen (to_upper_bmi2 s) = nlen s.
Print Assumptions case_length.

(* ======================= lexicographic iterator ======================= *)
Theorem lex_seek_lower_bound_spec :
  forall l t, sorted_strs l ->
    let '(exact, pos) := li_seek_lower_bound l t in
    let k := match pos with Some p => p | None => length l end in
    (k <= length l)%nat /\ (pos = None <-> k = length l) /\
    (forall i, (i < k)%nat -> lex (nth_str l i) t = Lt) /\
    (forall i, (k <= i)%nat -> (i < length l)%nat -> lex (nth_str l i) t <> Lt) /\
    (exact = true <-> (k < length l)%nat /\ nth_str l k = t) /\
    (exact = false -> forall i, (k <= i)%nat -> (i < length l)%nat -> lex (nth_str l i) t = Gt).
Proof. exact seek_lower_bound_spec. Qed.
Check lex_seek_lower_bound_spec :
  forall l t, sorted_strs l ->
    let '(exact, pos) := li_seek_lower_bound l t in
    let k := match pos with Some p => p | None => length l end in
    (k <= length l)%nat /\ (pos = None <-> k = length l) /\
    (forall i, (i < k)%nat -> lex (nth_str l i) t = Lt) /\
    (forall i, (k <= i)%nat -> (i < length l)%nat -> lex (nth_str l i) t <> Lt) /\
    (exact = true <-> (k < length l)%nat /\ nth_str l k = t) /\
    (exact = false -> forall i, (k <= i)%nat -> (i < length l)%nat -> lex (nth_str l i) t = Gt).
Print Assumptions lex_seek_lower_bound_spec.

Theorem lex_seek_upper_bound_spec :
  forall l t, sorted_strs l ->
    let '(exact, pos) := li_seek_upper_bound l t in
    let k := match pos with Some p => p | None => length l end in
    exact = false /\ (k <= length l)%nat /\ (pos = None <-> k = length l) /\
    (forall i, (i < k)%nat -> lex (nth_str l i) t <> Gt) /\
    (forall i, (k <= i)%nat -> (i < length l)%nat -> lex (nth_str l i) t = Gt).
Proof. exact seek_upper_bound_spec. Qed.
Check lex_seek_upper_bound_spec :
  forall l t, sorted_strs l ->
    let '(exact, pos) := li_seek_upper_bound l t in
    let k := match pos with Some p => p | None => length l end in
    exact = false /\ (k <= length l)%nat /\ (pos = None <-> k = length l) /\
    (forall i, (i < k)%nat -> lex (nth_str l i) t <> Gt) /\
    (forall i, (k <= i)%nat -> (i < length l)%nat -> lex (nth_str l i) t = Gt).
Print Assumptions lex_seek_upper_bound_spec.

Theorem lex_enumerate_all :
  forall l, li_walk (length l) l (snd (li_seek_start l)) = l /\ li_walk (length l) l (li_new l) = l.
Proof. exact enumerate_all_proof. Qed.
Check lex_enumerate_all :
  forall l, li_walk (length l) l (snd (li_seek_start l)) = l /\ li_walk (length l) l (li_new l) = l.
Print Assumptions lex_enumerate_all.

Theorem lex_lower_bound_walk :
  forall l t, sorted_strs l ->
    li_walk (length l) l (snd (li_seek_lower_bound l t)) =
    filter (fun s => match lex s t with Lt => false | _ => true end) l.
Proof. exact lower_bound_walk_proof. Qed.
Check lex_lower_bound_walk :
  forall l t, sorted_strs l ->
    li_walk (length l) l (snd (li_seek_lower_bound l t)) =
    filter (fun s => match lex s t with Lt => false | _ => true end) l.
Print Assumptions lex_lower_bound_walk.

Theorem lex_upper_bound_walk :
  forall l t, sorted_strs l ->
    li_walk (length l) l (snd (li_seek_upper_bound l t)) =
    filter (fun s => match lex s t with Gt => true | _ => false end) l.
Proof. exact upper_bound_walk_proof. Qed.
Check lex_upper_bound_walk :
  forall l t, sorted_strs l ->
    li_walk (length l) l (snd (li_seek_upper_bound l t)) =
    filter (fun s => match lex s t with Gt => true | _ => false end) l.
Print Assumptions lex_upper_bound_walk.

(* ======================= extension: FastStr, word-boundary helpers, LineProcessor configurations ======================= *)
From ZV.C20 Require Import ModelFast ModelText CasesX ProofsFast ProofsFastHash ProofsText.
Open Scope N_scope.

(* FastStr::find (empty needle, needle longer than the text, single-byte dispatch, window loop) returns exactly the
   first occurrence, None exactly when there is none; overlapping occurrences included *)
Theorem fs_find_first_occurrence :
  forall h n,
    (forall i, fs_find h n = Some i <-> (occurs_at h n i /\ forall j, occurs_at h n j -> (i <= j)%nat)) /\
    (fs_find h n = None <-> forall j, ~ occurs_at h n j).
Proof. exact fs_find_iff_proof. Qed.
Check fs_find_first_occurrence :
  forall h n,
    (forall i, fs_find h n = Some i <-> (occurs_at h n i /\ forall j, occurs_at h n j -> (i <= j)%nat)) /\
    (fs_find h n = None <-> forall j, ~ occurs_at h n j).
Print Assumptions fs_find_first_occurrence.

(* find_byte / find_byte_optimized: the first position of the byte *)
Theorem fs_find_byte_first :
  forall c h i, find_byte c h = Some i ->
    occurs_at h [c] i /\ forall j, (j < i)%nat -> ~ occurs_at h [c] j.
Proof. exact (fun c h i H => find_byte_first c h i H). Qed.
Check fs_find_byte_first :
  forall c h i, find_byte c h = Some i ->
    occurs_at h [c] i /\ forall j, (j < i)%nat -> ~ occurs_at h [c] j.
Print Assumptions fs_find_byte_first.

(* starts_with = being a prefix *)
Theorem fs_starts_with_spec :
  forall s p, fs_starts_with s p = true <-> exists r, s = p ++ r.
Proof. exact fs_starts_with_proof. Qed.
Check fs_starts_with_spec :
  forall s p, fs_starts_with s p = true <-> exists r, s = p ++ r.
Print Assumptions fs_starts_with_spec.

(* ends_with = being a suffix *)
Theorem fs_ends_with_spec :
  forall s p, fs_ends_with s p = true <-> exists r, s = r ++ p.
Proof. exact fs_ends_with_proof. Qed.
Check fs_ends_with_spec :
  forall s p, fs_ends_with s p = true <-> exists r, s = r ++ p.
Print Assumptions fs_ends_with_spec.

(* starts_with agrees with find *)
Theorem fs_starts_with_is_find_0 :
  forall s p, fs_starts_with s p = true <-> fs_find s p = Some O.
Proof. exact fs_starts_with_find_proof. Qed.
Check fs_starts_with_is_find_0 :
  forall s p, fs_starts_with s p = true <-> fs_find s p = Some O.
Print Assumptions fs_starts_with_is_find_0.

(* common_prefix_len is the length of the longest common prefix, and compare is decided by the unsigned bytes right
   after it (a missing byte sorts first): lexicographic order by unsigned byte *)
Theorem fs_cmp_by_common_prefix :
  forall a b,
    let k := fs_common_prefix_len a b in
    firstn k a = firstn k b /\ (k <= length a)%nat /\ (k <= length b)%nat /\
    (forall x y, nth_error a k = Some x -> nth_error b k = Some y -> x <> y) /\
    fs_compare a b = cmp_at a b k.
Proof. exact fs_cmp_by_common_prefix_proof. Qed.
Check fs_cmp_by_common_prefix :
  forall a b,
    let k := fs_common_prefix_len a b in
    firstn k a = firstn k b /\ (k <= length a)%nat /\ (k <= length b)%nat /\
    (forall x y, nth_error a k = Some x -> nth_error b k = Some y -> x <> y) /\
    fs_compare a b = cmp_at a b k.
Print Assumptions fs_cmp_by_common_prefix.

(* compare is a total order consistent with ==, and a prefix never sorts after the string *)
Theorem fs_cmp_total_order :
  (forall a, fs_compare a a = Eq) /\
  (forall a b, fs_compare a b = Eq <-> a = b) /\
  (forall a b, fs_eq a b = true <-> a = b) /\
  (forall a b, fs_compare b a = CompOpp (fs_compare a b)) /\
  (forall a b c, fs_compare a b = Lt -> fs_compare b c = Lt -> fs_compare a c = Lt) /\
  (forall a b c, fs_compare a b <> Gt -> fs_compare b c <> Gt -> fs_compare a c <> Gt) /\
  (forall s p, fs_starts_with s p = true -> fs_compare p s <> Gt).
Proof. exact fs_cmp_total_order_proof. Qed.
Check fs_cmp_total_order :
  (forall a, fs_compare a a = Eq) /\
  (forall a b, fs_compare a b = Eq <-> a = b) /\
  (forall a b, fs_eq a b = true <-> a = b) /\
  (forall a b, fs_compare b a = CompOpp (fs_compare a b)) /\
  (forall a b c, fs_compare a b = Lt -> fs_compare b c = Lt -> fs_compare a c = Lt) /\
  (forall a b c, fs_compare a b <> Gt -> fs_compare b c <> Gt -> fs_compare a c <> Gt) /\
  (forall s p, fs_starts_with s p = true -> fs_compare p s <> Gt).
Print Assumptions fs_cmp_total_order.

(* prefix / substring_from / suffix never panic, clamp at the length, and prefix(k) ++ substring_from(k) is the string *)
Theorem fs_slicing :
  forall (s : bytes) (k : N),
    let m := N.to_nat (N.min k (nlen s)) in
    fs_prefix s k = Some (firstn m s) /\
    fs_substring_from s k = Some (skipn m s) /\
    fs_suffix s k = Some (skipn (length s - m) s) /\
    firstn m s ++ skipn m s = s /\ length (firstn m s) = m /\ length (skipn (length s - m) s) = m.
Proof. exact fs_slicing_proof. Qed.
Check fs_slicing :
  forall (s : bytes) (k : N),
    let m := N.to_nat (N.min k (nlen s)) in
    fs_prefix s k = Some (firstn m s) /\
    fs_substring_from s k = Some (skipn m s) /\
    fs_suffix s k = Some (skipn (length s - m) s) /\
    firstn m s ++ skipn m s = s /\ length (firstn m s) = m /\ length (skipn (length s - m) s) = m.
Print Assumptions fs_slicing.

(* substring(start, len) with the saturating addition: the bytes from start, at most len of them; panics exactly when start > len() *)
Theorem fs_substring_spec :
  forall (s : bytes) (a l : N), nlen s <= USIZE_MAX ->
    fs_substring s a l =
    if a <=? nlen s then Some (firstn (N.to_nat (N.min l (nlen s - a))) (skipn (N.to_nat a) s)) else None.
Proof. exact fs_substring_proof. Qed.
Check fs_substring_spec :
  forall (s : bytes) (a l : N), nlen s <= USIZE_MAX ->
    fs_substring s a l =
    if a <=? nlen s then Some (firstn (N.to_nat (N.min l (nlen s - a))) (skipn (N.to_nat a) s)) else None.
Print Assumptions fs_substring_spec.

(* the AVX2 (32-byte chunks, four lanes), SSE2 (16-byte chunks, two lanes) and portable (8-byte chunks) hash paths compute
   the same function, for every length *)
Theorem fs_hash_paths_agree :
  forall s, hash_avx2 s = hash_fallback s /\ hash_sse2 s = hash_fallback s /\ hash_fast s = hash_fallback s.
Proof. exact hash_paths_agree_proof. Qed.
Check fs_hash_paths_agree :
  forall s, hash_avx2 s = hash_fallback s /\ hash_sse2 s = hash_fallback s /\ hash_fast s = hash_fallback s.
Print Assumptions fs_hash_paths_agree.

(* equal strings hash equally and compare Equal *)
Theorem fs_eq_hash_coherent :
  forall a b, fs_eq a b = true -> hash_fast a = hash_fast b /\ fs_compare a b = Eq /\ fs_compare b a = Eq.
Proof. exact eq_hash_coherent_proof. Qed.
Check fs_eq_hash_coherent :
  forall a b, fs_eq a b = true -> hash_fast a = hash_fast b /\ fs_compare a b = Eq /\ fs_compare b a = Eq.
Print Assumptions fs_eq_hash_coherent.

(* find_word_boundaries lists exactly the positions 0..=len that is_word_boundary accepts, ascending, each once *)
Theorem find_word_boundaries_spec :
  forall s, find_word_boundaries s = filter (is_word_boundary s) (seq 0 (S (length s))).
Proof. exact find_word_boundaries_proof. Qed.
Check find_word_boundaries_spec :
  forall s, find_word_boundaries s = filter (is_word_boundary s) (seq 0 (S (length s))).
Print Assumptions find_word_boundaries_spec.

(* word_at_position returns the maximal run of word bytes around the position, None exactly outside a word *)
Theorem word_at_position_maximal :
  forall s pos,
    match word_at_position s pos with
    | Some (a, b) =>
        (a <= pos < b)%nat /\ (b <= length s)%nat /\
        (forall i, (a <= i < b)%nat -> is_word_char (byte_at s i) = true) /\
        (a = O \/ is_word_char (byte_at s (a - 1)) = false) /\
        (b = length s \/ is_word_char (byte_at s b) = false)
    | None => (length s <= pos)%nat \/ is_word_char (byte_at s pos) = false
    end.
Proof. exact word_at_position_proof. Qed.
Check word_at_position_maximal :
  forall s pos,
    match word_at_position s pos with
    | Some (a, b) =>
        (a <= pos < b)%nat /\ (b <= length s)%nat /\
        (forall i, (a <= i < b)%nat -> is_word_char (byte_at s i) = true) /\
        (a = O \/ is_word_char (byte_at s (a - 1)) = false) /\
        (b = length s \/ is_word_char (byte_at s b) = false)
    | None => (length s <= pos)%nat \/ is_word_char (byte_at s pos) = false
    end.
Print Assumptions word_at_position_maximal.

(* every LineProcessor configuration (any trimming function) = per-line post-processing and filtering of the raw pieces *)
Theorem lines_cfg_decompose :
  forall trim cfg s,
    process_lines trim cfg s =
    filter (fun line => negb (lp_skipped cfg line)) (map (lp_line trim cfg) (process_lines trim cfg_keep s)).
Proof. exact lines_cfg_decompose_proof. Qed.
Check lines_cfg_decompose :
  forall trim cfg s,
    process_lines trim cfg s =
    filter (fun line => negb (lp_skipped cfg line)) (map (lp_line trim cfg) (process_lines trim cfg_keep s)).
Print Assumptions lines_cfg_decompose.

(* with the endings preserved the delivered pieces concatenate to the input; every piece ends at the first newline, only
   the last may be unterminated (and is then non-empty) *)
Theorem lines_keep_concat :
  forall trim s,
    concat (process_lines trim cfg_keep s) = s /\ pieces_ok (process_lines trim cfg_keep s).
Proof. exact lines_keep_concat_proof. Qed.
Check lines_keep_concat :
  forall trim s,
    concat (process_lines trim cfg_keep s) = s /\ pieces_ok (process_lines trim cfg_keep s).
Print Assumptions lines_keep_concat.

(* count_lines = number of lines process_lines delivers, in every configuration *)
Theorem count_lines_is_length :
  forall trim cfg s, count_lines trim cfg s = nlen (process_lines trim cfg s).
Proof. exact count_lines_is_length_proof. Qed.
Check count_lines_is_length :
  forall trim cfg s, count_lines trim cfg s = nlen (process_lines trim cfg s).
Print Assumptions count_lines_is_length.

(* process_batches hands over exactly the lines of process_lines, in order, in full batches plus one non-empty partial
   batch at the end, and returns their number (batch size 0 behaves as 1) *)
Theorem batches_spec :
  forall trim cfg bsz s,
    let '(bs, t) := process_batches trim cfg bsz s in
    concat bs = process_lines trim cfg s /\ t = nlen (process_lines trim cfg s) /\ batches_ok (Nat.max bsz 1) bs.
Proof. exact batches_proof. Qed.
Check batches_spec :
  forall trim cfg bsz s,
    let '(bs, t) := process_batches trim cfg bsz s in
    concat bs = process_lines trim cfg s /\ t = nlen (process_lines trim cfg s) /\ batches_ok (Nat.max bsz 1) bs.
Print Assumptions batches_spec.

(* the default configuration is the model the line theorem lines_unlines is about *)
Theorem lines_default_is_lines :
  forall trim s, process_lines trim cfg_default s = lines s.
Proof. exact lines_default_proof. Qed.
Check lines_default_is_lines :
  forall trim s, process_lines trim cfg_default s = lines s.
Print Assumptions lines_default_is_lines.

(* non-trivial instances *)
Example fast_nontrivial :
  fs_find [1; 2; 1; 2; 1; 3] [1; 2; 1; 3] = Some 2%nat /\ fs_find [97; 97; 97] [97; 97] = Some O /\
  fs_find [1; 2] [] = Some O /\ fs_find [1; 2; 3] [3; 4] = None /\
  fs_common_prefix_len [104; 101; 108; 108] [104; 101; 108; 112] = 3%nat /\
  fs_compare [115] [243] = Lt /\ fs_compare [1; 2] [1; 2; 0] = Lt /\
  fs_substring [1; 2; 3; 4] 1 USIZE_MAX = Some [2; 3; 4] /\ fs_substring [1; 2] 3 0 = None /\
  fs_suffix [1; 2; 3] 2 = Some [2; 3] /\
  hash_avx2 demo_bytes = hash_fallback demo_bytes /\ hash_avx2 demo_bytes <> hash_avx2 (removelast demo_bytes) /\
  nlen demo_bytes = 75.
Proof. vm_compute. repeat split; try reflexivity; discriminate. Qed.
Example text_nontrivial :
  find_word_boundaries [104; 105; 32; 32; 120; 95; 49; 33] = [0; 2; 4; 7; 8]%nat /\
  word_at_position [104; 105; 32; 32; 120; 95; 49; 33] 5 = Some (4, 7)%nat /\
  process_lines utf8_trim (cfg_of_bits 3) [32; 97; 32; 13; 10; 194; 160; 10; 98] = [[97]; [98]] /\
  process_lines utf8_trim cfg_keep [97; 13; 10; 10; 98] = [[97; 13; 10]; [10]; [98]] /\
  process_batches utf8_trim cfg_default 2 [97; 10; 98; 10; 99; 10] = ([[[97]; [98]]; [[99]]], 3) /\
  count_lines utf8_trim (cfg_of_bits 1) [10; 97; 10; 10] = 1.
Proof. vm_compute. repeat split; reflexivity. Qed.

(* ======================= extension: unicode.rs ======================= *)
From ZV.C20 Require Import ModelUtf8 ProofsUtf8 ProofsUtf8Enc.
Open Scope N_scope.

(* on every valid UTF-8 text: next_char from the start yields exactly the characters of chars(), each once, in order, and stops
   at the end; prev_char from the end yields them in reverse and stops at 0 (the backward scan over continuation bytes lands
   on every character start); the count is the number of characters *)
Theorem utf8_walks :
  forall s cs, chars s = Some cs ->
    walk_fwd (S (length s)) s {| u_pos := O; u_cur := None |} = (map fst cs, {| u_pos := length s; u_cur := None |}) /\
    (forall cur, walk_bwd (S (length s)) s {| u_pos := length s; u_cur := cur |} =
                 (rev (map fst cs), {| u_pos := O; u_cur := None |})) /\
    validate_count s = Some (nlen cs) /\ (length cs <= length s)%nat.
Proof. exact utf8_walks_proof. Qed.
Check utf8_walks :
  forall s cs, chars s = Some cs ->
    walk_fwd (S (length s)) s {| u_pos := O; u_cur := None |} = (map fst cs, {| u_pos := length s; u_cur := None |}) /\
    (forall cur, walk_bwd (S (length s)) s {| u_pos := length s; u_cur := cur |} =
                 (rev (map fst cs), {| u_pos := O; u_cur := None |})) /\
    validate_count s = Some (nlen cs) /\ (length cs <= length s)%nat.
Print Assumptions utf8_walks.

(* every list of Unicode scalar values (1- to 4-byte forms, no surrogates): its encoding is accepted, counted, and enumerated
   exactly, forward and backward *)
Theorem utf8_roundtrip :
  forall cs, forallb is_scalar cs = true ->
    let s := encode_all cs in
    chars s = Some (enc_chars cs) /\ validate_count s = Some (nlen cs) /\
    fst (walk_fwd (S (length s)) s {| u_pos := O; u_cur := None |}) = cs /\
    (forall cur, fst (walk_bwd (S (length s)) s {| u_pos := length s; u_cur := cur |}) = rev cs).
Proof. exact utf8_roundtrip_proof. Qed.
Check utf8_roundtrip :
  forall cs, forallb is_scalar cs = true ->
    let s := encode_all cs in
    chars s = Some (enc_chars cs) /\ validate_count s = Some (nlen cs) /\
    fst (walk_fwd (S (length s)) s {| u_pos := O; u_cur := None |}) = cs /\
    (forall cur, fst (walk_bwd (S (length s)) s {| u_pos := length s; u_cur := cur |}) = rev cs).
Print Assumptions utf8_roundtrip.

Example utf8_nontrivial :
  forallb is_scalar [97; 233; 8364; 128512; 55295; 57344; 1114111; 0; 127; 128; 2047; 2048; 65535; 65536] = true /\
  encode_all [97; 233; 8364; 128512] = [97; 195; 169; 226; 130; 172; 240; 159; 152; 128] /\
  chars [237; 160; 128] = None /\ chars [192; 128] = None /\ chars [244; 144; 128; 128] = None /\ chars [226; 130] = None /\
  u8_run [97; 195; 169] {| u_pos := O; u_cur := None |} [0; 0; 0; 1; 1; 1; 0; 2] =
    [(Some 97, Some 97, 1); (Some 233, Some 233, 3); (None, None, 3); (Some 233, Some 233, 1);
     (Some 97, Some 97, 0); (None, None, 0); (Some 97, Some 97, 1); (None, None, 0)].
Proof. vm_compute. repeat split; reflexivity. Qed.

(* ======================= extension: StreamingLexIterator ======================= *)
From ZV.C20 Require Import ModelStream ProofsStream.
Open Scope N_scope.

(* StreamingLexIterator: next() until it answers false delivers through current() exactly the lines of the stream (the
   same lines as LineProcessor's default configuration: an empty line is a string, never None), then is_at_end and current() = None *)
Theorem streaming_enumerates :
  forall s,
    let '(cs, e) := sl_walk (S (length s)) (sl_new s) in
    cs = map Some (lines s) /\ sl_fin e = true /\ sl_current e = None.
Proof. exact streaming_enumerates_proof. Qed.
Check streaming_enumerates :
  forall s,
    let '(cs, e) := sl_walk (S (length s)) (sl_new s) in
    cs = map Some (lines s) /\ sl_fin e = true /\ sl_current e = None.
Print Assumptions streaming_enumerates.

(* a list of strings written one per line with any mix of "\n" / "\r\n" (empty strings, duplicates, last terminator
   optional) is enumerated exactly: nothing skipped, nothing repeated *)
Theorem streaming_unlines :
  forall ls tail,
    Forall (fun p => contains_byte 10 (fst p) = false /\ ends_with_byte (fst p) 13 = false /\
                     (snd p = [10] \/ snd p = [13; 10])) ls ->
    contains_byte 10 tail = false ->
    fst (sl_walk (S (length (unlines ls ++ tail))) (sl_new (unlines ls ++ tail))) =
    map Some (map fst ls ++ (if null tail then [] else [tail])).
Proof. exact streaming_unlines_proof. Qed.
Check streaming_unlines :
  forall ls tail,
    Forall (fun p => contains_byte 10 (fst p) = false /\ ends_with_byte (fst p) 13 = false /\
                     (snd p = [10] \/ snd p = [13; 10])) ls ->
    contains_byte 10 tail = false ->
    fst (sl_walk (S (length (unlines ls ++ tail))) (sl_new (unlines ls ++ tail))) =
    map Some (map fst ls ++ (if null tail then [] else [tail])).
Print Assumptions streaming_unlines.

Example streaming_nontrivial :
  sl_run (sl_new [10; 97; 13; 10; 97; 10; 98]) [0; 1; 0; 0; 4; 0; 0; 0] =
    [(1, Some [], false); (2, Some [], false); (1, Some [97], false); (1, Some [97], false); (2, Some [97], false);
     (1, Some [98], false); (0, None, true); (0, None, true)].
Proof. vm_compute. reflexivity. Qed.

(* ======================= extension: SortableStrVec::binary_search, ZoSortedStrVec ======================= *)
From ZV.C20 Require Import ModelSearch ModelZo ProofsSearch ProofsZo ProofsZoAccept ModelSsv ProofsSsv.
Open Scope N_scope.

(* SortableStrVec::binary_search (small path and block path: binary search over the block starts, then the scan of one block)
   on every sorted enumeration with duplicates and empty strings, every block size >= 1: Ok(i) points at the needle, Err(i) is the
   insertion point *)
Theorem ssv_binary_search_spec :
  forall l t bs, sorted_strs l -> (1 <= bs)%nat ->
    match ssv_binary_search l t bs with
    | Found m => (m < length l)%nat /\ lex (nth_str l m) t = Eq
    | NotFound k => (k <= length l)%nat /\ (forall i, (i < k)%nat -> lex (nth_str l i) t = Lt) /\
                    (forall i, (k <= i)%nat -> (i < length l)%nat -> lex (nth_str l i) t = Gt)
    end.
Proof. exact (fun l t bs Hs Hb => ssv_binary_search_ok l t bs Hs Hb). Qed.
Check ssv_binary_search_spec :
  forall l t bs, sorted_strs l -> (1 <= bs)%nat ->
    match ssv_binary_search l t bs with
    | Found m => (m < length l)%nat /\ lex (nth_str l m) t = Eq
    | NotFound k => (k <= length l)%nat /\ (forall i, (i < k)%nat -> lex (nth_str l i) t = Lt) /\
                    (forall i, (k <= i)%nat -> (i < length l)%nat -> lex (nth_str l i) t = Gt)
    end.
Print Assumptions ssv_binary_search_spec.

(* ZoSortedStrVec over the NUL-terminated data + boundary bits: get reads back every string of any list without NUL bytes (empty
   strings and duplicates included), iter() enumerates the list; on sorted lists binary_search finds exactly, lower_bound is the
   first string >= the needle, range(lo, hi) is the segment between the two lower bounds (all duplicates) *)
Theorem zo_spec :
  forall ss, Forall (no_byte 0) ss ->
    (forall i, zo_get (zo_build ss) i = nth_error ss i) /\
    zo_iter (zo_build ss) = ss /\
    (sorted_strs ss -> forall t,
       match zo_binary_search (zo_build ss) t with
       | Found m => (m < length ss)%nat /\ lex (nth_str ss m) t = Eq
       | NotFound k => (k <= length ss)%nat /\ (forall i, (i < k)%nat -> lex (nth_str ss i) t = Lt) /\
                       (forall i, (k <= i)%nat -> (i < length ss)%nat -> lex (nth_str ss i) t = Gt)
       end) /\
    (sorted_strs ss -> forall t,
       let k := zo_lower_bound (zo_build ss) t in
       (k <= length ss)%nat /\ (forall i, (i < k)%nat -> lex (nth_str ss i) t = Lt) /\
       (forall i, (k <= i)%nat -> (i < length ss)%nat -> lex (nth_str ss i) t <> Lt)) /\
    (sorted_strs ss -> forall lo hi,
       let a := zo_lower_bound (zo_build ss) lo in
       let b := zo_lower_bound (zo_build ss) hi in
       zo_range (zo_build ss) lo hi = firstn (b - a) (skipn a ss)).
Proof. exact zo_spec_proof. Qed.
Check zo_spec :
  forall ss, Forall (no_byte 0) ss ->
    (forall i, zo_get (zo_build ss) i = nth_error ss i) /\
    zo_iter (zo_build ss) = ss /\
    (sorted_strs ss -> forall t,
       match zo_binary_search (zo_build ss) t with
       | Found m => (m < length ss)%nat /\ lex (nth_str ss m) t = Eq
       | NotFound k => (k <= length ss)%nat /\ (forall i, (i < k)%nat -> lex (nth_str ss i) t = Lt) /\
                       (forall i, (k <= i)%nat -> (i < length ss)%nat -> lex (nth_str ss i) t = Gt)
       end) /\
    (sorted_strs ss -> forall t,
       let k := zo_lower_bound (zo_build ss) t in
       (k <= length ss)%nat /\ (forall i, (i < k)%nat -> lex (nth_str ss i) t = Lt) /\
       (forall i, (k <= i)%nat -> (i < length ss)%nat -> lex (nth_str ss i) t <> Lt)) /\
    (sorted_strs ss -> forall lo hi,
       let a := zo_lower_bound (zo_build ss) lo in
       let b := zo_lower_bound (zo_build ss) hi in
       zo_range (zo_build ss) lo hi = firstn (b - a) (skipn a ss)).
Print Assumptions zo_spec.

(* from_sorted_strings accepts exactly the sorted lists without NUL bytes (the empty list included) and refuses all others *)
Theorem zo_accepts :
  forall ss,
    (zo_from_sorted ss = Some (zo_build ss) <-> (Forall (no_byte 0) ss /\ sorted_strs ss)) /\
    (zo_from_sorted ss = None <-> ~ (Forall (no_byte 0) ss /\ sorted_strs ss)).
Proof. exact zo_accepts_proof. Qed.
Check zo_accepts :
  forall ss,
    (zo_from_sorted ss = Some (zo_build ss) <-> (Forall (no_byte 0) ss /\ sorted_strs ss)) /\
    (zo_from_sorted ss = None <-> ~ (Forall (no_byte 0) ss /\ sorted_strs ss)).
Print Assumptions zo_accepts.

(* SortableStrVec storage: for every list of strings that fits the field widths (each at most 2^20-1 bytes, 2^40-1 in total) all
   pushes succeed and get(i) reads back the i-th pushed string through the packed 64-bit entry (offset | length << 40 | seq << 60);
   get beyond the end is None *)
Theorem ssv_push_get :
  forall ss, fits 0 ss ->
    exists v, ssv_push_all ssv_new ss = Some v /\
      sv_arena v = concat ss /\ nlen (sv_entries v) = nlen ss /\
      forall i, ssv_get v i = nth_error ss (N.to_nat i).
Proof. exact ssv_push_get_proof. Qed.
Check ssv_push_get :
  forall ss, fits 0 ss ->
    exists v, ssv_push_all ssv_new ss = Some v /\
      sv_arena v = concat ss /\ nlen (sv_entries v) = nlen ss /\
      forall i, ssv_get v i = nth_error ss (N.to_nat i).
Print Assumptions ssv_push_get.

(* a string longer than the 20-bit length field is refused (it would read back truncated) *)
Theorem ssv_push_refuses :
  forall v s, MAX_LENGTH < nlen s -> ssv_push v s = None.
Proof. exact ssv_push_refuses_proof. Qed.
Check ssv_push_refuses :
  forall v s, MAX_LENGTH < nlen s -> ssv_push v s = None.
Print Assumptions ssv_push_refuses.

Example sorted_containers_nontrivial :
  sorted_strs demo_strs /\ Forall (no_byte 0) demo_strs /\ fits 0 demo_strs /\
  ssv_binary_search demo_strs [97; 98] 2 = Found 4%nat /\ ssv_binary_search demo_strs [97; 97] 2 = NotFound 4%nat /\
  ssv_binary_search demo_strs [122] 3 = NotFound 9%nat /\ ssv_binary_search demo_strs [] 1 = Found 1%nat /\
  ssv_binary_search demo_strs [98] 256 = Found 7%nat /\
  zo_range (zo_build demo_strs) [97] [98] = [[97]; [97]; [97; 98]] /\ zo_get (zo_build demo_strs) 1 = Some [] /\
  zo_iter (zo_build demo_strs) = demo_strs /\
  zo_from_sorted [[98]; [97]] = None /\ zo_from_sorted [[97; 0; 98]] = None.
Proof.
  split; [exact demo_sorted|]. split; [repeat constructor|].
  split; [split; [repeat constructor; vm_compute; discriminate|vm_compute; discriminate]|].
  vm_compute. repeat split; reflexivity.
Qed.

(* ======================= extension: the chunked comparison kernel of the release-mode sort ======================= *)
From ZV.C20 Require Import ModelCmp ProofsCmp.
Open Scope N_scope.

(* SortableStrVec::fast_lexicographic_cmp (8-byte chunks of the common length compared as byte arrays, the remaining bytes one by
   one, then the lengths) is the byte-wise lexicographic order by unsigned byte, for all lengths *)
Theorem fast_lex_cmp_is_lex :
  forall a b, fast_lex_cmp a b = lex a b.
Proof. exact fast_lex_cmp_is_lex_proof. Qed.
Check fast_lex_cmp_is_lex :
  forall a b, fast_lex_cmp a b = lex a b.
Print Assumptions fast_lex_cmp_is_lex.

Example cmp_kernel_nontrivial :
  fast_lex_cmp [1; 2; 3; 4; 5; 6; 7; 8; 9; 200] [1; 2; 3; 4; 5; 6; 7; 8; 9; 100; 0] = Gt /\
  fast_lex_cmp [1; 2; 3; 4; 5; 6; 7; 200; 0] [1; 2; 3; 4; 5; 6; 7; 8; 255] = Gt /\
  fast_lex_cmp [1; 2; 3; 4; 5; 6; 7; 8] [1; 2; 3; 4; 5; 6; 7; 8; 0] = Lt /\ fast_lex_cmp [] [] = Eq.
Proof. vm_compute. repeat split; reflexivity. Qed.

(* ======================= extension: the pieces between word boundaries ======================= *)
From ZV.C20 Require Import ProofsPieces.
Open Scope N_scope.

(* cutting a text at the positions find_word_boundaries returns: the pieces concatenate to the text, each is non-empty and of one
   class (word bytes / other bytes), neighbouring pieces are of different classes - every piece is a maximal run *)
Theorem boundaries_cut :
  forall s, s <> [] ->
    let ps := cut s (find_word_boundaries s) in
    concat ps = s /\ Forall good ps /\ alt ps.
Proof. exact boundaries_cut_proof. Qed.
Check boundaries_cut :
  forall s, s <> [] ->
    let ps := cut s (find_word_boundaries s) in
    concat ps = s /\ Forall good ps /\ alt ps.
Print Assumptions boundaries_cut.

Example pieces_nontrivial :
  cut [104; 105; 32; 32; 120; 95; 49; 33] (find_word_boundaries [104; 105; 32; 32; 120; 95; 49; 33]) =
  [[104; 105]; [32; 32]; [120; 95; 49]; [33]].
Proof. vm_compute. reflexivity. Qed.
