(* C20: SortableStrVec::binary_search (ModelSearch.v) on every sorted list with duplicates and every block size >= 1:
   Ok(i) points at the needle, Err(i) is the insertion point. *)
From ZV.Common Require Import Base Run.
From ZV.C20 Require Import Model ModelStr ModelSearch ProofsLex.
Open Scope N_scope.

Section BlockSearch.
Variable l : strs.
Variable t : bytes.
Variable bs : nat.
Hypothesis Hsorted : sorted_strs l.
Hypothesis Hbs : (1 <= bs)%nat.
Let n := length l.

Definition search_ok (r : bs_result) : Prop :=
  match r with
  | Found m => (m < n)%nat /\ lex (nth_str l m) t = Eq
  | NotFound k => (k <= n)%nat /\ (forall i, (i < k)%nat -> lex (nth_str l i) t = Lt) /\
                  (forall i, (k <= i)%nat -> (i < n)%nat -> lex (nth_str l i) t = Gt)
  end.

Lemma below_lt i j : (i <= j)%nat -> (j < n)%nat -> lex (nth_str l j) t = Lt -> lex (nth_str l i) t = Lt.
Proof. intros Hij Hj E. apply lex_le_lt with (b := nth_str l j); [|exact E]. apply Hsorted; unfold n in *; lia. Qed.
Lemma above_gt i j : (i <= j)%nat -> (j < n)%nat -> lex (nth_str l i) t = Gt -> lex (nth_str l j) t = Gt.
Proof. intros Hij Hj E. apply lex_gt_le with (a := nth_str l i); [exact E|]. apply Hsorted; unfold n in *; lia. Qed.

Lemma bbs_blocks_spec : forall fuel lb rb,
  (rb - lb < fuel)%nat -> (lb <= rb)%nat ->
  (forall b, (b < lb)%nat -> (b * bs < n)%nat /\ lex (nth_str l (b * bs)) t = Lt) ->
  (forall b, (rb <= b)%nat -> (b * bs < n)%nat -> lex (nth_str l (b * bs)) t = Gt) ->
  match bbs_blocks fuel l t bs lb rb with
  | BHit idx => (idx < n)%nat /\ lex (nth_str l idx) t = Eq
  | BLeft k => (forall b, (b < k)%nat -> (b * bs < n)%nat /\ lex (nth_str l (b * bs)) t = Lt) /\
               (forall b, (k <= b)%nat -> (b * bs < n)%nat -> lex (nth_str l (b * bs)) t = Gt)
  end.
Proof.
  induction fuel as [|f IH]; intros lb rb Hf Hlr Hlo Hhi; [lia|].
  cbn [bbs_blocks]. destruct (Nat.ltb_spec lb rb) as [Hlt|Hge].
  - set (mid := (lb + (rb - lb) / 2)%nat).
    assert (Hmid : (lb <= mid /\ mid < rb)%nat).
    { unfold mid. pose proof (Nat.div_lt (rb - lb) 2 ltac:(lia) ltac:(lia)). lia. }
    fold n. destruct (Nat.leb_spec n (mid * bs)) as [Hout|Hin].
    + apply IH; try lia; [exact Hlo|]. intros b Hb Hbn. exfalso.
      assert (mid * bs <= b * bs)%nat by (apply Nat.mul_le_mono_r; lia). lia.
    + destruct (lex (nth_str l (mid * bs)) t) eqn:E.
      * split; [exact Hin|exact E].
      * apply IH; try lia; [|exact Hhi]. intros b Hb.
        assert (Hle : (b * bs <= mid * bs)%nat) by (apply Nat.mul_le_mono_r; lia).
        split; [lia|]. apply below_lt with (j := (mid * bs)%nat); assumption.
      * apply IH; try lia; [exact Hlo|]. intros b Hb Hbn.
        assert (Hle : (mid * bs <= b * bs)%nat) by (apply Nat.mul_le_mono_r; lia).
        apply above_gt with (i := (mid * bs)%nat); assumption.
  - assert (lb = rb) by lia. subst rb. split; assumption.
Qed.

Lemma bbs_scan_spec : forall cnt i e, cnt = (e - i)%nat -> (i <= e)%nat -> (e <= n)%nat ->
  (forall j, (j < i)%nat -> lex (nth_str l j) t = Lt) ->
  (forall j, (e <= j)%nat -> (j < n)%nat -> lex (nth_str l j) t = Gt) ->
  search_ok (bbs_scan cnt l t i e).
Proof.
  induction cnt as [|c IH]; intros i e Hc Hie Hen Hlo Hhi; cbn [bbs_scan].
  - assert (i = e) by lia. subst i. cbn [search_ok]. repeat split; assumption.
  - destruct (lex (nth_str l i) t) eqn:E.
    + cbn [search_ok]. split; [lia|exact E].
    + apply IH; try lia; [|exact Hhi]. intros j Hj. destruct (Nat.eq_dec j i) as [->|]; [exact E|apply Hlo; lia].
    + cbn [search_ok]. repeat split; [lia|exact Hlo|]. intros j Hj1 Hj2. apply above_gt with (i := i); assumption.
Qed.

Theorem block_binary_search_ok : search_ok (block_binary_search l t bs).
Proof.
  unfold block_binary_search. fold n. set (nb := ((n + bs - 1) / bs)%nat).
  pose proof (bbs_blocks_spec (S nb) 0 nb ltac:(lia) ltac:(lia)) as H.
  assert (Hnb : forall b, (nb <= b)%nat -> (b * bs < n)%nat -> False).
  { intros b Hb Hbn. assert (nb * bs <= b * bs)%nat by (apply Nat.mul_le_mono_r; exact Hb).
    assert (n <= nb * bs)%nat.
    { unfold nb. pose proof (Nat.div_mod (n + bs - 1) bs ltac:(lia)) as D.
      pose proof (Nat.mod_upper_bound (n + bs - 1) bs ltac:(lia)) as U.
      set (q := ((n + bs - 1) / bs)%nat) in *. set (r := ((n + bs - 1) mod bs)%nat) in *. clearbody q r.
      rewrite (Nat.mul_comm q bs). clear - D U Hbs. generalize dependent (bs * q)%nat. intros. lia. }
    lia. }
  specialize (H ltac:(intros; lia) ltac:(intros b Hb Hbn; exfalso; eapply Hnb; eassumption)).
  clearbody nb.
  destruct (bbs_blocks (S nb) l t bs 0 nb) as [idx|lb].
  - exact H.
  - destruct H as [Hlo Hhi]. destruct lb as [|lb'].
    + cbn [Nat.sub Nat.mul Nat.min bbs_scan]. cbn [search_ok]. repeat split; [lia|intros; lia|].
      intros i _ Hi. apply above_gt with (i := O); [lia|exact Hi|]. apply (Hhi O); [lia|cbn; lia].
    + replace (S lb' - 1)%nat with lb' by lia. destruct (Hlo lb' ltac:(lia)) as [Hs Hls].
      apply bbs_scan_spec; try lia.
      * intros j Hj. apply below_lt with (j := (lb' * bs)%nat); [lia|exact Hs|exact Hls].
      * intros j Hj1 Hj2. assert (He : (S lb' * bs < n)%nat) by lia.
        apply above_gt with (i := (S lb' * bs)%nat); [lia|exact Hj2|]. apply Hhi; [lia|exact He].
Qed.

Theorem ssv_binary_search_ok : search_ok (ssv_binary_search l t bs).
Proof.
  unfold ssv_binary_search. destruct (bs * 2 <? length l)%nat; [apply block_binary_search_ok|].
  pose proof (bs_go_spec l t Hsorted (S (length l)) 0 (length l) ltac:(lia) ltac:(lia) ltac:(lia)
                ltac:(intros; lia) ltac:(intros; lia)) as H.
  destruct (bs_go (S (length l)) l t 0 (length l)); exact H.
Qed.
End BlockSearch.
