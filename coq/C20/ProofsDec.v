(* C20: the decimal comparator equals comparison of integer values, on all strings. *)
From ZV.Common Require Import Base.
From ZV.C20 Require Import Model.
Open Scope N_scope.

Definition digits (l : list N) : Prop := forallb is_digit l = true.

Lemma digits_cons c t : digits (c :: t) <-> (48 <= c <= 57) /\ digits t.
Proof.
  unfold digits. cbn [forallb]. rewrite andb_true_iff. unfold is_digit.
  rewrite andb_true_iff, !N.leb_le. tauto.
Qed.

Lemma pow10_pos n : 0 < 10 ^ n.
Proof. apply N.neq_0_lt_0. apply N.pow_nonzero. discriminate. Qed.

Lemma pow10_succ n : 10 ^ (1 + n) = 10 * 10 ^ n.
Proof. rewrite N.pow_add_r. reflexivity. Qed.

Lemma dval_lt l : digits l -> dval l < 10 ^ nlen l.
Proof.
  induction l as [|c t IH]; intros Hd; cbn [dval nlen].
  - cbn. lia.
  - apply digits_cons in Hd. destruct Hd as [Hc Ht]. specialize (IH Ht).
    rewrite pow10_succ. pose proof (pow10_pos (nlen t)). nia.
Qed.

Lemma compare_cases (x y : N) :
  (x < y /\ N.compare x y = Lt) \/ (x = y /\ N.compare x y = Eq) \/ (y < x /\ N.compare x y = Gt).
Proof. destruct (N.compare_spec x y); auto. Qed.

(* equal-length digit strings: lexicographic = numeric *)
Lemma lex_eqlen a : forall b, digits a -> digits b -> nlen a = nlen b ->
  lex a b = N.compare (dval a) (dval b).
Proof.
  induction a as [|x a IH]; intros [|y b] Ha Hb Hlen; cbn [nlen] in Hlen; try lia.
  - reflexivity.
  - apply digits_cons in Ha. apply digits_cons in Hb. destruct Ha as [Hx Ha], Hb as [Hy Hb].
    assert (Hl : nlen a = nlen b) by lia.
    cbn [lex dval]. rewrite Hl.
    pose proof (dval_lt a Ha) as Hda. pose proof (dval_lt b Hb) as Hdb. rewrite Hl in Hda.
    pose proof (pow10_pos (nlen b)) as Hp.
    destruct (compare_cases x y) as [[Hxy ->]|[[Hxy ->]|[Hxy ->]]].
    + symmetry. apply N.compare_lt_iff. nia.
    + subst y. rewrite (IH b Ha Hb Hl).
      destruct (compare_cases (dval a) (dval b)) as [[H ->]|[[H ->]|[H ->]]]; symmetry.
      * apply N.compare_lt_iff. lia.
      * apply N.compare_eq_iff. lia.
      * apply N.compare_gt_iff. lia.
    + symmetry. apply N.compare_gt_iff. nia.
Qed.

Lemma strip0_digits a : digits a -> digits (strip0 a).
Proof.
  induction a as [|c t IH]; intros Hd; cbn [strip0]; [exact Hd|].
  destruct (N.eqb_spec c 48); [|exact Hd]. apply IH. apply digits_cons in Hd. tauto.
Qed.

Lemma strip0_dval a : dval (strip0 a) = dval a.
Proof.
  induction a as [|c t IH]; cbn [strip0]; [reflexivity|].
  destruct (N.eqb_spec c 48) as [->|Hne]; [|reflexivity].
  rewrite IH. cbn [dval]. lia.
Qed.

(* a stripped non-empty digit string starts with a non-zero digit, hence is >= 10^(len-1) *)
Lemma strip0_lower a : digits a -> strip0 a <> [] ->
  10 ^ (nlen (strip0 a) - 1) <= dval (strip0 a).
Proof.
  induction a as [|c t IH]; intros Hd Hne; cbn [strip0] in *; [congruence|].
  destruct (N.eqb_spec c 48) as [->|Hc].
  - apply IH; [apply digits_cons in Hd; tauto|exact Hne].
  - apply digits_cons in Hd. destruct Hd as [Hr Ht]. cbn [nlen dval].
    replace (1 + nlen t - 1) with (nlen t) by lia.
    pose proof (pow10_pos (nlen t)). nia.
Qed.

Lemma pow10_mono a b : a <= b -> 10 ^ a <= 10 ^ b.
Proof. intros H. apply N.pow_le_mono_r; lia. Qed.

Definition norm0 (a : list N) : list N := if null (strip0 a) then [48] else strip0 a.

Lemma norm0_props a : digits a ->
  digits (norm0 a) /\ dval (norm0 a) = dval a /\ 1 <= nlen (norm0 a) /\
  dval (norm0 a) < 10 ^ nlen (norm0 a) /\
  (10 ^ (nlen (norm0 a) - 1) <= dval (norm0 a) \/ (dval (norm0 a) = 0 /\ nlen (norm0 a) = 1)).
Proof.
  intros Hd. unfold norm0. pose proof (strip0_dval a) as Hv.
  destruct (strip0 a) as [|c t] eqn:Hs; cbn [null].
  - cbn [dval] in Hv. rewrite <- Hv. cbn. repeat split; try lia; try (right; split; reflexivity).
  - pose proof (strip0_digits a Hd) as Hsd. rewrite Hs in Hsd.
    pose proof (strip0_lower a Hd) as Hlow. rewrite Hs in Hlow.
    repeat split.
    + exact Hsd.
    + exact Hv.
    + cbn [nlen]. lia.
    + apply dval_lt. exact Hsd.
    + left. apply Hlow. discriminate.
Qed.

Theorem mag_cmp_correct a b : digits a -> digits b ->
  mag_cmp a b = N.compare (dval a) (dval b).
Proof.
  intros Ha Hb. unfold mag_cmp. fold (norm0 a). fold (norm0 b).
  destruct (norm0_props a Ha) as (Hda & Hva & Hla & Hua & Hlowa).
  destruct (norm0_props b Hb) as (Hdb & Hvb & Hlb & Hub & Hlowb).
  rewrite <- Hva, <- Hvb.
  destruct (compare_cases (nlen (norm0 a)) (nlen (norm0 b))) as [[Hl ->]|[[Hl ->]|[Hl ->]]].
  - symmetry. apply N.compare_lt_iff.
    assert (10 ^ nlen (norm0 a) <= 10 ^ (nlen (norm0 b) - 1)) by (apply pow10_mono; lia).
    destruct Hlowb as [Hlowb|[_ Hlen1]]; lia.
  - apply lex_eqlen; assumption.
  - symmetry. apply N.compare_gt_iff.
    assert (10 ^ nlen (norm0 b) <= 10 ^ (nlen (norm0 a) - 1)) by (apply pow10_mono; lia).
    destruct Hlowa as [Hlowa|[_ Hlen1]]; lia.
Qed.

(* is_zero_magnitude on digit strings <-> value 0 *)
Lemma zero_mag_digits a : digits a -> (is_zero_magnitude a = true <-> dval a = 0).
Proof.
  induction a as [|c t IH]; intros Hd.
  - cbn. tauto.
  - apply digits_cons in Hd. destruct Hd as [Hc Ht]. specialize (IH Ht).
    unfold is_zero_magnitude in *. cbn [forallb dval].
    rewrite andb_true_iff, orb_true_iff, !N.eqb_eq.
    pose proof (pow10_pos (nlen t)). split.
    + intros [[->| ->] H0]; [|lia]. apply IH in H0. lia.
    + intros H0. assert (c = 48) by nia. split; [auto|]. apply IH. nia.
Qed.

Definition sval (neg : bool) (a : list N) : Z :=
  if neg then (- Z.of_N (dval a))%Z else Z.of_N (dval a).

Lemma N_Z_compare x y : N.compare x y = Z.compare (Z.of_N x) (Z.of_N y).
Proof. symmetry. apply N2Z.inj_compare. Qed.

Theorem decimal_with_sign_correct a an b bn : digits a -> digits b ->
  decimal_with_sign a an b bn = Z.compare (sval an a) (sval bn b).
Proof.
  intros Ha Hb. unfold decimal_with_sign, sval.
  pose proof (zero_mag_digits a Ha) as Hza. pose proof (zero_mag_digits b Hb) as Hzb.
  rewrite (mag_cmp_correct a b Ha Hb), N_Z_compare.
  destruct (is_zero_magnitude a) eqn:Ea; destruct (is_zero_magnitude b) eqn:Eb;
  destruct an; destruct bn; cbn [andb negb with_sign];
  try (assert (dval a = 0) as -> by (apply Hza; reflexivity));
  try (assert (dval b = 0) as -> by (apply Hzb; reflexivity));
  try (assert (dval a <> 0) by (intros H0; apply Hza in H0; discriminate));
  try (assert (dval b <> 0) by (intros H0; apply Hzb in H0; discriminate));
  try reflexivity;
  try (symmetry; apply Z.compare_lt_iff; lia);
  try (symmetry; apply Z.compare_gt_iff; lia);
  try (rewrite <- Z.compare_opp; reflexivity);
  try (rewrite Z.compare_antisym; f_equal; rewrite <- Z.compare_opp; f_equal; lia).
  all: try (cbn [CompOpp Z.opp Z.of_N]; rewrite Z.compare_antisym; reflexivity).
  all: try (rewrite <- Z.compare_antisym; rewrite Z.compare_opp; reflexivity).
Qed.
