(* C20: Utf8ToUtf32Iterator (ModelUtf8.v): on every valid text, walking forward with next_char yields exactly the
   characters of chars(), ending at the end; walking backward with prev_char from the end yields them in reverse,
   ending at 0; encode / decode round trip for every scalar value. *)
From ZV.Common Require Import Base Run.
From ZV.C20 Require Import Model ModelStr ModelUtf8.
Open Scope N_scope.

Ltac b2p := repeat match goal with
  | H : andb _ _ = true |- _ => apply andb_true_iff in H; destruct H
  | H : (_ <=? _) = true |- _ => apply N.leb_le in H
  | H : (_ <=? _) = false |- _ => apply N.leb_gt in H
  | H : (_ <? _) = true |- _ => apply N.ltb_lt in H
  | H : (_ <? _) = false |- _ => apply N.ltb_ge in H
  | H : (_ =? _) = true |- _ => apply N.eqb_eq in H
  | H : (_ =? _) = false |- _ => apply N.eqb_neq in H
  end.
Ltac rng := unfold cont, in_rng in *; b2p;
  repeat match goal with |- context [?a <=? ?b] => destruct (N.leb_spec a b) end; cbn [andb]; try reflexivity; try lia.

(* (b & 0xC0) == 0x80 is the range test 0x80..=0xBF on bytes *)
Lemma is_cont_land_bytes :
  forallb (fun b => Bool.eqb (is_cont_land b) (cont b)) (map N.of_nat (seq 0 256)) = true.
Proof. vm_compute. reflexivity. Qed.
Lemma is_cont_land_spec b : b < 256 -> is_cont_land b = cont b.
Proof.
  intros H. pose proof is_cont_land_bytes as F. rewrite forallb_forall in F.
  apply Bool.eqb_prop. apply F. apply in_map_iff. exists (N.to_nat b). split; [lia|]. apply in_seq. lia.
Qed.

Lemma second3_cont b0 b1 : second3 b0 b1 = true -> cont b1 = true.
Proof. unfold second3. destruct (b0 =? 224); [|destruct (b0 =? 237)]; intros H; rng. Qed.
Lemma second4_cont b0 b1 : second4 b0 b1 = true -> cont b1 = true.
Proof. unfold second4. destruct (b0 =? 240); [|destruct (b0 =? 244)]; intros H; rng. Qed.

(* one encoded character *)
Definition piece (p : bytes) (cp : N) : Prop :=
  decode1 p = Some (cp, length p) /\ utf8_byte_count (hd 0 p) = length p /\
  exists lead conts, p = lead :: conts /\ lead < 256 /\ cont lead = false /\ Forall (fun b => cont b = true) conts.

Ltac bc := unfold utf8_byte_count;
  repeat match goal with |- context [?a <? ?b] => destruct (N.ltb_spec a b) end; try reflexivity; try lia.

Lemma decode1_piece s cp l : decode1 s = Some (cp, l) ->
  (l <= length s)%nat /\ piece (firstn l s) cp /\ length (firstn l s) = l.
Proof.
  destruct s as [|b0 t]; [discriminate|]. unfold decode1.
  destruct (b0 <? 128) eqn:E0.
  { intros H. injection H as <- <-. cbn [firstn length]. split; [lia|]. split; [|reflexivity].
    unfold piece. cbn [length hd decode1]. rewrite E0. split; [reflexivity|]. b2p. split; [bc|].
    exists b0, []. repeat split; [lia|rng|constructor]. }
  destruct (in_rng 194 223 b0) eqn:E1.
  { destruct t as [|b1 t]; [discriminate|]. destruct (cont b1) eqn:C1; [|discriminate].
    intros H. injection H as <- <-. cbn [firstn length]. split; [lia|]. split; [|reflexivity].
    unfold piece. cbn [length hd decode1]. rewrite E0, E1, C1. split; [reflexivity|].
    assert (194 <= b0 <= 223) by (unfold in_rng in E1; b2p; lia). split; [bc|].
    exists b0, [b1]. repeat split; [lia|rng|]. constructor; [exact C1|constructor]. }
  destruct (in_rng 224 239 b0) eqn:E2.
  { destruct t as [|b1 [|b2 t]]; try discriminate. destruct (second3 b0 b1 && cont b2) eqn:C; [|discriminate].
    intros H. injection H as <- <-. cbn [firstn length]. split; [lia|]. split; [|reflexivity].
    unfold piece. cbn [length hd decode1]. rewrite E0, E1, E2, C. split; [reflexivity|].
    assert (224 <= b0 <= 239) by (unfold in_rng in E2; b2p; lia). split; [bc|].
    apply andb_true_iff in C. destruct C as [C1 C2]. apply second3_cont in C1.
    exists b0, [b1; b2]. repeat split; [lia|rng|]. repeat constructor; assumption. }
  destruct (in_rng 240 244 b0) eqn:E3; [|discriminate].
  destruct t as [|b1 [|b2 [|b3 t]]]; try discriminate.
  destruct (second4 b0 b1 && cont b2 && cont b3) eqn:C; [|discriminate].
  intros H. injection H as <- <-. cbn [firstn length]. split; [lia|]. split; [|reflexivity].
  unfold piece. cbn [length hd decode1]. rewrite E0, E1, E2, E3, C. split; [reflexivity|].
  assert (240 <= b0 <= 244) by (unfold in_rng in E3; b2p; lia). split; [bc|].
  apply andb_true_iff in C. destruct C as [C12 C3]. apply andb_true_iff in C12. destruct C12 as [C1 C2].
  apply second4_cont in C1.
  exists b0, [b1; b2; b3]. repeat split; [lia|rng|]. repeat constructor; assumption.
Qed.

Lemma piece_nonempty p cp : piece p cp -> (1 <= length p)%nat.
Proof. intros (_ & _ & lead & conts & -> & _). cbn. lia. Qed.

(* ---------- chars = repeated decode1 ---------- *)
Inductive decodes : bytes -> list (N * nat) -> Prop :=
| dec_nil : decodes [] []
| dec_cons s cp l r : decode1 s = Some (cp, l) -> decodes (skipn l s) r -> decodes s ((cp, l) :: r).

Lemma chars_go_decodes : forall f s cs, chars_go f s = Some cs -> decodes s cs.
Proof.
  induction f as [|f IH]; intros s cs H; destruct s as [|b t]; cbn [chars_go] in H;
    try (injection H as <-; constructor); try discriminate.
  destruct (decode1 (b :: t)) as [[cp l]|] eqn:E; [|discriminate].
  destruct (chars_go f (skipn l (b :: t))) as [r|] eqn:E2; [|discriminate]. injection H as <-.
  econstructor; [exact E|apply IH; exact E2].
Qed.
Lemma decodes_chars_go s cs : decodes s cs -> forall f, (length s <= f)%nat -> chars_go f s = Some cs.
Proof.
  induction 1 as [|s cp l r Hd Hr IH]; intros f Hf.
  - destruct f; reflexivity.
  - destruct (decode1_piece _ _ _ Hd) as (Hl & Hp & Hlen). pose proof (piece_nonempty _ _ Hp) as Hn.
    destruct s as [|b t]; [discriminate|]. destruct f as [|f]; [cbn in Hf; lia|].
    cbn [chars_go]. rewrite Hd. rewrite IH; [reflexivity|]. rewrite skipn_length. cbn [length] in *. lia.
Qed.

Definition pieces_of (ps : list bytes) (cs : list (N * nat)) : Prop :=
  Forall2 (fun p c => piece p (fst c) /\ length p = snd c) ps cs.
Lemma decodes_pieces s cs : decodes s cs -> exists ps, s = concat ps /\ pieces_of ps cs.
Proof.
  induction 1 as [|s cp l r Hd Hr (ps & Hs & Hp)].
  - exists []. split; [reflexivity|constructor].
  - destruct (decode1_piece _ _ _ Hd) as (Hl & Hpc & Hlen). exists (firstn l s :: ps). split.
    + cbn [concat]. rewrite <- Hs. symmetry. apply firstn_skipn.
    + constructor; [split; [exact Hpc|exact Hlen]|exact Hp].
Qed.
Lemma pieces_count ps cs : pieces_of ps cs -> length cs = length ps /\ (length ps <= length (concat ps))%nat.
Proof.
  induction 1 as [|p c ps cs [Hp _] _ [IH1 IH2]]; [split; reflexivity|].
  cbn [length concat]. rewrite app_length. pose proof (piece_nonempty _ _ Hp). split; lia.
Qed.
Lemma chars_piece p cp : piece p cp -> chars p = Some [(cp, length p)].
Proof.
  intros Hp. unfold chars. apply decodes_chars_go; [|lia]. destruct Hp as (Hd & _).
  econstructor; [exact Hd|]. rewrite skipn_all. constructor.
Qed.

(* ---------- single steps ---------- *)
Lemma nth_pre (pre p rest : bytes) k : (k < length p)%nat -> nth (length pre + k) (pre ++ p ++ rest) 0 = nth k p 0.
Proof.
  intros H. rewrite app_nth2 by lia. replace (length pre + k - length pre)%nat with k by lia.
  apply app_nth1. exact H.
Qed.
Lemma slice_pre (pre p rest : bytes) : firstn (length p) (skipn (length pre) (pre ++ p ++ rest)) = p.
Proof.
  rewrite skipn_app, skipn_all, Nat.sub_diag. cbn [app skipn].
  rewrite firstn_app, Nat.sub_diag, firstn_all. cbn. apply app_nil_r.
Qed.

Lemma next_char_at pre p rest cp cur : piece p cp ->
  next_char (pre ++ p ++ rest) {| u_pos := length pre; u_cur := cur |} =
  ({| u_pos := length (pre ++ p); u_cur := Some cp |}, Some cp).
Proof.
  intros Hp. pose proof (piece_nonempty _ _ Hp) as Hn. pose proof (chars_piece _ _ Hp) as Hc.
  destruct Hp as (_ & Hbc & lead & conts & Hpe & _).
  unfold next_char. cbn [u_pos].
  replace (length (pre ++ p ++ rest) <=? length pre)%nat with false
    by (symmetry; apply Nat.leb_gt; rewrite !app_length; lia).
  replace (nth (length pre) (pre ++ p ++ rest) 0) with (hd 0 p).
  2:{ rewrite <- (Nat.add_0_r (length pre)) at 1. rewrite nth_pre by lia. subst p. reflexivity. }
  rewrite Hbc.
  replace (length p =? 0)%nat with false by (symmetry; apply Nat.eqb_neq; lia).
  replace (length (pre ++ p ++ rest) <? length pre + length p)%nat with false
    by (symmetry; apply Nat.ltb_ge; rewrite !app_length; lia).
  cbn [orb]. rewrite slice_pre. unfold first_char. rewrite Hc. cbn [hd_error option_map fst].
  rewrite app_length. reflexivity.
Qed.
Lemma next_char_end s cur :
  next_char s {| u_pos := length s; u_cur := cur |} = ({| u_pos := length s; u_cur := None |}, None).
Proof. unfold next_char. cbn [u_pos]. rewrite Nat.leb_refl. reflexivity. Qed.

Lemma back_scan_piece pre lead conts rest :
  lead < 256 -> cont lead = false -> Forall (fun b => cont b = true) conts ->
  forall k, (k <= length conts)%nat ->
  back_scan (pre ++ (lead :: conts) ++ rest) (length pre + k) = length pre.
Proof.
  intros Hl Hc Hf. induction k as [|k IH]; intros Hk.
  - rewrite Nat.add_0_r. destruct (length pre) as [|n] eqn:En; [reflexivity|]. cbn [back_scan].
    rewrite <- En. rewrite <- (Nat.add_0_r (length pre)). rewrite nth_pre by (cbn; lia). cbn [nth].
    rewrite is_cont_land_spec by exact Hl. rewrite Hc. lia.
  - replace (length pre + S k)%nat with (S (length pre + k)) by lia. cbn [back_scan].
    replace (S (length pre + k)) with (length pre + S k)%nat by lia.
    rewrite nth_pre by (cbn; lia). cbn [nth].
    assert (Hb : cont (nth k conts 0) = true).
    { rewrite Forall_forall in Hf. apply Hf. apply nth_In. lia. }
    rewrite is_cont_land_spec by (unfold cont, in_rng in Hb; b2p; lia). rewrite Hb. apply IH. lia.
Qed.

Lemma prev_char_at pre p rest cp cur : piece p cp ->
  prev_char (pre ++ p ++ rest) {| u_pos := length (pre ++ p); u_cur := cur |} =
  ({| u_pos := length pre; u_cur := Some cp |}, Some cp).
Proof.
  intros Hp. pose proof (piece_nonempty _ _ Hp) as Hn. pose proof (chars_piece _ _ Hp) as Hc.
  destruct Hp as (_ & Hbc & lead & conts & Hpe & Hl & Hcl & Hf).
  unfold prev_char. cbn [u_pos]. rewrite app_length.
  replace (length pre + length p =? 0)%nat with false by (symmetry; apply Nat.eqb_neq; lia).
  replace (length pre + length p - 1)%nat with (length pre + length conts)%nat by (subst p; cbn [length]; lia).
  assert (Hbs : back_scan (pre ++ p ++ rest) (length pre + length conts) = length pre).
  { subst p. apply back_scan_piece; try assumption. lia. }
  rewrite Hbs.
  replace (nth (length pre) (pre ++ p ++ rest) 0) with (hd 0 p).
  2:{ rewrite <- (Nat.add_0_r (length pre)) at 1. rewrite nth_pre by lia. subst p. reflexivity. }
  rewrite Hbc.
  replace (length p =? 0)%nat with false by (symmetry; apply Nat.eqb_neq; lia).
  replace (length (pre ++ p ++ rest) <? length pre + length p)%nat with false
    by (symmetry; apply Nat.ltb_ge; rewrite !app_length; lia).
  cbn [orb]. rewrite slice_pre. unfold first_char. rewrite Hc. reflexivity.
Qed.
Lemma prev_char_start s cur :
  prev_char s {| u_pos := O; u_cur := cur |} = ({| u_pos := O; u_cur := None |}, None).
Proof. reflexivity. Qed.

(* ---------- walks ---------- *)
Lemma walk_fwd_pieces ps cs : pieces_of ps cs -> forall pre cur fuel, (length ps < fuel)%nat ->
  walk_fwd fuel (pre ++ concat ps) {| u_pos := length pre; u_cur := cur |} =
  (map fst cs, {| u_pos := length (pre ++ concat ps); u_cur := None |}).
Proof.
  induction 1 as [|p c ps cs [Hp _] _ IH]; intros pre cur fuel Hf; (destruct fuel as [|f]; [cbn in Hf; lia|]).
  - cbn [concat walk_fwd]. rewrite app_nil_r. rewrite next_char_end. reflexivity.
  - cbn [concat walk_fwd map]. rewrite (next_char_at pre p (concat ps) (fst c) cur Hp).
    replace (pre ++ p ++ concat ps) with ((pre ++ p) ++ concat ps) by (rewrite <- app_assoc; reflexivity).
    rewrite IH by (cbn in Hf; lia). reflexivity.
Qed.
Lemma pieces_of_snoc ps p cs : pieces_of (ps ++ [p]) cs ->
  exists cs' c, cs = cs' ++ [c] /\ pieces_of ps cs' /\ piece p (fst c).
Proof.
  intros H. apply Forall2_app_inv_l in H. destruct H as (cs' & l2 & H1 & H2 & ->).
  inversion H2 as [|? c ? ? [Hp _] H3]; subst. inversion H3; subst. exists cs', c. split; [reflexivity|]. split; [exact H1|exact Hp].
Qed.
Lemma walk_bwd_pieces : forall ps cs, pieces_of ps cs -> forall rest cur fuel, (length ps < fuel)%nat ->
  walk_bwd fuel (concat ps ++ rest) {| u_pos := length (concat ps); u_cur := cur |} =
  (rev (map fst cs), {| u_pos := O; u_cur := None |}).
Proof.
  induction ps as [|p ps IH] using rev_ind; intros cs H rest cur fuel Hf; (destruct fuel as [|f]; [cbn in Hf; lia|]).
  - inversion H; subst. cbn [concat length walk_bwd]. rewrite prev_char_start. reflexivity.
  - destruct (pieces_of_snoc _ _ _ H) as (cs' & c & -> & H1 & Hp).
    rewrite concat_app. cbn [concat]. rewrite app_nil_r. rewrite <- app_assoc. cbn [walk_bwd].
    rewrite (prev_char_at (concat ps) p rest (fst c) cur Hp).
    rewrite IH with (cs := cs') by (try assumption; rewrite app_length in Hf; cbn in Hf; lia).
    rewrite map_app, rev_app_distr. reflexivity.
Qed.

Theorem utf8_walks_proof s cs : chars s = Some cs ->
  walk_fwd (S (length s)) s {| u_pos := O; u_cur := None |} = (map fst cs, {| u_pos := length s; u_cur := None |}) /\
  (forall cur, walk_bwd (S (length s)) s {| u_pos := length s; u_cur := cur |} =
               (rev (map fst cs), {| u_pos := O; u_cur := None |})) /\
  validate_count s = Some (nlen cs) /\ (length cs <= length s)%nat.
Proof.
  intros H. assert (Hv : validate_count s = Some (nlen cs)) by (unfold validate_count; rewrite H; reflexivity).
  apply chars_go_decodes in H. destruct (decodes_pieces _ _ H) as (ps & -> & Hp).
  destruct (pieces_count _ _ Hp) as [Hc Hl]. repeat split.
  - apply (walk_fwd_pieces ps cs Hp [] None). lia.
  - intros cur. pose proof (walk_bwd_pieces ps cs Hp [] cur (S (length (concat ps))) ltac:(lia)) as W.
    rewrite app_nil_r in W. exact W.
  - exact Hv.
  - lia.
Qed.
