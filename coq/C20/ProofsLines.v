(* C20: LineProcessor line splitting over mixes of "\n", "\r\n" and lone '\r'; WordIterator. *)
From ZV.Common Require Import Base Run.
From ZV.C20 Require Import Model ModelStr ProofsStr.
Open Scope N_scope.

(* ================= lines ================= *)
Lemma read_line_app l : forall rest, no_byte 10 l ->
  read_line (l ++ 10 :: rest) = (l ++ [10], rest).
Proof.
  induction l as [|c l IH]; intros rest Hl; cbn [app read_line].
  - reflexivity.
  - apply no_byte_cons in Hl. destruct Hl as [Hc Hl]. rewrite Hc, IH by assumption. reflexivity.
Qed.

Lemma read_line_tail l : no_byte 10 l -> read_line l = (l, []).
Proof.
  induction l as [|c l IH]; intros Hl; cbn [read_line]; [reflexivity|].
  apply no_byte_cons in Hl. destruct Hl as [Hc Hl]. rewrite Hc, IH by assumption. reflexivity.
Qed.

Lemma ends_with_snoc l c d : ends_with_byte (l ++ [c]) d = (c =? d).
Proof. unfold ends_with_byte. rewrite rev_app_distr. reflexivity. Qed.

Lemma strip_eol_lf l : ends_with_byte l 13 = false -> strip_eol (l ++ [10]) = l.
Proof.
  intros H. unfold strip_eol. rewrite ends_with_snoc. cbn. rewrite removelast_last, H. reflexivity.
Qed.

Lemma strip_eol_crlf l : strip_eol (l ++ [13; 10]) = l.
Proof.
  unfold strip_eol. change (l ++ [13; 10]) with (l ++ [13] ++ [10]). rewrite app_assoc.
  rewrite ends_with_snoc. cbn. rewrite removelast_last, ends_with_snoc. cbn. rewrite removelast_last. reflexivity.
Qed.

Lemma strip_eol_tail l : no_byte 10 l -> strip_eol l = l.
Proof.
  intros H. unfold strip_eol, ends_with_byte.
  destruct (rev l) as [|x r] eqn:E; [reflexivity|].
  destruct (N.eqb_spec x 10) as [->|]; [|reflexivity].
  exfalso. unfold no_byte, contains_byte in H. rewrite <- existsb_rev', E in H. cbn in H. discriminate.
Qed.

Definition line_pair_ok (p : bytes * bytes) : Prop :=
  no_byte 10 (fst p) /\ ends_with_byte (fst p) 13 = false /\ (snd p = [10] \/ snd p = [13; 10]).

Lemma lines_go_unlines ls : forall tail fuel,
  Forall line_pair_ok ls -> no_byte 10 tail ->
  (length (unlines ls ++ tail) < fuel)%nat ->
  lines_go fuel (unlines ls ++ tail) = map fst ls ++ (if null tail then [] else [tail]).
Proof.
  induction ls as [|[l t] ls IH]; intros tail fuel Hall Htail Hfuel.
  - cbn [unlines app map]. destruct fuel as [|f]; [lia|]. cbn [lines_go].
    rewrite read_line_tail by assumption. destruct tail as [|c tl]; [reflexivity|].
    cbn [null]. rewrite strip_eol_tail by assumption.
    destruct f; reflexivity.
  - inversion Hall as [|? ? Hp Hrest]; subst. destruct Hp as (Hl & Hcr & Ht). cbn [fst snd] in *.
    destruct fuel as [|f]; [lia|]. cbn [unlines map app lines_go].
    assert (Hlen : (length (unlines ls ++ tail) < f)%nat).
    { cbn [unlines] in Hfuel. rewrite !app_length in Hfuel. rewrite app_length.
      destruct Ht as [-> | ->]; cbn [length] in Hfuel; lia. }
    destruct Ht as [-> | ->].
    + rewrite <- !app_assoc. cbn [app]. rewrite read_line_app by assumption.
      destruct (l ++ [10]) eqn:E; [destruct l; discriminate|]. cbn [null]. rewrite <- E.
      rewrite strip_eol_lf by assumption. f_equal. apply IH; assumption.
    + rewrite <- !app_assoc. cbn [app].
      change (l ++ 13 :: 10 :: unlines ls ++ tail) with (l ++ [13] ++ 10 :: unlines ls ++ tail).
      rewrite app_assoc. rewrite read_line_app.
      2:{ unfold no_byte, contains_byte in *. rewrite existsb_app, Hl. reflexivity. }
      destruct ((l ++ [13]) ++ [10]) eqn:E; [destruct l; discriminate|]. cbn [null]. rewrite <- E.
      rewrite <- app_assoc. cbn [app]. rewrite strip_eol_crlf. f_equal. apply IH; assumption.
Qed.

(* a text made of lines (no '\n' inside, not ending in '\r'; lone '\r' elsewhere is content), each followed by
   "\n" or "\r\n" in any mix, plus an optional unterminated last line: process_lines delivers exactly the lines *)
Theorem lines_unlines_proof ls tail :
  Forall line_pair_ok ls -> no_byte 10 tail ->
  lines (unlines ls ++ tail) = map fst ls ++ (if null tail then [] else [tail]).
Proof. intros H1 H2. unfold lines. apply lines_go_unlines; [assumption|assumption|lia]. Qed.

Example lines_nontrivial :
  lines [97; 13; 98; 10; 13; 10; 10; 99; 13; 10; 100; 13] = [[97; 13; 98]; []; []; [99]; [100; 13]] /\
  line_pair_ok ([97; 13; 98], [10]) /\ line_pair_ok ([], [13; 10]).
Proof.
  split; [vm_compute; reflexivity|].
  split; (split; [reflexivity|split; [reflexivity|auto]]).
Qed.

(* ================= words ================= *)
Definition nonword (c : N) : bool := negb (is_word_char c).

(* the straightforward definition, with the current run as an accumulator *)
Fixpoint wspec (s : bytes) (cur : bytes) : list bytes :=
  match s with
  | [] => if null cur then [] else [rev cur]
  | c :: t => if is_word_char c then wspec t (c :: cur)
              else if null cur then wspec t [] else rev cur :: wspec t []
  end.

Lemma null_rev' {A} (l : list A) : null (rev l) = null l.
Proof. destruct l as [|x l]; [reflexivity|]. cbn [rev]. destruct (rev l); reflexivity. Qed.

Lemma wspec_is_filter s : forall cur,
  filter (fun w => negb (null w)) (split_pred nonword s cur) = wspec s cur.
Proof.
  induction s as [|c t IH]; intros cur; cbn [split_pred wspec filter].
  - rewrite null_rev'. destruct (null cur); reflexivity.
  - unfold nonword at 1. destruct (is_word_char c); cbn [negb].
    + apply IH.
    + cbn [filter]. rewrite null_rev', IH. destruct (null cur); reflexivity.
Qed.

Lemma wspec_skip s : wspec s [] = wspec (skip_nonword s) [].
Proof.
  induction s as [|c t IH]; [reflexivity|]. cbn [skip_nonword].
  destruct (is_word_char c) eqn:E; [reflexivity|]. cbn [wspec]. rewrite E. exact IH.
Qed.

Lemma wspec_take s : forall cur w r, take_word s = (w, r) -> null cur && null w = false ->
  wspec s cur = (rev cur ++ w) :: wspec r [].
Proof.
  induction s as [|c t IH]; intros cur w r Ht Hne; cbn [take_word] in Ht.
  - injection Ht as <- <-. cbn [wspec]. rewrite app_nil_r.
    cbn [null] in Hne. rewrite andb_true_r in Hne. rewrite Hne. reflexivity.
  - destruct (is_word_char c) eqn:E.
    + destruct (take_word t) as [w' r'] eqn:Et. injection Ht as <- <-.
      cbn [wspec]. rewrite E. rewrite (IH (c :: cur) w' r' eq_refl) by reflexivity.
      cbn [rev]. rewrite <- app_assoc. reflexivity.
    + injection Ht as <- <-. cbn [wspec]. rewrite E, app_nil_r.
      cbn [null] in Hne. rewrite andb_true_r in Hne. rewrite Hne. reflexivity.
Qed.

Lemma take_word_length s : forall w r, take_word s = (w, r) -> (length r <= length s)%nat /\ (w <> [] -> length r < length s)%nat.
Proof.
  induction s as [|c t IH]; intros w r H; cbn [take_word] in H.
  - injection H as <- <-. split; [lia|congruence].
  - destruct (is_word_char c).
    + destruct (take_word t) as [w' r'] eqn:Et. injection H as <- <-.
      destruct (IH w' r' eq_refl). cbn [length]. split; intros; lia.
    + injection H as <- <-. split; [lia|congruence].
Qed.

Lemma skip_nonword_length s : (length (skip_nonword s) <= length s)%nat.
Proof. induction s as [|c t IH]; cbn [skip_nonword length]; [lia|]. destruct (is_word_char c); cbn [length]; lia. Qed.

Lemma skip_nonword_head s c t : skip_nonword s = c :: t -> is_word_char c = true.
Proof.
  induction s as [|x s IH]; cbn [skip_nonword]; [discriminate|].
  destruct (is_word_char x) eqn:E; [intros H; injection H as <- <-; exact E|exact IH].
Qed.

Lemma words_go_spec : forall fuel s, (length s < fuel)%nat -> words_go fuel s = wspec s [].
Proof.
  induction fuel as [|f IH]; intros s Hlen; [lia|]. cbn [words_go].
  rewrite (wspec_skip s). pose proof (skip_nonword_length s) as Hsk.
  destruct (skip_nonword s) as [|c t] eqn:Es; [reflexivity|]. cbn [null].
  pose proof (skip_nonword_head s c t Es) as Hc.
  destruct (take_word (c :: t)) as [w r] eqn:Et.
  assert (Hw : w <> []).
  { cbn [take_word] in Et. rewrite Hc in Et. destruct (take_word t). injection Et as <- <-. discriminate. }
  rewrite (wspec_take (c :: t) [] w r Et) by (destruct w; [congruence|reflexivity]).
  cbn [rev app]. f_equal. apply IH.
  destruct (take_word_length (c :: t) w r Et) as [_ Hlt]. specialize (Hlt Hw). cbn [length] in *. lia.
Qed.

(* words = the maximal runs of [A-Za-z0-9_]: the non-empty fields of splitting at every other byte *)
Theorem words_spec_proof s : words s = words_spec s /\ word_count s = nlen (words_spec s).
Proof.
  assert (H : words s = words_spec s).
  { unfold words, words_spec. rewrite words_go_spec by lia. symmetry. apply wspec_is_filter. }
  split; [exact H|]. unfold word_count. rewrite H. reflexivity.
Qed.

Example words_nontrivial :
  words [104; 105; 44; 32; 119; 95; 49; 33; 33; 122] = [[104; 105]; [119; 95; 49]; [122]] /\ words [32; 33] = [].
Proof. split; vm_compute; reflexivity. Qed.
