(* C20: the hash paths hash_fast can dispatch to (AVX2: 32-byte chunks as four u64 lanes, SSE2: 16-byte chunks
   as two lanes, fallback: 8-byte chunks) compute the same function of the bytes, for every length. *)
From ZV.Common Require Import Base Run.
From ZV.C20 Require Import Model ModelStr ModelFast ProofsLex.
Open Scope N_scope.

Lemma take_chunk_app k : forall c r, length c = k -> take_chunk k (c ++ r) = Some (c, r).
Proof.
  induction k as [|k IH]; intros c r L; destruct c as [|x c]; try discriminate; cbn [take_chunk app].
  - reflexivity.
  - rewrite IH by (cbn in L; lia). reflexivity.
Qed.
Lemma take_chunk_some k : forall s c r, take_chunk k s = Some (c, r) -> s = c ++ r /\ length c = k.
Proof.
  induction k as [|k IH]; intros s c r H; cbn [take_chunk] in H.
  - injection H as <- <-. split; reflexivity.
  - destruct s as [|x t]; [discriminate|]. destruct (take_chunk k t) as [[c' r']|] eqn:E; [|discriminate].
    injection H as <- <-. destruct (IH _ _ _ E) as [-> L]. split; [reflexivity|cbn; lia].
Qed.
Lemma take_chunk_short k : forall s, (length s < k)%nat -> take_chunk k s = None.
Proof.
  induction k as [|k IH]; intros s L; [lia|]. cbn [take_chunk]. destruct s as [|x t]; [reflexivity|].
  rewrite IH by (cbn in L; lia). reflexivity.
Qed.
Lemma take_chunk_none k : forall s, take_chunk k s = None -> (length s < k)%nat.
Proof.
  induction k as [|k IH]; intros s H; cbn [take_chunk] in H; [discriminate|].
  destruct s as [|x t]; [cbn; lia|]. destruct (take_chunk k t) as [[c r]|] eqn:E; [discriminate|].
  apply IH in E. cbn. lia.
Qed.

Definition all_len (k : nat) (cs : list bytes) : Prop := Forall (fun c => length c = k) cs.

Lemma chunks_go_build k : (0 < k)%nat -> forall cs f r, all_len k cs -> (length r < k)%nat ->
  (length (concat cs ++ r) <= f)%nat -> chunks_go f k (concat cs ++ r) = (cs, r).
Proof.
  intros Hk. induction cs as [|c cs IH]; intros f r Hall Hr Hf.
  - cbn [concat app] in *. destruct f; cbn [chunks_go]; [reflexivity|].
    rewrite take_chunk_short by exact Hr. reflexivity.
  - pose proof (Forall_inv Hall) as Hc; pose proof (Forall_inv_tail Hall) as Hcs; cbn beta in Hc. cbn [concat] in *. rewrite <- app_assoc in *.
    rewrite app_length in Hf. destruct f as [|f]; [lia|]. cbn [chunks_go].
    rewrite take_chunk_app by exact Hc. rewrite (IH f r Hcs Hr) by lia. reflexivity.
Qed.
Lemma chunks_go_sound k : (0 < k)%nat -> forall f s cs r, (length s <= f)%nat -> chunks_go f k s = (cs, r) ->
  s = concat cs ++ r /\ all_len k cs /\ (length r < k)%nat.
Proof.
  intros Hk. induction f as [|f IH]; intros s cs r Hf H; cbn [chunks_go] in H.
  - injection H as <- <-. destruct s; [|cbn in Hf; lia]. repeat split; [constructor|cbn; lia].
  - destruct (take_chunk k s) as [[c r0]|] eqn:E.
    + destruct (take_chunk_some _ _ _ _ E) as [-> Lc]. destruct (chunks_go f k r0) as [cs' rr] eqn:E2.
      injection H as <- <-. rewrite app_length in Hf. destruct (IH r0 cs' rr ltac:(lia) E2) as (-> & Ha & Hr).
      repeat split; [cbn [concat]; rewrite app_assoc; reflexivity|constructor; assumption|exact Hr].
    + injection H as <- <-. apply take_chunk_none in E. repeat split; [constructor|exact E].
Qed.
Lemma chunks_exact_sound k s cs r : (0 < k)%nat -> chunks_exact k s = (cs, r) ->
  s = concat cs ++ r /\ all_len k cs /\ (length r < k)%nat.
Proof. intros Hk H. eapply chunks_go_sound; [exact Hk| |exact H]. lia. Qed.
Lemma chunks_exact_build k cs r : (0 < k)%nat -> all_len k cs -> (length r < k)%nat ->
  chunks_exact k (concat cs ++ r) = (cs, r).
Proof. intros Hk Ha Hr. apply chunks_go_build; try assumption. lia. Qed.

(* the lanes of one wide load are the 8-byte pieces of the chunk *)
Fixpoint split8 (k : nat) (c : bytes) : list bytes :=
  match k with O => [] | S k' => firstn 8 c :: split8 k' (skipn 8 c) end.
Lemma lanes_split8 k : forall c h, fold_left mix64 (lanes k c) h = mix_words8 (split8 k c) h.
Proof.
  unfold mix_words8. induction k as [|k IH]; intros c h; cbn [lanes split8 fold_left]; [reflexivity|]. apply IH.
Qed.
Lemma split8_concat k : forall c, length c = (8 * k)%nat -> concat (split8 k c) = c /\ all_len 8 (split8 k c).
Proof.
  induction k as [|k IH]; intros c L; cbn [split8 concat].
  - destruct c; [|cbn in L; lia]. split; [reflexivity|constructor].
  - destruct (IH (skipn 8 c)) as [E A]; [rewrite skipn_length; lia|]. rewrite E. split; [apply firstn_skipn|].
    constructor; [rewrite firstn_length; lia|exact A].
Qed.
Lemma flat_split8 k : forall big, all_len (8 * k) big ->
  concat (flat_map (split8 k) big) = concat big /\ all_len 8 (flat_map (split8 k) big).
Proof.
  induction big as [|c big IH]; intros Ha; cbn [flat_map concat]; [split; [reflexivity|constructor]|].
  pose proof (Forall_inv Ha) as Hc; pose proof (Forall_inv_tail Ha) as Hb; cbn beta in Hc. destruct (IH Hb) as [E A]. destruct (split8_concat k c Hc) as [E1 A1].
  rewrite concat_app, E, E1. split; [reflexivity|]. apply Forall_app. split; assumption.
Qed.
Lemma mix_lanes_flat k : forall big h, mix_lanes k big h = mix_words8 (flat_map (split8 k) big) h.
Proof.
  unfold mix_lanes. induction big as [|c big IH]; intros h; cbn [flat_map fold_left]; [reflexivity|].
  unfold mix_words8 in *. rewrite fold_left_app. rewrite IH. f_equal. apply lanes_split8.
Qed.

Theorem hash_simd_is_fallback k s : (0 < k)%nat -> hash_simd k s = hash_fallback s.
Proof.
  intros Hk. unfold hash_simd, hash_fallback.
  destruct (chunks_exact (8 * k) s) as [big rem1] eqn:E1.
  destruct (chunks_exact 8 rem1) as [cs fin] eqn:E2.
  destruct (chunks_exact_sound (8 * k)%nat _ _ _ ltac:(lia) E1) as (Es & Ab & _).
  destruct (chunks_exact_sound 8%nat _ _ _ ltac:(lia) E2) as (Er & Ac & Hf).
  destruct (flat_split8 k big Ab) as [Ef Af].
  assert (Hs : s = concat (flat_map (split8 k) big ++ cs) ++ fin).
  { rewrite concat_app, Ef, <- app_assoc, <- Er. exact Es. }
  assert (Hc : chunks_exact 8 s = (flat_map (split8 k) big ++ cs, fin)).
  { rewrite Hs. apply chunks_exact_build; [lia|apply Forall_app; split; assumption|exact Hf]. }
  rewrite Hc. rewrite mix_lanes_flat. unfold mix_words8. rewrite fold_left_app. reflexivity.
Qed.

Theorem hash_paths_agree_proof s :
  hash_avx2 s = hash_fallback s /\ hash_sse2 s = hash_fallback s /\ hash_fast s = hash_fallback s.
Proof.
  unfold hash_fast, hash_avx2, hash_sse2. repeat split; apply hash_simd_is_fallback; lia.
Qed.

(* equal strings hash equally and compare Equal; the hash is a 64-bit value *)
Lemma xsr_bound h s : h < W64 -> xsr h s < W64.
Proof.
  intros H. unfold xsr. destruct (N.eq_dec (N.lxor h (N.shiftr h s)) 0) as [->|Hz]; [reflexivity|].
  rewrite W64_eq. apply N.log2_lt_pow2; [lia|].
  eapply N.le_lt_trans; [apply N.log2_lxor|].
  assert (H1 : N.log2 h < 64).
  { destruct (N.eq_dec h 0) as [->|Hh]; [cbn; lia|]. apply N.log2_lt_pow2; [lia|]. rewrite <- W64_eq. exact H. }
  assert (H2 : N.log2 (N.shiftr h s) <= N.log2 h).
  { rewrite N.log2_shiftr. lia. }
  lia.
Qed.
Lemma w64_bound x : w64 x < W64.
Proof. unfold w64. apply N.mod_lt. discriminate. Qed.

Theorem eq_hash_coherent_proof a b :
  fs_eq a b = true -> hash_fast a = hash_fast b /\ fs_compare a b = Eq /\ fs_compare b a = Eq.
Proof.
  unfold fs_eq, fs_compare. intros H. apply eqb_ln_eq in H. subst b. repeat split; apply lex_refl.
Qed.

(* non-trivial instances: a 75-byte string (two 32-byte chunks, one 8-byte chunk, three tail bytes) *)
Definition demo_bytes : bytes := map (fun i => (N.of_nat i * 37 + 11) mod 256) (seq 0 75).
