(* C20: realnum_strcmp, magnitude part: integer part by value, fraction lexicographically after
   dropping trailing zeros  =  comparison of the numbers scaled to a common power of ten. *)
From ZV.Common Require Import Base.
From ZV.C20 Require Import Model ProofsDec.
Open Scope N_scope.

(* ---------- trailing-zero stripping, structurally ---------- *)
Lemma null_rev {A} (l : list A) : null (rev l) = null l.
Proof. destruct l as [|x l]; [reflexivity|]. cbn [rev]. destruct (rev l); reflexivity. Qed.

Lemma strip0_snoc l c :
  strip0 (l ++ [c]) = if null (strip0 l) then (if c =? 48 then [] else [c]) else strip0 l ++ [c].
Proof.
  induction l as [|x l IH]; cbn [app strip0 null].
  - destruct (c =? 48); reflexivity.
  - destruct (x =? 48); [exact IH|reflexivity].
Qed.

Lemma rstrip0_cons c t :
  rstrip0 (c :: t) = if null (rstrip0 t) then (if c =? 48 then [] else [c]) else c :: rstrip0 t.
Proof.
  unfold rstrip0. cbn [rev]. rewrite strip0_snoc, null_rev.
  destruct (null (strip0 (rev t))).
  - destruct (c =? 48); reflexivity.
  - rewrite rev_app_distr. reflexivity.
Qed.

Lemma rstrip0_nil : rstrip0 [] = [].
Proof. reflexivity. Qed.

Definition allz (l : list N) : bool := forallb (fun c => c =? 48) l.

Lemma null_rstrip0 l : null (rstrip0 l) = allz l.
Proof.
  induction l as [|c t IH]; [reflexivity|].
  rewrite rstrip0_cons. unfold allz in *. cbn [forallb]. rewrite <- IH.
  destruct (null (rstrip0 t)); destruct (c =? 48); reflexivity.
Qed.

Lemma allz_dval a : digits a -> (allz a = true <-> dval a = 0).
Proof.
  induction a as [|c t IH]; intros Hd.
  - cbn. tauto.
  - apply digits_cons in Hd. destruct Hd as [Hc Ht]. specialize (IH Ht).
    unfold allz in *. cbn [forallb dval].
    rewrite andb_true_iff, N.eqb_eq.
    pose proof (pow10_pos (nlen t)). split.
    + intros [-> H0]. apply IH in H0. lia.
    + intros H0. assert (c = 48) by nia. split; [assumption|]. apply IH. nia.
Qed.

(* ---------- the fraction comparison ---------- *)
(* digit-wise comparison where a missing digit counts as zero *)
Fixpoint flex (a b : list N) : comparison :=
  match a, b with
  | [], _ => if allz b then Eq else Lt
  | _, [] => if allz a then Eq else Gt
  | x :: a', y :: b' => match N.compare x y with Eq => flex a' b' | o => o end
  end.

Lemma lex_nil_l b : lex [] b = if null b then Eq else Lt.
Proof. destruct b; reflexivity. Qed.
Lemma lex_nil_r a : lex a [] = if null a then Eq else Gt.
Proof. destruct a; reflexivity. Qed.

Lemma cmp48_lt y : 48 <= y -> (y =? 48) = false -> N.compare 48 y = Lt.
Proof. intros H1 H2. apply N.eqb_neq in H2. apply N.compare_lt_iff. lia. Qed.
Lemma cmp48_gt x : 48 <= x -> (x =? 48) = false -> N.compare x 48 = Gt.
Proof. intros H1 H2. apply N.eqb_neq in H2. apply N.compare_gt_iff. lia. Qed.

Lemma frac_lex_flex a : forall b, digits a -> digits b ->
  lex (rstrip0 a) (rstrip0 b) = flex a b.
Proof.
  induction a as [|x a IH]; intros b Ha Hb.
  - rewrite rstrip0_nil, lex_nil_l, null_rstrip0. destruct b; reflexivity.
  - destruct b as [|y b].
    + rewrite rstrip0_nil, lex_nil_r, null_rstrip0. reflexivity.
    + apply digits_cons in Ha. apply digits_cons in Hb.
      destruct Ha as [Hx Ha], Hb as [Hy Hb].
      specialize (IH b Ha Hb). rewrite !rstrip0_cons. cbn [flex].
      destruct (rstrip0 a) as [|ra0 ra]; destruct (rstrip0 b) as [|rb0 rb]; cbn [null];
        rewrite <- IH; clear IH.
      * destruct (x =? 48) eqn:Ex; destruct (y =? 48) eqn:Ey.
        -- apply N.eqb_eq in Ex, Ey. subst. reflexivity.
        -- apply N.eqb_eq in Ex. subst x. rewrite (cmp48_lt y) by (lia || assumption). reflexivity.
        -- apply N.eqb_eq in Ey. subst y. rewrite (cmp48_gt x) by (lia || assumption). reflexivity.
        -- cbn [lex]. destruct (N.compare x y); reflexivity.
      * destruct (x =? 48) eqn:Ex.
        -- apply N.eqb_eq in Ex. subst x. cbn [lex].
           destruct (y =? 48) eqn:Ey.
           ++ apply N.eqb_eq in Ey. subst y. reflexivity.
           ++ rewrite (cmp48_lt y) by (lia || assumption). reflexivity.
        -- cbn [lex]. destruct (N.compare x y); reflexivity.
      * destruct (y =? 48) eqn:Ey.
        -- apply N.eqb_eq in Ey. subst y. cbn [lex].
           destruct (x =? 48) eqn:Ex.
           ++ apply N.eqb_eq in Ex. subst x. reflexivity.
           ++ rewrite (cmp48_gt x) by (lia || assumption). reflexivity.
        -- cbn [lex]. destruct (N.compare x y); reflexivity.
      * cbn [lex]. destruct (N.compare x y); reflexivity.
Qed.

Lemma compare_intro (c : comparison) (x y : N) :
  match c with Lt => x < y | Eq => x = y | Gt => y < x end -> c = N.compare x y.
Proof.
  destruct c; intros H; symmetry.
  - apply N.compare_eq_iff. exact H.
  - apply N.compare_lt_iff. exact H.
  - apply N.compare_gt_iff. exact H.
Qed.

Lemma flex_value a : forall b, digits a -> digits b ->
  flex a b = N.compare (dval a * 10 ^ nlen b) (dval b * 10 ^ nlen a).
Proof.
  induction a as [|x a IH]; intros b Ha Hb.
  - cbn [flex dval nlen]. rewrite N.pow_0_r, N.mul_1_r, N.mul_0_l.
    pose proof (allz_dval b Hb) as Hz.
    destruct (allz b).
    + assert (dval b = 0) as -> by (apply Hz; reflexivity). reflexivity.
    + assert (dval b <> 0) by (intros H0; apply Hz in H0; discriminate).
      apply (compare_intro Lt). cbn. lia.
  - destruct b as [|y b].
    + cbn [flex]. pose proof (allz_dval (x :: a) Ha) as Hz.
      change (dval []) with 0. change (nlen (@nil N)) with 0.
      rewrite N.pow_0_r, N.mul_1_r, N.mul_0_l.
      destruct (allz (x :: a)).
      * assert (Hv : dval (x :: a) = 0) by (apply Hz; reflexivity).
        rewrite Hv. reflexivity.
      * assert (dval (x :: a) <> 0) by (intros H0; apply Hz in H0; discriminate).
        apply (compare_intro Gt). cbv beta iota. lia.
    + pose proof Ha as Ha0. pose proof Hb as Hb0.
      apply digits_cons in Ha. apply digits_cons in Hb.
      destruct Ha as [Hx Ha], Hb as [Hy Hb].
      specialize (IH b Ha Hb). cbn [flex dval nlen].
      pose proof (dval_lt a Ha) as Hda. pose proof (dval_lt b Hb) as Hdb.
      rewrite !pow10_succ.
      set (A := 10 ^ nlen a) in *. set (B := 10 ^ nlen b) in *.
      set (da := dval a) in *. set (db := dval b) in *.
      assert (HA : 0 < A) by apply pow10_pos. assert (HB : 0 < B) by apply pow10_pos.
      destruct (compare_cases x y) as [[Hxy ->]|[[Hxy ->]|[Hxy ->]]].
      * apply (compare_intro Lt). cbn.
        assert (H1 : ((x - 48) * A + da) * (10 * B) < (x - 48 + 1) * A * (10 * B)) by nia.
        assert (H2 : (x - 48 + 1) * A * (10 * B) <= (y - 48) * B * (10 * A)) by nia.
        nia.
      * subst y. rewrite IH.
        destruct (compare_cases (da * B) (db * A)) as [[H ->]|[[H ->]|[H ->]]].
        -- apply (compare_intro Lt). cbn. nia.
        -- apply (compare_intro Eq). cbn. nia.
        -- apply (compare_intro Gt). cbn. nia.
      * apply (compare_intro Gt). cbn.
        assert (H1 : ((y - 48) * B + db) * (10 * A) < (y - 48 + 1) * B * (10 * A)) by nia.
        assert (H2 : (y - 48 + 1) * B * (10 * A) <= (x - 48) * A * (10 * B)) by nia.
        nia.
Qed.

(* the number denoted by integer digits i and fraction digits f, scaled by 10^|f| *)
Definition rnum (i f : list N) : N := dval i * 10 ^ nlen f + dval f.

Theorem real_mag_correct ai af bi bf :
  digits ai -> digits af -> digits bi -> digits bf ->
  then_with (mag_cmp ai bi) (lex (rstrip0 af) (rstrip0 bf)) =
  N.compare (rnum ai af * 10 ^ nlen bf) (rnum bi bf * 10 ^ nlen af).
Proof.
  intros Hai Haf Hbi Hbf. unfold rnum.
  rewrite (mag_cmp_correct ai bi Hai Hbi), (frac_lex_flex af bf Haf Hbf), (flex_value af bf Haf Hbf).
  pose proof (dval_lt af Haf) as Hda. pose proof (dval_lt bf Hbf) as Hdb.
  set (FA := 10 ^ nlen af) in *. set (FB := 10 ^ nlen bf) in *.
  assert (HA : 0 < FA) by apply pow10_pos. assert (HB : 0 < FB) by apply pow10_pos.
  set (ia := dval ai). set (ib := dval bi). set (fa := dval af) in *. set (fb := dval bf) in *.
  destruct (compare_cases ia ib) as [[H ->]|[[H ->]|[H ->]]]; cbn [then_with].
  - apply (compare_intro Lt). cbn.
    assert (H1 : (ia * FA + fa) * FB < (ia + 1) * FA * FB) by nia.
    assert (H2 : (ia + 1) * FA * FB <= ib * FB * FA) by nia.
    nia.
  - subst ib.
    destruct (compare_cases (fa * FB) (fb * FA)) as [[H' ->]|[[H' ->]|[H' ->]]].
    + apply (compare_intro Lt). cbn. nia.
    + apply (compare_intro Eq). cbn. nia.
    + apply (compare_intro Gt). cbn. nia.
  - apply (compare_intro Gt). cbn.
    assert (H1 : (ib * FB + fb) * FA < (ib + 1) * FB * FA) by nia.
    assert (H2 : (ib + 1) * FB * FA <= ia * FA * FB) by nia.
    nia.
Qed.
