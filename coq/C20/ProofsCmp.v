(* C20: the chunked comparison kernel equals the byte-wise lexicographic order, for all lengths. *)
From ZV.Common Require Import Base Run.
From ZV.C20 Require Import Model ModelStr ModelCmp ProofsLex.
Open Scope N_scope.

Lemma lex_app_same_len p : forall q a b, length p = length q ->
  lex (p ++ a) (q ++ b) = match lex p q with Eq => lex a b | o => o end.
Proof.
  induction p as [|x p IH]; intros [|y q] a b L; try discriminate; cbn [app lex]; [reflexivity|].
  destruct (N.compare x y); try reflexivity. apply IH. cbn in L. lia.
Qed.

(* bytes of the common length, then the lengths *)
Lemma lex_by_bytes a : forall b,
  lex a b = match cmp_bytes (Nat.min (length a) (length b)) a b with
            | Eq => Nat.compare (length a) (length b)
            | o => o
            end.
Proof.
  induction a as [|x a IH]; intros [|y b]; cbn [lex length Nat.min cmp_bytes Nat.compare]; try reflexivity.
  destruct (N.compare x y); try reflexivity. apply IH.
Qed.

Lemma chunks_then_rest : forall k a b, (k * 8 <= Nat.min (length a) (length b))%nat ->
  lex a b = match cmp_chunks k a b with
            | (Eq, ra, rb) =>
                match cmp_bytes (Nat.min (length a) (length b) - k * 8) ra rb with
                | Eq => Nat.compare (length a) (length b)
                | o => o
                end
            | (o, _, _) => o
            end.
Proof.
  induction k as [|k IH]; intros a b Hk.
  - cbn [cmp_chunks Nat.mul]. rewrite Nat.sub_0_r. apply lex_by_bytes.
  - cbn [cmp_chunks].
    assert (La : (8 <= length a)%nat) by lia. assert (Lb : (8 <= length b)%nat) by lia.
    rewrite <- (firstn_skipn 8 a) at 1. rewrite <- (firstn_skipn 8 b) at 1.
    rewrite lex_app_same_len by (rewrite !firstn_length; lia).
    destruct (lex (firstn 8 a) (firstn 8 b)); try reflexivity.
    rewrite IH by (rewrite !skipn_length; lia). rewrite !skipn_length.
    replace (Nat.min (length a - 8) (length b - 8) - k * 8)%nat with (Nat.min (length a) (length b) - S k * 8)%nat by lia.
    replace (Nat.compare (length a - 8) (length b - 8)) with (Nat.compare (length a) (length b)).
    2:{ destruct (Nat.compare_spec (length a) (length b)); destruct (Nat.compare_spec (length a - 8) (length b - 8)); try reflexivity; lia. }
    reflexivity.
Qed.

Theorem fast_lex_cmp_is_lex_proof a b : fast_lex_cmp a b = lex a b.
Proof.
  unfold fast_lex_cmp. symmetry. apply chunks_then_rest.
  pose proof (Nat.div_mod (Nat.min (length a) (length b)) 8 ltac:(lia)). lia.
Qed.
