(* C20: ZoSortedStrVec::from_sorted_strings accepts exactly the sorted lists without NUL bytes (and the empty list). *)
From ZV.Common Require Import Base Run.
From ZV.C20 Require Import Model ModelStr ModelZo ProofsStr ProofsLex.
Open Scope N_scope.

Lemma lex_le_trans a b c : lex a b <> Gt -> lex b c <> Gt -> lex a c <> Gt.
Proof.
  intros H1 H2 H3. destruct (lex a b) eqn:E; [| |congruence].
  - apply lex_eq in E. subst. contradiction.
  - pose proof (lex_lt_le _ _ _ E H2). congruence.
Qed.

Lemma sorted_check_sound ss : sorted_check ss = true -> sorted_strs ss.
Proof.
  induction ss as [|a [|b t] IH]; intros H i j Hij Hj.
  - cbn in Hj. lia.
  - cbn in Hj. assert (j = O) by lia. assert (i = O) by lia. subst. unfold nth_str. cbn. rewrite lex_refl. discriminate.
  - cbn [sorted_check] in H. destruct (lex a b) eqn:E; try discriminate.
    + specialize (IH H). destruct j as [|j]; [assert (i = O) by lia; subst; unfold nth_str; cbn; rewrite lex_refl; discriminate|].
      destruct i as [|i].
      * unfold nth_str. cbn [nth]. apply lex_le_trans with (b := b); [rewrite E; discriminate|].
        apply (IH O j); [lia|cbn [length] in *; lia].
      * unfold nth_str. cbn [nth]. apply (IH i j); [lia|cbn [length] in *; lia].
    + specialize (IH H). destruct j as [|j]; [assert (i = O) by lia; subst; unfold nth_str; cbn; rewrite lex_refl; discriminate|].
      destruct i as [|i].
      * unfold nth_str. cbn [nth]. apply lex_le_trans with (b := b); [rewrite E; discriminate|].
        apply (IH O j); [lia|cbn [length] in *; lia].
      * unfold nth_str. cbn [nth]. apply (IH i j); [lia|cbn [length] in *; lia].
Qed.
Lemma sorted_check_complete ss : sorted_strs ss -> sorted_check ss = true.
Proof.
  induction ss as [|a [|b t] IH]; intros H; try reflexivity. cbn [sorted_check].
  assert (Hab : lex a b <> Gt) by (apply (H O 1%nat); [lia|cbn; lia]).
  assert (Ht : sorted_strs (b :: t)).
  { intros i j Hij Hj. apply (H (S i) (S j)); [lia|cbn [length] in *; lia]. }
  destruct (lex a b); [apply IH; exact Ht|apply IH; exact Ht|congruence].
Qed.

Lemma existsb_nul ss : existsb (contains_byte 0) ss = false <-> Forall (no_byte 0) ss.
Proof.
  induction ss as [|s ss IH]; cbn [existsb]; [split; [constructor|reflexivity]|].
  rewrite orb_false_iff, IH. split.
  - intros [H1 H2]. constructor; assumption.
  - intros H. inversion H; subst. split; assumption.
Qed.

Theorem zo_accepts_proof ss :
  (zo_from_sorted ss = Some (zo_build ss) <-> (Forall (no_byte 0) ss /\ sorted_strs ss)) /\
  (zo_from_sorted ss = None <-> ~ (Forall (no_byte 0) ss /\ sorted_strs ss)).
Proof.
  unfold zo_from_sorted. destruct ss as [|s ss]; cbn [null].
  - split; split; try discriminate.
    + intros _. split; [constructor|]. intros i j _ Hj. cbn in Hj. lia.
    + reflexivity.
    + intros H. exfalso. apply H. split; [constructor|]. intros i j _ Hj. cbn in Hj. lia.
  - destruct (existsb (contains_byte 0) (s :: ss)) eqn:En.
    + assert (Hn : ~ Forall (no_byte 0) (s :: ss)).
      { intros F. apply existsb_nul in F. congruence. }
      split; split; try discriminate; try tauto; try reflexivity.
    + apply existsb_nul in En. destruct (sorted_check (s :: ss)) eqn:Es.
      * apply sorted_check_sound in Es. split; split; try discriminate; try tauto; try reflexivity.
      * assert (Hs : ~ sorted_strs (s :: ss)).
        { intros S. apply sorted_check_complete in S. congruence. }
        split; split; try discriminate; try tauto; try reflexivity.
Qed.
