(* C20: ZoSortedStrVec (ModelZo.v): get reads back every string of the list it was built from; binary_search,
   lower_bound and range on the sorted list with duplicates and empty strings. *)
From ZV.Common Require Import Base Run.
From ZV.C20 Require Import Model ModelStr ModelZo ProofsStr ProofsLex.
Open Scope N_scope.

(* start of string i in the data = sum of (length + 1) of the strings before it *)
Fixpoint start_of (ss : strs) (i : nat) : nat :=
  match i, ss with
  | S i', s :: rest => (S (length s) + start_of rest i')%nat
  | _, _ => O
  end.

Lemma select1_false_run k : forall bits i, select1 (repeat false k ++ bits) i = option_map (Nat.add k) (select1 bits i).
Proof.
  induction k as [|k IH]; intros bits i; cbn [repeat app select1].
  - destruct (select1 bits i); reflexivity.
  - rewrite IH. destruct (select1 bits i); reflexivity.
Qed.
Lemma select1_build : forall ss i, (i < length ss)%nat -> select1 (zo_bits ss) i = Some (start_of ss i).
Proof.
  induction ss as [|s rest IH]; intros i Hi; [cbn in Hi; lia|].
  unfold zo_bits. cbn [flat_map app select1]. destruct i as [|i]; [reflexivity|].
  fold (zo_bits rest). rewrite select1_false_run. rewrite IH by (cbn in Hi; lia). reflexivity.
Qed.
Lemma data_at : forall ss i, (i < length ss)%nat -> skipn (start_of ss i) (zo_data ss) = zo_data (skipn i ss).
Proof.
  induction ss as [|s rest IH]; intros i Hi; [cbn in Hi; lia|]. destruct i as [|i]; [reflexivity|].
  unfold zo_data at 1. cbn [flat_map start_of skipn]. fold (zo_data rest).
  rewrite skipn_app. rewrite (skipn_all2 (n := (S (length s) + start_of rest i)%nat)) by (rewrite app_length; cbn; lia).
  rewrite app_length. cbn [length app]. replace (S (length s) + start_of rest i - (length s + 1))%nat with (start_of rest i) by lia.
  apply IH. cbn in Hi. lia.
Qed.
Lemma find_byte_terminator s : forall r, no_byte 0 s -> find_byte 0 (s ++ 0 :: r) = Some (length s).
Proof.
  induction s as [|c s IH]; intros r H; cbn [app find_byte length]; [reflexivity|].
  apply no_byte_cons in H. destruct H as [Hc Hs]. rewrite Hc. rewrite IH by exact Hs. reflexivity.
Qed.

Theorem zo_get_build_proof ss i : Forall (no_byte 0) ss -> zo_get (zo_build ss) i = nth_error ss i.
Proof.
  intros Hz. unfold zo_get, zo_build. cbn [z_len z_bits z_data].
  destruct (Nat.leb_spec (length ss) i) as [L|L]; [symmetry; apply nth_error_None; exact L|].
  rewrite select1_build by exact L. rewrite data_at by exact L.
  destruct (nth_error ss i) as [s|] eqn:En; [|apply nth_error_None in En; lia].
  assert (Hs : skipn i ss = s :: skipn (S i) ss).
  { clear - En. revert i En. induction ss as [|a ss IH]; intros [|i] En; cbn in En; try discriminate.
    - injection En as ->. reflexivity.
    - cbn [skipn]. apply IH. exact En. }
  rewrite Hs. unfold zo_data. cbn [flat_map]. fold (zo_data (skipn (S i) ss)).
  assert (Hn : no_byte 0 s). { rewrite Forall_forall in Hz. apply Hz. eapply nth_error_In. exact En. }
  rewrite <- app_assoc. cbn [app]. set (D := zo_data (skipn (S i) ss)).
  destruct s as [|c s']; cbn [app].
  - reflexivity.
  - pose proof Hn as Hn2. apply no_byte_cons in Hn2. destruct Hn2 as [Hc _]. rewrite Hc.
    change (c :: s' ++ 0 :: D) with ((c :: s') ++ 0 :: D).
    rewrite find_byte_terminator by exact Hn. rewrite firstn_app, Nat.sub_diag, firstn_all. cbn [firstn]. rewrite app_nil_r. reflexivity.
Qed.

Section Search.
Variable ss : strs.
Variable t : bytes.
Hypothesis Hz : Forall (no_byte 0) ss.
Let z := zo_build ss.
Let n := length ss.

Lemma zo_get_nth i : (i < n)%nat -> zo_get z i = Some (nth_str ss i).
Proof.
  intros Hi. unfold z. rewrite zo_get_build_proof by exact Hz. unfold nth_str.
  destruct (nth_error ss i) eqn:E; [erewrite nth_error_nth by exact E; reflexivity|apply nth_error_None in E; unfold n in *; lia].
Qed.

Lemma zo_bs_is_bs_go : forall fuel left right, (right <= n)%nat ->
  zo_bs fuel z t left right = bs_go fuel ss t left right.
Proof.
  induction fuel as [|f IH]; intros left right Hr; [reflexivity|]. cbn [zo_bs bs_go].
  destruct (Nat.ltb_spec left right) as [Hlt|Hge]; [|reflexivity].
  set (mid := (left + (right - left) / 2)%nat).
  assert (Hmid : (left <= mid /\ mid < right)%nat).
  { unfold mid. pose proof (Nat.div_lt (right - left) 2 ltac:(lia) ltac:(lia)). lia. }
  rewrite zo_get_nth by lia. destruct (lex (nth_str ss mid) t); [reflexivity|apply IH; lia|apply IH; lia].
Qed.

Hypothesis Hsorted : sorted_strs ss.

Lemma zo_lb_spec : forall fuel left right,
  (right - left < fuel)%nat -> (left <= right)%nat -> (right <= n)%nat ->
  (forall i, (i < left)%nat -> lex (nth_str ss i) t = Lt) ->
  (forall i, (right <= i)%nat -> (i < n)%nat -> lex (nth_str ss i) t <> Lt) ->
  let k := zo_lb fuel z t left right in
  (k <= n)%nat /\ (forall i, (i < k)%nat -> lex (nth_str ss i) t = Lt) /\
  (forall i, (k <= i)%nat -> (i < n)%nat -> lex (nth_str ss i) t <> Lt).
Proof.
  induction fuel as [|f IH]; intros left right Hf Hlr Hrn Hlo Hhi; [lia|].
  cbn [zo_lb]. destruct (Nat.ltb_spec left right) as [Hlt|Hge].
  - set (mid := (left + (right - left) / 2)%nat).
    assert (Hmid : (left <= mid /\ mid < right)%nat).
    { unfold mid. pose proof (Nat.div_lt (right - left) 2 ltac:(lia) ltac:(lia)). lia. }
    rewrite zo_get_nth by lia.
    assert (Hup : lex (nth_str ss mid) t <> Lt -> forall i, (mid <= i)%nat -> (i < n)%nat -> lex (nth_str ss i) t <> Lt).
    { intros Hm i Hi1 Hi2 Hc. apply Hm. apply lex_le_lt with (b := nth_str ss i); [|exact Hc].
      apply Hsorted; unfold n in *; lia. }
    destruct (lex (nth_str ss mid) t) eqn:E.
    + apply IH; try lia; [exact Hlo|]. apply Hup. discriminate.
    + apply IH; try lia; [|exact Hhi]. intros i Hi. apply lex_le_lt with (b := nth_str ss mid); [|exact E].
      apply Hsorted; unfold n in *; lia.
    + apply IH; try lia; [exact Hlo|]. apply Hup. discriminate.
  - assert (left = right) by lia. subst right. repeat split; [lia|exact Hlo|exact Hhi].
Qed.
End Search.

Lemma zo_items_build ss : Forall (no_byte 0) ss -> forall cnt i, (i + cnt <= length ss)%nat ->
  zo_items cnt (zo_build ss) i = firstn cnt (skipn i ss).
Proof.
  intros Hz. induction cnt as [|c IH]; intros i Hi; [reflexivity|]. cbn [zo_items].
  rewrite zo_get_build_proof by exact Hz.
  destruct (nth_error ss i) as [s|] eqn:En; [|apply nth_error_None in En; lia].
  assert (Hs : skipn i ss = s :: skipn (S i) ss).
  { clear - En. revert i En. induction ss as [|a ss IH]; intros [|i] En; cbn in En; try discriminate.
    - injection En as ->. reflexivity.
    - cbn [skipn]. apply IH. exact En. }
  rewrite Hs. cbn [firstn]. f_equal. apply IH. lia.
Qed.

Theorem zo_spec_proof ss : Forall (no_byte 0) ss ->
  (forall i, zo_get (zo_build ss) i = nth_error ss i) /\
  zo_iter (zo_build ss) = ss /\
  (sorted_strs ss -> forall t,
     match zo_binary_search (zo_build ss) t with
     | Found m => (m < length ss)%nat /\ lex (nth_str ss m) t = Eq
     | NotFound k => (k <= length ss)%nat /\ (forall i, (i < k)%nat -> lex (nth_str ss i) t = Lt) /\
                     (forall i, (k <= i)%nat -> (i < length ss)%nat -> lex (nth_str ss i) t = Gt)
     end) /\
  (sorted_strs ss -> forall t,
     let k := zo_lower_bound (zo_build ss) t in
     (k <= length ss)%nat /\ (forall i, (i < k)%nat -> lex (nth_str ss i) t = Lt) /\
     (forall i, (k <= i)%nat -> (i < length ss)%nat -> lex (nth_str ss i) t <> Lt)) /\
  (sorted_strs ss -> forall lo hi,
     let a := zo_lower_bound (zo_build ss) lo in
     let b := zo_lower_bound (zo_build ss) hi in
     zo_range (zo_build ss) lo hi = firstn (b - a) (skipn a ss)).
Proof.
  intros Hz. split; [intros i; apply zo_get_build_proof; exact Hz|]. split.
  { unfold zo_iter. cbn [zo_build z_len]. rewrite zo_items_build by (try exact Hz; lia). cbn [skipn]. apply firstn_all. }
  split.
  { intros Hs t. unfold zo_binary_search. cbn [zo_build z_len]. destruct (length ss =? 0)%nat eqn:E0.
    - apply Nat.eqb_eq in E0. repeat split; [lia|intros; lia|intros; lia].
    - fold (zo_build ss). rewrite (zo_bs_is_bs_go ss t Hz) by lia.
      pose proof (bs_go_spec ss t Hs (S (length ss)) 0 (length ss) ltac:(lia) ltac:(lia) ltac:(lia)
                    ltac:(intros; lia) ltac:(intros; lia)) as H.
      destruct (bs_go (S (length ss)) ss t 0 (length ss)); exact H. }
  assert (Hlb : sorted_strs ss -> forall t,
     let k := zo_lower_bound (zo_build ss) t in
     (k <= length ss)%nat /\ (forall i, (i < k)%nat -> lex (nth_str ss i) t = Lt) /\
     (forall i, (k <= i)%nat -> (i < length ss)%nat -> lex (nth_str ss i) t <> Lt)).
  { intros Hs t. unfold zo_lower_bound. cbn [zo_build z_len]. fold (zo_build ss).
    apply (zo_lb_spec ss t Hz Hs); try lia; intros; lia. }
  split; [exact Hlb|].
  intros Hs lo hi a b. unfold zo_range. fold a. fold b. cbn [zo_build z_len]. fold (zo_build ss).
  destruct (Hlb Hs lo) as (Ha & _). destruct (Hlb Hs hi) as (Hb & _). fold a in Ha. fold b in Hb.
  rewrite Nat.min_l by exact Hb. destruct (Nat.le_gt_cases a b) as [L|L].
  - apply zo_items_build; [exact Hz|lia].
  - replace (b - a)%nat with O by lia. reflexivity.
Qed.
