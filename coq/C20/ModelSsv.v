(* C20 mechanism model of SortableStrVec storage (src/containers/specialized/sortable_str_vec.rs) as written:
   push_str / push (arena offset, the two capacity tests, seq_id = entries.len() & 0xF, the packed 64-bit entry
   offset | length << 40 | seq_id << 60, arena.extend), CompactEntry::offset / length (mask and shift), get /
   get_by_id (entry lookup, &arena[offset..offset+length]), len.  Definitions only. *)
From ZV.Common Require Import Base Run.
From ZV.C20 Require Import Model ModelStr ModelFast.
Open Scope N_scope.

Definition MAX_OFFSET : N := 1099511627775.    (* (1 << 40) - 1 *)
Definition MAX_LENGTH : N := 1048575.          (* (1 << 20) - 1 *)
Record ssv := { sv_arena : bytes; sv_entries : list N }.
Definition ssv_new : ssv := {| sv_arena := []; sv_entries := [] |}.
Definition entry_offset (e : N) : N := N.land e MAX_OFFSET.
Definition entry_length (e : N) : N := N.land (N.shiftr e 40) MAX_LENGTH.
(* None = Err; Some (vector, id) *)
Definition ssv_push (v : ssv) (s : bytes) : option (ssv * N) :=
  let offset := nlen (sv_arena v) in
  let length := nlen s in
  if (N.shiftr MAX_OFFSET 1 <? offset) && (MAX_OFFSET <? offset + length) then None
  else if MAX_LENGTH <? length then None
  else
    let seq := N.land (nlen (sv_entries v)) 15 in
    let packed := N.lor (N.lor offset (N.shiftl length 40)) (N.shiftl seq 60) in
    Some ({| sv_arena := sv_arena v ++ s; sv_entries := sv_entries v ++ [packed] |}, nlen (sv_entries v)).
Definition ssv_get (v : ssv) (i : N) : option bytes :=
  if nlen (sv_entries v) <=? i then None else
  match nth_error (sv_entries v) (N.to_nat i) with
  | None => None
  | Some e => slice_n (sv_arena v) (entry_offset e) (entry_offset e + entry_length e)
  end.
Fixpoint ssv_push_all (v : ssv) (ss : strs) : option ssv :=
  match ss with
  | [] => Some v
  | s :: t => match ssv_push v s with Some (v', _) => ssv_push_all v' t | None => None end
  end.
