(* C20: SortedVecLexIterator over sorted data with duplicates and empty strings:
   binary search + step back = lower bound; trait-default upper bound; walking with next() enumerates
   exactly the suffix from the cursor (complete, in order, nothing repeated). *)
From ZV.Common Require Import Base Run.
From ZV.C20 Require Import Model ModelStr.
Open Scope N_scope.

(* ---------- byte-wise lexicographic order is a total order ---------- *)
Lemma lex_refl a : lex a a = Eq.
Proof. induction a as [|x a IH]; [reflexivity|]. cbn [lex]. rewrite N.compare_refl. exact IH. Qed.

Lemma lex_eq a : forall b, lex a b = Eq -> a = b.
Proof.
  induction a as [|x a IH]; intros [|y b] H; cbn [lex] in H; try discriminate; [reflexivity|].
  destruct (N.compare_spec x y) as [->| |]; try discriminate. f_equal. apply IH. exact H.
Qed.

Lemma lex_antisym a : forall b, lex b a = CompOpp (lex a b).
Proof.
  induction a as [|x a IH]; intros [|y b]; cbn [lex]; try reflexivity.
  rewrite (N.compare_antisym x y). destruct (N.compare x y); cbn [CompOpp]; [apply IH|reflexivity|reflexivity].
Qed.

Lemma lex_trans_lt a : forall b c, lex a b = Lt -> lex b c = Lt -> lex a c = Lt.
Proof.
  induction a as [|x a IH]; intros [|y b] [|z c] H1 H2; cbn [lex] in *; try discriminate; try reflexivity.
  destruct (N.compare_spec x y) as [->|Hxy|Hxy]; try discriminate.
  - destruct (N.compare_spec y z) as [->|Hyz|Hyz]; try discriminate; [|reflexivity].
    eapply IH; eassumption.
  - destruct (N.compare_spec y z) as [->|Hyz|Hyz]; try discriminate.
    + destruct (N.compare_spec x z); try lia. reflexivity.
    + destruct (N.compare_spec x z); try lia. reflexivity.
Qed.

Lemma lex_le_lt a b c : lex a b <> Gt -> lex b c = Lt -> lex a c = Lt.
Proof.
  intros H1 H2. destruct (lex a b) eqn:E; [|eapply lex_trans_lt; eassumption|congruence].
  apply lex_eq in E. subst. exact H2.
Qed.
Lemma lex_lt_le a b c : lex a b = Lt -> lex b c <> Gt -> lex a c = Lt.
Proof.
  intros H1 H2. destruct (lex b c) eqn:E; [|eapply lex_trans_lt; eassumption|congruence].
  apply lex_eq in E. subst. exact H1.
Qed.
Lemma lex_gt_flip a b : lex a b = Gt <-> lex b a = Lt.
Proof. rewrite (lex_antisym a b). destruct (lex a b); cbn; split; congruence. Qed.
(* a > t and a <= b give b > t *)
Lemma lex_gt_le a b t : lex a t = Gt -> lex a b <> Gt -> lex b t = Gt.
Proof.
  intros H1 H2. apply lex_gt_flip. apply lex_gt_flip in H1.
  eapply lex_lt_le; [exact H1|exact H2].
Qed.

Lemma eqb_ln_eq a : forall b, eqb_ln a b = true <-> a = b.
Proof.
  induction a as [|x a IH]; intros [|y b]; cbn [eqb_ln]; split; intros H; try discriminate; try reflexivity.
  - apply andb_true_iff in H. destruct H as [H1 H2]. apply N.eqb_eq in H1. apply IH in H2. congruence.
  - injection H as -> ->. rewrite N.eqb_refl. apply IH. reflexivity.
Qed.

(* ---------- binary search ---------- *)
Section Search.
Variable l : strs.
Variable t : bytes.
Hypothesis Hsorted : sorted_strs l.
Let n := length l.

Lemma bs_go_spec : forall fuel left right,
  (right - left < fuel)%nat -> (left <= right)%nat -> (right <= n)%nat ->
  (forall i, (i < left)%nat -> lex (nth_str l i) t = Lt) ->
  (forall i, (right <= i)%nat -> (i < n)%nat -> lex (nth_str l i) t = Gt) ->
  match bs_go fuel l t left right with
  | Found m => (m < n)%nat /\ lex (nth_str l m) t = Eq
  | NotFound k => (k <= n)%nat /\ (forall i, (i < k)%nat -> lex (nth_str l i) t = Lt) /\
                  (forall i, (k <= i)%nat -> (i < n)%nat -> lex (nth_str l i) t = Gt)
  end.
Proof.
  induction fuel as [|f IH]; intros left right Hf Hlr Hrn Hlo Hhi; [lia|].
  cbn [bs_go]. destruct (Nat.ltb_spec left right) as [Hlt|Hge].
  - set (mid := (left + (right - left) / 2)%nat).
    assert (Hmid : (left <= mid /\ mid < right)%nat).
    { unfold mid. pose proof (Nat.div_lt (right - left) 2 ltac:(lia) ltac:(lia)). lia. }
    destruct (lex (nth_str l mid) t) eqn:E.
    + split; [lia|exact E].
    + apply IH; try lia.
      * intros i Hi. apply lex_le_lt with (b := nth_str l mid); [|exact E].
        apply Hsorted; unfold n in *; lia.
      * exact Hhi.
    + apply IH; try lia.
      * exact Hlo.
      * intros i Hi1 Hi2. apply lex_gt_le with (a := nth_str l mid); [exact E|].
        apply Hsorted; unfold n in *; lia.
  - assert (left = right) by lia. subst right. repeat split; [lia|exact Hlo|exact Hhi].
Qed.

Lemma step_back_spec : forall m, (m < n)%nat -> lex (nth_str l m) t = Eq ->
  let p := step_back l t m in
  (p <= m)%nat /\ nth_str l p = t /\ (forall i, (i < p)%nat -> lex (nth_str l i) t = Lt).
Proof.
  induction m as [|m IH]; intros Hm He; cbn [step_back].
  - repeat split; [lia|apply lex_eq; exact He|intros; lia].
  - destruct (eqb_ln (nth_str l m) t) eqn:Eq1.
    + apply eqb_ln_eq in Eq1. destruct (IH ltac:(lia) ltac:(rewrite Eq1; apply lex_refl)) as (H1 & H2 & H3).
      repeat split; [lia|exact H2|exact H3].
    + apply lex_eq in He. repeat split; [lia|exact He|].
      assert (Hm1 : lex (nth_str l m) t = Lt).
      { pose proof (Hsorted m (S m) ltac:(lia) Hm) as Hs. rewrite He in Hs.
        destruct (lex (nth_str l m) t) eqn:E; [|reflexivity|congruence].
        apply lex_eq in E. apply eqb_ln_eq in E. congruence. }
      intros i Hi. destruct (Nat.eq_dec i m) as [->|Hne]; [exact Hm1|].
      apply lex_le_lt with (b := nth_str l m); [|exact Hm1]. apply Hsorted; unfold n in *; lia.
Qed.

Definition cursor_index (pos : option nat) : nat := match pos with Some p => p | None => n end.

(* seek_lower_bound: the cursor is the first string >= target (or the end); the flag says whether it equals the target *)
Theorem seek_lower_bound_spec :
  let '(exact, pos) := li_seek_lower_bound l t in
  let k := cursor_index pos in
  (k <= n)%nat /\ (pos = None <-> k = n) /\
  (forall i, (i < k)%nat -> lex (nth_str l i) t = Lt) /\
  (forall i, (k <= i)%nat -> (i < n)%nat -> lex (nth_str l i) t <> Lt) /\
  (exact = true <-> (k < n)%nat /\ nth_str l k = t) /\
  (exact = false -> forall i, (k <= i)%nat -> (i < n)%nat -> lex (nth_str l i) t = Gt).
Proof.
  unfold li_seek_lower_bound, binary_search.
  pose proof (bs_go_spec (S (length l)) 0 (length l) ltac:(lia) ltac:(lia) ltac:(unfold n; lia)
                ltac:(intros; lia) ltac:(intros; unfold n in *; lia)) as Hbs.
  destruct (bs_go (S (length l)) l t 0 (length l)) as [m|k].
  - destruct Hbs as [Hm He]. destruct (step_back_spec m Hm He) as (H1 & H2 & H3).
    cbn [cursor_index]. set (p := step_back l t m) in *.
    repeat split; try lia; try discriminate; try assumption.
    + intros i Hi1 Hi2. pose proof (Hsorted p i Hi1 Hi2) as Hs. rewrite H2 in Hs.
      rewrite (lex_antisym t (nth_str l i)). destruct (lex t (nth_str l i)); cbn; congruence.
  - destruct Hbs as (Hk & Hlo & Hhi). fold n.
    destruct (Nat.ltb_spec k n) as [Hlt|Hge]; cbn [cursor_index].
    + repeat split; try lia; try discriminate; try assumption.
      * intros i Hi1 Hi2. rewrite (Hhi i Hi1 Hi2). discriminate.
      * intros [_ Hc]. pose proof (Hhi k ltac:(lia) Hlt) as Hg. rewrite Hc, lex_refl in Hg. discriminate.
      * intros _. exact Hhi.
    + assert (k = n) by lia. subst k.
      repeat split; try lia; try reflexivity; try assumption; try (intros; lia).
Qed.

Lemma skip_equal_spec : forall fuel p,
  (p < n)%nat -> (n - p <= fuel)%nat ->
  (forall i, (i < p)%nat -> lex (nth_str l i) t <> Gt) ->
  (forall i, (p <= i)%nat -> (i < n)%nat -> lex (nth_str l i) t <> Lt) ->
  let k := cursor_index (skip_equal fuel l t (Some p)) in
  (k <= n)%nat /\ (skip_equal fuel l t (Some p) = None <-> k = n) /\
  (forall i, (i < k)%nat -> lex (nth_str l i) t <> Gt) /\
  (forall i, (k <= i)%nat -> (i < n)%nat -> lex (nth_str l i) t = Gt).
Proof.
  induction fuel as [|f IH]; intros p Hp Hf Hlo Hhi; [lia|].
  cbn [skip_equal li_current]. destruct (eqb_ln (nth_str l p) t) eqn:E.
  - apply eqb_ln_eq in E. cbn [li_next]. fold n.
    assert (Hlo' : forall i, (i < S p)%nat -> lex (nth_str l i) t <> Gt).
    { intros i Hi. destruct (Nat.eq_dec i p) as [->|]; [rewrite E, lex_refl; discriminate|apply Hlo; lia]. }
    destruct (Nat.ltb_spec (S p) n) as [Hlt|Hge].
    + apply IH; try lia; try assumption. intros i Hi1 Hi2. apply Hhi; lia.
    + cbn [cursor_index]. assert (S p = n) by lia.
      repeat split; try lia; try reflexivity; try (intros; lia);
        try (intros i Hi; apply Hlo'; lia).
  - cbn [cursor_index].
    assert (Hg : lex (nth_str l p) t = Gt).
    { pose proof (Hhi p ltac:(lia) Hp) as Hn. destruct (lex (nth_str l p) t) eqn:E2; [|congruence|reflexivity].
      apply lex_eq in E2. apply eqb_ln_eq in E2. congruence. }
    repeat split; try lia; try discriminate; try assumption; try (intros; lia);
      try (intros i Hi1 Hi2; apply lex_gt_le with (a := nth_str l p); [exact Hg|]; apply Hsorted; unfold n in *; lia).
Qed.

(* seek_upper_bound: the cursor is the first string > target (or the end); never reports an exact match *)
Theorem seek_upper_bound_spec :
  let '(exact, pos) := li_seek_upper_bound l t in
  let k := cursor_index pos in
  exact = false /\ (k <= n)%nat /\ (pos = None <-> k = n) /\
  (forall i, (i < k)%nat -> lex (nth_str l i) t <> Gt) /\
  (forall i, (k <= i)%nat -> (i < n)%nat -> lex (nth_str l i) t = Gt).
Proof.
  unfold li_seek_upper_bound. pose proof seek_lower_bound_spec as Hlb.
  destruct (li_seek_lower_bound l t) as [exact pos].
  destruct Hlb as (Hk & Hnone & Hlo & Hhi & Hex & Hnex).
  split; [reflexivity|]. destruct exact.
  - destruct (proj1 Hex eq_refl) as [Hkn Hkt]. destruct pos as [p|]; cbn [cursor_index] in *; [|lia].
    apply (skip_equal_spec (S (length l)) p Hkn); [fold n; lia| |exact Hhi].
    intros i Hi. rewrite (Hlo i Hi). discriminate.
  - repeat split; try assumption; try (apply Hnone).
    + intros i Hi. rewrite (Hlo i Hi). discriminate.
    + apply Hnex. reflexivity.
Qed.
End Search.

(* ---------- walking with next() ---------- *)
Lemma skipn_nth_cons (l : strs) : forall p, (p < length l)%nat -> skipn p l = nth_str l p :: skipn (S p) l.
Proof.
  induction l as [|x l IH]; intros p Hp; cbn [length] in Hp; [lia|].
  destruct p as [|p]; [reflexivity|]. cbn [skipn]. unfold nth_str in *. cbn [nth]. apply IH. lia.
Qed.

Lemma li_walk_skipn (l : strs) : forall fuel p, (p < length l)%nat -> (length l - p <= fuel)%nat ->
  li_walk fuel l (Some p) = skipn p l.
Proof.
  induction fuel as [|f IH]; intros p Hp Hf; [lia|].
  cbn [li_walk li_current li_next]. rewrite (skipn_nth_cons l p Hp). f_equal.
  destruct (Nat.ltb_spec (S p) (length l)) as [Hlt|Hge]; cbn [snd].
  - apply IH; lia.
  - assert (S p = length l) by lia. rewrite H, skipn_all. destruct f; reflexivity.
Qed.

Lemma li_walk_cursor (l : strs) pos : (match pos with Some p => (p < length l)%nat | None => True end) ->
  li_walk (length l) l pos = skipn (match pos with Some p => p | None => length l end) l.
Proof.
  destruct pos as [p|]; intros H.
  - apply li_walk_skipn; lia.
  - rewrite skipn_all. destruct (length l); reflexivity.
Qed.

(* forward enumeration from the start: every string once, in the stored (ascending) order, duplicates and
   empty strings included *)
Theorem enumerate_all_proof (l : strs) :
  li_walk (length l) l (snd (li_seek_start l)) = l /\ li_walk (length l) l (li_new l) = l.
Proof.
  unfold li_seek_start, li_new. destruct l as [|x l]; [split; reflexivity|]. cbn [null snd].
  split; apply (li_walk_skipn (x :: l) (length (x :: l)) 0); cbn [length]; lia.
Qed.

Lemma filter_skipn (P : bytes -> bool) (l : strs) : forall k, (k <= length l)%nat ->
  (forall i, (i < k)%nat -> P (nth_str l i) = false) ->
  (forall i, (k <= i)%nat -> (i < length l)%nat -> P (nth_str l i) = true) ->
  filter P l = skipn k l.
Proof.
  induction l as [|x l IH]; intros k Hk Hlo Hhi.
  - destruct k; reflexivity.
  - destruct k as [|k].
    + cbn [skipn filter]. pose proof (Hhi O ltac:(lia) ltac:(cbn [length]; lia)) as H0.
      change (nth_str (x :: l) 0) with x in H0. rewrite H0. f_equal.
      apply (IH O); [lia|intros; lia|].
      intros i _ Hi. apply (Hhi (S i)); cbn [length]; lia.
    + cbn [skipn filter]. pose proof (Hlo O ltac:(lia)) as H0.
      change (nth_str (x :: l) 0) with x in H0. rewrite H0. apply IH.
      * cbn [length] in Hk. lia.
      * intros i Hi. apply (Hlo (S i)). lia.
      * intros i Hi1 Hi2. apply (Hhi (S i)); cbn [length]; lia.
Qed.

Definition not_lt (c : comparison) : bool := match c with Lt => false | _ => true end.
Definition is_gt (c : comparison) : bool := match c with Gt => true | _ => false end.

(* after seek_lower_bound(t), walking enumerates exactly the strings >= t, all of them, in order *)
Theorem lower_bound_walk_proof (l : strs) (t : bytes) : sorted_strs l ->
  li_walk (length l) l (snd (li_seek_lower_bound l t)) = filter (fun s => not_lt (lex s t)) l.
Proof.
  intros Hs. pose proof (seek_lower_bound_spec l t Hs) as H.
  destruct (li_seek_lower_bound l t) as [exact pos]. cbn [snd].
  destruct H as (Hk & Hnone & Hlo & Hhi & _ & _).
  rewrite li_walk_cursor.
  2:{ destruct pos as [p|]; [|exact I]. cbn [cursor_index] in *.
      destruct (Nat.eq_dec p (length l)) as [E|E]; [|lia]. apply Hnone in E. discriminate. }
  symmetry. apply filter_skipn.
  - destruct pos; exact Hk.
  - intros i Hi. rewrite Hlo; [reflexivity|]. destruct pos; exact Hi.
  - intros i Hi1 Hi2. specialize (Hhi i). destruct (lex (nth_str l i) t); try reflexivity.
    exfalso. apply Hhi; [destruct pos; exact Hi1|exact Hi2|reflexivity].
Qed.

(* after seek_upper_bound(t), walking enumerates exactly the strings > t *)
Theorem upper_bound_walk_proof (l : strs) (t : bytes) : sorted_strs l ->
  li_walk (length l) l (snd (li_seek_upper_bound l t)) = filter (fun s => is_gt (lex s t)) l.
Proof.
  intros Hs. pose proof (seek_upper_bound_spec l t Hs) as H.
  destruct (li_seek_upper_bound l t) as [exact pos]. cbn [snd].
  destruct H as (_ & Hk & Hnone & Hlo & Hhi).
  rewrite li_walk_cursor.
  2:{ destruct pos as [p|]; [|exact I]. cbn [cursor_index] in *.
      destruct (Nat.eq_dec p (length l)) as [E|E]; [|lia]. apply Hnone in E. discriminate. }
  symmetry. apply filter_skipn.
  - destruct pos; exact Hk.
  - intros i Hi. specialize (Hlo i). destruct (lex (nth_str l i) t); try reflexivity.
    exfalso. apply Hlo; [destruct pos; exact Hi|reflexivity].
  - intros i Hi1 Hi2. rewrite Hhi; [reflexivity|destruct pos; exact Hi1|exact Hi2].
Qed.

Definition demo_strs : strs := [[]; []; [97]; [97]; [97; 98]; [98]; [98]; [98]; [99]].
Example lex_iter_nontrivial :
  li_walk 9 demo_strs (snd (li_seek_lower_bound demo_strs [98])) = [[98]; [98]; [98]; [99]] /\
  li_walk 9 demo_strs (snd (li_seek_upper_bound demo_strs [97])) = [[97; 98]; [98]; [98]; [98]; [99]] /\
  li_seek_lower_bound demo_strs [] = (true, Some O) /\
  li_seek_upper_bound demo_strs [99] = (false, None).
Proof. repeat split; vm_compute; reflexivity. Qed.

Lemma demo_sorted : sorted_strs demo_strs.
Proof.
  intros i j Hij Hj. cbn [demo_strs length] in Hj.
  do 9 (destruct j as [|j]; [do 9 (destruct i as [|i]; [first [lia|vm_compute; intro HH; discriminate HH]|]); lia|]). lia.
Qed.
