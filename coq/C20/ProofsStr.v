(* C20: join (all entry points) = intercalate, exact capacity; split . join = id; FastStr::split convention;
   ASCII case maps. *)
From ZV.Common Require Import Base Run.
From ZV.C20 Require Import Model ModelStr.
Open Scope N_scope.

(* ================= join ================= *)
Definition sep_parts (sep : bytes) (t : list bytes) : bytes := flat_map (fun p => sep ++ p) t.

Lemma intercalate_cons sep t : forall x, intercalate sep (x :: t) = x ++ sep_parts sep t.
Proof.
  induction t as [|y t IH]; intros x.
  - cbn. rewrite app_nil_r. reflexivity.
  - change (intercalate sep (x :: y :: t)) with (x ++ sep ++ intercalate sep (y :: t)).
    rewrite IH. unfold sep_parts. cbn [flat_map]. rewrite <- !app_assoc. reflexivity.
Qed.

Lemma join_rest_spec sep rest : forall acc, join_rest sep rest acc = acc ++ sep_parts sep rest.
Proof.
  induction rest as [|p t IH]; intros acc; cbn [join_rest].
  - cbn. rewrite app_nil_r. reflexivity.
  - rewrite IH. unfold sep_parts. cbn [flat_map]. rewrite <- !app_assoc. reflexivity.
Qed.

Theorem join_is_intercalate_proof sep parts : join sep parts = intercalate sep parts.
Proof.
  destruct parts as [|p rest]; [reflexivity|].
  rewrite intercalate_cons. unfold join. destruct rest as [|q rest].
  - cbn. rewrite app_nil_r. reflexivity.
  - apply join_rest_spec.
Qed.

Lemma join_iter_go_false sep items : forall acc,
  join_iter_go sep items false acc = acc ++ sep_parts sep items.
Proof.
  induction items as [|p t IH]; intros acc; cbn [join_iter_go].
  - cbn. rewrite app_nil_r. reflexivity.
  - rewrite IH. unfold sep_parts. cbn [flat_map]. rewrite <- !app_assoc. reflexivity.
Qed.

Theorem join_iter_is_intercalate_proof sep items : join_iter sep items = intercalate sep items.
Proof.
  destruct items as [|p t]; [reflexivity|].
  rewrite intercalate_cons. unfold join_iter. cbn [join_iter_go].
  rewrite join_iter_go_false. reflexivity.
Qed.

Lemma nlen_sep_parts sep t : nlen (sep_parts sep t) = sum_len t + nlen sep * nlen t.
Proof.
  induction t as [|p t IH]; cbn [sep_parts flat_map sum_len nlen].
  - lia.
  - fold (sep_parts sep t). rewrite !nlen_app, IH. lia.
Qed.

(* the capacity reserved before appending is exactly the final length *)
Theorem join_length_proof sep parts : parts <> [] ->
  nlen (join sep parts) = join_capacity sep parts.
Proof.
  intros Hne. rewrite join_is_intercalate_proof. destruct parts as [|p t]; [congruence|].
  rewrite intercalate_cons, nlen_app, nlen_sep_parts. unfold join_capacity. cbn [sum_len nlen]. lia.
Qed.

(* ================= split ================= *)
Definition no_byte (d : N) (x : bytes) : Prop := contains_byte d x = false.

Lemma no_byte_cons d c x : no_byte d (c :: x) <-> (c =? d) = false /\ no_byte d x.
Proof. unfold no_byte, contains_byte. cbn [existsb]. rewrite orb_false_iff. tauto. Qed.

Lemma split_go_app d x : forall rest cur, no_byte d x ->
  split_go d (x ++ rest) cur = split_go d rest (rev x ++ cur).
Proof.
  induction x as [|c x IH]; intros rest cur Hx; [reflexivity|].
  apply no_byte_cons in Hx. destruct Hx as [Hc Hx].
  cbn [app split_go rev]. rewrite Hc. rewrite IH by assumption. rewrite <- app_assoc. reflexivity.
Qed.

Lemma split_go_intercalate d xs : forall x cur, Forall (no_byte d) (x :: xs) ->
  split_go d (intercalate [d] (x :: xs)) cur = (rev cur ++ x) :: xs.
Proof.
  induction xs as [|y ys IH]; intros x cur Hall.
  - cbn [intercalate]. rewrite <- (app_nil_r x) at 1. rewrite split_go_app by (inversion Hall; assumption).
    cbn [split_go]. rewrite rev_app_distr, rev_involutive. reflexivity.
  - change (intercalate [d] (x :: y :: ys)) with (x ++ [d] ++ intercalate [d] (y :: ys)).
    inversion Hall as [|? ? Hx Hrest]; subst.
    rewrite split_go_app by assumption. cbn [app split_go]. rewrite N.eqb_refl.
    rewrite IH by assumption. rewrite rev_app_distr, rev_involutive. reflexivity.
Qed.

(* split sep (join sep xs) = xs when no element contains the separator byte (xs non-empty: join [] = "" = join [""]) *)
Theorem split_join_proof d xs : xs <> [] -> Forall (no_byte d) xs ->
  split_opt d (join [d] xs) = xs.
Proof.
  intros Hne Hall. rewrite join_is_intercalate_proof. destruct xs as [|x xs]; [congruence|].
  unfold split_opt. rewrite split_go_intercalate by assumption. reflexivity.
Qed.

Lemma split_go_nonempty d s cur : split_go d s cur <> [].
Proof.
  revert cur. induction s as [|c t IH]; intros cur; cbn [split_go]; [discriminate|].
  destruct (c =? d); [discriminate|apply IH].
Qed.

(* splitting never loses or invents bytes: re-joining the fields gives the text back, for every text *)
Lemma split_go_rejoin d s : forall cur,
  intercalate [d] (split_go d s cur) = rev cur ++ s.
Proof.
  induction s as [|c t IH]; intros cur; cbn [split_go].
  - cbn. rewrite app_nil_r. reflexivity.
  - destruct (N.eqb_spec c d) as [->|Hne].
    + destruct (split_go d t []) as [|f fs] eqn:E.
      * exfalso. exact (split_go_nonempty d t [] E).
      * change (intercalate [d] (rev cur :: f :: fs)) with (rev cur ++ [d] ++ intercalate [d] (f :: fs)).
        rewrite <- E, IH. reflexivity.
    + rewrite IH. cbn [rev]. rewrite <- app_assoc. reflexivity.
Qed.

Theorem join_split_proof d s : join [d] (split_opt d s) = s.
Proof. rewrite join_is_intercalate_proof. unfold split_opt. rewrite split_go_rejoin. reflexivity. Qed.

Lemma existsb_rev' {A} (f : A -> bool) l : existsb f (rev l) = existsb f l.
Proof.
  induction l as [|x l IH]; [reflexivity|]. cbn [rev existsb].
  rewrite existsb_app, IH. cbn [existsb]. rewrite orb_false_r. apply orb_comm.
Qed.

Lemma split_go_no_byte d s : forall cur, no_byte d cur -> Forall (no_byte d) (split_go d s cur).
Proof.
  induction s as [|c t IH]; intros cur Hcur; cbn [split_go].
  - constructor; [|constructor]. unfold no_byte, contains_byte in *.
    rewrite existsb_rev'. exact Hcur.
  - destruct (c =? d) eqn:E.
    + constructor.
      * unfold no_byte, contains_byte in *. rewrite existsb_rev'. exact Hcur.
      * apply IH. reflexivity.
    + apply IH. apply no_byte_cons. split; assumption.
Qed.

Theorem split_fields_clean_proof d s : Forall (no_byte d) (split_opt d s).
Proof. apply split_go_no_byte. reflexivity. Qed.

(* ----- FastStr::split ----- *)
Lemma find_byte_some d s : forall pos, find_byte d s = Some pos ->
  s = firstn pos s ++ d :: skipn (S pos) s /\ no_byte d (firstn pos s) /\ (pos < length s)%nat.
Proof.
  induction s as [|c t IH]; intros pos H; cbn [find_byte] in H; [discriminate|].
  destruct (N.eqb_spec c d) as [->|Hne].
  - injection H as <-. cbn. repeat split; lia.
  - destruct (find_byte d t) as [p|] eqn:E; cbn in H; [|discriminate].
    injection H as <-. destruct (IH p eq_refl) as (H1 & H2 & H3).
    cbn [firstn skipn length app]. repeat split.
    + f_equal. exact H1.
    + apply no_byte_cons. split; [apply N.eqb_neq; assumption|assumption].
    + lia.
Qed.

Lemma find_byte_none d s : find_byte d s = None -> no_byte d s.
Proof.
  induction s as [|c t IH]; intros H; [reflexivity|]. cbn [find_byte] in H.
  destruct (c =? d) eqn:E; [discriminate|].
  destruct (find_byte d t); [discriminate|]. apply no_byte_cons. split; [assumption|apply IH; reflexivity].
Qed.

Lemma drop_last_empty_cons a L : L <> [] -> drop_last_empty (a :: L) = a :: drop_last_empty L.
Proof.
  intros Hne. unfold drop_last_empty. cbn [rev].
  destruct (rev L) as [|h r] eqn:E.
  - apply (f_equal (@rev _)) in E. rewrite rev_involutive in E. cbn in E. congruence.
  - cbn [app]. destruct h as [|h0 h']; [|reflexivity].
    rewrite rev_app_distr. reflexivity.
Qed.

Lemma fs_split_go_spec d : forall fuel s, (length s < fuel)%nat ->
  fs_split_go fuel d s = drop_last_empty (split_go d s []).
Proof.
  induction fuel as [|f IH]; intros s Hlen; [lia|].
  cbn [fs_split_go]. destruct s as [|c t] eqn:Es; [reflexivity|].
  cbn [null]. rewrite <- Es in *.
  destruct (find_byte d s) as [pos|] eqn:Ef.
  - destruct (find_byte_some d s pos Ef) as (H1 & H2 & H3).
    rewrite H1 at 3. rewrite split_go_app by assumption. cbn [split_go]. rewrite N.eqb_refl.
    rewrite app_nil_r, rev_involutive.
    rewrite drop_last_empty_cons by apply split_go_nonempty.
    f_equal. apply IH. rewrite skipn_length. lia.
  - apply find_byte_none in Ef.
    rewrite <- (app_nil_r s) at 2. rewrite split_go_app by assumption. cbn [split_go].
    rewrite app_nil_r, rev_involutive. unfold drop_last_empty. cbn [rev app].
    rewrite Es. reflexivity.
Qed.

(* FastStr::split = the plain split without one trailing empty field ("" -> no field at all) *)
Theorem fs_split_spec_proof d s : fs_split d s = drop_last_empty (split_opt d s).
Proof. unfold fs_split, split_opt. apply fs_split_go_spec. lia. Qed.

Theorem fs_split_join_proof d xs : xs <> [] -> Forall (no_byte d) xs ->
  fs_split d (join [d] xs) = drop_last_empty xs.
Proof. intros H1 H2. rewrite fs_split_spec_proof, split_join_proof by assumption. reflexivity. Qed.

Example split_join_nontrivial :
  split_opt 44 (join [44] [[97]; []; [98; 99]; []]) = [[97]; []; [98; 99]; []] /\
  fs_split 44 (join [44] [[97]; []; [98; 99]; []]) = [[97]; []; [98; 99]] /\
  split_opt 44 (join [44] [[]]) = [[]] /\ fs_split 44 (join [44] [[]]) = [] /\
  join [44; 32] [[97]; [98]] = [97; 44; 32; 98] /\ join_capacity [44; 32] [[97]; [98]] = 4.
Proof. repeat split; vm_compute; reflexivity. Qed.

(* ================= ASCII case maps ================= *)
Theorem case_maps_proof :
  (forall c, is_upper_letter c = true -> upper (lower c) = c /\ lower c <> c) /\
  (forall c, is_lower_letter c = true -> lower (upper c) = c /\ upper c <> c) /\
  (forall c, is_upper_letter c = false -> lower c = c) /\
  (forall c, is_lower_letter c = false -> upper c = c) /\
  (forall c, lower (lower c) = lower c /\ upper (upper c) = upper c /\
             upper (lower c) = upper c /\ lower (upper c) = lower c) /\
  (forall c, c < 256 -> lower c < 256 /\ upper c < 256).
Proof.
  unfold is_upper_letter, is_lower_letter, lower, upper.
  repeat match goal with |- _ /\ _ => split end; intros c; intros;
    repeat match goal with
    | H : (_ && _) = true |- _ => apply andb_true_iff in H; destruct H
    | H : (_ <=? _) = true |- _ => apply N.leb_le in H
    | H : (_ && _) = false |- _ => apply andb_false_iff in H
    | H : _ \/ _ |- _ => destruct H
    | H : (_ <=? _) = false |- _ => apply N.leb_gt in H
    end;
    repeat match goal with
    | |- context [?a <=? ?b] => destruct (N.leb_spec a b); cbn [andb]
    end; cbn [andb] in *; repeat split; lia.
Qed.

Lemma bextr8_pack b0 b1 b2 b3 b4 b5 b6 b7 :
  b0 < 256 -> b1 < 256 -> b2 < 256 -> b3 < 256 -> b4 < 256 -> b5 < 256 -> b6 < 256 -> b7 < 256 ->
  unpack8 (pack_le [b0; b1; b2; b3; b4; b5; b6; b7]) 8 0 = [b0; b1; b2; b3; b4; b5; b6; b7].
Proof.
  intros. cbn [unpack8 pack_le]. unfold bextr8.
  change (8 * 0) with 0. change (8 * (0 + 1)) with 8. change (8 * (0 + 1 + 1)) with 16.
  change (8 * (0 + 1 + 1 + 1)) with 24. change (8 * (0 + 1 + 1 + 1 + 1)) with 32.
  change (8 * (0 + 1 + 1 + 1 + 1 + 1)) with 40. change (8 * (0 + 1 + 1 + 1 + 1 + 1 + 1)) with 48.
  change (8 * (0 + 1 + 1 + 1 + 1 + 1 + 1 + 1)) with 56.
  change (2 ^ 0) with 1. change (2 ^ 8) with 256. change (2 ^ 16) with 65536.
  change (2 ^ 24) with 16777216. change (2 ^ 32) with 4294967296. change (2 ^ 40) with 1099511627776.
  change (2 ^ 48) with 281474976710656. change (2 ^ 56) with 72057594037927936.
  repeat f_equal; lia.
Qed.

Lemma lor_shift_add acc v s : acc < 2 ^ s -> N.lor acc (N.shiftl v s) = acc + v * 2 ^ s.
Proof. intros H. rewrite N.shiftl_mul_pow2. apply lor_disjoint_add. exact H. Qed.

Lemma conv_chunk_pack f b0 b1 b2 b3 b4 b5 b6 b7 :
  (forall c, c < 256 -> f c < 256) ->
  b0 < 256 -> b1 < 256 -> b2 < 256 -> b3 < 256 -> b4 < 256 -> b5 < 256 -> b6 < 256 -> b7 < 256 ->
  conv_chunk f (pack_le [b0; b1; b2; b3; b4; b5; b6; b7]) =
  pack_le [f b0; f b1; f b2; f b3; f b4; f b5; f b6; f b7].
Proof.
  intros Hf H0 H1 H2 H3 H4 H5 H6 H7.
  pose proof (bextr8_pack b0 b1 b2 b3 b4 b5 b6 b7 H0 H1 H2 H3 H4 H5 H6 H7) as Hu.
  cbn [unpack8 pack_le] in Hu. injection Hu as E0 E1 E2 E3 E4 E5 E6 E7.
  unfold conv_chunk. cbn [chunk_conv pack_le]. rewrite E0, E1, E2, E3, E4, E5, E6, E7.
  pose proof (Hf b0 H0). pose proof (Hf b1 H1). pose proof (Hf b2 H2). pose proof (Hf b3 H3).
  pose proof (Hf b4 H4). pose proof (Hf b5 H5). pose proof (Hf b6 H6). pose proof (Hf b7 H7).
  change (8 * 0) with 0. change (8 * (0 + 1)) with 8. change (8 * (0 + 1 + 1)) with 16.
  change (8 * (0 + 1 + 1 + 1)) with 24. change (8 * (0 + 1 + 1 + 1 + 1)) with 32.
  change (8 * (0 + 1 + 1 + 1 + 1 + 1)) with 40. change (8 * (0 + 1 + 1 + 1 + 1 + 1 + 1)) with 48.
  change (8 * (0 + 1 + 1 + 1 + 1 + 1 + 1 + 1)) with 56.
  rewrite N.shiftl_0_r, N.lor_0_l.
  rewrite (lor_shift_add (f b0) (f b1) 8) by (change (2 ^ 8) with 256; lia).
  rewrite (lor_shift_add _ (f b2) 16) by (change (2 ^ 8) with 256; change (2 ^ 16) with 65536; lia).
  rewrite (lor_shift_add _ (f b3) 24) by (change (2 ^ 8) with 256; change (2 ^ 16) with 65536; change (2 ^ 24) with 16777216; lia).
  rewrite (lor_shift_add _ (f b4) 32) by (change (2 ^ 8) with 256; change (2 ^ 16) with 65536; change (2 ^ 24) with 16777216; change (2 ^ 32) with 4294967296; lia).
  rewrite (lor_shift_add _ (f b5) 40) by (change (2 ^ 8) with 256; change (2 ^ 16) with 65536; change (2 ^ 24) with 16777216; change (2 ^ 32) with 4294967296; change (2 ^ 40) with 1099511627776; lia).
  rewrite (lor_shift_add _ (f b6) 48) by (change (2 ^ 8) with 256; change (2 ^ 16) with 65536; change (2 ^ 24) with 16777216; change (2 ^ 32) with 4294967296; change (2 ^ 40) with 1099511627776; change (2 ^ 48) with 281474976710656; lia).
  rewrite (lor_shift_add _ (f b7) 56) by (change (2 ^ 8) with 256; change (2 ^ 16) with 65536; change (2 ^ 24) with 16777216; change (2 ^ 32) with 4294967296; change (2 ^ 40) with 1099511627776; change (2 ^ 48) with 281474976710656; change (2 ^ 56) with 72057594037927936; lia).
  cbn [pack_le].
  change (2 ^ 8) with 256. change (2 ^ 16) with 65536.
  change (2 ^ 24) with 16777216. change (2 ^ 32) with 4294967296. change (2 ^ 40) with 1099511627776.
  change (2 ^ 48) with 281474976710656. change (2 ^ 56) with 72057594037927936.
  lia.
Qed.

Lemma case_chunks_map f : (forall c, c < 256 -> f c < 256) ->
  forall n s, (length s <= n)%nat -> bytes_ok s -> case_chunks f s = map f s.
Proof.
  intros Hf. induction n as [|n IH]; intros s Hlen Hok.
  - destruct s; [reflexivity|cbn in Hlen; lia].
  - destruct s as [|b0 [|b1 [|b2 [|b3 [|b4 [|b5 [|b6 [|b7 rest]]]]]]]]; try reflexivity.
    cbn [case_chunks].
    unfold bytes_ok in *.
    repeat match goal with H : Forall _ (_ :: _) |- _ => inversion H; subst; clear H end.
    unfold is_byte in *.
    rewrite conv_chunk_pack by assumption.
    rewrite bextr8_pack by (apply Hf; assumption).
    cbn [map app]. repeat f_equal. apply IH; [cbn [length] in Hlen; lia|assumption].
Qed.

(* the chunked u64 path computes the byte-wise map: byte-length preserving, identity outside letters *)
Theorem to_lower_bmi2_is_map_proof s : bytes_ok s -> to_lower_bmi2 s = map lower s.
Proof.
  intros Hok. unfold to_lower_bmi2. destruct (8 <=? nlen s); [|reflexivity].
  apply (case_chunks_map lower) with (n := length s); [|lia|assumption].
  intros c Hc. apply case_maps_proof. exact Hc.
Qed.

Theorem to_upper_bmi2_is_map_proof s : bytes_ok s -> to_upper_bmi2 s = map upper s.
Proof.
  intros Hok. unfold to_upper_bmi2. destruct (8 <=? nlen s); [|reflexivity].
  apply (case_chunks_map upper) with (n := length s); [|lia|assumption].
  intros c Hc. apply case_maps_proof. exact Hc.
Qed.

Theorem case_length_proof s : bytes_ok s ->
  nlen (to_lower_bmi2 s) = nlen s /\ nlen (to_upper_bmi2 s) = nlen s.
Proof.
  intros Hok. rewrite to_lower_bmi2_is_map_proof, to_upper_bmi2_is_map_proof by assumption.
  rewrite !nlen_length, !map_length. split; reflexivity.
Qed.

Example case_nontrivial :
  to_lower_bmi2 [72; 101; 76; 76; 79; 32; 87; 111; 114; 108; 100; 33; 195; 137] =
    [104; 101; 108; 108; 111; 32; 119; 111; 114; 108; 100; 33; 195; 137] /\
  to_upper_bmi2 [72; 101; 76; 76; 79; 32; 87; 111; 114; 108; 100; 33; 195; 137] =
    [72; 69; 76; 76; 79; 32; 87; 79; 82; 76; 68; 33; 195; 137].
Proof. split; vm_compute; reflexivity. Qed.
