(* C20 correspondence: the case type the harness emits and the checker that runs the model on a case
   and compares with what the implementation returned.  Definitions only. *)
From ZV.Common Require Import Base Run.
From ZV.C20 Require Import Model ModelStr.
Open Scope N_scope.

Fixpoint eqb_lln (a b : list (list N)) : bool :=
  match a, b with
  | [], [] => true
  | x :: a', y :: b' => eqb_ln x y && eqb_lln a' b'
  | _, _ => false
  end.
Definition eqb_obs (a b : bool * option (list N)) : bool :=
  Bool.eqb (fst a) (fst b) &&
  match snd a, snd b with
  | None, None => true
  | Some x, Some y => eqb_ln x y
  | _, _ => false
  end.
Fixpoint eqb_lobs (a b : list (bool * option (list N))) : bool :=
  match a, b with
  | [], [] => true
  | x :: a', y :: b' => eqb_obs x y && eqb_lobs a' b'
  | _, _ => false
  end.

Inductive case :=
| CCmp (op : N) (a b : list N) (expect : Z)
| CJoin (sep : list N) (parts : list (list N)) (out : list N)
| CJoinIter (sep : list N) (parts : list (list N)) (out : list N)
| CSplit (kind : N) (d : N) (s : list N) (out : list (list N))
| CWords (text : list N) (out : list (list N)) (count : N)
| CLines (text : list N) (out : list (list N))
| CCase (up : N) (s : list N) (out : list N)
| CLex (strings : list (list N)) (ops : list (N * list N)) (obs : list (bool * option (list N))).

Definition case_ok (c : case) : bool :=
  match c with
  | CCmp op a b expect => Z.eqb (run_case op a b) expect
  | CJoin sep parts out => eqb_ln (join sep parts) out
  | CJoinIter sep parts out => eqb_ln (join_iter sep parts) out
  | CSplit kind d s out =>
      match kind with
      | 1 => eqb_lln (fs_split d s) out        (* FastStr::split *)
      | _ => eqb_lln (split_opt d s) out       (* LineSplitter, optimized (0) and simple (2) strategies *)
      end
  | CWords text out count => eqb_lln (words text) out && (word_count text =? count)
  | CLines text out => eqb_lln (lines text) out
  | CCase up s out => eqb_ln (if up =? 0 then to_lower_bmi2 s else to_upper_bmi2 s) out
  | CLex strings ops obs => eqb_lobs (li_run strings (li_new strings) ops) obs
  end.
