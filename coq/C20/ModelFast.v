(* C20 mechanism model of FastStr (src/string/fast_str.rs) as written: slicing (substring / substring_from /
   prefix / suffix with their saturating / min arithmetic and the slice-index panics), starts_with / ends_with,
   find_byte / find_byte_optimized, find (early returns, single-byte dispatch, the `0..=len-nlen` window loop),
   common_prefix_len, compare, and the three hash paths that hash_fast dispatches to (hash_avx2: 32-byte chunks as
   four little-endian u64 lanes, then 8-byte chunks of the remainder; hash_sse2: 16-byte chunks as two lanes;
   hash_fallback: 8-byte chunks) with hash_remainder (early return on an empty remainder, byte loop, final mixing).
   Strings are byte lists.  Definitions only. *)
From ZV.Common Require Import Base Run.
From ZV.C20 Require Import Model ModelStr.
Open Scope N_scope.

(* ---------------- slicing ---------------- *)
Definition USIZE_MAX : N := 18446744073709551615.
(* &data[a..b]: panics (None) when a > b or b > len *)
Definition slice_n (s : bytes) (a b : N) : option bytes :=
  if (a <=? b) && (b <=? nlen s) then Some (firstn (N.to_nat (b - a)) (skipn (N.to_nat a) s)) else None.
(* substring: end = start.saturating_add(len).min(self.data.len()); &data[start..end] *)
Definition fs_substring (s : bytes) (start len : N) : option bytes :=
  slice_n s start (N.min (N.min (start + len) USIZE_MAX) (nlen s)).
(* substring_from: start = start.min(len); &data[start..] *)
Definition fs_substring_from (s : bytes) (start : N) : option bytes :=
  slice_n s (N.min start (nlen s)) (nlen s).
(* prefix: len = len.min(data.len()); &data[..len] *)
Definition fs_prefix (s : bytes) (len : N) : option bytes := slice_n s 0 (N.min len (nlen s)).
(* suffix: len = len.min(data.len()); start = data.len() - len; &data[start..] *)
Definition fs_suffix (s : bytes) (len : N) : option bytes :=
  slice_n s (nlen s - N.min len (nlen s)) (nlen s).
Definition fs_get_byte (s : bytes) (i : N) : option N :=
  if i <? nlen s then nth_error s (N.to_nat i) else None.

(* ---------------- prefix / suffix tests (slice::starts_with / ends_with) ---------------- *)
Fixpoint is_prefix (p s : bytes) : bool :=
  match p, s with
  | [], _ => true
  | x :: p', y :: s' => (x =? y) && is_prefix p' s'
  | _ :: _, [] => false
  end.
Definition fs_starts_with (s p : bytes) : bool := is_prefix p s.
(* n <= len && s[len-n..] == p *)
Definition fs_ends_with (s p : bytes) : bool :=
  (length p <=? length s)%nat && eqb_ln (skipn (length s - length p) s) p.

(* ---------------- find ---------------- *)
(* for i in 0..=(len - nlen) { if data[i..i+nlen] == needle { return Some(i) } } None ;
   h is data[i..], cnt the number of window positions left *)
Fixpoint find_go (cnt : nat) (n h : bytes) (i : nat) : option nat :=
  match cnt with
  | O => None
  | S c =>
      if eqb_ln (firstn (length n) h) n then Some i
      else match h with [] => None | _ :: t => find_go c n t (S i) end
  end.
Definition fs_find (h n : bytes) : option nat :=
  if null n then Some O
  else if (length h <? length n)%nat then None
  else match n with
       | [c] => find_byte c h                       (* find_byte_optimized: iter().position *)
       | _ => find_go (S (length h - length n)) n h O
       end.

(* ---------------- common_prefix_len ---------------- *)
(* for i in 0..min_len { if a[i] != b[i] { return i } } min_len *)
Fixpoint cpl_go (a b : bytes) (i : nat) : nat :=
  match a, b with
  | x :: a', y :: b' => if x =? y then cpl_go a' b' (S i) else i
  | _, _ => i
  end.
Definition fs_common_prefix_len (a b : bytes) : nat := cpl_go a b O.

(* compare / Ord / PartialOrd: self.data.cmp(other.data) = Model.lex *)
Definition fs_compare (a b : bytes) : comparison := lex a b.
Definition fs_eq (a b : bytes) : bool := eqb_ln a b.

(* ---------------- hashing ---------------- *)
Definition K1 : N := 11400714819323198485.   (* 0x9e3779b97f4a7c15 *)
Definition K2 : N := 13787848793156543929.   (* 0xbf58476d1ce4e5b9 *)
Definition K3 : N := 10723151780598845931.   (* 0x94d049bb133111eb *)
Definition F1 : N := 18397679294719823053.   (* 0xff51afd7ed558ccd *)
Definition F2 : N := 14181476777654086739.   (* 0xc4ceb9fe1a85ec53 *)
Definition xsr (h s : N) : N := N.lxor h (N.shiftr h s).
(* h += v; h *= K1; h ^= h >> 30; h *= K2; h ^= h >> 27; h *= K3; h ^= h >> 31 (all wrapping) *)
Definition mix64 (h v : N) : N :=
  let h := w64 (h + v) in
  let h := xsr (w64 (h * K1)) 30 in
  let h := xsr (w64 (h * K2)) 27 in
  xsr (w64 (h * K3)) 31.
(* h += byte; h *= K1; h ^= h >> 17 *)
Definition mix_byte (h b : N) : N := xsr (w64 (w64 (h + b) * K1)) 17.
Definition final_mix (h : N) : N :=
  let h := xsr h 33 in
  let h := xsr (w64 (h * F1)) 33 in
  xsr (w64 (h * F2)) 33.

(* slice::chunks_exact(k): the full chunks and the remainder *)
Fixpoint take_chunk (k : nat) (s : bytes) : option (bytes * bytes) :=
  match k with
  | O => Some ([], s)
  | S k' => match s with
            | [] => None
            | x :: t => match take_chunk k' t with Some (c, r) => Some (x :: c, r) | None => None end
            end
  end.
Fixpoint chunks_go (fuel k : nat) (s : bytes) : list bytes * bytes :=
  match fuel with
  | O => ([], s)
  | S f => match take_chunk k s with
           | Some (c, r) => let '(cs, rr) := chunks_go f k r in (c :: cs, rr)
           | None => ([], s)
           end
  end.
Definition chunks_exact (k : nat) (s : bytes) : list bytes * bytes := chunks_go (length s) k s.

(* for chunk in chunks_exact(8) { word = u64::from_le_bytes(chunk); mix } *)
Definition mix_words8 (cs : list bytes) (h : N) : N := fold_left (fun h c => mix64 h (pack_le c)) cs h.
(* the k u64 lanes of one SIMD load + store of 8k bytes (little-endian machine) *)
Fixpoint lanes (k : nat) (c : bytes) : list N :=
  match k with O => [] | S k' => pack_le (firstn 8 c) :: lanes k' (skipn 8 c) end.
Definition mix_lanes (k : nat) (cs : list bytes) (h : N) : N :=
  fold_left (fun h c => fold_left mix64 (lanes k c) h) cs h.

(* hash_remainder *)
Definition hash_remainder (rem : bytes) (h : N) : N :=
  if null rem then h else
  let '(cs, fin) := chunks_exact 8 rem in
  final_mix (fold_left mix_byte fin (mix_words8 cs h)).

Definition hash_init (s : bytes) : N := w64 (2134173 + w64 (nlen s * 31)).
Definition hash_fallback (s : bytes) : N :=
  let '(cs, rem) := chunks_exact 8 s in
  hash_remainder rem (mix_words8 cs (hash_init s)).
Definition hash_simd (k : nat) (s : bytes) : N :=
  let '(big, rem1) := chunks_exact (8 * k) s in
  let h := mix_lanes k big (hash_init s) in
  let '(cs, fin) := chunks_exact 8 rem1 in
  hash_remainder fin (mix_words8 cs h).
Definition hash_avx2 (s : bytes) : N := hash_simd 4 s.
Definition hash_sse2 (s : bytes) : N := hash_simd 2 s.
(* hash_fast on an AVX2 machine without the avx512 feature *)
Definition hash_fast (s : bytes) : N := hash_avx2 s.
