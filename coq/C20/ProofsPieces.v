(* C20: cutting a text at the positions find_word_boundaries returns gives pieces that concatenate to the text, are
   non-empty, each of one class (word bytes / other bytes), with neighbouring pieces of different classes - i.e. every
   piece is a maximal run. *)
From ZV.Common Require Import Base Run.
From ZV.C20 Require Import Model ModelStr ModelText.
Open Scope N_scope.

(* the pieces between consecutive boundaries *)
Fixpoint cut (s : bytes) (bs : list nat) : list bytes :=
  match bs with
  | a :: ((b :: _) as t) => firstn (b - a) (skipn a s) :: cut s t
  | _ => []
  end.
(* the same pieces by direct recursion: cur is the current piece reversed, prev its last byte *)
Fixpoint pieces_go (prev : N) (cur : bytes) (rest : bytes) : list bytes :=
  match rest with
  | [] => [rev cur]
  | c :: t => if xorb (is_word_char prev) (is_word_char c)
              then rev cur :: pieces_go c [c] t else pieces_go c (c :: cur) t
  end.
Definition cls (p : bytes) : bool := is_word_char (hd 0 p).
Definition good (p : bytes) : Prop := p <> [] /\ forall x, In x p -> is_word_char x = cls p.
Fixpoint alt (ps : list bytes) : Prop :=
  match ps with
  | p :: ((q :: _) as t) => cls p <> cls q /\ alt t
  | _ => True
  end.

Lemma cut_pieces (s : bytes) : forall rest prev cur pre i,
  s = pre ++ rev cur ++ rest -> i = (length pre + length cur)%nat ->
  cut s (length pre :: fwb_go prev rest i ++ [length s]) = pieces_go prev cur rest.
Proof.
  induction rest as [|c t IH]; intros prev cur pre i Hs Hi; cbn [fwb_go pieces_go app].
  - cbn [cut]. f_equal. rewrite Hs, app_nil_r. rewrite skipn_app, skipn_all, Nat.sub_diag. cbn [app skipn].
    rewrite app_length, rev_length. replace (length pre + length cur - length pre)%nat with (length (rev cur)) by (rewrite rev_length; lia).
    apply firstn_all.
  - destruct (xorb (is_word_char prev) (is_word_char c)).
    + cbn [app cut]. f_equal.
      * rewrite Hs. rewrite skipn_app, skipn_all, Nat.sub_diag. cbn [app skipn].
        replace (i - length pre)%nat with (length (rev cur)) by (rewrite rev_length; lia).
        rewrite firstn_app, Nat.sub_diag, firstn_all. cbn [firstn]. apply app_nil_r.
      * replace i with (length (pre ++ rev cur)) by (rewrite app_length, rev_length; lia).
        apply IH.
        -- rewrite Hs. cbn [rev app]. rewrite <- !app_assoc. reflexivity.
        -- rewrite !app_length, rev_length. cbn [length]. lia.
    + cbn [app]. apply IH.
      * rewrite Hs. cbn [rev]. rewrite <- !app_assoc. reflexivity.
      * cbn [length]. lia.
Qed.

Lemma rev_hd_class cur prev : cur <> [] -> (forall x, In x cur -> is_word_char x = is_word_char prev) ->
  good (rev cur) /\ cls (rev cur) = is_word_char prev.
Proof.
  intros Hn Hc. assert (Hr : rev cur <> []).
  { intros E. apply Hn. rewrite <- (rev_involutive cur), E. reflexivity. }
  assert (Hcls : cls (rev cur) = is_word_char prev).
  { unfold cls. destruct (rev cur) as [|x r] eqn:E; [congruence|]. cbn [hd]. apply Hc. apply in_rev. rewrite E. left. reflexivity. }
  split; [|exact Hcls]. split; [exact Hr|]. intros x Hx. rewrite Hcls. apply Hc. apply in_rev. exact Hx.
Qed.

Lemma pieces_go_spec : forall rest prev cur, cur <> [] ->
  (forall x, In x cur -> is_word_char x = is_word_char prev) ->
  let ps := pieces_go prev cur rest in
  concat ps = rev cur ++ rest /\ Forall good ps /\ alt ps /\
  (exists p ps', ps = p :: ps' /\ cls p = is_word_char prev).
Proof.
  induction rest as [|c t IH]; intros prev cur Hn Hc; cbn [pieces_go].
  - destruct (rev_hd_class cur prev Hn Hc) as [G C]. cbn [concat alt]. rewrite !app_nil_r.
    repeat split; [constructor; [exact G|constructor]|]. exists (rev cur), []. split; [reflexivity|exact C].
  - destruct (xorb (is_word_char prev) (is_word_char c)) eqn:X.
    + destruct (rev_hd_class cur prev Hn Hc) as [G C].
      destruct (IH c [c] ltac:(discriminate) ltac:(intros x [<-|[]]; reflexivity)) as (H1 & H2 & H3 & p & ps' & Hp & Hcl).
      cbn [concat]. rewrite H1. cbn [rev app]. repeat split.
      * constructor; assumption.
      * rewrite Hp in *. cbn [alt]. split; [|exact H3]. rewrite C, Hcl. intros E. rewrite E in X.
        destruct (is_word_char c); discriminate.
      * exists (rev cur), (pieces_go c [c] t). split; [reflexivity|exact C].
    + assert (Hsame : is_word_char c = is_word_char prev).
      { destruct (is_word_char prev), (is_word_char c); try reflexivity; discriminate. }
      destruct (IH c (c :: cur) ltac:(discriminate)
                  ltac:(intros x [<-|Hx]; [reflexivity|rewrite Hsame; apply Hc; exact Hx]))
        as (H1 & H2 & H3 & p & ps' & Hp & Hcl).
      repeat split; [rewrite H1; cbn [rev]; rewrite <- app_assoc; reflexivity|exact H2|exact H3|].
      exists p, ps'. split; [exact Hp|rewrite Hcl; exact Hsame].
Qed.

Theorem boundaries_cut_proof s : s <> [] ->
  let ps := cut s (find_word_boundaries s) in
  concat ps = s /\ Forall good ps /\ alt ps.
Proof.
  destruct s as [|c t]; [congruence|]. intros _. unfold find_word_boundaries.
  change (O :: fwb_go c t 1 ++ [length (c :: t)]) with (length (@nil N) :: fwb_go c t 1 ++ [length (c :: t)]).
  rewrite (cut_pieces (c :: t) t c [c] [] 1%nat) by reflexivity.
  destruct (pieces_go_spec t c [c] ltac:(discriminate) ltac:(intros x [<-|[]]; reflexivity)) as (H1 & H2 & H3 & _).
  repeat split; assumption.
Qed.
