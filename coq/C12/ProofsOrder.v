(* Lexicographic order facts, uniqueness of the suffix array, the sort-based constructions,
   and the certificate checker. *)
From ZV.Common Require Import Base.
From Coq Require Import Sorting.Permutation Sorting.Sorted.
From ZV.C12 Require Import Spec Model.
Open Scope nat_scope.

Lemma lex_cmp_refl a : lex_cmp a a = Eq.
Proof. induction a as [|x a IH]; cbn [lex_cmp]; [reflexivity|]. rewrite N.compare_refl. exact IH. Qed.

Lemma lex_cmp_eq a : forall b, lex_cmp a b = Eq -> a = b.
Proof.
  induction a as [|x a IH]; intros [|y b] H; cbn [lex_cmp] in H; try discriminate; [reflexivity|].
  destruct (N.compare_spec x y) as [->|Hl|Hl]; try discriminate.
  f_equal. apply IH. exact H.
Qed.

Lemma lex_cmp_antisym a : forall b, lex_cmp b a = CompOpp (lex_cmp a b).
Proof.
  induction a as [|x a IH]; intros [|y b]; cbn [lex_cmp CompOpp]; try reflexivity.
  rewrite (N.compare_antisym x y).
  destruct (N.compare x y); cbn [CompOpp]; [apply IH|reflexivity|reflexivity].
Qed.

Lemma lex_lt_irrefl a : ~ lex_lt a a.
Proof. unfold lex_lt. rewrite lex_cmp_refl. discriminate. Qed.

Lemma lex_lt_asym a b : lex_lt a b -> lex_lt b a -> False.
Proof. unfold lex_lt. intros H1 H2. rewrite lex_cmp_antisym, H1 in H2. discriminate. Qed.

Lemma lex_lt_trans a : forall b c, lex_lt a b -> lex_lt b c -> lex_lt a c.
Proof.
  unfold lex_lt.
  induction a as [|x a IH]; intros [|y b] [|z c] H1 H2; cbn [lex_cmp] in *; try discriminate; try reflexivity.
  destruct (N.compare_spec x y) as [->|Hxy|Hxy]; try discriminate.
  - destruct (N.compare_spec y z) as [->|Hyz|Hyz]; try discriminate; [|reflexivity].
    eapply IH; eassumption.
  - destruct (N.compare_spec y z) as [->|Hyz|Hyz]; try discriminate.
    + destruct (N.compare_spec x z); try reflexivity; exfalso; lia.
    + destruct (N.compare_spec x z); try reflexivity; exfalso; lia.
Qed.

Lemma lex_total a b : lex_lt a b \/ a = b \/ lex_lt b a.
Proof.
  unfold lex_lt. destruct (lex_cmp a b) eqn:E.
  - right; left. apply lex_cmp_eq; exact E.
  - left; reflexivity.
  - right; right. rewrite lex_cmp_antisym, E. reflexivity.
Qed.

(* A readable characterisation of the order, so that lex_cmp need not be trusted as a spec:
   a < b iff a is a proper prefix of b, or they first differ at a position where a is smaller *)
Lemma lex_lt_spec a : forall b,
  lex_lt a b <->
  (exists c r, b = a ++ c :: r) \/
  (exists p x y a' b', a = p ++ x :: a' /\ b = p ++ y :: b' /\ (x < y)%N).
Proof.
  unfold lex_lt. induction a as [|x a IH]; intros [|y b]; cbn [lex_cmp].
  - split; [discriminate|]. intros [(c & r & H)|(p & x & y & a' & b' & H & _)].
    + destruct r; discriminate. + destruct p; discriminate.
  - split; [|reflexivity]. intros _. left. exists y, b. reflexivity.
  - split; [discriminate|]. intros [(c & r & H)|(p & x' & y & a' & b' & _ & H & _)].
    + discriminate. + destruct p; discriminate.
  - destruct (N.compare_spec x y) as [->|Hxy|Hxy].
    + rewrite IH. split.
      * intros [(c & r & ->)|(p & x' & y' & a' & b' & -> & -> & Hlt)].
        -- left. exists c, r. reflexivity.
        -- right. exists (y :: p), x', y', a', b'. auto.
      * intros [(c & r & H)|(p & x' & y' & a' & b' & Ha & Hb & Hlt)].
        -- left. exists c, r. cbn [app] in H. congruence.
        -- destruct p as [|q p]; cbn [app] in Ha, Hb.
           ++ exfalso. injection Ha as -> _. injection Hb as -> _. lia.
           ++ right. injection Ha as _ ->. injection Hb as _ ->. exists p, x', y', a', b'. auto.
    + split; [|reflexivity]. intros _. right. exists [], x, y, a, b. auto.
    + split; [discriminate|]. intros [(c & r & H)|(p & x' & y' & a' & b' & Ha & Hb & Hlt)].
      * cbn [app] in H. injection H as -> _. lia.
      * destruct p as [|q p]; cbn [app] in Ha, Hb.
        -- injection Ha as -> _. injection Hb as -> _. lia.
        -- injection Ha as -> _. injection Hb as -> _. lia.
Qed.

(* distinct positions have distinct suffixes *)
Lemma suffix_length t i : length (suffix t i) = length t - i.
Proof. unfold suffix. apply skipn_length. Qed.

Lemma suffix_inj t i j : i <= length t -> j <= length t -> suffix t i = suffix t j -> i = j.
Proof.
  intros Hi Hj H. apply (f_equal (@length N)) in H. rewrite !suffix_length in H. lia.
Qed.

Lemma suf_lt_trans t i j k : suf_lt t i j -> suf_lt t j k -> suf_lt t i k.
Proof. unfold suf_lt. apply lex_lt_trans. Qed.

(* two strictly sorted lists with the same elements are equal *)
Lemma sorted_perm_unique {A} (R : A -> A -> Prop) :
  (forall x y, R x y -> R y x -> False) ->
  forall l1 l2, StronglySorted R l1 -> StronglySorted R l2 -> Permutation l1 l2 -> l1 = l2.
Proof.
  intros Hasym. induction l1 as [|a l1 IH]; intros l2 H1 H2 HP.
  - apply Permutation_nil in HP. symmetry; exact HP.
  - destruct l2 as [|b l2]; [apply Permutation_sym, Permutation_nil in HP; discriminate|].
    inversion H1 as [|? ? H1s H1a]; subst. inversion H2 as [|? ? H2s H2a]; subst.
    assert (a = b) as ->.
    { assert (Ha : In a (b :: l2)) by (eapply Permutation_in; [exact HP|left; reflexivity]).
      assert (Hb : In b (a :: l1)) by (eapply Permutation_in; [apply Permutation_sym; exact HP|left; reflexivity]).
      destruct Ha as [->|Ha]; [reflexivity|]. destruct Hb as [->|Hb]; [reflexivity|].
      exfalso. rewrite Forall_forall in H1a, H2a. eapply Hasym; [apply H1a; exact Hb|apply H2a; exact Ha]. }
    f_equal. apply IH; try assumption. eapply Permutation_cons_inv; exact HP.
Qed.

Theorem sa_unique_proof t a b : is_sa t a -> is_sa t b -> a = b.
Proof.
  intros [Pa Sa] [Pb Sb]. eapply (sorted_perm_unique (suf_lt t)); try eassumption.
  - intros x y. apply lex_lt_asym.
  - eapply Permutation_trans; [exact Pa|apply Permutation_sym; exact Pb].
Qed.

(* ---------- insertion sort with the suffix comparator ---------- *)
Lemma insert_suf_perm t i l : Permutation (insert_suf t i l) (i :: l).
Proof.
  induction l as [|j l IH]; cbn [insert_suf]; [apply Permutation_refl|].
  destruct (lex_cmp (suffix t i) (suffix t j)); try apply Permutation_refl.
  eapply Permutation_trans; [apply perm_skip; exact IH|apply perm_swap].
Qed.

Lemma insert_suf_sorted t i l :
  i <= length t -> Forall (fun j => j <= length t /\ j <> i) l ->
  StronglySorted (suf_lt t) l -> StronglySorted (suf_lt t) (insert_suf t i l).
Proof.
  intros Hi. induction l as [|j l IH]; intros Hd Hs; cbn [insert_suf].
  - constructor; constructor.
  - inversion Hs as [|? ? Hs' Hall]; subst. inversion Hd as [|? ? [Hj Hne] Hd']; subst.
    destruct (lex_cmp (suffix t i) (suffix t j)) eqn:E.
    + exfalso. apply lex_cmp_eq in E. apply suffix_inj in E; auto.
    + constructor; [exact Hs|]. constructor; [exact E|].
      rewrite Forall_forall in *. intros k Hk. eapply suf_lt_trans; [exact E|apply Hall; exact Hk].
    + constructor; [apply IH; assumption|].
      assert (Hji : suf_lt t j i).
      { unfold suf_lt, lex_lt. rewrite lex_cmp_antisym, E. reflexivity. }
      rewrite Forall_forall in *. intros k Hk.
      apply (Permutation_in _ (insert_suf_perm t i l)) in Hk. destruct Hk as [<-|Hk]; [exact Hji|apply Hall; exact Hk].
Qed.

Lemma sort_go_is t : forall l, NoDup l -> Forall (fun j => j <= length t) l ->
  Permutation (fold_right (insert_suf t) [] l) l /\
  StronglySorted (suf_lt t) (fold_right (insert_suf t) [] l).
Proof.
  induction l as [|i l IH]; intros Hnd Hle; cbn [fold_right].
  - split; [apply Permutation_refl|constructor].
  - inversion Hnd as [|? ? Hni Hnd']; subst. inversion Hle as [|? ? Hi Hle']; subst.
    destruct (IH Hnd' Hle') as [HP HS]. split.
    + eapply Permutation_trans; [apply insert_suf_perm|apply perm_skip; exact HP].
    + apply insert_suf_sorted; [exact Hi| |exact HS].
      rewrite Forall_forall in *. intros j Hj.
      apply (Permutation_in _ HP) in Hj. split; [apply Hle'; exact Hj|]. intros ->. contradiction.
Qed.

Theorem sort_suffixes_is_sa_proof t : is_sa t (sort_suffixes t).
Proof.
  unfold sort_suffixes, is_sa. apply sort_go_is.
  - apply seq_NoDup.
  - rewrite Forall_forall. intros j Hj. apply in_seq in Hj. lia.
Qed.

(* ---------- the certificate checker ---------- *)
Lemma adjacent_all_sorted {A} (r : A -> A -> bool) l :
  adjacent_all r l = true <-> Sorted (fun x y => r x y = true) l.
Proof.
  induction l as [|x l IH]; cbn [adjacent_all].
  - split; [constructor|reflexivity].
  - destruct l as [|y l].
    + split; [intros _; constructor; constructor|reflexivity].
    + rewrite andb_true_iff, IH. split.
      * intros [Hr Hs]. constructor; [exact Hs|constructor; exact Hr].
      * intros H. inversion H as [|? ? Hs Hh]; subst. inversion Hh; subst. auto.
Qed.

Lemma lex_ltb_lt a b : lex_ltb a b = true <-> lex_lt a b.
Proof. unfold lex_ltb, lex_lt. destruct (lex_cmp a b); split; congruence. Qed.

Lemma strongly_sorted_nodup {A} (R : A -> A -> Prop) l :
  (forall x, ~ R x x) -> StronglySorted R l -> NoDup l.
Proof.
  intros Hirr. induction 1 as [|a l Hs IH Ha]; constructor; [|exact IH].
  intros Hin. rewrite Forall_forall in Ha. exact (Hirr _ (Ha _ Hin)).
Qed.

Lemma Sorted_impl {A} (R R' : A -> A -> Prop) l :
  (forall x y, R x y -> R' x y) -> Sorted R l -> Sorted R' l.
Proof.
  intros Himp. induction 1 as [|a l Hs IH Hh]; [constructor|].
  constructor; [exact IH|]. destruct Hh; constructor. apply Himp; assumption.
Qed.

Theorem check_sa_iff_proof t sa : check_sa t sa = true <-> is_sa t sa.
Proof.
  unfold check_sa, is_sa. rewrite !andb_true_iff, Nat.eqb_eq, forallb_forall, adjacent_all_sorted.
  split.
  - intros [[Hlen Hlt] Hs].
    assert (HS : StronglySorted (suf_lt t) sa).
    { apply Sorted_StronglySorted; [intros x y z; apply suf_lt_trans|].
      eapply Sorted_impl; [|exact Hs]. intros x y Hxy. apply lex_ltb_lt; exact Hxy. }
    split; [|exact HS].
    apply NoDup_Permutation_bis.
    + eapply strongly_sorted_nodup; [|exact HS]. intros x. apply lex_lt_irrefl.
    + rewrite seq_length. lia.
    + intros i Hi. apply in_seq. specialize (Hlt i Hi). apply Nat.ltb_lt in Hlt. lia.
  - intros [HP HS]. split; [split|].
    + apply Permutation_length in HP. rewrite seq_length in HP. exact HP.
    + intros i Hi. apply (Permutation_in _ HP) in Hi. apply in_seq in Hi. apply Nat.ltb_lt. lia.
    + apply StronglySorted_Sorted in HS.
      eapply Sorted_impl; [|exact HS]. intros x y Hxy. apply lex_ltb_lt; exact Hxy.
Qed.
