(* C12 property theorems.  Nothing but statements closed by `exact`, a pin, and
   Print Assumptions.  The driver parses this file's output. *)
From ZV.Common Require Import Base Run.
From Coq Require Import Sorting.Permutation Sorting.Sorted.
From ZV.C12 Require Import Spec Model ProofsOrder ProofsSearch ProofsBuild ProofsKasai ProofsAll.
From ZV.C12 Require Import ModelDict ProofsDictRange ProofsDict ModelEsa ProofsEsa ModelKeyed ProofsKeyed ModelCases.
From ZV.C12 Require Import ModelSais ProofsSaisClassify ProofsSaisNames ProofsSais ProofsSaisSmall.
Open Scope nat_scope.

(* the order used by the spec is the textbook one: proper prefix, or smaller at the first difference *)
Theorem lex_lt_characterisation :
  forall a b, lex_lt a b <->
    (exists c r, b = a ++ c :: r) \/
    (exists p x y a' b', a = p ++ x :: a' /\ b = p ++ y :: b' /\ (x < y)%N).
Proof. exact lex_lt_spec. Qed.
Check lex_lt_characterisation : forall a b, lex_lt a b <->
    (exists c r, b = a ++ c :: r) \/
    (exists p x y a' b', a = p ++ x :: a' /\ b = p ++ y :: b' /\ (x < y)%N).
Print Assumptions lex_lt_characterisation.

(* the suffix array is unique *)
Theorem sa_unique : forall t a b, is_sa t a -> is_sa t b -> a = b.
Proof. exact sa_unique_proof. Qed.
Check sa_unique : forall t a b, is_sa t a -> is_sa t b -> a = b.
Print Assumptions sa_unique.

(* ... and exists: the sort used by DC3 / DivSufSort / Larsson-Sadakane / fallback_sort computes it *)
Theorem sort_suffixes_is_sa : forall t, is_sa t (sort_suffixes t).
Proof. exact sort_suffixes_is_sa_proof. Qed.
Check sort_suffixes_is_sa : forall t, is_sa t (sort_suffixes t).
Print Assumptions sort_suffixes_is_sa.

(* the certificate checker decides is_sa (applied in Coq to every SA-IS output of a run) *)
Theorem check_sa_iff : forall t sa, check_sa t sa = true <-> is_sa t sa.
Proof. exact check_sa_iff_proof. Qed.
Check check_sa_iff : forall t sa, check_sa t sa = true <-> is_sa t sa.
Print Assumptions check_sa_iff.

(* SuffixArrayBuilder::build, every text, every configuration; SA-IS (not modelled) as hypothesis *)
Theorem build_is_sa :
  forall (sais : list N -> list nat) (analyse : list N -> alg) c t,
    (select_algorithm analyse c t = SAIS \/ select_algorithm analyse c t = Adaptive -> is_sa t (sais t)) ->
    is_sa t (build sais analyse c t).
Proof. exact build_is_sa_proof. Qed.
Check build_is_sa :
  forall (sais : list N -> list nat) (analyse : list N -> alg) c t,
    (select_algorithm analyse c t = SAIS \/ select_algorithm analyse c t = Adaptive -> is_sa t (sais t)) ->
    is_sa t (build sais analyse c t).
Print Assumptions build_is_sa.

(* the pinned tree's DC3 length-2 special case is wrong (fixed in the repo; record of the finding) *)
Theorem dc3_pinned_refuted : exists t, ~ is_sa t (dc3_construct_pinned t).
Proof. exact dc3_pinned_refuted_proof. Qed.
Check dc3_pinned_refuted : exists t, ~ is_sa t (dc3_construct_pinned t).
Print Assumptions dc3_pinned_refuted.

(* search_range: exactly the contiguous rank range whose suffixes start with the pattern *)
Theorem search_exact :
  forall t sa p l r, is_sa t sa -> search_range t sa p = (l, r) ->
    l <= r <= length sa /\
    forall k, k < length sa -> (l <= k < r <-> is_prefix p (suffix t (nth k sa 0))).
Proof. exact search_exact_proof. Qed.
Check search_exact :
  forall t sa p l r, is_sa t sa -> search_range t sa p = (l, r) ->
    l <= r <= length sa /\
    forall k, k < length sa -> (l <= k < r <-> is_prefix p (suffix t (nth k sa 0))).
Print Assumptions search_exact.

(* search: the reported (start, count) slice of the array lists all and only the occurrences *)
Theorem search_all_and_only :
  forall t sa p l c, is_sa t sa -> search t sa p = (l, c) ->
    forall i, In i (firstn c (skipn l sa)) <-> occurs t p i.
Proof. exact search_all_and_only_proof. Qed.
Check search_all_and_only :
  forall t sa p l c, is_sa t sa -> search t sa p = (l, c) ->
    forall i, In i (firstn c (skipn l sa)) <-> occurs t p i.
Print Assumptions search_all_and_only.

(* ... and the count is the number of occurrences *)
Theorem search_count_exact :
  forall t sa p l c, is_sa t sa -> search t sa p = (l, c) ->
    c = length (filter (occursb t p) (seq 0 (length t))).
Proof. exact search_count_exact_proof. Qed.
Check search_count_exact :
  forall t sa p l c, is_sa t sa -> search t sa p = (l, c) ->
    c = length (filter (occursb t p) (seq 0 (length t))).
Print Assumptions search_count_exact.

(* compression::suffix_array's copy of the search loops returns the same range (non-empty pattern) *)
Theorem wrapper_search_same :
  forall t sa p, p <> [] -> w_find_pattern_range t sa p = search_range t sa p.
Proof. exact wrapper_search_same_proof. Qed.
Check wrapper_search_same :
  forall t sa p, p <> [] -> w_find_pattern_range t sa p = search_range t sa p.
Print Assumptions wrapper_search_same.

(* Kasai as written (no reset of h at rank 0): the exact LCP array, for every text *)
Theorem kasai_correct : forall t sa, is_sa t sa -> kasai t sa = Some (lcp_spec t sa).
Proof. exact kasai_correct_proof. Qed.
Check kasai_correct : forall t sa, is_sa t sa -> kasai t sa = Some (lcp_spec t sa).
Print Assumptions kasai_correct.

(* compute_bwt: the byte cyclically preceding each suffix, in suffix order *)
Theorem bwt_correct :
  forall t sa, Forall (fun s => s < length t) sa -> bwt t sa = bwt_spec t sa.
Proof. exact bwt_correct_proof. Qed.
Check bwt_correct :
  forall t sa, Forall (fun s => s < length t) sa -> bwt t sa = bwt_spec t sa.
Print Assumptions bwt_correct.

(* ... and it is a rearrangement of the text *)
Theorem bwt_perm : forall t sa, is_sa t sa -> Permutation (bwt t sa) t.
Proof. exact bwt_perm_proof. Qed.
Check bwt_perm : forall t sa, is_sa t sa -> Permutation (bwt t sa) t.
Print Assumptions bwt_perm.

(* the property as one statement about the modelled pipeline: build, then LCP, BWT and search on its result *)
Theorem c12_pipeline :
  forall (sais : list N -> list nat) (analyse : list N -> alg) c t,
    (select_algorithm analyse c t = SAIS \/ select_algorithm analyse c t = Adaptive -> is_sa t (sais t)) ->
    let sa := build sais analyse c t in
    is_sa t sa /\
    (forall sa', is_sa t sa' -> sa' = sa) /\
    kasai t sa = Some (lcp_spec t sa) /\
    bwt t sa = bwt_spec t sa /\
    (forall p l r, search_range t sa p = (l, r) ->
       l <= r <= length sa /\
       forall k, k < length sa -> (l <= k < r <-> is_prefix p (suffix t (nth k sa 0)))) /\
    (forall p l n, search t sa p = (l, n) ->
       (forall i, In i (firstn n (skipn l sa)) <-> occurs t p i) /\
       n = length (filter (occursb t p) (seq 0 (length t)))).
Proof. exact c12_pipeline_proof. Qed.
Check c12_pipeline :
  forall (sais : list N -> list nat) (analyse : list N -> alg) c t,
    (select_algorithm analyse c t = SAIS \/ select_algorithm analyse c t = Adaptive -> is_sa t (sais t)) ->
    let sa := build sais analyse c t in
    is_sa t sa /\
    (forall sa', is_sa t sa' -> sa' = sa) /\
    kasai t sa = Some (lcp_spec t sa) /\
    bwt t sa = bwt_spec t sa /\
    (forall p l r, search_range t sa p = (l, r) ->
       l <= r <= length sa /\
       forall k, k < length sa -> (l <= k < r <-> is_prefix p (suffix t (nth k sa 0)))) /\
    (forall p l n, search t sa p = (l, n) ->
       (forall i, In i (firstn n (skipn l sa)) <-> occurs t p i) /\
       n = length (filter (occursb t p) (seq 0 (length t)))).
Print Assumptions c12_pipeline.

(* ================= PA-Zip dictionary matcher (src/compression/dict_zip/dictionary.rs) ================= *)

(* sa_equal_range / sa_equal_range_binary_optimized: on a suffix array, for a rank range whose suffixes
   share a prefix of length d, the result is exactly the ranks of the range with byte c at depth d *)
Theorem sa_equal_range_exact :
  forall t sa lo hi d c p l r,
    is_sa t sa -> length p = d ->
    (forall k, lo <= k < hi -> k < length sa -> firstn d (suffix t (nth k sa 0)) = p) ->
    sa_equal_range t sa lo hi d c = (l, r) ->
    l <= r /\
    (forall k, l <= k < r <->
               (lo <= k < hi /\ k < length sa /\ nth_error (suffix t (nth k sa 0)) d = Some c)).
Proof. exact sa_equal_range_exact_proof. Qed.
Check sa_equal_range_exact :
  forall t sa lo hi d c p l r,
    is_sa t sa -> length p = d ->
    (forall k, lo <= k < hi -> k < length sa -> firstn d (suffix t (nth k sa 0)) = p) ->
    sa_equal_range t sa lo hi d c = (l, r) ->
    l <= r /\
    (forall k, l <= k < r <->
               (lo <= k < hi /\ k < length sa /\ nth_error (suffix t (nth k sa 0)) d = Some c)).
Print Assumptions sa_equal_range_exact.

(* sa_match_continuation from the full range: depth = length of the longest prefix of the input that
   occurs in the text, [lo, hi) = exactly the ranks whose suffixes start with it *)
Theorem sa_match_continuation_longest :
  forall t sa q lo hi d,
    is_sa t sa -> sa_match_continuation t sa 0 (length sa) 0 q = (lo, hi, d) ->
    d <= length q /\ lo <= hi <= length sa /\
    (forall k, lo <= k < hi <-> (k < length sa /\ is_prefix (firstn d q) (suffix t (nth k sa 0)))) /\
    (d < length q -> forall k, k < length sa -> ~ is_prefix (firstn (S d) q) (suffix t (nth k sa 0))).
Proof. exact sa_match_continuation_longest_proof. Qed.
Check sa_match_continuation_longest :
  forall t sa q lo hi d,
    is_sa t sa -> sa_match_continuation t sa 0 (length sa) 0 q = (lo, hi, d) ->
    d <= length q /\ lo <= hi <= length sa /\
    (forall k, lo <= k < hi <-> (k < length sa /\ is_prefix (firstn d q) (suffix t (nth k sa 0)))) /\
    (d < length q -> forall k, k < length sa -> ~ is_prefix (firstn (S d) q) (suffix t (nth k sa 0))).
Print Assumptions sa_match_continuation_longest.

(* da_match_max_length: for every trie transition function without a transition from the root back to
   the root, the DFA-cache walk is sa_match_continuation from the full range *)
Theorem da_match_is_continuation :
  forall (trans : N -> N -> option N) t sa q,
    (forall b, trans 0%N b <> Some 0%N) -> q <> [] ->
    da_match_max_length trans t sa q = sa_match_continuation t sa 0 (length sa) 0 q.
Proof. exact da_match_is_continuation_proof. Qed.
Check da_match_is_continuation :
  forall (trans : N -> N -> option N) t sa q,
    (forall b, trans 0%N b <> Some 0%N) -> q <> [] ->
    da_match_max_length trans t sa q = sa_match_continuation t sa 0 (length sa) 0 q.
Print Assumptions da_match_is_continuation.

Theorem da_match_max_length_longest :
  forall (trans : N -> N -> option N) t sa q lo hi d,
    (forall b, trans 0%N b <> Some 0%N) -> q <> [] ->
    is_sa t sa -> da_match_max_length trans t sa q = (lo, hi, d) ->
    d <= length q /\ lo <= hi <= length sa /\
    (forall k, lo <= k < hi <-> (k < length sa /\ is_prefix (firstn d q) (suffix t (nth k sa 0)))) /\
    (d < length q -> forall k, k < length sa -> ~ is_prefix (firstn (S d) q) (suffix t (nth k sa 0))).
Proof. exact da_match_max_length_longest_proof. Qed.
Check da_match_max_length_longest :
  forall (trans : N -> N -> option N) t sa q lo hi d,
    (forall b, trans 0%N b <> Some 0%N) -> q <> [] ->
    is_sa t sa -> da_match_max_length trans t sa q = (lo, hi, d) ->
    d <= length q /\ lo <= hi <= length sa /\
    (forall k, lo <= k < hi <-> (k < length sa /\ is_prefix (firstn d q) (suffix t (nth k sa 0)))) /\
    (d < length q -> forall k, k < length sa -> ~ is_prefix (firstn (S d) q) (suffix t (nth k sa 0))).
Print Assumptions da_match_max_length_longest.

(* ================= enhanced suffix arrays: LCP / BWT storage ================= *)

(* algorithms::suffix_array::EnhancedSuffixArray::with_lcp + lcp_at: the exact LCP value at every rank,
   None past the end, for every text (usize storage, no width assumption) *)
Theorem esa_lcp_at_is_kasai :
  forall (sais : list N -> list nat) (analyse : list N -> alg) t,
    (select_algorithm analyse default_config t = SAIS \/ select_algorithm analyse default_config t = Adaptive
       -> is_sa t (sais t)) ->
    exists e, esa_with_lcp sais analyse t = Some e /\ is_sa t (esa_sa e) /\
              forall k, esa_lcp_at e k = nth_error (lcp_spec t (esa_sa e)) k.
Proof. exact esa_lcp_at_is_kasai_proof. Qed.
Check esa_lcp_at_is_kasai :
  forall (sais : list N -> list nat) (analyse : list N -> alg) t,
    (select_algorithm analyse default_config t = SAIS \/ select_algorithm analyse default_config t = Adaptive
       -> is_sa t (sais t)) ->
    exists e, esa_with_lcp sais analyse t = Some e /\ is_sa t (esa_sa e) /\
              forall k, esa_lcp_at e k = nth_error (lcp_spec t (esa_sa e)) k.
Print Assumptions esa_lcp_at_is_kasai.

(* ... with_bwt: the BWT induced by the suffix order, a permutation of the text *)
Theorem esa_bwt_is_bwt :
  forall (sais : list N -> list nat) (analyse : list N -> alg) t,
    (select_algorithm analyse default_config t = SAIS \/ select_algorithm analyse default_config t = Adaptive
       -> is_sa t (sais t)) ->
    let e := esa_with_bwt sais analyse t in
    is_sa t (esa_sa e) /\ esa_bwt e = Some (bwt_spec t (esa_sa e)) /\
    forall b, esa_bwt e = Some b -> Permutation b t.
Proof. exact esa_bwt_is_bwt_proof. Qed.
Check esa_bwt_is_bwt :
  forall (sais : list N -> list nat) (analyse : list N -> alg) t,
    (select_algorithm analyse default_config t = SAIS \/ select_algorithm analyse default_config t = Adaptive
       -> is_sa t (sais t)) ->
    let e := esa_with_bwt sais analyse t in
    is_sa t (esa_sa e) /\ esa_bwt e = Some (bwt_spec t (esa_sa e)) /\
    forall b, esa_bwt e = Some b -> Permutation b t.
Print Assumptions esa_bwt_is_bwt.

(* compression::suffix_array (values stored `as u32`): for every text the constructor accepts - that is
   every text of at most 2^32 bytes - suffix_at_rank and lcp_at return the suffix array and the exact LCP
   values (every stored value is below the text length, so the 32-bit cast never truncates) *)
Theorem cesa_lcp_at_is_kasai :
  forall (sais : list N -> list nat) t,
    is_sa t (sais t) -> (N.of_nat (length t) <= 2 ^ 32)%N ->
    exists e sa, is_sa t sa /\ cesa_build sais true t = Some e /\
      c_text_len e = length t /\ cesa_len e = length t /\
      (forall k, cesa_suffix_at_rank e k = nth_error sa k) /\
      (forall k, cesa_lcp_at e k = nth_error (lcp_spec t sa) k).
Proof. exact cesa_exact_proof. Qed.
Check cesa_lcp_at_is_kasai :
  forall (sais : list N -> list nat) t,
    is_sa t (sais t) -> (N.of_nat (length t) <= 2 ^ 32)%N ->
    exists e sa, is_sa t sa /\ cesa_build sais true t = Some e /\
      c_text_len e = length t /\ cesa_len e = length t /\
      (forall k, cesa_suffix_at_rank e k = nth_error sa k) /\
      (forall k, cesa_lcp_at e k = nth_error (lcp_spec t sa) k).
Print Assumptions cesa_lcp_at_is_kasai.

(* ... and longer texts are refused, never truncated *)
Theorem cesa_too_long_refused :
  forall (sais : list N -> list nat) b t,
    is_sa t (sais t) -> (2 ^ 32 < N.of_nat (length t))%N -> cesa_build sais b t = None.
Proof. exact cesa_too_long_proof. Qed.
Check cesa_too_long_refused :
  forall (sais : list N -> list nat) b t,
    is_sa t (sais t) -> (2 ^ 32 < N.of_nat (length t))%N -> cesa_build sais b t = None.
Print Assumptions cesa_too_long_refused.

(* a store of width W reads back unchanged exactly when every value is below 2^W ... *)
Theorem stored_width_exact_iff :
  forall W l, map N.to_nat (map (as_uw W) l) = l <-> Forall (fun v => (N.of_nat v < 2 ^ W)%N) l.
Proof. exact stored_width_exact_iff_proof. Qed.
Check stored_width_exact_iff :
  forall W l, map N.to_nat (map (as_uw W) l) = l <-> Forall (fun v => (N.of_nat v < 2 ^ W)%N) l.
Print Assumptions stored_width_exact_iff.

(* ... so a narrower LCP store is wrong as soon as an LCP value reaches 2^W (witness W = 3, text a^9) *)
Theorem cesa_narrow_width_refuted :
  exists W t, let sa := sort_suffixes t in
    match cesa_build_w (fun _ => sa) W true t with
    | Some e => exists k, cesa_lcp_at e k <> nth_error (lcp_spec t sa) k
    | None => False
    end.
Proof. exact cesa_narrow_width_refuted_proof. Qed.
Check cesa_narrow_width_refuted :
  exists W t, let sa := sort_suffixes t in
    match cesa_build_w (fun _ => sa) W true t with
    | Some e => exists k, cesa_lcp_at e k <> nth_error (lcp_spec t sa) k
    | None => False
    end.
Print Assumptions cesa_narrow_width_refuted.

(* ================= comparator shapes of the sort-based constructions ================= *)

(* sort_by with any comparator that is the suffix comparator on the positions of the text *)
Theorem sort_by_cmp_is_sa :
  forall cmp t,
    (forall i j, i < length t -> j < length t -> cmp i j = lex_cmp (suffix t i) (suffix t j)) ->
    is_sa t (sort_by cmp (length t)).
Proof. exact sort_by_cmp_is_sa_proof. Qed.
Check sort_by_cmp_is_sa :
  forall cmp t,
    (forall i j, i < length t -> j < length t -> cmp i j = lex_cmp (suffix t i) (suffix t j)) ->
    is_sa t (sort_by cmp (length t)).
Print Assumptions sort_by_cmp_is_sa.

(* build with the sort_by closure as a parameter: the closure the code has gives the model of build, and
   every closure that is the suffix comparator on the text gives the suffix array *)
Theorem build_by_plain_is_build :
  forall sais analyse c t, build_by plain_cmp sais analyse c t = build sais analyse c t.
Proof. exact build_by_plain_is_build_proof. Qed.
Check build_by_plain_is_build :
  forall sais analyse c t, build_by plain_cmp sais analyse c t = build sais analyse c t.
Print Assumptions build_by_plain_is_build.

Theorem build_by_is_sa :
  forall (cmp : list N -> nat -> nat -> comparison) sais analyse c t,
    (forall i j, i < length t -> j < length t -> cmp t i j = lex_cmp (suffix t i) (suffix t j)) ->
    (select_algorithm analyse c t = SAIS \/ select_algorithm analyse c t = Adaptive -> is_sa t (sais t)) ->
    is_sa t (build_by cmp sais analyse c t).
Proof. exact build_by_is_sa_proof. Qed.
Check build_by_is_sa :
  forall (cmp : list N -> nat -> nat -> comparison) sais analyse c t,
    (forall i j, i < length t -> j < length t -> cmp t i j = lex_cmp (suffix t i) (suffix t j)) ->
    (select_algorithm analyse c t = SAIS \/ select_algorithm analyse c t = Adaptive -> is_sa t (sais t)) ->
    is_sa t (build_by cmp sais analyse c t).
Print Assumptions build_by_is_sa.

(* "zero-padded K-byte key first, then the remainders" equals the slice order exactly when the two strings
   are not a pair of different strings that both fit in the key and have the same padded key *)
Theorem keyed_compare_is_suffix_compare :
  forall K a b, keyed_cmp K a b = lex_cmp a b <-> ~ (a <> b /\ key_tie K a b).
Proof. exact keyed_compare_is_suffix_compare_proof. Qed.
Check keyed_compare_is_suffix_compare :
  forall K a b, keyed_cmp K a b = lex_cmp a b <-> ~ (a <> b /\ key_tie K a b).
Print Assumptions keyed_compare_is_suffix_compare.

(* hence the keyed sort is the suffix array when no two suffixes tie, in particular when the text does
   not end in a zero byte *)
Theorem keyed_sort_is_sa :
  forall K t,
    (forall i j, i < j -> j < length t -> ~ key_tie K (suffix t i) (suffix t j)) ->
    is_sa t (keyed_sort K t).
Proof. exact keyed_sort_is_sa_proof. Qed.
Check keyed_sort_is_sa :
  forall K t,
    (forall i j, i < j -> j < length t -> ~ key_tie K (suffix t i) (suffix t j)) ->
    is_sa t (keyed_sort K t).
Print Assumptions keyed_sort_is_sa.

Theorem keyed_sort_last_nonzero :
  forall K t, last t 1%N <> 0%N -> is_sa t (keyed_sort K t).
Proof. exact keyed_sort_last_nonzero_proof. Qed.
Check keyed_sort_last_nonzero :
  forall K t, last t 1%N <> 0%N -> is_sa t (keyed_sort K t).
Print Assumptions keyed_sort_last_nonzero.

(* ... and wrong for texts ending in NUL bytes: an 8-byte key on "\0\0" *)
Theorem keyed_compare_refuted :
  exists K t, ~ is_sa t (keyed_sort K t) /\
              exists i j, keyed_cmp K (suffix t i) (suffix t j) <> lex_cmp (suffix t i) (suffix t j).
Proof. exact keyed_compare_refuted_proof. Qed.
Check keyed_compare_refuted :
  exists K t, ~ is_sa t (keyed_sort K t) /\
              exists i j, keyed_cmp K (suffix t i) (suffix t j) <> lex_cmp (suffix t i) (suffix t j).
Print Assumptions keyed_compare_refuted.

(* ================= SA-IS (sais_construct_with_depth and its helpers), executable model in ModelSais.v ================= *)

(* classify_suffixes / find_lms_suffixes: S-type = smaller than the next suffix (the last suffix is L: it is
   followed by the empty suffix, the virtual sentinel), LMS = S-type with an L-type predecessor; the LMS
   list is exactly those positions, in text order *)
Theorem sais_classify_correct :
  forall t,
    let types := classify t in
    let lms := lms_positions (lms_flags types) in
    length types = length t /\
    (forall i, i < length t -> (nth i types false = true <-> is_S t i)) /\
    (forall p, nth p (lms_flags types) false = true <-> is_lms_pos t p) /\
    (forall p, In p lms <-> is_lms_pos t p) /\
    StronglySorted lt lms.
Proof. exact sais_classify_correct_proof. Qed.
Check sais_classify_correct :
  forall t,
    let types := classify t in
    let lms := lms_positions (lms_flags types) in
    length types = length t /\
    (forall i, i < length t -> (nth i types false = true <-> is_S t i)) /\
    (forall p, nth p (lms_flags types) false = true <-> is_lms_pos t p) /\
    (forall p, In p lms <-> is_lms_pos t p) /\
    StronglySorted lt lms.
Print Assumptions sais_classify_correct.

(* name_lms_substrings: along an LMS list sorted by a preorder whose equivalence is the code's
   are_lms_substrings_equal, the names written into the table never decrease, are equal exactly for equal
   LMS substrings, and are all below num_names *)
Theorem sais_names_order_lms_substrings :
  forall (le : nat -> nat -> Prop) text flags lms lms_sa names num,
    (forall x y z, le x y -> le y z -> le x z) ->
    (forall x y, In x lms_sa -> In y lms_sa -> (lms_equal text flags x y = true <-> le x y /\ le y x)) ->
    StronglySorted le lms_sa -> NoDup lms -> Permutation lms_sa lms ->
    name_lms text flags lms lms_sa = Some (names, num) ->
    ForallOrdPairs (fun p p' => name_of lms names p <= name_of lms names p' /\
                                (name_of lms names p = name_of lms names p' <-> lms_equal text flags p p' = true))
                   lms_sa /\
    (forall p, In p lms -> name_of lms names p < num).
Proof. exact sais_names_order_lms_substrings_proof. Qed.
Check sais_names_order_lms_substrings :
  forall (le : nat -> nat -> Prop) text flags lms lms_sa names num,
    (forall x y z, le x y -> le y z -> le x z) ->
    (forall x y, In x lms_sa -> In y lms_sa -> (lms_equal text flags x y = true <-> le x y /\ le y x)) ->
    StronglySorted le lms_sa -> NoDup lms -> Permutation lms_sa lms ->
    name_lms text flags lms lms_sa = Some (names, num) ->
    ForallOrdPairs (fun p p' => name_of lms names p <= name_of lms names p' /\
                                (name_of lms names p = name_of lms names p' <-> lms_equal text flags p p' = true))
                   lms_sa /\
    (forall p, In p lms -> name_of lms names p < num).
Print Assumptions sais_names_order_lms_substrings.

(* the recursion condition `num_names < lms_suffixes.len()` holds exactly when two LMS substrings received
   the same name (so the shortcut "names unique: the first-pass order is final" is taken only then) *)
Theorem sais_recursion_needed_iff_duplicate_names :
  forall text flags lms lms_sa names num,
    NoDup lms -> Permutation lms_sa lms -> name_lms text flags lms lms_sa = Some (names, num) ->
    num <= length lms /\ (num < length lms <-> ~ NoDup names).
Proof. exact sais_recursion_needed_iff_duplicate_names_proof. Qed.
Check sais_recursion_needed_iff_duplicate_names :
  forall text flags lms lms_sa names num,
    NoDup lms -> Permutation lms_sa lms -> name_lms text flags lms lms_sa = Some (names, num) ->
    num <= length lms /\ (num < length lms <-> ~ NoDup names).
Print Assumptions sais_recursion_needed_iff_duplicate_names.

(* SA-IS returns the suffix array of every byte string up to the size guard, for both alphabet settings and
   through every recursion level and the depth fallback - GIVEN two facts about one round of induced
   sorting (final_ok, first_ok: hypotheses, not proved; see ProofsSais.v) *)
Theorem sais_is_sa_partial :
  final_ok -> first_ok ->
  forall opt t, (forall c, In c t -> (c < 256)%N) -> (N.of_nat (length t) <= MAX_TEXT_SIZE)%N ->
    exists sa, sais opt t = Some sa /\ is_sa t sa.
Proof. exact sais_is_sa_partial_proof. Qed.
Check sais_is_sa_partial :
  final_ok -> first_ok ->
  forall opt t, (forall c, In c t -> (c < 256)%N) -> (N.of_nat (length t) <= MAX_TEXT_SIZE)%N ->
    exists sa, sais opt t = Some sa /\ is_sa t sa.
Print Assumptions sais_is_sa_partial.

(* the same for every recursion level (any alphabet bound, any remaining depth) *)
Theorem sais_go_is_sa_partial :
  final_ok -> first_ok ->
  forall fuel t alpha,
    (forall c, In c t -> N.to_nat c < alpha) -> (N.of_nat (length t) <= MAX_TEXT_SIZE)%N ->
    exists sa, sais_go fuel t alpha = Some sa /\ is_sa t sa.
Proof. exact sais_go_is_sa. Qed.
Check sais_go_is_sa_partial :
  final_ok -> first_ok ->
  forall fuel t alpha,
    (forall c, In c t -> N.to_nat c < alpha) -> (N.of_nat (length t) <= MAX_TEXT_SIZE)%N ->
    exists sa, sais_go fuel t alpha = Some sa /\ is_sa t sa.
Print Assumptions sais_go_is_sa_partial.

(* SuffixArrayBuilder::build with the SA-IS model in place of the parameter: all five algorithm values *)
Theorem build_with_sais_model_is_sa :
  final_ok -> first_ok ->
  forall opt (analyse : list N -> alg) c t,
    (forall x, In x t -> (x < 256)%N) -> (N.of_nat (length t) <= MAX_TEXT_SIZE)%N ->
    is_sa t (build (sais_fn opt) analyse c t).
Proof. exact build_with_sais_model_is_sa_proof. Qed.
Check build_with_sais_model_is_sa :
  final_ok -> first_ok ->
  forall opt (analyse : list N -> alg) c t,
    (forall x, In x t -> (x < 256)%N) -> (N.of_nat (length t) <= MAX_TEXT_SIZE)%N ->
    is_sa t (build (sais_fn opt) analyse c t).
Print Assumptions build_with_sais_model_is_sa.

Theorem sais_too_long_refused :
  forall opt t, (MAX_TEXT_SIZE < N.of_nat (length t))%N -> sais opt t = None.
Proof. exact sais_too_long_proof. Qed.
Check sais_too_long_refused :
  forall opt t, (MAX_TEXT_SIZE < N.of_nat (length t))%N -> sais opt t = None.
Print Assumptions sais_too_long_refused.

(* the two hypotheses, evaluated on a complete small domain (the bound is part of the statement) *)
Theorem induced_sort_lemmas_small :
  forall t, In t (words_upto [0; 1]%N 12) \/ In t (words_upto [0; 1; 2]%N 8) ->
    final_okb 3 t = true /\ first_okb 3 t = true.
Proof. exact induced_sort_lemmas_small_proof. Qed.
Check induced_sort_lemmas_small :
  forall t, In t (words_upto [0; 1]%N 12) \/ In t (words_upto [0; 1; 2]%N 8) ->
    final_okb 3 t = true /\ first_okb 3 t = true.
Print Assumptions induced_sort_lemmas_small.
