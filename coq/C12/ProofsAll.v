(* The property as one statement about the modelled pipeline. *)
From ZV.Common Require Import Base.
From Coq Require Import Sorting.Permutation Sorting.Sorted.
From ZV.C12 Require Import Spec Model ProofsOrder ProofsSearch ProofsBuild ProofsKasai.
Open Scope nat_scope.

Theorem c12_pipeline_proof (sais : list N -> list nat) (analyse : list N -> alg) c t :
  (select_algorithm analyse c t = SAIS \/ select_algorithm analyse c t = Adaptive -> is_sa t (sais t)) ->
  let sa := build sais analyse c t in
  is_sa t sa /\
  (forall sa', is_sa t sa' -> sa' = sa) /\
  kasai t sa = Some (lcp_spec t sa) /\
  bwt t sa = bwt_spec t sa /\
  (forall p l r, search_range t sa p = (l, r) ->
     l <= r <= length sa /\
     forall k, k < length sa -> (l <= k < r <-> is_prefix p (suffix t (nth k sa 0)))) /\
  (forall p l n, search t sa p = (l, n) ->
     (forall i, In i (firstn n (skipn l sa)) <-> occurs t p i) /\
     n = length (filter (occursb t p) (seq 0 (length t)))).
Proof.
  intros Hs sa. assert (Hsa : is_sa t sa) by (apply build_is_sa_proof; exact Hs).
  split; [exact Hsa|]. split; [intros sa' H'; eapply sa_unique_proof; eassumption|].
  split; [apply kasai_correct_proof; exact Hsa|]. split.
  - apply bwt_correct_proof. destruct Hsa as [HP _]. rewrite Forall_forall. intros s Hin.
    apply (Permutation_in _ HP) in Hin. apply in_seq in Hin. lia.
  - split.
    + intros p l r E. apply (search_exact_proof t sa p l r Hsa E).
    + intros p l n E. split.
      * apply (search_all_and_only_proof t sa p l n Hsa E).
      * apply (search_count_exact_proof t sa p l n Hsa E).
Qed.

(* the hypothesis is satisfiable and the statement non-trivial: banana, every algorithm that is sort-based *)
Example c12_pipeline_banana :
  let t := [98;97;110;97;110;97]%N in
  let sa := build (fun _ => []) (fun _ => DC3) {| algorithm := LarssonSadakane; adaptive_threshold := 10000 |} t in
  sa = [5;3;1;0;4;2] /\ kasai t sa = Some [0;1;3;0;0;2] /\ bwt t sa = [110;110;98;97;97;97]%N
  /\ search t sa [97;110]%N = (1, 2).
Proof. vm_compute. repeat split; reflexivity. Qed.
