(* sa_equal_range (two-phase binary search of the PA-Zip dictionary) is exact: over any probe
   function whose keys are non-decreasing on the range, the returned pair is exactly the set of
   ranks of the range whose probe is `Byte ch`. *)
From ZV.Common Require Import Base.
From ZV.C12 Require Import Spec Model ModelDict.
Open Scope nat_scope.

(* key of a probe: a suffix that ends at the depth sorts before every byte *)
Definition pk (x : probe_t) : N := match x with Byte b => b + 1 | _ => 0 end.
Definition mb (pr : nat -> probe_t) (ch : N) (k : nat) : bool :=
  match pr k with Byte b => N.eqb b ch | _ => false end.

Lemma mb_true pr ch k : mb pr ch k = true <-> pr k = Byte ch.
Proof.
  unfold mb. destruct (pr k) as [| |b]; try (split; congruence).
  destruct (N.eqb_spec b ch) as [->|H]; split; congruence.
Qed.

Lemma mid_bounds l r : l < r -> l <= l + (r - l) / 2 < r.
Proof. intros H. assert ((r - l) / 2 < r - l) by (apply Nat.div_lt; lia). lia. Qed.

(* ---------- phase 1 ---------- *)
Lemma skip_oob_spec pr : forall fuel lo hi, hi - lo < fuel ->
  let s := skip_oob fuel pr lo hi in
  lo <= s /\ (lo <= hi -> s <= hi) /\ (forall k, lo <= k < s -> pr k = Oob) /\ (s < hi -> pr s <> Oob).
Proof.
  induction fuel as [|fuel IH]; intros lo hi Hf; [lia|]. cbn [skip_oob].
  destruct (Nat.ltb_spec lo hi) as [Hlt|Hge].
  - destruct (pr lo) eqn:E.
    + cbv zeta. repeat split; try lia. intros _. congruence.
    + destruct (IH (lo + 1) hi ltac:(lia)) as (H1 & H2 & H3 & H4). cbv zeta.
      repeat split; try lia.
      * intros k Hk. destruct (Nat.eq_dec k lo) as [->|Hne]; [exact E|apply H3; lia].
      * exact H4.
    + cbv zeta. repeat split; try lia. intros _. congruence.
  - cbv zeta. repeat split; try lia.
Qed.

(* ---------- the linear scan ---------- *)
Definition lin_inv (pr : nat -> probe_t) (ch : N) (a0 a : nat) (fl : option nat * option nat) : Prop :=
  (fl = (None, None) /\ forall k, a0 <= k < a -> mb pr ch k = false) \/
  (exists f l, fl = (Some f, Some l) /\ a0 <= f /\ f <= l /\ l < a /\ mb pr ch f = true /\ mb pr ch l = true /\
               forall k, a0 <= k < a -> mb pr ch k = true -> f <= k <= l).

Lemma linear_go_inv pr ch a0 : forall n a first last,
  a0 <= a -> lin_inv pr ch a0 a (first, last) ->
  lin_inv pr ch a0 (a + n) (linear_go pr ch (seq a n) first last).
Proof.
  induction n as [|n IH]; intros a first last Ha Hinv; cbn [seq linear_go].
  - rewrite Nat.add_0_r. exact Hinv.
  - replace (a + S n) with (S a + n) by lia.
    assert (Hstep : forall fl, lin_inv pr ch a0 (S a) fl ->
              lin_inv pr ch a0 (S a + n) (linear_go pr ch (seq (S a) n) (fst fl) (snd fl))).
    { intros [f l] H. apply IH; [lia|exact H]. }
    assert (Hno : mb pr ch a = false -> lin_inv pr ch a0 (S a) (first, last)).
    { intros Hm. destruct Hinv as [[E Hn]|(f & l & E & H1 & H2 & H3 & H4 & H5 & H6)].
      - left. split; [exact E|]. intros k Hk. destruct (Nat.eq_dec k a) as [->|]; [exact Hm|apply Hn; lia].
      - right. exists f, l. split; [exact E|]. split; [exact H1|]. split; [exact H2|]. split; [lia|].
        split; [exact H4|]. split; [exact H5|].
        intros k Hk Hmk. destruct (Nat.eq_dec k a) as [->|]; [congruence|]. apply H6; [lia|assumption]. }
    destruct (pr a) as [| |b] eqn:E.
    + apply (Hstep (first, last)). apply Hno. unfold mb. rewrite E. reflexivity.
    + apply (Hstep (first, last)). apply Hno. unfold mb. rewrite E. reflexivity.
    + destruct (N.eqb b ch) eqn:Eb.
      * assert (Hm : mb pr ch a = true) by (unfold mb; rewrite E; exact Eb).
        apply (Hstep (match first with None => Some a | Some _ => first end, Some a)).
        destruct Hinv as [[E' Hn]|(f & l & E' & H1 & H2 & H3 & H4 & H5 & H6)].
        -- injection E' as -> ->. right. exists a, a. split; [reflexivity|]. split; [lia|]. split; [lia|].
           split; [lia|]. split; [exact Hm|]. split; [exact Hm|].
           intros k Hk Hmk. destruct (Nat.eq_dec k a) as [->|]; [lia|]. rewrite Hn in Hmk by lia. discriminate.
        -- injection E' as -> ->. right. exists f, a. split; [reflexivity|]. split; [lia|]. split; [lia|].
           split; [lia|]. split; [exact H4|]. split; [exact Hm|].
           intros k Hk Hmk. destruct (Nat.eq_dec k a) as [->|]; [lia|].
           specialize (H6 k ltac:(lia) Hmk). lia.
      * apply (Hstep (first, last)). apply Hno. unfold mb. rewrite E. exact Eb.
Qed.

Section Range.
  Variables (pr : nat -> probe_t) (salen : nat) (ch : N).
  Hypothesis Hnr : forall k, k < salen -> pr k <> NoRank.

  Lemma linear_exact lo hi :
    (forall i j, lo <= i -> i <= j -> j < Nat.min hi salen -> (pk (pr i) <= pk (pr j))%N) ->
    let '(l, r) := sa_equal_range_linear pr salen lo hi ch in
    l <= r /\ forall k, l <= k < r <-> (lo <= k < Nat.min hi salen /\ pr k = Byte ch).
  Proof.
    intros Hmono. unfold sa_equal_range_linear. set (ahi := Nat.min hi salen) in *.
    pose proof (linear_go_inv pr ch lo (ahi - lo) lo None None (le_n _)) as Hinv.
    destruct (linear_go pr ch (seq lo (ahi - lo)) None None) as [F L].
    destruct Hinv as [[E Hn]|(f & l & E & H1 & H2 & H3 & H4 & H5 & H6)].
    { left. split; [reflexivity|]. intros; lia. }
    - injection E as -> ->. split; [lia|]. intros k. split; [lia|]. intros [Hk Hm].
      apply mb_true in Hm. rewrite Hn in Hm by lia. discriminate.
    - injection E as -> ->. split; [lia|]. intros k. split.
      + intros Hk. split; [lia|]. apply mb_true in H4, H5.
        assert (Hk1 : (pk (pr f) <= pk (pr k))%N) by (apply Hmono; lia).
        assert (Hk2 : (pk (pr k) <= pk (pr l))%N) by (apply Hmono; lia).
        rewrite H4 in Hk1. rewrite H5 in Hk2. cbn [pk] in Hk1, Hk2.
        destruct (pr k) as [| |b]; cbn [pk] in *; try (exfalso; lia). f_equal. lia.
      + intros [Hk Hm]. apply mb_true in Hm. specialize (H6 k ltac:(lia) Hm). lia.
  Qed.

  (* ---------- phase 2 on a region [S0, H0) without out-of-bounds probes ---------- *)
  Variables (S0 H0 : nat).
  Hypothesis HH0 : H0 <= salen.
  Hypothesis Hmono : forall i j, S0 <= i -> i <= j -> j < H0 -> (pk (pr i) <= pk (pr j))%N.
  Hypothesis Hnoob : forall k, S0 <= k < H0 -> pr k <> Oob.

  Lemma region_byte k : S0 <= k < H0 -> exists b, pr k = Byte b.
  Proof.
    intros Hk. destruct (pr k) as [| |b] eqn:E.
    - exfalso. apply (Hnr k); [lia|exact E].
    - exfalso. apply (Hnoob k Hk E).
    - exists b. reflexivity.
  Qed.

  Lemma phase2_spec : forall fuel lo hi, hi - lo < fuel -> S0 <= lo -> hi <= H0 ->
    (forall k, S0 <= k < H0 -> mb pr ch k = true -> lo <= k < hi) ->
    match phase2 fuel pr ch lo hi with
    | P2Ret _ => forall k, S0 <= k < H0 -> mb pr ch k = false
    | P2Mid m => lo <= m < hi /\ pr m = Byte ch
    end.
  Proof.
    induction fuel as [|fuel IH]; intros lo hi Hf Hlo Hhi Hin; [lia|]. cbn [phase2].
    destruct (Nat.leb_spec hi lo) as [Hge|Hlt].
    - intros k Hk. destruct (mb pr ch k) eqn:E; [|reflexivity]. specialize (Hin k Hk E). lia.
    - pose proof (mid_bounds lo hi Hlt) as Hmid. set (mid := lo + (hi - lo) / 2) in *.
      destruct (region_byte mid ltac:(lia)) as [b Eb]. rewrite Eb.
      destruct (N.ltb_spec b ch) as [Hb|Hb].
      + assert (Hin' : forall k, S0 <= k < H0 -> mb pr ch k = true -> mid + 1 <= k < hi).
        { intros k Hk Hm. specialize (Hin k Hk Hm). split; [|lia].
          destruct (Nat.le_gt_cases k mid) as [Hle|]; [exfalso|lia].
          apply mb_true in Hm. pose proof (Hmono k mid ltac:(lia) Hle ltac:(lia)) as Hc.
          rewrite Hm, Eb in Hc. cbn [pk] in Hc. lia. }
        specialize (IH (mid + 1) hi ltac:(lia) ltac:(lia) Hhi Hin').
        destruct (phase2 fuel pr ch (mid + 1) hi); [exact IH|]. destruct IH; split; [lia|assumption].
      + destruct (N.ltb_spec ch b) as [Hb'|Hb'].
        * assert (Hin' : forall k, S0 <= k < H0 -> mb pr ch k = true -> lo <= k < mid).
          { intros k Hk Hm. specialize (Hin k Hk Hm). split; [lia|].
            destruct (Nat.lt_ge_cases k mid) as [|Hge]; [lia|exfalso].
            apply mb_true in Hm. pose proof (Hmono mid k ltac:(lia) Hge ltac:(lia)) as Hc.
            rewrite Hm, Eb in Hc. cbn [pk] in Hc. lia. }
          specialize (IH lo mid ltac:(lia) Hlo ltac:(lia) Hin').
          destruct (phase2 fuel pr ch lo mid); [exact IH|]. destruct IH; split; [lia|assumption].
        * split; [lia|]. rewrite Eb. f_equal. lia.
  Qed.

  (* ---------- phases 3 and 4 ---------- *)
  Lemma bound_loop_partition (right : N -> bool) :
    (forall x y, (x <= y)%N -> right y = true -> right x = true) ->
    forall fuel l r, S0 <= l -> l <= r -> r <= H0 -> r - l < fuel ->
      let k := bound_loop fuel pr right l r in
      l <= k <= r /\
      (forall i b, l <= i < k -> pr i = Byte b -> right b = true) /\
      (forall i b, k <= i < r -> pr i = Byte b -> right b = false).
  Proof.
    intros Hr. induction fuel as [|fuel IH]; intros l r Hl Hlr Hrn Hf; [lia|].
    cbn [bound_loop]. destruct (Nat.ltb_spec l r) as [Hlt|Hge].
    - pose proof (mid_bounds l r Hlt) as Hmid. set (mid := l + (r - l) / 2) in *.
      destruct (region_byte mid ltac:(lia)) as [bm Eb]. rewrite Eb.
      destruct (right bm) eqn:Fm.
      + destruct (IH (mid + 1) r) as (Hk & Ht & Hfa); try lia.
        cbv zeta. split; [lia|]. split; [|exact Hfa].
        intros i b Hi Ei. destruct (Nat.lt_ge_cases i (mid + 1)) as [Him|Him].
        * apply (Hr b bm); [|exact Fm].
          pose proof (Hmono i mid ltac:(lia) ltac:(lia) ltac:(lia)) as Hc. rewrite Ei, Eb in Hc. cbn [pk] in Hc. lia.
        * apply (Ht i b); [lia|exact Ei].
      + destruct (IH l mid) as (Hk & Ht & Hfa); try lia.
        cbv zeta. split; [lia|]. split; [exact Ht|].
        intros i b Hi Ei. destruct (Nat.lt_ge_cases i mid) as [Him|Him].
        * apply (Hfa i b); [lia|exact Ei].
        * destruct (right b) eqn:Fi; [|reflexivity].
          assert (Fm' : right bm = true).
          { apply (Hr bm b); [|exact Fi].
            pose proof (Hmono mid i ltac:(lia) Him ltac:(lia)) as Hc. rewrite Ei, Eb in Hc. cbn [pk] in Hc. lia. }
          congruence.
    - cbv zeta. split; [lia|]. split; intros i b Hi; lia.
  Qed.
End Range.

(* ---------- the whole function over an abstract probe ---------- *)
Theorem sa_equal_range_binary_exact pr salen ch lo hi :
  (forall k, k < salen -> pr k <> NoRank) ->
  (forall i j, lo <= i -> i <= j -> j < Nat.min hi salen -> (pk (pr i) <= pk (pr j))%N) ->
  let '(l, r) := sa_equal_range_binary pr salen lo hi ch in
  l <= r /\ forall k, l <= k < r <-> (lo <= k < Nat.min hi salen /\ pr k = Byte ch).
Proof.
  intros Hnr Hmono. unfold sa_equal_range_binary. set (shi := Nat.min hi salen) in *.
  destruct (Nat.leb_spec shi lo) as [Hge|Hlt].
  { split; [lia|]. intros k; split; lia. }
  destruct (skip_oob_spec pr (S (shi - lo)) lo shi ltac:(lia)) as (Hs1 & Hs2 & Hs3 & Hs4).
  set (slo := skip_oob (S (shi - lo)) pr lo shi) in *.
  assert (Hbelow : forall k, lo <= k < slo -> pr k <> Byte ch).
  { intros k Hk. rewrite (Hs3 k Hk). discriminate. }
  destruct (Nat.leb_spec shi slo) as [Hge2|Hlt2].
  { split; [lia|]. intros k; split; [lia|]. intros [Hk Hm]. exfalso. apply (Hbelow k); [lia|exact Hm]. }
  assert (Hnoob : forall k, slo <= k < shi -> pr k <> Oob).
  { intros k Hk E. pose proof (Hmono slo k ltac:(lia) ltac:(lia) ltac:(lia)) as Hc. rewrite E in Hc.
    specialize (Hs4 Hlt2). specialize (Hnr slo ltac:(lia)).
    destruct (pr slo); cbn [pk] in Hc; try contradiction; try lia. }
  assert (Hmono' : forall i j, slo <= i -> i <= j -> j < shi -> (pk (pr i) <= pk (pr j))%N).
  { intros i j Hi Hij Hj. apply Hmono; lia. }
  destruct (Nat.leb_spec (shi - slo) 3) as [Hsmall|Hbig].
  { (* linear *)
    pose proof (linear_exact pr salen ch Hnr slo shi) as Hl.
    replace (Nat.min shi salen) with shi in Hl by lia.
    specialize (Hl Hmono').
    destruct (sa_equal_range_linear pr salen slo shi ch) as [l r].
    destruct Hl as [Hlr Hiff]. split; [exact Hlr|]. intros k. rewrite Hiff. split.
    - intros [Hk Hm]. split; [lia|exact Hm].
    - intros [Hk Hm]. split; [|exact Hm]. destruct (Nat.lt_ge_cases k slo); [|lia].
      exfalso. apply (Hbelow k); [lia|exact Hm]. }
  pose proof (phase2_spec pr salen ch Hnr slo shi ltac:(lia) Hmono' Hnoob (S (shi - slo)) slo shi
                ltac:(lia) (le_n _) (le_n _) ltac:(intros; lia)) as H2.
  destruct (phase2 (S (shi - slo)) pr ch slo shi) as [x|m].
  { split; [lia|]. intros k; split; [lia|]. intros [Hk Hm]. exfalso.
    destruct (Nat.lt_ge_cases k slo) as [Hks|Hks]; [apply (Hbelow k); [lia|exact Hm]|].
    apply mb_true in Hm. rewrite H2 in Hm by lia. discriminate. }
  destruct H2 as [Hm Em].
  assert (Hr3 : forall x y, (x <= y)%N -> (fun b => (b <? ch)%N) y = true -> (fun b => (b <? ch)%N) x = true).
  { intros x y Hxy Hy. cbv beta in *. apply N.ltb_lt in Hy. apply N.ltb_lt. lia. }
  assert (Hr4 : forall x y, (x <= y)%N -> (fun b => (b <=? ch)%N) y = true -> (fun b => (b <=? ch)%N) x = true).
  { intros x y Hxy Hy. cbv beta in *. apply N.leb_le in Hy. apply N.leb_le. lia. }
  assert (HH : shi <= salen) by lia.
  destruct (bound_loop_partition pr salen ch Hnr slo shi HH Hmono' Hnoob _ Hr3 (S (S m - slo)) slo (m + 1)
              (le_n _) ltac:(lia) ltac:(lia) ltac:(lia)) as (Hl1 & Hl2 & Hl3).
  destruct (bound_loop_partition pr salen ch Hnr slo shi HH Hmono' Hnoob _ Hr4 (S (shi - m)) m shi
              ltac:(lia) ltac:(lia) (le_n _) ltac:(lia)) as (Hu1 & Hu2 & Hu3).
  set (l := bound_loop (S (S m - slo)) pr (fun b => (b <? ch)%N) slo (m + 1)) in *.
  set (u := bound_loop (S (shi - m)) pr (fun b => (b <=? ch)%N) m shi) in *.
  assert (Hlm : l <= m).
  { destruct (Nat.le_gt_cases l m) as [H|H]; [exact H|exfalso].
    specialize (Hl2 m ch ltac:(lia) Em). cbv beta in Hl2. apply N.ltb_lt in Hl2. lia. }
  assert (Hmu : m < u).
  { destruct (Nat.lt_ge_cases m u) as [H|H]; [exact H|exfalso].
    specialize (Hu3 m ch ltac:(lia) Em). cbv beta in Hu3. apply N.leb_gt in Hu3. lia. }
  split; [lia|]. intros k. split.
  - intros Hk. split; [lia|].
    destruct (region_byte pr salen Hnr slo shi HH Hmono' Hnoob k ltac:(lia)) as [b Eb]. rewrite Eb. f_equal.
    destruct (Nat.le_gt_cases k m) as [Hkm|Hkm].
    + specialize (Hl3 k b ltac:(lia) Eb). cbv beta in Hl3. apply N.ltb_ge in Hl3.
      pose proof (Hmono' k m ltac:(lia) Hkm ltac:(lia)) as Hc. rewrite Eb, Em in Hc. cbn [pk] in Hc. lia.
    + specialize (Hu2 k b ltac:(lia) Eb). cbv beta in Hu2. apply N.leb_le in Hu2.
      pose proof (Hmono' m k ltac:(lia) ltac:(lia) ltac:(lia)) as Hc. rewrite Eb, Em in Hc. cbn [pk] in Hc. lia.
  - intros [Hk Hmk].
    destruct (Nat.lt_ge_cases k slo) as [Hks|Hks]; [exfalso; apply (Hbelow k); [lia|exact Hmk]|].
    split.
    + destruct (Nat.le_gt_cases l k) as [H|H]; [exact H|exfalso].
      specialize (Hl2 k ch ltac:(lia) Hmk). cbv beta in Hl2. apply N.ltb_lt in Hl2. lia.
    + destruct (Nat.lt_ge_cases k u) as [H|H]; [exact H|exfalso].
      specialize (Hu3 k ch ltac:(lia) Hmk). cbv beta in Hu3. apply N.leb_gt in Hu3. lia.
Qed.
