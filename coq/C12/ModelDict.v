(* C12 mechanism model, PA-Zip dictionary matcher: src/compression/dict_zip/dictionary.rs as written.
   - SuffixArrayDictionary::{sa_equal_range, sa_equal_range_linear, sa_equal_range_binary_optimized}
     (phase 1 skip of suffixes that end at the depth, the "<= 3 ranks -> linear scan" shortcut,
      phase 2 "find any hit", phase 3 lower bound in [search_lo, mideq+1), phase 4 upper bound in
      [mideq, search_hi), every `None => break / return` and every out-of-bounds branch)
   - sa_match_continuation (the while loop, fuel = input length + 1)
   - da_match_max_length: the DFA-cache walk.  In this code DfaCache::get_zstr_length is the constant
     None and DfaCache::get_state is Some only for state 0 (the root, range 0..len as u32), so the
     zstr block is dead and is omitted; the trie's transition function (ZiporaTrie, property C05) is
     the parameter `trans`.
   Every access to the arrays in the four functions has the same shape - `sa.get(k)`, then
   `suffix_idx + pos >= dictionary_text.len()`, then `dictionary_text[suffix_idx + pos]` - and is
   modelled by `probe`.  Ranks, positions and depths are nat (usize, no overflow reachable: all
   values are <= 2 * len), bytes are N.  Definitions only. *)
From ZV.Common Require Import Base.
From ZV.C12 Require Import Spec Model.
Open Scope nat_scope.

Inductive probe_t := NoRank | Oob | Byte (b : N).

Definition probe (t : list N) (sa : list nat) (pos k : nat) : probe_t :=
  match nth_error sa k with
  | None => NoRank
  | Some s => if length t <=? s + pos then Oob else Byte (nth (s + pos) t 0%N)
  end.

(* ---------- sa_equal_range_linear ---------- *)
Fixpoint linear_go (pr : nat -> probe_t) (ch : N) (idxs : list nat) (first last : option nat)
  : option nat * option nat :=
  match idxs with
  | [] => (first, last)
  | i :: rest =>
      match pr i with
      | Byte b =>
          if N.eqb b ch
          then linear_go pr ch rest (match first with None => Some i | Some _ => first end) (Some i)
          else linear_go pr ch rest first last
      | _ => linear_go pr ch rest first last
      end
  end.

Definition sa_equal_range_linear (pr : nat -> probe_t) (salen lo hi : nat) (ch : N) : nat * nat :=
  let actual_hi := Nat.min hi salen in
  match linear_go pr ch (seq lo (actual_hi - lo)) None None with
  | (Some f, Some l) => (f, l + 1)
  | _ => (lo, lo)
  end.

(* ---------- phase 1: while search_lo < search_hi { if sa[search_lo] + pos >= len { search_lo += 1 } else { break } } ---------- *)
Fixpoint skip_oob (fuel : nat) (pr : nat -> probe_t) (lo hi : nat) : nat :=
  match fuel with
  | 0 => lo
  | S f => if lo <? hi then match pr lo with Oob => skip_oob f pr (lo + 1) hi | _ => lo end else lo
  end.

(* ---------- phase 2: find ANY rank whose byte at the depth is ch ---------- *)
Inductive p2_t := P2Ret (x : nat) | P2Mid (m : nat).
Fixpoint phase2 (fuel : nat) (pr : nat -> probe_t) (ch : N) (lo hi : nat) : p2_t :=
  match fuel with
  | 0 => P2Ret lo
  | S f =>
      if hi <=? lo then P2Ret lo
      else
        let mid := lo + (hi - lo) / 2 in
        match pr mid with
        | NoRank => P2Ret lo
        | Oob => if lo <? mid then phase2 f pr ch lo mid else phase2 f pr ch (mid + 1) hi
        | Byte b =>
            if (b <? ch)%N then phase2 f pr ch (mid + 1) hi
            else if (ch <? b)%N then phase2 f pr ch lo mid
            else P2Mid mid
        end
  end.

(* ---------- phases 3 and 4: while lo < hi { mid; None => break; out of bounds => lo = mid + 1;
   if right(byte) { lo = mid + 1 } else { hi = mid } }; the result is lo ---------- *)
Fixpoint bound_loop (fuel : nat) (pr : nat -> probe_t) (right : N -> bool) (lo hi : nat) : nat :=
  match fuel with
  | 0 => lo
  | S f =>
      if lo <? hi then
        let mid := lo + (hi - lo) / 2 in
        match pr mid with
        | NoRank => lo
        | Oob => bound_loop f pr right (mid + 1) hi
        | Byte b => if right b then bound_loop f pr right (mid + 1) hi
                    else bound_loop f pr right lo mid
        end
      else lo
  end.

Definition sa_equal_range_binary (pr : nat -> probe_t) (salen lo hi : nat) (ch : N) : nat * nat :=
  let search_hi := Nat.min hi salen in
  if search_hi <=? lo then (lo, lo)
  else
    let slo := skip_oob (S (search_hi - lo)) pr lo search_hi in
    if search_hi <=? slo then (slo, slo)
    else if search_hi - slo <=? 3 then sa_equal_range_linear pr salen slo search_hi ch
    else
      match phase2 (S (search_hi - slo)) pr ch slo search_hi with
      | P2Ret x => (x, x)
      | P2Mid m =>
          (bound_loop (S (S m - slo)) pr (fun b => (b <? ch)%N) slo (m + 1),
           bound_loop (S (search_hi - m)) pr (fun b => (b <=? ch)%N) m search_hi)
      end.

Definition sa_equal_range (t : list N) (sa : list nat) (lo hi pos : nat) (ch : N) : nat * nat :=
  if (hi <=? lo) || (length sa <=? lo) then (lo, lo)
  else sa_equal_range_binary (probe t sa pos) (length sa) lo hi ch.

(* ---------- sa_match_continuation ---------- *)
Fixpoint sa_match_go (fuel : nat) (t : list N) (sa : list nat) (lo hi pos : nat) (input : list N)
  : nat * nat * nat :=
  match fuel with
  | 0 => (lo, hi, pos)
  | S f =>
      if (pos <? length input) && (lo <? hi) then
        let '(nl, nh) := sa_equal_range t sa lo hi pos (nth pos input 0%N) in
        if nh <=? nl then (lo, hi, pos)
        else sa_match_go f t sa nl nh (pos + 1) input
      else (lo, hi, pos)
  end.
Definition sa_match_continuation (t : list N) (sa : list nat) (lo hi pos : nat) (input : list N) :=
  sa_match_go (S (length input)) t sa lo hi pos input.

(* ---------- da_match_max_length ---------- *)
(* DfaCache::get_state: Some only for the root; `self.suffix_array.len() as u32` then `as usize` *)
Definition get_state (sa : list nat) (s : N) : option (nat * nat) :=
  if N.eqb s 0 then Some (0, N.to_nat (N.of_nat (length sa) mod 4294967296)%N) else None.

Section Da.
  Variable trans : N -> N -> option N.   (* DfaCache::transition_state = ZiporaTrie::transition *)

  Fixpoint da_go (fuel : nat) (t : list N) (sa : list nat) (input : list N)
           (state : N) (lo hi pos : nat) : nat * nat * nat :=
    match fuel with
    | 0 => (lo, hi, pos)
    | S f =>
        if pos <? length input then
          match trans state (nth pos input 0%N) with
          | Some next =>
              match get_state sa next with
              | Some (slo, shi) => da_go f t sa input next slo shi (pos + 1)
              | None => sa_match_continuation t sa lo hi pos input
              end
          | None => sa_match_continuation t sa lo hi pos input
          end
        else (lo, hi, pos)
    end.

  Definition da_match_max_length (t : list N) (sa : list nat) (input : list N) : nat * nat * nat :=
    match input with
    | [] => (0, 0, 0)
    | _ => da_go (S (length input)) t sa input 0%N 0 (length sa) 0
    end.
End Da.
