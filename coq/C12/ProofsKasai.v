(* Kasai as written (h is not reset at rank 0) computes the exact LCP array of a suffix array;
   the BWT as written is the spec BWT. *)
From ZV.Common Require Import Base.
From Coq Require Import Sorting.Permutation Sorting.Sorted.
From ZV.C12 Require Import Spec Model ProofsOrder ProofsSearch.
Open Scope nat_scope.

(* ---------- list update ---------- *)
Lemma upd_length {A} (l : list A) i v : length (upd l i v) = length l.
Proof.
  unfold upd. destruct (Nat.ltb_spec i (length l)) as [H|H]; [|reflexivity].
  rewrite app_length. cbn [length]. rewrite firstn_length, skipn_length. lia.
Qed.

Lemma upd_nth_same {A} (l : list A) i v d : i < length l -> nth i (upd l i v) d = v.
Proof.
  intros H. unfold upd. destruct (Nat.ltb_spec i (length l)); [|lia].
  rewrite app_nth2; rewrite firstn_length; [|lia].
  replace (i - Nat.min i (length l)) with 0 by lia. reflexivity.
Qed.

Lemma upd_nth_other {A} (l : list A) i j v d : j <> i -> nth j (upd l i v) d = nth j l d.
Proof.
  intros Hne. unfold upd. destruct (Nat.ltb_spec i (length l)) as [H|H]; [|reflexivity].
  destruct (Nat.lt_ge_cases j i) as [Hji|Hji].
  - rewrite app_nth1 by (rewrite firstn_length; lia). apply nth_firstn_lt. exact Hji.
  - rewrite app_nth2 by (rewrite firstn_length; lia). rewrite firstn_length.
    replace (j - Nat.min i (length l)) with (S (j - S i)) by lia. cbn [nth].
    rewrite nth_skipn_add. f_equal. lia.
Qed.

Lemma nth_map_seq {A} (f : nat -> A) n k d : k < n -> nth k (map f (seq 0 n)) d = f k.
Proof.
  intros Hk. rewrite (nth_indep _ d (f 0)) by (rewrite map_length, seq_length; exact Hk).
  rewrite map_nth, seq_nth by exact Hk. reflexivity.
Qed.

(* ---------- longest common prefix ---------- *)
Lemma lcp_len_comm a : forall b, lcp_len a b = lcp_len b a.
Proof.
  induction a as [|x a IH]; intros [|y b]; cbn [lcp_len]; try reflexivity.
  rewrite (N.eqb_sym y x). destruct (N.eqb x y); [f_equal; apply IH|reflexivity].
Qed.

Lemma lcp_len_le a : forall b, lcp_len a b <= length a.
Proof.
  induction a as [|x a IH]; intros [|y b]; cbn [lcp_len length]; try lia.
  destruct (N.eqb x y); [specialize (IH b)|]; lia.
Qed.

(* a <= b < c lexicographically: b shares at least as much with c as a does *)
Lemma lcp_sandwich a : forall b c, lex_lt a b -> lex_lt b c -> lcp_len a c <= lcp_len b c.
Proof.
  unfold lex_lt. induction a as [|x a IH]; intros b c Hab Hbc; [cbn [lcp_len]; lia|].
  destruct b as [|y b]; [discriminate|]. destruct c as [|z c]; [discriminate|].
  cbn [lex_cmp lcp_len] in *.
  destruct (N.eqb_spec x z) as [->|Hxz]; [|lia].
  destruct (N.compare_spec z y) as [<-|Hzy|Hzy]; try discriminate.
  - rewrite N.compare_refl in Hbc. rewrite N.eqb_refl. specialize (IH b c Hab Hbc). lia.
  - destruct (N.compare_spec y z) as [->|Hyz|Hyz]; try discriminate; exfalso; lia.
Qed.

Lemma skipn_cons_nth {A} (d : A) : forall i (l : list A), i < length l ->
  skipn i l = nth i l d :: skipn (S i) l.
Proof.
  induction i as [|i IH]; intros [|x l] H; cbn [length] in H; try lia; [reflexivity|].
  cbn [skipn nth]. rewrite IH by lia. reflexivity.
Qed.

(* one step of the comparison loop, in terms of suffixes *)
Lemma lcp_step t i j :
  lcp_len (suffix t i) (suffix t j) =
  if (i <? length t) && (j <? length t) && N.eqb (nth i t 0%N) (nth j t 0%N)
  then S (lcp_len (suffix t (S i)) (suffix t (S j))) else 0.
Proof.
  unfold suffix.
  destruct (Nat.ltb_spec i (length t)) as [Hi|Hi]; cbn [andb].
  - rewrite (skipn_cons_nth 0%N i t Hi).
    destruct (Nat.ltb_spec j (length t)) as [Hj|Hj]; cbn [andb].
    + rewrite (skipn_cons_nth 0%N j t Hj). cbn [lcp_len]. reflexivity.
    + rewrite (skipn_all2 t Hj). reflexivity.
  - rewrite (skipn_all2 t Hi). reflexivity.
Qed.

Lemma extend_spec t i j : forall fuel h,
  lcp_len (suffix t (i + h)) (suffix t (j + h)) <= fuel ->
  extend fuel t (length t) i j h = h + lcp_len (suffix t (i + h)) (suffix t (j + h)).
Proof.
  induction fuel as [|fuel IH]; intros h Hf; cbn [extend].
  - lia.
  - rewrite lcp_step in Hf |- *.
    destruct ((i + h <? length t) && (j + h <? length t) && N.eqb (nth (i + h) t 0%N) (nth (j + h) t 0%N)); [|lia].
    rewrite IH; replace (i + S h) with (S (i + h)) by lia; replace (j + S h) with (S (j + h)) by lia; lia.
Qed.

Lemma lcp_shift t i j : forall h, h <= lcp_len (suffix t i) (suffix t j) ->
  lcp_len (suffix t i) (suffix t j) = h + lcp_len (suffix t (i + h)) (suffix t (j + h)).
Proof.
  induction h as [|h IH]; intros Hh; [rewrite !Nat.add_0_r; reflexivity|].
  rewrite IH by lia. rewrite IH in Hh by lia.
  rewrite (lcp_step t (i + h) (j + h)) in Hh |- *.
  destruct ((i + h <? length t) && (j + h <? length t) && N.eqb (nth (i + h) t 0%N) (nth (j + h) t 0%N)); [|lia].
  replace (i + S h) with (S (i + h)) by lia; replace (j + S h) with (S (j + h)) by lia; lia.
Qed.

Lemma extend_exact t i j h :
  h <= lcp_len (suffix t i) (suffix t j) ->
  extend (length t) t (length t) i j h = lcp_len (suffix t i) (suffix t j).
Proof.
  intros Hh. rewrite extend_spec.
  - symmetry. apply lcp_shift. exact Hh.
  - etransitivity; [apply lcp_len_le|]. rewrite suffix_length. lia.
Qed.

(* dropping a common first byte *)
Lemma suffix_tail_lt t i j :
  suf_lt t j i -> 1 <= lcp_len (suffix t j) (suffix t i) ->
  suf_lt t (S j) (S i) /\
  lcp_len (suffix t (S j)) (suffix t (S i)) = lcp_len (suffix t j) (suffix t i) - 1.
Proof.
  unfold suf_lt, lex_lt, suffix. intros Hlt Hl.
  destruct (Nat.lt_ge_cases j (length t)) as [Hj|Hj]; [|rewrite (skipn_all2 t Hj) in Hl; cbn [lcp_len] in Hl; lia].
  destruct (Nat.lt_ge_cases i (length t)) as [Hi|Hi];
    [|rewrite (skipn_all2 t Hi) in Hl; rewrite lcp_len_comm in Hl; cbn [lcp_len] in Hl; lia].
  rewrite (skipn_cons_nth 0%N j t Hj), (skipn_cons_nth 0%N i t Hi) in Hlt, Hl |- *.
  cbn [lex_cmp lcp_len] in Hlt, Hl |- *.
  destruct (N.eqb_spec (nth j t 0%N) (nth i t 0%N)) as [E|E]; [|lia].
  rewrite E, N.compare_refl in Hlt. split; [exact Hlt|lia].
Qed.

(* ---------- the inverse permutation ---------- *)
Lemma inverse_go_spec n : forall sa i rank,
  NoDup sa -> Forall (fun s => s < n) sa -> length rank = n ->
  let r := inverse_go sa i n rank in
  length r = n /\
  (forall m, m < length sa -> nth (nth m sa 0) r 0 = i + m) /\
  (forall x, ~ In x sa -> nth x r 0 = nth x rank 0).
Proof.
  induction sa as [|s sa IH]; intros i rank Hnd Hlt Hlen; cbn [inverse_go].
  - cbv zeta. split; [exact Hlen|]. split; [cbn [length]; lia|reflexivity].
  - inversion Hnd as [|? ? Hni Hnd']; subst. inversion Hlt as [|? ? Hs Hlt']; subst.
    destruct (Nat.ltb_spec s (length rank)) as [_|Hc]; [|lia].
    destruct (IH (S i) (upd rank s i) Hnd' Hlt') as (H1 & H2 & H3); [rewrite upd_length; reflexivity|].
    cbv zeta. split; [exact H1|]. split.
    + intros [|m] Hm; cbn [nth length] in *.
      * rewrite H3 by exact Hni. rewrite upd_nth_same by lia. lia.
      * rewrite H2 by lia. lia.
    + intros x Hx. cbn [In] in Hx. rewrite H3 by tauto. apply upd_nth_other. intros ->. tauto.
Qed.

Section Kasai.
  Variables (t : list N) (sa : list nat).
  Hypothesis Hsa : is_sa t sa.
  Let n := length t.
  Let rank := inverse_go (firstn n sa) 0 n (repeat 0 n).
  Let rk (i : nat) := nth i rank 0.
  Let sx (k : nat) := nth k sa 0.

  Lemma sa_len : length sa = n.
  Proof. destruct Hsa as [HP _]. apply Permutation_length in HP. rewrite seq_length in HP. exact HP. Qed.
  Lemma sa_nodup : NoDup sa.
  Proof. destruct Hsa as [HP _]. eapply Permutation_NoDup; [apply Permutation_sym; exact HP|apply seq_NoDup]. Qed.
  Lemma sa_lt k : k < n -> sx k < n.
  Proof.
    intros Hk. destruct Hsa as [HP _]. assert (Hin : In (sx k) sa) by (apply nth_In; rewrite sa_len; exact Hk).
    apply (Permutation_in _ HP) in Hin. apply in_seq in Hin. lia.
  Qed.

  Lemma rank_of_sx k : k < n -> rk (sx k) = k.
  Proof.
    intros Hk. unfold rk, rank. rewrite firstn_all2 by (rewrite sa_len; lia).
    destruct (inverse_go_spec n sa 0 (repeat 0 n)) as (_ & H & _).
    - apply sa_nodup.
    - rewrite Forall_forall. intros s Hs. destruct Hsa as [HP _].
      apply (Permutation_in _ HP) in Hs. apply in_seq in Hs. lia.
    - apply repeat_length.
    - apply H. rewrite sa_len. exact Hk.
  Qed.

  Lemma sx_of_rank i : i < n -> rk i < n /\ sx (rk i) = i.
  Proof.
    intros Hi. destruct Hsa as [HP _].
    assert (Hin : In i sa) by (apply (Permutation_in _ (Permutation_sym HP)); apply in_seq; lia).
    apply (In_nth _ _ 0) in Hin. destruct Hin as (k & Hk & E). rewrite sa_len in Hk.
    fold (sx k) in E. rewrite <- E. rewrite rank_of_sx by exact Hk. auto.
  Qed.

  Lemma rank_sorted k1 k2 : k1 < k2 -> k2 < n -> suf_lt t (sx k1) (sx k2).
  Proof.
    intros H1 H2. destruct Hsa as [_ HS].
    apply (strongly_sorted_nth (suf_lt t) 0 sa HS); [exact H1|rewrite sa_len; exact H2].
  Qed.

  Lemma rank_mono i' i : i' < n -> i < n -> suf_lt t i' i -> rk i' < rk i.
  Proof.
    intros Hi' Hi Hlt. destruct (sx_of_rank i' Hi') as [Hr' E']. destruct (sx_of_rank i Hi) as [Hr E].
    destruct (Nat.lt_total (rk i') (rk i)) as [H|[H|H]]; [exact H| |].
    - exfalso. rewrite <- E', H, E in Hlt. exact (lex_lt_irrefl _ Hlt).
    - exfalso. pose proof (rank_sorted _ _ H Hr') as Hs. rewrite E, E' in Hs.
      exact (lex_lt_asym _ _ Hlt Hs).
  Qed.

  (* the exact value Kasai must store at rank r > 0 *)
  Let L (i : nat) := lcp_len (suffix t (sx (rk i - 1))) (suffix t i).

  Definition kinv (i : nat) (lcp : list nat) (h : nat) : Prop :=
    length lcp = n /\ nth 0 lcp 0 = 0 /\
    (forall i', i' < i -> 0 < rk i' -> nth (rk i') lcp 0 = L i') /\
    (h = 0 \/ exists j', suf_lt t j' i /\ h <= lcp_len (suffix t j') (suffix t i)).

  Lemma kasai_go_inv : forall m i lcp h, i + m = n -> kinv i lcp h ->
    exists lcp' h', kasai_go (seq i m) t sa rank n lcp h = lcp' /\ kinv n lcp' h'.
  Proof.
    induction m as [|m IH]; intros i lcp h Him Hinv.
    - cbn [seq kasai_go]. replace i with n in Hinv by lia. eauto.
    - cbn [seq kasai_go]. fold (rk i). destruct Hinv as (Hlen & H0 & Hdone & Hh).
      assert (Hi : i < n) by lia. destruct (sx_of_rank i Hi) as [Hr Es].
      destruct (Nat.ltb_spec 0 (rk i)) as [Hpos|Hz].
      + (* rank > 0: extend from h against the predecessor in rank order *)
        fold (sx (rk i - 1)). set (j := sx (rk i - 1)).
        assert (Hj : j < n) by (apply sa_lt; lia).
        assert (Hji : suf_lt t j i).
        { pose proof (rank_sorted (rk i - 1) (rk i) ltac:(lia) Hr) as Hs. rewrite Es in Hs. exact Hs. }
        assert (Hle : h <= lcp_len (suffix t i) (suffix t j)).
        { destruct Hh as [->|(j' & Hj'lt & Hj'le)]; [lia|].
          rewrite (lcp_len_comm (suffix t i)).
          destruct (Nat.lt_ge_cases j' n) as [Hj'|Hj'].
          - assert (Hrk : rk j' < rk i) by (apply rank_mono; assumption).
            destruct (sx_of_rank j' Hj') as [Hr' Es'].
            destruct (Nat.eq_dec (rk j') (rk i - 1)) as [E|Hne].
            + unfold j. rewrite <- E, Es'. exact Hj'le.
            + etransitivity; [exact Hj'le|]. apply lcp_sandwich; [|exact Hji].
              rewrite <- Es'. apply rank_sorted; lia.
          - unfold suffix in Hj'le at 1. rewrite skipn_all2 in Hj'le by (fold n; lia).
            cbn [lcp_len] in Hj'le. lia. }
        assert (Eext : extend n t n i j h = lcp_len (suffix t i) (suffix t j)) by (apply extend_exact; exact Hle).
        rewrite Eext. rewrite (lcp_len_comm (suffix t i)).
        assert (EL : lcp_len (suffix t j) (suffix t i) = L i) by reflexivity.
        rewrite EL.
        apply IH; [lia|]. split; [rewrite upd_length; exact Hlen|]. split; [|split].
        * rewrite upd_nth_other by lia. exact H0.
        * intros i' Hi' Hp. destruct (Nat.eq_dec i' i) as [->|Hne].
          -- apply upd_nth_same. lia.
          -- rewrite upd_nth_other; [apply Hdone; [lia|exact Hp]|].
             intros E. apply Hne. destruct (sx_of_rank i' ltac:(lia)) as [_ E'].
             rewrite <- E', E, Es. reflexivity.
        * destruct (Nat.ltb_spec 0 (L i)) as [HL|HL]; [|left; lia].
          right. exists (S j). rewrite <- EL in HL |- *.
          destruct (suffix_tail_lt t i j Hji HL) as [Hlt Heq]. split; [exact Hlt|]. rewrite Heq. lia.
      + (* rank 0: nothing is written and h is kept; it must already be 0 *)
        apply IH; [lia|]. split; [exact Hlen|]. split; [exact H0|]. split.
        * intros i' Hi' Hp. destruct (Nat.eq_dec i' i) as [->|Hne]; [lia|apply Hdone; [lia|exact Hp]].
        * left. destruct Hh as [->|(j' & Hj'lt & Hj'le)]; [reflexivity|].
          destruct (Nat.lt_ge_cases j' n) as [Hj'|Hj'].
          -- pose proof (rank_mono j' i Hj' Hi Hj'lt). lia.
          -- unfold suffix in Hj'le at 1. rewrite skipn_all2 in Hj'le by (fold n; lia).
             cbn [lcp_len] in Hj'le. lia.
  Qed.

  Theorem kasai_correct_section : kasai t sa = Some (lcp_spec t sa).
  Proof.
    unfold kasai. fold n. destruct (Nat.eqb_spec n 0) as [Hz|Hnz].
    - unfold lcp_spec. rewrite sa_len, Hz. reflexivity.
    - destruct (Nat.ltb_spec (length sa) n) as [Hc|_]; [rewrite sa_len in Hc; lia|].
      fold rank. f_equal.
      destruct (kasai_go_inv n 0 (repeat 0 n) 0) as (lcp' & h' & E & Hlen & H0 & Hdone & _); [lia| |].
      { split; [apply repeat_length|]. split; [destruct n; [lia|reflexivity]|]. split; [lia|left; reflexivity]. }
      rewrite E. unfold lcp_spec. apply (nth_ext _ _ 0 0).
      + rewrite map_length, seq_length, sa_len. exact Hlen.
      + intros k Hk. rewrite Hlen in Hk.
        rewrite nth_map_seq by (rewrite sa_len; exact Hk).
        destruct k as [|k']; [exact H0|].
        pose proof (rank_of_sx (S k') Hk) as Er.
        rewrite <- Er at 1. rewrite Hdone; [|apply sa_lt; exact Hk|rewrite Er; lia].
        unfold L. rewrite Er. replace (S k' - 1) with k' by lia. reflexivity.
  Qed.
End Kasai.

Theorem kasai_correct_proof t sa : is_sa t sa -> kasai t sa = Some (lcp_spec t sa).
Proof. apply kasai_correct_section. Qed.

(* ---------- BWT ---------- *)
Theorem bwt_correct_proof t sa : Forall (fun s => s < length t) sa -> bwt t sa = bwt_spec t sa.
Proof.
  intros H. unfold bwt, bwt_spec. apply map_ext_in. intros s Hs.
  rewrite Forall_forall in H. specialize (H s Hs).
  destruct (Nat.eqb_spec s 0) as [->|Hne].
  - cbn [plus]. rewrite Nat.mod_small by lia. reflexivity.
  - replace (s + length t - 1) with ((s - 1) + 1 * length t) by lia.
    rewrite Nat.mod_add by lia. rewrite Nat.mod_small by lia. reflexivity.
Qed.

(* the BWT is a rearrangement of the text *)
Theorem bwt_perm_proof t sa : is_sa t sa -> Permutation (bwt t sa) t.
Proof.
  intros [HP _]. assert (Hlt : Forall (fun s => s < length t) sa).
  { rewrite Forall_forall. intros s Hs. apply (Permutation_in _ HP) in Hs. apply in_seq in Hs. lia. }
  rewrite (bwt_correct_proof t sa Hlt). unfold bwt_spec.
  eapply Permutation_trans; [apply Permutation_map; exact HP|].
  (* the map i -> (i + n - 1) mod n is a rotation of 0..n-1 *)
  destruct t as [|x t']; [reflexivity|]. set (tt := x :: t'). set (n := length tt).
  assert (Hn : n = S (length t')) by reflexivity.
  replace (seq 0 n) with (0 :: seq 1 (length t')) by (rewrite Hn; reflexivity).
  cbn [map]. rewrite <- (seq_shift (length t') 0), map_map.
  assert (E1 : (0 + n - 1) mod n = length t') by (rewrite Nat.mod_small; lia).
  rewrite E1.
  assert (E2 : map (fun i => nth ((S i + n - 1) mod n) tt 0%N) (seq 0 (length t')) = firstn (length t') tt).
  { apply (nth_ext _ _ 0%N 0%N).
    - rewrite map_length, seq_length, firstn_length. subst n tt. cbn [length]. lia.
    - intros k Hk. rewrite map_length, seq_length in Hk.
      rewrite nth_map_seq by exact Hk.
      replace (S k + n - 1) with (k + 1 * n) by lia. rewrite Nat.mod_add by lia. rewrite Nat.mod_small by lia.
      symmetry. apply nth_firstn_lt. exact Hk. }
  rewrite E2.
  assert (E3 : tt = firstn (length t') tt ++ [nth (length t') tt 0%N]).
  { rewrite <- (firstn_skipn (length t') tt) at 1. f_equal.
    rewrite (skipn_cons_nth 0%N (length t') tt) by (subst tt; cbn [length]; lia).
    rewrite skipn_all2 by (subst tt; cbn [length]; lia). reflexivity. }
  rewrite E3 at 3. apply Permutation_cons_append.
Qed.

Example kasai_banana :
  kasai [98;97;110;97;110;97]%N [5;3;1;0;4;2] = Some [0;1;3;0;0;2].
Proof. vm_compute. reflexivity. Qed.
Example bwt_banana :
  bwt [98;97;110;97;110;97]%N [5;3;1;0;4;2] = [110;110;98;97;97;97]%N.
Proof. vm_compute. reflexivity. Qed.
