(* search_range returns exactly the rank range of the suffixes that start with the pattern. *)
From ZV.Common Require Import Base.
From Coq Require Import Sorting.Permutation Sorting.Sorted.
From ZV.C12 Require Import Spec Model ProofsOrder.
Open Scope nat_scope.

(* ---------- the comparator ---------- *)
Lemma cmp_sp_lt s : forall p, cmp_sp s p = Lt <-> lex_lt s p.
Proof.
  unfold lex_lt. induction s as [|x s IH]; intros [|y p]; cbn [cmp_sp lex_cmp]; try (split; congruence).
  destruct (N.compare x y); try (split; congruence). apply IH.
Qed.

Lemma cmp_sp_eq s : forall p, cmp_sp s p = Eq <-> is_prefix p s.
Proof.
  unfold is_prefix. induction s as [|x s IH]; intros [|y p]; cbn [cmp_sp length firstn]; try (split; congruence).
  destruct (N.compare_spec x y) as [->|H|H].
  - rewrite IH. split; [intros ->; reflexivity|intros H; injection H; auto].
  - split; [discriminate|]. intros E; injection E as E _. lia.
  - split; [discriminate|]. intros E; injection E as E _. lia.
Qed.

Lemma cmp_sp_gt_mono p : forall a b, lex_lt a b -> cmp_sp a p = Gt -> cmp_sp b p = Gt.
Proof.
  unfold lex_lt. induction p as [|y p IH]; intros a b Hab Ha.
  - destruct a; discriminate.
  - destruct a as [|x a]; [discriminate|]. destruct b as [|z b]; [discriminate|].
    cbn [cmp_sp lex_cmp] in *.
    destruct (N.compare_spec x z) as [->|Hxz|Hxz]; try discriminate.
    + destruct (N.compare z y); try discriminate; [|reflexivity]. eapply IH; eassumption.
    + destruct (N.compare_spec x y) as [->|Hxy|Hxy]; try discriminate.
      * destruct (N.compare_spec z y); try reflexivity; exfalso; lia.
      * destruct (N.compare_spec z y); try reflexivity; exfalso; lia.
Qed.

Lemma cmp_sp_lt_mono p a b : lex_lt a b -> cmp_sp b p = Lt -> cmp_sp a p = Lt.
Proof. rewrite !cmp_sp_lt. apply lex_lt_trans. Qed.

(* ---------- binary search over a monotone predicate ---------- *)
Lemma bsearch_partition (f : nat -> bool) n :
  (forall i j, i <= j -> j < n -> f j = true -> f i = true) ->
  forall fuel l r, l <= r -> r <= n -> r - l < fuel ->
    let k := bsearch fuel f l r in
    l <= k <= r /\ (forall i, l <= i < k -> f i = true) /\ (forall i, k <= i < r -> f i = false).
Proof.
  intros Hmono. induction fuel as [|fuel IH]; intros l r Hlr Hrn Hf; [lia|].
  cbn [bsearch]. destruct (Nat.ltb_spec l r) as [Hlt|Hge].
  - set (mid := l + (r - l) / 2).
    assert (Hmid : l <= mid < r).
    { subst mid. assert ((r - l) / 2 < r - l) by (apply Nat.div_lt; lia). lia. }
    destruct (f mid) eqn:Fm.
    + destruct (IH (mid + 1) r) as (Hk & Ht & Hfa); try lia.
      cbv zeta. split; [lia|]. split; [|exact Hfa].
      intros i Hi. destruct (Nat.lt_ge_cases i (mid + 1)) as [Him|Him].
      * apply (Hmono i mid); try lia. exact Fm.
      * apply Ht. lia.
    + destruct (IH l mid) as (Hk & Ht & Hfa); try lia.
      cbv zeta. split; [lia|]. split; [exact Ht|].
      intros i Hi. destruct (Nat.lt_ge_cases i mid) as [Him|Him].
      * apply Hfa. lia.
      * destruct (f i) eqn:Fi; [|reflexivity].
        assert (Fm' : f mid = true) by (apply (Hmono mid i); [lia|lia|exact Fi]).
        rewrite Fm in Fm'. discriminate.
  - cbv zeta. split; [lia|]. split; intros i Hi; lia.
Qed.

(* ---------- ranks of a sorted array ---------- *)
Lemma strongly_sorted_nth {A} (R : A -> A -> Prop) d l :
  StronglySorted R l -> forall i j, i < j -> j < length l -> R (nth i l d) (nth j l d).
Proof.
  induction 1 as [|a l Hs IH Ha]; intros i j Hij Hj; cbn [length] in Hj; [lia|].
  destruct j as [|j]; [lia|]. destruct i as [|i]; cbn [nth].
  - rewrite Forall_forall in Ha. apply Ha. apply nth_In. lia.
  - apply IH; lia.
Qed.

Section Search.
  Variables (t : list N) (sa : list nat) (p : list N).
  Hypothesis Hsa : is_sa t sa.

  Let fL := fun mid => match sp_at t sa p mid with Lt => true | _ => false end.
  Let fU := fun mid => match sp_at t sa p mid with Gt => false | _ => true end.

  Lemma rank_lt i j : i < j -> j < length sa ->
    lex_lt (suffix t (nth i sa 0)) (suffix t (nth j sa 0)).
  Proof. destruct Hsa as [_ HS]. intros. apply (strongly_sorted_nth (suf_lt t) 0 sa HS); assumption. Qed.

  Lemma fL_mono i j : i <= j -> j < length sa -> fL j = true -> fL i = true.
  Proof.
    intros Hij Hj. destruct (Nat.eq_dec i j) as [->|Hne]; [auto|].
    unfold fL, sp_at. intros H.
    destruct (cmp_sp (skipn (nth j sa 0) t) p) eqn:E; try discriminate.
    pose proof (rank_lt i j ltac:(lia) Hj) as Hr. unfold suffix in Hr.
    rewrite (cmp_sp_lt_mono p _ _ Hr E). reflexivity.
  Qed.

  Lemma fU_mono i j : i <= j -> j < length sa -> fU j = true -> fU i = true.
  Proof.
    intros Hij Hj. destruct (Nat.eq_dec i j) as [->|Hne]; [auto|].
    unfold fU, sp_at. intros H.
    destruct (cmp_sp (skipn (nth i sa 0) t) p) eqn:E; try reflexivity.
    pose proof (rank_lt i j ltac:(lia) Hj) as Hr. unfold suffix in Hr.
    rewrite (cmp_sp_gt_mono p _ _ Hr E) in H. discriminate.
  Qed.

  Theorem search_exact_section :
    let '(l, r) := search_range t sa p in
    l <= r <= length sa /\
    forall k, k < length sa -> (l <= k < r <-> is_prefix p (suffix t (nth k sa 0))).
  Proof.
    unfold search_range, lower_bound, upper_bound. fold fL fU.
    destruct (bsearch_partition fL (length sa) fL_mono (S (length sa)) 0 (length sa)) as (Hl & HlT & HlF); try lia.
    destruct (bsearch_partition fU (length sa) fU_mono (S (length sa)) 0 (length sa)) as (Hu & HuT & HuF); try lia.
    set (l := bsearch (S (length sa)) fL 0 (length sa)) in *.
    set (u := bsearch (S (length sa)) fU 0 (length sa)) in *.
    assert (Hlu : l <= u).
    { destruct (Nat.le_gt_cases l u) as [H|H]; [exact H|exfalso].
      assert (F1 : fL u = true) by (apply HlT; lia).
      assert (F2 : fU u = false) by (apply HuF; lia).
      unfold fL, fU in F1, F2. destruct (sp_at t sa p u); discriminate. }
    split; [lia|]. intros k Hk. rewrite <- cmp_sp_eq. unfold suffix. fold (sp_at t sa p k). split.
    - intros [H1 H2]. assert (F1 : fL k = false) by (apply HlF; lia).
      assert (F2 : fU k = true) by (apply HuT; lia).
      unfold fL, fU in F1, F2. destruct (sp_at t sa p k); try discriminate; reflexivity.
    - intros E. split.
      + destruct (Nat.le_gt_cases l k) as [H|H]; [exact H|exfalso].
        assert (F1 : fL k = true) by (apply HlT; lia). unfold fL in F1. rewrite E in F1. discriminate.
      + destruct (Nat.le_gt_cases u k) as [H|H]; [exfalso|exact H].
        assert (F2 : fU k = false) by (apply HuF; lia). unfold fU in F2. rewrite E in F2. discriminate.
  Qed.
End Search.

Theorem search_exact_proof t sa p l r :
  is_sa t sa -> search_range t sa p = (l, r) ->
  l <= r <= length sa /\
  forall k, k < length sa -> (l <= k < r <-> is_prefix p (suffix t (nth k sa 0))).
Proof.
  intros Hsa E. pose proof (search_exact_section t sa p Hsa) as H. rewrite E in H. exact H.
Qed.

(* the reported range lists all and only the occurrences, each once *)
Lemma nth_skipn_add {A} (d : A) a : forall l m, nth m (skipn a l) d = nth (a + m) l d.
Proof.
  induction a as [|a IH]; intros l m; [reflexivity|].
  destruct l as [|x l]; cbn [skipn plus nth]; [destruct m; reflexivity|apply IH].
Qed.
Lemma nth_firstn_lt {A} (d : A) c : forall l m, m < c -> nth m (firstn c l) d = nth m l d.
Proof.
  induction c as [|c IH]; intros l m Hm; [lia|].
  destruct l as [|x l]; cbn [firstn]; [reflexivity|].
  destruct m as [|m]; cbn [nth]; [reflexivity|apply IH; lia].
Qed.

Lemma in_slice {A} (d : A) (l : list A) a c x :
  In x (firstn c (skipn a l)) <-> exists k, a <= k < a + c /\ k < length l /\ nth k l d = x.
Proof.
  split.
  - intros H. apply (In_nth _ _ d) in H. destruct H as (m & Hm & <-).
    rewrite firstn_length, skipn_length in Hm.
    exists (a + m). split; [lia|]. split; [lia|].
    rewrite nth_firstn_lt by lia. symmetry. apply nth_skipn_add.
  - intros (k & Hk & Hkl & <-).
    replace k with (a + (k - a)) by lia. rewrite <- nth_skipn_add.
    rewrite <- (nth_firstn_lt d c) by lia.
    apply nth_In. rewrite firstn_length, skipn_length. lia.
Qed.

Theorem search_all_and_only_proof t sa p l c :
  is_sa t sa -> search t sa p = (l, c) ->
  forall i, In i (firstn c (skipn l sa)) <-> occurs t p i.
Proof.
  intros Hsa E. unfold search in E. destruct (search_range t sa p) as [l' r] eqn:Er.
  injection E as <- <-.
  destruct (search_exact_proof t sa p l' r Hsa Er) as (Hlr & Hex).
  destruct Hsa as [HP HS].
  intros i. rewrite (in_slice 0). split.
  - intros (k & Hk & Hkl & <-). split.
    + assert (Hin : In (nth k sa 0) sa) by (apply nth_In; exact Hkl).
      apply (Permutation_in _ HP) in Hin. apply in_seq in Hin. lia.
    + apply Hex; [exact Hkl|lia].
  - intros [Hi Hpre].
    assert (Hin : In i sa).
    { apply (Permutation_in _ (Permutation_sym HP)). apply in_seq. lia. }
    apply (In_nth _ _ 0) in Hin. destruct Hin as (k & Hk & <-).
    exists k. apply Hex in Hpre; [|exact Hk]. split; [lia|]. split; [exact Hk|reflexivity].
Qed.

(* the number of reported ranks is the number of occurrences *)
Definition occursb (t p : list N) (i : nat) : bool :=
  match cmp_sp (suffix t i) p with Eq => true | _ => false end.

Lemma occursb_spec t p i : i < length t -> (occursb t p i = true <-> occurs t p i).
Proof.
  intros Hi. unfold occursb, occurs. rewrite <- cmp_sp_eq.
  destruct (cmp_sp (suffix t i) p); split; try tauto; try discriminate; intros [_ H]; discriminate.
Qed.

Lemma nodup_app_l {A} (a b : list A) : NoDup (a ++ b) -> NoDup a.
Proof.
  induction a as [|x a IH]; cbn [app]; intros H; [constructor|].
  inversion H as [|? ? Hni Hnd]; subst. constructor; [|apply IH; exact Hnd].
  intros Hin. apply Hni. apply in_or_app. left; exact Hin.
Qed.
Lemma nodup_app_r {A} (a b : list A) : NoDup (a ++ b) -> NoDup b.
Proof.
  induction a as [|x a IH]; cbn [app]; intros H; [exact H|].
  inversion H; subst. apply IH; assumption.
Qed.

Theorem search_count_exact_proof t sa p l c :
  is_sa t sa -> search t sa p = (l, c) ->
  c = length (filter (occursb t p) (seq 0 (length t))).
Proof.
  intros Hsa E. pose proof (search_all_and_only_proof t sa p l c Hsa E) as Hall.
  unfold search in E. destruct (search_range t sa p) as [l' r] eqn:Er. injection E as <- <-.
  destruct (search_exact_proof t sa p l' r Hsa Er) as (Hlr & _).
  assert (Hlen : length (firstn (r - l') (skipn l' sa)) = r - l').
  { rewrite firstn_length, skipn_length. lia. }
  rewrite <- Hlen. apply Permutation_length. apply NoDup_Permutation.
  - destruct Hsa as [HP _].
    assert (Hnd : NoDup sa) by (eapply Permutation_NoDup; [apply Permutation_sym; exact HP|apply seq_NoDup]).
    rewrite <- (firstn_skipn l' sa) in Hnd. apply nodup_app_r in Hnd.
    rewrite <- (firstn_skipn (r - l') (skipn l' sa)) in Hnd. apply nodup_app_l in Hnd. exact Hnd.
  - apply NoDup_filter. apply seq_NoDup.
  - intros i. rewrite Hall, filter_In, in_seq. split.
    + intros H. pose proof H as [Hi _]. split; [lia|]. apply occursb_spec; assumption.
    + intros [Hi H]. apply occursb_spec; [lia|exact H].
Qed.

(* the compressor's copy of the search loops agrees with the modelled ones on every array *)
Lemma bsearch_ext f g : forall fuel l r,
  (forall i, i < r -> f i = g i) -> bsearch fuel f l r = bsearch fuel g l r.
Proof.
  induction fuel as [|fuel IH]; intros l r H; cbn [bsearch]; [reflexivity|].
  destruct (Nat.ltb_spec l r) as [Hlt|Hge]; [|reflexivity].
  assert (Hmid : l + (r - l) / 2 < r).
  { assert ((r - l) / 2 < r - l) by (apply Nat.div_lt; lia). lia. }
  rewrite <- (H _ Hmid). destruct (f (l + (r - l) / 2)).
  - apply IH. exact H.
  - apply IH. intros i Hi. apply H. lia.
Qed.

Theorem wrapper_search_same_proof t sa p :
  p <> [] -> w_find_pattern_range t sa p = search_range t sa p.
Proof.
  intros Hp. unfold w_find_pattern_range, search_range.
  destruct p as [|y p]; [contradiction|]. destruct sa as [|s0 sa']; [reflexivity|].
  set (sa := s0 :: sa'). set (pp := y :: p).
  unfold w_lower_bound, w_upper_bound, lower_bound, upper_bound, sp_at. f_equal.
  - apply bsearch_ext. intros i Hi. rewrite (nth_error_nth' sa 0 Hi). reflexivity.
  - apply bsearch_ext. intros i Hi. rewrite (nth_error_nth' sa 0 Hi). reflexivity.
Qed.

Example search_banana :
  search [98;97;110;97;110;97]%N [5;3;1;0;4;2] [97;110]%N = (1, 2).
Proof. vm_compute. reflexivity. Qed.
