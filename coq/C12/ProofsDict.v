(* The PA-Zip dictionary matcher on a suffix array: sa_equal_range refines a rank range whose
   suffixes share a prefix of length d to exactly the ranks with byte c at depth d;
   sa_match_continuation returns the longest prefix of the input that occurs and its exact rank
   range; da_match_max_length is the same function whenever the trie has no transition back to
   its root. *)
From ZV.Common Require Import Base.
From Coq Require Import Sorting.Permutation Sorting.Sorted.
From ZV.C12 Require Import Spec Model ProofsOrder ProofsSearch ModelDict ProofsDictRange.
Open Scope nat_scope.

(* ---------- list facts ---------- *)
Lemma skipn_add {A} (t : list A) : forall s d, skipn d (skipn s t) = skipn (s + d) t.
Proof.
  induction t as [|x t IH]; intros s d.
  - rewrite !skipn_nil. reflexivity.
  - destruct s as [|s]; [reflexivity|]. cbn [skipn Nat.add]. apply IH.
Qed.

Lemma nth_error_skipn {A} (t : list A) : forall s d, nth_error (skipn s t) d = nth_error t (s + d).
Proof.
  induction t as [|x t IH]; intros s d.
  - rewrite skipn_nil. transitivity (@None A); [destruct d; reflexivity|destruct (s + d); reflexivity].
  - destruct s as [|s]; [reflexivity|]. cbn [skipn Nat.add nth_error]. apply IH.
Qed.

Lemma skipn_hd (t : list N) : forall m,
  match skipn m t with
  | [] => length t <= m
  | x :: _ => m < length t /\ nth m t 0%N = x
  end.
Proof.
  induction t as [|y t IH]; intros m.
  - rewrite skipn_nil. cbn [length]. lia.
  - destruct m as [|m]; cbn [skipn length nth].
    + split; [lia|reflexivity].
    + specialize (IH m). destruct (skipn m t); [lia|]. destruct IH; split; [lia|assumption].
Qed.

Lemma lex_cmp_app p : forall a b, lex_cmp (p ++ a) (p ++ b) = lex_cmp a b.
Proof.
  induction p as [|x p IH]; intros a b; cbn [app lex_cmp]; [reflexivity|].
  rewrite N.compare_refl. apply IH.
Qed.

Definition hd_key (l : list N) : N := match l with [] => 0 | x :: _ => x + 1 end.

Lemma lex_lt_hd_key a b : lex_lt a b -> (hd_key a <= hd_key b)%N.
Proof.
  unfold lex_lt. destruct a as [|x a], b as [|y b]; cbn [lex_cmp hd_key]; try discriminate; try lia.
  destruct (N.compare_spec x y); try discriminate; lia.
Qed.

(* ---------- the probe in terms of the suffix ---------- *)
Section Probe.
  Variables (t : list N) (sa : list nat) (d : nat).

  Lemma probe_norank k : k < length sa -> probe t sa d k <> NoRank.
  Proof.
    intros Hk. unfold probe. destruct (nth_error sa k) eqn:E.
    - destruct (length t <=? n + d); discriminate.
    - apply nth_error_None in E. lia.
  Qed.

  Lemma probe_key k : k < length sa ->
    pk (probe t sa d k) = hd_key (skipn d (suffix t (nth k sa 0))).
  Proof.
    intros Hk. unfold probe, suffix. rewrite (nth_error_nth' sa 0 Hk). rewrite skipn_add.
    set (s := nth k sa 0). pose proof (skipn_hd t (s + d)) as H.
    destruct (Nat.leb_spec (length t) (s + d)) as [Hle|Hgt].
    - destruct (skipn (s + d) t); [reflexivity|]. destruct H. lia.
    - destruct (skipn (s + d) t); [lia|]. destruct H as [_ <-]. reflexivity.
  Qed.

  Lemma probe_byte_iff k c : k < length sa ->
    (probe t sa d k = Byte c <-> nth_error (suffix t (nth k sa 0)) d = Some c).
  Proof.
    intros Hk. unfold probe, suffix. rewrite (nth_error_nth' sa 0 Hk). rewrite nth_error_skipn.
    set (s := nth k sa 0).
    destruct (Nat.leb_spec (length t) (s + d)) as [Hle|Hgt].
    - apply nth_error_None in Hle. rewrite Hle. split; discriminate.
    - rewrite (nth_error_nth' t 0%N Hgt). split; intros E; injection E as E; congruence.
  Qed.
End Probe.

(* ---------- sa_equal_range on a suffix array ---------- *)
Theorem sa_equal_range_exact_proof t sa lo hi d c p l r :
  is_sa t sa ->
  length p = d ->
  (forall k, lo <= k < hi -> k < length sa -> firstn d (suffix t (nth k sa 0)) = p) ->
  sa_equal_range t sa lo hi d c = (l, r) ->
  l <= r /\
  forall k, l <= k < r <->
            (lo <= k < hi /\ k < length sa /\ nth_error (suffix t (nth k sa 0)) d = Some c).
Proof.
  intros Hsa Hp Hpre E. unfold sa_equal_range in E.
  destruct (Nat.leb_spec hi lo) as [H1|H1]; cbn [orb] in E.
  { injection E as <- <-. split; [lia|]. intros k; split; lia. }
  destruct (Nat.leb_spec (length sa) lo) as [H2|H2].
  { injection E as <- <-. split; [lia|]. intros k; split; lia. }
  pose proof (sa_equal_range_binary_exact (probe t sa d) (length sa) c lo hi
                (fun k Hk => probe_norank t sa d k Hk)) as HB.
  rewrite E in HB.
  assert (Hmono : forall i j, lo <= i -> i <= j -> j < Nat.min hi (length sa) ->
                    (pk (probe t sa d i) <= pk (probe t sa d j))%N).
  { intros i j Hi Hij Hj. destruct (Nat.eq_dec i j) as [->|Hne]; [lia|].
    rewrite !probe_key by lia.
    pose proof (rank_lt t sa Hsa i j ltac:(lia) ltac:(lia)) as Hlt.
    pose proof (Hpre i ltac:(lia) ltac:(lia)) as Pi. pose proof (Hpre j ltac:(lia) ltac:(lia)) as Pj.
    rewrite <- (firstn_skipn d (suffix t (nth i sa 0))), <- (firstn_skipn d (suffix t (nth j sa 0))) in Hlt.
    rewrite Pi, Pj in Hlt. unfold lex_lt in Hlt. rewrite lex_cmp_app in Hlt.
    apply lex_lt_hd_key. exact Hlt. }
  destruct (HB Hmono) as [Hlr Hiff]. split; [exact Hlr|].
  intros k. rewrite Hiff. split.
  - intros [Hk Hm]. assert (Hks : k < length sa) by lia.
    split; [lia|]. split; [exact Hks|]. apply probe_byte_iff; assumption.
  - intros (Hk & Hks & Hm). split; [lia|]. apply probe_byte_iff; assumption.
Qed.

(* ---------- prefixes ---------- *)
Lemma is_prefix_step (q : list N) : forall pos s, pos < length q ->
  (is_prefix (firstn (S pos) q) s <->
   is_prefix (firstn pos q) s /\ nth_error s pos = Some (nth pos q 0%N)).
Proof.
  unfold is_prefix. induction q as [|x q IH]; intros pos s Hpos; cbn [length] in Hpos; [lia|].
  destruct pos as [|pos].
  - cbn [firstn length nth nth_error]. destruct s as [|y s]; cbn [firstn nth_error].
    + split; [discriminate|intros [_ H]; discriminate].
    + split; [intros H; injection H as ->; auto|intros [_ H]; injection H as ->; reflexivity].
  - change (firstn (S (S pos)) (x :: q)) with (x :: firstn (S pos) q).
    change (firstn (S pos) (x :: q)) with (x :: firstn pos q).
    cbn [length nth]. destruct s as [|y s]; cbn [firstn nth_error].
    + split; [discriminate|intros [H _]; discriminate].
    + specialize (IH pos s ltac:(lia)). split.
      * intros H. injection H as -> H. apply IH in H. destruct H as [H1 H2]. split; [f_equal; exact H1|exact H2].
      * intros [H1 H2]. injection H1 as -> H1. f_equal. apply IH. split; assumption.
Qed.

(* ---------- sa_match_continuation ---------- *)
Section Match.
  Variables (t : list N) (sa : list nat) (q : list N).
  Hypothesis Hsa : is_sa t sa.

  Definition pre_at (pos k : nat) : Prop := is_prefix (firstn pos q) (suffix t (nth k sa 0)).
  Definition range_inv (lo hi pos : nat) : Prop :=
    pos <= length q /\ lo <= hi /\ hi <= length sa /\
    forall k, lo <= k < hi <-> (k < length sa /\ pre_at pos k).

  Lemma sa_match_go_spec : forall fuel lo hi pos, length q - pos < fuel -> range_inv lo hi pos ->
    let '(lo', hi', d) := sa_match_go fuel t sa lo hi pos q in
    range_inv lo' hi' d /\
    (d < length q -> forall k, k < length sa -> ~ pre_at (S d) k).
  Proof.
    induction fuel as [|fuel IH]; intros lo hi pos Hf Hinv; [lia|]. cbn [sa_match_go].
    pose proof Hinv as Hinv0. destruct Hinv as (Hpos & Hlh & Hhi & Hiff).
    destruct (Nat.ltb_spec pos (length q)) as [Hp|Hp]; cbn [andb].
    2:{ split; [exact Hinv0|lia]. }
    destruct (Nat.ltb_spec lo hi) as [Hlt|Hge].
    2:{ split; [exact Hinv0|]. intros _ k Hk Hpre.
        apply (is_prefix_step q pos _ Hp) in Hpre. destruct Hpre as [Hpre _].
        assert (lo <= k < hi) by (apply Hiff; split; assumption). lia. }
    destruct (sa_equal_range t sa lo hi pos (nth pos q 0%N)) as [nl nh] eqn:E.
    pose proof (sa_equal_range_exact_proof t sa lo hi pos (nth pos q 0%N) (firstn pos q) nl nh Hsa) as HX.
    destruct HX as [Hnl Hn]; [apply firstn_length_le; lia| |exact E|].
    { intros k Hk Hks. destruct (proj1 (Hiff k) Hk) as [_ Hpre]. unfold pre_at, is_prefix in Hpre.
      rewrite firstn_length_le in Hpre by lia. exact Hpre. }
    assert (Hstep : forall k, nl <= k < nh <-> (k < length sa /\ pre_at (S pos) k)).
    { intros k. rewrite Hn. unfold pre_at. rewrite (is_prefix_step q pos _ Hp). split.
      - intros (Hk & Hks & Hb). split; [exact Hks|]. split; [apply Hiff; exact Hk|exact Hb].
      - intros (Hks & Hpre & Hb). split; [apply Hiff; split; assumption|]. split; assumption. }
    destruct (Nat.leb_spec nh nl) as [Hemp|Hne].
    - split; [exact Hinv0|]. intros _ k Hk Hpre.
      assert (nl <= k < nh) by (apply Hstep; split; assumption). lia.
    - replace (pos + 1) with (S pos) by lia. apply IH; [lia|].
      split; [lia|]. split; [lia|]. split; [|exact Hstep].
      assert (Hl : nl <= nh - 1 < nh) by lia. apply Hstep in Hl. lia.
  Qed.

  Theorem sa_match_continuation_longest_section :
    let '(lo, hi, d) := sa_match_continuation t sa 0 (length sa) 0 q in
    d <= length q /\ lo <= hi <= length sa /\
    (forall k, lo <= k < hi <-> (k < length sa /\ is_prefix (firstn d q) (suffix t (nth k sa 0)))) /\
    (d < length q -> forall k, k < length sa -> ~ is_prefix (firstn (S d) q) (suffix t (nth k sa 0))).
  Proof.
    unfold sa_match_continuation.
    pose proof (sa_match_go_spec (S (length q)) 0 (length sa) 0 ltac:(lia)) as H.
    destruct (sa_match_go (S (length q)) t sa 0 (length sa) 0 q) as [[lo hi] d].
    destruct H as [(H1 & H2 & H3 & H4) H5].
    - split; [lia|]. split; [lia|]. split; [lia|]. intros k. unfold pre_at, is_prefix. cbn [firstn length]. split.
      + intros Hk. split; [lia|reflexivity].
      + intros [Hk _]. lia.
    - split; [exact H1|]. split; [lia|]. split; [exact H4|exact H5].
  Qed.
End Match.

Theorem sa_match_continuation_longest_proof t sa q lo hi d :
  is_sa t sa -> sa_match_continuation t sa 0 (length sa) 0 q = (lo, hi, d) ->
  d <= length q /\ lo <= hi <= length sa /\
  (forall k, lo <= k < hi <-> (k < length sa /\ is_prefix (firstn d q) (suffix t (nth k sa 0)))) /\
  (d < length q -> forall k, k < length sa -> ~ is_prefix (firstn (S d) q) (suffix t (nth k sa 0))).
Proof.
  intros Hsa E. pose proof (sa_match_continuation_longest_section t sa q Hsa) as H.
  rewrite E in H. exact H.
Qed.

(* ---------- da_match_max_length ---------- *)
Theorem da_match_is_continuation_proof (trans : N -> N -> option N) t sa q :
  (forall b, trans 0%N b <> Some 0%N) -> q <> [] ->
  da_match_max_length trans t sa q = sa_match_continuation t sa 0 (length sa) 0 q.
Proof.
  intros Htr Hq. destruct q as [|x q]; [contradiction|].
  unfold da_match_max_length. cbn [da_go length Nat.ltb Nat.leb nth].
  destruct (trans 0%N x) as [next|] eqn:E; [|reflexivity].
  unfold get_state. destruct (N.eqb_spec next 0) as [->|Hne]; [|reflexivity].
  exfalso. apply (Htr x). exact E.
Qed.

(* the hypothesis is needed: a trie with a byte-labelled loop on its root makes the walk skip a byte *)
Example da_match_root_loop_skips_a_byte :
  let trans := fun (s b : N) => if N.eqb s 0 then Some 0%N else None in
  da_match_max_length trans [97]%N [0] [98]%N = (0, 1, 1)
  /\ sa_match_continuation [97]%N [0] 0 1 0 [98]%N = (0, 1, 0).
Proof. vm_compute. split; reflexivity. Qed.

Theorem da_match_max_length_longest_proof (trans : N -> N -> option N) t sa q lo hi d :
  (forall b, trans 0%N b <> Some 0%N) -> q <> [] ->
  is_sa t sa -> da_match_max_length trans t sa q = (lo, hi, d) ->
  d <= length q /\ lo <= hi <= length sa /\
  (forall k, lo <= k < hi <-> (k < length sa /\ is_prefix (firstn d q) (suffix t (nth k sa 0)))) /\
  (d < length q -> forall k, k < length sa -> ~ is_prefix (firstn (S d) q) (suffix t (nth k sa 0))).
Proof.
  intros Htr Hq Hsa E. rewrite (da_match_is_continuation_proof trans t sa q Htr Hq) in E.
  eapply sa_match_continuation_longest_proof; eassumption.
Qed.

(* ---------- examples: the hypotheses are inhabited ---------- *)
(* banana, sa = [5;3;1;0;4;2]; ranks 0..2 share the prefix "a"; byte 'n' at depth 1 -> ranks 1..2 *)
Example sa_equal_range_banana :
  sa_equal_range [98;97;110;97;110;97]%N [5;3;1;0;4;2] 0 3 1 110%N = (1, 3)
  /\ sa_equal_range [98;97;110;97;110;97]%N [5;3;1;0;4;2] 0 6 0 97%N = (0, 3).
Proof. vm_compute. split; reflexivity. Qed.
(* the binary path (more than 3 ranks after phase 1), hit only at the last rank *)
Example sa_equal_range_last_rank :
  sa_equal_range [97;97;97;97;97;98]%N [0;1;2;3;4;5] 0 6 0 98%N = (5, 6).
Proof. vm_compute. reflexivity. Qed.
Example sa_match_banana :
  sa_match_continuation [98;97;110;97;110;97]%N [5;3;1;0;4;2] 0 6 0 [97;110;97;120]%N = (1, 3, 3).
Proof. vm_compute. reflexivity. Qed.
