(* When does "compare a zero-padded K-byte key, then the remainders" equal the suffix order? *)
From ZV.Common Require Import Base.
From Coq Require Import Sorting.Permutation Sorting.Sorted.
From ZV.C12 Require Import Spec Model ProofsOrder ProofsBuild ModelKeyed.
Open Scope nat_scope.

(* ---------- sort_by with any comparator that is the suffix comparator on the positions sorted ---------- *)
Lemma insert_by_ext cmp t i l :
  (forall j, In j l -> cmp i j = lex_cmp (suffix t i) (suffix t j)) ->
  insert_by cmp i l = insert_suf t i l.
Proof.
  induction l as [|j l IH]; intros H; cbn [insert_by insert_suf]; [reflexivity|].
  rewrite (H j (or_introl eq_refl)). destruct (lex_cmp (suffix t i) (suffix t j)); try reflexivity.
  f_equal. apply IH. intros k Hk. apply H. right. exact Hk.
Qed.

Lemma sort_by_ext cmp t : forall l,
  (forall i j, In i l -> In j l -> cmp i j = lex_cmp (suffix t i) (suffix t j)) ->
  fold_right (insert_by cmp) [] l = fold_right (insert_suf t) [] l.
Proof.
  induction l as [|i l IH]; intros H; cbn [fold_right]; [reflexivity|].
  rewrite IH by (intros a b Ha Hb; apply H; right; assumption).
  apply insert_by_ext. intros j Hj. apply H; [left; reflexivity|right].
  clear -Hj. revert Hj. generalize l. intros l0.
  induction l0 as [|k l0 IH]; cbn [fold_right]; [intros []|].
  intros Hj. apply (Permutation_in _ (insert_suf_perm t k _)) in Hj. destruct Hj as [<-|Hj]; [left; reflexivity|right; apply IH; exact Hj].
Qed.

Theorem sort_by_cmp_is_sa_proof cmp t :
  (forall i j, i < length t -> j < length t -> cmp i j = lex_cmp (suffix t i) (suffix t j)) ->
  is_sa t (sort_by cmp (length t)).
Proof.
  intros H. unfold sort_by. rewrite (sort_by_ext cmp t).
  - apply sort_suffixes_is_sa_proof.
  - intros i j Hi Hj. apply in_seq in Hi, Hj. apply H; lia.
Qed.

(* ---------- the keyed comparison, unfolded one byte at a time ---------- *)
Lemma pad_key_nil K : pad_key K [] = repeat 0%N K.
Proof. unfold pad_key. rewrite firstn_nil. cbn [length app]. rewrite Nat.sub_0_r. reflexivity. Qed.
Lemma pad_key_cons K x a : pad_key (S K) (x :: a) = x :: pad_key K a.
Proof. reflexivity. Qed.
Lemma pad_key_nil_S K : pad_key (S K) [] = 0%N :: pad_key K [].
Proof. rewrite !pad_key_nil. reflexivity. Qed.

Lemma keyed_cmp_0 a b : keyed_cmp 0 a b = lex_cmp a b.
Proof. reflexivity. Qed.
Lemma keyed_cmp_cc K x a y b :
  keyed_cmp (S K) (x :: a) (y :: b) = match N.compare x y with Eq => keyed_cmp K a b | c => c end.
Proof. unfold keyed_cmp. rewrite !pad_key_cons. cbn [lex_cmp skipn]. destruct (N.compare x y); reflexivity. Qed.
Lemma keyed_cmp_nc K y b :
  keyed_cmp (S K) [] (y :: b) = match N.compare 0 y with Eq => keyed_cmp K [] b | c => c end.
Proof.
  unfold keyed_cmp. rewrite pad_key_nil_S, pad_key_cons. cbn [lex_cmp skipn].
  destruct (N.compare 0 y); try reflexivity. rewrite skipn_nil. reflexivity.
Qed.
Lemma keyed_cmp_cn K x a :
  keyed_cmp (S K) (x :: a) [] = match N.compare x 0 with Eq => keyed_cmp K a [] | c => c end.
Proof.
  unfold keyed_cmp. rewrite pad_key_nil_S, pad_key_cons. cbn [lex_cmp skipn].
  destruct (N.compare x 0); try reflexivity. rewrite skipn_nil. reflexivity.
Qed.

Lemma key_tie_nil_nil K : key_tie K [] [].
Proof. unfold key_tie. cbn [length]. repeat split; lia. Qed.
Lemma key_tie_cc K x a b : key_tie K a b -> key_tie (S K) (x :: a) (x :: b).
Proof. intros (H1 & H2 & H3). unfold key_tie. cbn [length]. rewrite !pad_key_cons, H3. repeat split; lia. Qed.
Lemma key_tie_nc K b : key_tie K [] b -> key_tie (S K) [] (0%N :: b).
Proof. intros (H1 & H2 & H3). unfold key_tie. cbn [length]. rewrite pad_key_nil_S, pad_key_cons, H3. repeat split; lia. Qed.
Lemma key_tie_cn K a : key_tie K a [] -> key_tie (S K) (0%N :: a) [].
Proof. intros (H1 & H2 & H3). unfold key_tie. cbn [length]. rewrite pad_key_nil_S, pad_key_cons, H3. repeat split; lia. Qed.

Lemma keyed_no_tie : forall K a b, ~ key_tie K a b -> keyed_cmp K a b = lex_cmp a b.
Proof.
  induction K as [|K IH]; intros a b Hn; [apply keyed_cmp_0|].
  destruct a as [|x a], b as [|y b].
  - exfalso. apply Hn. apply key_tie_nil_nil.
  - rewrite keyed_cmp_nc. cbn [lex_cmp]. destruct (N.compare_spec 0 y) as [<-|H|H]; [|reflexivity|lia].
    rewrite IH by (intros T; apply Hn; apply key_tie_nc; exact T).
    destruct b; [exfalso; apply Hn; apply key_tie_nc; apply key_tie_nil_nil|reflexivity].
  - rewrite keyed_cmp_cn. cbn [lex_cmp]. destruct (N.compare_spec x 0) as [->|H|H]; [|lia|reflexivity].
    rewrite IH by (intros T; apply Hn; apply key_tie_cn; exact T).
    destruct a; [exfalso; apply Hn; apply key_tie_cn; apply key_tie_nil_nil|reflexivity].
  - rewrite keyed_cmp_cc. cbn [lex_cmp]. destruct (N.compare_spec x y) as [->|H|H]; try reflexivity.
    apply IH. intros T. apply Hn. apply key_tie_cc. exact T.
Qed.

Lemma keyed_tie_eq K a b : key_tie K a b -> keyed_cmp K a b = Eq.
Proof.
  intros (H1 & H2 & H3). unfold keyed_cmp. rewrite H3, lex_cmp_refl.
  rewrite !skipn_all2 by assumption. reflexivity.
Qed.

(* exactly when: the two comparisons differ iff the strings are different, both fit in the key, and
   their zero-padded keys coincide (then the keyed comparison says Equal) *)
Theorem keyed_compare_is_suffix_compare_proof K a b :
  keyed_cmp K a b = lex_cmp a b <-> ~ (a <> b /\ key_tie K a b).
Proof.
  split.
  - intros E [Hne T]. rewrite (keyed_tie_eq K a b T) in E. symmetry in E. apply lex_cmp_eq in E. contradiction.
  - intros H. destruct (lex_cmp a b) eqn:E.
    + apply lex_cmp_eq in E. subst b. unfold keyed_cmp. rewrite !lex_cmp_refl. reflexivity.
    + rewrite <- E. apply keyed_no_tie. intros T. apply H. split; [|exact T].
      intros ->. rewrite lex_cmp_refl in E. discriminate.
    + rewrite <- E. apply keyed_no_tie. intros T. apply H. split; [|exact T].
      intros ->. rewrite lex_cmp_refl in E. discriminate.
Qed.

(* ---------- on the suffixes of a text ---------- *)
Lemma pad_key_short K s : length s <= K -> pad_key K s = s ++ repeat 0%N (K - length s).
Proof. intros H. unfold pad_key. rewrite firstn_all2 by exact H. reflexivity. Qed.

Lemma last_app_r {A} (a b : list A) d : b <> [] -> last (a ++ b) d = last b d.
Proof.
  intros Hb. induction a as [|x a IH]; [reflexivity|]. cbn [app last].
  destruct (a ++ b) eqn:E; [|exact IH]. destruct a, b; try discriminate; contradiction.
Qed.

Lemma firstn_repeat_le' {A} (x : A) : forall m k, m <= k -> firstn m (repeat x k) = repeat x m.
Proof.
  induction m as [|m IH]; intros k H; [reflexivity|]. destruct k as [|k]; [lia|].
  cbn [repeat firstn]. f_equal. apply IH. lia.
Qed.

Lemma app_zeros_last (a : list N) : forall m, a ++ repeat 0%N (S m) <> [] /\ last (a ++ repeat 0%N (S m)) 1%N = 0%N.
Proof.
  intros m. split; [destruct a; discriminate|].
  rewrite last_app_r by (cbn [repeat]; discriminate).
  induction m as [|m IH]; [reflexivity|]. cbn [repeat last] in *. exact IH.
Qed.

(* a tie between two different suffixes forces the text to end in a zero byte *)
Lemma suffix_tie_last_zero K t i j :
  i < j -> j < length t -> key_tie K (suffix t i) (suffix t j) -> last t 1%N = 0%N.
Proof.
  intros Hij Hj (H1 & H2 & H3).
  rewrite !pad_key_short in H3 by assumption. rewrite !suffix_length in *.
  set (a := suffix t i) in *. set (b := suffix t j) in *.
  assert (La : length a = length t - i) by apply suffix_length.
  assert (Lb : length b = length t - j) by apply suffix_length.
  (* a is longer than b: a = b ++ zeros *)
  assert (Ha : a = b ++ repeat 0%N (j - i)).
  { apply (f_equal (firstn (length a))) in H3.
    rewrite firstn_app, firstn_all, Nat.sub_diag in H3. cbn [firstn] in H3. rewrite app_nil_r in H3.
    rewrite H3. rewrite firstn_app. rewrite firstn_all2 by lia. f_equal.
    rewrite firstn_repeat_le' by lia. f_equal. lia. }
  assert (Hlast : last a 1%N = 0%N).
  { rewrite Ha. replace (j - i) with (S (j - i - 1)) by lia. apply app_zeros_last. }
  (* the last byte of a suffix is the last byte of the text *)
  unfold a, suffix in Hlast. rewrite <- (firstn_skipn i t). rewrite last_app_r; [exact Hlast|].
  intros E. apply (f_equal (@length N)) in E. rewrite skipn_length in E. cbn [length] in E. lia.
Qed.

Theorem keyed_sort_is_sa_proof K t :
  (forall i j, i < j -> j < length t -> ~ key_tie K (suffix t i) (suffix t j)) ->
  is_sa t (keyed_sort K t).
Proof.
  intros H. unfold keyed_sort. apply sort_by_cmp_is_sa_proof. intros i j Hi Hj.
  apply keyed_compare_is_suffix_compare_proof. intros [Hne T].
  destruct (Nat.lt_trichotomy i j) as [Hlt|[->|Hgt]].
  - exact (H i j Hlt Hj T).
  - apply Hne. reflexivity.
  - destruct T as (T1 & T2 & T3). apply (H j i Hgt Hi). split; [exact T2|split; [exact T1|symmetry; exact T3]].
Qed.

Theorem keyed_sort_last_nonzero_proof K t :
  last t 1%N <> 0%N -> is_sa t (keyed_sort K t).
Proof.
  intros Hl. apply keyed_sort_is_sa_proof. intros i j Hij Hj T. apply Hl.
  exact (suffix_tie_last_zero K t i j Hij Hj T).
Qed.

(* zero padding is wrong for texts that end in NUL bytes: "\0\0" with an 8-byte key *)
Theorem keyed_compare_refuted_proof :
  exists K t, ~ is_sa t (keyed_sort K t) /\
              exists i j, keyed_cmp K (suffix t i) (suffix t j) <> lex_cmp (suffix t i) (suffix t j).
Proof.
  exists 8, [0; 0]%N. split.
  - intros H. apply check_sa_iff_proof in H. vm_compute in H. discriminate.
  - exists 0, 1. vm_compute. discriminate.
Qed.

(* the hypotheses are inhabited: banana (last byte 97) *)
Example keyed_sort_banana : keyed_sort 8 [98;97;110;97;110;97]%N = [5;3;1;0;4;2]
  /\ keyed_sort 2 [98;97;110;97;110;97]%N = [5;3;1;0;4;2].
Proof. vm_compute. split; reflexivity. Qed.
Example key_tie_witness : key_tie 8 [0]%N [0;0]%N /\ [0]%N <> [0;0]%N.
Proof. split; [unfold key_tie; cbn; repeat split; lia|discriminate]. Qed.

(* ---------- the builder with any comparator shape ---------- *)
Lemma sort_by_plain t : sort_by (plain_cmp t) (length t) = sort_suffixes t.
Proof. unfold sort_by, sort_suffixes. apply sort_by_ext. intros; reflexivity. Qed.

Theorem build_by_plain_is_build_proof sais analyse c t :
  build_by plain_cmp sais analyse c t = build sais analyse c t.
Proof.
  destruct t as [|x [|y t]]; try reflexivity. cbn [build_by build].
  destruct (select_algorithm analyse c (x :: y :: t)); try reflexivity.
  - unfold sort_construct_by, divsufsort_construct. rewrite sort_by_plain. reflexivity.
  - unfold dc3_construct_by, dc3_construct. destruct t; [reflexivity|]. rewrite sort_by_plain. reflexivity.
  - unfold sort_construct_by, larsson_sadakane_construct, divsufsort_construct. rewrite sort_by_plain. reflexivity.
Qed.

Theorem build_by_is_sa_proof (cmp : list N -> nat -> nat -> comparison) sais analyse c t :
  (forall i j, i < length t -> j < length t -> cmp t i j = lex_cmp (suffix t i) (suffix t j)) ->
  (select_algorithm analyse c t = SAIS \/ select_algorithm analyse c t = Adaptive -> is_sa t (sais t)) ->
  is_sa t (build_by cmp sais analyse c t).
Proof.
  intros Hc Hs.
  assert (E : build_by cmp sais analyse c t = build sais analyse c t).
  { rewrite <- build_by_plain_is_build_proof.
    destruct t as [|x [|y t]]; try reflexivity. cbn [build_by].
    assert (Es : sort_by (cmp (x :: y :: t)) (length (x :: y :: t)) = sort_by (plain_cmp (x :: y :: t)) (length (x :: y :: t))).
    { unfold sort_by. rewrite (sort_by_ext (cmp (x :: y :: t)) (x :: y :: t)), (sort_by_ext (plain_cmp (x :: y :: t)) (x :: y :: t)); [reflexivity| |].
      - intros; reflexivity.
      - intros i j Hi Hj. apply in_seq in Hi, Hj. apply Hc; lia. }
    destruct (select_algorithm analyse c (x :: y :: t)); try reflexivity.
    - unfold sort_construct_by. exact Es.
    - unfold dc3_construct_by. destruct t; [reflexivity|exact Es].
    - unfold sort_construct_by. exact Es. }
  rewrite E. apply ProofsBuild.build_is_sa_proof. exact Hs.
Qed.
