(* SA-IS, the recursion: sais_go returns the suffix array for every text and every fuel, GIVEN the two
   facts about one round of induced sorting that are not proved here (they are hypotheses of the
   theorem, stated about the model's own induced_sort; every run still certifies the output with
   check_sa):
     final_ok : seeded with the LMS suffixes in suffix order, induced_sort returns the suffix array;
     first_ok : seeded with the LMS suffixes in text order, induced_sort succeeds, the LMS positions
                read off its result are a permutation of the LMS positions, and the names computed
                from that order make the reduced string order-isomorphic to the LMS suffixes.
   What is proved: everything around them - the size guard, the short-text and "at most one LMS"
   shortcuts, that naming succeeds, that names are below num_names (so the recursive call's buckets are
   in range), the decision to recurse or not (not recursing is right only because all names differ,
   sais_recursion_needed_iff_duplicate_names), the mapping of the reduced array back to positions,
   and the depth-limit fallback. *)
From ZV.Common Require Import Base.
From Coq Require Import Sorting.Permutation Sorting.Sorted ListDec.
From ZV.C12 Require Import Spec Model ProofsOrder ProofsSearch ProofsBuild ProofsKasai ModelSais
     ProofsSaisClassify ProofsSaisNames.
Open Scope nat_scope.

Definition lms_of (t : list N) : list nat := lms_positions (lms_flags (classify t)).
Definition reduced_text (names : list nat) : list N := map N.of_nat names.

Definition final_ok : Prop :=
  forall t alpha bucket heads tails lo,
    bucket_counts alpha t = Some bucket -> boundaries bucket 0 = (heads, tails) ->
    Permutation lo (lms_of t) -> StronglySorted (suf_lt t) lo ->
    exists sa, induced_sort t lo (classify t) heads tails = Some sa /\ is_sa t sa.

Definition first_ok : Prop :=
  forall t alpha bucket heads tails,
    bucket_counts alpha t = Some bucket -> boundaries bucket 0 = (heads, tails) ->
    2 <= length (lms_of t) ->
    exists sa1, induced_sort t (lms_of t) (classify t) heads tails = Some sa1 /\
      let lms_sa := compact_lms sa1 (lms_flags (classify t)) in
      Permutation lms_sa (lms_of t) /\
      forall names num, name_lms t (lms_flags (classify t)) (lms_of t) lms_sa = Some (names, num) ->
        forall a b, a < length (lms_of t) -> b < length (lms_of t) ->
          (suf_lt t (nth a (lms_of t) 0) (nth b (lms_of t) 0) <->
           lex_lt (suffix (reduced_text names) a) (suffix (reduced_text names) b)).

(* ---------- small facts ---------- *)
Lemma bucket_counts_some alpha t :
  (forall c, In c t -> N.to_nat c < alpha) -> exists b, bucket_counts alpha t = Some b.
Proof.
  intros H. unfold bucket_counts.
  assert (E : forallb (fun c => N.to_nat c <? alpha) t = true).
  { apply forallb_forall. intros c Hc. apply Nat.ltb_lt. apply H. exact Hc. }
  rewrite E. eexists. reflexivity.
Qed.

Lemma map_nth_seq (l : list nat) : map (fun r => nth r l 0) (seq 0 (length l)) = l.
Proof.
  apply (nth_ext _ _ 0 0); [rewrite map_length, seq_length; reflexivity|].
  intros k Hk. rewrite map_length, seq_length in Hk. rewrite nth_map_seq by exact Hk. reflexivity.
Qed.

Lemma sorted_map {A B} (R : A -> A -> Prop) (R' : B -> B -> Prop) (f : A -> B) l :
  (forall x y, In x l -> In y l -> R x y -> R' (f x) (f y)) ->
  StronglySorted R l -> StronglySorted R' (map f l).
Proof.
  intros H Hs. induction Hs as [|a l Hs IH Ha]; cbn [map]; constructor.
  - apply IH. intros x y Hx Hy. apply H; right; assumption.
  - rewrite Forall_forall in *. intros b Hb. apply in_map_iff in Hb. destruct Hb as (y & <- & Hy).
    apply H; [left; reflexivity|right; exact Hy|apply Ha; exact Hy].
Qed.

Lemma nth_index_of lms p : In p lms -> nth (index_of lms p) lms 0 = p.
Proof.
  induction lms as [|q r IH]; intros H; [contradiction|]. cbn [index_of].
  destruct (Nat.eqb_spec q p) as [->|Hne]; [reflexivity|]. cbn [nth]. apply IH. destruct H; [contradiction|assumption].
Qed.

Lemma lms_of_nodup t : NoDup (lms_of t).
Proof.
  destruct (sais_classify_correct_proof t) as (_ & _ & _ & _ & Hs). fold (lms_of t) in Hs.
  eapply strongly_sorted_nodup; [|exact Hs]. intros x. lia.
Qed.

Lemma lms_of_lt t p : In p (lms_of t) -> p < length t.
Proof.
  intros H. destruct (sais_classify_correct_proof t) as (_ & _ & _ & Hl & _). fold (lms_of t) in Hl.
  apply Hl in H. destruct H as (_ & H & _). exact H.
Qed.

Lemma lms_of_length_le t : length (lms_of t) <= length t.
Proof.
  pose proof (lms_of_nodup t) as Hnd.
  assert (Hle : length (lms_of t) <= length (seq 0 (length t))).
  { apply (NoDup_incl_length Hnd). intros p Hp. apply in_seq. pose proof (lms_of_lt t p Hp). lia. }
  rewrite seq_length in Hle. exact Hle.
Qed.

(* names are below num_names *)
Lemma names_lt_num text flags lms lms_sa names num :
  NoDup lms -> Permutation lms_sa lms -> name_lms text flags lms lms_sa = Some (names, num) ->
  forall x, In x names -> x < num.
Proof.
  intros Hnd HP E x Hx.
  destruct (names_perm text flags lms lms_sa names num Hnd HP E) as (_ & _ & Hnum & Hperm).
  apply (Permutation_in _ Hperm) in Hx. destruct lms_sa as [|q l]; [contradiction|].
  subst num. apply cur_seq_le_last in Hx. lia.
Qed.

(* the counters along the sorted list never decrease *)
Lemma cur_seq_sorted eqb : forall l prev cur, StronglySorted le (cur_seq eqb prev l cur).
Proof.
  induction l as [|p r IH]; intros prev cur; cbn [cur_seq]; constructor; [apply IH|].
  rewrite Forall_forall. intros c Hc. apply cur_seq_ge in Hc. exact Hc.
Qed.

Lemma sorted_le_nodup_lt l : StronglySorted le l -> NoDup l -> StronglySorted lt l.
Proof.
  intros Hs. induction Hs as [|a l Hs IH Ha]; intros Hnd; constructor; inversion Hnd as [|? ? Hn Hnd']; subst.
  - apply IH. exact Hnd'.
  - rewrite Forall_forall in *. intros x Hx. specialize (Ha x Hx).
    destruct (Nat.eq_dec a x) as [->|]; [contradiction|lia].
Qed.

(* suffixes of a string that start with different symbols are ordered by those symbols *)
Lemma suffix_first_symbol (s : list N) a b :
  a < length s -> b < length s -> (nth a s 0 < nth b s 0)%N -> lex_lt (suffix s a) (suffix s b).
Proof.
  intros Ha Hb Hlt. unfold suffix, lex_lt.
  rewrite (skipn_cons_nth 0%N a s Ha), (skipn_cons_nth 0%N b s Hb). cbn [lex_cmp].
  destruct (N.compare_spec (nth a s 0%N) (nth b s 0%N)); try reflexivity; exfalso; lia.
Qed.

Lemma name_lms_some text flags lms lms_sa :
  length lms_sa = length lms -> exists names num, name_lms text flags lms lms_sa = Some (names, num).
Proof.
  intros H. unfold name_lms. rewrite H, Nat.eqb_refl. cbn [negb].
  destruct (name_go text flags lms None lms_sa 0 (repeat 0 (length lms))) as [nm cur]. eexists. eexists. reflexivity.
Qed.

(* ---------- the theorem ---------- *)
Section Partial.
  Hypothesis Hfinal : final_ok.
  Hypothesis Hfirst : first_ok.

  Theorem sais_go_is_sa : forall fuel t alpha,
    (forall c, In c t -> N.to_nat c < alpha) ->
    (N.of_nat (length t) <= MAX_TEXT_SIZE)%N ->
    exists sa, sais_go fuel t alpha = Some sa /\ is_sa t sa.
  Proof.
    induction fuel as [|fuel IH]; intros t alpha Hsym Hsize.
    { exists (sort_suffixes t). split; [reflexivity|apply sort_suffixes_is_sa_proof]. }
    cbn [sais_go]. destruct (N.ltb_spec MAX_TEXT_SIZE (N.of_nat (length t))) as [Hbig|_]; [lia|].
    destruct (Nat.leb_spec (length t) 1) as [Hshort|Hlong].
    { exists (seq 0 (length t)). split; [reflexivity|].
      destruct t as [|x [|y t]]; [apply is_sa_nil|apply is_sa_one|cbn [length] in Hshort; lia]. }
    fold (lms_of t). set (flags := lms_flags (classify t)). set (lms := lms_of t).
    destruct (bucket_counts_some alpha t Hsym) as [bucket Hb]. rewrite Hb.
    destruct (boundaries bucket 0) as [heads tails] eqn:Hbd.
    pose proof (lms_of_nodup t) as Hnd. fold lms in Hnd.
    destruct (Nat.leb_spec (length lms) 1) as [Hfew|Hmany].
    { (* zero or one LMS suffix: the text-order seed is already sorted *)
      destruct (Hfinal t alpha bucket heads tails lms Hb Hbd (Permutation_refl _)) as (sa & Es & Hsa).
      - destruct lms as [|p [|q r]]; [constructor|constructor; constructor|cbn [length] in Hfew; lia].
      - rewrite Es. exists sa. split; [reflexivity|exact Hsa]. }
    destruct (Hfirst t alpha bucket heads tails Hb Hbd ltac:(fold lms; lia)) as (sa1 & Es1 & HP & Hiso).
    fold lms flags in HP, Hiso, Es1. rewrite Es1. set (lms_sa := compact_lms sa1 flags) in *. cbv zeta in HP, Hiso.
    destruct (name_lms_some t flags lms lms_sa (Permutation_length HP)) as (names & num & En). rewrite En.
    specialize (Hiso names num En).
    destruct (names_perm t flags lms lms_sa names num Hnd HP En) as (Hlen & Hmap & Hnum & Hperm).
    destruct (sais_recursion_needed_iff_duplicate_names_proof t flags lms lms_sa names num Hnd HP En) as [Hnle Hrec].
    assert (Hsorted : exists sorted,
              (if num <? length lms
               then match sais_go fuel (map N.of_nat names) num with
                    | Some reduced => Some (map (fun r => nth r lms 0) reduced)
                    | None => None
                    end
               else Some lms_sa) = Some sorted /\
              Permutation sorted lms /\ StronglySorted (suf_lt t) sorted).
    { destruct (Nat.ltb_spec num (length lms)) as [Hdup|Huniq].
      - (* duplicate names: recursion on the reduced string *)
        destruct (IH (map N.of_nat names) num) as (reduced & Er & Hr).
        + intros c Hc. apply in_map_iff in Hc. destruct Hc as (x & <- & Hx). rewrite Nat2N.id.
          eapply names_lt_num; eassumption.
        + rewrite map_length, Hlen. pose proof (lms_of_length_le t). fold lms in H. lia.
        + rewrite Er. eexists. split; [reflexivity|].
          destruct Hr as [HPr HSr]. rewrite map_length, Hlen in HPr. split.
          * apply (Permutation_trans (l' := map (fun r => nth r lms 0) (seq 0 (length lms)))).
            -- apply Permutation_map. exact HPr.
            -- rewrite map_nth_seq. apply Permutation_refl.
          * apply (sorted_map (suf_lt (map N.of_nat names)) (suf_lt t) (fun r => nth r lms 0) reduced); [|exact HSr].
            intros a b Ha Hb' Hab. apply (Permutation_in _ HPr) in Ha, Hb'. apply in_seq in Ha, Hb'.
            apply Hiso; try lia. exact Hab.
      - (* all names differ: the first-pass order is the suffix order *)
        exists lms_sa. split; [reflexivity|]. split; [exact HP|].
        assert (Hndn : NoDup names).
        { destruct (NoDup_dec Nat.eq_dec names) as [H|H]; [exact H|]. apply Hrec in H. lia. }
        set (cs := cur_seq (lms_equal t flags) None lms_sa 0) in *.
        assert (Hcs : StronglySorted lt cs).
        { apply sorted_le_nodup_lt; [apply cur_seq_sorted|].
          eapply Permutation_NoDup; [exact Hperm|exact Hndn]. }
        rewrite <- Hmap in Hcs.
        assert (Hby : StronglySorted (fun p p' => name_of lms names p < name_of lms names p') lms_sa).
        { clear -Hcs. induction lms_sa as [|p r IHr]; [constructor|]. cbn [map] in Hcs.
          inversion Hcs as [|? ? Hs Ha]; subst. constructor; [apply IHr; exact Hs|].
          rewrite Forall_forall in *. intros q Hq. apply Ha. apply in_map. exact Hq. }
        pose proof (sorted_map (fun p p' => name_of lms names p < name_of lms names p') (suf_lt t) (fun p => p) lms_sa) as Hm.
        rewrite map_id in Hm. apply Hm; [|exact Hby].
        intros p p' Hp Hp' Hlt. apply (Permutation_in _ HP) in Hp, Hp'.
        pose proof (index_of_lt lms p Hp) as Ia. pose proof (index_of_lt lms p' Hp') as Ib.
        rewrite <- (nth_index_of lms p Hp), <- (nth_index_of lms p' Hp').
        apply Hiso; try assumption.
        unfold name_of in Hlt. unfold reduced_text.
        apply suffix_first_symbol; try (rewrite map_length, Hlen; assumption).
        change 0%N with (N.of_nat 0). rewrite !(map_nth N.of_nat). lia. }
    destruct Hsorted as (sorted & Eso & HPs & HSs). rewrite Eso.
    destruct (Hfinal t alpha bucket heads tails sorted Hb Hbd HPs HSs) as (sa & Es & Hsa).
    rewrite Es. exists sa. split; [reflexivity|exact Hsa].
  Qed.
End Partial.

Lemma sais_alphabet_ok opt t : forall c, In c t -> (c < 256)%N -> N.to_nat c < sais_alphabet opt t.
Proof.
  intros c Hc Hb. unfold sais_alphabet. destruct opt; [lia|].
  destruct t as [|x t]; [contradiction|].
  assert (H : forall l c, In c l -> (c <= fold_right N.max 0 l)%N).
  { induction l as [|y l IHl]; intros c0 H0; [contradiction|]. cbn [fold_right].
    destruct H0 as [->|H0]; [lia|]. specialize (IHl c0 H0). lia. }
  specialize (H (x :: t) c Hc). lia.
Qed.

(* sais_construct, both alphabet settings, every byte string up to the size guard *)
Theorem sais_is_sa_partial_proof :
  final_ok -> first_ok ->
  forall opt t, (forall c, In c t -> (c < 256)%N) -> (N.of_nat (length t) <= MAX_TEXT_SIZE)%N ->
    exists sa, sais opt t = Some sa /\ is_sa t sa.
Proof.
  intros Hf1 Hf2 opt t Hbytes Hsize. unfold sais. apply sais_go_is_sa; try assumption.
  intros c Hc. apply sais_alphabet_ok; [exact Hc|apply Hbytes; exact Hc].
Qed.

(* texts above the guard are refused at depth 0 *)
Theorem sais_too_long_proof opt t :
  (MAX_TEXT_SIZE < N.of_nat (length t))%N -> sais opt t = None.
Proof.
  intros H. unfold sais. cbn [sais_go]. destruct (N.ltb_spec MAX_TEXT_SIZE (N.of_nat (length t))); [reflexivity|lia].
Qed.

(* the builder with the SA-IS model plugged in for its `sais` parameter: every algorithm, every
   configuration, every byte string up to the guard (same two hypotheses) *)
Definition sais_fn (opt : bool) (t : list N) : list nat :=
  match sais opt t with Some sa => sa | None => [] end.

Theorem build_with_sais_model_is_sa_proof :
  final_ok -> first_ok ->
  forall opt (analyse : list N -> alg) c t,
    (forall x, In x t -> (x < 256)%N) -> (N.of_nat (length t) <= MAX_TEXT_SIZE)%N ->
    is_sa t (build (sais_fn opt) analyse c t).
Proof.
  intros Hf1 Hf2 opt analyse c t Hb Hs. apply build_is_sa_proof. intros _.
  destruct (sais_is_sa_partial_proof Hf1 Hf2 opt t Hb Hs) as (sa & E & Hsa).
  unfold sais_fn. rewrite E. exact Hsa.
Qed.
