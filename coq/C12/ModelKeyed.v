(* C12: comparator shapes for the sort-based constructions.
   The code's three sort-based entry points (dc3_construct, divsufsort_construct,
   larsson_sadakane_construct, and fallback_sort) all call
       sa.sort_by(|&a, &b| text[a..].cmp(&text[b..]))
   (re-checked against src/algorithms/suffix_array.rs for this extension: Model.v's
   sort_suffixes / *_construct are still exactly the code).  This file adds the generic shape
   "sort_by with an arbitrary comparator on positions" and the usual fast-path variant
   "compare a fixed-width key first, then the remainders":
       key(s)  = the first K bytes of s, padded with zero bytes to K bytes, read as a big-endian
                 integer (for equal-length byte strings integer order = lexicographic order)
       cmp a b = key(a).cmp(key(b)).then_with(|| a[min(K,len)..].cmp(b[min(K,len)..]))
   Definitions only. *)
From ZV.Common Require Import Base.
From ZV.C12 Require Import Spec Model.
Open Scope nat_scope.

(* sort_by on (0..n) with a comparator on positions (insertion sort; see sa_unique) *)
Fixpoint insert_by (cmp : nat -> nat -> comparison) (i : nat) (l : list nat) : list nat :=
  match l with
  | [] => [i]
  | j :: l' => match cmp i j with
               | Gt => j :: insert_by cmp i l'
               | _ => i :: l
               end
  end.
Definition sort_by (cmp : nat -> nat -> comparison) (n : nat) : list nat :=
  fold_right (insert_by cmp) [] (seq 0 n).

Definition pad_key (K : nat) (s : list N) : list N := firstn K s ++ repeat 0%N (K - length s).
Definition keyed_cmp (K : nat) (a b : list N) : comparison :=
  match lex_cmp (pad_key K a) (pad_key K b) with
  | Eq => lex_cmp (skipn K a) (skipn K b)
  | c => c
  end.

(* the only pairs on which the keyed comparison can differ from the plain one: two strings that both
   fit inside the key and whose padded keys coincide *)
Definition key_tie (K : nat) (a b : list N) : Prop :=
  length a <= K /\ length b <= K /\ pad_key K a = pad_key K b.

Definition keyed_sort (K : nat) (t : list N) : list nat :=
  sort_by (fun i j => keyed_cmp K (suffix t i) (suffix t j)) (length t).

(* SuffixArrayBuilder::build with the closure handed to sort_by as a parameter (cmp t i j compares
   positions i and j of text t); `plain_cmp` is the closure the code has *)
Definition plain_cmp (t : list N) (i j : nat) : comparison := lex_cmp (suffix t i) (suffix t j).
Section BuildBy.
  Variable cmp : list N -> nat -> nat -> comparison.
  Variable sais : list N -> list nat.
  Variable analyse : list N -> alg.

  Definition sort_construct_by (t : list N) : list nat :=
    match t with [] => [] | [_] => [0] | _ => sort_by (cmp t) (length t) end.
  Definition dc3_construct_by (t : list N) : list nat :=
    match t with
    | [] => []
    | [_] => [0]
    | [a; b] => if N.ltb a b then [0; 1] else [1; 0]
    | _ => sort_by (cmp t) (length t)
    end.
  Definition build_by (c : config) (t : list N) : list nat :=
    match t with
    | [] => []
    | [_] => [0]
    | _ => match select_algorithm analyse c t with
           | SAIS => sais t
           | DC3 => dc3_construct_by t
           | DivSufSort => sort_construct_by t
           | LarssonSadakane => sort_construct_by t
           | Adaptive => sais t
           end
    end.
End BuildBy.
