(* SA-IS, step 1: classify_suffixes computes the S/L types and find_lms_suffixes the LMS positions,
   as defined on the suffix order (the virtual sentinel is the empty suffix at position n). *)
From ZV.Common Require Import Base.
From Coq Require Import Sorting.Permutation Sorting.Sorted.
From ZV.C12 Require Import Spec Model ProofsOrder ModelSais.
Open Scope nat_scope.

(* suffix i is S-type iff it is smaller than the next suffix; the last one is followed by the empty
   suffix (the sentinel), hence L-type *)
Definition is_S (t : list N) (i : nat) : Prop := lex_lt (suffix t i) (suffix t (S i)).
Definition is_lms_pos (t : list N) (p : nat) : Prop :=
  0 < p /\ p < length t /\ is_S t p /\ ~ is_S t (p - 1).

Lemma classify_length t : length (classify t) = length t.
Proof.
  induction t as [|x [|y r] IH]; try reflexivity.
  change (classify (x :: y :: r)) with
    ((if (x <? y)%N then true else if (y <? x)%N then false else hd false (classify (y :: r))) :: classify (y :: r)).
  cbn [length] in *. rewrite IH. reflexivity.
Qed.

Lemma classify_types t : forall i, i < length t ->
  (nth i (classify t) false = true <-> is_S t i).
Proof.
  unfold is_S. induction t as [|x [|y r] IH]; intros i Hi; cbn [length] in Hi; [lia| |].
  - assert (i = 0) by lia. subst i. cbn. split; discriminate.
  - change (classify (x :: y :: r)) with
      ((if (x <? y)%N then true else if (y <? x)%N then false else hd false (classify (y :: r))) :: classify (y :: r)).
    destruct i as [|i].
    + cbn [nth]. unfold suffix, lex_lt. cbn [skipn lex_cmp].
      destruct (N.ltb_spec x y) as [Hxy|Hxy].
      * destruct (N.compare_spec x y); try (exfalso; lia). split; reflexivity.
      * destruct (N.ltb_spec y x) as [Hyx|Hyx].
        -- destruct (N.compare_spec x y); try (exfalso; lia). split; discriminate.
        -- assert (x = y) by lia. subst y. rewrite N.compare_refl.
           specialize (IH 0 ltac:(cbn [length]; lia)). unfold suffix, lex_lt in IH. cbn [skipn] in IH.
           rewrite <- IH. destruct (classify (x :: r)); reflexivity.
    + cbn [nth]. unfold suffix. cbn [skipn]. apply (IH i). cbn [length]. lia.
Qed.

Lemma lms_go_length prev ty : length (lms_go prev ty) = length ty.
Proof. revert prev. induction ty as [|b r IH]; intros prev; cbn [lms_go length]; [reflexivity|]. rewrite IH. reflexivity. Qed.

Lemma lms_go_nth : forall ty prev i,
  nth i (lms_go prev ty) false = nth i ty false && negb (nth i (prev :: ty) false).
Proof.
  induction ty as [|b r IH]; intros prev i; cbn [lms_go].
  - destruct i; reflexivity.
  - destruct i as [|i]; [reflexivity|]. cbn [nth]. rewrite IH. reflexivity.
Qed.

Lemma lms_flags_length ty : length (lms_flags ty) = length ty.
Proof. destruct ty; [reflexivity|]. cbn [lms_flags length]. rewrite lms_go_length. reflexivity. Qed.

Lemma lms_flags_nth ty i :
  nth i (lms_flags ty) false =
  match i with 0 => false | S i' => nth (S i') ty false && negb (nth i' ty false) end.
Proof.
  destruct ty as [|b r].
  - destruct i as [|[|i]]; reflexivity.
  - cbn [lms_flags]. destruct i as [|i]; [reflexivity|]. cbn [nth]. apply lms_go_nth.
Qed.

Lemma filter_seq_sorted (f : nat -> bool) : forall n a, StronglySorted lt (filter f (seq a n)).
Proof.
  induction n as [|n IH]; intros a; cbn [seq filter]; [constructor|].
  destruct (f a); [|apply IH]. constructor; [apply IH|].
  rewrite Forall_forall. intros x Hx. apply filter_In in Hx. destruct Hx as [Hx _]. apply in_seq in Hx. lia.
Qed.

Theorem sais_classify_correct_proof t :
  let types := classify t in
  let lms := lms_positions (lms_flags types) in
  length types = length t /\
  (forall i, i < length t -> (nth i types false = true <-> is_S t i)) /\
  (forall p, nth p (lms_flags types) false = true <-> is_lms_pos t p) /\
  (forall p, In p lms <-> is_lms_pos t p) /\
  StronglySorted lt lms.
Proof.
  cbv zeta. split; [apply classify_length|]. split; [apply classify_types|].
  assert (Hflag : forall p, nth p (lms_flags (classify t)) false = true <-> is_lms_pos t p).
  { intros p. rewrite lms_flags_nth. unfold is_lms_pos. destruct p as [|p].
    - split; [discriminate|intros [H _]; lia].
    - replace (S p - 1) with p by lia. rewrite andb_true_iff, negb_true_iff. split.
      + intros [H1 H2].
        assert (Hp : S p < length t).
        { destruct (Nat.lt_ge_cases (S p) (length t)) as [H|H]; [exact H|].
          rewrite nth_overflow in H1 by (rewrite classify_length; exact H). discriminate. }
        split; [lia|]. split; [exact Hp|]. split; [apply classify_types; assumption|].
        intros HS. apply classify_types in HS; [|lia]. congruence.
      + intros (_ & Hp & HS & HL). split; [apply classify_types; assumption|].
        destruct (nth p (classify t) false) eqn:E; [|reflexivity].
        exfalso. apply HL. apply classify_types; [lia|exact E]. }
  split; [exact Hflag|]. split.
  - intros p. unfold lms_positions. rewrite filter_In, in_seq, lms_flags_length, classify_length.
    rewrite Hflag. split; [intros [_ H]; exact H|]. intros H. split; [|exact H]. destruct H as (H1 & H2 & _). lia.
  - apply filter_seq_sorted.
Qed.

(* the hypotheses are inhabited: "mississippi" has the LMS positions 1, 4, 7 *)
Example classify_mississippi :
  let t := [109;105;115;115;105;115;115;105;112;112;105]%N in
  classify t = [false;true;false;false;true;false;false;true;false;false;false]
  /\ lms_positions (lms_flags (classify t)) = [1;4;7].
Proof. vm_compute. split; reflexivity. Qed.
