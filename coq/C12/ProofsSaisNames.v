(* SA-IS, step 4: name_lms_substrings.  The names written into the `names` table (text order) are the
   running class counters of the sorted LMS list; they are order-isomorphic to the LMS substrings
   whenever that list is sorted by a preorder whose equivalence is are_lms_substrings_equal; and the
   recursion condition num_names < #LMS holds exactly when two names coincide. *)
From ZV.Common Require Import Base.
From Coq Require Import Sorting.Permutation Sorting.Sorted.
From ZV.C12 Require Import Spec Model ProofsOrder ProofsKasai ModelSais.
Open Scope nat_scope.

(* ---------- the counter sequence along the sorted list ---------- *)
Section CurSeq.
  Variable eqb : nat -> nat -> bool.

  Definition step (prev : option nat) (p cur : nat) : nat :=
    match prev with Some q => if eqb q p then cur else S cur | None => cur end.
  Fixpoint cur_seq (prev : option nat) (l : list nat) (cur : nat) : list nat :=
    match l with
    | [] => []
    | p :: r => let c := step prev p cur in c :: cur_seq (Some p) r c
    end.

  Lemma cur_seq_length : forall l prev cur, length (cur_seq prev l cur) = length l.
  Proof. induction l as [|p r IH]; intros; cbn [cur_seq length]; [reflexivity|]. rewrite IH. reflexivity. Qed.

  Lemma step_bounds prev p cur : cur <= step prev p cur <= S cur.
  Proof. unfold step. destruct prev as [q|]; [destruct (eqb q p)|]; lia. Qed.

  Lemma cur_seq_ge : forall l prev cur c, In c (cur_seq prev l cur) -> cur <= c.
  Proof.
    induction l as [|p r IH]; intros prev cur c H; cbn [cur_seq] in H; [contradiction|].
    pose proof (step_bounds prev p cur). destruct H as [<-|H]; [lia|]. apply IH in H. lia.
  Qed.

  Lemma last_default_irrel {A} (l : list A) : forall y d d', last (y :: l) d = last (y :: l) d'.
  Proof. induction l as [|z l IH]; intros y d d'; [reflexivity|]. exact (IH z d d'). Qed.
  Lemma last_cons_default {A} (x : A) l d : last (x :: l) d = last l x.
  Proof. destruct l as [|y l]; [reflexivity|]. exact (last_default_irrel l y d x). Qed.

  Lemma cur_seq_last_ge : forall l prev cur, cur <= last (cur_seq prev l cur) cur.
  Proof.
    induction l as [|p r IH]; intros prev cur; cbn [cur_seq]; [cbn; lia|].
    rewrite last_cons_default. pose proof (step_bounds prev p cur). specialize (IH (Some p) (step prev p cur)). lia.
  Qed.
  Lemma cur_seq_le_last : forall l prev cur c, In c (cur_seq prev l cur) -> c <= last (cur_seq prev l cur) cur.
  Proof.
    induction l as [|p r IH]; intros prev cur c H; cbn [cur_seq] in *; [contradiction|].
    rewrite last_cons_default. destruct H as [<-|H]; [apply cur_seq_last_ge|apply IH; exact H].
  Qed.

  (* with a predecessor: the last counter is cur + length exactly when all counters (cur included) differ *)
  Lemma cur_seq_nodup : forall l q cur,
    let cs := cur_seq (Some q) l cur in
    last cs cur <= cur + length l /\ (NoDup (cur :: cs) <-> last cs cur = cur + length l).
  Proof.
    induction l as [|p r IH]; intros q cur; cbn [cur_seq length].
    - cbv zeta. cbn [last]. split; [lia|]. split; [lia|]. intros _. constructor; [intros []|constructor].
    - cbv zeta. set (c := step (Some q) p cur). rewrite last_cons_default.
      destruct (IH p c) as [Hle Hiff]. fold c in Hle, Hiff.
      set (cs' := cur_seq (Some p) r c) in *.
      unfold step in c. destruct (eqb q p) eqn:E; subst c.
      + split; [lia|]. split.
        * intros H. inversion H as [|? ? Hn _]; subst. exfalso. apply Hn. left. reflexivity.
        * intros H. lia.
      + split; [lia|]. split.
        * intros H. inversion H as [|? ? Hn Hnd]; subst. apply Hiff in Hnd. lia.
        * intros H. constructor; [|apply Hiff; lia].
          intros [Hc|Hc]; [lia|]. apply cur_seq_ge in Hc. lia.
  Qed.

  Lemma cur_seq_top_nodup l :
    let cs := cur_seq None l 0 in
    (l <> [] -> last cs 0 + 1 <= length l) /\
    (NoDup cs <-> (l = [] \/ last cs 0 + 1 = length l)).
  Proof.
    destruct l as [|p r]; cbn [cur_seq step length]; cbv zeta.
    - split; [intros H; contradiction|]. split; [auto|intros _; constructor].
    - rewrite last_cons_default. destruct (cur_seq_nodup r p 0) as [Hle Hiff]. cbv zeta in Hle, Hiff.
      split; [intros _; lia|]. rewrite Hiff. split; [intros H; right; lia|]. intros [H|H]; [discriminate|lia].
  Qed.

  (* ---------- order isomorphism, for a list sorted by a preorder whose equivalence is eqb ---------- *)
  Variable le : nat -> nat -> Prop.
  Hypothesis le_trans : forall x y z, le x y -> le y z -> le x z.

  Lemma cur_seq_head : forall l q cur,
    StronglySorted le (q :: l) ->
    (forall x y, In x (q :: l) -> In y (q :: l) -> (eqb x y = true <-> le x y /\ le y x)) ->
    Forall (fun pc => cur <= snd pc /\ (snd pc = cur <-> eqb q (fst pc) = true))
           (combine l (cur_seq (Some q) l cur)).
  Proof.
    induction l as [|p r IH]; intros q cur Hs Heq; cbn [cur_seq combine]; [constructor|].
    inversion Hs as [|? ? Hs' Hq]; subst. inversion Hq as [|? ? Hqp Hqr]; subst.
    set (c := step (Some q) p cur).
    assert (IHp := IH p c Hs' (fun x y Hx Hy => Heq x y (or_intror Hx) (or_intror Hy))).
    fold c in IHp. constructor.
    - cbn [fst snd]. unfold c, step. destruct (eqb q p) eqn:E; split; try lia; split; congruence || lia.
    - rewrite Forall_forall in *. intros [p' c'] Hin. cbn [fst snd].
      destruct (IHp _ Hin) as [Hge Hiff]. cbn [fst snd] in Hge, Hiff.
      assert (Hp' : In p' r) by (eapply in_combine_l; exact Hin).
      assert (Hqp' : le q p') by (apply Hqr; exact Hp').
      assert (Hpp' : le p p').
      { inversion Hs' as [|? ? _ Hpr]; subst. rewrite Forall_forall in Hpr. apply Hpr. exact Hp'. }
      pose proof (Heq q p (or_introl eq_refl) (or_intror (or_introl eq_refl))) as Eqp.
      pose proof (Heq q p' (or_introl eq_refl) (or_intror (or_intror Hp'))) as Eqp'.
      pose proof (Heq p p' (or_intror (or_introl eq_refl)) (or_intror (or_intror Hp'))) as Epp'.
      unfold c, step in *. destruct (eqb q p) eqn:E.
      + split; [exact Hge|]. rewrite Hiff. rewrite Epp', Eqp'. destruct (proj1 Eqp eq_refl) as [_ Hpq].
        split; intros [H1 H2]; split; eauto.
      + split; [lia|]. split; [intros; lia|]. intros H. exfalso.
        destruct (proj1 Eqp' H) as [_ Hp'q].
        assert (Hft : false = true) by (apply Eqp; split; [exact Hqp|eapply le_trans; eassumption]). discriminate Hft.
  Qed.

  Lemma cur_seq_pairs : forall l q cur,
    StronglySorted le (q :: l) ->
    (forall x y, In x (q :: l) -> In y (q :: l) -> (eqb x y = true <-> le x y /\ le y x)) ->
    ForallOrdPairs (fun a b => snd a <= snd b /\ (snd a = snd b <-> eqb (fst a) (fst b) = true))
                   (combine (q :: l) (cur :: cur_seq (Some q) l cur)).
  Proof.
    induction l as [|p r IH]; intros q cur Hs Heq.
    - cbn [cur_seq combine]. constructor; constructor.
    - pose proof (cur_seq_head (p :: r) q cur Hs Heq) as Hh.
      cbn [combine]. constructor.
      + rewrite Forall_forall in *. intros pc Hin. destruct (Hh pc Hin) as [H1 H2]. cbn [fst snd].
        split; [exact H1|]. rewrite <- H2. split; intros; congruence.
      + cbn [cur_seq]. inversion Hs as [|? ? Hs' _]; subst.
        apply (IH p (step (Some q) p cur) Hs').
        intros x y Hx Hy. apply Heq; right; assumption.
  Qed.
End CurSeq.

(* ---------- name_go writes the counters into the table ---------- *)
Lemma index_of_lt lms p : In p lms -> index_of lms p < length lms.
Proof.
  induction lms as [|q r IH]; intros H; [contradiction|]. cbn [index_of length].
  destruct (Nat.eqb_spec q p); [lia|]. destruct H as [H|H]; [contradiction|]. specialize (IH H). lia.
Qed.

Lemma index_of_inj lms p q : In p lms -> In q lms -> index_of lms p = index_of lms q -> p = q.
Proof.
  induction lms as [|x r IH]; intros Hp Hq E; [contradiction|]. cbn [index_of] in E.
  destruct (Nat.eqb_spec x p) as [E1|N1], (Nat.eqb_spec x q) as [E2|N2]; try congruence; try discriminate.
  destruct Hp as [Hp|Hp]; [contradiction|]. destruct Hq as [Hq|Hq]; [contradiction|]. injection E as E. auto.
Qed.

Lemma index_of_self lms : NoDup lms -> map (index_of lms) lms = seq 0 (length lms).
Proof.
  induction lms as [|p r IH]; intros Hnd; [reflexivity|]. inversion Hnd as [|? ? Hn Hnd']; subst.
  cbn [map index_of length seq]. rewrite Nat.eqb_refl. f_equal.
  rewrite <- seq_shift, <- (IH Hnd'), map_map. apply map_ext_in. intros q Hq.
  destruct (Nat.eqb_spec p q) as [->|]; [contradiction|reflexivity].
Qed.

Section NameGo.
  Variables (text : list N) (flags : list bool) (lms : list nat).
  Hypothesis Hlms : NoDup lms.
  Let eqb := lms_equal text flags.

  Lemma name_go_spec : forall l prev cur names,
    NoDup l -> (forall p, In p l -> In p lms) -> length names = length lms ->
    let res := name_go text flags lms prev l cur names in
    length (fst res) = length lms /\
    snd res = last (cur_seq eqb prev l cur) cur /\
    map (fun p => nth (index_of lms p) (fst res) 0) l = cur_seq eqb prev l cur /\
    (forall k, (forall p, In p l -> index_of lms p <> k) -> nth k (fst res) 0 = nth k names 0).
  Proof.
    induction l as [|p r IH]; intros prev cur names Hnd Hin Hlen; cbn [name_go cur_seq].
    - cbv zeta. cbn [fst snd map last]. repeat split; auto.
    - inversion Hnd as [|? ? Hnp Hnd']; subst.
      change (match prev with Some q => if lms_equal text flags q p then cur else S cur | None => cur end)
        with (step eqb prev p cur).
      set (c := step eqb prev p cur).
      assert (Hp : In p lms) by (apply Hin; left; reflexivity).
      specialize (IH (Some p) c (upd names (index_of lms p) c) Hnd'
                     (fun q Hq => Hin q (or_intror Hq)) ltac:(rewrite upd_length; exact Hlen)).
      cbv zeta in IH |- *. destruct IH as (H1 & H2 & H3 & H4).
      split; [exact H1|]. split; [rewrite H2; symmetry; apply last_cons_default|]. split.
      + cbn [map]. f_equal; [|exact H3].
        rewrite H4.
        * apply upd_nth_same. rewrite Hlen. apply index_of_lt. exact Hp.
        * intros q Hq E. apply Hnp. assert (q = p) by (apply (index_of_inj lms); auto; apply Hin; right; exact Hq).
          subst q. exact Hq.
      + intros k Hk. rewrite H4 by (intros q Hq; apply Hk; right; exact Hq).
        apply upd_nth_other. intros E. apply (Hk p (or_introl eq_refl)). symmetry. exact E.
  Qed.
End NameGo.

(* ---------- the theorems ---------- *)
Definition name_of (lms names : list nat) (p : nat) : nat := nth (index_of lms p) names 0.

Lemma names_perm text flags lms lms_sa names num :
  NoDup lms -> Permutation lms_sa lms -> name_lms text flags lms lms_sa = Some (names, num) ->
  length names = length lms /\
  map (name_of lms names) lms_sa = cur_seq (lms_equal text flags) None lms_sa 0 /\
  num = (match lms_sa with [] => 0 | _ => last (cur_seq (lms_equal text flags) None lms_sa 0) 0 + 1 end) /\
  Permutation names (cur_seq (lms_equal text flags) None lms_sa 0).
Proof.
  intros Hnd HP E. unfold name_lms in E.
  destruct (Nat.eqb_spec (length lms_sa) (length lms)) as [Hl|Hl]; cbn [negb] in E; [|discriminate].
  assert (Hnd' : NoDup lms_sa) by (eapply Permutation_NoDup; [apply Permutation_sym; exact HP|exact Hnd]).
  pose proof (name_go_spec text flags lms lms_sa None 0 (repeat 0 (length lms)) Hnd'
                (fun p Hp => Permutation_in _ HP Hp) (repeat_length _ _)) as HS.
  cbv zeta in HS. destruct (name_go text flags lms None lms_sa 0 (repeat 0 (length lms))) as [nm cur].
  cbn [fst snd] in HS. destruct HS as (H1 & H2 & H3 & _). injection E as <- <-.
  split; [exact H1|]. split; [exact H3|]. split; [rewrite H2; reflexivity|].
  rewrite <- H3. unfold name_of.
  assert (Hn : nm = map (fun k => nth k nm 0) (seq 0 (length lms))).
  { apply (nth_ext _ _ 0 0); [rewrite map_length, seq_length; exact H1|].
    intros k Hk. rewrite nth_map_seq by lia. reflexivity. }
  rewrite Hn at 1. rewrite <- (index_of_self lms Hnd), map_map.
  rewrite <- (map_map (index_of lms) (fun k => nth k nm 0)), <- (map_map (index_of lms) (fun k => nth k nm 0) lms_sa).
  apply Permutation_map. apply Permutation_map. apply Permutation_sym. exact HP.
Qed.

(* the recursion is entered exactly when two LMS substrings received the same name *)
Theorem sais_recursion_needed_iff_duplicate_names_proof text flags lms lms_sa names num :
  NoDup lms -> Permutation lms_sa lms -> name_lms text flags lms lms_sa = Some (names, num) ->
  num <= length lms /\ (num < length lms <-> ~ NoDup names).
Proof.
  intros Hnd HP E. destruct (names_perm text flags lms lms_sa names num Hnd HP E) as (Hlen & _ & Hnum & Hperm).
  pose proof (Permutation_length HP) as HL.
  pose proof (cur_seq_top_nodup (lms_equal text flags) lms_sa) as [Hle Hiff]. cbv zeta in Hle, Hiff.
  set (cs := cur_seq (lms_equal text flags) None lms_sa 0) in *.
  assert (Hnn : NoDup names <-> NoDup cs).
  { split; intros H; [eapply Permutation_NoDup; [exact Hperm|exact H]|
                      eapply Permutation_NoDup; [apply Permutation_sym; exact Hperm|exact H]]. }
  destruct lms_sa as [|p r].
  - subst num. cbn [length] in HL. split; [lia|]. split; [lia|]. intros H. exfalso. apply H. apply Hnn. apply Hiff. left. reflexivity.
  - specialize (Hle ltac:(discriminate)). subst num. split; [lia|]. rewrite Hnn, Hiff. split.
    + intros H [H'|H']; [discriminate|lia].
    + intros H. destruct (Nat.lt_ge_cases (last cs 0 + 1) (length lms)) as [|Hge]; [assumption|].
      exfalso. apply H. right. lia.
Qed.

Lemma FOP_map {A B} (f : A -> B) (R : B -> B -> Prop) l :
  ForallOrdPairs R (map f l) <-> ForallOrdPairs (fun x y => R (f x) (f y)) l.
Proof.
  induction l as [|x l IH]; cbn [map]; [split; constructor|]. split; intros H; inversion H; subst; constructor.
  - rewrite Forall_forall in *. intros y Hy. match goal with H1 : forall _, In _ (map f l) -> _ |- _ => apply H1 end. apply in_map. exact Hy.
  - apply IH. assumption.
  - rewrite Forall_forall in *. intros y Hy. apply in_map_iff in Hy. destruct Hy as (z & <- & Hz). auto.
  - apply IH. assumption.
Qed.

(* names order the LMS substrings: along a list sorted by a preorder `le` whose equivalence is the
   code's are_lms_substrings_equal, names never decrease and two names are equal exactly for equal
   substrings; every name is below num_names *)
Theorem sais_names_order_lms_substrings_proof (le : nat -> nat -> Prop) text flags lms lms_sa names num :
  (forall x y z, le x y -> le y z -> le x z) ->
  (forall x y, In x lms_sa -> In y lms_sa -> (lms_equal text flags x y = true <-> le x y /\ le y x)) ->
  StronglySorted le lms_sa -> NoDup lms -> Permutation lms_sa lms ->
  name_lms text flags lms lms_sa = Some (names, num) ->
  ForallOrdPairs (fun p p' => name_of lms names p <= name_of lms names p' /\
                              (name_of lms names p = name_of lms names p' <-> lms_equal text flags p p' = true))
                 lms_sa /\
  (forall p, In p lms -> name_of lms names p < num).
Proof.
  intros Htr Heq Hs Hnd HP E.
  destruct (names_perm text flags lms lms_sa names num Hnd HP E) as (Hlen & Hmap & Hnum & Hperm).
  set (eqb := lms_equal text flags) in *. set (cs := cur_seq eqb None lms_sa 0) in *.
  split.
  - destruct lms_sa as [|q l]; [constructor|].
    pose proof (cur_seq_pairs eqb le Htr l q 0 Hs Heq) as HF.
    assert (Ecs : cs = 0 :: cur_seq eqb (Some q) l 0) by reflexivity.
    rewrite <- Ecs, <- Hmap in HF.
    assert (Ec : combine (q :: l) (map (name_of lms names) (q :: l)) = map (fun p => (p, name_of lms names p)) (q :: l)).
    { generalize (q :: l). intros l0. induction l0 as [|x l0 IH]; [reflexivity|]. cbn [map combine]. rewrite IH. reflexivity. }
    rewrite Ec in HF. apply FOP_map in HF. cbn [fst snd] in HF. exact HF.
  - intros p Hp. apply (Permutation_in _ (Permutation_sym HP)) in Hp.
    assert (Hin : In (name_of lms names p) cs) by (rewrite <- Hmap; apply in_map; exact Hp).
    destruct lms_sa as [|q l]; [contradiction|]. subst num.
    assert (Hmax : forall c, In c cs -> c <= last cs 0) by (intros c Hc; apply cur_seq_le_last; exact Hc).
    specialize (Hmax _ Hin). lia.
Qed.

(* the hypotheses are inhabited: mississippi, LMS 1 4 7; the first pass orders them 7 1 4 (i$ < issi = issi) *)
Example names_mississippi :
  let t := [109;105;115;115;105;115;115;105;112;112;105]%N in
  let flags := lms_flags (classify t) in
  name_lms t flags [1;4;7] [7;1;4] = Some ([1;1;0], 2).
Proof. vm_compute. reflexivity. Qed.
