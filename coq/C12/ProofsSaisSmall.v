(* The two induced-sort facts that sais_is_sa_partial takes as hypotheses, evaluated on a complete small
   domain: every string of length <= 12 over {0,1} and <= 8 over {0,1,2} (bound in the statement).
   This is a bounded check of what the hypotheses say about the model's induced_sort, not a proof of them. *)
From ZV.Common Require Import Base.
From ZV.C12 Require Import Spec Model ModelSais.
Open Scope nat_scope.

Fixpoint words (alpha : list N) (n : nat) : list (list N) :=
  match n with
  | 0 => [[]]
  | S k => flat_map (fun s => map (fun a => a :: s) alpha) (words alpha k)
  end.
Definition words_upto (alpha : list N) (n : nat) : list (list N) :=
  flat_map (words alpha) (seq 0 (S n)).

Definition memb (x : nat) (l : list nat) : bool := existsb (Nat.eqb x) l.

(* seeded with the LMS suffixes in suffix order, one round of induced sorting returns the suffix array *)
Definition final_okb (alpha : nat) (t : list N) : bool :=
  let types := classify t in
  let lms := lms_positions (lms_flags types) in
  match bucket_counts alpha t with
  | Some bucket =>
      let '(heads, tails) := boundaries bucket 0 in
      let lo := filter (fun p => memb p lms) (sort_suffixes t) in
      match induced_sort t lo types heads tails with
      | Some sa => check_sa t sa
      | None => false
      end
  | None => false
  end.

(* seeded in text order: the LMS positions come back as a permutation, and the names computed from that
   order make the reduced string order-isomorphic to the LMS suffixes *)
Definition first_okb (alpha : nat) (t : list N) : bool :=
  let types := classify t in
  let flags := lms_flags types in
  let lms := lms_positions flags in
  if length lms <? 2 then true else
  match bucket_counts alpha t with
  | Some bucket =>
      let '(heads, tails) := boundaries bucket 0 in
      match induced_sort t lms types heads tails with
      | Some sa1 =>
          let lms_sa := compact_lms sa1 flags in
          (length lms_sa =? length lms) && forallb (fun p => memb p lms_sa) lms
          && match name_lms t flags lms lms_sa with
             | Some (names, _) =>
                 let r := map N.of_nat names in
                 let idx := seq 0 (length lms) in
                 forallb (fun a => forallb (fun b =>
                   Bool.eqb (lex_ltb (suffix t (nth a lms 0)) (suffix t (nth b lms 0)))
                            (lex_ltb (suffix r a) (suffix r b))) idx) idx
             | None => false
             end
      | None => false
      end
  | None => false
  end.

Theorem induced_sort_lemmas_small_proof :
  forall t, In t (words_upto [0; 1]%N 12) \/ In t (words_upto [0; 1; 2]%N 8) ->
    final_okb 3 t = true /\ first_okb 3 t = true.
Proof.
  assert (H : forallb (fun t => final_okb 3 t && first_okb 3 t)
                      (words_upto [0; 1]%N 12 ++ words_upto [0; 1; 2]%N 8) = true) by (vm_compute; reflexivity).
  intros t Ht. rewrite forallb_forall in H. specialize (H t).
  rewrite in_app_iff in H. specialize (H Ht). apply andb_true_iff in H. exact H.
Qed.
