(* C12 mechanism model: SA-IS as coded in src/algorithms/suffix_array.rs (after fix b9641b9):
   sais_construct / sais_construct_with_depth<T> (depth limit 100 -> fallback_sort, 2^30 size guard,
   n <= 1 shortcut, "zero or one LMS suffix" shortcut, recursion on the names when num_names < #LMS),
   classify_suffixes (right-to-left scan; the last suffix is L because of the virtual sentinel),
   find_lms_suffixes, the bucket counts and compute_bucket_boundaries, induced_sort (LMS seeds from the
   bucket ends in reverse order, induce_l_type left to right with the sentinel's predecessor first,
   induce_s_type right to left from fresh bucket tails), compact_lms_suffixes, name_lms_substrings
   (index_of table, names in text order, num_names), are_lms_substrings_equal.
   Symbols are N (u8 at depth 0, usize names below), positions / ranks / counters are nat (usize; the
   empty-slot marker is n).  A panic of the checked build (index out of range, `-= 1` on 0) and the two
   Err returns are None.  Definitions only. *)
From ZV.Common Require Import Base.
From ZV.C12 Require Import Spec Model.
Open Scope nat_scope.

(* ---------- classify_suffixes ---------- *)
(* suffix_types, true = S-type.  for i in (0..n-1).rev(): t[i] < t[i+1] -> S; > -> L; = -> types[i+1];
   types[n-1] = L *)
Fixpoint classify (t : list N) : list bool :=
  match t with
  | [] => []
  | x :: rest =>
      match rest with
      | [] => [false]
      | y :: _ =>
          let ts := classify rest in
          (if (x <? y)%N then true else if (y <? x)%N then false else hd false ts) :: ts
      end
  end.

(* is_lms[i] = types[i] && !types[i-1] for i in 1..n; is_lms[0] = false *)
Fixpoint lms_go (prev : bool) (ty : list bool) : list bool :=
  match ty with
  | [] => []
  | b :: r => (b && negb prev) :: lms_go b r
  end.
Definition lms_flags (ty : list bool) : list bool :=
  match ty with [] => [] | b :: r => false :: lms_go b r end.

(* find_lms_suffixes: positions with is_lms, in text order *)
Definition lms_positions (flags : list bool) : list nat :=
  filter (fun i => nth i flags false) (seq 0 (length flags)).

(* ---------- buckets ---------- *)
(* bucket[ch] += 1 for every symbol (index panic when ch >= alphabet_size) *)
Definition bucket_counts (alpha : nat) (t : list N) : option (list nat) :=
  if forallb (fun c => N.to_nat c <? alpha) t
  then Some (map (fun b => length (filter (fun c => N.to_nat c =? b) t)) (seq 0 alpha))
  else None.
(* compute_bucket_boundaries: heads[i] = sum before bucket i, tails[i] = heads[i] + bucket[i] *)
Fixpoint boundaries (bucket : list nat) (sum : nat) : list nat * list nat :=
  match bucket with
  | [] => ([], [])
  | b :: r => let '(h, tl) := boundaries r (sum + b) in (sum :: h, (sum + b) :: tl)
  end.

(* ---------- induced sorting ---------- *)
Definition sym (text : list N) (p : nat) : nat := N.to_nat (nth p text 0%N).

(* tails[ch] -= 1; sa[tails[ch]] = p *)
Definition put_tail (text : list N) (tails sa : list nat) (p : nat) : option (list nat * list nat) :=
  let ch := sym text p in
  if length tails <=? ch then None else
  let tl := nth ch tails 0 in
  if tl =? 0 then None
  else if length sa <=? tl - 1 then None
  else Some (upd tails ch (tl - 1), upd sa (tl - 1) p).
(* sa[heads[ch]] = p; heads[ch] += 1 *)
Definition put_head (text : list N) (heads sa : list nat) (p : nat) : option (list nat * list nat) :=
  let ch := sym text p in
  if length heads <=? ch then None else
  let h := nth ch heads 0 in
  if length sa <=? h then None
  else Some (upd heads ch (h + 1), upd sa h p).

(* for &lms_pos in lms_order.iter().rev() { tails[ch] -= 1; sa[tails[ch]] = lms_pos } *)
Fixpoint place_lms (text : list N) (order_rev : list nat) (tails sa : list nat) : option (list nat) :=
  match order_rev with
  | [] => Some sa
  | p :: r =>
      match put_tail text tails sa p with
      | Some (tails', sa') => place_lms text r tails' sa'
      | None => None
      end
  end.

Fixpoint induce_l_go (text : list N) (types : list bool) (n : nat) (idx : list nat)
         (heads sa : list nat) : option (list nat) :=
  match idx with
  | [] => Some sa
  | i :: r =>
      let j := nth i sa 0 in
      if (j =? n) || (j =? 0) then induce_l_go text types n r heads sa
      else if negb (nth (j - 1) types false) then
        match put_head text heads sa (j - 1) with
        | Some (heads', sa') => induce_l_go text types n r heads' sa'
        | None => None
        end
      else induce_l_go text types n r heads sa
  end.
Definition induce_l (text : list N) (types : list bool) (heads sa : list nat) : option (list nat) :=
  let n := length text in
  match (if 0 <? n then put_head text heads sa (n - 1) else Some (heads, sa)) with
  | Some (heads', sa') => induce_l_go text types n (seq 0 n) heads' sa'
  | None => None
  end.

Fixpoint induce_s_go (text : list N) (types : list bool) (n : nat) (idx : list nat)
         (tails sa : list nat) : option (list nat) :=
  match idx with
  | [] => Some sa
  | i :: r =>
      let j := nth i sa 0 in
      if (j =? n) || (j =? 0) then induce_s_go text types n r tails sa
      else if nth (j - 1) types false then
        match put_tail text tails sa (j - 1) with
        | Some (tails', sa') => induce_s_go text types n r tails' sa'
        | None => None
        end
      else induce_s_go text types n r tails sa
  end.
Definition induce_s (text : list N) (types : list bool) (tails sa : list nat) : option (list nat) :=
  let n := length text in induce_s_go text types n (rev (seq 0 n)) tails sa.

Definition induced_sort (text : list N) (lms_order : list nat) (types : list bool)
           (heads tails : list nat) : option (list nat) :=
  let n := length text in
  match place_lms text (rev lms_order) tails (repeat n n) with
  | Some sa1 =>
      match induce_l text types heads sa1 with
      | Some sa2 => induce_s text types tails sa2
      | None => None
      end
  | None => None
  end.

(* ---------- naming ---------- *)
(* compact_lms_suffixes *)
Definition compact_lms (sa : list nat) (flags : list bool) : list nat :=
  filter (fun pos => (pos <? length flags) && nth pos flags false) sa.

(* are_lms_substrings_equal; fuel = n + 1 iterations at most *)
Fixpoint lms_equal_go (fuel : nat) (text : list N) (flags : list bool) (p1 p2 i : nat) : bool :=
  match fuel with
  | 0 => false
  | S f =>
      let a := p1 + i in
      let b := p2 + i in
      let n := length text in
      if (n <=? a) || (n <=? b) then false
      else if negb (N.eqb (nth a text 0%N) (nth b text 0%N)) then false
      else if (0 <? i) && (nth a flags false || nth b flags false)
           then nth a flags false && nth b flags false
      else lms_equal_go f text flags p1 p2 (S i)
  end.
Definition lms_equal (text : list N) (flags : list bool) (p1 p2 : nat) : bool :=
  if p1 =? p2 then true else lms_equal_go (S (length text)) text flags p1 p2 0.

(* index_of[pos] = k for lms_suffixes[k] = pos *)
Fixpoint index_of (lms : list nat) (pos : nat) : nat :=
  match lms with
  | [] => 0
  | p :: r => if p =? pos then 0 else S (index_of r pos)
  end.

(* for i in 0..lms_sa.len() { if i > 0 && !equal(lms_sa[i-1], lms_sa[i]) { current_name += 1 }
     names[index_of[lms_sa[i]]] = current_name } *)
Fixpoint name_go (text : list N) (flags : list bool) (lms : list nat) (prev : option nat)
         (l : list nat) (cur : nat) (names : list nat) : list nat * nat :=
  match l with
  | [] => (names, cur)
  | p :: r =>
      let cur' := match prev with
                  | Some q => if lms_equal text flags q p then cur else S cur
                  | None => cur
                  end in
      name_go text flags lms (Some p) r cur' (upd names (index_of lms p) cur')
  end.
(* None = Err("LMS suffix not found") *)
Definition name_lms (text : list N) (flags : list bool) (lms lms_sa : list nat) : option (list nat * nat) :=
  if negb (length lms_sa =? length lms) then None
  else
    let '(names, cur) := name_go text flags lms None lms_sa 0 (repeat 0 (length lms)) in
    Some (names, match lms_sa with [] => 0 | _ => cur + 1 end).

(* ---------- sais_construct_with_depth ---------- *)
Definition MAX_TEXT_SIZE : N := 1073741824.

(* fuel = 101 - depth: fuel 0 is depth 101 > MAX_RECURSION_DEPTH, the fallback sort *)
Fixpoint sais_go (fuel : nat) (text : list N) (alpha : nat) : option (list nat) :=
  match fuel with
  | 0 => Some (sort_suffixes text)
  | S f =>
      let n := length text in
      if (MAX_TEXT_SIZE <? N.of_nat n)%N then None
      else if n <=? 1 then Some (seq 0 n)
      else
        let types := classify text in
        let flags := lms_flags types in
        let lms := lms_positions flags in
        match bucket_counts alpha text with
        | None => None
        | Some bucket =>
            let '(heads, tails) := boundaries bucket 0 in
            match induced_sort text lms types heads tails with
            | None => None
            | Some sa1 =>
                if length lms <=? 1 then Some sa1
                else
                  let lms_sa := compact_lms sa1 flags in
                  match name_lms text flags lms lms_sa with
                  | None => None
                  | Some (names, num_names) =>
                      let sorted :=
                        if num_names <? length lms then
                          match sais_go f (map N.of_nat names) num_names with
                          | Some reduced => Some (map (fun r => nth r lms 0) reduced)
                          | None => None
                          end
                        else Some lms_sa in
                      match sorted with
                      | Some sorted_lms => induced_sort text sorted_lms types heads tails
                      | None => None
                      end
                  end
            end
        end
  end.

(* sais_construct: alphabet 256 when optimize_small_alphabet, else max + 1 *)
Definition sais_alphabet (opt : bool) (t : list N) : nat :=
  if opt then 256 else match t with [] => 0 | _ => S (N.to_nat (fold_right N.max 0%N t)) end.
Definition sais (opt : bool) (t : list N) : option (list nat) :=
  sais_go 101 t (sais_alphabet opt t).

(* ---------- the intermediate arrays, level by level (compared with the implementation's trace hook) ---------- *)
(* one level = [[depth; n; alphabet; num_names; recursed]; suffix_types (0/1); lms_suffixes; first pass; names].
   The level list needs only the first induced-sort pass of each level. *)
Definition bools_n (l : list bool) : list N := map (fun b : bool => if b then 1%N else 0%N) l.
Definition nats_n (l : list nat) : list N := map N.of_nat l.
Fixpoint sais_levels (fuel depth : nat) (text : list N) (alpha : nat) : list (list (list N)) :=
  match fuel with
  | 0 => []
  | S f =>
      let n := length text in
      if (MAX_TEXT_SIZE <? N.of_nat n)%N then []
      else if n <=? 1 then []
      else
        let types := classify text in
        let flags := lms_flags types in
        let lms := lms_positions flags in
        match bucket_counts alpha text with
        | None => []
        | Some bucket =>
            let '(heads, tails) := boundaries bucket 0 in
            match induced_sort text lms types heads tails with
            | None => []
            | Some sa1 =>
                if length lms <=? 1 then
                  [[nats_n [depth; n; alpha; 0; 0]; bools_n types; nats_n lms; nats_n sa1; []]]
                else
                  match name_lms text flags lms (compact_lms sa1 flags) with
                  | None => []
                  | Some (names, num_names) =>
                      let rec := num_names <? length lms in
                      [nats_n [depth; n; alpha; num_names; if rec then 1 else 0];
                       bools_n types; nats_n lms; nats_n sa1; nats_n names]
                      :: (if rec then sais_levels f (S depth) (map N.of_nat names) num_names else [])
                  end
            end
        end
  end.
Definition sais_trace (opt : bool) (t : list N) : list (list (list N)) :=
  sais_levels 101 0 t (sais_alphabet opt t).
