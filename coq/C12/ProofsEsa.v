(* The enhanced-suffix-array containers return the Kasai / BWT values for every text:
   (A) algorithms::suffix_array::EnhancedSuffixArray (usize storage),
   (B) compression::suffix_array (u32 storage: exact because every stored value is below the
       text length and the constructor refuses texts whose indices do not fit u32). *)
From ZV.Common Require Import Base.
From Coq Require Import Sorting.Permutation Sorting.Sorted.
From ZV.C12 Require Import Spec Model ProofsOrder ProofsSearch ProofsBuild ProofsKasai ModelEsa.
Open Scope nat_scope.

Lemma pow32 : (2 ^ 32 = 4294967296)%N. Proof. reflexivity. Qed.

Lemma is_sa_length t sa : is_sa t sa -> length sa = length t.
Proof. intros [HP _]. apply Permutation_length in HP. rewrite seq_length in HP. exact HP. Qed.

Lemma is_sa_in_range t sa : is_sa t sa -> forall s, In s sa -> s < length t.
Proof. intros [HP _] s Hin. apply (Permutation_in _ HP) in Hin. apply in_seq in Hin. lia. Qed.

Lemma lcp_len_le_l a : forall b, lcp_len a b <= length a.
Proof.
  induction a as [|x a IH]; intros [|y b]; cbn [lcp_len length]; try lia.
  destruct (N.eqb x y); [specialize (IH b); lia|lia].
Qed.
Lemma lcp_len_le_r a : forall b, lcp_len a b <= length b.
Proof.
  induction a as [|x a IH]; intros [|y b]; cbn [lcp_len length]; try lia.
  destruct (N.eqb x y); [specialize (IH b); lia|lia].
Qed.

(* every LCP value is smaller than the text length *)
Lemma lcp_spec_lt t sa : is_sa t sa -> forall v, In v (lcp_spec t sa) -> v < length t.
Proof.
  intros Hsa v Hin. unfold lcp_spec in Hin. apply in_map_iff in Hin. destruct Hin as (k & <- & Hk).
  apply in_seq in Hk. pose proof (is_sa_length t sa Hsa) as Hlen.
  destruct k as [|k]; [lia|].
  pose proof (rank_lt t sa Hsa k (S k) ltac:(lia) ltac:(lia)) as Hlt.
  set (a := nth k sa 0) in *. set (b := nth (S k) sa 0) in *.
  assert (Ha : a < length t) by (apply (is_sa_in_range t sa Hsa); apply nth_In; lia).
  assert (Hb : b < length t) by (apply (is_sa_in_range t sa Hsa); apply nth_In; lia).
  assert (Hne : a <> b) by (intros E; rewrite E in Hlt; exact (lex_lt_irrefl _ Hlt)).
  pose proof (lcp_len_le_l (suffix t a) (suffix t b)) as H1.
  pose proof (lcp_len_le_r (suffix t a) (suffix t b)) as H2.
  rewrite suffix_length in H1, H2. lia.
Qed.

(* ---------- (A) ---------- *)
Theorem esa_lcp_at_is_kasai_proof (sais : list N -> list nat) (analyse : list N -> alg) t :
  (select_algorithm analyse default_config t = SAIS \/ select_algorithm analyse default_config t = Adaptive
     -> is_sa t (sais t)) ->
  exists e, esa_with_lcp sais analyse t = Some e /\ is_sa t (esa_sa e) /\
            forall k, esa_lcp_at e k = nth_error (lcp_spec t (esa_sa e)) k.
Proof.
  intros Hs. pose proof (build_is_sa_proof sais analyse default_config t Hs) as Hsa.
  unfold esa_with_lcp. rewrite (kasai_correct_proof t _ Hsa).
  eexists. split; [reflexivity|]. split; [exact Hsa|]. intros k. reflexivity.
Qed.

Theorem esa_bwt_is_bwt_proof (sais : list N -> list nat) (analyse : list N -> alg) t :
  (select_algorithm analyse default_config t = SAIS \/ select_algorithm analyse default_config t = Adaptive
     -> is_sa t (sais t)) ->
  let e := esa_with_bwt sais analyse t in
  is_sa t (esa_sa e) /\ esa_bwt e = Some (bwt_spec t (esa_sa e)) /\
  forall b, esa_bwt e = Some b -> Permutation b t.
Proof.
  intros Hs e. pose proof (build_is_sa_proof sais analyse default_config t Hs) as Hsa.
  assert (Hb : bwt t (build sais analyse default_config t) = bwt_spec t (build sais analyse default_config t)).
  { apply bwt_correct_proof. rewrite Forall_forall. apply (is_sa_in_range _ _ Hsa). }
  split; [exact Hsa|]. split.
  - subst e. unfold esa_with_bwt. cbn [esa_bwt esa_sa]. rewrite Hb. reflexivity.
  - intros b Eb. subst e. unfold esa_with_bwt in Eb. cbn [esa_bwt] in Eb. injection Eb as <-.
    apply bwt_perm_proof. exact Hsa.
Qed.

(* ---------- (B) ---------- *)
Lemma as_uw_id W x : (N.of_nat x < 2 ^ W)%N -> N.to_nat (as_uw W x) = x.
Proof. intros H. unfold as_uw. rewrite N.mod_small by exact H. apply Nat2N.id. Qed.

(* a stored list reads back unchanged exactly when every value fits the width *)
Lemma stored_width_exact_iff_proof W l :
  map N.to_nat (map (as_uw W) l) = l <-> Forall (fun v => (N.of_nat v < 2 ^ W)%N) l.
Proof.
  induction l as [|v l IH]; cbn [map].
  - split; [constructor|reflexivity].
  - split.
    + intros E. injection E as Ev El. constructor; [|apply IH; exact El].
      unfold as_uw in Ev. assert (Hp : (2 ^ W <> 0)%N) by (apply N.pow_nonzero; discriminate).
      pose proof (N.mod_upper_bound (N.of_nat v) (2 ^ W)%N Hp) as Hu. lia.
    + intros H. inversion H as [|? ? Hv Hl]; subst. f_equal; [apply as_uw_id; exact Hv|apply IH; exact Hl].
Qed.

Lemma read_back W l : (forall x, In x l -> (N.of_nat x < 2 ^ W)%N) ->
  forall k, option_map N.to_nat (nth_error (map (as_uw W) l) k) = nth_error l k.
Proof.
  intros H k. rewrite nth_error_map. destruct (nth_error l k) as [x|] eqn:E; cbn [option_map]; [|reflexivity].
  f_equal. apply as_uw_id. apply H. eapply nth_error_In; exact E.
Qed.

Theorem cesa_exact_proof (sais : list N -> list nat) t :
  is_sa t (sais t) -> (N.of_nat (length t) <= 2 ^ 32)%N ->
  exists e sa, is_sa t sa /\ cesa_build sais true t = Some e /\
    c_text_len e = length t /\ cesa_len e = length t /\
    (forall k, cesa_suffix_at_rank e k = nth_error sa k) /\
    (forall k, cesa_lcp_at e k = nth_error (lcp_spec t sa) k).
Proof.
  intros Hs Hn. destruct t as [|x t'].
  { exists {| c_sa := []; c_lcp := None; c_text_len := 0 |}, []. split; [apply is_sa_nil|].
    split; [reflexivity|]. split; [reflexivity|]. split; [reflexivity|].
    split; intros k; destruct k; reflexivity. }
  set (t := x :: t') in *.
  set (cfg := {| algorithm := SAIS; adaptive_threshold := 10000 |}).
  pose proof (build_is_sa_proof sais (fun _ => SAIS) cfg t (fun _ => Hs)) as Hsa.
  set (raw := build sais (fun _ => SAIS) cfg t) in *.
  assert (Hfit : forall s, In s raw -> (N.of_nat s < 2 ^ 32)%N).
  { intros s Hin. apply (is_sa_in_range _ _ Hsa) in Hin. lia. }
  assert (Hex : existsb (fun s => (U32_MAX <? N.of_nat s)%N) raw = false).
  { apply not_true_is_false. intros E. apply existsb_exists in E. destruct E as (s & Hin & Hlt).
    apply N.ltb_lt in Hlt. specialize (Hfit s Hin). rewrite pow32 in Hfit. unfold U32_MAX in Hlt. lia. }
  exists {| c_sa := map (as_uw 32) raw; c_lcp := Some (map (as_uw 32) (lcp_spec t raw)); c_text_len := length t |}, raw.
  split; [exact Hsa|]. split.
  { unfold cesa_build, cesa_build_w. fold t. change (x :: t') with t. fold cfg. fold raw.
    rewrite Hex. rewrite (kasai_correct_proof t raw Hsa). reflexivity. }
  split; [reflexivity|]. split.
  { unfold cesa_len. cbn [c_sa]. rewrite map_length. apply is_sa_length. exact Hsa. }
  split.
  - intros k. unfold cesa_suffix_at_rank. cbn [c_sa]. apply read_back. exact Hfit.
  - intros k. unfold cesa_lcp_at. cbn [c_lcp]. apply read_back.
    intros v Hin. apply (lcp_spec_lt t raw Hsa) in Hin. lia.
Qed.

Theorem cesa_too_long_proof (sais : list N -> list nat) b t :
  is_sa t (sais t) -> (2 ^ 32 < N.of_nat (length t))%N -> cesa_build sais b t = None.
Proof.
  intros Hs Hn. destruct t as [|x t']; [cbn [length] in Hn; rewrite pow32 in Hn; lia|].
  set (t := x :: t') in *.
  set (cfg := {| algorithm := SAIS; adaptive_threshold := 10000 |}).
  pose proof (build_is_sa_proof sais (fun _ => SAIS) cfg t (fun _ => Hs)) as Hsa.
  unfold cesa_build, cesa_build_w. change (x :: t') with t. fold cfg.
  set (raw := build sais (fun _ => SAIS) cfg t) in *.
  assert (Hex : existsb (fun s => (U32_MAX <? N.of_nat s)%N) raw = true).
  { apply existsb_exists. exists (length t - 1). split.
    - destruct Hsa as [HP _]. apply (Permutation_in _ (Permutation_sym HP)). apply in_seq.
      rewrite pow32 in Hn. lia.
    - apply N.ltb_lt. rewrite pow32 in Hn. unfold U32_MAX. lia. }
  rewrite Hex. reflexivity.
Qed.

(* a narrower store is wrong as soon as one LCP value reaches 2^W: here W = 3 and the text a^9 *)
Theorem cesa_narrow_width_refuted_proof :
  exists W t, let sa := sort_suffixes t in
    match cesa_build_w (fun _ => sa) W true t with
    | Some e => exists k, cesa_lcp_at e k <> nth_error (lcp_spec t sa) k
    | None => False
    end.
Proof.
  exists 3%N, (repeat 97%N 9). cbv zeta.
  match goal with |- match ?c with _ => _ end => let v := eval vm_compute in c in change c with v end.
  exists 8. vm_compute. discriminate.
Qed.

(* ---------- examples ---------- *)
Example esa_banana :
  let t := [98;97;110;97;110;97]%N in
  match esa_with_lcp (fun _ => []) (fun _ => DC3) t with
  | Some e => map (esa_lcp_at e) (seq 0 7) = [Some 0; Some 1; Some 3; Some 0; Some 0; Some 2; None]
  | None => False
  end
  /\ esa_bwt (esa_with_bwt (fun _ => []) (fun _ => DC3) t) = Some [110;110;98;97;97;97]%N.
Proof. vm_compute. split; reflexivity. Qed.

Example cesa_banana :
  let t := [98;97;110;97;110;97]%N in
  match cesa_build (fun _ => [5;3;1;0;4;2]) true t with
  | Some e => map (cesa_lcp_at e) (seq 0 7) = [Some 0; Some 1; Some 3; Some 0; Some 0; Some 2; None]
              /\ map (cesa_suffix_at_rank e) (seq 0 7) = [Some 5; Some 3; Some 1; Some 0; Some 4; Some 2; None]
  | None => False
  end.
Proof. vm_compute. split; reflexivity. Qed.
