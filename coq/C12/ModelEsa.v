(* C12 mechanism model: the two "enhanced suffix array" containers.
   (A) src/algorithms/suffix_array.rs  EnhancedSuffixArray::{with_lcp, with_bwt, lcp_array, bwt},
       LcpArray::{new, lcp_at}: Vec<usize> storage - no narrowing anywhere.
   (B) src/compression/suffix_array.rs SuffixArrayCompressor::build_suffix_array and
       EnhancedSuffixArray::{suffix_at_rank, lcp_at, len, is_empty, text_len}: the base builder is
       called with algorithm = SAIS; an index above u32::MAX is refused; suffix array and LCP values
       are stored with `as u32` in an IntVec<u32> and read back with `as usize`.  The cast is
       modelled as reduction modulo 2^W with W = 32 in the code (`as_uw`); the packed-integer
       container IntVec itself (property C09) is taken as a faithful store.
   Definitions only. *)
From ZV.Common Require Import Base.
From ZV.C12 Require Import Spec Model.
Open Scope nat_scope.

(* ---------- (A) algorithms::suffix_array::EnhancedSuffixArray ---------- *)
Record esa := { esa_sa : list nat; esa_lcp : option (list nat); esa_bwt : option (list N) }.

(* SuffixArrayConfig::default(): Adaptive, adaptive_threshold 10 000 (compute_lcp is not read by build) *)
Definition default_config : config := {| algorithm := Adaptive; adaptive_threshold := 10000 |}.

Section EsaA.
  Variable sais : list N -> list nat.
  Variable analyse : list N -> alg.

  (* with_lcp: SuffixArray::with_config, then LcpArray::new = compute_lcp_kasai; None = panic *)
  Definition esa_with_lcp (t : list N) : option esa :=
    let sa := build sais analyse default_config t in
    match kasai t sa with
    | Some l => Some {| esa_sa := sa; esa_lcp := Some l; esa_bwt := None |}
    | None => None
    end.
  (* with_bwt: SuffixArray::new, then compute_bwt *)
  Definition esa_with_bwt (t : list N) : esa :=
    let sa := build sais analyse default_config t in
    {| esa_sa := sa; esa_lcp := None; esa_bwt := Some (bwt t sa) |}.
End EsaA.

(* lcp_array().and_then(|l| l.lcp_at(k)): self.lcp.get(index).copied() *)
Definition esa_lcp_at (e : esa) (k : nat) : option nat :=
  match esa_lcp e with Some l => nth_error l k | None => None end.

(* ---------- (B) compression::suffix_array ---------- *)
Definition U32_MAX : N := 4294967295.
(* `x as uW` for a usize x *)
Definition as_uw (W : N) (x : nat) : N := (N.of_nat x mod 2 ^ W)%N.

Record cesa := { c_sa : list N; c_lcp : option (list N); c_text_len : nat }.

Section EsaB.
  Variable sais : list N -> list nat.
  Variable W : N.   (* storage width; 32 in the code *)

  (* None = Err("Text too large for u32 suffix array indices") or a panic inside Kasai *)
  Definition cesa_build_w (compute_lcp : bool) (t : list N) : option cesa :=
    match t with
    | [] => Some {| c_sa := []; c_lcp := None; c_text_len := 0 |}
    | _ =>
        let raw := build sais (fun _ => SAIS) {| algorithm := SAIS; adaptive_threshold := 10000 |} t in
        if existsb (fun x => (U32_MAX <? N.of_nat x)%N) raw then None
        else if compute_lcp then
          match kasai t raw with
          | Some l => Some {| c_sa := map (as_uw W) raw; c_lcp := Some (map (as_uw W) l);
                              c_text_len := length t |}
          | None => None
          end
        else Some {| c_sa := map (as_uw W) raw; c_lcp := None; c_text_len := length t |}
    end.
End EsaB.

Definition cesa_build (sais : list N -> list nat) := cesa_build_w sais 32.

(* suffix_array.get(rank).map(|v| v as usize), lcp_array.as_ref()?.get(index).map(|v| v as usize) *)
Definition cesa_suffix_at_rank (e : cesa) (k : nat) : option nat :=
  option_map N.to_nat (nth_error (c_sa e) k).
Definition cesa_lcp_at (e : cesa) (k : nat) : option nat :=
  match c_lcp e with Some l => option_map N.to_nat (nth_error l k) | None => None end.
Definition cesa_len (e : cesa) : nat := length (c_sa e).
Definition cesa_is_empty (e : cesa) : bool := length (c_sa e) =? 0.
