(* C12 spec layer: what a suffix array, an LCP array, a BWT and an occurrence are.
   Texts are byte lists (list N), positions and ranks are nat.  Definitions only. *)
From ZV.Common Require Import Base.
From Coq Require Import Sorting.Permutation Sorting.Sorted.
Open Scope nat_scope.

(* lexicographic order on byte strings: <[u8] as Ord>::cmp *)
Fixpoint lex_cmp (a b : list N) : comparison :=
  match a, b with
  | [], [] => Eq
  | [], _ :: _ => Lt
  | _ :: _, [] => Gt
  | x :: a', y :: b' =>
      match N.compare x y with Eq => lex_cmp a' b' | c => c end
  end.
Definition lex_lt (a b : list N) : Prop := lex_cmp a b = Lt.
Definition lex_ltb (a b : list N) : bool :=
  match lex_cmp a b with Lt => true | _ => false end.

(* suffix i of t = t[i..] *)
Definition suffix (t : list N) (i : nat) : list N := skipn i t.
Definition suf_lt (t : list N) (i j : nat) : Prop := lex_lt (suffix t i) (suffix t j).

(* THE suffix array of t: a permutation of 0..n-1 listing the suffixes in strictly
   increasing lexicographic order *)
Definition is_sa (t : list N) (sa : list nat) : Prop :=
  Permutation sa (seq 0 (length t)) /\ StronglySorted (suf_lt t) sa.

(* longest common prefix *)
Fixpoint lcp_len (a b : list N) : nat :=
  match a, b with
  | x :: a', y :: b' => if N.eqb x y then S (lcp_len a' b') else 0
  | _, _ => 0
  end.
(* lcp[0] = 0, lcp[k] = |longest common prefix of suffixes sa[k-1], sa[k]| *)
Definition lcp_spec (t : list N) (sa : list nat) : list nat :=
  map (fun k => match k with
                | 0 => 0
                | S k' => lcp_len (suffix t (nth k' sa 0)) (suffix t (nth k sa 0))
                end) (seq 0 (length sa)).

(* BWT induced by the order: the byte cyclically preceding each suffix *)
Definition bwt_spec (t : list N) (sa : list nat) : list N :=
  map (fun i => nth ((i + length t - 1) mod length t) t 0%N) sa.

(* p is a prefix of s *)
Definition is_prefix (p s : list N) : Prop := firstn (length p) s = p.
(* p occurs in t at position i *)
Definition occurs (t p : list N) (i : nat) : Prop :=
  i < length t /\ is_prefix p (suffix t i).
