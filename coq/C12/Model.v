(* C12 mechanism model: src/algorithms/suffix_array.rs as written.
   - SuffixArray::{compare_suffix_pattern, lower_bound, upper_bound, search_range, search}
   - SuffixArrayBuilder::{select_algorithm, build, build_sequential, dc3_construct,
     divsufsort_construct, larsson_sadakane_construct, fallback_sort}: in this code the three
     "algorithms" are `sort_by` on suffix slices plus short-input special cases
   - LcpArray::compute_lcp_kasai (same text in src/compression/suffix_array.rs)
   - EnhancedSuffixArray::compute_bwt
   - sais_construct (induced sorting) is a parameter of `build` here; its executable model is
     ModelSais.v (`sais`), plugged in by ProofsSais.build_with_sais_model_is_sa, and every
     output of the real code is also certified per run by the verified checker `check_sa`.
   - the f64 part of select_algorithm (entropy / repetition ratio, only reached by Adaptive
     when len >= adaptive_threshold) is a parameter `analyse`.
   Indices are nat, thresholds N, bytes N.  Definitions only. *)
From ZV.Common Require Import Base.
From ZV.C12 Require Import Spec.
Open Scope nat_scope.

(* ---------- pattern search ---------- *)

(* compare_suffix_pattern: compare over the common length; then Equal if the pattern
   fits inside the suffix, else Less *)
Fixpoint cmp_sp (s p : list N) : comparison :=
  match s, p with
  | _, [] => Eq
  | [], _ :: _ => Lt
  | x :: s', y :: p' =>
      match N.compare x y with Eq => cmp_sp s' p' | c => c end
  end.

(* while left < right { mid = left + (right-left)/2; if go_right(mid) {left = mid+1} else {right = mid} } *)
Fixpoint bsearch (fuel : nat) (go_right : nat -> bool) (left right : nat) : nat :=
  match fuel with
  | 0 => left
  | S f =>
      if left <? right then
        let mid := left + (right - left) / 2 in
        if go_right mid then bsearch f go_right (mid + 1) right
        else bsearch f go_right left mid
      else left
  end.

Definition sp_at (t : list N) (sa : list nat) (p : list N) (mid : nat) : comparison :=
  cmp_sp (skipn (nth mid sa 0) t) p.

Definition lower_bound (t : list N) (sa : list nat) (p : list N) : nat :=
  bsearch (S (length sa))
    (fun mid => match sp_at t sa p mid with Lt => true | _ => false end) 0 (length sa).
Definition upper_bound (t : list N) (sa : list nat) (p : list N) : nat :=
  bsearch (S (length sa))
    (fun mid => match sp_at t sa p mid with Gt => false | _ => true end) 0 (length sa).
Definition search_range (t : list N) (sa : list nat) (p : list N) : nat * nat :=
  (lower_bound t sa p, upper_bound t sa p).
(* search: (left, right.saturating_sub(left)) *)
Definition search (t : list N) (sa : list nat) (p : list N) : nat * nat :=
  let '(l, r) := search_range t sa p in (l, r - l).

(* src/compression/suffix_array.rs EnhancedSuffixArray::{lower_bound, upper_bound,
   find_pattern_range}: the same loops over IntVec storage; a rank whose lookup fails
   (`suffix_at_rank(mid) == None`) moves `right` *)
Definition w_lower_bound (t : list N) (sa : list nat) (p : list N) : nat :=
  bsearch (S (length sa))
    (fun mid => match nth_error sa mid with
                | Some s => match cmp_sp (skipn s t) p with Lt => true | _ => false end
                | None => false
                end) 0 (length sa).
Definition w_upper_bound (t : list N) (sa : list nat) (p : list N) : nat :=
  bsearch (S (length sa))
    (fun mid => match nth_error sa mid with
                | Some s => match cmp_sp (skipn s t) p with Gt => false | _ => true end
                | None => false
                end) 0 (length sa).
Definition w_find_pattern_range (t : list N) (sa : list nat) (p : list N) : nat * nat :=
  match p, sa with
  | [], _ | _, [] => (0, 0)
  | _, _ => (w_lower_bound t sa p, w_upper_bound t sa p)
  end.

(* ---------- sort-based constructions ---------- *)

(* sa.sort_by(|a, b| text[a..].cmp(&text[b..])) on (0..n): a comparison sort with the suffix
   comparator; suffixes are pairwise distinct, so every correct sort yields the same list
   (theorem sa_unique) - the model uses insertion sort *)
Fixpoint insert_suf (t : list N) (i : nat) (l : list nat) : list nat :=
  match l with
  | [] => [i]
  | j :: l' => match lex_cmp (suffix t i) (suffix t j) with
               | Gt => j :: insert_suf t i l'
               | _ => i :: l
               end
  end.
Definition sort_suffixes (t : list N) : list nat :=
  fold_right (insert_suf t) [] (seq 0 (length t)).

Definition divsufsort_construct (t : list N) : list nat :=
  match t with [] => [] | [_] => [0] | _ => sort_suffixes t end.
Definition larsson_sadakane_construct := divsufsort_construct.

(* dc3_construct; the length-2 case is `if text[0] < text[1] {[0,1]} else {[1,0]}` after the
   fix commit; the pinned tree had `<=` (dc3_construct_pinned, refuted on "aa") *)
Definition dc3_construct (t : list N) : list nat :=
  match t with
  | [] => []
  | [_] => [0]
  | [a; b] => if N.ltb a b then [0; 1] else [1; 0]
  | _ => sort_suffixes t
  end.
Definition dc3_construct_pinned (t : list N) : list nat :=
  match t with
  | [] => []
  | [_] => [0]
  | [a; b] => if N.leb a b then [0; 1] else [1; 0]
  | _ => sort_suffixes t
  end.

Inductive alg := SAIS | DivSufSort | DC3 | LarssonSadakane | Adaptive.
Definition alg_eqb (a b : alg) : bool :=
  match a, b with
  | SAIS, SAIS | DivSufSort, DivSufSort | DC3, DC3
  | LarssonSadakane, LarssonSadakane | Adaptive, Adaptive => true
  | _, _ => false
  end.

Record config := { algorithm : alg; adaptive_threshold : N }.

Section Build.
  Variable sais : list N -> list nat.   (* sais_construct, not modelled *)
  Variable analyse : list N -> alg.     (* f64 branch of select_algorithm *)

  Definition select_algorithm (c : config) (t : list N) : alg :=
    if alg_eqb (algorithm c) Adaptive then
      if (N.of_nat (length t) <? adaptive_threshold c)%N then DC3 else analyse t
    else algorithm c.

  (* build -> build_parallel | build_sequential (build_parallel calls build_sequential) *)
  Definition build (c : config) (t : list N) : list nat :=
    match t with
    | [] => []
    | [_] => [0]
    | _ => match select_algorithm c t with
           | SAIS => sais t
           | DC3 => dc3_construct t
           | DivSufSort => divsufsort_construct t
           | LarssonSadakane => larsson_sadakane_construct t
           | Adaptive => sais t
           end
    end.
End Build.

(* ---------- verified certificate checker (applied to every SA-IS output) ---------- *)
Fixpoint adjacent_all {A} (r : A -> A -> bool) (l : list A) : bool :=
  match l with
  | [] => true
  | x :: l' => match l' with [] => true | y :: _ => r x y && adjacent_all r l' end
  end.
Definition check_sa (t : list N) (sa : list nat) : bool :=
  (length sa =? length t)
  && forallb (fun i => i <? length t) sa
  && adjacent_all (fun i j => lex_ltb (suffix t i) (suffix t j)) sa.

(* ---------- Kasai ---------- *)
Definition upd {A} (l : list A) (i : nat) (v : A) : list A :=
  if i <? length l then firstn i l ++ v :: skipn (S i) l else l.

(* for i in 0..n { if sa[i] < n { rank[sa[i]] = i } } *)
Fixpoint inverse_go (sa : list nat) (i n : nat) (rank : list nat) : list nat :=
  match sa with
  | [] => rank
  | s :: rest => inverse_go rest (S i) n (if s <? n then upd rank s i else rank)
  end.

(* while i+h < n && j+h < n && text[i+h] == text[j+h] { h += 1 } *)
Fixpoint extend (fuel : nat) (t : list N) (n i j h : nat) : nat :=
  match fuel with
  | 0 => h
  | S f =>
      if (i + h <? n) && (j + h <? n) && N.eqb (nth (i + h) t 0%N) (nth (j + h) t 0%N)
      then extend f t n i j (S h) else h
  end.

Fixpoint kasai_go (idx : list nat) (t : list N) (sa rank : list nat) (n : nat)
         (lcp : list nat) (h : nat) : list nat :=
  match idx with
  | [] => lcp
  | i :: rest =>
      let r := nth i rank 0 in
      if 0 <? r then
        let j := nth (r - 1) sa 0 in
        let h1 := extend n t n i j h in
        kasai_go rest t sa rank n (upd lcp r h1) (if 0 <? h1 then h1 - 1 else h1)
      else kasai_go rest t sa rank n lcp h   (* h is NOT reset here, as in the code *)
  end.

(* None = index panic (sa shorter than the text) *)
Definition kasai (t : list N) (sa : list nat) : option (list nat) :=
  let n := length t in
  if n =? 0 then Some []
  else if length sa <? n then None
  else let rank := inverse_go (firstn n sa) 0 n (repeat 0 n) in
       Some (kasai_go (seq 0 n) t sa rank n (repeat 0 n) 0).

(* ---------- BWT ---------- *)
Definition bwt (t : list N) (sa : list nat) : list N :=
  map (fun s => if s =? 0 then nth (length t - 1) t 0%N else nth (s - 1) t 0%N) sa.
