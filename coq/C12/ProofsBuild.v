(* SuffixArrayBuilder::build yields the suffix array for every text, for every algorithm
   that is sort-based in this code; SA-IS enters as a hypothesis discharged per run by check_sa. *)
From ZV.Common Require Import Base.
From Coq Require Import Sorting.Permutation Sorting.Sorted.
From ZV.C12 Require Import Spec Model ProofsOrder.
Open Scope nat_scope.

Lemma is_sa_nil : is_sa [] [].
Proof. apply check_sa_iff_proof. reflexivity. Qed.
Lemma is_sa_one x : is_sa [x] [0].
Proof. apply check_sa_iff_proof. reflexivity. Qed.

Lemma divsufsort_is_sa t : is_sa t (divsufsort_construct t).
Proof.
  destruct t as [|x [|y t]]; cbn [divsufsort_construct];
    [apply is_sa_nil|apply is_sa_one|apply sort_suffixes_is_sa_proof].
Qed.

Lemma dc3_is_sa t : is_sa t (dc3_construct t).
Proof.
  destruct t as [|x [|y [|z t]]]; cbn [dc3_construct];
    [apply is_sa_nil|apply is_sa_one| |apply sort_suffixes_is_sa_proof].
  apply check_sa_iff_proof.
  destruct (N.ltb_spec x y) as [H|H]; unfold check_sa; cbn [length Nat.eqb forallb Nat.ltb Nat.leb andb adjacent_all suffix skipn];
    unfold lex_ltb; cbn [lex_cmp].
  - destruct (N.compare_spec x y); try reflexivity; exfalso; lia.
  - destruct (N.compare_spec y x); try reflexivity; exfalso; lia.
Qed.

Theorem build_is_sa_proof (sais : list N -> list nat) (analyse : list N -> alg) c t :
  (select_algorithm analyse c t = SAIS \/ select_algorithm analyse c t = Adaptive -> is_sa t (sais t)) ->
  is_sa t (build sais analyse c t).
Proof.
  intros Hs. destruct t as [|x [|y t]]; [apply is_sa_nil|apply is_sa_one|].
  cbn [build]. set (tt := x :: y :: t) in *.
  destruct (select_algorithm analyse c tt) eqn:E.
  - apply Hs; auto.
  - apply divsufsort_is_sa.
  - apply dc3_is_sa.
  - apply divsufsort_is_sa.
  - apply Hs; auto.
Qed.

(* the pinned tree's DC3 (and Adaptive, which picks DC3 for short inputs): "aa" -> [0,1] *)
Theorem dc3_pinned_refuted_proof : exists t, ~ is_sa t (dc3_construct_pinned t).
Proof.
  exists [97; 97]%N. intros H. apply check_sa_iff_proof in H. vm_compute in H. discriminate.
Qed.

Example build_banana :
  build (fun _ => []) (fun _ => SAIS) {| algorithm := Adaptive; adaptive_threshold := 10000 |}
        [98;97;110;97;110;97]%N = [5;3;1;0;4;2].
Proof. vm_compute. reflexivity. Qed.
