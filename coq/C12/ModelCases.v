(* C12 correspondence cases: what the harness observed on the real code, and the function `ok`
   that re-runs the models on the same inputs and compares.  Imported by the generated shards. *)
From ZV.Common Require Import Base Run.
From ZV.C12 Require Import Spec Model ModelDict ModelEsa ModelSais.
Open Scope nat_scope.

Definition alg_of (k : N) : alg :=
  match k with 0%N | 5%N => SAIS | 1%N => DivSufSort | 2%N => DC3 | 3%N => LarssonSadakane | _ => Adaptive end.
Fixpoint eqb_lnat (a b : list nat) : bool :=
  match a, b with
  | [], [] => true
  | x :: a', y :: b' => Nat.eqb x y && eqb_lnat a' b'
  | _, _ => false
  end.
Definition eqb_pair (a b : nat * nat) : bool := Nat.eqb (fst a) (fst b) && Nat.eqb (snd a) (snd b).
Definition eqb_triple (a b : nat * nat * nat) : bool :=
  eqb_pair (fst a) (fst b) && Nat.eqb (snd a) (snd b).

Definition pat_t : Type := list N * (nat * nat) * (nat * nat).
(* (algorithm, adaptive_threshold, resolved algorithm), text, returned array, oracle verdict on the array,
   full?, LCP array, BWT, patterns with (search_range, search) results.
   full = false: a text too long for the quadratic list models; only the certificate check_sa is run. *)
Definition core_t : Type :=
  (N * N * N) * list N * list N * bool * bool * option (list nat) * option (list N) * list pat_t.
Definition ok_core (c : core_t) : bool :=
  let '(a, thr, res, t, sa_n, sa_ok, full, lcp, bw, pats) := c in
  let sa := map N.to_nat sa_n in
  Bool.eqb (check_sa t sa) sa_ok
  && (negb full ||
  eqb_lnat (build (fun _ => sa) (fun _ => alg_of res)
                     {| algorithm := alg_of a; adaptive_threshold := thr |} t) sa
  && match lcp with
     | None => true
     | Some l => match kasai t sa with Some m => eqb_lnat m l | None => false end
     end
  && match bw with None => true | Some b => eqb_ln (bwt t sa) b end
  && forallb (fun q : pat_t =>
       let '(p, (l, r), (l2, c2)) := q in
       if N.eqb a 5 then (* compression::suffix_array: its own copy of the loops *)
         let '(ml, mr) := w_find_pattern_range t sa p in Nat.eqb ml l && Nat.eqb mr r
       else
       let '(ml, mr) := search_range t sa p in
       let '(ml2, mc2) := search t sa p in
       Nat.eqb ml l && Nat.eqb mr r && Nat.eqb ml2 l2 && Nat.eqb mc2 c2) pats).

(* PA-Zip dictionary.  sa is the suffix array of t recomputed by the harness (the dictionary does not
   expose its own); it must pass check_sa.
   ranges : calls sa_equal_range(lo, hi, pos, ch) = (l, r), arbitrary arguments
   conts  : calls sa_match_continuation(lo, hi, pos, q) = (lo', hi', depth), arbitrary arguments
   das    : calls da_match_max_length(q) = (lo', hi', depth); the model is run with a trie that has no
            transition into a state with a cached range (any transition into the root would show up
            as a disagreement) *)
(* calls are flat lists of binary numbers (nat literals are unary and slow to elaborate):
   range [lo; hi; pos; ch; l; r], cont ([lo; hi; pos; l'; h'; depth], q), da ([l'; h'; depth], q) *)
Definition range_call_t : Type := list N.
Definition cont_call_t : Type := list N * list N.
Definition da_call_t : Type := list N * list N.
Definition ok_dict (t : list N) (sa_n : list N) (ranges : list range_call_t)
           (conts : list cont_call_t) (das : list da_call_t) : bool :=
  let sa := map N.to_nat sa_n in
  check_sa t sa
  && forallb (fun c : range_call_t =>
       match map N.to_nat c with
       | [lo; hi; pos; ch; l; r] => eqb_pair (sa_equal_range t sa lo hi pos (N.of_nat ch)) (l, r)
       | _ => false
       end) ranges
  && forallb (fun c : cont_call_t =>
       match map N.to_nat (fst c) with
       | [lo; hi; pos; l; h; d] => eqb_triple (sa_match_continuation t sa lo hi pos (snd c)) (l, h, d)
       | _ => false
       end) conts
  && forallb (fun c : da_call_t =>
       match map N.to_nat (fst c) with
       | [l; h; d] => eqb_triple (da_match_max_length (fun _ _ => None) t sa (snd c)) (l, h, d)
       | _ => false
       end) das.

(* enhanced suffix arrays: what the accessors returned for k = 0 .. len (inclusive: one past the end) *)
Definition eqb_onat (a : option nat) (b : option N) : bool :=
  match a, b with
  | Some x, Some y => N.eqb (N.of_nat x) y
  | None, None => true
  | _, _ => false
  end.
Fixpoint eqb_probes (a : list (option nat)) (b : list (option N)) : bool :=
  match a, b with
  | [], [] => true
  | x :: a', y :: b' => eqb_onat x y && eqb_probes a' b'
  | _, _ => false
  end.
(* algorithms::suffix_array::EnhancedSuffixArray: resolved algorithm, text, array of with_lcp, lcp_at probes,
   array of with_bwt, BWT *)
Definition ok_esa_alg (res : N) (t : list N) (sa1 : list N) (lcp_probes : list (option N))
           (sa2 : list N) (bw : list N) : bool :=
  let s1 := map N.to_nat sa1 in
  let s2 := map N.to_nat sa2 in
  match esa_with_lcp (fun _ => s1) (fun _ => alg_of res) t with
  | Some e => eqb_lnat (esa_sa e) s1
              && eqb_probes (map (esa_lcp_at e) (seq 0 (S (length s1)))) lcp_probes
  | None => false
  end
  && let e2 := esa_with_bwt (fun _ => s2) (fun _ => alg_of res) t in
     eqb_lnat (esa_sa e2) s2
     && match esa_bwt e2 with Some b => eqb_ln b bw | None => false end.
(* compression::suffix_array: compute_lcp, text, array (as read through suffix_at_rank), suffix_at_rank and
   lcp_at probes for k = 0 .. len, text_len, len, is_empty *)
Definition ok_esa_comp (with_lcp : bool) (t : list N) (sa : list N) (sa_probes lcp_probes : list (option N))
           (tl len : N) (empty : bool) : bool :=
  let s := map N.to_nat sa in
  match cesa_build (fun _ => s) with_lcp t with
  | Some e =>
      eqb_probes (map (cesa_suffix_at_rank e) (seq 0 (S (length s)))) sa_probes
      && eqb_probes (map (cesa_lcp_at e) (seq 0 (S (length s)))) lcp_probes
      && N.eqb (N.of_nat (c_text_len e)) tl && N.eqb (N.of_nat (cesa_len e)) len
      && Bool.eqb (cesa_is_empty e) empty
  | None => false
  end.

Fixpoint eqb_ll (a b : list (list N)) : bool :=
  match a, b with
  | [], [] => true
  | x :: a', y :: b' => eqb_ln x y && eqb_ll a' b'
  | _, _ => false
  end.
Fixpoint eqb_lll (a b : list (list (list N))) : bool :=
  match a, b with
  | [], [] => true
  | x :: a', y :: b' => eqb_ll x y && eqb_lll a' b'
  | _, _ => false
  end.

Inductive case_t :=
| Core (c : core_t)
| Dict (t : list N) (sa : list N) (ranges : list range_call_t) (conts : list cont_call_t) (das : list da_call_t)
| EsaAlg (res : N) (t : list N) (sa1 : list N) (lcp_probes : list (option N)) (sa2 : list N) (bw : list N)
| EsaComp (with_lcp : bool) (t : list N) (sa : list N) (sa_probes lcp_probes : list (option N))
          (tl len : N) (empty : bool)
(* SA-IS: optimize_small_alphabet, text, the array the implementation returned, and the per-level
   intermediate arrays recorded by the trace hook (see ModelSais.sais_levels for the layout) *)
| Sais (opt : bool) (t : list N) (sa : list N) (levels : list (list (list N))).

Definition ok (c : case_t) : bool :=
  match c with
  | Core c => ok_core c
  | Dict t sa ranges conts das => ok_dict t sa ranges conts das
  | EsaAlg res t sa1 lp sa2 bw => ok_esa_alg res t sa1 lp sa2 bw
  | EsaComp wl t sa sp lp tl len empty => ok_esa_comp wl t sa sp lp tl len empty
  | Sais opt t sa levels =>
      match sais opt t with Some m => eqb_lnat m (map N.to_nat sa) | None => false end
      && eqb_lll (sais_trace opt t) levels
  end.
