(* C13: laws of the fixed-width / byte-string / option / pair / vector / versioned-field codecs. *)
From ZV.Common Require Import Base.
From ZV.C13 Require Import Model ModelIO ProofsLeb ProofsZigzag ProofsSeq.
Open Scope N_scope.

Lemma firstn_app_len {A} (a b : list A) n : length a = n -> firstn n (a ++ b) = a.
Proof. intros <-. induction a as [|x a IH]; cbn [length firstn app]; [destruct b; reflexivity|]. f_equal. exact IH. Qed.
Lemma le_bytes_length w v : length (le_bytes w v) = w.
Proof. revert v; induction w as [|w IH]; intros v; cbn [le_bytes length]; [reflexivity|]. rewrite IH. reflexivity. Qed.
Lemma le_bytes_bytes w v : Forall is_byte (le_bytes w v).
Proof.
  revert v; induction w as [|w IH]; intros v; cbn [le_bytes]; constructor; [|apply IH].
  unfold is_byte. apply N.mod_lt. discriminate.
Qed.
Lemma le_bytes_from_le l : Forall is_byte l -> le_bytes (length l) (from_le l) = l.
Proof.
  induction l as [|b t IH]; intros H; cbn [length le_bytes from_le]; [reflexivity|].
  inversion H as [|? ? Hb Ht]; subst. unfold is_byte in Hb.
  replace ((b + 256 * from_le t) mod 256) with b by lia.
  replace ((b + 256 * from_le t) / 256) with (from_le t) by lia.
  rewrite IH by exact Ht. reflexivity.
Qed.
Lemma from_le_bound l : Forall is_byte l -> from_le l < 256 ^ N.of_nat (length l).
Proof.
  induction l as [|b t IH]; intros H; cbn [length from_le]; [cbn; lia|].
  inversion H as [|? ? Hb Ht]; subst. unfold is_byte in Hb. specialize (IH Ht).
  replace (N.of_nat (S (length t))) with (N.of_nat (length t) + 1) by lia.
  rewrite N.pow_add_r, N.pow_1_r. lia.
Qed.

(* ---- fixed width, any width ---- *)
Definition fits (w : nat) (v : N) : Prop := v < 256 ^ N.of_nat w.

Theorem fixed_le_law_proof w : codec_law (fits w) (enc_le w) (dec_le w).
Proof.
  intros v rest Hv. unfold dec_le, enc_le, fits in *. rewrite nlen_app, le_bytes_len.
  replace (N.of_nat w + nlen rest <? N.of_nat w) with false by (symmetry; apply N.ltb_ge; lia).
  rewrite firstn_app_len by apply le_bytes_length.
  rewrite from_le_le_bytes by exact Hv. reflexivity.
Qed.

Theorem fixed_be_law_proof w : codec_law (fits w) (enc_be w) (dec_be w).
Proof.
  intros v rest Hv. unfold dec_be, enc_be, from_be, fits in *.
  assert (Hl : length (rev (le_bytes w v)) = w) by (rewrite rev_length; apply le_bytes_length).
  rewrite nlen_app, (nlen_length (rev _)), Hl.
  replace (N.of_nat w + nlen rest <? N.of_nat w) with false by (symmetry; apply N.ltb_ge; lia).
  rewrite firstn_app_len by exact Hl.
  rewrite rev_involutive, from_le_le_bytes by exact Hv. reflexivity.
Qed.

Lemma swap_bytes_fits w v : fits w (swap_bytes w v).
Proof.
  unfold fits, swap_bytes.
  pose proof (from_le_bound (rev (le_bytes w v))) as H.
  rewrite rev_length, le_bytes_length in H. apply H. apply Forall_rev. apply le_bytes_bytes.
Qed.

Lemma le_bytes_swap w v : le_bytes w (swap_bytes w v) = rev (le_bytes w v).
Proof.
  unfold swap_bytes.
  pose proof (le_bytes_from_le (rev (le_bytes w v))) as H.
  rewrite rev_length, le_bytes_length in H. apply H. apply Forall_rev. apply le_bytes_bytes.
Qed.

Theorem swap_involutive_proof w v : fits w v -> swap_bytes w (swap_bytes w v) = v.
Proof.
  intros Hv. unfold swap_bytes at 1. rewrite le_bytes_swap, rev_involutive.
  apply from_le_le_bytes. exact Hv.
Qed.

(* big-endian bytes are the little-endian bytes of the swapped value: to_be = swap on an LE host *)
Theorem be_is_le_of_swap_proof w v : enc_be w v = enc_le w (swap_bytes w v).
Proof. unfold enc_be, enc_le. symmetry. apply le_bytes_swap. Qed.

(* ---- length-prefixed bytes ---- *)
Theorem blob_law_proof : codec_law (fun b => nlen b < W64) enc_blob dec_blob.
Proof.
  intros b rest Hb. unfold dec_blob, enc_blob. rewrite <- app_assoc.
  rewrite leb128_u64_law_proof by exact Hb. rewrite skipn_nlen_app.
  rewrite nlen_app.
  replace (nlen b + nlen rest <? nlen b) with false by (symmetry; apply N.ltb_ge; lia).
  rewrite firstn_nlen_app. rewrite nlen_app. reflexivity.
Qed.

(* ---- option, pair, vector, field ---- *)
Definition opt_P {A} (P : A -> Prop) (o : option A) : Prop :=
  match o with Some v => P v | None => True end.

Section CombLaws.
  Context {A B : Type}.
  Variable PA : A -> Prop.
  Variable ea : A -> list N.
  Variable da : list N -> option (A * N).
  Variable PB : B -> Prop.
  Variable eb : B -> list N.
  Variable db : list N -> option (B * N).
  Hypothesis HA : codec_law PA ea da.
  Hypothesis HB : codec_law PB eb db.

  Theorem option_law_proof : codec_law (opt_P PA) (enc_opt ea) (dec_opt da).
  Proof.
    intros [v|] rest Hv; cbn [enc_opt app dec_opt opt_P] in *.
    - change (1 =? 0) with false. change (1 =? 1) with true. cbv iota.
      rewrite HA by exact Hv. reflexivity.
    - reflexivity.
  Qed.

  Theorem pair_law_proof :
    codec_law (fun p => PA (fst p) /\ PB (snd p)) (enc_pair ea eb) (dec_pair da db).
  Proof.
    intros [a b] rest [Ha Hb]. unfold enc_pair, dec_pair. cbn [fst snd] in *.
    rewrite <- app_assoc. rewrite HA by exact Ha. rewrite skipn_nlen_app.
    rewrite HB by exact Hb. rewrite nlen_app. reflexivity.
  Qed.

  Lemma dec_many_flat xs rest :
    Forall PA xs ->
    dec_many da (length xs) (flat_map ea xs ++ rest) = Some (xs, nlen (flat_map ea xs)).
  Proof.
    induction xs as [|x xs IH]; intros HP; cbn [length dec_many flat_map]; [reflexivity|].
    inversion HP as [|? ? Hx Hxs]; subst.
    rewrite <- app_assoc. rewrite HA by exact Hx. rewrite skipn_nlen_app.
    rewrite IH by exact Hxs. rewrite nlen_app. reflexivity.
  Qed.

  Theorem vec32_law_proof :
    codec_law (fun xs => Forall PA xs /\ nlen xs < W32) (enc_vec32 ea) (dec_vec32 da).
  Proof.
    intros xs rest [HP Hlen]. unfold enc_vec32, dec_vec32. rewrite <- app_assoc.
    rewrite (fixed_le_law_proof 4) by exact Hlen.
    rewrite skipn_nlen_app. rewrite nlen_length, Nat2N.id.
    rewrite dec_many_flat by exact HP. rewrite nlen_app, <- nlen_length. reflexivity.
  Qed.

  Theorem field_law_proof :
    forall (present known : bool) v rest, PA v ->
      dec_field da known (enc_field ea present v ++ rest)
      = Some (if present && known then Some v else None, nlen (enc_field ea present v)).
  Proof.
    intros present known v rest Hv. destruct present; cbn [enc_field app dec_field andb].
    - change (1 =? 0) with false. change (1 =? 1) with true. cbv iota.
      rewrite HA by exact Hv. reflexivity.
    - reflexivity.
  Qed.
End CombLaws.

(* a field registered `since` a version, written at version `cur` and read back knowing `cur`:
   present exactly when cur >= since, and exactly its own bytes are consumed *)
Theorem versioned_field_law_proof :
  forall (A : Type) (P : A -> Prop) ea da, codec_law P ea da ->
  forall (since cur : version) v rest, P v ->
    dec_field da (ver_le since cur) (enc_field ea (ver_le since cur) v ++ rest)
    = Some (if ver_le since cur then Some v else None, nlen (enc_field ea (ver_le since cur) v)).
Proof.
  intros A P ea da H since cur v rest Hv.
  rewrite (field_law_proof P ea da H) by exact Hv.
  destruct (ver_le since cur); reflexivity.
Qed.

(* ---- Version packing: holds for 8-bit major/minor, fails beyond (finding version_component_over_255) ---- *)
Theorem version_pack_law_proof :
  forall a b c, a < 256 -> b < 256 -> c < 65536 -> ver_unpack (ver_pack (a, b, c)) = (a, b, c).
Proof.
  intros a b c Ha Hb Hc. unfold ver_pack, ver_unpack.
  change (2 ^ 24) with 16777216. change (2 ^ 16) with 65536. unfold W32.
  rewrite (N.mod_small (a * 16777216)) by lia. rewrite (N.mod_small (b * 65536)) by lia.
  assert (Hp : N.lor (N.lor (a * 16777216) (b * 65536)) c = c + (b + a * 256) * 65536).
  { rewrite (N.lor_comm (a * 16777216)).
    change (a * 16777216) with (a * 2 ^ 24).
    rewrite (lor_disjoint_add (b * 65536) a 24) by (change (2 ^ 24) with 16777216; lia).
    change (2 ^ 24) with 16777216.
    rewrite N.lor_comm.
    replace (b * 65536 + a * 16777216) with ((b + a * 256) * 2 ^ 16) by (change (2 ^ 16) with 65536; lia).
    rewrite (lor_disjoint_add c (b + a * 256) 16) by (change (2 ^ 16) with 65536; lia).
    reflexivity. }
  rewrite Hp. f_equal; [f_equal|]; lia.
Qed.

Theorem version_pack_refuted_proof :
  exists v, known_version_wide v = true /\ ver_unpack (ver_pack v) <> v.
Proof. exists (445, 199, 1640). split; [reflexivity|]. vm_compute. discriminate. Qed.

(* ---- the hypotheses are inhabited ---- *)
Example fixed_le_inhabited : fits 8 (W64 - 1) /\ dec_le 8 (enc_le 8 (W64 - 1) ++ [7]) = Some (W64 - 1, 8).
Proof. split; [unfold fits, W64; vm_compute; reflexivity|vm_compute; reflexivity]. Qed.
Example swap_inhabited : swap_bytes 4 305419896 = 2018915346.
Proof. vm_compute. reflexivity. Qed.
Example blob_inhabited : dec_blob (enc_blob [1; 2; 3] ++ [9]) = Some ([1; 2; 3], 4).
Proof. vm_compute. reflexivity. Qed.
Example option_pair_inhabited :
  dec_pair (dec_opt (dec_le 2)) dec_blob (enc_pair (enc_opt (enc_le 2)) enc_blob (Some 513, [5]) ++ [0])
  = Some ((Some 513, [5]), 5).
Proof. vm_compute. reflexivity. Qed.
Example field_inhabited :
  ver_le (1, 1, 0) (1, 2, 0) = true /\ ver_le (1, 1, 0) (1, 0, 65535) = false /\
  dec_field (dec_le 4) true (enc_field (enc_le 4) true 7 ++ [1]) = Some (Some 7, 5).
Proof. repeat split; vm_compute; reflexivity. Qed.
