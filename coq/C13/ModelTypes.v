(* C13 model, part 4: the serialisable types as ONE universe of type codes.
   src/io/smart_ptr.rs   SerializableType for u8/u16/u32/u64/i8/i16/i32/i64 (fixed-width little endian,
                         signed values as their two's complement), bool, String, Vec<T>, Box<T>, Rc<T>/Arc<T>
                         (the context-free bridge: marker 1, object id 1 of a fresh context, the value);
   src/io/complex_types.rs  ComplexSerialize for tuples (fields in order; an n-tuple is a right-nested
                         pair here, the bytes are the same), (), [T; N] (u32 N, elements; the decoder refuses
                         another length), Option<T>, Result<T, E>, HashMap / BTreeMap (u32 count, key value
                         key value ... = a vector of pairs in iteration order), HashSet / BTreeSet (= a vector),
                         serialize_with_metadata (length-prefixed type id, u32 version, the data);
   src/io/data_output.rs write_var_int (TVar), write_length_prefixed_bytes/_string (TStr).
   Strings are byte lists: the UTF-8 check of read_length_prefixed_string is not modelled (an encoder only
   produces valid text).  Definitions only. *)
From ZV.Common Require Import Base Run.
From ZV.C13 Require Import Model ModelIO.
Open Scope N_scope.

Inductive ty : Type :=
| TInt (w : nat)                       (* u8 .. u64, i8 .. i64: w bytes, little endian *)
| TBool
| TVar                                 (* LEB128 u64 *)
| TStr                                 (* varint length + bytes *)
| TUnit
| TOpt (t : ty)
| TBox (t : ty)
| TRc (t : ty)                         (* Rc<T> / Arc<T> outside a shared context *)
| TVec (t : ty)                        (* Vec, HashSet, BTreeSet; maps = TVec (TPair k v) *)
| TArr (n : N) (t : ty)
| TPair (a b : ty)
| TRes (t e : ty)
| TMeta (id : list N) (ver : N) (t : ty).

Inductive val : Type :=
| VN (n : N)
| VS (b : list N)
| VU
| VNone
| VSome (v : val)
| VL (l : list val)
| VP (a b : val)
| VOk (v : val)
| VErr (v : val).

(* the object id a fresh SerializationContext hands out first *)
Definition FIRST_ID : N := 1.

Fixpoint enc (t : ty) (v : val) {struct t} : list N :=
  match t with
  | TInt w => match v with VN n => enc_le w n | _ => [] end
  | TBool => match v with VN n => [if n =? 0 then 0 else 1] | _ => [] end
  | TVar => match v with VN n => enc_u n | _ => [] end
  | TStr => match v with VS b => enc_blob b | _ => [] end
  | TUnit => []
  | TOpt t' => match v with VSome x => 1 :: enc t' x | _ => [0] end
  | TBox t' => 1 :: enc t' v
  | TRc t' => 1 :: enc_le 4 FIRST_ID ++ enc t' v
  | TVec t' => match v with VL l => enc_le 4 (nlen l) ++ flat_map (enc t') l | _ => [] end
  | TArr n t' => match v with VL l => enc_le 4 n ++ flat_map (enc t') l | _ => [] end
  | TPair a b => match v with VP x y => enc a x ++ enc b y | _ => [] end
  | TRes t' e => match v with VOk x => 1 :: enc t' x | VErr x => 0 :: enc e x | _ => [] end
  | TMeta id ver t' => enc_blob id ++ enc_le 4 ver ++ enc t' v
  end.

Definition after_marker (r : option (val * N)) (f : val -> val) : option (val * N) :=
  match r with Some (v, n) => Some (f v, 1 + n) | None => None end.

Fixpoint list_eqb (a b : list N) : bool :=
  match a, b with
  | [], [] => true
  | x :: a', y :: b' => (x =? y) && list_eqb a' b'
  | _, _ => false
  end.

Fixpoint dec (t : ty) (d : list N) {struct t} : option (val * N) :=
  match t with
  | TInt w => match dec_le w d with Some (v, n) => Some (VN v, n) | None => None end
  | TBool => match d with [] => None | b :: _ => Some (VN (if b =? 0 then 0 else 1), 1) end
  | TVar => match dec_u d with Some (v, n) => Some (VN v, n) | None => None end
  | TStr => match dec_blob d with Some (b, n) => Some (VS b, n) | None => None end
  | TUnit => Some (VU, 0)
  | TOpt t' =>
      match d with
      | [] => None
      | m :: r => if m =? 0 then Some (VNone, 1)
                  else if m =? 1 then after_marker (dec t' r) VSome else None
      end
  | TBox t' =>
      match d with
      | [] => None
      | m :: r => if m =? 1 then after_marker (dec t' r) (fun v => v) else None
      end
  | TRc t' =>
      match d with
      | [] => None
      | m :: r =>
          (* marker 2 = reference into the context: a fresh context holds nothing *)
          if m =? 1 then
            match dec_le 4 r with
            | None => None
            | Some (_, k) =>
                match dec t' (skipn (N.to_nat k) r) with
                | Some (v, n) => Some (v, 1 + (k + n))
                | None => None
                end
            end
          else None
      end
  | TVec t' =>
      match dec_le 4 d with
      | None => None
      | Some (count, n) =>
          match dec_many (dec t') (N.to_nat count) (skipn (N.to_nat n) d) with
          | None => None
          | Some (vs, m) => Some (VL vs, n + m)
          end
      end
  | TArr len t' =>
      match dec_le 4 d with
      | None => None
      | Some (count, n) =>
          if count =? len then
            match dec_many (dec t') (N.to_nat len) (skipn (N.to_nat n) d) with
            | None => None
            | Some (vs, m) => Some (VL vs, n + m)
            end
          else None
      end
  | TPair a b =>
      match dec a d with
      | None => None
      | Some (x, n) =>
          match dec b (skipn (N.to_nat n) d) with
          | None => None
          | Some (y, m) => Some (VP x y, n + m)
          end
      end
  | TRes t' e =>
      match d with
      | [] => None
      | m :: r => if m =? 0 then after_marker (dec e r) VErr
                  else if m =? 1 then after_marker (dec t' r) VOk else None
      end
  | TMeta id ver t' =>
      match dec_blob d with
      | None => None
      | Some (b, n) =>
          if list_eqb b id then
            let d1 := skipn (N.to_nat n) d in
            match dec_le 4 d1 with
            | None => None
            | Some (_, k) =>
                match dec t' (skipn (N.to_nat k) d1) with
                | Some (v, m) => Some (v, n + (k + m))
                | None => None
                end
            end
          else None
      end
  end.

(* the values of a type (what the Rust type can hold) *)
Fixpoint wt (t : ty) (v : val) {struct t} : Prop :=
  match t with
  | TInt w => match v with VN n => n < 256 ^ N.of_nat w | _ => False end
  | TBool => match v with VN n => n < 2 | _ => False end
  | TVar => match v with VN n => n < W64 | _ => False end
  | TStr => match v with VS b => nlen b < W64 | _ => False end
  | TUnit => v = VU
  | TOpt t' => match v with VNone => True | VSome x => wt t' x | _ => False end
  | TBox t' => wt t' v
  | TRc t' => wt t' v
  | TVec t' => match v with VL l => Forall (wt t') l /\ nlen l < W32 | _ => False end
  | TArr n t' => match v with VL l => Forall (wt t') l /\ nlen l = n /\ n < W32 | _ => False end
  | TPair a b => match v with VP x y => wt a x /\ wt b y | _ => False end
  | TRes t' e => match v with VOk x => wt t' x | VErr x => wt e x | _ => False end
  | TMeta id ver t' => nlen id < W64 /\ wt t' v
  end.

(* ---------- flat integer form of types and values (correspondence cases) ---------- *)
(* type:  0 w | 1 | 2 | 3 | 4 | 5 t | 6 t | 7 t | 8 t | 9 n t | 10 a b | 11 t e | 12 ver len id.. t *)
Fixpoint parse_ty (fuel : nat) (s : list Z) : option (ty * list Z) :=
  match fuel with
  | O => None
  | S f =>
      match s with
      | [] => None
      | tag :: r =>
          let un (c : ty -> ty) (r : list Z) :=
            match parse_ty f r with Some (t, r') => Some (c t, r') | None => None end in
          let bin (c : ty -> ty -> ty) (r : list Z) :=
            match parse_ty f r with
            | Some (a, r') => match parse_ty f r' with Some (b, r'') => Some (c a b, r'') | None => None end
            | None => None
            end in
          match tag with
          | 0%Z => match r with w :: r' => Some (TInt (Z.to_nat w), r') | [] => None end
          | 1%Z => Some (TBool, r)
          | 2%Z => Some (TVar, r)
          | 3%Z => Some (TStr, r)
          | 4%Z => Some (TUnit, r)
          | 5%Z => un TOpt r
          | 6%Z => un TBox r
          | 7%Z => un TRc r
          | 8%Z => un TVec r
          | 9%Z => match r with n :: r' => un (TArr (Z.to_N n)) r' | [] => None end
          | 10%Z => bin TPair r
          | 11%Z => bin TRes r
          | 12%Z => match r with
                    | ver :: len :: r' =>
                        let k := Z.to_nat len in
                        un (TMeta (map Z.to_N (firstn k r')) (Z.to_N ver)) (skipn k r')
                    | _ => None
                    end
          | _ => None
          end
      end
  end.

Section Many.
  Variable p : list Z -> option (val * list Z).
  Fixpoint parse_many (count : nat) (s : list Z) : option (list val * list Z) :=
    match count with
    | O => Some ([], s)
    | S c =>
        match p s with
        | None => None
        | Some (v, r) =>
            match parse_many c r with Some (vs, r') => Some (v :: vs, r') | None => None end
        end
    end.
End Many.

(* value:  number -> [n] | string -> len b.. | unit -> | None -> 0 | Some x -> 1 x | list -> len x.. |
           pair -> a b | Ok x -> 1 x | Err x -> 0 x ; Box / Rc / metadata are transparent *)
Fixpoint parse_val (t : ty) (s : list Z) {struct t} : option (val * list Z) :=
  let num := match s with n :: r => Some (VN (Z.to_N n), r) | [] => None end in
  let lst (t' : ty) :=
    match s with
    | n :: r => match parse_many (parse_val t') (Z.to_nat n) r with
                | Some (vs, r') => Some (VL vs, r') | None => None end
    | [] => None
    end in
  match t with
  | TInt _ | TBool | TVar => num
  | TStr => match s with
            | n :: r => let k := Z.to_nat n in
                        if Nat.ltb (length r) k then None else Some (VS (map Z.to_N (firstn k r)), skipn k r)
            | [] => None
            end
  | TUnit => Some (VU, s)
  | TOpt t' => match s with
               | 0%Z :: r => Some (VNone, r)
               | 1%Z :: r => match parse_val t' r with Some (v, r') => Some (VSome v, r') | None => None end
               | _ => None
               end
  | TBox t' | TRc t' | TMeta _ _ t' => parse_val t' s
  | TVec t' | TArr _ t' => lst t'
  | TPair a b => match parse_val a s with
                 | Some (x, r) => match parse_val b r with Some (y, r') => Some (VP x y, r') | None => None end
                 | None => None
                 end
  | TRes t' e => match s with
                 | 0%Z :: r => match parse_val e r with Some (v, r') => Some (VErr v, r') | None => None end
                 | 1%Z :: r => match parse_val t' r with Some (v, r') => Some (VOk v, r') | None => None end
                 | _ => None
                 end
  end.

Fixpoint flat_val (t : ty) (v : val) {struct t} : list Z :=
  match t with
  | TInt _ | TBool | TVar => match v with VN n => [Z.of_N n] | _ => [] end
  | TStr => match v with VS b => Z.of_N (nlen b) :: map Z.of_N b | _ => [] end
  | TUnit => []
  | TOpt t' => match v with VSome x => 1%Z :: flat_val t' x | _ => [0%Z] end
  | TBox t' | TRc t' | TMeta _ _ t' => flat_val t' v
  | TVec t' | TArr _ t' => match v with VL l => Z.of_N (nlen l) :: flat_map (flat_val t') l | _ => [] end
  | TPair a b => match v with VP x y => flat_val a x ++ flat_val b y | _ => [] end
  | TRes t' e => match v with VOk x => 1%Z :: flat_val t' x | VErr x => 0%Z :: flat_val e x | _ => [] end
  end.

(* op 40: ints = type ++ value -> the encoder's bytes;  op 41: ints = type, bytes -> value ++ [consumed] *)
Definition run_enc_ty (ints : list Z) : option (list Z) :=
  match parse_ty (S (length ints)) ints with
  | None => None
  | Some (t, r) =>
      match parse_val t r with
      | Some (v, []) => Some (map Z.of_N (enc t v))
      | _ => None
      end
  end.
Definition run_dec_ty (ints : list Z) (bytes : list N) : option (list Z) :=
  match parse_ty (S (length ints)) ints with
  | Some (t, []) =>
      match dec t bytes with
      | Some (v, n) => Some (flat_val t v ++ [Z.of_N n])
      | None => None
      end
  | _ => None
  end.
