(* C13 mechanism model: src/io/var_int.rs and src/io/var_int_variants.rs as written.
   u64 values are N (< 2^64), i64 values are Z (in [-2^63, 2^63)), bytes are N (< 256).
   All machine arithmetic wraps explicitly (release semantics); where the checked
   profile would panic instead, the harness observes the panic on the real code.
   Definitions only - no proofs in this file. *)
From ZV.Common Require Import Base.
Open Scope N_scope.

(* ---------- two's complement views ---------- *)
Definition to_i64 (x : N) : Z :=
  if x <? W63 then Z.of_N x else (Z.of_N x - Z.of_N W64)%Z.
Definition of_i64 (z : Z) : N := Z.to_N (z mod (Z.of_N W64)).
Definition in_i64 (z : Z) : Prop := (- Z.of_N W63 <= z < Z.of_N W63)%Z.
Definition in_u64 (v : N) : Prop := v < W64.

(* ---------- unsigned LEB128 (VarInt::write_to_vec, encode_leb128_u64) ---------- *)
Fixpoint enc_u_go (fuel : nat) (v : N) : list N :=
  match fuel with
  | O => []
  | S f => let b := v mod 128 in
           let v' := v / 128 in
           if v' =? 0 then [b] else (b + 128) :: enc_u_go f v'
  end.
Definition enc_u (v : N) : list N := enc_u_go 10 v.

(* VarInt::decode / decode_leb128_u64: `result |= ((byte & 0x7F) as u64) << shift`,
   error once shift >= 64, error on running out of bytes *)
Fixpoint dec_u_go (data : list N) (shift acc n : N) : option (N * N) :=
  match data with
  | [] => None
  | b :: rest =>
      if 64 <=? shift then None else
      let acc' := N.lor acc (w64 ((b mod 128) * 2 ^ shift)) in
      if b <? 128 then Some (acc', n + 1)
      else dec_u_go rest (shift + 7) acc' (n + 1)
  end.
Definition dec_u (data : list N) : option (N * N) := dec_u_go data 0 0 0.

(* VarInt::encoded_len *)
Fixpoint enclen_go (fuel : nat) (v : N) : N :=
  match fuel with
  | O => 0
  | S f => if v =? 0 then 0 else 1 + enclen_go f (v / 128)
  end.
Definition encoded_len (v : N) : N := if v =? 0 then 1 else enclen_go 10 v.

(* ---------- signed LEB128 (encode_leb128_i64 / decode_leb128_i64) ---------- *)
Fixpoint enc_s_go (fuel : nat) (v : Z) : list N :=
  match fuel with
  | O => []
  | S f => let b := Z.to_N (v mod 128) in
           let v' := (v / 128)%Z in
           if ((v' =? 0)%Z && (b <? 64)) || ((v' =? -1)%Z && (64 <=? b))
           then [b] else (b + 128) :: enc_s_go f v'
  end.
Definition enc_s (v : Z) : list N := enc_s_go 10 v.

Fixpoint dec_s_go (data : list N) (shift acc n : N) : option (Z * N) :=
  match data with
  | [] => None
  | b :: rest =>
      if 64 <=? shift then None else
      let acc' := N.lor acc (w64 ((b mod 128) * 2 ^ shift)) in
      let shift' := shift + 7 in
      if b <? 128 then
        let r := if (shift' <? 64) && (64 <=? b mod 128)
                 then N.lor acc' (w64 ((W64 - 1) * 2 ^ shift')) else acc' in
        Some (to_i64 r, n + 1)
      else dec_s_go rest shift' acc' (n + 1)
  end.
Definition dec_s (data : list N) : option (Z * N) := dec_s_go data 0 0 0.

(* ---------- zigzag ---------- *)
(* ((value << 1) ^ (value >> 63)) as u64 *)
Definition zz_enc (v : Z) : N :=
  of_i64 (Z.lxor (to_i64 (of_i64 (v * 2))) (v / Z.of_N W63)).
(* ((encoded >> 1) as i64) ^ (-((encoded & 1) as i64)) *)
Definition zz_dec (e : N) : Z :=
  Z.lxor (to_i64 (e / 2)) (- Z.of_N (e mod 2)).

Definition enc_zz (v : Z) : list N := enc_u (zz_enc v).
Definition dec_zz (data : list N) : option (Z * N) :=
  match dec_u data with
  | Some (e, n) => Some (zz_dec e, n)
  | None => None
  end.

(* ---------- prefix-free: length byte + little-endian significant bytes ---------- *)
Fixpoint bytes_needed_go (fuel : nat) (v : N) : N :=
  match fuel with
  | O => 0
  | S f => if v =? 0 then 0 else 1 + bytes_needed_go f (v / 256)
  end.
(* ((64 - leading_zeros + 7) / 8), with 0 mapped to 1 *)
Definition bytes_needed (v : N) : N := if v =? 0 then 1 else bytes_needed_go 8 v.

Fixpoint le_bytes (n : nat) (v : N) : list N :=
  match n with
  | O => []
  | S k => (v mod 256) :: le_bytes k (v / 256)
  end.
Fixpoint from_le (l : list N) : N :=
  match l with
  | [] => 0
  | b :: t => b + 256 * from_le t
  end.

Definition enc_pf (v : N) : list N :=
  let k := bytes_needed v in k :: le_bytes (N.to_nat k) v.
Definition dec_pf (data : list N) : option (N * N) :=
  match data with
  | [] => None
  | l :: rest =>
      if (l =? 0) || (8 <? l) then None
      else if nlen rest <? l then None
      else Some (from_le (firstn (N.to_nat l) rest), 1 + l)
  end.
Definition enc_pf_s (v : Z) : list N := enc_pf (zz_enc v).
Definition dec_pf_s (data : list N) : option (Z * N) :=
  match dec_pf data with
  | Some (e, n) => Some (zz_dec e, n)
  | None => None
  end.

(* ---------- generic count-prefixed sequence ---------- *)
Section Seq.
  Context {A : Type}.
  Variable enc : A -> list N.
  Variable dec : list N -> option (A * N).

  Definition enc_seq (xs : list A) : list N :=
    enc_u (nlen xs) ++ flat_map enc xs.

  (* `for _ in 0..count { decode(&data[offset..]) }` *)
  Fixpoint dec_items (count : nat) (data : list N) : option (list A) :=
    match count with
    | O => Some []
    | S c =>
        match dec data with
        | None => None
        | Some (v, n) =>
            match dec_items c (skipn (N.to_nat n) data) with
            | None => None
            | Some vs => Some (v :: vs)
            end
        end
    end.

  Definition dec_seq (data : list N) : option (list A) :=
    match dec_u data with
    | None => None
    | Some (count, n) => dec_items (N.to_nat count) (skipn (N.to_nat n) data)
    end.
End Seq.

(* ---------- delta (sequence only) ---------- *)
(* u64: first value LEB128, then (|d| << 1) | sign, shift wraps in u64 *)
Definition delta_u_code (prev cur : N) : N :=
  if prev <=? cur then w64 ((cur - prev) * 2)
  else N.lor (w64 ((prev - cur) * 2)) 1.
Fixpoint delta_u_codes (prev : N) (xs : list N) : list N :=
  match xs with
  | [] => []
  | x :: t => delta_u_code prev x :: delta_u_codes x t
  end.
Definition enc_delta_u (xs : list N) : list N :=
  match xs with
  | [] => enc_u 0
  | x :: t => enc_u (nlen xs) ++ enc_u x ++ flat_map enc_u (delta_u_codes x t)
  end.
Definition delta_u_apply (prev e : N) : N :=
  if e mod 2 =? 0 then w64 (prev + e / 2)
  else w64 (prev + W64 - e / 2).
Fixpoint dec_delta_u_items (count : nat) (prev : N) (data : list N) : option (list N) :=
  match count with
  | O => Some []
  | S c =>
      match dec_u data with
      | None => None
      | Some (e, n) =>
          let x := delta_u_apply prev e in
          match dec_delta_u_items c x (skipn (N.to_nat n) data) with
          | None => None
          | Some vs => Some (x :: vs)
          end
      end
  end.
Definition dec_delta_u (data : list N) : option (list N) :=
  match dec_u data with
  | None => None
  | Some (count, n) =>
      if count =? 0 then Some [] else
      let data1 := skipn (N.to_nat n) data in
      match dec_u data1 with
      | None => None
      | Some (first, n1) =>
          match dec_delta_u_items (N.to_nat count - 1) first (skipn (N.to_nat n1) data1) with
          | None => None
          | Some vs => Some (first :: vs)
          end
      end
  end.

(* i64: first value signed LEB128, then zigzag of the (wrapping) difference *)
Definition wrap_i64 (z : Z) : Z := to_i64 (of_i64 z).
Fixpoint delta_s_codes (prev : Z) (xs : list Z) : list Z :=
  match xs with
  | [] => []
  | x :: t => wrap_i64 (x - prev) :: delta_s_codes x t
  end.
Definition enc_delta_s (xs : list Z) : list N :=
  match xs with
  | [] => enc_u 0
  | x :: t => enc_u (nlen xs) ++ enc_s x ++ flat_map enc_zz (delta_s_codes x t)
  end.
Fixpoint dec_delta_s_items (count : nat) (prev : Z) (data : list N) : option (list Z) :=
  match count with
  | O => Some []
  | S c =>
      match dec_zz data with
      | None => None
      | Some (d, n) =>
          let x := wrap_i64 (prev + d) in
          match dec_delta_s_items c x (skipn (N.to_nat n) data) with
          | None => None
          | Some vs => Some (x :: vs)
          end
      end
  end.
Definition dec_delta_s (data : list N) : option (list Z) :=
  match dec_u data with
  | None => None
  | Some (count, n) =>
      if count =? 0 then Some [] else
      let data1 := skipn (N.to_nat n) data in
      match dec_s data1 with
      | None => None
      | Some (first, n1) =>
          match dec_delta_s_items (N.to_nat count - 1) first (skipn (N.to_nat n1) data1) with
          | None => None
          | Some vs => Some (first :: vs)
          end
      end
  end.

(* ---------- group varint: count, then per chunk of 4 a selector byte with
   2 bits per value ((bytes_needed-1) as u8) << (2 i), then LE bytes ---------- *)
Fixpoint gv_selector (i : N) (chunk : list N) : N :=
  match chunk with
  | [] => 0
  | v :: t => N.lor (((bytes_needed v - 1) * 2 ^ (2 * i)) mod 256) (gv_selector (i + 1) t)
  end.
Definition gv_chunk (chunk : list N) : list N :=
  gv_selector 0 chunk
    :: flat_map (fun v => le_bytes (N.to_nat (bytes_needed v)) v) chunk.
Fixpoint gv_chunks (fuel : nat) (xs : list N) : list N :=
  match fuel with
  | O => []
  | S f =>
      match xs with
      | [] => []
      | _ => gv_chunk (firstn 4 xs) ++ gv_chunks f (skipn 4 xs)
      end
  end.
Definition enc_gv (xs : list N) : list N :=
  enc_u (nlen xs) ++ gv_chunks (S (length xs)) xs.

Fixpoint gv_dec_chunk (k : nat) (i : N) (sel : N) (data : list N) : option (list N * list N) :=
  match k with
  | O => Some ([], data)
  | S k' =>
      let bn := (sel / 2 ^ (2 * i)) mod 4 + 1 in
      if nlen data <? bn then None else
      let v := from_le (firstn (N.to_nat bn) data) in
      match gv_dec_chunk k' (i + 1) sel (skipn (N.to_nat bn) data) with
      | None => None
      | Some (vs, rest) => Some (v :: vs, rest)
      end
  end.
Fixpoint gv_dec_go (fuel : nat) (remaining : N) (data : list N) : option (list N) :=
  match fuel with
  | O => if remaining =? 0 then Some [] else None
  | S f =>
      if remaining =? 0 then Some [] else
      match data with
      | [] => None
      | sel :: rest =>
          let k := N.min remaining 4 in
          match gv_dec_chunk (N.to_nat k) 0 sel rest with
          | None => None
          | Some (vs, rest') =>
              match gv_dec_go f (remaining - k) rest' with
              | None => None
              | Some ws => Some (vs ++ ws)
              end
          end
      end
  end.
Definition dec_gv (data : list N) : option (list N) :=
  match dec_u data with
  | None => None
  | Some (count, n) =>
      (* each chunk consumes at least one byte, so |data| + 1 rounds suffice *)
      gv_dec_go (S (length data)) count (skipn (N.to_nat n) data)
  end.

(* ---------- the strategy dispatch of VarIntEncoder ---------- *)
(* 0 Leb128 1 Zigzag 2 Delta 3 GroupVarint 4 PrefixFree 5 Compact 6 Simd *)
Definition enc_u64 (s : N) (v : N) : option (list N) :=
  match s with
  | 0 | 3 | 5 | 6 => Some (enc_u v)
  | 4 => Some (enc_pf v)
  | _ => None
  end.
Definition dec_u64 (s : N) (d : list N) : option (N * N) :=
  match s with
  | 0 | 3 | 5 | 6 => dec_u d
  | 4 => dec_pf d
  | _ => None
  end.
Definition enc_i64 (s : N) (v : Z) : option (list N) :=
  match s with
  | 0 => Some (enc_s v)
  | 1 | 5 | 6 => Some (enc_zz v)
  | 3 => Some (enc_u (of_i64 v))
  | 4 => Some (enc_pf_s v)
  | _ => None
  end.
Definition dec_i64 (s : N) (d : list N) : option (Z * N) :=
  match s with
  | 0 => dec_s d
  | 1 | 5 | 6 => dec_zz d
  | 3 => match dec_u d with Some (v, n) => Some (to_i64 v, n) | None => None end
  | 4 => dec_pf_s d
  | _ => None
  end.
Definition enc_u64_seq (s : N) (xs : list N) : option (list N) :=
  match s with
  | 0 | 5 | 6 => Some (enc_seq enc_u xs)
  | 2 => Some (enc_delta_u xs)
  | 3 => Some (enc_gv xs)
  | 4 => Some (enc_seq enc_pf xs)
  | _ => None
  end.
Definition dec_u64_seq (s : N) (d : list N) : option (list N) :=
  match s with
  | 0 | 5 | 6 => dec_seq dec_u d
  | 2 => dec_delta_u d
  | 3 => dec_gv d
  | 4 => dec_seq dec_pf d
  | _ => None
  end.
Definition enc_i64_seq (s : N) (xs : list Z) : option (list N) :=
  match s with
  | 0 => Some (enc_seq enc_s xs)
  | 1 | 5 | 6 => Some (enc_seq enc_u (map zz_enc xs))
  | 2 => Some (enc_delta_s xs)
  | 3 => Some (enc_gv (map of_i64 xs))
  | 4 => Some (enc_seq enc_pf_s xs)
  | _ => None
  end.
Definition dec_i64_seq (s : N) (d : list N) : option (list Z) :=
  match s with
  | 0 => dec_seq dec_s d
  | 1 | 5 | 6 => option_map (map zz_dec) (dec_seq dec_u d)
  | 2 => dec_delta_s d
  | 3 => option_map (map to_i64) (dec_gv d)
  | 4 => dec_seq dec_pf_s d
  | _ => None
  end.

(* ---------- classes of inputs covered by a recorded finding ---------- *)
(* delta/u64: some adjacent difference has magnitude >= 2^63 (the `<< 1` loses it) *)
Fixpoint delta_u_big (prev : N) (xs : list N) : bool :=
  match xs with
  | [] => false
  | x :: t => (W63 <=? (if prev <=? x then x - prev else prev - x)) || delta_u_big x t
  end.
Definition known_delta_u (xs : list N) : bool :=
  match xs with [] => false | x :: t => delta_u_big x t end.
(* group varint: some value needs more than 4 bytes (2-bit selector field) *)
Definition known_gv (xs : list N) : bool := existsb (fun v => W32 <=? v) xs.

(* ---------- correspondence: one case = op, strategy, integer args, byte args;
   the observation is an option (list Z) ---------- *)
Definition zs (l : list N) : list Z := map Z.of_N l.
Definition ns (l : list Z) : list N := map Z.to_N l.
Definition obs_pair {A} (f : A -> Z) (r : option (A * N)) : option (list Z) :=
  match r with Some (v, n) => Some [f v; Z.of_N n] | None => None end.

Definition run_case (op s : N) (ints : list Z) (bytes : list N) : option (list Z) :=
  match op with
  | 0 => option_map zs (enc_u64 s (Z.to_N (hd 0%Z ints)))
  | 1 => obs_pair Z.of_N (dec_u64 s bytes)
  | 2 => option_map zs (enc_i64 s (hd 0%Z ints))
  | 3 => obs_pair (fun z => z) (dec_i64 s bytes)
  | 4 => option_map zs (enc_u64_seq s (ns ints))
  | 5 => option_map zs (dec_u64_seq s bytes)
  | 6 => option_map zs (enc_i64_seq s ints)
  | 7 => dec_i64_seq s bytes
  | 8 => Some (zs (enc_u (Z.to_N (hd 0%Z ints))))
  | 9 => obs_pair Z.of_N (dec_u bytes)
  | 10 => Some (zs (enc_zz (hd 0%Z ints)))
  | 11 => obs_pair (fun z => z) (dec_zz bytes)
  | 12 => Some [Z.of_N (encoded_len (Z.to_N (hd 0%Z ints)))]
  | _ => None
  end.
