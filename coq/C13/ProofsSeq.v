(* C13: the count-prefixed sequence combinator, prefix-free codec, delta and group varint. *)
From ZV.Common Require Import Base.
From ZV.C13 Require Import Model ProofsLeb ProofsZigzag.
Open Scope N_scope.

Lemma skipn_nlen_app {A} (a b : list A) : skipn (N.to_nat (nlen a)) (a ++ b) = b.
Proof.
  rewrite nlen_length, Nat2N.id. induction a as [|x a IH]; cbn [length skipn app]; auto.
Qed.
Lemma firstn_nlen_app {A} (a b : list A) : firstn (N.to_nat (nlen a)) (a ++ b) = a.
Proof.
  rewrite nlen_length, Nat2N.id. induction a as [|x a IH]; cbn [length firstn app]; auto.
  f_equal. exact IH.
Qed.

Section SeqLaw.
  Context {A : Type}.
  Variable P : A -> Prop.
  Variable enc : A -> list N.
  Variable dec : list N -> option (A * N).
  Definition codec_law : Prop :=
    forall v rest, P v -> dec (enc v ++ rest) = Some (v, nlen (enc v)).
  Hypothesis Hlaw : codec_law.

  Lemma dec_items_flat xs rest :
    Forall P xs -> dec_items dec (length xs) (flat_map enc xs ++ rest) = Some xs.
  Proof.
    induction xs as [|x xs IH]; intros HP; cbn [length dec_items flat_map]; [reflexivity|].
    inversion HP as [|? ? Hx Hxs]; subst.
    rewrite <- app_assoc. rewrite Hlaw by exact Hx.
    rewrite skipn_nlen_app. rewrite IH by exact Hxs. reflexivity.
  Qed.

  Theorem seq_law_proof xs rest :
    Forall P xs -> nlen xs < W64 ->
    dec_seq dec (enc_seq enc xs ++ rest) = Some xs.
  Proof.
    intros HP Hlen. unfold dec_seq, enc_seq. rewrite <- app_assoc.
    rewrite leb128_u64_law_proof by exact Hlen.
    rewrite skipn_nlen_app. rewrite nlen_length, Nat2N.id.
    apply dec_items_flat. exact HP.
  Qed.
End SeqLaw.

(* ---- prefix-free ---- *)
Lemma le_bytes_len k v : nlen (le_bytes k v) = N.of_nat k.
Proof. revert v; induction k as [|k IH]; intros v; cbn [le_bytes nlen]; [reflexivity|]. rewrite IH. lia. Qed.

Lemma from_le_le_bytes k v : v < 256 ^ N.of_nat k -> from_le (le_bytes k v) = v.
Proof.
  revert v; induction k as [|k IH]; intros v Hv; cbn [le_bytes from_le].
  - cbn in Hv. lia.
  - rewrite IH.
    + lia.
    + replace (N.of_nat (S k)) with (N.of_nat k + 1) in Hv by lia.
      rewrite N.pow_add_r, N.pow_1_r in Hv. lia.
Qed.

Lemma bytes_needed_go_bound fuel v :
  v < 256 ^ N.of_nat fuel ->
  bytes_needed_go fuel v <= N.of_nat fuel /\ v < 256 ^ bytes_needed_go fuel v.
Proof.
  revert v; induction fuel as [|f IH]; intros v Hv; cbn [bytes_needed_go].
  - cbn in *. lia.
  - destruct (N.eqb_spec v 0) as [->|Hnz].
    + split; [lia|]. cbn. lia.
    + replace (N.of_nat (S f)) with (N.of_nat f + 1) in * by lia.
      rewrite N.pow_add_r, N.pow_1_r in Hv.
      destruct (IH (v / 256)) as [H1 H2]; [lia|].
      split; [lia|].
      replace (1 + bytes_needed_go f (v / 256)) with (bytes_needed_go f (v / 256) + 1) by lia.
      rewrite N.pow_add_r, N.pow_1_r. lia.
Qed.

Lemma bytes_needed_bound v : v < W64 ->
  1 <= bytes_needed v <= 8 /\ v < 256 ^ bytes_needed v.
Proof.
  intros Hv. unfold bytes_needed. destruct (N.eqb_spec v 0) as [->|Hnz].
  - split; [lia|]. cbn. lia.
  - destruct (bytes_needed_go_bound 8 v) as [H1 H2].
    + change (256 ^ N.of_nat 8) with W64. exact Hv.
    + split; [|exact H2]. split; [|lia].
      cbn [bytes_needed_go]. destruct (N.eqb_spec v 0); lia.
Qed.

Theorem prefix_free_law_proof :
  forall v rest, in_u64 v -> dec_pf (enc_pf v ++ rest) = Some (v, nlen (enc_pf v)).
Proof.
  intros v rest Hv. unfold in_u64 in Hv.
  destruct (bytes_needed_bound v Hv) as [[Hk1 Hk8] Hvk].
  unfold enc_pf, dec_pf. cbn [app nlen].
  replace ((bytes_needed v =? 0) || (8 <? bytes_needed v)) with false
    by (symmetry; apply orb_false_iff; split; [apply N.eqb_neq|apply N.ltb_ge]; lia).
  rewrite nlen_app, le_bytes_len, N2Nat.id.
  replace (bytes_needed v + nlen rest <? bytes_needed v) with false
    by (symmetry; apply N.ltb_ge; lia).
  set (k := N.to_nat (bytes_needed v)).
  replace k with (N.to_nat (nlen (le_bytes k v))) at 1 by (rewrite le_bytes_len; lia).
  rewrite firstn_nlen_app. rewrite from_le_le_bytes by (unfold k; rewrite N2Nat.id; exact Hvk).
  reflexivity.
Qed.

Theorem prefix_free_signed_law_proof :
  forall v rest, in_i64 v -> dec_pf_s (enc_pf_s v ++ rest) = Some (v, nlen (enc_pf_s v)).
Proof.
  intros v rest Hv. unfold dec_pf_s, enc_pf_s.
  rewrite prefix_free_law_proof by (unfold zz_enc; apply of_i64_lt).
  rewrite zigzag_roundtrip_proof by exact Hv. reflexivity.
Qed.

Theorem zigzag_varint_law_proof :
  forall v rest, in_i64 v -> dec_zz (enc_zz v ++ rest) = Some (v, nlen (enc_zz v)).
Proof.
  intros v rest Hv. unfold dec_zz, enc_zz.
  rewrite leb128_u64_law_proof by (unfold zz_enc; apply of_i64_lt).
  rewrite zigzag_roundtrip_proof by exact Hv. reflexivity.
Qed.

(* ---- delta u64 ---- *)
Lemma delta_u_step prev x :
  prev < W64 -> x < W64 ->
  (if prev <=? x then x - prev else prev - x) < W63 ->
  delta_u_apply prev (delta_u_code prev x) = x /\ delta_u_code prev x < W64.
Proof.
  unfold delta_u_apply, delta_u_code, w64, W64, W63. intros Hp Hx Hd.
  destruct (N.leb_spec prev x) as [Hle|Hgt].
  - rewrite (N.mod_small ((x - prev) * 2)) by lia.
    replace (((x - prev) * 2) mod 2) with 0 by lia. cbn [N.eqb].
    replace ((x - prev) * 2 / 2) with (x - prev) by lia.
    split; [|lia]. change (0 =? 0) with true. cbv iota. lia.
  - rewrite (N.mod_small ((prev - x) * 2)) by lia.
    replace ((prev - x) * 2) with ((prev - x) * 2 ^ 1) by (rewrite N.pow_1_r; reflexivity).
    rewrite N.lor_comm.
    rewrite (lor_disjoint_add 1 (prev - x) 1) by (cbn; lia).
    rewrite N.pow_1_r.
    replace ((1 + (prev - x) * 2) mod 2) with 1 by lia.
    replace ((1 + (prev - x) * 2) / 2) with (prev - x) by lia.
    change (1 =? 0) with false. cbv iota. split; lia.
Qed.

Lemma dec_delta_u_items_ok :
  forall xs prev rest,
    prev < W64 -> Forall in_u64 xs -> delta_u_big prev xs = false ->
    dec_delta_u_items (length xs) prev (flat_map enc_u (delta_u_codes prev xs) ++ rest) = Some xs.
Proof.
  induction xs as [|x xs IH]; intros prev rest Hp Hxs Hbig;
    cbn [length dec_delta_u_items delta_u_codes flat_map]; [reflexivity|].
  inversion Hxs as [|? ? Hx Hxs']; subst. unfold in_u64 in Hx.
  cbn [delta_u_big] in Hbig. apply orb_false_iff in Hbig. destruct Hbig as [Hd Hbig].
  apply N.leb_gt in Hd.
  destruct (delta_u_step prev x Hp Hx Hd) as [Happ Hlt].
  rewrite <- app_assoc. rewrite leb128_u64_law_proof by exact Hlt.
  rewrite skipn_nlen_app. rewrite Happ. rewrite IH by assumption. reflexivity.
Qed.

Theorem delta_u64_law_proof :
  forall xs rest, Forall in_u64 xs -> nlen xs < W64 -> known_delta_u xs = false ->
    dec_delta_u (enc_delta_u xs ++ rest) = Some xs.
Proof.
  intros xs rest Hxs Hlen Hk. destruct xs as [|x xs].
  - reflexivity.
  - inversion Hxs as [|? ? Hx Hxs']; subst. unfold in_u64 in Hx.
    unfold enc_delta_u, dec_delta_u. rewrite <- !app_assoc.
    rewrite leb128_u64_law_proof by exact Hlen. rewrite skipn_nlen_app.
    replace (nlen (x :: xs) =? 0) with false by (symmetry; apply N.eqb_neq; cbn [nlen]; lia).
    rewrite leb128_u64_law_proof by exact Hx. rewrite skipn_nlen_app.
    replace (N.to_nat (nlen (x :: xs)) - 1)%nat with (length xs)
      by (rewrite nlen_length, Nat2N.id; cbn [length]; lia).
    cbn [known_delta_u] in Hk.
    rewrite dec_delta_u_items_ok by assumption. reflexivity.
Qed.

(* the recorded finding: a difference of 2^63 is lost *)
Theorem delta_u64_refuted_proof :
  exists xs, Forall in_u64 xs /\ known_delta_u xs = true /\ dec_delta_u (enc_delta_u xs) <> Some xs.
Proof.
  exists [0; W63]. split; [|split].
  - repeat constructor; unfold in_u64, W63, W64; lia.
  - reflexivity.
  - vm_compute. discriminate.
Qed.

(* the recorded finding: group varint cannot represent values needing 5..8 bytes *)
Theorem group_varint_refuted_proof :
  exists xs, Forall in_u64 xs /\ known_gv xs = true /\ dec_gv (enc_gv xs) <> Some xs.
Proof.
  exists [W32; 5]. split; [|split].
  - repeat constructor; unfold in_u64, W32, W64; lia.
  - reflexivity.
  - vm_compute. discriminate.
Qed.

Example delta_u64_law_inhabited :
  known_delta_u [5; 3; W63 + 2; W64 - 1; W63] = false /\ dec_delta_u (enc_delta_u [5; 3; W63 + 2; W64 - 1; W63]) = Some [5; 3; W63 + 2; W64 - 1; W63].
Proof. split; vm_compute; reflexivity. Qed.
