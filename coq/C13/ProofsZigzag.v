(* C13: zigzag is a bijection between i64 and u64 (arithmetic proof, all 2^64 values). *)
From ZV.Common Require Import Base.
From ZV.C13 Require Import Model.
Open Scope Z_scope.

Lemma of_i64_lt z : (of_i64 z < W64)%N.
Proof. unfold of_i64, W64. lia. Qed.

Lemma zz_enc_val v : in_i64 v ->
  Z.of_N (zz_enc v) = if 0 <=? v then 2 * v else - 2 * v - 1.
Proof.
  unfold in_i64, zz_enc, W63. intros Hv.
  destruct (Z.leb_spec 0 v) as [Hp|Hn].
  - replace (v / Z.of_N 9223372036854775808) with 0 by lia.
    rewrite Z.lxor_0_r.
    unfold to_i64, of_i64, W63, W64.
    destruct (N.ltb_spec (Z.to_N ((v * 2) mod Z.of_N 18446744073709551616)) 9223372036854775808); lia.
  - replace (v / Z.of_N 9223372036854775808) with (-1) by lia.
    rewrite Z.lxor_m1_r. unfold Z.lnot.
    unfold to_i64, of_i64, W63, W64.
    destruct (N.ltb_spec (Z.to_N ((v * 2) mod Z.of_N 18446744073709551616)) 9223372036854775808); lia.
Qed.

Lemma zz_dec_val e : (e < W64)%N ->
  zz_dec e = if (e mod 2 =? 0)%N then Z.of_N (e / 2) else - Z.of_N (e / 2) - 1.
Proof.
  unfold zz_dec, W64. intros He.
  assert (Hh : to_i64 (e / 2) = Z.of_N (e / 2)).
  { unfold to_i64, W63. destruct (N.ltb_spec (e / 2) 9223372036854775808); lia. }
  rewrite Hh.
  destruct (N.eqb_spec (e mod 2) 0) as [H0|H1].
  - rewrite H0. cbn. apply Z.lxor_0_r.
  - replace (e mod 2)%N with 1%N by lia. change (- Z.of_N 1) with (-1).
    rewrite Z.lxor_m1_r. unfold Z.lnot. lia.
Qed.

Theorem zigzag_roundtrip_proof : forall v, in_i64 v -> zz_dec (zz_enc v) = v.
Proof.
  intros v Hv. pose proof (zz_enc_val v Hv) as He.
  rewrite zz_dec_val by (unfold zz_enc; apply of_i64_lt).
  unfold in_i64, W63 in Hv.
  destruct (Z.leb_spec 0 v); destruct (N.eqb_spec (zz_enc v mod 2) 0); lia.
Qed.

Theorem zigzag_surjective_proof : forall e, (e < W64)%N -> in_i64 (zz_dec e) /\ zz_enc (zz_dec e) = e.
Proof.
  intros e He. rewrite zz_dec_val by exact He.
  assert (Hin : in_i64 (if (e mod 2 =? 0)%N then Z.of_N (e / 2) else - Z.of_N (e / 2) - 1)).
  { unfold in_i64, W63, W64 in *. destruct (N.eqb_spec (e mod 2) 0); lia. }
  split; [exact Hin|].
  pose proof (zz_enc_val _ Hin) as Hv. unfold W64 in He.
  destruct (N.eqb_spec (e mod 2) 0);
  match type of Hv with context [0 <=? ?x] => destruct (Z.leb_spec 0 x) end; lia.
Qed.
