(* C13: unsigned LEB128 law, for every u64 and every trailing bytes. *)
From ZV.Common Require Import Base.
From ZV.C13 Require Import Model.
Open Scope N_scope.

Lemma pow2_7 s : 2 ^ (s + 7) = 2 ^ s * 128.
Proof. rewrite N.pow_add_r. reflexivity. Qed.

Lemma w64_small x : x < W64 -> w64 x = x.
Proof. intros H. unfold w64. apply N.mod_small. exact H. Qed.

Lemma dec_u_go_enc :
  forall fuel v shift acc n rest,
    shift < 64 -> v * 2 ^ shift < W64 -> acc < 2 ^ shift -> v < 128 ^ (N.of_nat fuel) ->
    (0 < fuel)%nat ->
    dec_u_go (enc_u_go fuel v ++ rest) shift acc n
    = Some (acc + v * 2 ^ shift, n + nlen (enc_u_go fuel v)).
Proof.
  induction fuel as [|f IH]; intros v shift acc n rest Hs Hv Hacc Hfuel Hpos; [lia|].
  cbn [enc_u_go].
  assert (Hp : 0 < 2 ^ shift) by apply pow2_pos.
  assert (Hdm : v = 128 * (v / 128) + v mod 128) by (apply N.div_mod; discriminate).
  assert (Hb : v mod 128 < 128) by (apply N.mod_lt; discriminate).
  destruct (N.eqb_spec (v / 128) 0) as [Hz|Hnz].
  - (* last byte *)
    cbn [app dec_u_go nlen].
    replace (64 <=? shift) with false by (symmetry; apply N.leb_gt; exact Hs).
    replace (v mod 128 <? 128) with true by (symmetry; apply N.ltb_lt; exact Hb).
    rewrite (N.mod_small (v mod 128) 128) by exact Hb.
    assert (Hv' : v mod 128 = v) by lia. rewrite Hv'.
    rewrite w64_small by exact Hv.
    rewrite lor_disjoint_add by exact Hacc.
    f_equal; f_equal; lia.
  - (* continuation byte *)
    cbn [app dec_u_go nlen].
    replace (64 <=? shift) with false by (symmetry; apply N.leb_gt; exact Hs).
    replace (v mod 128 + 128 <? 128) with false by (symmetry; apply N.ltb_ge; lia).
    replace ((v mod 128 + 128) mod 128) with (v mod 128) by lia.
    assert (Hbv : v mod 128 * 2 ^ shift <= v * 2 ^ shift)
      by (apply N.mul_le_mono_r; lia).
    rewrite w64_small by lia.
    rewrite lor_disjoint_add by exact Hacc.
    assert (Hv128 : 128 * 2 ^ shift <= v * 2 ^ shift)
      by (apply N.mul_le_mono_r; lia).
    assert (Hs7 : shift + 7 < 64).
    { apply (N.pow_lt_mono_r_iff 2); [lia|]. rewrite pow2_7.
      change (2 ^ 64) with W64. lia. }
    destruct f as [|f'].
    { (* fuel exhausted would contradict v < 128 *)
      exfalso. cbn in Hfuel. lia. }
    rewrite IH.
    + f_equal. f_equal.
      * rewrite pow2_7. nia.
      * lia.
    + exact Hs7.
    + rewrite pow2_7. nia.
    + rewrite pow2_7. nia.
    + replace (N.of_nat (S (S f'))) with (N.of_nat (S f') + 1) in Hfuel by lia.
      rewrite N.pow_add_r in Hfuel. rewrite N.pow_1_r in Hfuel. nia.
    + lia.
Qed.

Theorem leb128_u64_law_proof :
  forall v rest, in_u64 v -> dec_u (enc_u v ++ rest) = Some (v, nlen (enc_u v)).
Proof.
  intros v rest Hv. unfold dec_u, enc_u, in_u64 in *.
  rewrite dec_u_go_enc.
  - f_equal. f_equal; lia.
  - lia.
  - rewrite N.pow_0_r. lia.
  - rewrite N.pow_0_r. lia.
  - change (128 ^ N.of_nat 10) with 1180591620717411303424. unfold W64 in Hv. lia.
  - lia.
Qed.

(* every emitted byte is a byte, and the length is 1..10 *)
Lemma enc_u_go_bytes fuel v : Forall is_byte (enc_u_go fuel v).
Proof.
  revert v; induction fuel as [|f IH]; intros v; cbn [enc_u_go]; [constructor|].
  assert (Hb : v mod 128 < 128) by (apply N.mod_lt; discriminate).
  destruct (v / 128 =? 0); constructor; unfold is_byte; try lia; auto.
Qed.
Lemma enc_u_bytes v : bytes_ok (enc_u v).
Proof. apply enc_u_go_bytes. Qed.

Lemma enc_u_go_len fuel v : (0 < fuel)%nat -> 1 <= nlen (enc_u_go fuel v) <= N.of_nat fuel.
Proof.
  revert v; induction fuel as [|f IH]; intros v Hf; [lia|].
  cbn [enc_u_go]. destruct (v / 128 =? 0); cbn [nlen]; [lia|].
  destruct f as [|f']; [cbn [enc_u_go nlen]; lia|].
  specialize (IH (v / 128)). lia.
Qed.
Lemma enc_u_len v : 1 <= nlen (enc_u v) <= 10.
Proof. unfold enc_u. pose proof (enc_u_go_len 10 v). lia. Qed.
