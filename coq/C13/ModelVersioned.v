(* C13 model, part 5: versioned records (src/io/versioning.rs).
   A record type implementing VersionedSerialize is a list of components in the order its
   serialize_with_manager / deserialize_with_manager touch them: plain fields (T::serialize) and versioned
   fields (VersionManager::serialize_field / deserialize_field, registered `since` a version).
   * serialize_with_manager under a manager whose current version is `cur`: a versioned field is written as
     marker 1 + value when cur >= since, marker 0 otherwise;
   * deserialize_with_manager under a manager whose reading version is `rv`: marker 0 -> None; marker 1 -> the
     value is decoded, kept when rv >= since and dropped (skipped) otherwise;
   * serialize_versioned = Version::serialize(current_version) (u32 LE of to_u32) + the components;
     deserialize_versioned reads that header and makes it the reading version - the reader's own
     current_version() is not consulted;
   * VersionedSerializer::deserialize_from_bytes: the checks of VersionConfig (strict: supports_version,
     the minor-number skew, migrations through a registry - empty here, so a differing version with
     enable_migrations is refused with "No migration path").
   Definitions only. *)
From ZV.Common Require Import Base Run.
From ZV.C13 Require Import Model ModelIO ModelTypes.
Open Scope N_scope.

Inductive comp : Type :=
| CPlain (t : ty)
| CField (since : version) (t : ty).

Fixpoint enc_comps (cur : version) (cs : list comp) (vs : list val) : list N :=
  match cs, vs with
  | CPlain t :: cs', v :: vs' => enc t v ++ enc_comps cur cs' vs'
  | CField since t :: cs', v :: vs' => enc_field (enc t) (ver_le since cur) v ++ enc_comps cur cs' vs'
  | _, _ => []
  end.

Fixpoint dec_comps (rv : version) (cs : list comp) (d : list N) : option (list (option val) * N) :=
  match cs with
  | [] => Some ([], 0)
  | c :: cs' =>
      let r := match c with
               | CPlain t => match dec t d with Some (v, n) => Some (Some v, n) | None => None end
               | CField since t => dec_field (dec t) (ver_le since rv) d
               end in
      match r with
      | None => None
      | Some (o, n) =>
          match dec_comps rv cs' (skipn (N.to_nat n) d) with
          | None => None
          | Some (os, m) => Some (o :: os, n + m)
          end
      end
  end.

(* what the reader must see: a plain field always, a versioned field iff both sides know it *)
Fixpoint expected (cur rv : version) (cs : list comp) (vs : list val) : list (option val) :=
  match cs, vs with
  | CPlain _ :: cs', v :: vs' => Some v :: expected cur rv cs' vs'
  | CField since _ :: cs', v :: vs' =>
      (if ver_le since cur && ver_le since rv then Some v else None) :: expected cur rv cs' vs'
  | _, _ => []
  end.

Inductive wt_comps : list comp -> list val -> Prop :=
| wtc_nil : wt_comps [] []
| wtc_plain t cs v vs : wt t v -> wt_comps cs vs -> wt_comps (CPlain t :: cs) (v :: vs)
| wtc_field s t cs v vs : wt t v -> wt_comps cs vs -> wt_comps (CField s t :: cs) (v :: vs).

(* serialize_versioned / deserialize_versioned; `reader_cur` = the reading type's current_version() *)
Definition enc_versioned (cur : version) (cs : list comp) (vs : list val) : list N :=
  enc_le 4 (ver_pack cur) ++ enc_comps cur cs vs.
Definition dec_versioned (reader_cur : version) (cs : list comp) (d : list N)
  : option (list (option val) * N) :=
  match dec_le 4 d with
  | None => None
  | Some (p, n) =>
      match dec_comps (ver_unpack p) cs (skipn (N.to_nat n) d) with
      | None => None
      | Some (os, m) => Some (os, n + m)
      end
  end.

(* a version whose packed form is faithful (outside the finding class version_component_over_255) *)
Definition narrow (v : version) : Prop :=
  let '(a, b, c) := v in a < 256 /\ b < 256 /\ c < 65536.

(* ---------- VersionedSerializer::deserialize_from_bytes ---------- *)
Record vcfg : Type := { strict : bool; fwd : bool; skew : N; migr : bool }.
Definition v_major (v : version) : N := let '(a, _, _) := v in a.
Definition v_minor (v : version) : N := let '(_, b, _) := v in b.
Definition ver_eqb (a b : version) : bool := ver_le a b && ver_le b a.
(* is_compatible_with: same major and self >= other *)
Definition compatible (self other : version) : bool := (v_major self =? v_major other) && ver_le other self.
(* supports_version with the default min_supported_version 1.0.0 *)
Definition supports_version (min_sup cur stored : version) : bool :=
  ver_le min_sup stored && compatible stored cur.
Definition abs_diff (a b : N) : N := if a <? b then b - a else a - b.

Definition vs_deser (cfg : vcfg) (min_sup reader_cur : version) (cs : list comp) (d : list N)
  : option (list (option val)) :=
  match dec_le 4 d with
  | None => None
  | Some (p, n) =>
      let stored := ver_unpack p in
      if strict cfg && negb (supports_version min_sup reader_cur stored) then None
      else if skew cfg <? abs_diff (v_minor stored) (v_minor reader_cur) then None
      else if negb (ver_eqb stored reader_cur) && migr cfg then None
      else match dec_comps stored cs (skipn (N.to_nat n) d) with
           | None => None
           | Some (os, _) => Some os
           end
  end.

(* ---------- flat integer form (correspondence cases) ---------- *)
(* schema:  count, then per component  0 type | 1 major minor patch type  *)
Fixpoint parse_comps (count : nat) (s : list Z) : option (list comp * list Z) :=
  match count with
  | O => Some ([], s)
  | S c =>
      match s with
      | 0%Z :: r =>
          match parse_ty (S (length r)) r with
          | Some (t, r') => match parse_comps c r' with Some (cs, r'') => Some (CPlain t :: cs, r'') | None => None end
          | None => None
          end
      | 1%Z :: a :: b :: p :: r =>
          match parse_ty (S (length r)) r with
          | Some (t, r') =>
              match parse_comps c r' with
              | Some (cs, r'') => Some (CField (Z.to_N a, Z.to_N b, Z.to_N p) t :: cs, r'')
              | None => None
              end
          | None => None
          end
      | _ => None
      end
  end.
Fixpoint parse_vals (cs : list comp) (s : list Z) : option (list val) :=
  match cs with
  | [] => match s with [] => Some [] | _ => None end
  | c :: cs' =>
      let t := match c with CPlain t => t | CField _ t => t end in
      match parse_val t s with
      | Some (v, r) => match parse_vals cs' r with Some vs => Some (v :: vs) | None => None end
      | None => None
      end
  end.
(* observed record: per component 0 (absent) | 1 value.. *)
Fixpoint flat_opts (cs : list comp) (os : list (option val)) : list Z :=
  match cs, os with
  | c :: cs', o :: os' =>
      let t := match c with CPlain t => t | CField _ t => t end in
      match o with Some v => 1%Z :: flat_val t v | None => [0%Z] end ++ flat_opts cs' os'
  | _, _ => []
  end.

Definition ver3 (s : list Z) : option (version * list Z) :=
  match s with a :: b :: c :: r => Some ((Z.to_N a, Z.to_N b, Z.to_N c), r) | _ => None end.

(* op 42: ints = mode, cur(3), schema, values -> bytes of serialize_with_manager (mode 0) / serialize_versioned (1) *)
Definition run_enc_rec (ints : list Z) : option (list Z) :=
  match ints with
  | mode :: r0 =>
      match ver3 r0 with
      | Some (cur, n :: r1) =>
          match parse_comps (Z.to_nat n) r1 with
          | Some (cs, r2) =>
              match parse_vals cs r2 with
              | Some vs => Some (map Z.of_N (if Z.eqb mode 0 then enc_comps cur cs vs else enc_versioned cur cs vs))
              | None => None
              end
          | None => None
          end
      | _ => None
      end
  | [] => None
  end.
(* op 43: ints = mode, version(3), schema; bytes.  mode 0: deserialize_with_manager with reading version;
   mode 1: deserialize_versioned by a type whose current version is given -> record ++ [consumed] *)
Definition run_dec_rec (ints : list Z) (bytes : list N) : option (list Z) :=
  match ints with
  | mode :: r0 =>
      match ver3 r0 with
      | Some (v, n :: r1) =>
          match parse_comps (Z.to_nat n) r1 with
          | Some (cs, []) =>
              match (if Z.eqb mode 0 then dec_comps v cs bytes else dec_versioned v cs bytes) with
              | Some (os, k) => Some (flat_opts cs os ++ [Z.of_N k])
              | None => None
              end
          | _ => None
          end
      | _ => None
      end
  | [] => None
  end.
(* op 44: ints = strict, skew, migr, reader_cur(3), schema; bytes -> [1] ++ record | [0] (refused) *)
Definition run_vs_deser (ints : list Z) (bytes : list N) : option (list Z) :=
  match ints with
  | st :: sk :: mg :: r0 =>
      match ver3 r0 with
      | Some (v, n :: r1) =>
          match parse_comps (Z.to_nat n) r1 with
          | Some (cs, []) =>
              let cfg := {| strict := Z.eqb st 1; fwd := false; skew := Z.to_N sk; migr := Z.eqb mg 1 |} in
              match vs_deser cfg (1, 0, 0) v cs bytes with
              | Some os => Some (1%Z :: flat_opts cs os)
              | None => Some [0%Z]
              end
          | _ => None
          end
      | _ => None
      end
  | _ => None
  end.
