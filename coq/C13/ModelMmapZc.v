(* C13 model, part 8: MmapZeroCopyReader (src/io/zero_copy.rs, mod mmap): a position over the mapped bytes.
   Read::read, std read_exact over it, zc_read (peek), zc_read + zc_advance (slice), zc_advance (skip),
   zc_ensure, set_position, position.  Same operation codes and observations as the other readers.
   Definitions only. *)
From ZV.Common Require Import Base Run.
From ZV.C13 Require Import Model ModelReader.
Open Scope N_scope.

Section Mz.
  Variable data : list N.

  Definition mz_read (n pos : N) : option (list N) * N :=
    let k := N.min (nlen data - pos) n in
    (Some (take k (drop pos data)), pos + k).

  Definition mz_op (code : N) (arg : Z) (pos : N) : obs * N :=
    let n := Z.to_N arg in
    let len := nlen data in
    if code =? 0 then let '(r, p) := mz_read n pos in (opt_bytes r, p)
    else if code =? 1 then let '(r, p) := read_exact mz_read n pos in (opt_bytes r, p)
    else if code =? 16 then (if pos + n <=? len then OPeek (take n (drop pos data)) else ONothing, pos)
    else if code =? 3 then
      (if pos + n <=? len then (OBytes (take n (drop pos data)), pos + n) else (ONothing, pos))
    else if code =? 12 then (if len <? pos + n then (OErr, pos) else (OSkipped, pos + n))
    else if code =? 9 then (if len <? n then (OErr, pos) else (OPos n, n))
    else if code =? 13 then (OPos pos, pos)
    else if code =? 4 then (OAvail (N.min (len - pos) n), pos)
    else (OErr, pos).

  Definition mz_streaming (code : N) : bool :=
    (code =? 0) || (code =? 1) || (code =? 16) || (code =? 3) || (code =? 12) || (code =? 13) || (code =? 4).
End Mz.

(* correspondence (op 33): ints = eight configuration numbers (unused here), then (code, arg) pairs *)
Definition run_mz (ints : list Z) (data : list N) : option (list Z) :=
  match ints with
  | _ :: _ :: _ :: _ :: _ :: _ :: _ :: _ :: ops =>
      Some (flat_map obs_z (fst (run_ops (mz_op data) (pairs ops) 0)))
  | _ => None
  end.
