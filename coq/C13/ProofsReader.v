(* C13: the buffered and the ranged reader present exactly the inner byte stream (of the range),
   for every history of operations, every buffer capacity / configuration and every short-read
   behaviour of the inner reader. *)
From ZV.Common Require Import Base.
From ZV.C13 Require Import Model ProofsLeb ProofsZigzag ProofsSeq ModelReader.
Open Scope N_scope.

(* ---------- take / drop ---------- *)
Lemma take_drop {A} k (l : list A) : take k l ++ drop k l = l.
Proof. apply firstn_skipn. Qed.
Lemma skipn_skipn' {A} a b (l : list A) : skipn a (skipn b l) = skipn (b + a) l.
Proof.
  revert l; induction b as [|b IH]; intros l; [reflexivity|].
  destruct l as [|x l]; cbn [skipn plus]; [destruct a; reflexivity|apply IH].
Qed.
Lemma drop_drop {A} a b (l : list A) : drop a (drop b l) = drop (b + a) l.
Proof. unfold drop. rewrite skipn_skipn', N2Nat.inj_add. reflexivity. Qed.
Lemma nlen_take {A} k (l : list A) : k <= nlen l -> nlen (take k l) = k.
Proof.
  intros H. unfold take. rewrite nlen_length, firstn_length_le, N2Nat.id; [reflexivity|].
  rewrite nlen_length in H. lia.
Qed.
Lemma nlen_drop {A} k (l : list A) : nlen (drop k l) = nlen l - k.
Proof. unfold drop. rewrite !nlen_length, skipn_length. lia. Qed.
Lemma nlen_nil {A} (l : list A) : nlen l = 0 -> l = [].
Proof. destruct l; cbn [nlen]; [reflexivity|lia]. Qed.
Lemma drop_all {A} (l : list A) k : nlen l <= k -> drop k l = [].
Proof. intros H. apply nlen_nil. rewrite nlen_drop. lia. Qed.
Lemma take_split {A} m e (l : list A) : m <= e -> take e l = take m l ++ take (e - m) (drop m l).
Proof.
  intros H. unfold take, drop.
  replace (N.to_nat e) with (N.to_nat m + N.to_nat (e - m))%nat by lia.
  generalize (N.to_nat (e - m)) as r. generalize (N.to_nat m) as a. clear H.
  intros a; revert l; induction a as [|a IH]; intros l r; [reflexivity|].
  destruct l as [|x l]; cbn [plus firstn skipn app]; [destruct r; reflexivity|].
  f_equal. apply IH.
Qed.

Section Inner.
  Variable data : list N.
  Variable chunk : N.
  Notation inner_rest := (inner_rest data).
  Notation inner_read := (inner_read data chunk).

  (* what the inner reader hands out is the next part of its stream *)
  Lemma inner_read_spec ipos k bs ip :
    inner_read ipos k = (bs, ip) -> inner_rest ipos = bs ++ inner_rest ip.
  Proof.
    unfold ModelReader.inner_read. intros H. inversion H; subst; clear H.
    set (k' := if chunk =? 0 then k else N.min k chunk).
    set (m := N.min k' (nlen (inner_rest ipos))).
    assert (Hm : m <= nlen (inner_rest ipos)) by (unfold m; lia).
    rewrite (nlen_take m _ Hm).
    rewrite <- (take_drop m (inner_rest ipos)) at 1. f_equal.
    unfold ModelReader.inner_rest in *. rewrite nlen_drop in Hm. rewrite drop_drop. f_equal. lia.
  Qed.

  (* std's read_exact over any read function that hands out the next part of a stream *)
  Section Exact.
    Context {St : Type}.
    Variable rd : N -> St -> option (list N) * St.
    Variable stream : St -> list N.
    Hypothesis rd_ok : forall n st bs st', rd n st = (Some bs, st') -> stream st = bs ++ stream st'.
    Lemma read_exact_go_ok fuel : forall n st acc out st',
      read_exact_go rd fuel n st acc = (Some out, st') ->
      exists bs, out = acc ++ bs /\ stream st = bs ++ stream st'.
    Proof.
      induction fuel as [|f IH]; intros n st acc out st' H; cbn [read_exact_go] in H.
      - destruct (n =? 0); inversion H; subst. exists []. rewrite app_nil_r. split; reflexivity.
      - destruct (n =? 0).
        + inversion H; subst. exists []. rewrite app_nil_r. split; reflexivity.
        + destruct (rd n st) as [[bs|] st1] eqn:Hr; [|discriminate].
          destruct (nlen bs =? 0); [discriminate|].
          apply IH in H. destruct H as [bs2 [-> H2]].
          exists (bs ++ bs2). rewrite app_assoc. split; [reflexivity|].
          rewrite (rd_ok _ _ _ _ Hr), H2, app_assoc. reflexivity.
    Qed.
    Lemma read_exact_ok n st out st' :
      read_exact rd n st = (Some out, st') -> stream st = out ++ stream st'.
    Proof.
      unfold read_exact. intros H. apply read_exact_go_ok in H. destruct H as [bs [-> H]]. exact H.
    Qed.
  End Exact.

  (* ================= StreamBufferedReader ================= *)
  Section Sbr.
    Variable c_max : N.
    Variable c_ra : bool.
    Variable c_mult : N.
    Variable c_bulk : N.
    Variable c_g15 : bool.
    Notation fill := (sbr_fill data chunk c_max c_ra c_mult c_g15).
    Notation ensure := (sbr_ensure data chunk c_max c_ra c_mult c_g15).
    Notation step := (sbr_op data chunk c_max c_ra c_mult c_bulk c_g15).

    (* the bytes the reader still owes its caller: buffered part, then the unread inner stream *)
    Definition sbr_stream (st : sbr) : list N := s_buf st ++ inner_rest (s_ipos st).

    Lemma sbr_take_ok k st bs st' : sbr_take k st = (bs, st') -> sbr_stream st = bs ++ sbr_stream st'.
    Proof.
      unfold sbr_take. intros H. inversion H; subst. unfold sbr_stream. cbn [s_buf s_ipos].
      rewrite app_assoc, take_drop. reflexivity.
    Qed.
    Lemma sbr_fill_once_ok mn st st' :
      sbr_fill_once data chunk c_ra c_mult mn st = Some st' -> sbr_stream st' = sbr_stream st.
    Proof.
      unfold sbr_fill_once. destruct (_ =? 0); [discriminate|].
      destruct (inner_read _ _) as [bs ip] eqn:Hr. intros H. inversion H; subst.
      unfold sbr_stream. cbn [s_buf s_ipos]. rewrite (inner_read_spec _ _ _ _ Hr), app_assoc. reflexivity.
    Qed.
    Lemma sbr_fill_ok fuel : forall mn st ok st', fill fuel mn st = (ok, st') -> sbr_stream st' = sbr_stream st.
    Proof.
      induction fuel as [|f IH]; intros mn st ok st' H; cbn [sbr_fill] in H.
      - inversion H; subst. reflexivity.
      - destruct (sbr_fill_once _ _ _ _ _ _) as [s1|] eqn:H1.
        + inversion H; subst. apply sbr_fill_once_ok in H1. exact H1.
        + destruct (sbr_grow _ _ _ _) as [s2|] eqn:H2.
          * apply IH in H. rewrite H. unfold sbr_grow in H2.
            destruct (_ <=? _); [discriminate|]. inversion H2; subst. reflexivity.
          * inversion H; subst. reflexivity.
    Qed.
    Lemma sbr_ensure_ok n st av st' : ensure n st = (av, st') -> sbr_stream st' = sbr_stream st.
    Proof.
      unfold sbr_ensure. destruct (_ <=? _).
      - intros H; inversion H; subst; reflexivity.
      - destruct (fill 3 n st) as [ok s1] eqn:Hf. intros H; inversion H; subst.
        eapply sbr_fill_ok; exact Hf.
    Qed.
    Lemma sbr_read_buffered_ok fuel : forall n st acc out st',
      sbr_read_buffered data chunk c_max c_ra c_mult c_g15 fuel n st acc = (Some out, st') ->
      exists bs, out = acc ++ bs /\ sbr_stream st = bs ++ sbr_stream st'.
    Proof.
      induction fuel as [|f IH]; intros n st acc out st' H; cbn [sbr_read_buffered] in H.
      - inversion H; subst. exists []. rewrite app_nil_r. split; reflexivity.
      - destruct (n =? 0).
        { inversion H; subst. exists []. rewrite app_nil_r. split; reflexivity. }
        destruct (if 0 <? nlen (s_buf st) then (Some (nlen (s_buf st)), st) else ensure n st) as [av st1] eqn:He.
        assert (Hs1 : sbr_stream st1 = sbr_stream st).
        { destruct (0 <? nlen (s_buf st)); [inversion He; subst; reflexivity|eapply sbr_ensure_ok; exact He]. }
        destruct av as [a|]; [|discriminate].
        destruct (a =? 0).
        { inversion H; subst. exists []. rewrite app_nil_r. split; [reflexivity|]. symmetry. exact Hs1. }
        destruct (sbr_take (N.min a n) st1) as [bs st2] eqn:Ht.
        apply IH in H. destruct H as [bs2 [-> H2]].
        exists (bs ++ bs2). rewrite app_assoc. split; [reflexivity|].
        rewrite <- Hs1, (sbr_take_ok _ _ _ _ Ht), H2, app_assoc. reflexivity.
    Qed.
    Lemma sbr_buffered_ok n st out st' :
      sbr_buffered data chunk c_max c_ra c_mult c_g15 n st = (Some out, st') -> sbr_stream st = out ++ sbr_stream st'.
    Proof.
      unfold sbr_buffered. intros H. apply sbr_read_buffered_ok in H. destruct H as [bs [-> H]]. exact H.
    Qed.
    Lemma sbr_direct_ok n st acc out st' :
      s_buf st = [] -> sbr_direct data chunk n st acc = (Some out, st') ->
      exists bs, out = acc ++ bs /\ sbr_stream st = bs ++ sbr_stream st'.
    Proof.
      unfold sbr_direct. intros Hb. destruct (inner_read _ _) as [bs ip] eqn:Hr. intros H. inversion H; subst.
      exists bs. split; [reflexivity|]. unfold sbr_stream. cbn [s_buf s_ipos]. rewrite Hb. cbn [app].
      apply inner_read_spec in Hr. exact Hr.
    Qed.
    Lemma sbr_read_ok n st out st' :
      sbr_read data chunk c_max c_ra c_mult c_bulk c_g15 n st = (Some out, st') -> sbr_stream st = out ++ sbr_stream st'.
    Proof.
      unfold sbr_read. destruct (c_bulk <=? n); [|apply sbr_buffered_ok].
      destruct (N.ltb_spec 0 (nlen (s_buf st))) as [Hpos|Hz].
      - destruct (sbr_take (N.min (nlen (s_buf st)) n) st) as [bs st1] eqn:Ht.
        destruct (N.eqb_spec (N.min (nlen (s_buf st)) n) n) as [He|Hne].
        + intros H; inversion H; subst. eapply sbr_take_ok; exact Ht.
        + intros H. apply sbr_direct_ok in H.
          * destruct H as [bs2 [-> H2]]. rewrite (sbr_take_ok _ _ _ _ Ht), H2, app_assoc. reflexivity.
          * unfold sbr_take in Ht. inversion Ht; subst. cbn [s_buf]. apply drop_all. lia.
      - intros H. apply sbr_direct_ok in H.
        + destruct H as [bs2 [-> H2]]. exact H2.
        + apply nlen_nil. lia.
    Qed.

    Definition sbr_streaming (c : N) : bool := c <? 9.   (* every operation except the seeks *)

    (* one operation: what it returns is the next part of the stream, and nothing else is lost *)
    Lemma sbr_op_ok c a st o st' :
      sbr_streaming c = true -> step c a st = (o, st') -> o <> OErr ->
      sbr_stream st = obs_consumed o ++ sbr_stream st'.
    Proof.
      intros Hc H Ho. unfold sbr_streaming in Hc. apply N.ltb_lt in Hc.
      assert (Hcases : c = 0 \/ c = 1 \/ c = 2 \/ c = 3 \/ c = 4 \/ c = 5 \/ c = 6 \/ c = 7 \/ c = 8) by lia.
      unfold sbr_op in H.
      destruct Hcases as [->|[->|[->|[->|[->|[->|[->|[->| ->]]]]]]]]; cbv iota beta in H.
      - destruct (sbr_read _ _ _ _ _ _ _ _ _) as [[r|] s1] eqn:Hr; inversion H; subst; [|congruence].
        cbn [opt_bytes obs_consumed]. eapply sbr_read_ok; exact Hr.
      - destruct (read_exact _ _ _) as [[r|] s1] eqn:Hr; inversion H; subst; [|congruence].
        cbn [opt_bytes obs_consumed]. eapply (read_exact_ok _ sbr_stream); [|exact Hr].
        intros n0 s0 bs s2 Hx. eapply sbr_read_ok; exact Hx.
      - destruct (0 <? nlen (s_buf st)).
        + destruct (sbr_take 1 st) as [bs s1] eqn:Ht. inversion H; subst. cbn [obs_consumed]. eapply sbr_take_ok; exact Ht.
        + destruct (ensure 1 st) as [av s1] eqn:He. apply sbr_ensure_ok in He.
          destruct av; [|inversion H; subst; congruence].
          destruct (0 <? nlen (s_buf s1)); [|inversion H; subst; congruence].
          destruct (sbr_take 1 s1) as [bs s2] eqn:Ht. inversion H; subst. cbn [obs_consumed].
          rewrite <- He. eapply sbr_take_ok; exact Ht.
      - destruct (ensure (Z.to_N a) st) as [av s1] eqn:He. apply sbr_ensure_ok in He.
        destruct av; [|inversion H; subst; congruence].
        destruct (_ <=? _).
        + destruct (sbr_take _ s1) as [bs s2] eqn:Ht. inversion H; subst. cbn [obs_consumed].
          rewrite <- He. eapply sbr_take_ok; exact Ht.
        + inversion H; subst. cbn [obs_consumed app]. symmetry. exact He.
      - destruct (ensure (Z.to_N a) st) as [av s1] eqn:He. apply sbr_ensure_ok in He.
        inversion H; subst. destruct av; cbn [obs_consumed app]; symmetry; exact He.
      - destruct (sbr_buffered _ _ _ _ _ _ _ _) as [[r|] s1] eqn:Hr; inversion H; subst; [|congruence].
        cbn [opt_bytes obs_consumed]. eapply sbr_buffered_ok; exact Hr.
      - destruct (sbr_read _ _ _ _ _ _ _ _ _) as [[r|] s1] eqn:Hr; inversion H; subst; [|congruence].
        cbn [opt_bytes obs_consumed]. eapply sbr_read_ok; exact Hr.
      - destruct (0 <? nlen (s_buf st)).
        + inversion H; subst. reflexivity.
        + destruct (fill 3 1 st) as [ok s1] eqn:Hf. apply sbr_fill_ok in Hf.
          destruct ok; inversion H; subst; cbn [obs_consumed app]; [symmetry; exact Hf|congruence].
      - destruct (if 0 <? nlen (s_buf st) then (true, st) else fill 3 1 st) as [ok s1] eqn:Hf.
        assert (Hs : sbr_stream s1 = sbr_stream st).
        { destruct (0 <? nlen (s_buf st)); [inversion Hf; subst; reflexivity|eapply sbr_fill_ok; exact Hf]. }
        destruct ok; [|inversion H; subst; congruence].
        destruct (sbr_take _ s1) as [bs s2] eqn:Ht. inversion H; subst. cbn [obs_consumed].
        rewrite <- Hs. eapply sbr_take_ok; exact Ht.
    Qed.

    (* a peeked slice (BufRead::fill_buf) is a prefix of what the reader still owes *)
    Lemma sbr_peek_ok a st l st' :
      step 7 a st = (OPeek l, st') -> exists rest, sbr_stream st = l ++ rest.
    Proof.
      unfold sbr_op. cbv iota beta. destruct (0 <? nlen (s_buf st)).
      - intros H; inversion H; subst. exists (inner_rest (s_ipos st')). reflexivity.
      - destruct (fill 3 1 st) as [ok s1] eqn:Hf. apply sbr_fill_ok in Hf.
        destruct ok; intros H; inversion H; subst. exists (inner_rest (s_ipos st')). rewrite <- Hf. reflexivity.
    Qed.

    Theorem sbr_reads_concat_proof :
      forall ops st os st',
        forallb (fun p => sbr_streaming (fst p)) ops = true ->
        run_ops step ops st = (os, st') -> ~ In OErr os ->
        sbr_stream st = flat_map obs_consumed os ++ sbr_stream st'.
    Proof.
      induction ops as [|[c a] ops IH]; intros st os st' Hall H Hne; cbn [run_ops] in H.
      - inversion H; subst. reflexivity.
      - cbn [forallb fst] in Hall. apply andb_true_iff in Hall. destruct Hall as [Hc Hall].
        destruct (step c a st) as [o s1] eqn:Hs.
        destruct (run_ops step ops s1) as [os1 s2] eqn:Hr.
        inversion H; subst. cbn [flat_map]. rewrite <- app_assoc.
        rewrite (sbr_op_ok _ _ _ _ _ Hc Hs) by (intros ->; apply Hne; left; reflexivity).
        f_equal. apply (IH _ _ _ Hall Hr). intros Hin. apply Hne. right. exact Hin.
    Qed.

    (* seeks: the stream restarts at the requested absolute / relative logical position *)
    Lemma sbr_seek_start_ok a st p st' :
      step 9 a st = (OPos p, st') -> Z.of_N p = a /\ sbr_stream st' = inner_rest p.
    Proof.
      unfold sbr_op, sbr_seek_to. cbv iota beta. destruct (a <? 0)%Z eqn:Hn; intros H; inversion H; subst.
      split; [lia|]. reflexivity.
    Qed.
    Lemma sbr_seek_cur_ok a st p st' :
      step 10 a st = (OPos p, st') ->
      Z.of_N p = (Z.of_N (s_ipos st) - Z.of_N (nlen (s_buf st)) + a)%Z /\ sbr_stream st' = inner_rest p.
    Proof.
      unfold sbr_op, sbr_seek_to. cbv iota beta. destruct (_ <? 0)%Z eqn:Hn; intros H; inversion H; subst.
      split; [lia|]. reflexivity.
    Qed.
  End Sbr.

  (* ================= RangeReader ================= *)
  Section Rng.
    Variable r_start : N.
    Variable r_end : N.
    Notation rstep := (rng_op data chunk r_start r_end).
    (* the bytes of the range not yet delivered; the inner cursor always sits at the range position *)
    Definition rng_stream (st : rng) : list N := take (r_end - r_cur st) (inner_rest (r_cur st)).
    Definition rng_inv (st : rng) : Prop := r_ipos st = r_cur st.

    Lemma rng_read_ok n st bs st' :
      rng_inv st -> rng_read data chunk r_end n st = (Some bs, st') ->
      rng_inv st' /\ rng_stream st = bs ++ rng_stream st'.
    Proof.
      unfold rng_read, rng_inv. intros Hi. destruct (N.leb_spec r_end (r_cur st)) as [Hle|Hgt].
      - intros H; inversion H; subst. split; [exact Hi|]. reflexivity.
      - destruct (inner_read _ _) as [b ip] eqn:Hr. intros H. inversion H; subst. cbn [r_ipos r_cur].
        pose proof (inner_read_spec _ _ _ _ Hr) as Hspec.
        assert (Hip : ip = r_ipos st + nlen bs /\ nlen bs <= r_end - r_cur st).
        { unfold ModelReader.inner_read in Hr. inversion Hr; subst. split; [reflexivity|].
          unfold take. rewrite nlen_length, firstn_length. destruct (chunk =? 0); lia. }
        destruct Hip as [-> Hle]. rewrite Hi in *. split; [reflexivity|].
        unfold rng_stream. cbn [r_cur].
        rewrite (take_split (nlen bs) (r_end - r_cur st)) by exact Hle.
        rewrite Hspec. unfold take at 1. unfold drop at 1.
        rewrite firstn_nlen_app, skipn_nlen_app.
        replace (r_end - (r_cur st + nlen bs)) with (r_end - r_cur st - nlen bs) by lia.
        reflexivity.
    Qed.

    Definition rng_streaming (c : N) : bool :=
      (c =? 0) || (c =? 1) || (c =? 2) || (c =? 3) || (c =? 12) || (c =? 13).

    (* the bytes an operation removes from the stream: returned ones, or skipped ones *)
    Definition explains1 (a : Z) (o : obs) (ch : list N) : Prop :=
      match o with
      | OBytes l => ch = l
      | OSkipped => nlen ch = Z.to_N a
      | _ => ch = []
      end.

    Lemma rng_exact_ok n st out st' :
      rng_inv st -> read_exact (rng_read data chunk r_end) n st = (Some out, st') ->
      rng_inv st' /\ rng_stream st = out ++ rng_stream st' /\ nlen out = n.
    Proof.
      unfold read_exact. generalize (S (N.to_nat n)) as fuel. intros fuel.
      assert (G : forall fuel n st acc out st', rng_inv st ->
                 read_exact_go (rng_read data chunk r_end) fuel n st acc = (Some out, st') ->
                 rng_inv st' /\ exists bs, out = acc ++ bs /\ rng_stream st = bs ++ rng_stream st' /\ nlen bs = n).
      { clear. induction fuel as [|f IH]; intros n st acc out st' Hi H; cbn [read_exact_go] in H.
        - destruct (N.eqb_spec n 0); inversion H; subst. split; [exact Hi|]. exists []. rewrite app_nil_r. repeat split; reflexivity.
        - destruct (N.eqb_spec n 0).
          + inversion H; subst. split; [exact Hi|]. exists []. rewrite app_nil_r. repeat split; reflexivity.
          + destruct (rng_read data chunk r_end n st) as [[bs|] s1] eqn:Hr; [|discriminate].
            destruct (N.eqb_spec (nlen bs) 0); [discriminate|].
            destruct (rng_read_ok _ _ _ _ Hi Hr) as [Hi1 Hs1].
            assert (Hle : nlen bs <= n).
            { unfold rng_read in Hr. destruct (r_end <=? r_cur st); [inversion Hr; subst; cbn [nlen] in *; lia|].
              destruct (ModelReader.inner_read data chunk (r_ipos st) (N.min n (r_end - r_cur st))) as [b ip] eqn:Hx.
              inversion Hr; subst. unfold ModelReader.inner_read in Hx. injection Hx as Hb _. rewrite <- Hb.
              unfold take. rewrite nlen_length, firstn_length. destruct (chunk =? 0); lia. }
            apply (IH _ _ _ _ _ Hi1) in H. destruct H as [Hi2 [bs2 [-> [H2 H3]]]].
            split; [exact Hi2|]. exists (bs ++ bs2). rewrite app_assoc. split; [reflexivity|].
            split; [rewrite Hs1, H2, app_assoc; reflexivity|]. rewrite nlen_app. lia. }
      intros Hi H. apply (G _ _ _ _ _ _ Hi) in H. destruct H as [Hi' [bs [-> [H1 H2]]]].
      split; [exact Hi'|]. split; [exact H1|exact H2].
    Qed.

    Lemma rng_op_ok c a st o st' :
      rng_inv st -> rng_streaming c = true -> rstep c a st = (o, st') -> o <> OErr ->
      rng_inv st' /\ exists ch, explains1 a o ch /\ rng_stream st = ch ++ rng_stream st'.
    Proof.
      intros Hi Hc H Ho. unfold rng_streaming in Hc.
      repeat rewrite orb_true_iff in Hc. repeat rewrite N.eqb_eq in Hc. unfold rng_op in H.
      destruct Hc as [[[[[->| ->]| ->]| ->]| ->]| ->]; cbv iota beta in H.
      - destruct (rng_read _ _ _ _ _) as [[r|] s1] eqn:Hr; inversion H; subst; [|congruence].
        destruct (rng_read_ok _ _ _ _ Hi Hr) as [Hi1 Hs]. split; [exact Hi1|]. exists r. split; [reflexivity|exact Hs].
      - destruct (read_exact _ _ _) as [[r|] s1] eqn:Hr; inversion H; subst; [|congruence].
        destruct (rng_exact_ok _ _ _ _ Hi Hr) as [Hi1 [Hs _]]. split; [exact Hi1|]. exists r. split; [reflexivity|exact Hs].
      - destruct (_ <? 1); [inversion H; subst; congruence|].
        destruct (read_exact _ _ _) as [[r|] s1] eqn:Hr; inversion H; subst; [|congruence].
        destruct (rng_exact_ok _ _ _ _ Hi Hr) as [Hi1 [Hs _]]. split; [exact Hi1|]. exists r. split; [reflexivity|exact Hs].
      - destruct (_ <? _); [inversion H; subst; congruence|].
        destruct (read_exact _ _ _) as [[r|] s1] eqn:Hr; inversion H; subst; [|congruence].
        destruct (rng_exact_ok _ _ _ _ Hi Hr) as [Hi1 [Hs _]]. split; [exact Hi1|]. exists r. split; [reflexivity|exact Hs].
      - destruct (_ <? _); [inversion H; subst; congruence|].
        destruct (read_exact _ _ _) as [[r|] s1] eqn:Hr; inversion H; subst; [|congruence].
        destruct (rng_exact_ok _ _ _ _ Hi Hr) as [Hi1 [Hs Hn]]. split; [exact Hi1|]. exists r. split; [exact Hn|exact Hs].
      - inversion H; subst. split; [exact Hi|]. exists []. split; reflexivity.
    Qed.

    Fixpoint explains (ops : list (N * Z)) (os : list obs) (chs : list (list N)) : Prop :=
      match ops, os, chs with
      | [], [], [] => True
      | (_, a) :: ops', o :: os', ch :: chs' => explains1 a o ch /\ explains ops' os' chs'
      | _, _, _ => False
      end.

    Theorem range_reads_concat_proof :
      forall ops st os st',
        rng_inv st -> forallb (fun p => rng_streaming (fst p)) ops = true ->
        run_ops rstep ops st = (os, st') -> ~ In OErr os ->
        exists chs, explains ops os chs /\ rng_stream st = concat chs ++ rng_stream st'.
    Proof.
      induction ops as [|[c a] ops IH]; intros st os st' Hi Hall H Hne; cbn [run_ops] in H.
      - inversion H; subst. exists []. split; [exact I|reflexivity].
      - cbn [forallb fst] in Hall. apply andb_true_iff in Hall. destruct Hall as [Hc Hall].
        destruct (rstep c a st) as [o s1] eqn:Hs.
        destruct (run_ops rstep ops s1) as [os1 s2] eqn:Hr.
        inversion H; subst.
        destruct (rng_op_ok _ _ _ _ _ Hi Hc Hs) as [Hi1 [ch [He Hst]]]; [intros ->; apply Hne; left; reflexivity|].
        destruct (IH _ _ _ Hi1 Hall Hr) as [chs [Hex Hrest]]; [intros Hin; apply Hne; right; exact Hin|].
        exists (ch :: chs). split; [split; assumption|].
        cbn [concat]. rewrite <- app_assoc, <- Hrest. exact Hst.
    Qed.

    (* the initial stream is exactly the inner bytes of the range *)
    Lemma rng_initial :
      rng_stream {| r_ipos := r_start; r_cur := r_start |} = take (r_end - r_start) (drop (N.min r_start (nlen data)) data).
    Proof. reflexivity. Qed.
  End Rng.
  (* ================= ZeroCopyReader ================= *)
  Section Zc.
    Variable z_cap : N.
    Notation zstep := (zc_op data chunk z_cap).
    Definition zc_stream (st : zc) : list N := z_buf st ++ inner_rest (z_ipos st).

    Lemma zc_take_ok k st bs st' : zc_take k st = (bs, st') -> zc_stream st = bs ++ zc_stream st'.
    Proof.
      unfold zc_take. intros H. inversion H; subst. unfold zc_stream. cbn [z_buf z_ipos].
      rewrite app_assoc, take_drop. reflexivity.
    Qed.
    Lemma zc_fill_from_ok st k st' : zc_fill_from data chunk z_cap st = (k, st') -> zc_stream st' = zc_stream st.
    Proof.
      unfold zc_fill_from. destruct (_ =? 0).
      - intros H; inversion H; subst. reflexivity.
      - destruct (inner_read _ _) as [bs ip] eqn:Hr. intros H; inversion H; subst.
        unfold zc_stream. cbn [z_buf z_ipos]. rewrite (inner_read_spec _ _ _ _ Hr), app_assoc. reflexivity.
    Qed.
    Lemma zc_ensure_ok fuel : forall len st, zc_stream (zc_ensure data chunk z_cap fuel len st) = zc_stream st.
    Proof.
      induction fuel as [|f IH]; intros len st; cbn [zc_ensure]; [reflexivity|].
      destruct (_ && _); [|reflexivity]. destruct (_ =? z_cap); [reflexivity|].
      destruct (zc_fill_from data chunk z_cap st) as [k s1] eqn:Hf. apply zc_fill_from_ok in Hf.
      destruct (k =? 0); [exact Hf|]. rewrite IH. exact Hf.
    Qed.
    Lemma zc_ens_ok len st : zc_stream (zc_ens data chunk z_cap len st) = zc_stream st.
    Proof. apply zc_ensure_ok. Qed.
    Lemma zc_read_ok n st out st' :
      zc_read data chunk z_cap n st = (Some out, st') -> zc_stream st = out ++ zc_stream st'.
    Proof.
      unfold zc_read. destruct (n =? 0); [intros H; inversion H; subst; reflexivity|].
      destruct (N.ltb_spec 0 (nlen (z_buf st))) as [Hpos|Hz].
      - destruct (zc_take _ st) as [bs s1] eqn:Ht. intros H; inversion H; subst. eapply zc_take_ok; exact Ht.
      - assert (Hnil : z_buf st = []) by (apply nlen_nil; lia).
        destruct (_ <=? n).
        + destruct (inner_read _ _) as [bs ip] eqn:Hr. intros H; inversion H; subst.
          unfold zc_stream. cbn [z_buf z_ipos]. rewrite Hnil. cbn [app]. apply inner_read_spec in Hr. exact Hr.
        + set (st1 := if z_eof st then st else _).
          assert (Hs : zc_stream st1 = zc_stream st).
          { unfold st1. destruct (z_eof st); [reflexivity|].
            destruct (zc_fill_from data chunk z_cap st) as [k s1] eqn:Hf. apply zc_fill_from_ok in Hf.
            destruct (k =? 0); exact Hf. }
          destruct (_ =? 0).
          * intros H; inversion H; subst. symmetry. exact Hs.
          * destruct (zc_take _ st1) as [bs s2] eqn:Ht. intros H; inversion H; subst.
            rewrite <- Hs. eapply zc_take_ok; exact Ht.
    Qed.
    Lemma zc_skip_inner_ok fuel : forall len ipos ip,
      zc_skip_inner data chunk fuel len ipos = (true, ip) ->
      exists ch, nlen ch = len /\ inner_rest ipos = ch ++ inner_rest ip.
    Proof.
      induction fuel as [|f IH]; intros len ipos ip H; cbn [zc_skip_inner] in H.
      - destruct (N.eqb_spec len 0); inversion H; subst. exists []. split; reflexivity.
      - destruct (N.eqb_spec len 0).
        + inversion H; subst. exists []. split; reflexivity.
        + destruct (inner_read ipos (N.min len 8192)) as [bs ip1] eqn:Hr.
          destruct (nlen bs =? 0); [discriminate|].
          assert (Hle : nlen bs <= len).
          { unfold ModelReader.inner_read in Hr. inversion Hr; subst. unfold take.
            rewrite nlen_length, firstn_length. destruct (chunk =? 0); lia. }
          apply IH in H. destruct H as [ch [Hn Hs]]. exists (bs ++ ch). split; [rewrite nlen_app; lia|].
          rewrite (inner_read_spec _ _ _ _ Hr), Hs, app_assoc. reflexivity.
    Qed.

    Definition zc_streaming (c : N) : bool :=
      (c =? 0) || (c =? 1) || (c =? 3) || (c =? 4) || (c =? 12) || (c =? 16) || (c =? 17).

    Lemma zc_op_ok c a st o st' :
      zc_streaming c = true -> zstep c a st = (o, st') -> o <> OErr ->
      exists ch, explains1 a o ch /\ zc_stream st = ch ++ zc_stream st'.
    Proof.
      intros Hc H Ho. unfold zc_streaming in Hc.
      repeat rewrite orb_true_iff in Hc. repeat rewrite N.eqb_eq in Hc. unfold zc_op in H.
      destruct Hc as [[[[[[->| ->]| ->]| ->]| ->]| ->]| ->]; cbv iota beta in H.
      - destruct (zc_read _ _ _ _ _) as [[r|] s1] eqn:Hr; inversion H; subst; [|congruence].
        exists r. split; [reflexivity|]. eapply zc_read_ok; exact Hr.
      - destruct (read_exact _ _ _) as [[r|] s1] eqn:Hr; inversion H; subst; [|congruence].
        exists r. split; [reflexivity|]. eapply (read_exact_ok _ zc_stream); [|exact Hr].
        intros n0 s0 bs s2 Hx. eapply zc_read_ok; exact Hx.
      - pose proof (zc_ens_ok (Z.to_N a) st) as He. destruct (_ <=? _).
        + destruct (zc_take _ _) as [bs s2] eqn:Ht. inversion H; subst. exists bs. split; [reflexivity|].
          rewrite <- He. eapply zc_take_ok; exact Ht.
        + inversion H; subst. exists []. split; [reflexivity|]. symmetry. exact He.
      - pose proof (zc_ens_ok (Z.to_N a) st) as He. inversion H; subst. exists []. split; [reflexivity|]. symmetry. exact He.
      - destruct (zc_take (N.min (nlen (z_buf st)) (Z.to_N a)) st) as [bs s1] eqn:Ht.
        destruct (zc_skip_inner _ _ _ _ _) as [ok ip] eqn:Hk.
        destruct ok; inversion H; subst; [|congruence].
        apply zc_skip_inner_ok in Hk. destruct Hk as [ch [Hn Hs]].
        pose proof (zc_take_ok _ _ _ _ Ht) as Hst.
        assert (Hbs : nlen bs = N.min (nlen (z_buf st)) (Z.to_N a)).
        { unfold zc_take in Ht. inversion Ht; subst. apply nlen_take. lia. }
        exists (bs ++ ch). split; [cbn [explains1]; rewrite nlen_app; lia|].
        rewrite Hst. rewrite <- app_assoc. f_equal.
        unfold zc_stream. cbn [z_buf z_ipos].
        destruct (N.eqb_spec (Z.to_N a - N.min (nlen (z_buf st)) (Z.to_N a)) 0) as [Hz|Hnz].
        + (* nothing skipped from the inner stream *)
          rewrite Hz in Hn. apply nlen_nil in Hn. subst ch. cbn [app] in *. rewrite Hs. reflexivity.
        + (* the buffer was emptied first *)
          assert (Hnil : z_buf s1 = []).
          { unfold zc_take in Ht. inversion Ht; subst. cbn [z_buf]. apply drop_all. lia. }
          rewrite Hnil. cbn [app]. exact Hs.
      - pose proof (zc_ens_ok (Z.to_N a) st) as He. inversion H; subst. exists []. split; [reflexivity|]. symmetry. exact He.
      - pose proof (zc_ens_ok (Z.to_N a) st) as He. destruct (_ <=? _).
        + destruct (zc_take _ _) as [bs s2] eqn:Ht. inversion H; subst. exists bs. split; [reflexivity|].
          rewrite <- He. eapply zc_take_ok; exact Ht.
        + destruct (zc_read _ _ _ _ _) as [[r|] s1] eqn:Hr; inversion H; subst; [|congruence].
          exists r. split; [reflexivity|]. rewrite <- He. eapply zc_read_ok; exact Hr.
    Qed.

    Theorem zc_reads_concat_proof :
      forall ops st os st',
        forallb (fun p => zc_streaming (fst p)) ops = true ->
        run_ops zstep ops st = (os, st') -> ~ In OErr os ->
        exists chs, explains ops os chs /\ zc_stream st = concat chs ++ zc_stream st'.
    Proof.
      induction ops as [|[c a] ops IH]; intros st os st' Hall H Hne; cbn [run_ops] in H.
      - inversion H; subst. exists []. split; [exact I|reflexivity].
      - cbn [forallb fst] in Hall. apply andb_true_iff in Hall. destruct Hall as [Hc Hall].
        destruct (zstep c a st) as [o s1] eqn:Hs.
        destruct (run_ops zstep ops s1) as [os1 s2] eqn:Hr.
        inversion H; subst.
        destruct (zc_op_ok _ _ _ _ _ Hc Hs) as [ch [He Hst]]; [intros ->; apply Hne; left; reflexivity|].
        destruct (IH _ _ _ Hall Hr) as [chs [Hex Hrest]]; [intros Hin; apply Hne; right; exact Hin|].
        exists (ch :: chs). split; [split; assumption|].
        cbn [concat]. rewrite <- app_assoc, <- Hrest. exact Hst.
    Qed.
  End Zc.
End Inner.

(* a fresh buffered reader owes its caller the whole inner stream *)
Lemma sbr_initial data cap : sbr_stream data (sbr_init cap) = data.
Proof. unfold sbr_stream, sbr_init, ModelReader.inner_rest. cbn [s_buf s_ipos app]. rewrite N.min_0_l. reflexivity. Qed.

(* inhabitants: a history across several refills, with a peek and a relative seek *)
Example sbr_history_example :
  fst (run_ops (sbr_op [1;2;3;4;5;6;7;8;9;10] 2 3 true 2 8192 false)
         [(0, 2%Z); (7, 0%Z); (0, 5%Z); (2, 0%Z); (10, (-3)%Z); (0, 4%Z)] (sbr_init 3))
  = [OBytes [1;2]; OPeek [3;4]; OBytes [3;4;5;6;7]; OBytes [8]; OPos 5; OBytes [6;7;8;9]].
Proof. vm_compute. reflexivity. Qed.
Example range_history_example :
  fst (run_ops (rng_op [1;2;3;4;5;6;7;8;9;10] 0 2 7) [(0, 2%Z); (12, 1%Z); (0, 9%Z); (0, 1%Z)] {| r_ipos := 2; r_cur := 2 |})
  = [OBytes [3;4]; OSkipped; OBytes [6;7]; OBytes []].
Proof. vm_compute. reflexivity. Qed.
