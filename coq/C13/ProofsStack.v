(* C13: readers stacked on readers.  A RangeReader over a cursor IS a cursor over the bytes of its range:
   every `Read::read` call returns the same bytes and moves the same distance.  A reader stacked on a
   RangeReader (the harness's `sbr_over_range`: StreamBufferedReader<RangeReader<Cursor>>) is therefore described
   by that reader's model over the range slice, and the stream theorems carry over. *)
From ZV.Common Require Import Base.
From ZV.C13 Require Import Model ModelReader ProofsReader.
Open Scope N_scope.

Definition range_slice (data : list N) (r_start r_end : N) : list N :=
  take (r_end - r_start) (drop (N.min r_start (nlen data)) data).

Lemma drop_min {A} (l : list A) a : drop (N.min a (nlen l)) l = drop a l.
Proof.
  destruct (N.le_gt_cases a (nlen l)) as [H|H].
  - rewrite N.min_l by exact H. reflexivity.
  - rewrite N.min_r by lia. rewrite !drop_all by lia. reflexivity.
Qed.
Lemma take_all_ge {A} (l : list A) a : nlen l <= a -> take a l = l.
Proof. intros H. unfold take. apply firstn_all2. rewrite nlen_length in H. lia. Qed.
Lemma take_min {A} (l : list A) a : take (N.min a (nlen l)) l = take a l.
Proof.
  destruct (N.le_gt_cases a (nlen l)) as [H|H].
  - rewrite N.min_l by exact H. reflexivity.
  - rewrite N.min_r by lia. rewrite !take_all_ge by lia. reflexivity.
Qed.
Lemma drop_take {A} a L (l : list A) : drop a (take L l) = take (L - a) (drop a l).
Proof. unfold drop, take. rewrite skipn_firstn_comm. f_equal. lia. Qed.
Lemma take_take {A} a b (l : list A) : take a (take b l) = take (N.min a b) l.
Proof. unfold take. rewrite firstn_firstn, N2Nat.inj_min. reflexivity. Qed.

(* the unread part of the slice at offset `off` = the part of the data the range reader still may deliver *)
Lemma slice_rest data r_start r_end off :
  drop off (range_slice data r_start r_end) = take (r_end - (r_start + off)) (drop (r_start + off) data).
Proof.
  unfold range_slice. rewrite drop_take, drop_drop.
  replace (r_end - r_start - off) with (r_end - (r_start + off)) by lia.
  destruct (N.le_gt_cases r_start (nlen data)) as [H|H].
  - rewrite N.min_l by exact H. reflexivity.
  - rewrite N.min_r by lia. rewrite !drop_all by lia. reflexivity.
Qed.

Theorem range_read_is_cursor_read_proof :
  forall data r_start r_end n off,
    rng_read data 0 r_end n {| r_ipos := r_start + off; r_cur := r_start + off |}
    = (Some (fst (inner_read (range_slice data r_start r_end) 0 off n)),
       {| r_ipos := r_start + snd (inner_read (range_slice data r_start r_end) 0 off n);
          r_cur := r_start + snd (inner_read (range_slice data r_start r_end) 0 off n) |}).
Proof.
  intros data r_start r_end n off.
  unfold rng_read, inner_read, inner_rest. cbn [r_cur r_ipos fst snd].
  change (0 =? 0) with true. cbv iota.
  rewrite !drop_min, !take_min. rewrite slice_rest.
  destruct (N.leb_spec r_end (r_start + off)) as [H|H].
  - replace (r_end - (r_start + off)) with 0 by lia.
    rewrite take_take. replace (N.min n 0) with 0 by lia.
    change (take 0 (drop (r_start + off) data)) with (@nil N). cbn [nlen].
    rewrite !N.add_0_r. reflexivity.
  - rewrite take_take. rewrite !N.add_assoc. reflexivity.
Qed.

(* so the stream a reader stacked on a range reader sees is the range slice: e.g. the buffered reader *)
Theorem sbr_over_range_stream_proof :
  forall data r_start r_end cap,
    sbr_stream (range_slice data r_start r_end) (sbr_init cap)
    = take (r_end - r_start) (drop (N.min r_start (nlen data)) data).
Proof. intros. apply sbr_initial. Qed.

Example range_read_inhabited :
  rng_read [10; 11; 12; 13; 14; 15; 16] 0 5 9 {| r_ipos := 2 + 1; r_cur := 2 + 1 |}
  = (Some [13; 14], {| r_ipos := 5; r_cur := 5 |}) /\
  inner_read (range_slice [10; 11; 12; 13; 14; 15; 16] 2 5) 0 1 9 = ([13; 14], 3).
Proof. split; vm_compute; reflexivity. Qed.
