(* C13: RangeWriter never writes outside its range, whatever the history of writes and seeks; without seeks its
   inner writes are contiguous from the range start and carry exactly the accepted bytes. *)
From ZV.Common Require Import Base.
From ZV.C13 Require Import Model ModelReader ModelRangeWriter ProofsReader.
Open Scope N_scope.

Definition rw_inv (r_start r_end : N) (st : rws) : Prop :=
  x_ipos st = x_cur st /\ r_start <= x_cur st <= r_end.
Definition inside (r_start r_end : N) (w : iw) : Prop :=
  r_start <= fst w /\ fst w + nlen (snd w) <= r_end.

Lemma nlen_take_min {A} k (l : list A) : nlen (take k l) = N.min k (nlen l).
Proof.
  destruct (N.le_gt_cases k (nlen l)) as [H|H].
  - rewrite nlen_take by exact H. lia.
  - unfold take. rewrite firstn_all2 by (rewrite nlen_length in H; lia). lia.
Qed.

Lemma rw_op_ok r_start r_end : r_start <= r_end ->
  forall o st out st' ws, rw_inv r_start r_end st -> rw_op r_start r_end o st = (out, st', ws) ->
    rw_inv r_start r_end st' /\ Forall (inside r_start r_end) ws.
Proof.
  intros Hse [[code arg] d] st out st' ws [Hi [Hlo Hhi]] H. unfold rw_op in H.
  destruct (code =? 0).
  - unfold rw_write in H. destruct (N.leb_spec r_end (x_cur st)) as [E|E].
    + injection H as <- <- <-. split; [split; [exact Hi|lia]|constructor].
    + injection H as <- <- <-. split.
      * unfold rw_inv. cbn [x_ipos x_cur]. split; lia.
      * constructor; [|constructor]. unfold inside. cbn [fst snd]. rewrite nlen_take_min. lia.
  - destruct (code =? 2).
    + injection H as <- <- <-. split; [split; [exact Hi|lia]|constructor].
    + unfold rw_seek in H. injection H as <- <- <-. split; [|constructor].
      unfold rw_inv. cbn [x_ipos x_cur]. split; lia.
Qed.

(* every history of writes, flushes and seeks: all inner writes land inside [start, end) *)
Theorem range_writer_confined_proof :
  forall r_start r_end, r_start <= r_end ->
  forall ops st outs st' ws, rw_inv r_start r_end st ->
    rw_run r_start r_end ops st = (outs, st', ws) ->
    rw_inv r_start r_end st' /\ Forall (inside r_start r_end) ws.
Proof.
  intros r_start r_end Hse. induction ops as [|o r IH]; intros st outs st' ws Hinv H; cbn [rw_run] in H.
  - injection H as <- <- <-. split; [exact Hinv|constructor].
  - destruct (rw_op r_start r_end o st) as [[out st1] ws1] eqn:E.
    destruct (rw_run r_start r_end r st1) as [[outs2 st2] ws2] eqn:E2.
    injection H as <- <- <-.
    destruct (rw_op_ok r_start r_end Hse _ _ _ _ _ Hinv E) as [Hinv1 Hw1].
    destruct (IH _ _ _ _ Hinv1 E2) as [Hinv2 Hw2].
    split; [exact Hinv2|]. apply Forall_app. split; assumption.
Qed.

(* without seeks: the inner writes follow one another from the current position and are the accepted bytes *)
Theorem range_writer_contiguous_proof :
  forall r_start r_end ops st outs st' ws,
    forallb is_write ops = true -> x_ipos st = x_cur st ->
    rw_run r_start r_end ops st = (outs, st', ws) ->
    contiguous (x_cur st) ws /\ concat (map snd ws) = rw_accepted ops outs /\
    x_cur st' = x_cur st + nlen (rw_accepted ops outs) /\ x_ipos st' = x_cur st'.
Proof.
  intros r_start r_end. induction ops as [|o r IH]; intros st outs st' ws Hw Hi H; cbn [rw_run] in H.
  - injection H as <- <- <-. cbn [contiguous map concat rw_accepted nlen]. repeat split; try lia; try reflexivity.
  - cbn [forallb] in Hw. apply andb_prop in Hw. destruct Hw as [Ho Hw].
    destruct (rw_op r_start r_end o st) as [[out st1] ws1] eqn:E.
    destruct (rw_run r_start r_end r st1) as [[outs2 st2] ws2] eqn:E2.
    injection H as <- <- <-.
    destruct o as [[code arg] d]. unfold is_write in Ho. unfold rw_op in E. cbn [rw_accepted].
    destruct (code =? 0) eqn:C0.
    + unfold rw_write in E. destruct (N.leb_spec r_end (x_cur st)) as [F|F].
      * injection E as <- <- <-. destruct (IH _ _ _ _ Hw Hi E2) as (H1 & H2 & H3 & H4).
        change (take 0 d) with (@nil N). cbn [app]. repeat split; assumption.
      * injection E as <- <- <-.
        assert (Hi1 : x_ipos {| x_ipos := x_ipos st + N.min (nlen d) (r_end - x_cur st);
                                x_cur := x_cur st + N.min (nlen d) (r_end - x_cur st) |}
                      = x_cur {| x_ipos := x_ipos st + N.min (nlen d) (r_end - x_cur st);
                                 x_cur := x_cur st + N.min (nlen d) (r_end - x_cur st) |})
          by (cbn [x_ipos x_cur]; lia).
        destruct (IH _ _ _ _ Hw Hi1 E2) as (H1 & H2 & H3 & H4). cbn [x_cur] in *.
        set (k := N.min (nlen d) (r_end - x_cur st)) in *.
        assert (Hk : nlen (take k d) = k) by (rewrite nlen_take_min; lia).
        cbn [app contiguous map concat]. rewrite Hk. repeat split.
        -- exact Hi.
        -- exact H1.
        -- rewrite H2. reflexivity.
        -- rewrite H3, nlen_app, Hk. lia.
        -- exact H4.
    + cbn [orb] in Ho. rewrite Ho in E. injection E as <- <- <-.
      destruct (IH _ _ _ _ Hw Hi E2) as (H1 & H2 & H3 & H4). cbn [app]. repeat split; assumption.
Qed.

Example range_writer_inhabited :
  rw_run 2 7 [(0, 0%Z, [1; 2; 3]); (2, 0%Z, []); (0, 0%Z, [4; 5; 6; 7])] {| x_ipos := 2; x_cur := 2 |}
  = ([3; 1; 2], {| x_ipos := 7; x_cur := 7 |}, [(2, [1; 2; 3]); (5, [4; 5])]) /\
  replay_writes [90; 91; 92] [(2, [1; 2; 3]); (5, [4; 5])] = [90; 91; 1; 2; 3; 4; 5] /\
  cursor_write [9] 3 [] = [9; 0; 0] /\
  fst (fst (rw_run 2 7 [(0, 0%Z, [1; 2; 3]); (11, (-1)%Z, []); (0, 0%Z, [8; 9]); (10, (-9)%Z, [])] {| x_ipos := 2; x_cur := 2 |}))
  = [3; 4; 1; 0].
Proof. repeat split; vm_compute; reflexivity. Qed.
