(* C13 model, part 7: RangeWriter (src/io/range_stream.rs: Write::write, flush, Seek) as a transducer from the
   caller's operations to the calls it issues to the inner writer: state = (position of the inner cursor, current_pos),
   output = the inner writes (absolute position, bytes).  The inner writer is a std::io::Cursor<Vec<u8>> that takes
   every slice whole; `cursor_write` restates what such a cursor does to its vector (zero padding up to a position
   past the end, overwrite, extension).  Definitions only. *)
From ZV.Common Require Import Base Run.
From ZV.C13 Require Import Model ModelReader.
Open Scope N_scope.

Record rws : Type := { x_ipos : N; x_cur : N }.
Definition iw : Type := (N * list N)%type.

(* std::io::Cursor<Vec<u8>>::write at position pos *)
Definition cursor_write (v : list N) (pos : N) (d : list N) : list N :=
  let p := v ++ repeat 0 (N.to_nat (pos - nlen v)) in
  take pos p ++ d ++ drop (pos + nlen d) p.
Definition replay_writes (v : list N) (ws : list iw) : list N :=
  fold_left (fun v w => cursor_write v (fst w) (snd w)) ws v.

Section RW.
  Variable r_start : N.
  Variable r_end : N.

  Definition rw_write (d : list N) (st : rws) : N * rws * list iw :=
    if r_end <=? x_cur st then (0, st, [])
    else let k := N.min (nlen d) (r_end - x_cur st) in
         (k, {| x_ipos := x_ipos st + k; x_cur := x_cur st + k |}, [(x_ipos st, take k d)]).

  Definition rw_seek (which : N) (arg : Z) (st : rws) : N * rws :=
    let target :=
      if which =? 9 then sat_add r_start (Z.to_N arg)
      else if which =? 10 then signed_move (x_cur st) arg
      else signed_move r_end arg in
    let c := N.max r_start (N.min target r_end) in
    (c - r_start, {| x_ipos := c; x_cur := c |}).

  (* (code, numeric argument, payload): 0 write | 2 flush | 9 / 10 / 11 seek Start / Current / End *)
  Definition rwop : Type := (N * Z * list N)%type.
  Definition rw_op (o : rwop) (st : rws) : N * rws * list iw :=
    let '(code, arg, d) := o in
    if code =? 0 then rw_write d st
    else if code =? 2 then (1, st, [])
    else let '(p, st') := rw_seek code arg st in (p, st', []).

  Fixpoint rw_run (ops : list rwop) (st : rws) : list N * rws * list iw :=
    match ops with
    | [] => ([], st, [])
    | o :: r =>
        let '(out, st1, ws1) := rw_op o st in
        let '(outs, st2, ws2) := rw_run r st1 in
        (out :: outs, st2, ws1 ++ ws2)
    end.

  Definition is_write (o : rwop) : bool := let '(code, _, _) := o in (code =? 0) || (code =? 2).
  Fixpoint rw_accepted (ops : list rwop) (outs : list N) : list N :=
    match ops, outs with
    | (code, _, d) :: r, out :: outs' => (if code =? 0 then take out d else []) ++ rw_accepted r outs'
    | _, _ => []
    end.
  (* inner writes that follow one another without a gap, starting at p *)
  Fixpoint contiguous (p : N) (ws : list iw) : Prop :=
    match ws with
    | [] => True
    | (q, b) :: r => q = p /\ contiguous (p + nlen b) r
    end.
End RW.

(* correspondence (op 52): ints = start end prefill, then code arg len byte.. per operation; the destination starts as
   `prefill` bytes 0xA0 ^ i (what the harness builds).  Result: the outcomes, then the destination after replaying
   the inner writes on a cursor. *)
Fixpoint parse_rwops (fuel : nat) (s : list Z) : option (list rwop) :=
  match fuel with
  | O => None
  | S f =>
      match s with
      | [] => Some []
      | code :: arg :: len :: r =>
          let k := Z.to_nat len in
          if Nat.ltb (length r) k then None
          else match parse_rwops f (skipn k r) with
               | Some os => Some ((Z.to_N code, arg, map Z.to_N (firstn k r)) :: os)
               | None => None
               end
      | _ => None
      end
  end.

Definition run_range_writer (ints : list Z) (orig : list N) : option (list Z) :=
  match ints with
  | st :: en :: r =>
      match parse_rwops (S (length r)) r with
      | Some ops =>
          let s := Z.to_N st in
          let '(outs, _, ws) := rw_run s (Z.to_N en) ops {| x_ipos := s; x_cur := s |} in
          Some (map Z.of_N outs ++ map Z.of_N (replay_writes orig ws))
      | None => None
      end
  | _ => None
  end.
