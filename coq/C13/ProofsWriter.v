(* C13: what a buffering writer has sent to its destination plus what it still buffers is the
   concatenation of the bytes it accepted - for every history, capacity, threshold and short-write inner. *)
From ZV.Common Require Import Base.
From ZV.C13 Require Import Model ModelIO ModelWriter.
Open Scope N_scope.

Lemma ntake_ndrop k (l : list N) : ntake k l ++ ndrop k l = l.
Proof. apply firstn_skipn. Qed.
Lemma ntake_all (l : list N) : ntake (nlen l) l = l.
Proof. unfold ntake. rewrite nlen_length, Nat2N.id. apply firstn_all. Qed.
Lemma ntake_nlen_ntake k (l : list N) : ntake (nlen (ntake k l)) l = ntake k l.
Proof.
  unfold ntake. rewrite nlen_length, Nat2N.id. rewrite firstn_length.
  destruct (Nat.le_ge_cases (N.to_nat k) (length l)) as [H|H].
  - rewrite Nat.min_l by exact H. reflexivity.
  - rewrite Nat.min_r by exact H. rewrite firstn_all. symmetry. apply firstn_all2. exact H.
Qed.
Lemma ndrop_length k (l : list N) : length (ndrop k l) = (length l - N.to_nat k)%nat.
Proof. apply skipn_length. Qed.

Lemma stream_flush st : w_stream (w_flush st) = w_stream st.
Proof. unfold w_stream, w_flush. cbn [w_dest w_buf]. rewrite app_nil_r. reflexivity. Qed.
Lemma flush_buf st : w_buf (w_flush st) = [].
Proof. reflexivity. Qed.

Lemma inner_accepts_take chunk d : inner_accepts chunk d = ntake (nlen (inner_accepts chunk d)) d.
Proof.
  unfold inner_accepts. destruct (chunk =? 0).
  - symmetry. apply ntake_all.
  - symmetry. apply ntake_nlen_ntake.
Qed.

Lemma direct_stream chunk st d :
  w_buf st = [] ->
  w_stream (snd (w_direct chunk st d)) = w_stream st ++ ntake (fst (w_direct chunk st d)) d.
Proof.
  intros Hb. unfold w_direct, w_stream. cbn [fst snd w_dest w_buf]. rewrite Hb, !app_nil_r.
  rewrite <- inner_accepts_take. reflexivity.
Qed.

(* a `write` whose return value describes the prefix it put into the stream *)
Definition wr_ok (wr : wst -> list N -> N * wst) : Prop :=
  forall st d, w_stream (snd (wr st d)) = w_stream st ++ ntake (fst (wr st d)) d.

Lemma sbw_copy_stream cap : 0 < cap ->
  forall fuel st rem,
    (2 * length rem + (if (cap - nlen (w_buf st) =? 0)%N then 1 else 0) <= fuel)%nat ->
    w_stream (sbw_copy cap fuel st rem) = w_stream st ++ rem.
Proof.
  intros Hcap. induction fuel as [|f IH]; intros st rem Hf.
  - destruct rem; [cbn [sbw_copy]; rewrite app_nil_r; reflexivity|]. cbn [length] in Hf.
    exfalso. revert Hf. destruct (cap - nlen (w_buf st) =? 0); intros Hf; lia.
  - destruct rem as [|x rem]; [cbn [sbw_copy]; rewrite app_nil_r; reflexivity|].
    cbn [sbw_copy]. cbn [length] in Hf. revert Hf.
    destruct (cap - nlen (w_buf st) =? 0) eqn:E; intros Hf.
    + rewrite IH; [rewrite stream_flush; reflexivity|].
      cbn [w_flush w_buf nlen]. replace (cap - 0 =? 0) with false by (symmetry; apply N.eqb_neq; lia).
      cbn [length]. cbv iota. lia.
    + apply N.eqb_neq in E.
      set (k := N.min (cap - nlen (w_buf st)) (nlen (x :: rem))).
      assert (Hk : 1 <= k) by (unfold k; cbn [nlen]; lia).
      rewrite IH.
      * unfold w_stream. cbn [w_dest w_buf]. rewrite <- !app_assoc. rewrite ntake_ndrop. reflexivity.
      * rewrite ndrop_length. cbn [length].
        destruct (cap - nlen (w_buf {| w_dest := w_dest st; w_buf := w_buf st ++ ntake k (x :: rem) |}) =? 0); lia.
Qed.

Lemma sbw_write_ok chunk cap bulk : 0 < cap -> wr_ok (sbw_write chunk cap bulk).
Proof.
  intros Hcap st d. unfold sbw_write. destruct (bulk <=? nlen d).
  - rewrite direct_stream by apply flush_buf. rewrite stream_flush. reflexivity.
  - cbn [fst snd]. rewrite ntake_all. apply sbw_copy_stream; [exact Hcap|].
    destruct (cap - nlen (w_buf st) =? 0); lia.
Qed.

Lemma zcw_write_ok chunk cap : wr_ok (zcw_write chunk cap).
Proof.
  intros st d. unfold zcw_write. destruct (cap / 2 <=? nlen d).
  - rewrite direct_stream by apply flush_buf. rewrite stream_flush. reflexivity.
  - destruct (N.ltb_spec (cap - nlen (w_buf st)) (nlen d)) as [H|H].
    + destruct (cap - nlen (w_buf (w_flush st)) <? nlen d).
      * rewrite direct_stream by apply flush_buf. rewrite stream_flush. reflexivity.
      * cbn [fst snd]. rewrite ntake_all. unfold w_stream. cbn [w_dest w_buf w_flush app].
        rewrite <- app_assoc. reflexivity.
    + replace (cap - nlen (w_buf st) <? nlen d) with false by (symmetry; apply N.ltb_ge; exact H).
      cbn [fst snd]. rewrite ntake_all. unfold w_stream. cbn [w_dest w_buf].
      rewrite <- app_assoc. reflexivity.
Qed.

Lemma write_all_stream wr : wr_ok wr ->
  forall fuel st d st', write_all wr fuel st d = Some st' -> w_stream st' = w_stream st ++ d.
Proof.
  intros Hwr. induction fuel as [|f IH]; intros st d st' H.
  - destruct d; cbn [write_all] in H; [|discriminate]. injection H as <-. rewrite app_nil_r. reflexivity.
  - destruct d as [|x d]; cbn [write_all] in H.
    + injection H as <-. rewrite app_nil_r. reflexivity.
    + specialize (Hwr st (x :: d)). destruct (wr st (x :: d)) as [k st1]. cbn [fst snd] in Hwr.
      destruct (k =? 0); [discriminate|].
      apply IH in H. rewrite H, Hwr, <- app_assoc, ntake_ndrop. reflexivity.
Qed.

Lemma w_op_stream chunk cap bulk zc : 0 < cap ->
  forall o st out st', w_op chunk cap bulk zc o st = Some (out, st') ->
    w_stream st' = w_stream st ++ w_accepted o out.
Proof.
  intros Hcap [[code arg] d] st out st' H.
  assert (Hwr : wr_ok (if zc then zcw_write chunk cap else sbw_write chunk cap bulk))
    by (destruct zc; [apply zcw_write_ok|apply sbw_write_ok; exact Hcap]).
  unfold w_op in H. unfold w_accepted. revert H.
  destruct (code =? 0); [|destruct (code =? 1); [|destruct (code =? 2); [|destruct (code =? 3);
    [|destruct (code =? 4); [|destruct (code =? 5); [|destruct (code =? 6)]]]]]]; intros H.
  - (* 0 write *)
    injection H as E. specialize (Hwr st d). rewrite E in Hwr. exact Hwr.
  - (* 1 write_all *)
    destruct (write_all _ _ st d) as [st1|] eqn:E; [|discriminate]. injection H as <- <-.
    apply (write_all_stream _ Hwr) in E. exact E.
  - (* 2 flush *)
    injection H as <- <-. rewrite app_nil_r. apply stream_flush.
  - (* 3 byte *)
    destruct d as [|b [|? ?]]; try discriminate. destruct zc; [discriminate|]. injection H as <- <-.
    unfold sbw_byte. destruct (nlen (w_buf st) <? cap); unfold w_stream; cbn [w_dest w_buf];
      rewrite <- ?app_assoc; reflexivity.
  - (* 4 direct *)
    injection H as <- <-. unfold w_stream at 1. cbn [w_dest w_buf]. rewrite app_nil_r.
    unfold w_stream, w_flush. cbn [w_dest]. reflexivity.
  - (* 5 zc_write + commit *)
    destruct zc; [|discriminate]. injection H as E. unfold zcw_zc in E.
    set (st1 := if cap - nlen (w_buf st) <? nlen d then w_flush st else st) in *.
    assert (Hs : w_stream st1 = w_stream st)
      by (unfold st1; destruct (cap - nlen (w_buf st) <? nlen d); [apply stream_flush|reflexivity]).
    destruct (nlen d <=? cap - nlen (w_buf st1)); injection E as <- <-.
    + change (1 =? 1) with true. cbv iota. rewrite <- Hs. unfold w_stream. cbn [w_dest w_buf].
      rewrite <- app_assoc. reflexivity.
    + change (0 =? 1) with false. cbv iota. rewrite app_nil_r. exact Hs.
  - (* 6 zc_ensure *)
    destruct zc; [|discriminate]. injection H as <- <-. unfold zcw_ensure. cbn [snd].
    rewrite app_nil_r. destruct (cap - nlen (w_buf st) <? arg); [apply stream_flush|reflexivity].
  - discriminate.
Qed.

(* every history: destination ++ buffer = what was there ++ the accepted bytes, in order *)
Theorem writers_concat_proof :
  forall chunk cap bulk zc, 0 < cap ->
  forall ops st outs st',
    w_run chunk cap bulk zc ops st = Some (outs, st') ->
    w_stream st' = w_stream st ++ w_all_accepted ops outs.
Proof.
  intros chunk cap bulk zc Hcap. induction ops as [|o r IH]; intros st outs st' H; cbn [w_run] in H.
  - injection H as <- <-. cbn [w_all_accepted]. rewrite app_nil_r. reflexivity.
  - destruct (w_op chunk cap bulk zc o st) as [[out st1]|] eqn:E; [|discriminate].
    destruct (w_run chunk cap bulk zc r st1) as [[outs1 st2]|] eqn:E2; [|discriminate].
    injection H as <- <-. cbn [w_all_accepted].
    rewrite (IH _ _ _ E2). rewrite (w_op_stream chunk cap bulk zc Hcap _ _ _ _ E). rewrite app_assoc. reflexivity.
Qed.

(* ... so after a flush (or into_inner) the destination IS the accepted bytes *)
Theorem writers_flushed_proof :
  forall chunk cap bulk zc, 0 < cap ->
  forall ops outs st',
    w_run chunk cap bulk zc ops {| w_dest := []; w_buf := [] |} = Some (outs, st') ->
    w_dest (w_flush st') = w_all_accepted ops outs.
Proof.
  intros chunk cap bulk zc Hcap ops outs st' H.
  apply (writers_concat_proof chunk cap bulk zc Hcap) in H. exact H.
Qed.

(* ---- inhabited: a 4-byte buffer, bulk threshold 6, an inner writer taking 3 bytes per call ---- *)
Example writers_inhabited :
  w_run 3 4 6 false [(0, 0, [1; 2; 3]); (3, 0, [4]); (0, 0, [5; 6]); (0, 0, [7; 8; 9; 10; 11; 12; 13]); (1, 0, [20; 21; 22; 23; 24; 25; 26])]
        {| w_dest := []; w_buf := [] |}
  = Some ([3; 1; 2; 3; 1], {| w_dest := [1; 2; 3; 4; 5; 6; 7; 8; 9; 20; 21; 22]; w_buf := [23; 24; 25; 26] |}) /\
  w_run 0 8 0 true [(0, 0, [1; 2; 3]); (5, 0, [4; 5; 6]); (6, 6, []); (5, 0, [7; 8; 9; 10; 11; 12; 13; 14; 15])]
        {| w_dest := []; w_buf := [] |}
  = Some ([3; 1; 6; 0], {| w_dest := [1; 2; 3; 4; 5; 6]; w_buf := [] |}).
Proof. split; vm_compute; reflexivity. Qed.
