(* C13: MmapZeroCopyReader presents the mapped bytes: for every streaming history the chunks returned (and skipped)
   concatenate to the bytes from the starting position, followed by what is still ahead. *)
From ZV.Common Require Import Base.
From ZV.C13 Require Import Model ModelReader ModelMmapZc ProofsReader.
Open Scope N_scope.

Section MzP.
  Variable data : list N.
  Definition mz_stream (pos : N) : list N := drop pos data.

  Lemma mz_split pos k : mz_stream pos = take k (drop pos data) ++ mz_stream (pos + k).
  Proof. unfold mz_stream. rewrite <- (drop_drop k pos data). symmetry. apply take_drop. Qed.

  Lemma mz_read_ok n pos r pos' :
    pos <= nlen data -> mz_read data n pos = (Some r, pos') ->
    pos' <= nlen data /\ mz_stream pos = r ++ mz_stream pos' /\ nlen r <= n /\
    (nlen r = 0 -> n = 0 \/ pos = nlen data).
  Proof.
    intros Hp H. unfold mz_read in H. injection H as <- <-.
    set (k := N.min (nlen data - pos) n).
    assert (Hk : nlen (take k (drop pos data)) = k)
      by (apply nlen_take; rewrite nlen_drop; unfold k; lia).
    split; [unfold k; lia|]. split; [apply mz_split|]. rewrite Hk. split; [unfold k; lia|].
    unfold k. intros E. lia.
  Qed.

  Lemma mz_exact_ok n pos out pos' :
    pos <= nlen data -> read_exact (mz_read data) n pos = (Some out, pos') ->
    pos' <= nlen data /\ mz_stream pos = out ++ mz_stream pos'.
  Proof.
    unfold read_exact. generalize (S (N.to_nat n)) as fuel. intros fuel.
    assert (G : forall fuel n pos acc out pos', pos <= nlen data ->
               read_exact_go (mz_read data) fuel n pos acc = (Some out, pos') ->
               pos' <= nlen data /\ exists bs, out = acc ++ bs /\ mz_stream pos = bs ++ mz_stream pos').
    { clear. induction fuel as [|f IH]; intros n pos acc out pos' Hp H; cbn [read_exact_go] in H.
      - destruct (n =? 0); inversion H; subst. split; [exact Hp|]. exists []. rewrite app_nil_r. split; reflexivity.
      - destruct (n =? 0).
        + inversion H; subst. split; [exact Hp|]. exists []. rewrite app_nil_r. split; reflexivity.
        + destruct (mz_read data n pos) as [[bs|] p1] eqn:Hr; [|discriminate].
          destruct (nlen bs =? 0); [discriminate|].
          destruct (mz_read_ok _ _ _ _ Hp Hr) as (Hp1 & Hs1 & _ & _).
          destruct (IH _ _ _ _ _ Hp1 H) as [Hp2 [bs2 [Ho Hs2]]].
          split; [exact Hp2|]. exists (bs ++ bs2). rewrite Ho, Hs1, Hs2, !app_assoc. split; reflexivity. }
    intros Hp H. destruct (G _ _ _ _ _ _ Hp H) as [Hp' [bs [Ho Hs]]]. cbn [app] in Ho. subst out.
    split; assumption.
  Qed.

  Lemma mz_op_ok c a pos o pos' :
    pos <= nlen data -> mz_streaming c = true -> mz_op data c a pos = (o, pos') -> o <> OErr ->
    pos' <= nlen data /\ exists ch, explains1 a o ch /\ mz_stream pos = ch ++ mz_stream pos'.
  Proof.
    intros Hp Hc H Ho. unfold mz_op in H. unfold mz_streaming in Hc. revert Hc H.
    destruct (c =? 0); [intros _ H|].
    { destruct (mz_read data (Z.to_N a) pos) as [[r|] p] eqn:Hr; inversion H; subst; [|congruence].
      destruct (mz_read_ok _ _ _ _ Hp Hr) as (Hp1 & Hs & _). split; [exact Hp1|]. exists r. split; [reflexivity|exact Hs]. }
    destruct (c =? 1); [intros _ H|].
    { destruct (read_exact (mz_read data) (Z.to_N a) pos) as [[r|] p] eqn:Hr; inversion H; subst; [|congruence].
      destruct (mz_exact_ok _ _ _ _ Hp Hr) as (Hp1 & Hs). split; [exact Hp1|]. exists r. split; [reflexivity|exact Hs]. }
    destruct (c =? 16); [intros _ H|].
    { inversion H; subst. split; [exact Hp|]. exists [].
      split; [destruct (_ <=? _); reflexivity|reflexivity]. }
    destruct (c =? 3); [intros _|].
    { destruct (N.leb_spec (pos + Z.to_N a) (nlen data)) as [E|E]; intros H; inversion H; subst.
      - split; [exact E|]. eexists. split; [reflexivity|apply mz_split].
      - split; [exact Hp|]. exists []. split; reflexivity. }
    destruct (c =? 12); [intros _|].
    { destruct (N.ltb_spec (nlen data) (pos + Z.to_N a)) as [E|E]; intros H; inversion H; subst; [congruence|].
      split; [exact E|]. exists (take (Z.to_N a) (drop pos data)). split; [|apply mz_split].
      cbn [explains1]. apply nlen_take. rewrite nlen_drop. lia. }
    destruct (N.eqb_spec c 9) as [->|N9]; [intros Hc; vm_compute in Hc; discriminate|].
    destruct (c =? 13); [intros _ H|].
    { inversion H; subst. split; [exact Hp|]. exists []. split; reflexivity. }
    destruct (c =? 4); [intros _ H|].
    { inversion H; subst. split; [exact Hp|]. exists []. split; reflexivity. }
    cbn [orb]. discriminate.
  Qed.

  Theorem mz_reads_concat_proof :
    forall ops pos os pos',
      pos <= nlen data -> forallb (fun p => mz_streaming (fst p)) ops = true ->
      run_ops (mz_op data) ops pos = (os, pos') -> ~ In OErr os ->
      exists chs, explains ops os chs /\ mz_stream pos = concat chs ++ mz_stream pos'.
  Proof.
    induction ops as [|[c a] ops IH]; intros pos os pos' Hp Hall H Hne; cbn [run_ops] in H.
    - inversion H; subst. exists []. split; [exact I|reflexivity].
    - cbn [forallb fst] in Hall. apply andb_true_iff in Hall. destruct Hall as [Hc Hall].
      destruct (mz_op data c a pos) as [o p1] eqn:Hs.
      destruct (run_ops (mz_op data) ops p1) as [os1 p2] eqn:Hr.
      inversion H; subst.
      destruct (mz_op_ok _ _ _ _ _ Hp Hc Hs) as [Hp1 [ch [He Hst]]]; [intros ->; apply Hne; left; reflexivity|].
      destruct (IH _ _ _ Hp1 Hall Hr) as [chs [Hex Hrest]]; [intros Hin; apply Hne; right; exact Hin|].
      exists (ch :: chs). split; [split; assumption|].
      cbn [concat]. rewrite <- app_assoc, <- Hrest. exact Hst.
  Qed.

  (* set_position(p) lands at p (refused beyond the end), and the stream continues from there *)
  Lemma mz_seek_ok a pos p pos' :
    mz_op data 9 a pos = (OPos p, pos') -> pos' = p /\ p <= nlen data /\ mz_stream pos' = drop p data.
  Proof.
    unfold mz_op. change (9 =? 0) with false. change (9 =? 1) with false. change (9 =? 16) with false.
    change (9 =? 3) with false. change (9 =? 12) with false. change (9 =? 9) with true. cbv iota.
    destruct (N.ltb_spec (nlen data) (Z.to_N a)) as [E|E]; intros H; inversion H; subst.
    repeat split. exact E.
  Qed.
End MzP.

Example mz_inhabited :
  run_ops (mz_op [1; 2; 3; 4; 5; 6; 7]) [(0, 2%Z); (16, 3%Z); (3, 2%Z); (12, 1%Z); (4, 9%Z); (1, 2%Z); (0, 5%Z)] 0
  = ([OBytes [1; 2]; OPeek [3; 4; 5]; OBytes [3; 4]; OSkipped; OAvail 2; OBytes [6; 7]; OBytes []], 7).
Proof. vm_compute. reflexivity. Qed.
