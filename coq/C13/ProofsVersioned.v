(* C13: versioned records round-trip for every schema, every writer version and every reading version. *)
From ZV.Common Require Import Base.
From ZV.C13 Require Import Model ModelIO ModelTypes ModelVersioned ProofsLeb ProofsSeq ProofsIO ProofsTypes.
Open Scope N_scope.

(* the components alone: any writer-side version `cur`, any reading version `rv` *)
Theorem record_fields_law_proof :
  forall cs vs cur rv rest, wt_comps cs vs ->
    dec_comps rv cs (enc_comps cur cs vs ++ rest)
    = Some (expected cur rv cs vs, nlen (enc_comps cur cs vs)).
Proof.
  intros cs vs cur rv rest H. revert rest.
  induction H as [|t cs v vs Hv H IH|s t cs v vs Hv H IH]; intros rest.
  - reflexivity.
  - cbn [enc_comps dec_comps expected]. rewrite <- app_assoc.
    rewrite (types_law_proof t) by exact Hv. rewrite skipn_nlen_app.
    rewrite IH. rewrite nlen_app. reflexivity.
  - cbn [enc_comps dec_comps expected]. rewrite <- app_assoc.
    rewrite (field_law_proof (wt t) (enc t) (dec t) (types_law_proof t)) by exact Hv.
    rewrite skipn_nlen_app. rewrite IH. rewrite nlen_app. reflexivity.
Qed.

Lemma ver_pack_value a b c :
  a < 256 -> b < 256 -> c < 65536 -> ver_pack (a, b, c) = c + (b + a * 256) * 65536.
Proof.
  intros Ha Hb Hc. unfold ver_pack.
  change (2 ^ 24) with 16777216. change (2 ^ 16) with 65536. unfold W32.
  rewrite (N.mod_small (a * 16777216)) by lia. rewrite (N.mod_small (b * 65536)) by lia.
  rewrite (N.lor_comm (a * 16777216)).
  change (a * 16777216) with (a * 2 ^ 24).
  rewrite (lor_disjoint_add (b * 65536) a 24) by (change (2 ^ 24) with 16777216; lia).
  change (2 ^ 24) with 16777216.
  rewrite N.lor_comm.
  replace (b * 65536 + a * 16777216) with ((b + a * 256) * 2 ^ 16) by (change (2 ^ 16) with 65536; lia).
  rewrite (lor_disjoint_add c (b + a * 256) 16) by (change (2 ^ 16) with 65536; lia).
  reflexivity.
Qed.

Lemma header_law cur rest :
  narrow cur -> dec_le 4 (enc_le 4 (ver_pack cur) ++ rest) = Some (ver_pack cur, 4) /\
                ver_unpack (ver_pack cur) = cur.
Proof.
  destruct cur as [[a b] c]. intros (Ha & Hb & Hc). split.
  - rewrite (fixed_le_law_proof 4); [reflexivity|].
    unfold fits. rewrite ver_pack_value by assumption. cbn. lia.
  - apply version_pack_law_proof; assumption.
Qed.

(* serialize_versioned at version `cur`, read by deserialize_versioned of a type at ANY version `rcur` *)
Theorem versioned_record_law_proof :
  forall cs vs cur rcur rest, narrow cur -> wt_comps cs vs ->
    dec_versioned rcur cs (enc_versioned cur cs vs ++ rest)
    = Some (expected cur cur cs vs, nlen (enc_versioned cur cs vs)).
Proof.
  intros cs vs cur rcur rest Hn H. unfold dec_versioned, enc_versioned.
  destruct (header_law cur (enc_comps cur cs vs ++ rest) Hn) as [Hh Hu].
  rewrite <- app_assoc. rewrite Hh, Hu.
  change (N.to_nat 4) with 4%nat.
  replace (skipn 4 (enc_le 4 (ver_pack cur) ++ enc_comps cur cs vs ++ rest)) with (enc_comps cur cs vs ++ rest)
    by reflexivity.
  rewrite record_fields_law_proof by exact H.
  rewrite nlen_app. unfold enc_le. rewrite le_bytes_len. reflexivity.
Qed.

(* a versioned field known at `cur` comes back, one unknown at `cur` comes back absent *)
Lemma expected_same cur cs vs :
  expected cur cur cs vs
  = (fix go cs vs := match cs, vs with
                     | CPlain _ :: cs', v :: vs' => Some v :: go cs' vs'
                     | CField s _ :: cs', v :: vs' => (if ver_le s cur then Some v else None) :: go cs' vs'
                     | _, _ => []
                     end) cs vs.
Proof.
  revert vs; induction cs as [|c cs IH]; intros vs; [reflexivity|].
  destruct c, vs; cbn [expected]; try reflexivity; rewrite IH; try reflexivity.
  destruct (ver_le since cur); reflexivity.
Qed.

(* the high-level reader: whatever configuration, whatever reader version - what it accepts is the record *)
Theorem vs_accepted_is_record_proof :
  forall cfg min_sup cs vs cur rcur rest r, narrow cur -> wt_comps cs vs ->
    vs_deser cfg min_sup rcur cs (enc_versioned cur cs vs ++ rest) = Some r ->
    r = expected cur cur cs vs.
Proof.
  intros cfg min_sup cs vs cur rcur rest r Hn H. unfold vs_deser, enc_versioned.
  destruct (header_law cur (enc_comps cur cs vs ++ rest) Hn) as [Hh Hu].
  rewrite <- app_assoc. rewrite Hh, Hu.
  change (N.to_nat 4) with 4%nat.
  replace (skipn 4 (enc_le 4 (ver_pack cur) ++ enc_comps cur cs vs ++ rest)) with (enc_comps cur cs vs ++ rest)
    by reflexivity.
  rewrite record_fields_law_proof by exact H.
  destruct (strict cfg && negb (supports_version min_sup rcur cur)); [discriminate|].
  destruct (skew cfg <? abs_diff (v_minor cur) (v_minor rcur)); [discriminate|].
  destruct (negb (ver_eqb cur rcur) && migr cfg); [discriminate|].
  intros E. injection E as <-. reflexivity.
Qed.

Lemma ver_le_refl v : ver_le v v = true.
Proof.
  destruct v as [[a b] c]. unfold ver_le. rewrite !N.eqb_refl, N.leb_refl.
  cbn [andb]. rewrite !orb_true_r. reflexivity.
Qed.

(* ... and it accepts its own version under every configuration (min_supported <= cur) *)
Theorem vs_same_version_accepts_proof :
  forall cfg min_sup cs vs cur rest, narrow cur -> wt_comps cs vs -> ver_le min_sup cur = true ->
    vs_deser cfg min_sup cur cs (enc_versioned cur cs vs ++ rest) = Some (expected cur cur cs vs).
Proof.
  intros cfg min_sup cs vs cur rest Hn H Hmin. unfold vs_deser, enc_versioned.
  destruct (header_law cur (enc_comps cur cs vs ++ rest) Hn) as [Hh Hu].
  rewrite <- app_assoc. rewrite Hh, Hu.
  change (N.to_nat 4) with 4%nat.
  replace (skipn 4 (enc_le 4 (ver_pack cur) ++ enc_comps cur cs vs ++ rest)) with (enc_comps cur cs vs ++ rest)
    by reflexivity.
  rewrite record_fields_law_proof by exact H.
  unfold supports_version, compatible, ver_eqb, abs_diff.
  rewrite Hmin, N.eqb_refl, ver_le_refl, N.ltb_irrefl, N.sub_diag.
  cbn [andb negb]. rewrite andb_false_r.
  replace (skew cfg <? 0) with false by (symmetry; apply N.ltb_ge; lia).
  reflexivity.
Qed.

(* ---- inhabited: the harness's record (u32 id, name since 1.1.0, score since 1.2.5) at 1.2.4, read by 2.0.0 ---- *)
Definition ex_schema : list comp := [CPlain (TInt 4); CField (1, 1, 0) TStr; CField (1, 2, 5) (TInt 8)].
Definition ex_rec : list val := [VN 7; VS [110; 97]; VN 99].
Example versioned_record_inhabited :
  narrow (1, 2, 4) /\ wt_comps ex_schema ex_rec /\
  dec_versioned (2, 0, 0) ex_schema (enc_versioned (1, 2, 4) ex_schema ex_rec ++ [5])
  = Some ([Some (VN 7); Some (VS [110; 97]); None], 13) /\
  vs_deser {| strict := true; fwd := false; skew := 1; migr := true |} (1, 0, 0) (1, 2, 0) ex_schema
           (enc_versioned (1, 2, 4) ex_schema ex_rec) = None /\
  vs_deser {| strict := true; fwd := false; skew := 1; migr := false |} (1, 0, 0) (1, 2, 0) ex_schema
           (enc_versioned (1, 2, 4) ex_schema ex_rec) = Some [Some (VN 7); Some (VS [110; 97]); None].
Proof.
  split; [cbn; lia|]. split.
  - unfold ex_schema, ex_rec. repeat constructor; cbn [wt nlen]; unfold W64; cbn; lia.
  - repeat split; vm_compute; reflexivity.
Qed.
