(* C13 model, part 3: readers as state machines over an inner byte stream.
   StreamBufferedReader (src/io/stream_buffer.rs: fill_buffer_simd, grow_buffer_and_retry,
   ensure_buffered, read_byte_fast, read_slice, read_bulk, read_buffered, BufRead, Seek),
   RangeReader (src/io/range_stream.rs: Read, Seek, DataInput::skip/read_u8/read_bytes,
   reset, seek_in_range) and ZeroCopyReader (src/io/zero_copy.rs: fill_from, compact,
   ensure_buffered, Read, peek, skip_bytes, read_optimized, zc_read/zc_advance/zc_ensure),
   as written after the fix: commits in this repository.  The inner reader is a
   std::io::Cursor over `data`, optionally handing out at most `chunk` bytes per call.
   Definitions only. *)
From ZV.Common Require Import Base Run.
Open Scope N_scope.

Inductive obs : Type :=
| OBytes (l : list N) | OPeek (l : list N) | ONothing | OAvail (n : N)
| OSkipped | OPos (n : N) | OErr.

Definition obs_z (o : obs) : list Z :=
  match o with
  | OBytes l | OPeek l => Z.of_N (nlen l) :: map Z.of_N l
  | ONothing => [(-1)%Z]
  | OAvail n | OPos n => [Z.of_N n]
  | OSkipped => [(-2)%Z]
  | OErr => [(-3)%Z]
  end.
(* the bytes an operation hands to the caller and removes from the stream *)
Definition obs_consumed (o : obs) : list N :=
  match o with OBytes l => l | _ => [] end.

Definition take {A} (k : N) (l : list A) : list A := firstn (N.to_nat k) l.
Definition drop {A} (k : N) (l : list A) : list A := skipn (N.to_nat k) l.

Section Inner.
  Variable data : list N.
  Variable chunk : N.   (* 0: no limit per call *)

  Definition inner_rest (ipos : N) : list N := drop (N.min ipos (nlen data)) data.
  (* Cursor::read (through the short-read wrapper): at most k bytes, fewer only at the end / by the wrapper *)
  Definition inner_read (ipos k : N) : list N * N :=
    let k' := if chunk =? 0 then k else N.min k chunk in
    let rest := inner_rest ipos in
    let bs := take (N.min k' (nlen rest)) rest in
    (bs, ipos + nlen bs).

  (* std's default read_exact over a `read` function: None = UnexpectedEof / error *)
  Section Exact.
    Context {St : Type}.
    Variable rd : N -> St -> option (list N) * St.
    Fixpoint read_exact_go (fuel : nat) (n : N) (st : St) (acc : list N) : option (list N) * St :=
      match fuel with
      | O => (if n =? 0 then Some acc else None, st)
      | S f =>
          if n =? 0 then (Some acc, st) else
          match rd n st with
          | (None, st') => (None, st')
          | (Some bs, st') =>
              if nlen bs =? 0 then (None, st')
              else read_exact_go f (n - nlen bs) st' (acc ++ bs)
          end
      end.
    Definition read_exact (n : N) (st : St) : option (list N) * St :=
      read_exact_go (S (N.to_nat n)) n st [].
  End Exact.

  (* ================= StreamBufferedReader ================= *)
  Record sbr : Type := { s_ipos : N; s_cap : N; s_pos : N; s_buf : list N }.
  Variable c_max : N.
  Variable c_ra : bool.
  Variable c_mult : N.
  Variable c_bulk : N.
  Variable c_g15 : bool.

  Definition sbr_init (cap : N) : sbr := {| s_ipos := 0; s_cap := cap; s_pos := 0; s_buf := [] |}.
  Definition sbr_take (k : N) (st : sbr) : list N * sbr :=
    (take k (s_buf st),
     {| s_ipos := s_ipos st; s_cap := s_cap st; s_pos := s_pos st + k; s_buf := drop k (s_buf st) |}).

  (* one attempt of fill_buffer_simd after the compaction: None = no room, the buffer must grow *)
  Definition sbr_fill_once (mn : N) (st : sbr) : option sbr :=
    let space := s_cap st - nlen (s_buf st) in
    let rs := if c_ra then N.min (N.max mn (mn * c_mult)) space else N.min mn space in
    if rs =? 0 then None else
    let '(bs, ip) := inner_read (s_ipos st) rs in
    Some {| s_ipos := ip; s_cap := s_cap st; s_pos := 0; s_buf := s_buf st ++ bs |}.
  Definition sbr_grow (mn : N) (st : sbr) : option sbr :=
    let cap := s_cap st in
    let g := if c_g15 then (cap * 3) / 2 else cap * 2 in
    let nc := N.min (N.max g (cap + mn)) c_max in
    if nc <=? cap then None
    else Some {| s_ipos := s_ipos st; s_cap := nc; s_pos := 0; s_buf := s_buf st |}.
  Fixpoint sbr_fill (fuel : nat) (mn : N) (st : sbr) : bool * sbr :=
    let st0 := {| s_ipos := s_ipos st; s_cap := s_cap st; s_pos := 0; s_buf := s_buf st |} in
    match fuel with
    | O => (false, st0)
    | S f =>
        match sbr_fill_once mn st0 with
        | Some st' => (true, st')
        | None =>
            match sbr_grow mn st0 with
            | None => (false, st0)
            | Some st1 => sbr_fill f mn st1
            end
        end
    end.
  Definition sbr_ensure (n : N) (st : sbr) : option N * sbr :=
    if n <=? nlen (s_buf st) then (Some (nlen (s_buf st)), st)
    else let '(ok, st') := sbr_fill 3 n st in
         (if ok then Some (nlen (s_buf st')) else None, st').

  Fixpoint sbr_read_buffered (fuel : nat) (n : N) (st : sbr) (acc : list N) : option (list N) * sbr :=
    match fuel with
    | O => (Some acc, st)
    | S f =>
        if n =? 0 then (Some acc, st) else
        let '(av, st1) := if 0 <? nlen (s_buf st) then (Some (nlen (s_buf st)), st) else sbr_ensure n st in
        match av with
        | None => (None, st1)
        | Some a =>
            if a =? 0 then (Some acc, st1) else
            let k := N.min a n in
            let '(bs, st2) := sbr_take k st1 in
            sbr_read_buffered f (n - k) st2 (acc ++ bs)
        end
    end.
  Definition sbr_buffered (n : N) (st : sbr) := sbr_read_buffered (S (N.to_nat n)) n st [].

  Definition sbr_direct (n : N) (st : sbr) (acc : list N) : option (list N) * sbr :=
    let '(bs, ip) := inner_read (s_ipos st) n in
    (Some (acc ++ bs), {| s_ipos := ip; s_cap := s_cap st; s_pos := s_pos st; s_buf := s_buf st |}).
  Definition sbr_read (n : N) (st : sbr) : option (list N) * sbr :=
    if c_bulk <=? n then
      let b := nlen (s_buf st) in
      if 0 <? b then
        let k := N.min b n in
        let '(bs, st1) := sbr_take k st in
        if k =? n then (Some bs, st1) else sbr_direct (n - k) st1 bs
      else sbr_direct n st []
    else sbr_buffered n st.

  Definition opt_bytes (r : option (list N)) : obs :=
    match r with Some l => OBytes l | None => OErr end.

  Definition sbr_seek_to (target : Z) (st : sbr) : obs * sbr :=
    if (target <? 0)%Z then (OErr, st)
    else (OPos (Z.to_N target),
          {| s_ipos := Z.to_N target; s_cap := s_cap st; s_pos := 0; s_buf := [] |}).

  Definition sbr_op (code : N) (arg : Z) (st : sbr) : obs * sbr :=
    let n := Z.to_N arg in
    match code with
    | 0 | 6 => let '(r, st') := sbr_read n st in (opt_bytes r, st')
    | 1 => let '(r, st') := read_exact sbr_read n st in (opt_bytes r, st')
    | 2 => if 0 <? nlen (s_buf st) then let '(bs, st') := sbr_take 1 st in (OBytes bs, st')
           else let '(av, st1) := sbr_ensure 1 st in
                match av with
                | None => (OErr, st1)
                | Some _ => if 0 <? nlen (s_buf st1) then let '(bs, st') := sbr_take 1 st1 in (OBytes bs, st')
                            else (OErr, st1)
                end
    | 3 => let '(av, st1) := sbr_ensure n st in
           match av with
           | None => (OErr, st1)
           | Some _ => if n <=? nlen (s_buf st1) then let '(bs, st') := sbr_take n st1 in (OBytes bs, st')
                       else (ONothing, st1)
           end
    | 4 => let '(av, st1) := sbr_ensure n st in
           (match av with Some a => OAvail a | None => OErr end, st1)
    | 5 => let '(r, st') := sbr_buffered n st in (opt_bytes r, st')
    | 7 => if 0 <? nlen (s_buf st) then (OPeek (s_buf st), st)
           else let '(ok, st1) := sbr_fill 3 1 st in
                if ok then (OPeek (s_buf st1), st1) else (OErr, st1)
    | 8 => let '(ok, st1) := if 0 <? nlen (s_buf st) then (true, st) else sbr_fill 3 1 st in
           if ok then let k := N.min (nlen (s_buf st1)) n in
                      let '(bs, st') := sbr_take k st1 in (OBytes bs, st')
           else (OErr, st1)
    | 9 => sbr_seek_to arg st
    | 10 => sbr_seek_to (Z.of_N (s_ipos st) + (arg - Z.of_N (nlen (s_buf st))))%Z st
    | 11 => sbr_seek_to (Z.of_N (nlen data) + arg)%Z st
    | _ => (OErr, st)
    end.

  (* ================= RangeReader ================= *)
  Record rng : Type := { r_ipos : N; r_cur : N }.
  Variable r_start : N.
  Variable r_end : N.
  Definition sat_add (a b : N) : N := N.min (a + b) (W64 - 1).
  Definition rng_read (n : N) (st : rng) : option (list N) * rng :=
    if r_end <=? r_cur st then (Some [], st)
    else let to_read := N.min n (r_end - r_cur st) in
         let '(bs, ip) := inner_read (r_ipos st) to_read in
         (Some bs, {| r_ipos := ip; r_cur := r_cur st + nlen bs |}).
  Definition rng_remaining (st : rng) : N := r_end - r_cur st.
  Definition rng_seek_abs (p : N) (st : rng) : rng := {| r_ipos := p; r_cur := p |}.
  Definition rng_seek_clamped (target : N) (st : rng) : obs * rng :=
    let c := N.max r_start (N.min target r_end) in
    (OPos (c - r_start), rng_seek_abs c st).
  Definition signed_move (base : N) (d : Z) : N :=
    if (0 <=? d)%Z then sat_add base (Z.to_N d) else base - Z.to_N (- d).
  Definition rng_op (code : N) (arg : Z) (st : rng) : obs * rng :=
    let n := Z.to_N arg in
    match code with
    | 0 => let '(r, st') := rng_read n st in (opt_bytes r, st')
    | 1 => let '(r, st') := read_exact rng_read n st in (opt_bytes r, st')
    | 2 => if rng_remaining st <? 1 then (OErr, st)
           else let '(r, st') := read_exact rng_read 1 st in (opt_bytes r, st')
    | 3 => if rng_remaining st <? n then (OErr, st)
           else let '(r, st') := read_exact rng_read n st in (opt_bytes r, st')
    | 12 => if rng_remaining st <? n then (OErr, st)
            else let '(r, st') := read_exact rng_read n st in
                 (match r with Some _ => OSkipped | None => OErr end, st')
    | 13 => (OPos (r_cur st - r_start), st)
    | 14 => (OPos 0, rng_seek_abs r_start st)
    | 15 => let a := sat_add r_start n in
            if r_end <=? a then (OErr, st) else (OPos n, rng_seek_abs a st)
    | 9 => rng_seek_clamped (sat_add r_start n) st
    | 10 => rng_seek_clamped (signed_move (r_cur st) arg) st
    | 11 => rng_seek_clamped (signed_move r_end arg) st
    | _ => (OErr, st)
    end.

  (* ================= ZeroCopyReader ================= *)
  Record zc : Type := { z_ipos : N; z_rp : N; z_buf : list N; z_eof : bool }.
  Variable z_cap : N.
  Definition zc_take (k : N) (st : zc) : list N * zc :=
    (take k (z_buf st),
     {| z_ipos := z_ipos st; z_rp := z_rp st + k; z_buf := drop k (z_buf st); z_eof := z_eof st |}).
  (* ZeroCopyBuffer::fill_from: compact only when the write position hit the capacity *)
  Definition zc_fill_from (st : zc) : N * zc :=
    let wp := z_rp st + nlen (z_buf st) in
    let rp := if wp =? z_cap then 0 else z_rp st in
    let wp' := rp + nlen (z_buf st) in
    let writable := z_cap - wp' in
    if writable =? 0 then (0, {| z_ipos := z_ipos st; z_rp := rp; z_buf := z_buf st; z_eof := z_eof st |})
    else let '(bs, ip) := inner_read (z_ipos st) writable in
         (nlen bs, {| z_ipos := ip; z_rp := rp; z_buf := z_buf st ++ bs; z_eof := z_eof st |}).
  Definition zc_set_eof (st : zc) : zc :=
    {| z_ipos := z_ipos st; z_rp := z_rp st; z_buf := z_buf st; z_eof := true |}.
  Fixpoint zc_ensure (fuel : nat) (len : N) (st : zc) : zc :=
    match fuel with
    | O => st
    | S f =>
        if (nlen (z_buf st) <? len) && negb (z_eof st) then
          if nlen (z_buf st) =? z_cap then st
          else let '(k, st1) := zc_fill_from st in
               if k =? 0 then zc_set_eof st1 else zc_ensure f len st1
        else st
    end.
  Definition zc_ens (len : N) (st : zc) : zc := zc_ensure (S (N.to_nat (N.min len (z_cap + 1)))) len st.
  Definition zc_read (n : N) (st : zc) : option (list N) * zc :=
    if n =? 0 then (Some [], st) else
    let b := nlen (z_buf st) in
    if 0 <? b then let '(bs, st') := zc_take (N.min b n) st in (Some bs, st')
    else if z_cap / 2 <=? n then
      let '(bs, ip) := inner_read (z_ipos st) n in
      (Some bs, {| z_ipos := ip; z_rp := z_rp st; z_buf := z_buf st; z_eof := z_eof st |})
    else
      let st1 := if z_eof st then st
                 else let '(k, s1) := zc_fill_from st in if k =? 0 then zc_set_eof s1 else s1 in
      let a := nlen (z_buf st1) in
      if a =? 0 then (Some [], st1)
      else let '(bs, st') := zc_take (N.min a n) st1 in (Some bs, st').
  (* skip_bytes: the part after the buffered bytes reads the inner stream directly, 8192 at a time *)
  Fixpoint zc_skip_inner (fuel : nat) (len ipos : N) : bool * N :=
    match fuel with
    | O => (len =? 0, ipos)
    | S f =>
        if len =? 0 then (true, ipos) else
        let '(bs, ip) := inner_read ipos (N.min len 8192) in
        if nlen bs =? 0 then (false, ip) else zc_skip_inner f (len - nlen bs) ip
    end.
  Definition zc_op (code : N) (arg : Z) (st : zc) : obs * zc :=
    let n := Z.to_N arg in
    match code with
    | 0 => let '(r, st') := zc_read n st in (opt_bytes r, st')
    | 1 => let '(r, st') := read_exact zc_read n st in (opt_bytes r, st')
    | 16 => let st1 := zc_ens n st in (OPeek (take (N.min (nlen (z_buf st1)) n) (z_buf st1)), st1)
    | 4 => let st1 := zc_ens n st in (OAvail (N.min (nlen (z_buf st1)) n), st1)
    | 3 => let st1 := zc_ens n st in
           if n <=? nlen (z_buf st1) then let '(bs, st') := zc_take n st1 in (OBytes bs, st')
           else (ONothing, st1)
    | 17 => let st1 := zc_ens n st in
            if n <=? nlen (z_buf st1) then let '(bs, st') := zc_take n st1 in (OBytes bs, st')
            else let '(r, st') := zc_read n st1 in (opt_bytes r, st')
    | 12 => let b := N.min (nlen (z_buf st)) n in
            let '(_, st1) := zc_take b st in
            let '(ok, ip) := zc_skip_inner (S (N.to_nat (n - b))) (n - b) (z_ipos st1) in
            (if ok then OSkipped else OErr,
             {| z_ipos := ip; z_rp := z_rp st1; z_buf := z_buf st1; z_eof := z_eof st1 |})
    | _ => (OErr, st)
    end.
End Inner.

(* ---------- histories ---------- *)
Section Run.
  Context {St : Type}.
  Variable step : N -> Z -> St -> obs * St.
  Fixpoint run_ops (ops : list (N * Z)) (st : St) : list obs * St :=
    match ops with
    | [] => ([], st)
    | (c, a) :: t =>
        let '(o, st1) := step c a st in
        let '(os, st2) := run_ops t st1 in
        (o :: os, st2)
    end.
End Run.

Fixpoint pairs (l : list Z) : list (N * Z) :=
  match l with
  | c :: a :: t => (Z.to_N c, a) :: pairs t
  | _ => []
  end.

(* correspondence entry: kind 0 = StreamBufferedReader, 1 = RangeReader (new_and_seek / new after positioning),
   2 = ZeroCopyReader.  ints = cap max readahead mult bulk growth15 start len, then (code, arg) pairs *)
Definition run_reader (kind chunk : N) (ints : list Z) (data : list N) : option (list Z) :=
  match ints with
  | cap :: mx :: ra :: mult :: bulk :: g15 :: start :: len :: ops =>
      let n := Z.to_N in
      let os :=
        match kind with
        | 0 => fst (run_ops (sbr_op data chunk (n mx) (Z.eqb ra 1) (n mult) (n bulk) (Z.eqb g15 1))
                            (pairs ops) (sbr_init (n cap)))
        | 1 => fst (run_ops (rng_op data chunk (n start) (sat_add (n start) (n len)))
                            (pairs ops) {| r_ipos := n start; r_cur := n start |})
        | _ => fst (run_ops (zc_op data chunk (n cap))
                            (pairs ops) {| z_ipos := 0; z_rp := 0; z_buf := []; z_eof := false |})
        end in
      Some (flat_map obs_z os)
  | _ => None
  end.
