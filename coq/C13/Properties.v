(* C13 property theorems.  Nothing but statements closed by `exact`, a pin, and
   Print Assumptions.  The driver parses this file's output. *)
From ZV.Common Require Import Base.
From ZV.C13 Require Import Model ModelIO ModelReader ModelTypes ModelVersioned ModelWriter ModelRangeWriter ModelMmapZc ModelRun ProofsLeb ProofsZigzag ProofsSeq ProofsIO ProofsReader ProofsTypes ProofsVersioned ProofsWriter ProofsStack ProofsRangeWriter ProofsMmapZc.
Open Scope N_scope.

(* decode (encode v ++ rest) = (v, |encode v|): for every u64 and every trailing bytes *)
Theorem leb128_u64_law :
  forall v rest, in_u64 v -> dec_u (enc_u v ++ rest) = Some (v, nlen (enc_u v)).
Proof. exact leb128_u64_law_proof. Qed.
Print Assumptions leb128_u64_law.

Theorem zigzag_roundtrip : forall v, in_i64 v -> zz_dec (zz_enc v) = v.
Proof. exact zigzag_roundtrip_proof. Qed.
Print Assumptions zigzag_roundtrip.

Theorem zigzag_surjective :
  forall e, e < W64 -> in_i64 (zz_dec e) /\ zz_enc (zz_dec e) = e.
Proof. exact zigzag_surjective_proof. Qed.
Print Assumptions zigzag_surjective.

Theorem zigzag_varint_law :
  forall v rest, in_i64 v -> dec_zz (enc_zz v ++ rest) = Some (v, nlen (enc_zz v)).
Proof. exact zigzag_varint_law_proof. Qed.
Print Assumptions zigzag_varint_law.

Theorem prefix_free_law :
  forall v rest, in_u64 v -> dec_pf (enc_pf v ++ rest) = Some (v, nlen (enc_pf v)).
Proof. exact prefix_free_law_proof. Qed.
Print Assumptions prefix_free_law.

Theorem prefix_free_signed_law :
  forall v rest, in_i64 v -> dec_pf_s (enc_pf_s v ++ rest) = Some (v, nlen (enc_pf_s v)).
Proof. exact prefix_free_signed_law_proof. Qed.
Print Assumptions prefix_free_signed_law.

(* combinator: any element codec obeying the law yields a sequence codec obeying it *)
Theorem seq_law :
  forall (A : Type) (P : A -> Prop) (enc : A -> list N) (dec : list N -> option (A * N)),
    codec_law P enc dec ->
    forall xs rest, Forall P xs -> nlen xs < W64 ->
      dec_seq dec (enc_seq enc xs ++ rest) = Some xs.
Proof. exact (@seq_law_proof). Qed.
Print Assumptions seq_law.

(* delta/u64 holds outside the recorded finding class ... *)
Theorem delta_u64_law :
  forall xs rest, Forall in_u64 xs -> nlen xs < W64 -> known_delta_u xs = false ->
    dec_delta_u (enc_delta_u xs ++ rest) = Some xs.
Proof. exact delta_u64_law_proof. Qed.
Print Assumptions delta_u64_law.

(* ... and fails inside it (finding C13/delta_u64_big_difference) *)
Theorem delta_u64_refuted :
  exists xs, Forall in_u64 xs /\ known_delta_u xs = true /\ dec_delta_u (enc_delta_u xs) <> Some xs.
Proof. exact delta_u64_refuted_proof. Qed.
Print Assumptions delta_u64_refuted.

Theorem group_varint_refuted :
  exists xs, Forall in_u64 xs /\ known_gv xs = true /\ dec_gv (enc_gv xs) <> Some xs.
Proof. exact group_varint_refuted_proof. Qed.
Print Assumptions group_varint_refuted.

(* ---------- fixed-width integers of any width, both byte orders ---------- *)
Theorem fixed_le_law :
  forall (w : nat) v rest, v < 256 ^ N.of_nat w ->
    dec_le w (enc_le w v ++ rest) = Some (v, nlen (enc_le w v)).
Proof. exact fixed_le_law_proof. Qed.
Print Assumptions fixed_le_law.

Theorem fixed_be_law :
  forall (w : nat) v rest, v < 256 ^ N.of_nat w ->
    dec_be w (enc_be w v ++ rest) = Some (v, nlen (enc_be w v)).
Proof. exact fixed_be_law_proof. Qed.
Print Assumptions fixed_be_law.

(* byte swap (to_be / from_be on a little-endian host) is an involution, and the big-endian
   encoding is the little-endian encoding of the swapped value *)
Theorem swap_involutive :
  forall (w : nat) v, v < 256 ^ N.of_nat w -> swap_bytes w (swap_bytes w v) = v.
Proof. exact swap_involutive_proof. Qed.
Print Assumptions swap_involutive.

Theorem be_is_le_of_swap : forall (w : nat) v, enc_be w v = enc_le w (swap_bytes w v).
Proof. exact be_is_le_of_swap_proof. Qed.
Print Assumptions be_is_le_of_swap.

(* length-prefixed byte strings / strings *)
Theorem blob_law :
  forall b rest, nlen b < W64 -> dec_blob (enc_blob b ++ rest) = Some (b, nlen (enc_blob b)).
Proof. exact blob_law_proof. Qed.
Print Assumptions blob_law.

(* combinators: any element codec obeying the law yields option / pair / u32-counted vector codecs obeying it *)
Theorem option_law :
  forall (A : Type) (P : A -> Prop) (enc : A -> list N) (dec : list N -> option (A * N)),
    codec_law P enc dec -> codec_law (opt_P P) (enc_opt enc) (dec_opt dec).
Proof. exact (@option_law_proof). Qed.
Print Assumptions option_law.

Theorem pair_law :
  forall (A B : Type) (PA : A -> Prop) (ea : A -> list N) (da : list N -> option (A * N))
         (PB : B -> Prop) (eb : B -> list N) (db : list N -> option (B * N)),
    codec_law PA ea da -> codec_law PB eb db ->
    codec_law (fun p => PA (fst p) /\ PB (snd p)) (enc_pair ea eb) (dec_pair da db).
Proof. exact (@pair_law_proof). Qed.
Print Assumptions pair_law.

Theorem vec32_law :
  forall (A : Type) (P : A -> Prop) (enc : A -> list N) (dec : list N -> option (A * N)),
    codec_law P enc dec ->
    codec_law (fun xs => Forall P xs /\ nlen xs < W32) (enc_vec32 enc) (dec_vec32 dec).
Proof. exact (@vec32_law_proof). Qed.
Print Assumptions vec32_law.

(* versioned field: present exactly when the writing version is at least the field's `since`;
   exactly its own bytes are consumed either way *)
Theorem versioned_field_law :
  forall (A : Type) (P : A -> Prop) (enc : A -> list N) (dec : list N -> option (A * N)),
    codec_law P enc dec ->
    forall (since cur : version) v rest, P v ->
      dec_field dec (ver_le since cur) (enc_field enc (ver_le since cur) v ++ rest)
      = Some (if ver_le since cur then Some v else None, nlen (enc_field enc (ver_le since cur) v)).
Proof. exact versioned_field_law_proof. Qed.
Print Assumptions versioned_field_law.

(* Version's packed form: exact for 8-bit major/minor, lossy beyond (finding version_component_over_255) *)
Theorem version_pack_law :
  forall a b c, a < 256 -> b < 256 -> c < 65536 -> ver_unpack (ver_pack (a, b, c)) = (a, b, c).
Proof. exact version_pack_law_proof. Qed.
Print Assumptions version_pack_law.

Theorem version_pack_refuted :
  exists v, known_version_wide v = true /\ ver_unpack (ver_pack v) <> v.
Proof. exact version_pack_refuted_proof. Qed.
Print Assumptions version_pack_refuted.

(* ---------- readers ---------- *)
(* StreamBufferedReader: for every inner stream, every short-read limit of the inner reader, every
   configuration (capacity, maximum, read-ahead, multiplier, bulk threshold, growth) and every history of
   read / read_exact / read_byte / read_slice / ensure_buffered / read_simd / read_bulk / fill_buf / consume
   operations of any sizes, the bytes handed out, concatenated, followed by what the reader still holds,
   are the inner stream: nothing lost, duplicated or reordered across refills and buffer growth *)
Theorem sbr_reads_concat :
  forall (data : list N) (chunk c_max : N) (c_ra : bool) (c_mult c_bulk : N) (c_g15 : bool)
         (ops : list (N * Z)) (st : sbr) (os : list obs) (st' : sbr),
    forallb (fun p => sbr_streaming (fst p)) ops = true ->
    run_ops (sbr_op data chunk c_max c_ra c_mult c_bulk c_g15) ops st = (os, st') ->
    ~ In OErr os ->
    sbr_stream data st = flat_map obs_consumed os ++ sbr_stream data st'.
Proof. exact sbr_reads_concat_proof. Qed.
Print Assumptions sbr_reads_concat.

Theorem sbr_initial_stream : forall data cap, sbr_stream data (sbr_init cap) = data.
Proof. exact sbr_initial. Qed.
Print Assumptions sbr_initial_stream.

(* a relative seek lands at (logical position + offset), the logical position being the inner
   position minus the bytes still buffered *)
Theorem sbr_seek_current :
  forall (data : list N) (chunk c_max : N) (c_ra : bool) (c_mult c_bulk : N) (c_g15 : bool) a st p st',
    sbr_op data chunk c_max c_ra c_mult c_bulk c_g15 10 a st = (OPos p, st') ->
    Z.of_N p = (Z.of_N (s_ipos st) - Z.of_N (nlen (s_buf st)) + a)%Z /\
    sbr_stream data st' = inner_rest data p.
Proof. exact sbr_seek_cur_ok. Qed.
Print Assumptions sbr_seek_current.

(* RangeReader: for every history of read / read_exact / read_u8 / read_vec / skip / position operations
   the chunks returned (and the chunks skipped, of the requested length) concatenate to the inner bytes of
   the range, in order, followed by the part of the range not yet delivered *)
Theorem range_reads_concat :
  forall (data : list N) (chunk r_start r_end : N)
         (ops : list (N * Z)) (st : rng) (os : list obs) (st' : rng),
    rng_inv st -> forallb (fun p => rng_streaming (fst p)) ops = true ->
    run_ops (rng_op data chunk r_start r_end) ops st = (os, st') -> ~ In OErr os ->
    exists chs, explains ops os chs /\
                rng_stream data r_end st = concat chs ++ rng_stream data r_end st'.
Proof. exact range_reads_concat_proof. Qed.
Print Assumptions range_reads_concat.

Theorem range_initial_stream :
  forall (data : list N) (r_start r_end : N),
    rng_stream data r_end {| r_ipos := r_start; r_cur := r_start |}
    = take (r_end - r_start) (drop (N.min r_start (nlen data)) data).
Proof. exact rng_initial. Qed.
Print Assumptions range_initial_stream.

(* ZeroCopyReader: for every history of read / read_exact / peek / zc_ensure / zc_read+advance /
   read_optimized / skip_bytes operations without an error outcome, every capacity and every short-read
   behaviour of the inner reader, the chunks returned (and skipped) concatenate to the inner stream *)
Theorem zc_reads_concat :
  forall (data : list N) (chunk z_cap : N)
         (ops : list (N * Z)) (st : zc) (os : list obs) (st' : zc),
    forallb (fun p => zc_streaming (fst p)) ops = true ->
    run_ops (zc_op data chunk z_cap) ops st = (os, st') -> ~ In OErr os ->
    exists chs, explains ops os chs /\
                zc_stream data st = concat chs ++ zc_stream data st'.
Proof. exact zc_reads_concat_proof. Qed.
Print Assumptions zc_reads_concat.

(* the serialisable types as one universe of type codes (fixed-width integers, bool, varint, strings, unit,
   Option, Box, Rc/Arc, Vec / sets / maps, arrays, tuples, Result, metadata wrapper, arbitrarily nested):
   every value of every type decodes to itself from its encoding followed by any bytes, consuming exactly
   the encoding - proved once, by induction on the type code *)
Theorem types_law :
  forall t v rest, wt t v -> dec t (enc t v ++ rest) = Some (v, nlen (enc t v)).
Proof. exact types_law_proof. Qed.
Check types_law :
  forall t v rest, wt t v -> dec t (enc t v ++ rest) = Some (v, nlen (enc t v)).
Print Assumptions types_law.

(* consecutive encodings concatenate and read back in order *)
Theorem types_concat_law :
  forall t vs rest, Forall (wt t) vs ->
    dec_many (dec t) (length vs) (flat_map (enc t) vs ++ rest) = Some (vs, nlen (flat_map (enc t) vs)).
Proof. exact types_concat_law_proof. Qed.
Check types_concat_law :
  forall t vs rest, Forall (wt t) vs ->
    dec_many (dec t) (length vs) (flat_map (enc t) vs ++ rest) = Some (vs, nlen (flat_map (enc t) vs)).
Print Assumptions types_concat_law.

(* versioned records, components only: for EVERY schema (plain and versioned fields of any types), every
   version `cur` of the writing manager and every reading version `rv`: plain fields come back, a versioned
   field comes back iff both versions are >= its `since` (otherwise it is skipped / absent), and exactly the
   record's bytes are consumed *)
Theorem record_fields_law :
  forall cs vs cur rv rest, wt_comps cs vs ->
    dec_comps rv cs (enc_comps cur cs vs ++ rest)
    = Some (expected cur rv cs vs, nlen (enc_comps cur cs vs)).
Proof. exact record_fields_law_proof. Qed.
Check record_fields_law :
  forall cs vs cur rv rest, wt_comps cs vs ->
    dec_comps rv cs (enc_comps cur cs vs ++ rest)
    = Some (expected cur rv cs vs, nlen (enc_comps cur cs vs)).
Print Assumptions record_fields_law.

(* serialize_versioned by a type at version `cur` (8-bit major / minor), deserialize_versioned by a type at
   ANY version `rcur`: the record as the writer's version defines it, and exactly its bytes *)
Theorem versioned_record_law :
  forall cs vs cur rcur rest, narrow cur -> wt_comps cs vs ->
    dec_versioned rcur cs (enc_versioned cur cs vs ++ rest)
    = Some (expected cur cur cs vs, nlen (enc_versioned cur cs vs)).
Proof. exact versioned_record_law_proof. Qed.
Check versioned_record_law :
  forall cs vs cur rcur rest, narrow cur -> wt_comps cs vs ->
    dec_versioned rcur cs (enc_versioned cur cs vs ++ rest)
    = Some (expected cur cur cs vs, nlen (enc_versioned cur cs vs)).
Print Assumptions versioned_record_law.

(* VersionedSerializer::deserialize_from_bytes, every configuration, every (writer version, reader version):
   whatever it accepts is the record ... *)
Theorem vs_accepted_is_record :
  forall cfg min_sup cs vs cur rcur rest r, narrow cur -> wt_comps cs vs ->
    vs_deser cfg min_sup rcur cs (enc_versioned cur cs vs ++ rest) = Some r ->
    r = expected cur cur cs vs.
Proof. exact vs_accepted_is_record_proof. Qed.
Check vs_accepted_is_record :
  forall cfg min_sup cs vs cur rcur rest r, narrow cur -> wt_comps cs vs ->
    vs_deser cfg min_sup rcur cs (enc_versioned cur cs vs ++ rest) = Some r ->
    r = expected cur cur cs vs.
Print Assumptions vs_accepted_is_record.

(* ... and its own version is accepted under every configuration *)
Theorem vs_same_version_accepts :
  forall cfg min_sup cs vs cur rest, narrow cur -> wt_comps cs vs -> ver_le min_sup cur = true ->
    vs_deser cfg min_sup cur cs (enc_versioned cur cs vs ++ rest) = Some (expected cur cur cs vs).
Proof. exact vs_same_version_accepts_proof. Qed.
Check vs_same_version_accepts :
  forall cfg min_sup cs vs cur rest, narrow cur -> wt_comps cs vs -> ver_le min_sup cur = true ->
    vs_deser cfg min_sup cur cs (enc_versioned cur cs vs ++ rest) = Some (expected cur cur cs vs).
Print Assumptions vs_same_version_accepts.

(* StreamBufferedWriter (zc = false) and ZeroCopyWriter (zc = true): for every buffer capacity >= 1, every bulk
   threshold, every inner writer that takes at most `chunk` bytes per call, and EVERY history of write /
   write_all / flush / write_byte_fast / direct writes after a flush / zc_write+commit / zc_ensure_write that
   does not end in an error: what reached the destination followed by what is still buffered is what was there
   before followed by exactly the bytes each operation reported as accepted, in order *)
Theorem writers_concat :
  forall chunk cap bulk zc, 0 < cap ->
  forall ops st outs st',
    w_run chunk cap bulk zc ops st = Some (outs, st') ->
    w_stream st' = w_stream st ++ w_all_accepted ops outs.
Proof. exact writers_concat_proof. Qed.
Check writers_concat :
  forall chunk cap bulk zc, 0 < cap ->
  forall ops st outs st',
    w_run chunk cap bulk zc ops st = Some (outs, st') ->
    w_stream st' = w_stream st ++ w_all_accepted ops outs.
Print Assumptions writers_concat.

(* ... so after a flush / into_inner the destination holds exactly the accepted bytes *)
Theorem writers_flushed :
  forall chunk cap bulk zc, 0 < cap ->
  forall ops outs st',
    w_run chunk cap bulk zc ops {| w_dest := []; w_buf := [] |} = Some (outs, st') ->
    w_dest (w_flush st') = w_all_accepted ops outs.
Proof. exact writers_flushed_proof. Qed.
Check writers_flushed :
  forall chunk cap bulk zc, 0 < cap ->
  forall ops outs st',
    w_run chunk cap bulk zc ops {| w_dest := []; w_buf := [] |} = Some (outs, st') ->
    w_dest (w_flush st') = w_all_accepted ops outs.
Print Assumptions writers_flushed.

(* readers stacked on readers: a RangeReader over a cursor, positioned `off` bytes into its range, answers every
   `read(n)` exactly like a cursor over the range's bytes (`range_slice`) at offset `off`: same bytes, same new
   offset - for every data, range (also one reaching beyond the data), request size and offset.  A reader
   stacked on it (StreamBufferedReader<RangeReader<Cursor>>) is that reader's model over the slice *)
Theorem range_read_is_cursor_read :
  forall data r_start r_end n off,
    rng_read data 0 r_end n {| r_ipos := r_start + off; r_cur := r_start + off |}
    = (Some (fst (inner_read (range_slice data r_start r_end) 0 off n)),
       {| r_ipos := r_start + snd (inner_read (range_slice data r_start r_end) 0 off n);
          r_cur := r_start + snd (inner_read (range_slice data r_start r_end) 0 off n) |}).
Proof. exact range_read_is_cursor_read_proof. Qed.
Check range_read_is_cursor_read :
  forall data r_start r_end n off,
    rng_read data 0 r_end n {| r_ipos := r_start + off; r_cur := r_start + off |}
    = (Some (fst (inner_read (range_slice data r_start r_end) 0 off n)),
       {| r_ipos := r_start + snd (inner_read (range_slice data r_start r_end) 0 off n);
          r_cur := r_start + snd (inner_read (range_slice data r_start r_end) 0 off n) |}).
Print Assumptions range_read_is_cursor_read.

(* ... whose stream is the range's bytes *)
Theorem sbr_over_range_stream :
  forall data r_start r_end cap,
    sbr_stream (range_slice data r_start r_end) (sbr_init cap)
    = take (r_end - r_start) (drop (N.min r_start (nlen data)) data).
Proof. exact sbr_over_range_stream_proof. Qed.
Check sbr_over_range_stream :
  forall data r_start r_end cap,
    sbr_stream (range_slice data r_start r_end) (sbr_init cap)
    = take (r_end - r_start) (drop (N.min r_start (nlen data)) data).
Print Assumptions sbr_over_range_stream.

(* RangeWriter: for every range, every state inside it and EVERY history of writes, flushes and seeks
   (Start / Current / End, any offsets): every write it issues to the inner writer lies inside [start, end),
   and it stays inside its range with the inner position = its own position *)
Theorem range_writer_confined :
  forall r_start r_end, r_start <= r_end ->
  forall ops st outs st' ws, rw_inv r_start r_end st ->
    rw_run r_start r_end ops st = (outs, st', ws) ->
    rw_inv r_start r_end st' /\ Forall (inside r_start r_end) ws.
Proof. exact range_writer_confined_proof. Qed.
Check range_writer_confined :
  forall r_start r_end, r_start <= r_end ->
  forall ops st outs st' ws, rw_inv r_start r_end st ->
    rw_run r_start r_end ops st = (outs, st', ws) ->
    rw_inv r_start r_end st' /\ Forall (inside r_start r_end) ws.
Print Assumptions range_writer_confined.

(* without seeks the inner writes follow one another from the current position, carry exactly the bytes reported
   as accepted, and the position advances by their number *)
Theorem range_writer_contiguous :
  forall r_start r_end ops st outs st' ws,
    forallb is_write ops = true -> x_ipos st = x_cur st ->
    rw_run r_start r_end ops st = (outs, st', ws) ->
    contiguous (x_cur st) ws /\ concat (map snd ws) = rw_accepted ops outs /\
    x_cur st' = x_cur st + nlen (rw_accepted ops outs) /\ x_ipos st' = x_cur st'.
Proof. exact range_writer_contiguous_proof. Qed.
Check range_writer_contiguous :
  forall r_start r_end ops st outs st' ws,
    forallb is_write ops = true -> x_ipos st = x_cur st ->
    rw_run r_start r_end ops st = (outs, st', ws) ->
    contiguous (x_cur st) ws /\ concat (map snd ws) = rw_accepted ops outs /\
    x_cur st' = x_cur st + nlen (rw_accepted ops outs) /\ x_ipos st' = x_cur st'.
Print Assumptions range_writer_contiguous.

(* MmapZeroCopyReader: for every mapped content, every position inside it and every history of read / read_exact /
   zc_read (peek) / zc_read+zc_advance / zc_advance / zc_ensure / position operations without an error outcome: the
   chunks returned (and skipped) concatenate to the mapped bytes from the starting position, followed by what is
   still ahead *)
Theorem mmap_zc_reads_concat :
  forall (data : list N) (ops : list (N * Z)) (pos : N) (os : list obs) (pos' : N),
    pos <= nlen data -> forallb (fun p => mz_streaming (fst p)) ops = true ->
    run_ops (mz_op data) ops pos = (os, pos') -> ~ In OErr os ->
    exists chs, explains ops os chs /\ mz_stream data pos = concat chs ++ mz_stream data pos'.
Proof. exact mz_reads_concat_proof. Qed.
Check mmap_zc_reads_concat :
  forall (data : list N) (ops : list (N * Z)) (pos : N) (os : list obs) (pos' : N),
    pos <= nlen data -> forallb (fun p => mz_streaming (fst p)) ops = true ->
    run_ops (mz_op data) ops pos = (os, pos') -> ~ In OErr os ->
    exists chs, explains ops os chs /\ mz_stream data pos = concat chs ++ mz_stream data pos'.
Print Assumptions mmap_zc_reads_concat.

(* set_position(p) is accepted only inside the mapping and the stream continues at p *)
Theorem mmap_zc_set_position :
  forall (data : list N) a pos p pos',
    mz_op data 9 a pos = (OPos p, pos') -> pos' = p /\ p <= nlen data /\ mz_stream data pos' = drop p data.
Proof. exact mz_seek_ok. Qed.
Check mmap_zc_set_position :
  forall (data : list N) a pos p pos',
    mz_op data 9 a pos = (OPos p, pos') -> pos' = p /\ p <= nlen data /\ mz_stream data pos' = drop p data.
Print Assumptions mmap_zc_set_position.
