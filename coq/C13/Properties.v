(* C13 property theorems.  Nothing but statements closed by `exact`, a pin, and
   Print Assumptions.  The driver parses this file's output. *)
From ZV.Common Require Import Base.
From ZV.C13 Require Import Model ModelIO ModelReader ModelRun ProofsLeb ProofsZigzag ProofsSeq ProofsIO.
Open Scope N_scope.

(* decode (encode v ++ rest) = (v, |encode v|): for every u64 and every trailing bytes *)
Theorem leb128_u64_law :
  forall v rest, in_u64 v -> dec_u (enc_u v ++ rest) = Some (v, nlen (enc_u v)).
Proof. exact leb128_u64_law_proof. Qed.
Print Assumptions leb128_u64_law.

Theorem zigzag_roundtrip : forall v, in_i64 v -> zz_dec (zz_enc v) = v.
Proof. exact zigzag_roundtrip_proof. Qed.
Print Assumptions zigzag_roundtrip.

Theorem zigzag_surjective :
  forall e, e < W64 -> in_i64 (zz_dec e) /\ zz_enc (zz_dec e) = e.
Proof. exact zigzag_surjective_proof. Qed.
Print Assumptions zigzag_surjective.

Theorem zigzag_varint_law :
  forall v rest, in_i64 v -> dec_zz (enc_zz v ++ rest) = Some (v, nlen (enc_zz v)).
Proof. exact zigzag_varint_law_proof. Qed.
Print Assumptions zigzag_varint_law.

Theorem prefix_free_law :
  forall v rest, in_u64 v -> dec_pf (enc_pf v ++ rest) = Some (v, nlen (enc_pf v)).
Proof. exact prefix_free_law_proof. Qed.
Print Assumptions prefix_free_law.

Theorem prefix_free_signed_law :
  forall v rest, in_i64 v -> dec_pf_s (enc_pf_s v ++ rest) = Some (v, nlen (enc_pf_s v)).
Proof. exact prefix_free_signed_law_proof. Qed.
Print Assumptions prefix_free_signed_law.

(* combinator: any element codec obeying the law yields a sequence codec obeying it *)
Theorem seq_law :
  forall (A : Type) (P : A -> Prop) (enc : A -> list N) (dec : list N -> option (A * N)),
    codec_law P enc dec ->
    forall xs rest, Forall P xs -> nlen xs < W64 ->
      dec_seq dec (enc_seq enc xs ++ rest) = Some xs.
Proof. exact (@seq_law_proof). Qed.
Print Assumptions seq_law.

(* delta/u64 holds outside the recorded finding class ... *)
Theorem delta_u64_law :
  forall xs rest, Forall in_u64 xs -> nlen xs < W64 -> known_delta_u xs = false ->
    dec_delta_u (enc_delta_u xs ++ rest) = Some xs.
Proof. exact delta_u64_law_proof. Qed.
Print Assumptions delta_u64_law.

(* ... and fails inside it (finding C13/delta_u64_big_difference) *)
Theorem delta_u64_refuted :
  exists xs, Forall in_u64 xs /\ known_delta_u xs = true /\ dec_delta_u (enc_delta_u xs) <> Some xs.
Proof. exact delta_u64_refuted_proof. Qed.
Print Assumptions delta_u64_refuted.

Theorem group_varint_refuted :
  exists xs, Forall in_u64 xs /\ known_gv xs = true /\ dec_gv (enc_gv xs) <> Some xs.
Proof. exact group_varint_refuted_proof. Qed.
Print Assumptions group_varint_refuted.
