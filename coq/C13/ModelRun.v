(* C13 correspondence dispatch: one case = (op, s, ints, bytes); ops 0..13 are the varint
   codecs (Model.run_case), the rest the cells added later.  Definitions only. *)
From ZV.Common Require Import Base Run.
From ZV.C13 Require Import Model ModelIO ModelReader ModelTypes ModelVersioned ModelWriter ModelRangeWriter ModelMmapZc.
Open Scope N_scope.

Definition run_case2 (op s : N) (ints : list Z) (bytes : list N) : option (list Z) :=
  match op with
  (* accelerated batch varint = concatenation of scalar LEB128; decode `s` values *)
  | 14 => Some (zs (flat_map enc_u (ns ints)))
  | 15 => option_map (fun r => zs (fst r)) (dec_many dec_u (N.to_nat s) bytes)
  (* EndianIO::write_to_bytes, width s bytes, little / big endian *)
  | 16 => Some (zs (enc_le (N.to_nat s) (Z.to_N (hd 0%Z ints))))
  | 17 => Some (zs (enc_be (N.to_nat s) (Z.to_N (hd 0%Z ints))))
  (* DataOutput item script -> bytes; bytes -> values and bytes consumed *)
  | 18 => option_map zs (enc_script (length ints) ints)
  | 19 => dec_script (S (length ints)) ints bytes 0
  (* Option<u64>, Vec<u32> as SerializableType; a versioned u64 field *)
  | 20 => Some (zs (enc_opt (enc_le 8) (match ints with [] => None | v :: _ => Some (Z.to_N v) end)))
  | 21 => Some (zs (enc_vec32 (enc_le 4) (ns ints)))
  | 22 => match ints with
          | p :: v :: _ => Some (zs (enc_field (enc_le 8) (Z.eqb p 1) (Z.to_N v)))
          | _ => None
          end
  (* reader histories *)
  | 30 => run_reader 0 s ints bytes
  | 31 => run_reader 1 s ints bytes
  | 32 => run_reader 2 s ints bytes
  | 33 => run_mz ints bytes
  (* the type universe: encoder bytes / decoded value and bytes consumed *)
  | 40 => run_enc_ty ints
  | 41 => run_dec_ty ints bytes
  (* versioned records: components / serialize_versioned, their readers, VersionedSerializer *)
  | 42 => run_enc_rec ints
  | 43 => run_dec_rec ints bytes
  | 44 => run_vs_deser ints bytes
  (* writer histories: StreamBufferedWriter / ZeroCopyWriter over an inner writer taking `s` bytes per call *)
  | 50 => run_writer false s ints
  | 51 => run_writer true s ints
  (* RangeWriter history over a cursor whose vector starts as `bytes` *)
  | 52 => run_range_writer ints bytes
  | _ => run_case op s ints bytes
  end.
