(* C13 model, part 6: the buffering writers as state machines over an inner writer that accepts at most
   `chunk` bytes per `write` call (chunk = 0: everything), like the harness's short-write destination.
   src/io/stream_buffer.rs  StreamBufferedWriter: `write` (bulk threshold bypass: flush, then one inner write of
                            the caller's slice - a short inner write is a short write; below the threshold the
                            copy loop with a flush whenever the buffer is full), std `write_all` over it,
                            `flush`, `write_byte_fast` / `write_byte_slow`, get_mut after a flush;
   src/io/zero_copy.rs      ZeroCopyWriter: `write` (bypass at capacity / 2, flush when the slice does not fit,
                            direct write if it still does not fit), `flush`, `zc_write` + `zc_commit`,
                            `zc_ensure_write`; flush_buffer drains with inner writes until empty, then resets.
   State: what reached the destination and what is buffered.  Definitions only. *)
From ZV.Common Require Import Base Run.
From ZV.C13 Require Import Model ModelIO.
Open Scope N_scope.

Record wst : Type := { w_dest : list N; w_buf : list N }.
Definition w_stream (st : wst) : list N := w_dest st ++ w_buf st.
Definition w_flush (st : wst) : wst := {| w_dest := w_dest st ++ w_buf st; w_buf := [] |}.

Definition ntake (n : N) (l : list N) : list N := firstn (N.to_nat n) l.
Definition ndrop (n : N) (l : list N) : list N := skipn (N.to_nat n) l.

(* one `write` of the inner writer: the prefix it accepts *)
Definition inner_accepts (chunk : N) (d : list N) : list N :=
  if chunk =? 0 then d else ntake chunk d.
Definition w_direct (chunk : N) (st : wst) (d : list N) : N * wst :=
  let a := inner_accepts chunk d in
  (nlen a, {| w_dest := w_dest st ++ a; w_buf := w_buf st |}).

Section Writers.
  Variable chunk : N.
  Variable cap : N.

  (* ---------- StreamBufferedWriter ---------- *)
  Variable bulk : N.

  (* the copy loop of `write` below the bulk threshold *)
  Fixpoint sbw_copy (fuel : nat) (st : wst) (rem : list N) : wst :=
    match fuel with
    | O => st
    | S f =>
        match rem with
        | [] => st
        | _ =>
            let avail := cap - nlen (w_buf st) in
            if avail =? 0 then sbw_copy f (w_flush st) rem
            else let k := N.min avail (nlen rem) in
                 sbw_copy f {| w_dest := w_dest st; w_buf := w_buf st ++ ntake k rem |} (ndrop k rem)
        end
    end.

  Definition sbw_write (st : wst) (d : list N) : N * wst :=
    if bulk <=? nlen d then w_direct chunk (w_flush st) d
    else (nlen d, sbw_copy (2 * length d + 2) st d).

  (* std::io::Write::write_all: write until nothing is left; Ok(0) is the WriteZero error *)
  Fixpoint write_all (wr : wst -> list N -> N * wst) (fuel : nat) (st : wst) (d : list N) : option wst :=
    match d with
    | [] => Some st
    | _ =>
        match fuel with
        | O => None
        | S f =>
            let '(k, st') := wr st d in
            if k =? 0 then None else write_all wr f st' (ndrop k d)
        end
    end.

  Definition sbw_byte (st : wst) (b : N) : wst :=
    if nlen (w_buf st) <? cap then {| w_dest := w_dest st; w_buf := w_buf st ++ [b] |}
    else {| w_dest := w_dest st ++ w_buf st; w_buf := [b] |}.

  (* ---------- ZeroCopyWriter ---------- *)
  Definition zcw_write (st : wst) (d : list N) : N * wst :=
    if cap / 2 <=? nlen d then w_direct chunk (w_flush st) d
    else
      let st1 := if cap - nlen (w_buf st) <? nlen d then w_flush st else st in
      if cap - nlen (w_buf st1) <? nlen d then w_direct chunk st1 d
      else (nlen d, {| w_dest := w_dest st1; w_buf := w_buf st1 ++ d |}).

  (* zc_write(n) then the caller fills the slice and commits n: refused when n does not fit an empty buffer *)
  Definition zcw_zc (st : wst) (d : list N) : N * wst :=
    let st1 := if cap - nlen (w_buf st) <? nlen d then w_flush st else st in
    if nlen d <=? cap - nlen (w_buf st1) then (1, {| w_dest := w_dest st1; w_buf := w_buf st1 ++ d |})
    else (0, st1).
  Definition zcw_ensure (st : wst) (n : N) : N * wst :=
    let st1 := if cap - nlen (w_buf st) <? n then w_flush st else st in
    (N.min (cap - nlen (w_buf st1)) n, st1).

  (* ---------- one operation: (code, numeric argument, payload) -> (outcome, state) ----------
     0 write | 1 write_all | 2 flush | 3 byte | 4 flush + direct write to the destination | 5 zc_write+commit |
     6 zc_ensure_write.   outcome: bytes accepted (0) / 1 ok, 0 refused / space granted (6); None = error *)
  Definition wop : Type := (N * N * list N)%type.
  Definition w_op (zc : bool) (o : wop) (st : wst) : option (N * wst) :=
    let '(code, arg, d) := o in
    let wr := if zc then zcw_write else sbw_write in
    if code =? 0 then Some (wr st d)
    else if code =? 1 then
      match write_all wr (S (length d)) st d with Some st' => Some (1, st') | None => None end
    else if code =? 2 then Some (1, w_flush st)
    else if code =? 3 then
      match d with
      | [b] => if zc then None else Some (1, sbw_byte st b)
      | _ => None
      end
    else if code =? 4 then
      let st1 := w_flush st in Some (1, {| w_dest := w_dest st1 ++ d; w_buf := [] |})
    else if code =? 5 then (if zc then Some (zcw_zc st d) else None)
    else if code =? 6 then (if zc then Some (zcw_ensure st arg) else None)
    else None.

  (* the bytes an operation with this outcome put into the stream *)
  Definition w_accepted (o : wop) (out : N) : list N :=
    let '(code, _, d) := o in
    if code =? 0 then ntake out d
    else if code =? 1 then d
    else if code =? 2 then []
    else if code =? 3 then d
    else if code =? 4 then d
    else if code =? 5 then (if out =? 1 then d else [])
    else [].

  Fixpoint w_run (zc : bool) (ops : list wop) (st : wst) : option (list N * wst) :=
    match ops with
    | [] => Some ([], st)
    | o :: r =>
        match w_op zc o st with
        | None => None
        | Some (out, st') =>
            match w_run zc r st' with
            | None => None
            | Some (outs, st'') => Some (out :: outs, st'')
            end
        end
    end.

  Fixpoint w_all_accepted (ops : list wop) (outs : list N) : list N :=
    match ops, outs with
    | o :: r, out :: outs' => w_accepted o out ++ w_all_accepted r outs'
    | _, _ => []
    end.
End Writers.

(* ---------- correspondence (ops 50 / 51): s = chunk; ints = cap bulk then code arg len byte.. per operation;
   result: per operation the outcome and the destination length after it, then the destination after the final flush ---------- *)
Fixpoint parse_wops (fuel : nat) (s : list Z) : option (list wop) :=
  match fuel with
  | O => None
  | S f =>
      match s with
      | [] => Some []
      | code :: arg :: len :: r =>
          let k := Z.to_nat len in
          if Nat.ltb (length r) k then None
          else match parse_wops f (skipn k r) with
               | Some os => Some ((Z.to_N code, Z.to_N arg, map Z.to_N (firstn k r)) :: os)
               | None => None
               end
      | _ => None
      end
  end.

Fixpoint w_trace (chunk cap bulk : N) (zc : bool) (ops : list wop) (st : wst) : option (list Z) :=
  match ops with
  | [] => Some (map Z.of_N (w_stream st))
  | o :: r =>
      match w_op chunk cap bulk zc o st with
      | None => None
      | Some (out, st') =>
          match w_trace chunk cap bulk zc r st' with
          | None => None
          | Some t => Some (Z.of_N out :: Z.of_N (nlen (w_dest st')) :: t)
          end
      end
  end.

Definition run_writer (zc : bool) (chunk : N) (ints : list Z) : option (list Z) :=
  match ints with
  | cap :: bulk :: r =>
      match parse_wops (S (length r)) r with
      | Some ops => w_trace chunk (Z.to_N cap) (Z.to_N bulk) zc ops {| w_dest := []; w_buf := [] |}
      | None => None
      end
  | _ => None
  end.
