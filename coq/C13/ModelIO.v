(* C13 model, part 2: fixed-width little/big-endian integers, byte swap, length-prefixed
   byte strings, option / pair / u32-counted vector combinators, versioned fields, and the
   DataOutput / DataInput item scripts (src/io/data_output.rs, data_input.rs, endian.rs,
   complex_types.rs, smart_ptr.rs SerializableType impls, versioning.rs serialize_field).
   Definitions only. *)
From ZV.Common Require Import Base Run.
From ZV.C13 Require Import Model.
Open Scope N_scope.

(* ---------- fixed width, any width w (bytes) ---------- *)
Definition enc_le (w : nat) (v : N) : list N := le_bytes w v.
Definition enc_be (w : nat) (v : N) : list N := rev (le_bytes w v).
Definition from_be (l : list N) : N := from_le (rev l).
Definition dec_le (w : nat) (d : list N) : option (N * N) :=
  if nlen d <? N.of_nat w then None else Some (from_le (firstn w d), N.of_nat w).
Definition dec_be (w : nat) (d : list N) : option (N * N) :=
  if nlen d <? N.of_nat w then None else Some (from_be (firstn w d), N.of_nat w).
(* u16/u32/u64::swap_bytes; to_be/from_be on a little-endian host *)
Definition swap_bytes (w : nat) (v : N) : N := from_le (rev (le_bytes w v)).

(* ---------- length-prefixed bytes / strings: varint length, then the bytes ---------- *)
Definition enc_blob (b : list N) : list N := enc_u (nlen b) ++ b.
Definition dec_blob (d : list N) : option (list N * N) :=
  match dec_u d with
  | None => None
  | Some (len, n) =>
      let rest := skipn (N.to_nat n) d in
      if nlen rest <? len then None else Some (firstn (N.to_nat len) rest, n + len)
  end.

(* ---------- combinators over codecs  enc : A -> list N,  dec : list N -> option (A * N) ---------- *)
Section Comb.
  Context {A B : Type}.
  Variable ea : A -> list N.
  Variable da : list N -> option (A * N).
  Variable eb : B -> list N.
  Variable db : list N -> option (B * N).

  (* Option<T>: marker byte 1 + value / marker byte 0 *)
  Definition enc_opt (o : option A) : list N :=
    match o with Some v => 1 :: ea v | None => [0] end.
  Definition dec_opt (d : list N) : option (option A * N) :=
    match d with
    | [] => None
    | m :: r =>
        if m =? 0 then Some (None, 1)
        else if m =? 1 then
          match da r with Some (v, n) => Some (Some v, 1 + n) | None => None end
        else None
    end.

  (* tuples: fields one after the other *)
  Definition enc_pair (p : A * B) : list N := ea (fst p) ++ eb (snd p).
  Definition dec_pair (d : list N) : option ((A * B) * N) :=
    match da d with
    | None => None
    | Some (a, n) =>
        match db (skipn (N.to_nat n) d) with
        | None => None
        | Some (b, m) => Some ((a, b), n + m)
        end
    end.

  (* `for _ in 0..count { T::deserialize(input) }` with the bytes consumed *)
  Fixpoint dec_many (count : nat) (d : list N) : option (list A * N) :=
    match count with
    | O => Some ([], 0)
    | S c =>
        match da d with
        | None => None
        | Some (v, n) =>
            match dec_many c (skipn (N.to_nat n) d) with
            | None => None
            | Some (vs, m) => Some (v :: vs, n + m)
            end
        end
    end.
  (* Vec<T> / collections: u32 little-endian count, then the elements *)
  Definition enc_vec32 (xs : list A) : list N := enc_le 4 (nlen xs) ++ flat_map ea xs.
  Definition dec_vec32 (d : list N) : option (list A * N) :=
    match dec_le 4 d with
    | None => None
    | Some (count, n) =>
        match dec_many (N.to_nat count) (skipn (N.to_nat n) d) with
        | None => None
        | Some (vs, m) => Some (vs, n + m)
        end
    end.

  (* VersionManager::serialize_field / deserialize_field: presence marker decided by the versions *)
  Definition enc_field (present : bool) (v : A) : list N :=
    if present then 1 :: ea v else [0].
  (* `known` = should_deserialize_field: an unknown field that is present is decoded and dropped *)
  Definition dec_field (known : bool) (d : list N) : option (option A * N) :=
    match d with
    | [] => None
    | m :: r =>
        if m =? 0 then Some (None, 1)
        else if m =? 1 then
          match da r with
          | Some (v, n) => Some (if known then Some v else None, 1 + n)
          | None => None
          end
        else None
    end.
End Comb.

(* versions: (major, minor, patch), derived lexicographic order; supports_feature = `>=` *)
Definition version : Type := (N * N * N)%type.
Definition ver_le (a b : version) : bool :=
  let '(a1, a2, a3) := a in let '(b1, b2, b3) := b in
  (a1 <? b1) || ((a1 =? b1) && ((a2 <? b2) || ((a2 =? b2) && (a3 <=? b3)))).
(* Version::to_u32 / from_u32 (8 bits major, 8 bits minor, 16 bits patch) *)
Definition ver_pack (v : version) : N :=
  let '(a, b, c) := v in
  N.lor (N.lor ((a * 2 ^ 24) mod W32) ((b * 2 ^ 16) mod W32)) c.
Definition ver_unpack (x : N) : version :=
  ((x / 2 ^ 24) mod 256, (x / 2 ^ 16) mod 256, x mod 65536).
Definition known_version_wide (v : version) : bool :=
  let '(a, b, _) := v in (255 <? a) || (255 <? b).

(* ---------- DataOutput script -> bytes, bytes -> values (correspondence ops 18 / 19) ---------- *)
(* script: 1 v | 2 v | 3 v | 4 v (u8,u16,u32,u64 LE) | 5 v (varint) | 6 len b.. (length-prefixed) | 7 len b.. (raw) *)
Fixpoint enc_script (fuel : nat) (s : list Z) : option (list N) :=
  match fuel with
  | O => match s with [] => Some [] | _ => None end
  | S f =>
      match s with
      | [] => Some []
      | tag :: rest =>
          match tag, rest with
          | 1%Z, v :: r => option_map (app (enc_le 1 (Z.to_N v))) (enc_script f r)
          | 2%Z, v :: r => option_map (app (enc_le 2 (Z.to_N v))) (enc_script f r)
          | 3%Z, v :: r => option_map (app (enc_le 4 (Z.to_N v))) (enc_script f r)
          | 4%Z, v :: r => option_map (app (enc_le 8 (Z.to_N v))) (enc_script f r)
          | 5%Z, v :: r => option_map (app (enc_u (Z.to_N v))) (enc_script f r)
          | 6%Z, len :: r =>
              let k := Z.to_nat len in
              option_map (app (enc_blob (map Z.to_N (firstn k r)))) (enc_script f (skipn k r))
          | 7%Z, len :: r =>
              let k := Z.to_nat len in
              option_map (app (map Z.to_N (firstn k r))) (enc_script f (skipn k r))
          | _, _ => None
          end
      end
  end.

Fixpoint dec_script (fuel : nat) (s : list Z) (d : list N) (consumed : N) : option (list Z) :=
  match fuel with
  | O => None
  | S f =>
      let int (r : option (N * N)) (s' : list Z) :=
        match r with
        | None => None
        | Some (v, n) => option_map (cons (Z.of_N v)) (dec_script f s' (skipn (N.to_nat n) d) (consumed + n))
        end in
      match s with
      | [] => Some [Z.of_N consumed]
      | 1%Z :: s' => int (dec_le 1 d) s'
      | 2%Z :: s' => int (dec_le 2 d) s'
      | 3%Z :: s' => int (dec_le 4 d) s'
      | 4%Z :: s' => int (dec_le 8 d) s'
      | 5%Z :: s' => int (dec_u d) s'
      | 6%Z :: s' =>
          match dec_blob d with
          | None => None
          | Some (b, n) =>
              option_map (fun t => Z.of_N (nlen b) :: map Z.of_N b ++ t)
                         (dec_script f s' (skipn (N.to_nat n) d) (consumed + n))
          end
      | 7%Z :: len :: s' =>
          let k := Z.to_N len in
          if nlen d <? k then None else
          option_map (app (map Z.of_N (firstn (N.to_nat k) d)))
                     (dec_script f s' (skipn (N.to_nat k) d) (consumed + k))
      | _ => None
      end
  end.
