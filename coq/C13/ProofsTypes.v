(* C13: the law  dec t (enc t v ++ rest) = Some (v, |enc t v|)  for EVERY type code, by induction on the code. *)
From ZV.Common Require Import Base.
From ZV.C13 Require Import Model ModelIO ModelTypes ProofsLeb ProofsSeq ProofsIO.
Open Scope N_scope.

Lemma list_eqb_refl l : list_eqb l l = true.
Proof. induction l as [|x l IH]; cbn [list_eqb]; [reflexivity|]. rewrite N.eqb_refl, IH. reflexivity. Qed.

Lemma nlen_cons {A} (x : A) l : nlen (x :: l) = 1 + nlen l.
Proof. cbn [nlen]. lia. Qed.

Lemma skipn_4_le v rest : skipn (N.to_nat (N.of_nat 4)) (enc_le 4 v ++ rest) = rest.
Proof. reflexivity. Qed.

Theorem types_law_proof : forall t, codec_law (wt t) (enc t) (dec t).
Proof.
  induction t as [w| | | | |t IH|t IH|t IH|t IH|len t IH|a IHa b IHb|t IHt e IHe|id ver t IH];
    intros v rest Hv.
  - (* TInt *)
    destruct v; cbn [wt] in Hv; try contradiction. cbn [enc dec].
    rewrite (fixed_le_law_proof w) by exact Hv. reflexivity.
  - (* TBool *)
    destruct v; cbn [wt] in Hv; try contradiction. cbn [enc dec app].
    destruct (N.eqb_spec n 0) as [->|Hn]; [reflexivity|].
    change (1 =? 0) with false. cbv iota. f_equal. f_equal. f_equal. lia.
  - (* TVar *)
    destruct v; cbn [wt] in Hv; try contradiction. cbn [enc dec].
    rewrite leb128_u64_law_proof by exact Hv. reflexivity.
  - (* TStr *)
    destruct v; cbn [wt] in Hv; try contradiction. cbn [enc dec].
    rewrite blob_law_proof by exact Hv. reflexivity.
  - (* TUnit *)
    cbn [wt] in Hv. subst v. reflexivity.
  - (* TOpt *)
    destruct v; cbn [wt] in Hv; try contradiction; cbn [enc dec app].
    + reflexivity.
    + change (1 =? 0) with false. change (1 =? 1) with true. cbv iota.
      rewrite IH by exact Hv. unfold after_marker. rewrite nlen_cons. reflexivity.
  - (* TBox *)
    cbn [wt] in Hv. cbn [enc dec app]. change (1 =? 1) with true. cbv iota.
    rewrite IH by exact Hv. unfold after_marker. rewrite nlen_cons. reflexivity.
  - (* TRc *)
    cbn [wt] in Hv. cbn [enc dec app]. change (1 =? 1) with true. cbv iota.
    rewrite <- app_assoc.
    rewrite (fixed_le_law_proof 4) by (unfold fits, FIRST_ID; cbn; lia).
    rewrite skipn_nlen_app. rewrite IH by exact Hv.
    rewrite nlen_cons, nlen_app. reflexivity.
  - (* TVec *)
    destruct v; cbn [wt] in Hv; try contradiction. destruct Hv as [HP Hlen]. cbn [enc dec].
    rewrite <- app_assoc. rewrite (fixed_le_law_proof 4) by exact Hlen.
    rewrite skipn_nlen_app. rewrite nlen_length, Nat2N.id.
    rewrite (dec_many_flat (wt t) (enc t) (dec t) IH) by exact HP.
    rewrite nlen_app, <- nlen_length. reflexivity.
  - (* TArr *)
    destruct v; cbn [wt] in Hv; try contradiction. destruct Hv as (HP & Hl & Hlen). cbn [enc dec].
    rewrite <- app_assoc. rewrite (fixed_le_law_proof 4) by exact Hlen.
    rewrite N.eqb_refl. rewrite skipn_nlen_app.
    rewrite <- Hl at 1. rewrite nlen_length, Nat2N.id.
    rewrite (dec_many_flat (wt t) (enc t) (dec t) IH) by exact HP.
    rewrite nlen_app. reflexivity.
  - (* TPair *)
    destruct v; cbn [wt] in Hv; try contradiction. destruct Hv as [Hx Hy]. cbn [enc dec].
    rewrite <- app_assoc. rewrite IHa by exact Hx. rewrite skipn_nlen_app.
    rewrite IHb by exact Hy. rewrite nlen_app. reflexivity.
  - (* TRes *)
    destruct v; cbn [wt] in Hv; try contradiction; cbn [enc dec app].
    + change (1 =? 0) with false. change (1 =? 1) with true. cbv iota.
      rewrite IHt by exact Hv. unfold after_marker. rewrite nlen_cons. reflexivity.
    + change (0 =? 0) with true. cbv iota.
      rewrite IHe by exact Hv. unfold after_marker. rewrite nlen_cons. reflexivity.
  - (* TMeta *)
    cbn [wt] in Hv. destruct Hv as [Hid Hv]. cbn [enc dec].
    rewrite <- !app_assoc. rewrite blob_law_proof by exact Hid.
    rewrite list_eqb_refl. cbv zeta. rewrite skipn_nlen_app.
    pose proof (fixed_le_law_proof 4 (ver mod W32)) as HL.
    replace (enc_le 4 ver) with (enc_le 4 (ver mod W32)).
    2:{ unfold enc_le. cbn [le_bytes]. unfold W32.
        repeat (f_equal; try lia). }
    rewrite HL by (unfold fits, W32; cbn; lia).
    rewrite skipn_nlen_app. rewrite IH by exact Hv.
    rewrite !nlen_app. reflexivity.
Qed.

(* consecutive encodings of one type concatenate and read back in order *)
Theorem types_concat_law_proof :
  forall t vs rest, Forall (wt t) vs ->
    dec_many (dec t) (length vs) (flat_map (enc t) vs ++ rest) = Some (vs, nlen (flat_map (enc t) vs)).
Proof. intros t vs rest H. apply (dec_many_flat (wt t) (enc t) (dec t) (types_law_proof t)). exact H. Qed.

(* the decoder only ever returns values of the type, so "decode then encode" is meaningful *)

(* ---- the hypotheses are inhabited: a map from strings to optional vectors inside a tuple, with metadata ---- *)
Definition ex_ty : ty :=
  TMeta [116; 117] 1 (TPair (TVec (TPair TStr (TOpt (TVec (TInt 2))))) (TPair (TRes TBool (TInt 8)) (TArr 2 (TBox TVar)))).
Definition ex_val : val :=
  VP (VL [VP (VS [97]) (VSome (VL [VN 513; VN 65535])); VP (VS []) VNone])
     (VP (VErr (VN 72623859790382856)) (VL [VN 300; VN 0])).
Example types_law_inhabited :
  wt ex_ty ex_val /\ dec ex_ty (enc ex_ty ex_val ++ [9; 9]) = Some (ex_val, nlen (enc ex_ty ex_val)) /\
  nlen (enc ex_ty ex_val) = 42.
Proof.
  split; [|split; vm_compute; reflexivity].
  cbn [wt ex_ty ex_val]. unfold W64, W32.
  repeat (first [ split | constructor | (cbn; lia) ]).
Qed.
