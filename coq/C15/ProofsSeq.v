(* C15: delta, group-varint and concatenated-varint decoders. *)
From ZV.Common Require Import Base.
From ZV.C15 Require Import Model ProofsCore.
Open Scope N_scope.

Lemma cap_ok count (data : list N) : count <= nlen data -> nlen data < 2 ^ 60 -> count * 8 <= ISIZE_MAX.
Proof.
  intros H1 H2. unfold ISIZE_MAX. rewrite W63_eq.
  assert (2 ^ 60 * 8 = 2 ^ 63) by reflexivity. lia.
Qed.

Lemma delta_u_loop_good : forall fuel rest prev,
  good (fun vs => nlen vs <= nlen rest) 0 (delta_u_loop fuel rest prev).
Proof.
  induction fuel as [|f IH]; intros rest prev; cbn [delta_u_loop].
  - apply good_ret. cbn [nlen]. lia.
  - change 0 with (0 + (0 + (0 + 0))) at 1.
    eapply good_bind; [apply leb_u_ok|]. intros [d k] Hk.
    eapply good_bind; [apply advance_good; blia|]. intros rest' Hr.
    eapply good_bind; [apply IH|]. intros vs Hvs.
    apply good_ret. cbn [nlen]. blia.
Qed.

Lemma delta_u_dec_good data :
  nlen data < 2 ^ 60 ->
  good (fun vs => nlen vs <= nlen data) (8 * nlen data) (delta_u_dec true data).
Proof.
  intros Hlen. unfold delta_u_dec.
  eapply good_weaken with (b := 0 + (0 + (0 + (8 * nlen data + (0 + (0 + (0 + 0))))))); [| intros a H; exact H | lia].
  eapply good_bind; [apply leb_u_ok|]. intros [count cb] Hcb.
  eapply good_bind; [apply advance_good; blia|]. intros rest Hr.
  destruct (count =? 0).
  { eapply good_weaken; [apply good_ret with (P := fun vs : list Z => nlen vs <= nlen data)| intros a H; exact H |lia].
    cbn [nlen]. lia. }
  eapply good_bind; [apply check_count_good|]. intros u Hc.
  eapply good_bind.
  { eapply good_weaken; [apply with_capacity_good| intros a H; exact H |].
    - apply cap_ok with (data := data); blia.
    - blia. }
  intros u2 _.
  eapply good_bind; [apply leb_u_ok|]. intros [first fb] Hfb.
  eapply good_bind; [apply advance_good; blia|]. intros rest1 Hr1.
  eapply good_bind; [apply delta_u_loop_good|]. intros vs Hvs.
  apply good_ret. cbn [nlen]. blia.
Qed.

Lemma delta_s_loop_good : forall fuel rest prev,
  good (fun vs => nlen vs <= nlen rest) 0 (delta_s_loop fuel rest prev).
Proof.
  induction fuel as [|f IH]; intros rest prev; cbn [delta_s_loop].
  - apply good_ret. cbn [nlen]. lia.
  - change 0 with (0 + (0 + (0 + 0))) at 1.
    eapply good_bind; [apply zz_elem_ok|]. intros [d k] Hk.
    eapply good_bind; [apply advance_good; blia|]. intros rest' Hr.
    eapply good_bind; [apply IH|]. intros vs Hvs.
    apply good_ret. cbn [nlen]. blia.
Qed.

Lemma delta_s_dec_good data :
  nlen data < 2 ^ 60 ->
  good (fun vs => nlen vs <= nlen data) (8 * nlen data) (delta_s_dec true data).
Proof.
  intros Hlen. unfold delta_s_dec.
  eapply good_weaken with (b := 0 + (0 + (0 + (8 * nlen data + (0 + (0 + (0 + 0))))))); [| intros a H; exact H | lia].
  eapply good_bind; [apply leb_u_ok|]. intros [count cb] Hcb.
  eapply good_bind; [apply advance_good; blia|]. intros rest Hr.
  destruct (count =? 0).
  { eapply good_weaken; [apply good_ret with (P := fun vs : list Z => nlen vs <= nlen data)| intros a H; exact H |lia].
    cbn [nlen]. lia. }
  eapply good_bind; [apply check_count_good|]. intros u Hc.
  eapply good_bind.
  { eapply good_weaken; [apply with_capacity_good| intros a H; exact H |].
    - apply cap_ok with (data := data); blia.
    - blia. }
  intros u2 _.
  eapply good_bind; [apply leb_s_ok|]. intros [first fb] Hfb.
  eapply good_bind; [apply advance_good; blia|]. intros rest1 Hr1.
  eapply good_bind; [apply delta_s_loop_good|]. intros vs Hvs.
  apply good_ret. cbn [nlen]. blia.
Qed.

(* ---------- group varint ---------- *)
Lemma nlen_skipn {A} (n : N) (l : list A) : n <= nlen l -> nlen (skipn (N.to_nat n) l) = nlen l - n.
Proof. intros H. rewrite !nlen_length, skipn_length. lia. Qed.

Lemma gv_chunk_good : forall k i sel rest,
  good (fun '(vs, rest') => nlen vs + nlen rest' <= nlen rest) 0 (gv_chunk k i sel rest).
Proof.
  induction k as [|k IH]; intros i sel rest; cbn [gv_chunk].
  - apply good_ret. cbn [nlen]. lia.
  - set (bn := (sel / 4 ^ i) mod 4 + 1).
    destruct (N.ltb_spec (nlen rest) bn) as [Hb|Hb]; [apply good_err|].
    change 0 with (0 + 0) at 1.
    eapply good_bind; [apply IH|]. intros [vs rest'] Hv.
    apply good_ret. cbn beta iota in *. cbn [nlen].
    rewrite nlen_skipn in Hv by assumption.
    assert (1 <= bn) by (unfold bn; generalize ((sel / 4 ^ i) mod 4); intros; lia).
    clearbody bn. lia.
Qed.

Lemma gv_loop_good : forall fuel remaining rest,
  good (fun vs => nlen vs <= nlen rest) 0 (gv_loop fuel remaining rest).
Proof.
  induction fuel as [|f IH]; intros remaining rest; cbn [gv_loop].
  - destruct (remaining =? 0); [apply good_ret; cbn [nlen]; lia | apply good_err].
  - destruct (remaining =? 0); [apply good_ret; cbn [nlen]; lia |].
    destruct rest as [|sel rest1]; [apply good_err|].
    change 0 with (0 + (0 + 0)) at 1.
    eapply good_bind; [apply gv_chunk_good|]. intros [vs rest'] Hv.
    eapply good_bind; [apply IH|]. intros ws Hw.
    apply good_ret. cbn beta iota in *. rewrite nlen_app. cbn [nlen]. lia.
Qed.

Lemma gv_dec_good data :
  nlen data < 2 ^ 60 ->
  good (fun vs => nlen vs <= nlen data) (8 * nlen data) (gv_dec true data).
Proof.
  intros Hlen. unfold gv_dec.
  eapply good_weaken with (b := 0 + (0 + (0 + (8 * nlen data + 0)))); [| intros a H; exact H | lia].
  eapply good_bind; [apply leb_u_ok|]. intros [count cb] Hcb.
  eapply good_bind; [apply advance_good; blia|]. intros rest Hr.
  eapply good_bind; [apply check_count_good|]. intros u Hc.
  eapply good_bind.
  { eapply good_weaken; [apply with_capacity_good| intros a H; exact H |].
    - apply cap_ok with (data := data); blia.
    - blia. }
  intros u2 _. eapply good_weaken; [apply gv_loop_good| |lia].
  intros vs Hvs. blia.
Qed.

(* ---------- VarInt::decode_multiple ---------- *)
Lemma multi_loop_good : forall fuel rest,
  good (fun vs => nlen vs <= nlen rest) 0 (multi_loop fuel rest).
Proof.
  induction fuel as [|f IH]; intros rest; cbn [multi_loop].
  - apply good_ret. cbn [nlen]. lia.
  - destruct rest as [|b rest0]; [apply good_ret; cbn [nlen]; lia|].
    change 0 with (0 + (0 + (0 + 0))) at 1.
    eapply good_bind; [apply leb_u_ok|]. intros [v k] Hk.
    eapply good_bind; [apply advance_good; blia|]. intros rest' Hr.
    eapply good_bind; [apply IH|]. intros vs Hvs.
    apply good_ret. cbn [nlen] in *. blia.
Qed.

(* map_res keeps the outcome class and the reservation *)
Lemma map_res_good {A B} (f : A -> B) (P : list A -> Prop) (Q : list B -> Prop) b (r : res (list A)) :
  good P b r -> (forall xs, P xs -> Q (map f xs)) -> good Q b (map_res f r).
Proof.
  intros H HQ. unfold map_res. replace b with (b + 0) by lia.
  eapply good_bind; [exact H|]. intros xs Hx. apply good_ret. auto.
Qed.

Lemma nlen_map {A B} (f : A -> B) (l : list A) : nlen (map f l) = nlen l.
Proof. rewrite !nlen_length, map_length. reflexivity. Qed.
