(* C15: the Huffman parsers and decoders are total.
   - HuffmanTree::deserialize: no panic, at most 8 bytes reserved per input byte, every code at most 255
     bits; the tree construction cannot panic for ANY insertion order and nests at most |code| + 1 calls;
   - ContextualHuffmanEncoder::deserialize: no panic, reservation linear in the input, and the encoder it
     returns has at least one tree and only valid tree indices in its context map;
   - HuffmanDecoder::decode / ContextualHuffmanDecoder::decode / decode_xN: no panic, the reservation is
     bounded by min(expected length, 8 * input + 1), the output is no longer than that. *)
From ZV.Common Require Import Base Run.
From ZV.C15 Require Import Model ProofsCore ModelBlob ProofsBlob ModelHuff.
Open Scope N_scope.

(* ---------- small list facts ---------- *)
Lemma Forall_skipn {A} (P : A -> Prop) : forall n (l : list A), Forall P l -> Forall P (skipn n l).
Proof.
  induction n as [|n IH]; intros l H; [exact H|]. destruct l as [|x l]; [exact H|].
  cbn [skipn]. apply IH. inversion H; assumption.
Qed.
Lemma Forall_firstn {A} (P : A -> Prop) : forall n (l : list A), Forall P l -> Forall P (firstn n l).
Proof.
  induction n as [|n IH]; intros l H; [constructor|]. destruct l as [|x l]; [constructor|].
  cbn [firstn]. inversion H; subst. constructor; [assumption | apply IH; assumption].
Qed.
Lemma has_bytes_le data n : has_bytes data n = true -> n <= nlen data.
Proof.
  unfold has_bytes. intros H. apply N.leb_le in H.
  rewrite nlen_length in *. rewrite firstn_length in H. lia.
Qed.

(* ---------- HuffmanTree::deserialize ---------- *)
Definition codes_short (tb : H.table) : Prop := Forall (fun e => (length (snd e) <= 255)%nat) tb.

Lemma code_of_length bytes len : (length (code_of bytes len) <= N.to_nat len)%nat.
Proof. unfold code_of. rewrite firstn_length. lia. Qed.

Lemma tb_insert_short s c tb : (length c <= 255)%nat -> codes_short tb -> codes_short (tb_insert s c tb).
Proof.
  intros Hc Ht. unfold tb_insert, codes_short. constructor; [exact Hc|].
  apply Forall_forall. intros e He. apply filter_In in He. destruct He as [He _].
  unfold codes_short in Ht. rewrite Forall_forall in Ht. apply Ht. exact He.
Qed.

Lemma ht_parse_good fixed : forall n data tb ml,
  nlen data < 2 ^ 60 -> bytes_ok data -> codes_short tb ->
  good (fun '(tb', _) => codes_short tb') (8 * nlen data) (ht_parse fixed n data tb ml).
Proof.
  induction n as [|n IH]; intros data tb ml Hlen Hb Ht; cbn [ht_parse].
  - apply good_ret_le. exact Ht.
  - destruct data as [|s [|cl rest]]; [apply good_err_le; lia | apply good_err_le; lia |].
    destruct (fixed && (cl =? 0)); [apply good_err_le; lia|].
    destruct (has_bytes rest ((cl + 7) / 8)) eqn:Hh; cbn [negb]; [|apply good_err_le; lia].
    apply has_bytes_le in Hh. cbn [nlen] in Hlen. rewrite P60 in Hlen.
    assert (Hcl : cl < 256).
    { inversion Hb as [|? ? _ Hb2]. inversion Hb2 as [|? ? Hc _]. exact Hc. }
    assert (Hrest : nlen (skipn (N.to_nat ((cl + 7) / 8)) rest) = nlen rest - (cl + 7) / 8) by apply skipn_nlen.
    eapply good_bind_le with (b1 := cl) (b2 := 8 * (nlen rest - (cl + 7) / 8)).
    + change (with_capacity cl 1) with (reserve cl). apply reserve_good. unfold ISIZE_MAX, W63. lia.
    + intros _ _. rewrite <- Hrest. apply IH.
      * rewrite Hrest, P60. lia.
      * apply Forall_skipn. inversion Hb as [|? ? _ Hb2]. inversion Hb2; assumption.
      * apply tb_insert_short; [|exact Ht].
        pose proof (code_of_length (firstn (N.to_nat ((cl + 7) / 8)) rest) cl). lia.
    + cbn [nlen]. lia.
Qed.

Lemma ht_deser_good fixed data :
  nlen data < 2 ^ 60 -> bytes_ok data ->
  good (fun '(tb, _) => codes_short tb) (8 * nlen data) (ht_deser fixed data).
Proof.
  intros Hlen Hb. unfold ht_deser. destruct data as [|a [|b rest]]; [apply good_err_le; lia | apply good_err_le; lia |].
  cbn [nlen] in *. rewrite P60 in Hlen.
  eapply good_weaken; [apply ht_parse_good| |].
  - rewrite P60. lia.
  - inversion Hb as [|? ? _ Hb2]. inversion Hb2; assumption.
  - constructor.
  - intros [tb ml] H. exact H.
  - lia.
Qed.

Lemma ht_build_good ord : good (fun _ => True) 0 (ht_build ord).
Proof. unfold ht_build. destruct (H.build_root ord); [apply good_ret; exact I | apply good_err]. Qed.

Lemma insert_calls_le : forall c t, (insert_calls t c <= length c + 1)%nat.
Proof.
  induction c as [|b c IH]; intros t; cbn [insert_calls length]; [lia|].
  destruct t as [s| |l r].
  - lia.
  - destruct c as [|b' c']; [lia|]. specialize (IH H.Hole). cbn [length] in *. lia.
  - specialize (IH (if b then r else l)). lia.
Qed.

(* before fix 0fcb2c4: a one-symbol table with a code of length zero is accepted, and
   decode_next_symbol then returns the symbol without consuming a bit *)
Lemma zero_len_accepted : ht_deser false [1; 0; 97; 0] = Ok ([(97, [])], 0) 0.
Proof. vm_compute. reflexivity. Qed.
Lemma zero_len_rejected : ht_deser true [1; 0; 97; 0] = Err 0.
Proof. vm_compute. reflexivity. Qed.
Lemma zero_len_no_progress bits :
  HC.dns true (H.mkHT (Some (H.Leaf 97)) [(97, [])]) bits = Some (97, bits).
Proof. unfold HC.dns. cbn. reflexivity. Qed.

(* ---------- HuffmanDecoder::decode ---------- *)
Lemma dec_loop_len rt : forall bits cur k, (length (H.dec_loop rt cur bits k) <= k)%nat.
Proof.
  induction bits as [|b bs IH]; intros cur k; cbn [H.dec_loop].
  - destruct (H.leaf_sym cur); destruct k; cbn [length]; lia.
  - destruct k as [|k']; [cbn [length]; lia|].
    destruct (H.leaf_sym cur).
    + cbn [length]. specialize (IH (match rt with H.Node _ _ => H.child rt b | _ => rt end) k'). lia.
    + specialize (IH (H.child cur b) (S k')). lia.
Qed.

Lemma max_symbols_small len : len < 2 ^ 60 -> max_symbols len = 8 * len + 1.
Proof.
  intros H. rewrite P60 in H. unfold max_symbols, sat_mul.
  rewrite (N.min_l (len * 8)) by (unfold W64; lia). rewrite N.min_l by (unfold W64; lia). lia.
Qed.

Lemma huff_decode_o_good root bytes outlen :
  nlen bytes < 2 ^ 60 ->
  good (fun out => nlen out <= outlen /\ nlen out <= 8 * nlen bytes + 1)
       (N.min outlen (8 * nlen bytes + 1)) (huff_decode_o true root bytes outlen).
Proof.
  intros Hlen. unfold huff_decode_o. destruct bytes as [|b0 bytes']; [apply good_ret_le; cbn [nlen]; lia|].
  set (bytes := b0 :: bytes') in *.
  destruct (outlen =? 0); [apply good_ret_le; cbn [nlen]; lia|].
  destruct root as [rt|]; [|apply good_err_le; lia].
  rewrite (max_symbols_small _ Hlen).
  set (cap := N.min outlen (8 * nlen bytes + 1)).
  assert (Hcap : cap <= ISIZE_MAX).
  { rewrite P60 in Hlen. unfold ISIZE_MAX, W63, cap. lia. }
  eapply good_bind_le with (b1 := cap) (b2 := 0).
  - change (with_capacity cap 1) with (reserve cap). apply reserve_good. exact Hcap.
  - intros _ _.
    pose proof (dec_loop_len rt (H.unpack bytes) rt (N.to_nat cap)) as Hl.
    destruct (nlen (H.dec_loop rt rt (H.unpack bytes) (N.to_nat cap)) =? outlen); [|apply good_err].
    apply good_ret. rewrite nlen_length. unfold cap in *. lia.
  - lia.
Qed.

(* the reservation before fix bbc208a: Vec::with_capacity(output_length) *)
Lemma huff_decode_uncapped_panics :
  huff_decode_o false (Some (H.Leaf 1)) [0] (W64 - 1) = Panic.
Proof. vm_compute. reflexivity. Qed.
Lemma huff_decode_uncapped_allocates :
  alloc_of (huff_decode_o false (Some (H.Leaf 1)) [0] (W32 - 1)) = W32 - 1.
Proof. vm_compute. reflexivity. Qed.

(* ---------- ContextualHuffmanEncoder::deserialize ---------- *)
Definition ctx_idx_ok (e : HC.cenc) : Prop :=
  HC.c_trees e <> [] /\ Forall (fun p => (snd p < length (HC.c_trees e))%nat) (HC.c_map e).

Lemma ctx_map_parse_good : forall n data rem tc m,
  Forall (fun p => snd p < tc) m -> nlen data = rem -> bytes_ok data ->
  good (fun '(m', d', rem') => Forall (fun p => snd p < tc) m' /\ rem' <= rem /\ nlen d' = rem' /\ bytes_ok d') 0
       (ctx_map_parse n data rem tc m).
Proof.
  induction n as [|n IH]; intros data rem tc m Hm Hd Hb; cbn [ctx_map_parse].
  - apply good_ret. repeat split; [exact Hm | lia | exact Hd | exact Hb].
  - destruct (N.ltb_spec rem 8); [apply good_err|].
    destruct (N.leb_spec tc (le32_at data 4)) as [|Hi]; [apply good_err|].
    eapply good_weaken; [apply IH| |lia].
    + constructor; [exact Hi|exact Hm].
    + rewrite skipn_nlen_nat, Hd. reflexivity.
    + apply Forall_skipn. exact Hb.
    + intros [[m' d'] rem'] (H1 & H2 & H3 & H4). repeat split; [exact H1 | lia | exact H3 | exact H4].
Qed.

Lemma ctx_trees_parse_good fixed : forall n data rem,
  rem < 2 ^ 60 -> nlen data = rem -> bytes_ok data ->
  good (fun ts => length ts = n) (8 * rem) (ctx_trees_parse fixed n data rem).
Proof.
  induction n as [|n IH]; intros data rem Hrem Hd Hb; cbn [ctx_trees_parse].
  - apply good_ret_le. reflexivity.
  - destruct (N.ltb_spec rem 4) as [|H4]; [apply good_err_le; lia|].
    set (sz := le32_at data 0). set (rest := skipn 4 data).
    destruct (N.ltb_spec (rem - 4) sz) as [|Hsz]; [apply good_err_le; lia|].
    assert (Hrest : nlen rest = rem - 4) by (unfold rest; rewrite skipn_nlen_nat, Hd; reflexivity).
    assert (Hfst : nlen (firstn (N.to_nat sz) rest) = sz) by (apply firstn_nlen; lia).
    assert (Hbr : bytes_ok rest) by (apply Forall_skipn; exact Hb).
    rewrite P60 in Hrem.
    eapply good_bind_le with (b1 := 8 * sz) (b2 := 8 * (rem - 4 - sz)).
    + eapply good_weaken; [apply ht_deser_good| intros a Ha; exact Ha |].
      * rewrite Hfst, P60. lia.
      * apply Forall_firstn. exact Hbr.
      * rewrite Hfst. lia.
    + intros [tb ml] _.
      eapply good_bind_le with (b1 := 8 * (rem - 4 - sz)) (b2 := 0).
      * apply IH; [rewrite P60; lia | rewrite skipn_nlen, Hrest; reflexivity | apply Forall_skipn; exact Hbr].
      * intros ts Hts. apply good_ret. cbn [length]. cbn beta in Hts. lia.
      * lia.
    + lia.
Qed.

Lemma P58 : 2 ^ 58 = 288230376151711744. Proof. reflexivity. Qed.
(* tree_count * size_of::<HuffmanTree>() = 20 bytes per input byte at most: below isize::MAX up to 2^58 *)
Lemma ctx_deser_good fixed data :
  nlen data < 2 ^ 58 -> bytes_ok data ->
  good ctx_idx_ok (28 * nlen data) (ctx_deser fixed data).
Proof.
  intros Hlen Hb. unfold ctx_deser. destruct data as [|o rest]; [apply good_err_le; lia|].
  cbn [nlen] in Hlen. assert (Hbr : bytes_ok rest) by (inversion Hb; assumption).
  cbn zeta. remember (nlen rest) as rem eqn:Erem. rewrite P58 in Hlen.
  destruct (2 <? o); [apply good_err_le; lia|].
  destruct (N.ltb_spec rem 4) as [|H4]; [apply good_err_le; lia|].
  destruct (N.ltb_spec (rem - 4) 4) as [|H8]; [apply good_err_le; lia|].
  remember (le32_at rest 0) as tc eqn:Etc.
  eapply good_bind_le with (b1 := 0) (b2 := 28 * rem).
  - apply ctx_map_parse_good; [constructor | | apply Forall_skipn, Forall_skipn; exact Hbr].
    rewrite !skipn_nlen_nat. lia.
  - intros [[m rest2] rem2] (Hm & Hrem2 & Hd2 & Hb2).
    destruct (N.eqb_spec tc 0) as [|Htc]; [apply good_err_le; lia|].
    destruct (N.ltb_spec (rem2 / 4) tc) as [|Hfit]; [apply good_err_le; lia|].
    assert (Htc4 : tc * 4 <= rem2).
    { assert (4 * (rem2 / 4) <= rem2) by (apply N.mul_div_le; lia). lia. }
    eapply good_bind_le with (b1 := tc * TREE_SIZE) (b2 := 8 * rem2).
    + apply with_capacity_good. unfold TREE_SIZE, ISIZE_MAX, W63. lia.
    + intros _ _.
      eapply good_bind_le with (b1 := 8 * rem2) (b2 := 0).
      * apply ctx_trees_parse_good; [rewrite P60; lia | exact Hd2 | exact Hb2].
      * intros ts Hts. apply good_ret. cbn beta in Hts. unfold ctx_idx_ok. cbn [HC.c_trees HC.c_map]. split.
        -- destruct ts; [cbn [length] in Hts; lia | discriminate].
        -- apply Forall_forall. intros p Hp. apply in_map_iff in Hp. destruct Hp as [q [<- Hq]].
           rewrite Forall_forall in Hm. specialize (Hm q Hq). cbn [snd]. lia.
      * lia.
    + unfold TREE_SIZE. lia.
  - cbn [nlen]. lia.
Qed.

(* ---------- ContextualHuffmanDecoder::decode ---------- *)
Lemma tree_at_o_good e i : (i < length (HC.c_trees e))%nat -> good (fun _ => True) 0 (tree_at_o e i).
Proof.
  intros H. unfold tree_at_o. destruct (nth_error (HC.c_trees e) i) eqn:E; [apply good_ret; exact I|].
  apply nth_error_None in E. lia.
Qed.

Lemma map_get_ok e k i : ctx_idx_ok e -> HC.map_get e k = Some i -> (i < length (HC.c_trees e))%nat.
Proof.
  intros [_ Hm] H. unfold HC.map_get in H. destruct (find (fun p => fst p =? k) (HC.c_map e)) as [p|] eqn:E; [|discriminate].
  injection H as <-. apply find_some in E. destruct E as [E _]. rewrite Forall_forall in Hm. exact (Hm p E).
Qed.

Lemma ctx_tree_o_good e hist : ctx_idx_ok e -> good (fun _ => True) 0 (ctx_tree_o e hist).
Proof.
  intros Hok. assert (H0 : (0 < length (HC.c_trees e))%nat).
  { destruct Hok as [Hne _]. destruct (HC.c_trees e); [congruence|cbn [length]; lia]. }
  unfold ctx_tree_o. destruct (HC.ctx_key (HC.c_order e) hist) as [k|]; [|apply tree_at_o_good; exact H0].
  destruct (HC.map_get e k) as [i|] eqn:E; [apply tree_at_o_good; eapply map_get_ok; eassumption | apply tree_at_o_good; exact H0].
Qed.

Lemma ctx_loop_o_good e : ctx_idx_ok e -> forall k hist bits,
  good (fun out => (length out <= k)%nat) 0 (ctx_loop_o e hist bits k).
Proof.
  intros Hok. induction k as [|k IH]; intros hist bits; cbn [ctx_loop_o].
  - apply good_ret. cbn [length]. lia.
  - destruct bits as [|b bs]; [apply good_ret; cbn [length]; lia|].
    eapply good_bind_le with (b1 := 0) (b2 := 0); [apply ctx_tree_o_good; exact Hok| |lia].
    intros t _. destruct (HC.dns true t (b :: bs)) as [[s bits']|]; [|apply good_ret; cbn [length]; lia].
    eapply good_bind_le with (b1 := 0) (b2 := 0); [apply IH| |lia].
    intros vs Hvs. apply good_ret. cbn [length]. cbn beta in Hvs. lia.
Qed.

Lemma ctx_decode_o_good e bytes outlen :
  ctx_idx_ok e -> nlen bytes < 2 ^ 60 ->
  good (fun out => nlen out <= outlen /\ nlen out <= 8 * nlen bytes + 1)
       (2 * N.min outlen (8 * nlen bytes + 1)) (ctx_decode_o e bytes outlen).
Proof.
  intros Hok Hlen. unfold ctx_decode_o. destruct bytes as [|b0 bytes']; [apply good_ret_le; cbn [nlen]; lia|].
  set (bytes := b0 :: bytes') in *.
  destruct (N.eqb_spec outlen 0) as [|Hout]; [apply good_ret_le; cbn [nlen]; lia|].
  rewrite (max_symbols_small _ Hlen). cbn zeta.
  set (cap := N.min outlen (8 * nlen bytes + 1)).
  assert (Hcap : cap <= ISIZE_MAX).
  { rewrite P60 in Hlen. unfold ISIZE_MAX, W63, cap. lia. }
  assert (Hcap1 : 1 <= cap) by (unfold cap; lia).
  assert (H0 : (0 < length (HC.c_trees e))%nat).
  { destruct Hok as [Hne _]. destruct (HC.c_trees e); [congruence|cbn [length]; lia]. }
  eapply good_bind_le with (b1 := cap) (b2 := cap).
  - change (with_capacity cap 1) with (reserve cap). apply reserve_good. exact Hcap.
  - intros _ _.
    eapply good_bind_le with (P := fun out => (length out <= N.to_nat cap)%nat) (b1 := cap) (b2 := 0).
    + destruct (HC.c_order e =? 0).
      * eapply good_bind_le with (b1 := 0) (b2 := cap); [apply tree_at_o_good; exact H0| |lia].
        intros t0 _. destruct (H.ht_root t0) as [rt|]; [|apply good_err_le; lia].
        eapply good_bind_le with (b1 := cap) (b2 := 0);
          [change (with_capacity cap 1) with (reserve cap); apply reserve_good; exact Hcap| |lia].
        intros _ _. apply good_ret. apply dec_loop_len.
      * destruct (HC.c_trees e) as [|t0 ts] eqn:Et; [cbn [length] in H0; lia|].
        eapply good_bind_le with (b1 := cap) (b2 := 0);
          [change (with_capacity cap 1) with (reserve cap); apply reserve_good; exact Hcap| |lia].
        intros _ _. destruct (HC.c_order e =? 1).
        -- destruct (HC.dns true t0 (H.unpack bytes)) as [[s b1]|]; [|apply good_ret; cbn [length]; lia].
           eapply good_bind_le with (b1 := 0) (b2 := 0); [apply ctx_loop_o_good; exact Hok| |lia].
           intros vs Hvs. apply good_ret. cbn [length]. cbn beta in Hvs. lia.
        -- destruct (HC.dns true t0 (H.unpack bytes)) as [[s1 b1]|]; [|apply good_ret; cbn [length]; lia].
           destruct (N.eqb_spec outlen 1) as [|Ho1]; [apply good_ret; cbn [length]; lia|].
           destruct (HC.dns true t0 b1) as [[s2 b2]|]; [|apply good_ret; cbn [length]; lia].
           eapply good_bind_le with (b1 := 0) (b2 := 0); [apply ctx_loop_o_good; exact Hok| |lia].
           intros vs Hvs. apply good_ret. cbn [length]. cbn beta in Hvs.
           (* two leading symbols: cap >= 2 unless the input is a single bit short, which 8 * len + 1 >= 9 excludes *)
           assert (2 <= cap) by (unfold cap, bytes; cbn [nlen]; lia). lia.
    + intros out Hl. cbn beta in Hl. destruct (nlen out =? outlen); [|apply good_err].
      apply good_ret. rewrite nlen_length. unfold cap in *. lia.
    + lia.
  - lia.
Qed.

(* ---------- decode_xN ---------- *)
Lemma xn_decode_o_good e nst bytes outlen :
  nlen bytes < 2 ^ 60 ->
  good (fun _ => True) (XN_TABLE_BYTES + N.min outlen (8 * nlen bytes)) (xn_decode_o e nst bytes outlen).
Proof.
  intros Hlen. unfold xn_decode_o. destruct (negb (HC.c_order e =? 1)); [apply good_err_le; lia|].
  destruct bytes as [|b0 bytes']; [apply good_ret_le; exact I|].
  set (bytes := b0 :: bytes') in *. rewrite P60 in Hlen.
  assert (Hs : sat_mul (nlen bytes) 8 = nlen bytes * 8) by (unfold sat_mul; apply N.min_l; unfold W64; lia).
  eapply good_bind_le with (P := fun _ => True) (b1 := XN_TABLE_BYTES) (b2 := N.min outlen (8 * nlen bytes)); [cbn; split; [exact I|lia]| |lia].
  intros _ _. rewrite Hs. destruct (N.ltb_spec (nlen bytes * 8) outlen) as [|Hfit]; [apply good_err_le; lia|].
  eapply good_bind_le with (b1 := outlen) (b2 := 0).
  - change (with_capacity outlen 1) with (reserve outlen). apply reserve_good. unfold ISIZE_MAX, W63. lia.
  - intros _ _. match goal with |- context [match ?x with Some _ => _ | None => _ end] => destruct x end;
      [apply good_ret; exact I | apply good_err].
  - lia.
Qed.
