(* C15 mechanism model, blob-store loaders:
     src/blob_store/sorted_uint_vec.rs   SortedUintVec::from_bytes, get, get2, get_block (+ the private
                                         num_blocks, get_block_min_val, get_block_delta, extract_bits)
     src/blob_store/zip_offset.rs        FileHeader::from_bytes / validate, ZipOffsetBlobStoreConfig::validate,
                                         load_from_reader, BlobStore::get (get_record_impl)
   in the outcome monad of Model.v, the code's checks in the code's order.  Every arithmetic operation on
   a value that comes out of the file goes through a checked primitive (`mul_usize`, `add_usize`,
   `div_usize`), so a check that is missing or comes too late is a reachable Panic.

   extract_bits has three implementations (BEXTR, PEXT, portable) chosen by `use_simd` and the CPU; for the
   configurations `SortedUintVecConfig::validate` lets through (offset_width <= 32, sample_width <= 57 or
   = 64 and then byte aligned) all three return bits [bit_offset, bit_offset + width) of the byte
   string, which is what the model computes.
   zstd (records of a store with compress_level > 0) is outside the model: such a `get` is reported as
   WILD (any result is accepted by the correspondence check).
   Definitions only. *)
From ZV.Common Require Import Base Run.
From ZV.C15 Require Import Model.
Open Scope N_scope.

(* ---------- further checked primitives ---------- *)
Definition mul_usize (a b : N) : res N := if a * b <? W64 then ret (a * b) else Panic.
(* a / b on usize: division by zero panics in every profile *)
Definition div_usize (a b : N) : res N := if b =? 0 then Panic else ret (a / b).
Definition sat_mul (a b : N) : N := N.min (a * b) (W64 - 1).
(* Vec::reserve / FastVec::reserve of n bytes *)
Definition reserve (n : N) : res unit := with_capacity n 1.
(* a failed sub-operation whose error the caller maps to a value (`.unwrap_or(-1)` in the harness) *)
Definition or_neg1 (r : res Z) : res Z :=
  match r with Ok v a => Ok v a | Err a => Ok (-1)%Z a | Panic => Panic end.
Definition WILD : Z := (-2)%Z.

Definition le64_at (bytes : list N) (o : N) : N := from_le (firstn 8 (skipn (N.to_nat o) bytes)).
Definition byte_at (bytes : list N) (o : N) : N := nth (N.to_nat o) bytes 0.
Definition sub_bytes (bytes : list N) (o n : N) : list N := firstn (N.to_nat n) (skipn (N.to_nat o) bytes).

(* ---------- SortedUintVec ---------- *)
Record suv : Type := mkSuv {
  sv_size : N; sv_log2 : N; sv_ow : N; sv_sw : N; sv_simd : bool; sv_index : list N; sv_data : list N }.

(* SortedUintVecConfig::validate *)
Definition cfg_valid (log2 ow sw : N) : bool :=
  (4 <=? log2) && (log2 <=? 8) && (8 <=? ow) && (ow <=? 32) && (16 <=? sw) && (sw <=? 64)
  && negb ((57 <? sw) && (sw <? 64)).

(* from_bytes: length >= 32; size, config, index_len, data_len; 32 + index_len + data_len by
   checked_add; exact length; with_config(config)? (validation); THEN the division by offset_width;
   extend index, extend data. *)
Definition suv_from_bytes (bytes : list N) : res suv :=
  if nlen bytes <? 32 then Err 0 else
  let size := le64_at bytes 0 in
  let log2 := byte_at bytes 8 in
  let ow := byte_at bytes 9 in
  let sw := byte_at bytes 10 in
  let simd := negb (byte_at bytes 11 =? 0) in
  let index_len := le64_at bytes 16 in
  let data_len := le64_at bytes 24 in
  if W64 <=? 32 + index_len then Err 0 else
  if W64 <=? 32 + index_len + data_len then Err 0 else
  let total := 32 + index_len + data_len in
  if negb (nlen bytes =? total) then Err 0 else
  if negb (cfg_valid log2 ow sw) then Err 0 else
  q <- div_usize (sat_mul data_len 8) ow ;;
  if q <? size then Err 0 else
  _ <- reserve index_len ;;
  _ <- reserve data_len ;;
  ret (mkSuv size log2 ow sw simd (sub_bytes bytes 32 index_len) (sub_bytes bytes (32 + index_len) data_len)).

(* the variant a seeded regression produced: the division before the validation of its divisor *)
Definition suv_from_bytes_div_first (bytes : list N) : res suv :=
  if nlen bytes <? 32 then Err 0 else
  let size := le64_at bytes 0 in
  let log2 := byte_at bytes 8 in
  let ow := byte_at bytes 9 in
  let sw := byte_at bytes 10 in
  let simd := negb (byte_at bytes 11 =? 0) in
  let index_len := le64_at bytes 16 in
  let data_len := le64_at bytes 24 in
  if W64 <=? 32 + index_len then Err 0 else
  if W64 <=? 32 + index_len + data_len then Err 0 else
  let total := 32 + index_len + data_len in
  if negb (nlen bytes =? total) then Err 0 else
  q <- div_usize (sat_mul data_len 8) ow ;;
  if q <? size then Err 0 else
  if negb (cfg_valid log2 ow sw) then Err 0 else
  _ <- reserve index_len ;;
  _ <- reserve data_len ;;
  ret (mkSuv size log2 ow sw simd (sub_bytes bytes 32 index_len) (sub_bytes bytes (32 + index_len) data_len)).

Definition block_size (s : suv) : N := 2 ^ sv_log2 s.
(* (size + block_mask) >> log2_block_units *)
Definition num_blocks (s : suv) : res N :=
  t <- add_usize (sv_size s) (block_size s - 1) ;; ret (t / block_size s).

(* extract_bits: width check, bytes_needed = min((shift + width + 7) / 8, 8), bounds check, 8-byte window *)
Definition extract_bits (data : list N) (bit_offset width : N) : res N :=
  if (width =? 0) || (64 <? width) then Err 0 else
  let byte_offset := bit_offset / 8 in
  let shift := bit_offset mod 8 in
  let need := N.min ((shift + width + 7) / 8) 8 in
  end_ <- add_usize byte_offset need ;;
  if nlen data <? end_ then Err 0 else
  let raw := from_le (firstn 8 (skipn (N.to_nat byte_offset) data)) in
  ret ((raw / 2 ^ shift) mod 2 ^ width).

Definition get_block_min_val (s : suv) (bi : N) : res N :=
  nb <- num_blocks s ;;
  if nb <=? bi then Err 0 else
  so <- mul_usize bi (sv_sw s) ;;
  let byte_offset := so / 8 in
  let need := N.min ((so mod 8 + sv_sw s + 7) / 8) 8 in
  end_ <- add_usize byte_offset need ;;
  if nlen (sv_index s) <? end_ then Err 0 else
  extract_bits (sv_index s) so (sv_sw s).

(* block_idx * block_size * offset_width + offset_idx * offset_width; `value as u32` *)
Definition get_block_delta (s : suv) (bi oi : N) : res N :=
  a <- mul_usize bi (block_size s) ;;
  b <- mul_usize a (sv_ow s) ;;
  c <- mul_usize oi (sv_ow s) ;;
  d <- add_usize b c ;;
  v <- extract_bits (sv_data s) d (sv_ow s) ;;
  ret (v mod W32).

(* block_min + delta as u64: `fixed` = after the repair (checked_add, an error), else the plain `+` *)
Definition add_value (fixed : bool) (bm dl : N) : res N :=
  if fixed then (if bm + dl <? W64 then ret (bm + dl) else Err 0) else add_usize bm dl.

Definition get_unchecked (fixed : bool) (s : suv) (i : N) : res N :=
  let bi := i / block_size s in
  let oi := i mod block_size s in
  bm <- get_block_min_val s bi ;;
  dl <- get_block_delta s bi oi ;;
  add_value fixed bm dl.

Definition suv_get (fixed : bool) (s : suv) (i : N) : res N :=
  if sv_size s <=? i then Err 0 else get_unchecked fixed s i.

(* `index >= self.size || index + 1 >= self.size` *)
Definition suv_get2 (fixed : bool) (s : suv) (i : N) : res (N * N) :=
  if sv_size s <=? i then Err 0 else
  i1 <- add_usize i 1 ;;
  if sv_size s <=? i1 then Err 0 else
  v1 <- get_unchecked fixed s i ;;
  v2 <- get_unchecked fixed s i1 ;;
  ret (v1, v2).

(* get_block(block_idx, output) with output.len() = out_len: every element of the block through
   get_block_delta and the (repaired) checked addition - the AVX2 and the sequential path visit the
   same elements in the same order *)
Fixpoint block_loop (s : suv) (bi bm : N) (n : nat) (i : N) : res unit :=
  match n with
  | O => ret tt
  | S n' =>
      dl <- get_block_delta s bi i ;;
      _ <- add_value true bm dl ;;
      block_loop s bi bm n' (i + 1)
  end.
Definition suv_get_block (s : suv) (bi out_len : N) : res unit :=
  nb <- num_blocks s ;;
  if nb <=? bi then Err 0 else
  if out_len <? block_size s then Err 0 else
  bm <- get_block_min_val s bi ;;
  start <- mul_usize bi (block_size s) ;;
  e0 <- add_usize start (block_size s) ;;
  let stop := N.min e0 (sv_size s) in
  actual <- sub_usize stop start ;;
  block_loop s bi bm (N.to_nat actual) 0.

(* what the harness cell reports: len, then get(i) and get2(i).1 for i in
   [0, 1, n/2, n-2, n-1] (wrapping), then whether get_block(0) succeeded *)
Definition zN (r : res N) : res Z := v <- r ;; ret (Z.of_N v).
Definition ok01 (r : res unit) : res Z :=
  match r with Ok _ a => Ok 1%Z a | Err a => Ok 0%Z a | Panic => Panic end.
Fixpoint suv_probe (s : suv) (is : list N) : res (list Z) :=
  match is with
  | [] => ret []
  | i :: rest =>
      a <- or_neg1 (zN (suv_get true s i)) ;;
      b <- or_neg1 (zN ('(_, y) <- suv_get2 true s i ;; ret y)) ;;
      vs <- suv_probe s rest ;;
      ret (a :: b :: vs)
  end.
Definition suv_cell (bytes : list N) : res (list Z) :=
  s <- suv_from_bytes bytes ;;
  let n := sv_size s in
  vs <- suv_probe s [0; 1; n / 2; w64 (n + W64 - 2); w64 (n + W64 - 1)] ;;
  g <- ok01 (suv_get_block s 0 (N.min (block_size s) 4096)) ;;
  ret (Z.of_N n :: vs ++ [g]).

(* ---------- ZipOffsetBlobStore ---------- *)
Definition MAGIC : list N :=
  [122; 105; 112; 111; 114; 97; 45; 98; 108; 111; 98; 45; 115; 116; 111; 114; 101; 0; 0; 0].
Definition CLASS : list N :=
  [90; 105; 112; 79; 102; 102; 115; 101; 116; 66; 108; 111; 98; 83; 116; 111; 114; 101; 0; 0].

Record zstore : Type := mkZs {
  zs_content : list N; zs_offsets : suv; zs_compress : N; zs_checksum : N }.

(* BlobStore::len: offsets.len().saturating_sub(1) *)
Definition zs_len (z : zstore) : N := sv_size (zs_offsets z) - 1.

(* load_from_reader on a reader holding `bytes` *)
Definition zo_load (bytes : list N) : res zstore :=
  if nlen bytes <? 128 then Err 0 else
  if negb (eqb_ln (sub_bytes bytes 0 20) MAGIC) then Err 0 else
  if negb (eqb_ln (sub_bytes bytes 20 20) CLASS) then Err 0 else
  let rcv := le64_at bytes 56 in
  if negb ((rcv / 2 ^ 48) mod 65536 =? 1) then Err 0 else
  let content_bytes := le64_at bytes 64 in
  let offsets_bytes := le64_at bytes 72 in
  let log2 := byte_at bytes 80 in
  let checksum := byte_at bytes 81 in
  let compress := byte_at bytes 82 in
  (* ZipOffsetBlobStoreConfig::validate; offset_width 16 and sample_width 32 are the defaults *)
  if 22 <? compress then Err 0 else
  if 3 <? checksum then Err 0 else
  if negb (cfg_valid log2 16 32) then Err 0 else
  let rest := skipn 128 bytes in
  (* reader.take(content_bytes).read_to_end: grows with what arrives; then store.content.reserve *)
  let got := N.min content_bytes (nlen rest) in
  _ <- reserve got ;;
  if negb (got =? content_bytes) then Err 0 else
  _ <- reserve got ;;
  let content := firstn (N.to_nat got) rest in
  let rest1 := skipn (N.to_nat got) rest in
  (* padding to 16 bytes: (16 - content_bytes % 16) % 16 *)
  let pad := (16 - content_bytes mod 16) mod 16 in
  _ <- reserve pad ;;
  if nlen rest1 <? pad then Err 0 else
  let rest2 := skipn (N.to_nat pad) rest1 in
  let got2 := N.min offsets_bytes (nlen rest2) in
  _ <- reserve got2 ;;
  if negb (got2 =? offsets_bytes) then Err 0 else
  offs <- suv_from_bytes (firstn (N.to_nat got2) rest2) ;;
  let z := mkZs content offs compress checksum in
  if negb (zs_len z =? rcv mod 2 ^ 40) then Err 0 else
  ret z.

Definition byte_sum (l : list N) : N := fold_left (fun a b => (a + b) mod W32) l 0.

(* get -> get_record_impl::<COMPRESS, CHECKSUM_LEN>; the result is the record length *)
Definition zo_get (z : zstore) (id : N) : res Z :=
  if zs_len z <=? id then Err 0 else
  '(s, e) <- suv_get2 true (zs_offsets z) id ;;
  if (e <? s) || (nlen (zs_content z) <? e) then Err 0 else
  len0 <- sub_usize e s ;;
  let rec := sub_bytes (zs_content z) s len0 in
  let ck := if (zs_checksum z =? 2) || (zs_checksum z =? 3) then 4 else 0 in
  if len0 <? ck then Err 0 else
  len1 <- sub_usize len0 ck ;;
  if (ck =? 4) && negb (byte_sum (firstn (N.to_nat len1) rec) =? from_le (skipn (N.to_nat len1) rec)) then Err 0 else
  if 0 <? zs_compress z then ret WILD else
  _ <- reserve len1 ;;
  ret (Z.of_N len1).

(* the harness cell: len, then get(id as u32) for id in [0, 1, n/2, n-1 (wrapping)] *)
Fixpoint zo_probe (z : zstore) (ids : list N) : res (list Z) :=
  match ids with
  | [] => ret []
  | id :: rest => a <- or_neg1 (zo_get z (id mod W32)) ;; vs <- zo_probe z rest ;; ret (a :: vs)
  end.
Definition zo_cell (bytes : list N) : res (list Z) :=
  z <- zo_load bytes ;;
  let n := zs_len z in
  vs <- zo_probe z [0; 1; n / 2; w64 (n + W64 - 1)] ;;
  ret (Z.of_N n :: vs).

(* the padding skip as a seeded regression wrote it: 16 - content_bytes % 16 *)
Definition pad_regressed (content_bytes : N) : N := 16 - content_bytes mod 16.
