(* C15 mechanism model: file openers and further deserialisers.
     src/memory/mmap_vec.rs         MmapVecHeader::validate, MmapVec::<u64>::open (+ len, get, as_slice)
     src/blob_store/reorder_map.rs  ZReorderMap::open (+ size, Iterator::next)
       - both through the C19 models `mv_open` / `ro_parse` (coq/C19/Model.v: header parse, magic /
         version / element size / length <= capacity, capacity * size + 80 against the file length in
         checked arithmetic; the record stream with its run validation), with the outcome layer added:
         reservations, and a bounded walk over the runs (the iterator is taken 4096 times; a run may
         announce 10^17 values);
     src/entropy/dictionary.rs      Dictionary::deserialize
     src/compression/simd_lz77.rs   SimdLz77Compressor::decompress = decode_matches (has_bits(3) loop
                                    over the PA-Zip decode_match of Model.v) + reconstruct_from_matches with
                                    copy_backward_reference; the model tracks the output length.
   Definitions only. *)
From ZV.Common Require Import Base Run.
From ZV.C19 Require Model.
From ZV.C15 Require Import Model ModelBlob.
Module M19 := ZV.C19.Model.
Open Scope N_scope.

(* ---------- MmapVec::<u64>::open ---------- *)
(* create_mmap: an allocation of max(file size, minimum) and fs::read of the file *)
Definition mv_open_o (f : list N) : res (N * list N) :=
  _ <- reserve (nlen f) ;;
  _ <- reserve (nlen f) ;;
  match M19.mv_open 8 f with Some v => ret v | None => Err 0 end.
(* cell: len, get(0), get(1), get(len/2), get(len-1), wrapping sum of the last 64 elements *)
Definition get_or_neg1 (xs : list N) (i : N) : Z :=
  if i <? nlen xs then Z.of_N (nth (N.to_nat i) xs 0) else (-1)%Z.
Definition mv_cell (f : list N) : res (list Z) :=
  '(n, xs) <- mv_open_o f ;;
  ret [Z.of_N n; get_or_neg1 xs 0; get_or_neg1 xs 1; get_or_neg1 xs (n / 2); get_or_neg1 xs (w64 (n + W64 - 1));
       Z.of_N (fold_left (fun a x => w64 (a + x)) (firstn 64 (rev_append xs [])) 0)].

(* ---------- ZReorderMap::open ---------- *)
Definition ro_open_o (f : list N) : res (N * bool * list (N * N)) :=
  match M19.ro_parse f with Some v => ret v | None => Err 0 end.
(* Iterator::next, at most `fuel` steps: v = current value, c = values left in the current run *)
Fixpoint ro_take (fuel : nat) (neg : bool) (v c : N) (rs : list (N * N)) : list N :=
  match fuel with
  | O => []
  | S k =>
      if c =? 0 then
        match rs with
        | [] => []
        | (b, l) :: rs' => ro_take k neg b l rs'
        end
      else v :: ro_take k neg (if neg then w64 (v + M19.MINUS1) else w64 (v + 1)) (c - 1) rs
  end.
Definition ro_cell (f : list N) : res (list Z) :=
  '(size, neg, rs) <- ro_open_o f ;;
  let xs := firstn (N.to_nat 4096) (ro_take (N.to_nat 8200) neg 0 0 rs) in
  ret [Z.of_N size; Z.of_N (nlen xs); match rev xs with x :: _ => Z.of_N x | [] => (-1)%Z end].
Definition runs_total (rs : list (N * N)) : N := fold_right (fun r a => snd r + a) 0 rs.

(* ---------- Dictionary::deserialize ---------- *)
Fixpoint mem_seq (s : list N) (l : list (list N)) : bool :=
  match l with [] => false | x :: r => eqb_ln s x || mem_seq s r end.
(* `rem` = nlen data; entries: u16 length, sequence, u32 offset, u32 length; the map is keyed by sequence *)
Fixpoint dict_parse (n : nat) (data : list N) (rem : N) (seqs : list (list N)) : res (list (list N)) :=
  match n with
  | O => ret seqs
  | S n' =>
      if rem <? 2 then Err 0 else
      let sl := from_le (firstn 2 data) in
      if rem - 2 <? sl + 8 then Err 0 else
      _ <- reserve sl ;;
      let s := firstn (N.to_nat sl) (skipn 2 data) in
      dict_parse n' (skipn (N.to_nat (2 + sl + 8)) data) (rem - 2 - sl - 8) (if mem_seq s seqs then seqs else s :: seqs)
  end.
Definition dict_deser (data : list N) : res (list Z) :=
  if nlen data <? 4 then Err 0 else
  let n := from_le (firstn 4 data) in
  seqs <- dict_parse (N.to_nat (N.min n (nlen data / 10 + 1))) (skipn 4 data) (nlen data - 4) [] ;;
  ret [Z.of_N (nlen seqs)].

(* ---------- SimdLz77Compressor::decompress ---------- *)
(* decode_matches: while reader.has_bits(3) { decode_match }; obs triples [type; x; y] appended *)
Fixpoint slz_matches (fuel : nat) (r : br) (acc : list (list Z)) : res (list (list Z)) :=
  match fuel with
  | O => ret (rev acc)
  | S f =>
      if has_bits 3 r then
        '(obs, _, r') <- decode_match_m true r ;;
        slz_matches f r' (obs :: acc)
      else ret (rev acc)
  end.
(* copy_backward_reference: `checked` = the distance check as written; false = the seeded variant that
   leaves it to a debug_assert, so that `i % (output.len() - start_pos)` divides by zero *)
Definition slz_copy (checked : bool) (out_len dist len : N) : res N :=
  if checked && ((dist =? 0) || (out_len <? dist)) then Err 0 else
  start <- sub_usize out_len dist ;;
  (* first iteration: i % (output.len() - start_pos); later the modulus only grows *)
  _ <- (if len =? 0 then ret 0 else div_usize 0 (out_len - start)) ;;
  ret (out_len + len).
Fixpoint slz_rebuild (checked : bool) (ms : list (list Z)) (out_len : N) : res N :=
  match ms with
  | [] => ret out_len
  | m :: rest =>
      match m with
      | [ty; x; len] =>
          let ty := Z.to_N ty in let x := Z.to_N x in let len := Z.to_N len in
          if MAX_DECOMPRESSED - out_len <? len then Err 0 else
          if (ty =? 0) || (ty =? 1) || (ty =? 2) then slz_rebuild checked rest (out_len + len)
          else if x <=? out_len then n <- slz_copy checked out_len x len ;; slz_rebuild checked rest n
          else slz_rebuild checked rest (out_len + len)
      | _ => Err 0     (* not reached: decode_match_m reports [type; x; length] *)
      end
  end.
Definition slz_dec (checked : bool) (data : list N) : res N :=
  match data with
  | [] => ret 0
  | _ => ms <- slz_matches (3 * length data + 1) (br_init data) [] ;; slz_rebuild checked ms 0
  end.
