(* C15: the PA-Zip bit reader and match decoder never panic: the reader's bit position never
   underflows, the number of bits consumed is non-negative, the Far2Long length fits its type. *)
From ZV.Common Require Import Base.
From ZV.C15 Require Import Model ProofsCore ProofsLz.
Open Scope N_scope.

Definition inv (r : br) : Prop := br_cnt r <= br_pos r * 8.
Definition consumed (r : br) : N := br_pos r * 8 - br_cnt r.
Definition adv (r r' : br) : Prop := inv r' /\ consumed r <= consumed r'.

Lemma good_bind0 {A B} (P : A -> Prop) (Q : B -> Prop) (m : res A) (f : A -> res B) :
  good P 0 m -> (forall a, P a -> good Q 0 (f a)) -> good Q 0 (bind m f).
Proof. intros H1 H2. change 0 with (0 + 0). eapply good_bind; eassumption. Qed.

Lemma adv_refl r : inv r -> adv r r.
Proof. intros H. split; [assumption|lia]. Qed.
Lemma adv_trans a b c : adv a b -> adv b c -> adv a c.
Proof. unfold adv. intros [_ H1] [H2 H3]. split; [assumption|lia]. Qed.

Lemma br_refill_adv : forall fuel bits r, inv r -> inv (br_refill fuel bits r) /\ consumed (br_refill fuel bits r) = consumed r.
Proof.
  induction fuel as [|f IH]; intros bits r Hr; cbn [br_refill]; [split; [assumption|reflexivity]|].
  destruct (br_cnt r <? bits); [|split; [assumption|reflexivity]].
  destruct (br_data r) as [|b rest] eqn:E; [split; [assumption|reflexivity]|].
  set (r1 := mkBr rest _ _ _).
  assert (H1 : inv r1) by (unfold inv, r1 in *; cbn [br_cnt br_pos]; lia).
  destruct (IH bits r1 H1) as [Hi Hc]. split; [assumption|].
  rewrite Hc. unfold consumed, r1, inv in *. cbn [br_cnt br_pos]. lia.
Qed.

Lemma read_bits_good bits r :
  inv r -> good (fun '(_, r') => adv r r') 0 (read_bits bits r).
Proof.
  intros Hr. unfold read_bits. destruct (32 <? bits); [apply good_err|].
  destruct (br_refill_adv 5 bits r Hr) as [Hi Hc].
  set (r1 := br_refill 5 bits r) in *.
  destruct (N.ltb_spec (br_cnt r1) bits) as [Hb|Hb]; [apply good_err|].
  apply good_ret. cbn beta iota. unfold adv, inv, consumed in *. cbn [br_cnt br_pos]. lia.
Qed.

Ltac step :=
  eapply good_bind0;
  [ first [apply read_bits_good; assumption | eassumption]
  | let v := fresh "v" in let r := fresh "r" in let Hi := fresh "Hi" in let Hc := fresh "Hc" in
    intros [v r] [Hi Hc] ].

Lemma var_len_good r : inv r -> good (fun '(_, r') => adv r r') 0 (var_len r).
Proof.
  intros Hr. unfold var_len. step.
  destruct (v =? 0).
  - eapply good_weaken; [apply read_bits_good; assumption| |lia].
    intros [v' r'] H. cbn beta iota in *. eapply adv_trans; [split; eassumption|exact H].
  - step. destruct (v0 =? 0).
    + step. apply good_ret. cbn beta iota. unfold adv in *. split; [assumption|lia].
    + step. apply good_ret. cbn beta iota. unfold adv in *. split; [assumption|lia].
Qed.

Ltac vstep :=
  eapply good_bind0;
  [ apply var_len_good; assumption
  | let v := fresh "v" in let r := fresh "r" in let Hi := fresh "Hi" in let Hc := fresh "Hc" in
    intros [v r] [Hi Hc] ].
Ltac fin := apply good_ret; cbn beta iota; unfold adv in *; split; [assumption|lia].

Lemma bit_position_good r : inv r -> good (fun p => p = consumed r) 0 (bit_position r).
Proof.
  intros H. unfold bit_position, sub_usize. unfold inv in H.
  destruct (N.leb_spec (br_cnt r) (br_pos r * 8)); [|lia]. apply good_ret. reflexivity.
Qed.

Lemma decode_match_good r :
  inv r -> good (fun '(_, _, r') => inv r') 0 (decode_match_m true r).
Proof.
  intros Hr. unfold decode_match_m.
  eapply good_bind0; [apply bit_position_good; assumption|]. intros p0 Hp0.
  step.
  eapply good_bind0 with (P := fun '(_, r') => adv r r').
  { destruct (v =? 0); [step; fin|].
    destruct (v =? 1); [step; step; destruct (v1 <? 6); [apply good_err|fin]|].
    destruct (v =? 2); [step; step; fin|].
    destruct (v =? 3); [step; step; fin|].
    destruct (v =? 4); [step; step; fin|].
    destruct (v =? 5); [step; step; fin|].
    destruct (v =? 6).
    - step. vstep. destruct (65535 <? v1 + 34); [apply good_err|fin].
    - step. vstep. fin. }
  intros [obs r'] [Hi' Hc'].
  eapply good_bind0; [apply bit_position_good; assumption|]. intros p1 Hp1.
  eapply good_bind0; [apply sub_usize_good; blia|]. intros bits _.
  apply good_ret. assumption.
Qed.

Lemma decode_matches_loop_good : forall fuel r total acc,
  inv r -> good (fun _ => True) 0 (decode_matches_loop true fuel r total acc).
Proof.
  induction fuel as [|f IH]; intros r total acc Hr; cbn [decode_matches_loop].
  - apply good_ret. exact I.
  - destruct (has_bits 8 r); [|apply good_ret; exact I].
    eapply good_bind0; [apply decode_match_good; assumption|].
    intros [[obs bits] r'] Hi. apply IH. exact Hi.
Qed.

Lemma br_init_inv data : inv (br_init data).
Proof. unfold inv, br_init. cbn. lia. Qed.

Lemma decode_matches_good data : good (fun _ => True) 0 (decode_matches_m true data).
Proof. unfold decode_matches_m. apply decode_matches_loop_good. apply br_init_inv. Qed.

Lemma decode_match_top_good data : good (fun _ => True) 0 (decode_match_top true data).
Proof.
  unfold decode_match_top.
  eapply good_bind0; [apply decode_match_good; apply br_init_inv|].
  intros [[obs bits] r'] _. apply good_ret. exact I.
Qed.

(* the code before the fix: Far2Long, variable-length field 11 + 30 bits holding 32767 -> v = 65535,
   `v as u16 + 34` overflows u16 *)
Lemma decode_match_unfixed_panics :
  decode_match_top false [166; 145; 248; 255; 15; 0; 0] = Panic.
Proof. vm_compute. reflexivity. Qed.
