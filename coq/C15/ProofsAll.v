(* C15: every modelled parser, through the dispatch the harness uses. *)
From ZV.Common Require Import Base.
From ZV.C15 Require Import Model ProofsCore ProofsSeq ProofsLz ProofsPz ProofsHex ProofsIo.
Open Scope N_scope.

Definition within (data : list N) (r : res (list Z)) : Prop :=
  good (fun _ => True) (8 * nlen data + 65536) r.

Lemma within_of {P : list Z -> Prop} b data (r : res (list Z)) :
  good P b r -> b <= 8 * nlen data + 65536 -> within data r.
Proof. intros H Hb. unfold within. eapply good_weaken; [exact H| intros; exact I | exact Hb]. Qed.

Lemma pairZ_good (elem : list N -> res (Z * N)) data :
  elem_ok elem -> good (fun _ => True) 0 (pairZ (elem data)).
Proof.
  intros H. unfold pairZ. change 0 with (0 + 0).
  eapply good_bind; [apply H|]. intros [v k] _. apply good_ret. exact I.
Qed.

Lemma parser_total_proof : forall pid arg data,
  In pid model_ids -> nlen data < 2 ^ 60 ->
  exists r, run_model pid arg data = Some r /\ no_panic r /\ alloc_of r <= 8 * nlen data + 65536.
Proof.
  intros pid arg data Hin Hlen.
  assert (Hw : exists r, run_model pid arg data = Some r /\ within data r).
  { unfold model_ids in Hin. cbn [In] in Hin.
    repeat (destruct Hin as [<- | Hin]); try contradiction; cbn [run_model];
      eexists; (split; [reflexivity|]).
    (* 1 2 3 *)
    - eapply within_of; [apply pairZ_good, u_elem_ok|lia].
    - eapply within_of; [apply multi_loop_good|lia].
    - eapply within_of; [apply pairZ_good, zz_elem_ok|lia].
    (* 10..16 *)
    - eapply within_of; [apply pairZ_good, u_elem_ok|lia].
    - eapply within_of; [apply (good_err (fun _ : list Z => True) 0)|lia].
    - eapply within_of; [apply (good_err (fun _ : list Z => True) 0)|lia].
    - eapply within_of; [apply pairZ_good, u_elem_ok|lia].
    - eapply within_of; [apply pairZ_good, pf_elem_ok|lia].
    - eapply within_of; [apply pairZ_good, u_elem_ok|lia].
    - eapply within_of; [apply pairZ_good, u_elem_ok|lia].
    (* 20..26 *)
    - eapply within_of; [apply pairZ_good, leb_s_ok|lia].
    - eapply within_of; [apply pairZ_good, zz_elem_ok|lia].
    - eapply within_of; [apply (good_err (fun _ : list Z => True) 0)|lia].
    - eapply within_of with (b := 0 + 0); [|lia].
      eapply good_bind; [apply leb_u_ok|]. intros [v k] _. apply (good_ret (fun _ => True)). exact I.
    - eapply within_of; [apply pairZ_good, pf_s_elem_ok|lia].
    - eapply within_of; [apply pairZ_good, zz_elem_ok|lia].
    - eapply within_of; [apply pairZ_good, zz_elem_ok|lia].
    (* 30..36 *)
    - eapply within_of; [apply seq_dec_good; [apply u_elem_ok|assumption]|lia].
    - eapply within_of; [apply (good_err (fun _ : list Z => True) 0)|lia].
    - eapply within_of; [apply delta_u_dec_good; assumption|lia].
    - eapply within_of; [apply gv_dec_good; assumption|lia].
    - eapply within_of; [apply seq_dec_good; [apply pf_elem_ok|assumption]|lia].
    - eapply within_of; [apply seq_dec_good; [apply u_elem_ok|assumption]|lia].
    - eapply within_of; [apply seq_dec_good; [apply u_elem_ok|assumption]|lia].
    (* 40..46 *)
    - eapply within_of; [apply seq_dec_good; [apply leb_s_ok|assumption]|lia].
    - eapply within_of; [eapply map_res_good with (Q := fun _ => True); [apply seq_dec_good; [apply u_elem_ok|assumption]|auto]|lia].
    - eapply within_of; [apply delta_s_dec_good; assumption|lia].
    - eapply within_of; [eapply map_res_good with (Q := fun _ => True); [apply gv_dec_good; assumption|auto]|lia].
    - eapply within_of; [apply seq_dec_good; [apply pf_s_elem_ok|assumption]|lia].
    - eapply within_of; [eapply map_res_good with (Q := fun _ => True); [apply seq_dec_good; [apply u_elem_ok|assumption]|auto]|lia].
    - eapply within_of; [eapply map_res_good with (Q := fun _ => True); [apply seq_dec_good; [apply u_elem_ok|assumption]|auto]|lia].
    (* 50 51 52 *)
    - eapply within_of; [apply sdi_lp_bytes_good|unfold CHUNK; lia].
    - eapply within_of; [apply sdi_skip_good|lia].
    - eapply within_of; [apply vec_u32_dec_good|unfold PREALLOC_CAP; lia].
    (* 61 *)
    - eapply within_of with (b := 0 + 0); [|lia].
      eapply good_bind; [apply lz_dec_good|]. intros n _. apply (good_ret (fun _ => True)). exact I.
    (* 70 71 *)
    - eapply within_of; [apply decode_match_top_good|lia].
    - eapply within_of; [apply decode_matches_good|lia].
    (* 80 81 *)
    - eapply within_of; [apply hex_dec_good|].
      + assert (2 ^ 60 < W63) by (rewrite W63_eq; apply N.pow_lt_mono_r; lia). lia.
      + generalize dependent (nlen data). intros. lia.
    - eapply within_of; [apply hex_to_slice_good|lia]. }
  destruct Hw as [r [Hr Hg]]. exists r. split; [exact Hr|]. split.
  - eapply good_no_panic; exact Hg.
  - eapply good_alloc; exact Hg.
Qed.
