(* C15 mechanism model, Huffman family (src/entropy/huffman.rs): the outcome layer over the C01 models.
   Reused from coq/C01 (Model.v, ModelCtx.v): the tree type with its placeholder leaves, `insert` /
   `build_root` (insert_code_into_tree / build_decoding_tree_from_codes), `unpack`, `dec_loop`
   (HuffmanDecoder::decode, decode_order0), `dns` (decode_next_symbol), `ctx_key` / `map_get`, the
   BitStreamReader, `dos` (decode_one_symbol with its 12-bit table and tree fallback) and the
   round-robin loop `rr_loop` of decode_xn.
   Added here: the byte-level parsers HuffmanTree::deserialize and ContextualHuffmanEncoder::deserialize,
   the reservations, the length arguments as machine integers (a caller-supplied 2^64-1 is an ordinary
   input), and Panic where the code indexes `trees`.

   HashMap iteration order: build_decoding_tree_from_codes inserts the codes in the iteration order of a
   `HashMap` with a random state.  The parse phase is deterministic; the tree construction is modelled
   for an ARBITRARY insertion order (`ht_build ord`), and the correspondence check accepts both outcomes
   when the table is not order-free (`order_free`).

   decoders: the loops run at most cap = min(output_length, 8 * len + 1) times.  That is what the code
   does as long as every symbol costs at least one bit, which holds for every tree `new` builds and -
   since fix 0fcb2c4 - for every tree deserialize accepts (`fixed = false` keeps the old parser for the
   refutation theorem).
   Definitions only. *)
From ZV.Common Require Import Base Run.
From ZV.C01 Require Model ModelCtx.
From ZV.C15 Require Import Model ModelBlob.
Module H := ZV.C01.Model.
Module HC := ZV.C01.ModelCtx.
Open Scope N_scope.

(* ---------- HuffmanTree::deserialize ---------- *)
(* bit i of a code = bit (i mod 8) of its byte i / 8 *)
Definition code_of (bytes : list N) (len : N) : list bool := firstn (N.to_nat len) (H.unpack bytes).
(* HashMap::insert: a later entry for the same symbol replaces the earlier one *)
Definition tb_insert (s : N) (c : list bool) (tb : H.table) : H.table :=
  (s, c) :: filter (fun e => negb (fst e =? s)) tb.

(* `bc` (at most 32) more bytes present?  (measured on the bytes needed, not on the whole rest) *)
Definition has_bytes (data : list N) (n : N) : bool := n <=? nlen (firstn (N.to_nat n) data).
Fixpoint ht_parse (fixed : bool) (n : nat) (data : list N) (tb : H.table) (ml : N)
  : res (H.table * N) :=
  match n with
  | O => ret (tb, ml)
  | S n' =>
      match data with
      | s :: cl :: rest =>
          if fixed && (cl =? 0) then Err 0 else
          let bc := (cl + 7) / 8 in
          if negb (has_bytes rest bc) then Err 0 else
          _ <- with_capacity cl 1 ;;
          ht_parse fixed n' (skipn (N.to_nat bc) rest) (tb_insert s (code_of (firstn (N.to_nat bc) rest) cl) tb) (N.max ml cl)
      | _ => Err 0
      end
  end.
(* the code table (as a map) and max_code_length *)
Definition ht_deser (fixed : bool) (data : list N) : res (H.table * N) :=
  match data with
  | a :: b :: rest => ht_parse fixed (N.to_nat (a + 256 * b)) rest [] 0
  | _ => Err 0
  end.
(* build_decoding_tree_from_codes for the insertion order `ord` *)
Definition ht_build (ord : H.table) : res (option H.tree) :=
  match H.build_root ord with Some r => ret r | None => Err 0 end.
(* the number of nested calls of insert_code_into_tree for one code *)
Fixpoint insert_calls (t : H.tree) (c : list bool) : nat :=
  match c with
  | [] => 1
  | b :: c' =>
      match t with
      | H.Hole => match c' with [] => 1 | _ => S (insert_calls H.Hole c') end
      | H.Leaf _ => 1
      | H.Node l r => S (insert_calls (if b then r else l) c')
      end
  end.
(* every insertion order gives the same answer: at most one entry, or a prefix-free table *)
Definition order_free (tb : H.table) : bool := (length tb <=? 1)%nat || H.prefix_free tb.

(* ---------- HuffmanDecoder::decode ---------- *)
(* max_symbols_from_bits: byte_len.saturating_mul(8).saturating_add(1) *)
Definition max_symbols (len : N) : N := N.min (sat_mul len 8 + 1) (W64 - 1).
Definition huff_decode_o (capped : bool) (root : option H.tree) (bytes : list N) (outlen : N) : res (list N) :=
  match bytes with
  | [] => ret []
  | _ =>
      if outlen =? 0 then ret [] else
      match root with
      | None => Err 0
      | Some rt =>
          let cap := N.min outlen (max_symbols (nlen bytes)) in
          (* `capped = false`: Vec::with_capacity(output_length), the code before fix bbc208a *)
          _ <- with_capacity (if capped then cap else outlen) 1 ;;
          let out := H.dec_loop rt rt (H.unpack bytes) (N.to_nat cap) in
          if nlen out =? outlen then ret out else Err 0
      end
  end.

(* ---------- ContextualHuffmanEncoder::deserialize ---------- *)
Definition le32_at (bytes : list N) (o : N) : N := from_le (firstn 4 (skipn (N.to_nat o) bytes)).
(* size_of::<HuffmanTree>() on the 64-bit target: Option<HuffmanNode> 24 + HashMap 48 + usize 8 *)
Definition TREE_SIZE : N := 80.

(* `rem` = the number of bytes of `data` (carried along instead of re-measured) *)
Fixpoint ctx_map_parse (n : nat) (data : list N) (rem tree_count : N) (m : list (N * N))
  : res (list (N * N) * list N * N) :=
  match n with
  | O => ret (m, data, rem)
  | S n' =>
      if rem <? 8 then Err 0 else
      let ctx := le32_at data 0 in
      let idx := le32_at data 4 in
      if tree_count <=? idx then Err 0 else
      ctx_map_parse n' (skipn 8 data) (rem - 8) tree_count ((ctx, idx) :: m)
  end.
(* the trees.  A table that is not order-free gets the tree of the list order, or none: the caller
   reports OkOrErr for such an encoder (`ctx_free`) *)
Fixpoint ctx_trees_parse (fixed : bool) (n : nat) (data : list N) (rem : N) : res (list H.hufftree) :=
  match n with
  | O => ret []
  | S n' =>
      if rem <? 4 then Err 0 else
      let sz := le32_at data 0 in
      let rest := skipn 4 data in
      if rem - 4 <? sz then Err 0 else
      '(tb, _) <- ht_deser fixed (firstn (N.to_nat sz) rest) ;;
      let root := match H.build_root tb with Some r => r | None => None end in
      ts <- ctx_trees_parse fixed n' (skipn (N.to_nat sz) rest) (rem - 4 - sz) ;;
      ret (H.mkHT root tb :: ts)
  end.
Definition ctx_free (e : HC.cenc) : bool := forallb (fun t => order_free (H.ht_codes t)) (HC.c_trees e).
Definition ctx_deser (fixed : bool) (data : list N) : res HC.cenc :=
  match data with
  | [] => Err 0
  | o :: rest =>
      let rem := nlen rest in
      if 2 <? o then Err 0 else
      if rem <? 4 then Err 0 else
      let tree_count := le32_at rest 0 in
      let rest1 := skipn 4 rest in
      if rem - 4 <? 4 then Err 0 else
      let context_count := le32_at rest1 0 in
      '(m, rest2, rem2) <- ctx_map_parse (N.to_nat (N.min context_count (rem / 8 + 1))) (skipn 4 rest1) (rem - 8) tree_count [] ;;
      if tree_count =? 0 then Err 0 else
      if rem2 / 4 <? tree_count then Err 0 else
      _ <- with_capacity tree_count TREE_SIZE ;;
      ts <- ctx_trees_parse fixed (N.to_nat tree_count) rest2 rem2 ;;
      (* the indices are below tree_count, which the input has just been shown to hold *)
      ret (HC.mkC o ts (map (fun p => (fst p, N.to_nat (snd p))) m))
  end.

(* ---------- ContextualHuffmanDecoder::decode ---------- *)
(* self.encoder.trees[i] *)
Definition tree_at_o (e : HC.cenc) (i : nat) : res H.hufftree :=
  match nth_error (HC.c_trees e) i with Some t => ret t | None => Panic end.
Definition ctx_tree_o (e : HC.cenc) (hist : list N) : res H.hufftree :=
  match HC.ctx_key (HC.c_order e) hist with
  | Some k => match HC.map_get e k with Some i => tree_at_o e i | None => tree_at_o e 0 end
  | None => tree_at_o e 0
  end.
Fixpoint ctx_loop_o (e : HC.cenc) (hist : list N) (bits : list bool) (k : nat) : res (list N) :=
  match k with
  | O => ret []
  | S k' =>
      match bits with
      | [] => ret []
      | _ =>
          t <- ctx_tree_o e hist ;;
          match HC.dns true t bits with
          | Some (s, bits') => vs <- ctx_loop_o e (HC.push_hist s hist) bits' k' ;; ret (s :: vs)
          | None => ret []
          end
      end
  end.
Definition ctx_decode_o (e : HC.cenc) (bytes : list N) (outlen : N) : res (list N) :=
  match bytes with
  | [] => ret []
  | _ =>
      if outlen =? 0 then ret [] else
      let cap := N.min outlen (max_symbols (nlen bytes)) in
      let k := N.to_nat cap in
      let bits := H.unpack bytes in
      _ <- with_capacity cap 1 ;;
      out <-
        (if HC.c_order e =? 0 then
           t0 <- tree_at_o e 0 ;;
           match H.ht_root t0 with
           | None => Err 0
           | Some rt => _ <- with_capacity cap 1 ;; ret (H.dec_loop rt rt bits k)
           end
         else
           match HC.c_trees e with
           | [] => ret []
           | t0 :: _ =>
               _ <- with_capacity cap 1 ;;
               if HC.c_order e =? 1 then
                 match HC.dns true t0 bits with
                 | None => ret []
                 | Some (s, b1) => vs <- ctx_loop_o e [s] b1 (k - 1)%nat ;; ret (s :: vs)
                 end
               else
                 match HC.dns true t0 bits with
                 | None => ret []
                 | Some (s1, b1) =>
                     if outlen =? 1 then ret [s1] else
                     match HC.dns true t0 b1 with
                     | None => ret [s1]
                     | Some (s2, b2) => vs <- ctx_loop_o e [s2; s1] b2 (k - 2)%nat ;; ret (s1 :: s2 :: vs)
                     end
                 end
           end) ;;
      if nlen out =? outlen then ret out else Err 0
  end.

(* ---------- decode_x1 / x2 / x4 / x8 ---------- *)
(* build_decode_table: 257 tables of 4096 entries (u64, u8, u8) = 16 bytes each *)
Definition XN_TABLE_BYTES : N := 257 * 4096 * 16.
Definition xn_decode_o (e : HC.cenc) (nst : nat) (bytes : list N) (outlen : N) : res (list N) :=
  if negb (HC.c_order e =? 1) then Err 0 else
  match bytes with
  | [] => ret []
  | _ =>
      _ <- Ok tt XN_TABLE_BYTES ;;
      if sat_mul (nlen bytes) 8 <? outlen then Err 0 else
      _ <- with_capacity outlen 1 ;;
      let n := N.to_nat outlen in
      match HC.rr_loop true (HC.dec_step true e) n (HC.init_streams nst n) n (H.r_new bytes, repeat 0 n) with
      | Some st => ret (snd st)
      | None => Err 0
      end
  end.

(* ---------- what the harness cells report ---------- *)
Definition obs_bytes (v : list N) : list Z := Z.of_N (nlen v) :: map Z.of_N (firstn 24 v).
Definition obsR (r : res (list N)) : res (list Z) := v <- r ;; ret (obs_bytes v).
Definition PAYLOAD : list N := [90; 195; 0; 255; 23; 136; 49; 226; 77; 144; 15; 240; 170; 85; 1; 128].
(* the tree a trained decoder holds, from the bytes tree.serialize() wrote (a complete prefix-free
   table: every insertion order builds the tree of the code, which decodes like the heap-built one) *)
Definition tree_of_aux (aux : list N) : option (option H.tree) :=
  match ht_deser true aux with
  | Ok (tb, _) _ => H.build_root tb
  | _ => None
  end.
Definition cenc_of_aux (aux : list N) : option HC.cenc :=
  match ctx_deser true aux with Ok e _ => Some e | _ => None end.
